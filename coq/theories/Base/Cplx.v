(* Base/Cplx.v — complex numbers as pairs over an Ops record (fst/snd form, so
   that on ROps they are convertible with Coquelicot's Cplus/Cmult). *)
From Coq Require Import ZArith List.
From MV Require Import Ops.

Section Cplx.
  Context {T : Type} (O : Ops T).
  Definition C : Type := (T * T)%type.
  Definition c0 : C := (o0 O, o0 O).
  Definition c1 : C := (o1 O, o0 O).
  Definition ci : C := (o0 O, o1 O).
  Definition cofr (x : T) : C := (x, o0 O).
  Definition cre (z : C) : T := fst z.
  Definition cim (z : C) : T := snd z.
  Definition cadd (x y : C) : C := (oadd O (fst x) (fst y), oadd O (snd x) (snd y)).
  Definition csub (x y : C) : C := (osub O (fst x) (fst y), osub O (snd x) (snd y)).
  Definition copp (x : C) : C := (oopp O (fst x), oopp O (snd x)).
  Definition cmul (x y : C) : C :=
    (osub O (omul O (fst x) (fst y)) (omul O (snd x) (snd y)),
     oadd O (omul O (fst x) (snd y)) (omul O (snd x) (fst y))).
  Definition cconj (x : C) : C := (fst x, oopp O (snd x)).
  Definition cscale (a : T) (x : C) : C := (omul O a (fst x), omul O a (snd x)).
  Definition cnorm2 (x : C) : T := oadd O (omul O (fst x) (fst x)) (omul O (snd x) (snd x)).
  Definition cabs (x : C) : T := osqrt O (cnorm2 x).
  Definition cdiv (x y : C) : C :=
    let n := cnorm2 y in
    (odiv O (oadd O (omul O (fst x) (fst y)) (omul O (snd x) (snd y))) n,
     odiv O (osub O (omul O (snd x) (fst y)) (omul O (fst x) (snd y))) n).
  (* exp(i t) *)
  Definition ccis (t : T) : C := (ocos O t, osin O t).
  (* exp z and expm1 z, the latter without cancellation:
     Re = expm1 a * cos b - 2 sin^2(b/2),  Im = exp a * sin b *)
  Definition cexp (z : C) : C :=
    let e := oexp O (fst z) in (omul O e (ocos O (snd z)), omul O e (osin O (snd z))).
  Definition cexpm1 (z : C) : C :=
    let a := fst z in let b := snd z in
    let s := osin O (omul O (ohalf O) b) in
    (osub O (omul O (oexpm1 O a) (ocos O b)) (omul O (o2 O) (omul O s s)),
     omul O (oexp O a) (osin O b)).
End Cplx.
