(* Base/FInst.v — the binary64 instance: only runs (vm_compute). *)
From Coq Require Import PrimFloat Uint63 ZArith List Bool.
From MV Require Import Ops FloatFun.
Import ListNotations.
Open Scope float_scope.

Definition f_of_pos_Z (z : Z) : float := PrimFloat.of_uint63 (Uint63.of_Z z).
(* exact for |z| < 2^53; larger powers of ten used by odec stay exact up to 10^22 *)
Definition f_ofZ (z : Z) : float :=
  if (z <? 0)%Z then - f_of_pos_Z (- z) else f_of_pos_Z z.

Definition FOps : Ops float :=
  mkOps float 0 1 PrimFloat.add PrimFloat.sub PrimFloat.mul PrimFloat.div
        PrimFloat.opp PrimFloat.abs PrimFloat.sqrt fexp fexpm1 fsin fcos
        PrimFloat.ltb PrimFloat.leb f_ofZ.

(* closeness verdicts used by the case files *)
Definition fmaxabs (a b : float) : float := if abs a <? abs b then abs b else abs a.
Definition fclose (atol rtol a b : float) : bool :=
  (abs (a - b) <=? atol + rtol * fmaxabs a b) || (a =? b).
Fixpoint fclose_l (atol rtol : float) (a b : list float) : bool :=
  match a, b with
  | [], [] => true
  | x :: a', y :: b' => fclose atol rtol x y && fclose_l atol rtol a' b'
  | _, _ => false
  end.
Fixpoint fclose_ll (atol rtol : float) (a b : list (list float)) : bool :=
  match a, b with
  | [], [] => true
  | x :: a', y :: b' => fclose_l atol rtol x y && fclose_ll atol rtol a' b'
  | _, _ => false
  end.
Definition fclose_c (atol rtol : float) (a b : float * float) : bool :=
  fclose atol rtol (fst a) (fst b) && fclose atol rtol (snd a) (snd b).

(* indices of failing cases *)
Fixpoint failing_from {A} (chk : A -> bool) (i : nat) (cs : list A) : list nat :=
  match cs with
  | [] => []
  | c :: tl => if chk c then failing_from chk (S i) tl else i :: failing_from chk (S i) tl
  end.
Definition failing {A} (chk : A -> bool) (cs : list A) : list nat := failing_from chk 0 cs.
