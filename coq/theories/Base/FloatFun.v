(* Base/FloatFun.v — hand-written binary64 elementary functions (unverified;
   their agreement with numpy is measured by harness/floatfun_check.py on
   every run and reported in the evidence).  Only PrimFloat primitives. *)
From Coq Require Import PrimFloat ZArith List.
Import ListNotations.
Open Scope float_scope.

Definition fabs (x : float) : float := PrimFloat.abs x.

(* round to nearest integer (as a float), |x| < 2^51 *)
Definition magic : float := 6755399441055744.
Definition fround (x : float) : float := (x + magic) - magic.

Fixpoint horner (cs : list float) (x : float) : float :=
  match cs with
  | [] => 0
  | c :: cs' => c + x * horner cs' x
  end.

(* 2^k for an integer-valued float k, |k| <= 2047, by binary decomposition *)
Definition pow2_table : list (float * float * float) :=
  (* (bit, 2^bit, 2^-bit) *)
  [ (1024, 0x1p+1023 * 2, 0x1p-1022 * 0x1p-2);
    (512, 0x1p+512, 0x1p-512); (256, 0x1p+256, 0x1p-256);
    (128, 0x1p+128, 0x1p-128); (64, 0x1p+64, 0x1p-64); (32, 0x1p+32, 0x1p-32);
    (16, 0x1p+16, 0x1p-16); (8, 0x1p+8, 0x1p-8); (4, 0x1p+4, 0x1p-4);
    (2, 0x1p+2, 0x1p-2); (1, 0x1p+1, 0x1p-1) ].

Fixpoint scale2_pos (tbl : list (float * float * float)) (k acc : float) : float :=
  match tbl with
  | [] => acc
  | (b, p, _) :: tl => if b <=? k then scale2_pos tl (k - b) (acc * p) else scale2_pos tl k acc
  end.
Fixpoint scale2_neg (tbl : list (float * float * float)) (k acc : float) : float :=
  match tbl with
  | [] => acc
  | (b, _, q) :: tl => if b <=? k then scale2_neg tl (k - b) (acc * q) else scale2_neg tl k acc
  end.
Definition scale2 (x k : float) : float :=
  if 0 <=? k then scale2_pos (tl pow2_table) k x else scale2_neg pow2_table (- k) x.

Definition ln2_hi : float := 0x1.62e42fee00000p-1.
Definition ln2_lo : float := 0x1.a39ef35793c76p-33.
Definition inv_ln2 : float := 0x1.71547652b82fep+0.

Definition exp_coeffs : list float :=
  [1; 1; 0x1p-1; 0x1.5555555555555p-3; 0x1.5555555555555p-5; 0x1.1111111111111p-7;
   0x1.6c16c16c16c17p-10; 0x1.a01a01a01a01ap-13; 0x1.a01a01a01a01ap-16;
   0x1.71de3a556c734p-19; 0x1.27e4fb7789f5cp-22; 0x1.ae64567f544e4p-26;
   0x1.1eed8eff8d898p-29; 0x1.6124613a86d09p-33; 0x1.93974a8c07c9dp-37].

Definition fexp (x : float) : float :=
  if x <? -746 then 0
  else if 710 <? x then infinity
  else if x =? x then
    let k := fround (x * inv_ln2) in
    let r := (x - k * ln2_hi) - k * ln2_lo in
    scale2 (horner exp_coeffs r) k
  else x.

(* expm1: Taylor for |x| < 0.35, exp(x)-1 otherwise *)
Definition expm1_coeffs : list float :=
  [1; 0x1p-1; 0x1.5555555555555p-3; 0x1.5555555555555p-5; 0x1.1111111111111p-7;
   0x1.6c16c16c16c17p-10; 0x1.a01a01a01a01ap-13; 0x1.a01a01a01a01ap-16;
   0x1.71de3a556c734p-19; 0x1.27e4fb7789f5cp-22; 0x1.ae64567f544e4p-26;
   0x1.1eed8eff8d898p-29; 0x1.6124613a86d09p-33; 0x1.93974a8c07c9dp-37;
   0x1.ae7f3e733b81fp-41; 0x1.ae7f3e733b81fp-45; 0x1.952c77030ad4ap-49].
Definition fexpm1 (x : float) : float :=
  if fabs x <? 0x1.6666666666666p-2 then x * horner expm1_coeffs x
  else fexp x - 1.

(* sin / cos with 3-part Cody–Waite reduction (good to |x| ~ 1e5) *)
Definition two_over_pi : float := 0x1.45f306dc9c883p-1.
Definition pio2_1 : float := 0x1.921fb54400000p+0.
Definition pio2_2 : float := 0x1.0b4611a600000p-34.
Definition pio2_3 : float := 0x1.3198a2e037073p-69.

Definition sin_coeffs : list float := (* in r^2: sin r = r * P(r^2) *)
  [1; -0x1.5555555555555p-3; 0x1.1111111111111p-7; -0x1.a01a01a01a01ap-13;
   0x1.71de3a556c734p-19; -0x1.ae64567f544e4p-26; 0x1.6124613a86d09p-33;
   -0x1.ae7f3e733b81fp-41; 0x1.952c77030ad4ap-49; -0x1.2f49b46814157p-57].
Definition cos_coeffs : list float := (* cos r = Q(r^2) *)
  [1; -0x1p-1; 0x1.5555555555555p-5; -0x1.6c16c16c16c17p-10; 0x1.a01a01a01a01ap-16;
   -0x1.27e4fb7789f5cp-22; 0x1.1eed8eff8d898p-29; -0x1.93974a8c07c9dp-37;
   0x1.ae7f3e733b81fp-45; -0x1.6827863b97d97p-53; 0x1.e542ba4020225p-62].

Definition sin_k (r : float) : float := let z := r * r in r * horner sin_coeffs z.
Definition cos_k (r : float) : float := let z := r * r in horner cos_coeffs z.

Definition reduce (x : float) : float * float :=
  let k := fround (x * two_over_pi) in
  let r := ((x - k * pio2_1) - k * pio2_2) - k * pio2_3 in
  let q := k - 4 * fround (k * 0x1p-2) in   (* in {-2,-1,0,1,2} *)
  (q, r).

Definition fsin (x : float) : float :=
  let '(q, r) := reduce x in
  if q =? 0 then sin_k r
  else if q =? 1 then cos_k r
  else if q =? -1 then - cos_k r
  else - sin_k r.

Definition fcos (x : float) : float :=
  let '(q, r) := reduce x in
  if q =? 0 then cos_k r
  else if q =? 1 then - sin_k r
  else if q =? -1 then sin_k r
  else - cos_k r.
