(* Base/Mat.v — complex matrices over an Ops record.  Function-level operations
   (nat -> nat -> C, explicit dimension) carry the algebra; list-level matrices
   (list (list C)) are what runs: each operation materialises the function-level result
   with mmk, so no entry is recomputed.  mget_mmk connects the two views. *)
From Coq Require Import ZArith List Bool Arith.
From MV Require Import Ops Vec Cplx.
Import ListNotations.

Section Mat.
  Context {T : Type} (O : Ops T).
  Notation C := (C (T:=T)).
  Definition fmat := nat -> nat -> C.
  Definition mat := list (list C).

  (* sum_{k<n} f k *)
  Fixpoint csumf (n : nat) (f : nat -> C) : C :=
    match n with 0 => c0 O | S n' => cadd O (csumf n' f) (f n') end.

  Definition fmul (n : nat) (A B : fmat) : fmat := fun i j => csumf n (fun k => cmul O (A i k) (B k j)).
  Definition fadj (A : fmat) : fmat := fun i j => cconj O (A j i).
  Definition ftr (A : fmat) : fmat := fun i j => A j i.
  Definition fadd (A B : fmat) : fmat := fun i j => cadd O (A i j) (B i j).
  Definition fsub (A B : fmat) : fmat := fun i j => csub O (A i j) (B i j).
  Definition fscale (c : C) (A : fmat) : fmat := fun i j => cmul O c (A i j).
  Definition fhad (A B : fmat) : fmat := fun i j => cmul O (A i j) (B i j).     (* elementwise *)
  Definition fid : fmat := fun i j => if Nat.eqb i j then c1 O else c0 O.
  Definition fdiag (d : nat -> C) : fmat := fun i j => if Nat.eqb i j then d i else c0 O.
  Definition ftrace (n : nat) (A : fmat) : C := csumf n (fun i => A i i).

  Definition mget (M : mat) : fmat := fun i j => nth j (nth i M []) (c0 O).
  Definition mmk (n m : nat) (f : fmat) : mat := tabulate n (fun i => tabulate m (fun j => f i j)).

  Definition mmul (n : nat) (A B : mat) : mat := mmk n n (fmul n (mget A) (mget B)).
  Definition madj (n : nat) (A : mat) : mat := mmk n n (fadj (mget A)).
  Definition mtr (n : nat) (A : mat) : mat := mmk n n (ftr (mget A)).
  Definition madd (n : nat) (A B : mat) : mat := mmk n n (fadd (mget A) (mget B)).
  Definition msub (n : nat) (A B : mat) : mat := mmk n n (fsub (mget A) (mget B)).
  Definition mscale (n : nat) (c : C) (A : mat) : mat := mmk n n (fscale c (mget A)).
  Definition mhad (n : nat) (A B : mat) : mat := mmk n n (fhad (mget A) (mget B)).
  Definition mdiag (n : nat) (d : list C) : mat := mmk n n (fdiag (fun i => nth i d (c0 O))).
  Definition mtrace (n : nat) (A : mat) : C := ftrace n (mget A).
  Definition mofreal (n : nat) (A : list (list T)) : mat :=
    mmk n n (fun i j => cofr O (nth j (nth i A []) (o0 O))).
End Mat.
