(* Base/Ops.v — the record of scalar operations over which every numeric
   model is written once.  Two instances: ROps (RInst.v, theorems) and FOps
   (FInst.v, binary64, runs under vm_compute in the correspondence check). *)
From Coq Require Import ZArith List Bool.
Import ListNotations.

Record Ops (T : Type) : Type := mkOps {
  o0 : T; o1 : T;
  oadd : T -> T -> T; osub : T -> T -> T; omul : T -> T -> T; odiv : T -> T -> T;
  oopp : T -> T; oabs : T -> T; osqrt : T -> T;
  oexp : T -> T; oexpm1 : T -> T; osin : T -> T; ocos : T -> T;
  oltb : T -> T -> bool; oleb : T -> T -> bool;
  oofZ : Z -> T }.

Arguments o0 {T} _. Arguments o1 {T} _.
Arguments oadd {T} _ _ _. Arguments osub {T} _ _ _. Arguments omul {T} _ _ _.
Arguments odiv {T} _ _ _. Arguments oopp {T} _ _. Arguments oabs {T} _ _.
Arguments osqrt {T} _ _. Arguments oexp {T} _ _. Arguments oexpm1 {T} _ _.
Arguments osin {T} _ _. Arguments ocos {T} _ _.
Arguments oltb {T} _ _ _. Arguments oleb {T} _ _ _. Arguments oofZ {T} _ _.

Declare Scope ops_scope.
Delimit Scope ops_scope with O.

Section Derived.
  Context {T : Type} (O : Ops T).
  Definition o2 : T := oofZ O 2.
  Definition ohalf : T := odiv O (o1 O) o2.
  (* p / 10^k : how decimal literals of the source are written (correctly
     rounded in binary64 for the literals used: 1e-3, 1e-8, 1e-10, 1e-14) *)
  Definition odec (p : Z) (k : nat) : T := odiv O (oofZ O p) (oofZ O (10 ^ Z.of_nat k)).
  Definition omax (x y : T) : T := if oltb O x y then y else x.
  Definition omin (x y : T) : T := if oltb O y x then y else x.
  Definition osqr (x : T) : T := omul O x x.
  Definition otanh (x : T) : T :=
    let e := oexpm1 O (omul O o2 x) in odiv O e (oadd O e o2).
  Definition ocosh (x : T) : T :=
    let e := oexp O x in omul O ohalf (oadd O e (odiv O (o1 O) e)).
  Definition otan (x : T) : T := odiv O (osin O x) (ocos O x).
  Definition ogtb (x y : T) : bool := oltb O y x.
  Definition ogeb (x y : T) : bool := oleb O y x.
End Derived.
