(* Base/RInst.v — the real-number instance: all theorems are about it. *)
From Coq Require Import Reals ZArith Lra.
From MV Require Import Ops.
Open Scope R_scope.

Definition Rltb (x y : R) : bool := if Rlt_dec x y then true else false.
Definition Rleb (x y : R) : bool := if Rle_dec x y then true else false.

Definition ROps : Ops R :=
  mkOps R 0 1 Rplus Rminus Rmult Rdiv Ropp Rabs sqrt exp (fun x => exp x - 1) sin cos
        Rltb Rleb IZR.

Lemma Rltb_true x y : Rltb x y = true <-> x < y.
Proof. unfold Rltb; destruct (Rlt_dec x y); split; intros; try easy; lra. Qed.
Lemma Rltb_false x y : Rltb x y = false <-> y <= x.
Proof. unfold Rltb; destruct (Rlt_dec x y); split; intros; try easy; lra. Qed.
Lemma Rleb_true x y : Rleb x y = true <-> x <= y.
Proof. unfold Rleb; destruct (Rle_dec x y); split; intros; try easy; lra. Qed.
Lemma Rleb_false x y : Rleb x y = false <-> y < x.
Proof. unfold Rleb; destruct (Rle_dec x y); split; intros; try easy; lra. Qed.

Lemma Rltb_spec x y : Bool.reflect (x < y) (Rltb x y).
Proof. destruct (Rltb x y) eqn:E; constructor; [apply Rltb_true|apply Rltb_false in E; lra]; easy. Qed.
Lemma Rleb_spec x y : Bool.reflect (x <= y) (Rleb x y).
Proof. destruct (Rleb x y) eqn:E; constructor; [apply Rleb_true|apply Rleb_false in E; lra]; easy. Qed.
