(* Base/Vec.v — vectors as lists over an Ops record. *)
From Coq Require Import ZArith List.
From MV Require Import Ops.
Import ListNotations.

Section Vec.
  Context {T : Type} (O : Ops T).
  Fixpoint vsum (l : list T) : T :=
    match l with [] => o0 O | x :: t => oadd O x (vsum t) end.
  Fixpoint vmap2 (f : T -> T -> T) (a b : list T) : list T :=
    match a, b with x :: a', y :: b' => f x y :: vmap2 f a' b' | _, _ => [] end.
  Definition vadd := vmap2 (oadd O).
  Definition vsub := vmap2 (osub O).
  Definition vmul := vmap2 (omul O).
  Definition vdivv := vmap2 (odiv O).
  Definition vscale (s : T) (a : list T) : list T := map (omul O s) a.
  Definition vdot (a b : list T) : T := vsum (vmul a b).
  Definition vnorm (a : list T) : T := osqrt O (vdot a a).
  Definition ofnat (i : nat) : T := oofZ O (Z.of_nat i).
  Definition tabulate {A} (n : nat) (f : nat -> A) : list A := map f (seq 0 n).
  Definition vget (l : list T) (i : nat) : T := nth i l (o0 O).
  Fixpoint vprod (l : list T) : T :=
    match l with [] => o1 O | x :: t => omul O x (vprod t) end.
  Fixpoint vcumsum_from (acc : T) (l : list T) : list T :=
    match l with [] => [] | x :: t => let a := oadd O acc x in a :: vcumsum_from a t end.
  Definition vcumsum (l : list T) : list T := vcumsum_from (o0 O) l.
  Fixpoint vall2 (f : T -> T -> bool) (a b : list T) : bool :=
    match a, b with
    | [], [] => true
    | x :: a', y :: b' => f x y && vall2 f a' b'
    | _, _ => false
    end.
End Vec.
Arguments tabulate {A} n f.
