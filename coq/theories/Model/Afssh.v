(* Model/Afssh.v — afssh.py: advance_delR (55-85), advance_delP (87-126), compute_delF,
   direction_of_rescale (128-141), collapse in surface_hopping (175-208), hop_update (210-217).
   One nuclear dimension x at a time: delR[x], delP[x], delF[x] are n x n matrices.
   eigh(W) is an oracle: (eps, co) enter as data. *)
From Coq Require Import ZArith List Bool Arith.
From MV Require Import Ops Vec Cplx Mat Poisson Propagate.
Import ListNotations.

Section Afssh.
  Context {T : Type} (O : Ops T).
  Notation C := (C (T:=T)).
  Local Notation "x * y" := (omul O x y).

  Definition eig (eps : list T) (i : nat) : T := nth i eps (o0 O).
  (* expiht[i,j] = exp(-1j*dt*(eps_i - eps_j)) *)
  Definition expiht (n : nat) (eps : list T) (dt : T) : mat :=
    mmk n n (fun i j => ccis O (oopp O (dt * osub O (eig eps i) (eig eps j)))).
  (* co^dagger A co  and  co A co^dagger *)
  Definition to_eig (n : nat) (co A : mat) : mat := mmul O n (mmul O n (madj O n co) A) co.
  Definition from_eig (n : nat) (co A : mat) : mat := mmul O n (mmul O n co A) (madj O n co).

  (* advance_delR, 'exp': Rt = (co^dag delR co + co^dag (delP/m) co * dt) * expiht ; delR = co Rt co^dag *)
  Definition delR_exp (n : nat) (eps : list T) (co : mat) (dt mass : T) (delR delP : mat) : mat :=
    let delV := rscale O n (odiv O (o1 O) mass) delP in
    let Rt := mhad O n (madd O n (to_eig n co delR) (rscale O n dt (to_eig n co delV))) (expiht n eps dt) in
    from_eig n co Rt.
  (* note: the code divides delP by the mass (delP / mass[x]); 1/mass * delP differs by one rounding *)

  (* advance_delR, 'rk4': ydot = -1j*(H R - R H) + delV, 4 sub-steps *)
  Definition comm_i (n : nat) (H R : mat) : mat := mi_scale O n (msub O n (mmul O n H R) (mmul O n R H)).
  Definition delR_rk4 (n : nat) (H : mat) (dt mass : T) (delR delP : mat) : mat :=
    let delV := rscale O n (odiv O (o1 O) mass) delP in
    rk4 O n delR (fun R _ => madd O n (comm_i n H R) delV) (o0 O) dt 4.

  (* compute_delF: force_matrix[x] with the active-state force subtracted on the diagonal *)
  Definition delF (n : nat) (fmx : list (list T)) (f0 : T) : mat :=
    mmk n n (fun i j => cofr O (if Nat.eqb i j then osub O (nth j (nth i fmx []) (o0 O)) f0 else nth j (nth i fmx []) (o0 O))).

  (* poiss[i,j,k] = -pps(1j*eee*dt)*dt, eee[i,j,k] = 2 eps_i - (eps_j + eps_k); poiss_star with -1j *)
  Definition eee (eps : list T) (i j k : nat) : T := osub O (o2 O * eig eps i) (oadd O (eig eps j) (eig eps k)).
  Definition poiss (eps : list T) (dt : T) (i j k : nat) : C :=
    cscale O (oopp O dt) (cpps O (o0 O, eee eps i j k * dt)).
  Definition poiss_star (eps : list T) (dt : T) (i j k : nat) : C :=
    cscale O (oopp O dt) (cpps O (o0 O, oopp O (eee eps i j k * dt))).

  (* FF[i,j] = -0.5 * ( sum_k dF[i,k] rho[k,j] poiss[j,i,k] + sum_k rho[i,k] dF[k,j] poiss_star[i,j,k] ) *)
  Definition FFmat (n : nat) (eps : list T) (dt : T) (dF rho : mat) : mat :=
    mmk n n (fun i j =>
      cscale O (oopp O (ohalf O))
        (cadd O (csumf O n (fun k => cmul O (cmul O (mget O dF i k) (mget O rho k j)) (poiss eps dt j i k)))
                (csumf O n (fun k => cmul O (cmul O (mget O rho i k) (mget O dF k j)) (poiss_star eps dt i j k))))).

  Definition delP_exp (n : nat) (eps : list T) (co : mat) (dt : T) (delPm dFm rho : mat) : mat :=
    let FF := FFmat n eps dt (to_eig n co dFm) (to_eig n co rho) in
    from_eig n co (mhad O n (madd O n (to_eig n co delPm) FF) (expiht n eps dt)).

  (* 'rk4': dFrho_comm = 0.5*(dF rho + rho dF); ydot = -1j*(H P - P H) + dFrho_comm *)
  Definition delP_rk4 (n : nat) (H : mat) (dt : T) (delPm dFm rho : mat) : mat :=
    let src := rscale O n (ohalf O) (madd O n (mmul O n dFm rho) (mmul O n rho dFm)) in
    rk4 O n delPm (fun P _ => madd O n (comm_i n H P) src) (o0 O) dt 4.

  (* hop_update: every diagonal element loses the new active state's diagonal element *)
  Definition hop_shift (n : nat) (t : nat) (M : mat) : mat :=
    mmk n n (fun i j => if Nat.eqb i j then csub O (mget O M i i) (mget O M t t) else mget O M i j).

  (* collapse: rho = |k><k|, moments zero *)
  Definition collapse_rho (n k : nat) : mat := mmk n n (fun i j => if Nat.eqb i k && Nat.eqb j k then c1 O else c0 O).
  Definition zero_mat (n : nat) : mat := mmk n n (fun _ _ => c0 O).

  (* direction_of_rescale: Re(delP[x, source, source] - delP[x, target, target]) for each x *)
  Definition afssh_direction (delPs : list mat) (source target : nat) : list T :=
    map (fun M => cre (csub O (mget O M source source) (mget O M target target))) delPs.
End Afssh.

(* ---- collapse: gamma_collapse (139-170) and the collapse loop of surface_hopping (172-208) ---- *)
Section Collapse.
  Context {T : Type} (O : Ops T).
  Local Notation "x * y" := (omul O x y).
  Local Notation "x - y" := (osub O x y).
  (* np.sign *)
  Definition osign (x : T) : T := if oltb O x (o0 O) then oopp O (o1 O) else if oltb O (o0 O) x then o1 O else o0 O.
  (* gamma_collapse (afssh.py 139-170).  dR, dP : per dimension x the real parts of the diagonal of delR[x], delP[x]
     (lists over states); F : per state the force vector (diagonal of the force matrix).  k = active state. *)
  Definition gamma_collapse (n : nat) (dR dP : list (list T)) (F : list (list T)) (k : nat) (dt : T) : list T :=
    tabulate n (fun i =>
      if Nat.eqb i k then ohalf O * o0 O * dt else
      let terms := map (fun x =>
          let ddR := vget O (nth x dR []) k - vget O (nth x dR []) i in
          let ddP0 := vget O (nth x dP []) k - vget O (nth x dP []) i in
          let ddP := if oleb O (oabs O ddP0) (o0 O) then odec O 1 10 else ddP0 in
          let ddF := vget O (nth k F []) x - vget O (nth i F []) x in
          ddF * (ddR * osign (odiv O ddR ddP))) (seq 0 (length dR)) in
      (ohalf O * vsum O terms) * dt).
  (* the collapse loop of surface_hopping: one uniform per non-active state, in state order; collapse when some e_i < gamma_i *)
  Fixpoint collapse_scan (gam : list T) (k i : nat) (us : list T) : bool * list T :=
    match gam with
    | [] => (false, us)
    | g :: rest =>
        if Nat.eqb i k then collapse_scan rest k (S i) us
        else match us with
             | [] => (false, [])
             | e :: us' => let '(c, r) := collapse_scan rest k (S i) us' in (oltb O e g || c, r)
             end
    end.
  (* what the collapse does to (rho, delR[x], delP[x]) *)
  Definition collapse_apply (n k : nat) (collapsed : bool) (rho : mat (T:=T)) (dRs dPs : list (mat (T:=T))) :=
    if collapsed then (collapse_rho O n k, map (fun _ => zero_mat O n) dRs, map (fun _ => zero_mat O n) dPs) else (rho, dRs, dPs).
End Collapse.
