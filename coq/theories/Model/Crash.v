(* Model/Crash.v — the file-system states a YAMLTrace passes through while recording
   snapshots (tracer.py collect / write_main_log, after the crash-safety fix), at the
   granularity of one completed file operation, and what load_log reads back. *)
From Coq Require Import List Arith.
From MV Require Import TraceStore.
Import ListNotations.

Section Crash.
  Context {A : Type}.
  (* what is on disk: the number of pages the main log names, and the page files present
     (possibly one page more than named) *)
  Record disk := mkDisk { listed : nat; dpages : list (list A) }.
  Definition disk_of (s : store (A:=A)) : disk := mkDisk (length (pages s)) (pages s).
  (* load_log + iteration: the named pages, in order *)
  Definition load (d : disk) : list A := concat (firstn (listed d) (dpages d)).

  (* disk states after each completed file operation of collect(x) *)
  Definition collect_states (s : store) (x : A) : list disk :=
    if Nat.eqb (Nat.div (logsize s) (pitch s)) (length (pages s) - 1)
    then [disk_of (collect s x)]                                   (* append to the active page *)
    else [mkDisk (length (pages s)) (pages s ++ [[x]]);            (* new page written, not yet named *)
          mkDisk (length (pages s)) (pages s ++ [[x]]);            (* temporary main log written *)
          disk_of (collect s x)].                                  (* renamed over the main log *)

  (* all states visited while recording xs from store s, each tagged with the number of
     snapshots whose collect had completed before the operation *)
  Fixpoint visited (s : store) (m : nat) (xs : list A) : list (nat * disk) :=
    match xs with
    | [] => []
    | x :: rest => map (fun d => (m, d)) (collect_states s x) ++ visited (collect s x) (S m) rest
    end.
End Crash.
