(* Model/Cumulative.v — cumulative_sh.py: TrajectoryCum.__init__ (24-29), hopper (49-74);
   draw_new_zeta (trajectory_sh.py 308-318); numpy Generator.choice(p=) =
   first index i with u < cdf_i, cdf = cumsum(p)/sum(p), one uniform draw u. *)
From Coq Require Import ZArith List Bool.
From MV Require Import Ops Vec Hopper.
Import ListNotations.

Section Cumulative.
  Context {T : Type} (O : Ops T).
  Local Notation "x + y" := (oadd O x y).
  Local Notation "x - y" := (osub O x y).
  Local Notation "x * y" := (omul O x y).
  Local Notation "x / y" := (odiv O x y).

  (* thresholds: user list first, then the generator stream *)
  Record cstate := mkC { acc : T; zeta : T; zlist : list T; stream : list T }.

  Definition draw (zl st : list T) : T * list T * list T :=
    match zl with
    | z :: zl' => (z, zl', st)
    | [] => match st with u :: st' => (u, [], st') | [] => (o1 O, [], []) end
    end.

  Definition init (zl st : list T) : cstate :=
    let '(z, zl', st') := draw zl st in mkC (o0 O) z zl' st'.

  (* accumulated += (accumulated - 1) * expm1(-G) *)
  Definition accumulate (a G : T) : T := a + (a - o1 O) * oexpm1 O (oopp O G).

  Definition choice (g : list T) (u : T) : option nat :=
    let G := vsum O g in
    let p := map (fun x => x / G) g in
    let tot := vsum O p in
    first_below O u (o0 O) (map (fun x => x / tot) p) 0.

  (* one call of hopper(gkndt): returns the new state and the attempt (target, zeta used, prob) *)
  Definition cum_step (s : cstate) (g : list T) : cstate * option (option nat * T * T) :=
    let G := vsum O g in
    let a := accumulate (acc s) G in
    if oltb O (zeta s) a then
      match stream s with
      | u :: st' =>
          let tg := choice g u in
          let '(z, zl', st'') := draw (zlist s) st' in
          (mkC (o0 O) z zl' st'', Some (tg, zeta s, a))
      | [] => (s, Some (None, zeta s, a))       (* stream exhausted: excluded by the statements *)
      end
    else (mkC a (zeta s) (zlist s) (stream s), None).

  Fixpoint cum_run (s : cstate) (gs : list (list T)) : list (option (option nat * T * T)) * cstate :=
    match gs with
    | [] => ([], s)
    | g :: rest => let '(s', o) := cum_step s g in
                   let '(os, sf) := cum_run s' rest in (o :: os, sf)
    end.

  (* even_sampling.py hopper: accumulated = 1 - (1 - accumulated)*exp(-G) *)
  Definition accumulate_es (a G : T) : T := o1 O - (o1 O - a) * oexp O (oopp O G).
End Cumulative.
