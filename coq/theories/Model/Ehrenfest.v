(* Model/Ehrenfest.v — ehrenfest.py (18-42): potential_energy, _force, surface_hopping. *)
From Coq Require Import ZArith List Bool Arith.
From MV Require Import Ops Vec Cplx Mat.
Import ListNotations.

Section Ehrenfest.
  Context {T : Type} (O : Ops T).
  (* np.real(np.trace(np.dot(rho, H))) *)
  Definition eh_potential (n : nat) (rho H : mat) : T := cre (mtrace O n (mmul O n rho H)).
  (* the code: sum_i Re(rho_ii) * force(i)      — force : nstates x ndim *)
  Definition eh_force_code (n : nat) (rho : mat) (force : list (list T)) : list T :=
    fold_left (fun acc i => vadd O acc (vscale O (cre (mget O rho i i)) (nth i force [])))
              (seq 0 n) (map (fun _ => o0 O) (nth 0 force [])).
  (* the mean-field force -tr(rho grad H) = Re sum_ij rho_ji F_ij, F_ij = force_matrix[i,j,:] *)
  Definition eh_force_meanfield (n ndim : nat) (rho : mat) (fmx : list (list (list T))) : list T :=
    tabulate ndim (fun x =>
      vsum O (tabulate n (fun i => vsum O (tabulate n (fun j =>
        cre (cmul O (mget O rho j i) (cofr O (nth x (nth j (nth i fmx []) []) (o0 O))))))))).
  (* surface_hopping: "Ehrenfest never hops" *)
  Definition eh_surface_hopping (active : nat) : nat := active.
End Ehrenfest.
