(* Model/Electronics.v — models/electronics.py: DiabaticModel_.compute (163-233:
   _compute_basis_states, _compute_force, _compute_force_matrix,
   _compute_derivative_coupling) and the AdiabaticModel_ variant (261-343, truncated to
   nstates, floor 1e-14).  np.linalg.eigh(V) is an oracle: (energies, coeff) are inputs.
   Real matrices are list (list T); coeff is N x nst (N basis functions, nst states). *)
From Coq Require Import ZArith List Bool Arith.
From MV Require Import Ops Vec.
Import ListNotations.

Section Electronics.
  Context {T : Type} (O : Ops T).
  Local Notation "x + y" := (oadd O x y).
  Local Notation "x - y" := (osub O x y).
  Local Notation "x * y" := (omul O x y).
  Local Notation "x / y" := (odiv O x y).
  Definition rmat := list (list T).
  Definition rg (M : rmat) (i j : nat) : T := nth j (nth i M []) (o0 O).
  Definition rmk (n m : nat) (f : nat -> nat -> T) : rmat := tabulate n (fun i => tabulate m (fun j => f i j)).
  Definition rsum (n : nat) (f : nat -> T) : T := vsum O (tabulate n f).

  (* column mo of coeff *)
  Definition col (N : nat) (Cm : rmat) (mo : nat) : list T := tabulate N (fun p => rg Cm p mo).

  (* sign fix: if dot(coeff[:,mo], reference[:,mo]) < 0: coeff[:,mo] *= -1 *)
  Definition col_sign (N : nat) (Cm ref : rmat) (mo : nat) : T :=
    if oltb O (vdot O (col N Cm mo) (col N ref mo)) (o0 O) then oopp O (o1 O) else o1 O.
  Definition signfix (N nst : nat) (Cm : rmat) (ref : option rmat) : rmat :=
    match ref with
    | None => rmk N nst (rg Cm)
    | Some r => rmk N nst (fun p mo => rg Cm p mo * col_sign N Cm r mo)
    end.

  (* (C^T A C)[i,j] = sum_p sum_q C[p,i] A[p,q] C[q,j] *)
  Definition ctac (N : nat) (Cm A : rmat) (i j : nat) : T :=
    rsum N (fun p => rsum N (fun q => (rg Cm p i * rg A p q) * rg Cm q j)).

  (* force[i] = - (C^T dV C)[i,i] ;  force_matrix = - C^T dV C *)
  Definition force_of (N nst : nat) (Cm dV : rmat) : list T := tabulate nst (fun i => oopp O (ctac N Cm dV i i)).
  Definition force_matrix_of (N nst : nat) (Cm dV : rmat) : rmat := rmk nst nst (fun i j => oopp O (ctac N Cm dV i j)).

  (* derivative coupling with the energy-gap floor and zero diagonal *)
  Definition gap (floor : T) (Ei Ej : T) : T :=
    let dE := Ej - Ei in
    if oltb O (oabs O dE) floor then (if oltb O dE (o0 O) then oopp O floor else floor) else dE.
  Definition dc_of (N nst : nat) (floor : T) (Cm dV : rmat) (E : list T) : rmat :=
    rmk nst nst (fun i j =>
      if Nat.eqb i j then o0 O
      else if Nat.ltb i j then ctac N Cm dV i j / gap floor (nth i E (o0 O)) (nth j E (o0 O))
      else ctac N Cm dV i j / oopp O (gap floor (nth j E (o0 O)) (nth i E (o0 O)))).

  Definition floor_diabatic : T := odec O 1 10.     (* 1.0e-10 *)
  Definition floor_adiabatic : T := odec O 1 14.    (* 1.0e-14 *)
End Electronics.
