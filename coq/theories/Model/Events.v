(* Model/Events.v — the hop / frustrated-hop event log against the active-state
   column of the snapshots (trajectory_sh.py: surface_hopping -> hopper -> hop_to_it,
   tracer.hop / tracer.frustrated_hop; simulate() logs a snapshot after every step
   when trace_every = 1).  Discrete: per step, the hopper's decision is an input. *)
From Coq Require Import List Bool Arith.
Import ListNotations.

(* what happened in the step that starts at snapshot k *)
Inductive attempt : Type :=
| NoAttempt
| Attempt (target : nat) (allowed : bool).

Inductive event : Type :=
| EHop (k from to : nat)          (* logged with the time of snapshot k *)
| EFrustrated (k from to : nat).

Definition step_active (active : nat) (a : attempt) : nat :=
  match a with
  | Attempt tg true => tg
  | _ => active
  end.
Definition step_events (k active : nat) (a : attempt) : list event :=
  match a with
  | NoAttempt => []
  | Attempt tg true => [EHop k active tg]
  | Attempt tg false => [EFrustrated k active tg]
  end.

(* run from snapshot index k with the given active state: the list of active
   states of the following snapshots and the event log *)
Fixpoint run_from (k active : nat) (atts : list attempt) : list nat * list event :=
  match atts with
  | [] => ([], [])
  | a :: rest =>
      let act' := step_active active a in
      let '(acts, evs) := run_from (S k) act' rest in
      (act' :: acts, step_events k active a ++ evs)
  end.

(* what a reader of the log reconstructs from the `active` column alone *)
Fixpoint changes_from (k prev : nat) (acts : list nat) : list event :=
  match acts with
  | [] => []
  | a :: rest => (if Nat.eqb a prev then [] else [EHop k prev a]) ++ changes_from (S k) a rest
  end.

Definition is_hop (e : event) : bool := match e with EHop _ _ _ => true | _ => false end.
Definition attempt_ok (active : nat) (a : attempt) : bool :=
  match a with Attempt tg _ => negb (Nat.eqb tg active) | NoAttempt => true end.
Fixpoint attempts_ok (active : nat) (atts : list attempt) : bool :=
  match atts with
  | [] => true
  | a :: rest => attempt_ok active a && attempts_ok (step_active active a) rest
  end.
Definition count_frustrated (atts : list attempt) : nat :=
  length (filter (fun a => match a with Attempt _ false => true | _ => false end) atts).
