(* Model/Generators.v — math.py boltzmann_velocities (22-41); batch.py TrajGenConst,
   TrajGenNormal, TrajGenBoltzmann.  rng.normal is an oracle: its draws are inputs. *)
From Coq Require Import ZArith List Bool Arith.
From MV Require Import Ops Vec.
Import ListNotations.

Section Gen.
  Context {T : Type} (O : Ops T).
  Local Notation "x * y" := (omul O x y).
  Local Notation "x / y" := (odiv O x y).

  (* sigma = sqrt(kt * mass) *)
  Definition boltz_sigma (kt : T) (m : list T) : list T := map (fun mi => osqrt O (kt * mi)) m.

  (* avg_KE = 0.5 * dot(p**2, 1/mass) / N ; scal = sqrt((0.5*kt)/avg_KE) ; p *= scal *)
  Definition avg_ke (m p : list T) : T :=
    (ohalf O * vsum O (vmap2 (fun pi mi => (pi * pi) * (o1 O / mi)) p m)) / ofnat O (length p).
  Definition boltz_scale (kt : T) (m p : list T) : list T :=
    let scal := osqrt O ((ohalf O * kt) / avg_ke m p) in map (fun pi => pi * scal) p.
  (* boltzmann_velocities returns p / mass *)
  Definition boltz_velocities (scale : bool) (kt : T) (m p : list T) : list T :=
    vmap2 (fun pi mi => pi / mi) (if scale then boltz_scale kt m p else p) m.

  (* TrajGenNormal: widths handed to the oracle, and the filter on the drawn momentum *)
  Definition normal_widths (sigma : T) : T * T := (ohalf O * sigma, o1 O / sigma).
  Definition kskip (k : list T) : bool := existsb (fun ki => oltb O ki (o0 O)) k.
  (* draws: (x, k) pairs in order; yields (index, x, k) for the accepted ones *)
  Fixpoint normal_gen (i : nat) (draws : list (list T * list T)) : list (nat * list T * list T) :=
    match draws with
    | [] => []
    | (x, k) :: rest => if kskip k then normal_gen (S i) rest else (i, x, k) :: normal_gen (S i) rest
    end.
  Definition const_gen {A} (n : nat) (ic : A) : list (nat * A) := map (fun i => (i, ic)) (seq 0 n).
End Gen.
