(* Model/Hop.v — the hop decision and momentum rescaling.
   trajectory_sh.py: hop_allowed (320-336), rescale_component (352-367),
   hop_to_it (536-559), kinetic_energy; Verlet: advance_position /
   advance_velocity (458-480; same code in adiabatic_md.py 261-283). *)
From Coq Require Import ZArith List Bool.
From MV Require Import Ops Vec.
Import ListNotations.

Section Hop.
  Context {T : Type} (O : Ops T).
  Local Notation "x + y" := (oadd O x y).
  Local Notation "x - y" := (osub O x y).
  Local Notation "x * y" := (omul O x y).
  Local Notation "x / y" := (odiv O x y).
  Local Notation "- x" := (oopp O x).

  (* u = direction / np.linalg.norm(direction) *)
  Definition unit_dir (dir : list T) : list T :=
    let nrm := vnorm O dir in map (fun d => d / nrm) dir.

  (* a = einsum('m,m,m', 1/mass, u, u) *)
  Definition qa (m u : list T) : T :=
    vsum O (vmap2 (fun mi ui => ((o1 O / mi) * ui) * ui) m u).
  (* b = 2.0 * np.dot(velocity, u) *)
  Definition qb (v u : list T) : T := o2 O * vdot O v u.
  (* c = -2.0 * dE *)
  Definition qc (dE : T) : T := (- o2 O) * dE.

  (* hop_allowed(direction, dE):  dE > 0 -> True ; else b*b > 4*a*c *)
  Definition hop_allowed (m v dir : list T) (dE : T) : bool :=
    if oltb O (o0 O) dE then true
    else
      let u := unit_dir dir in
      let a := qa m u in let b := qb v u in let c := qc dE in
      oltb O ((oofZ O 4 * a) * c) (b * b).

  (* root of least modulus of a s^2 + b s + c  (= min(np.roots([a,b,c]), key=abs)),
     in the cancellation-free form c/q, q = -(b + sgn(b) sqrt(b^2-4ac))/2 *)
  Definition small_root (a b c : T) : T :=
    let disc := (b * b) - ((oofZ O 4 * a) * c) in
    let sq := osqrt O disc in
    let q := (- (b + (if oltb O b (o0 O) then - sq else sq))) / o2 O in
    c / q.
  Definition large_root (a b c : T) : T :=
    let disc := (b * b) - ((oofZ O 4 * a) * c) in
    let sq := osqrt O disc in
    let q := (- (b + (if oltb O b (o0 O) then - sq else sq))) / o2 O in
    q / a.

  (* rescale_component(direction, reduction): velocity += scal * (1/mass) * u *)
  Definition kick (m v u : list T) (s : T) : list T :=
    vmap2 (fun vi mu => vi + mu) v (vmap2 (fun mi ui => (s * (o1 O / mi)) * ui) m u).
  Definition rescale (m v dir : list T) (reduction : T) : list T :=
    let u := unit_dir dir in
    let s := small_root (qa m u) (qb v u) (qc reduction) in
    kick m v u s.

  (* kinetic_energy = 0.5 * einsum('m,m,m', mass, v, v) *)
  Definition kinetic (m v : list T) : T :=
    ohalf O * vsum O (vmap2 (fun mi vi => (mi * vi) * vi) m v).

  (* hop_to_it: returns (new state, new velocity, accepted?) ; position is never touched *)
  Definition hop_to_it (m v : list T) (state target : nat) (energies : list T) (dir : list T)
    : nat * list T * bool :=
    let delV := vget O energies target - vget O energies state in
    if hop_allowed m v dir (- delV)
    then (target, rescale m v dir (- delV), true)
    else (state, v, false).

  (* ---- velocity Verlet ---- *)
  (* advance_position: x += v*dt + 0.5*(F/m)*dt*dt *)
  Definition advance_position (m x v f : list T) (dt : T) : list T :=
    vmap2 (fun xi d => xi + d) x
      (vmap2 (fun vi ai => (vi * dt) + (((ohalf O * ai) * dt) * dt)) v (vdivv O f m)).
  (* advance_velocity: v += 0.5*(F_last/m + F_this/m)*dt *)
  Definition advance_velocity (m v f_last f_this : list T) (dt : T) : list T :=
    vmap2 (fun vi d => vi + d) v
      (map (fun s => (ohalf O * s) * dt) (vadd O (vdivv O f_last m) (vdivv O f_this m))).
End Hop.
