(* Model/Hopper.v — trajectory_sh.py: surface_hopping (482-500), hopper (502-530). *)
From Coq Require Import ZArith List Bool.
From MV Require Import Ops Vec Cplx Poisson.
Import ListNotations.

Section Hopper.
  Context {T : Type} (O : Ops T).
  Local Notation "x + y" := (oadd O x y).
  Local Notation "x * y" := (omul O x y).
  Local Notation "x / y" := (odiv O x y).

  (* 2.0 * np.imag(rho[k,:] * H[:,k])  — rho_row = rho[k,:], w_col = W[:,k] *)
  Fixpoint flux (rho_row w_col : list (C (T:=T))) : list T :=
    match rho_row, w_col with
    | r :: rr, w :: ww => (o2 O * cim (cmul O r w)) :: flux rr ww
    | _, _ => []
    end.

  Fixpoint set_nth (l : list T) (k : nat) (x : T) : list T :=
    match l, k with
    | [], _ => []
    | _ :: t, 0 => x :: t
    | h :: t, S k' => h :: set_nth t k' x
    end.

  Definition clip0 (x : T) : T := if oltb O x (o0 O) then o0 O else x.   (* np.maximum(x, 0.0) *)

  (* gkndt = flux * dt / Re rho_kk ; gkndt[k] = 0 ; maximum(gkndt, 0) *)
  Definition gkndt (rho_row w_col : list C) (k : nat) (dt : T) : list T :=
    let rkk := cre (nth k rho_row (c0 O)) in
    map clip0 (set_nth (map (fun f => (f * dt) / rkk) (flux rho_row w_col)) k (o0 O)).

  Definition probs (poisson : bool) (g : list T) : list T :=
    if poisson then let sc := pps O (vsum O g) in map (fun x => x * sc) g else g.

  (* zeta < cumsum(probs): first index, None when no hop *)
  Fixpoint first_below (zeta acc : T) (ps : list T) (i : nat) : option nat :=
    match ps with
    | [] => None
    | p :: t => let a := acc + p in
                if oltb O zeta a then Some i else first_below zeta a t (S i)
    end.
  Definition hop_target (ps : list T) (zeta : T) : option nat := first_below zeta (o0 O) ps 0.

  Definition hopper (poisson : bool) (g : list T) (zeta : T) : option nat * T :=
    let ps := probs poisson g in (hop_target ps zeta, vsum O ps).
End Hopper.
