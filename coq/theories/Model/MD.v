(* Model/MD.v — the loop of AdiabaticMD.simulate (adiabatic_md.py 302-317) on a single surface whose force is a
   function of the position (no oracle): advance_position; electronics at the new position; advance_velocity; time += dt.
   md_harm instantiates the force with HarmonicModel.compute (Model/Models.v harm_force). *)
From Coq Require Import ZArith List Bool Arith.
From MV Require Import Ops Vec Hop Models.
Import ListNotations.

Section MD.
  Context {T : Type} (O : Ops T).
  Definition md_step (F : list T -> list T) (m : list T) (dt : T) (s : list T * list T * T) : list T * list T * T :=
    let '(x, v, t) := s in
    let f0 := F x in
    let x1 := advance_position O m x v f0 dt in
    let f1 := F x1 in
    (x1, advance_velocity O m v f0 f1 dt, oadd O t dt).
  Fixpoint md_run (F : list T -> list T) (m : list T) (dt : T) (N : nat) (s : list T * list T * T) : list T * list T * T :=
    match N with 0%nat => s | S k => md_run F m dt k (md_step F m dt s) end.
  (* the total energy a snapshot logs: kinetic_energy + energies[0] *)
  Definition md_energy (V : list T -> T) (m : list T) (s : list T * list T * T) : T :=
    let '(x, v, _) := s in oadd O (V x) (kinetic O m v).
  Definition md_harm_step (x0 : list T) (H0 : list (list T)) := md_step (harm_force O x0 H0).
  Definition md_harm_run (x0 : list T) (H0 : list (list T)) := md_run (harm_force O x0 H0).
End MD.
