(* Model/Models.v — models/scattering_models.py: V and dV of the built-in models
   (constructor parameters as arguments), and models/harmonic_model.py compute. *)
From Coq Require Import ZArith List Bool Arith.
From MV Require Import Ops Vec.
Import ListNotations.

Section Models.
  Context {T : Type} (O : Ops T).
  Local Notation "x + y" := (oadd O x y).
  Local Notation "x - y" := (osub O x y).
  Local Notation "x * y" := (omul O x y).
  Local Notation "x / y" := (odiv O x y).
  Local Notation "- x" := (oopp O x).
  Local Notation Z0 := (o0 O).
  Local Notation two := (o2 O).
  Definition oexpn (x : T) : T := oexp O (- x).
  Definition sech2 (x : T) : T := let c := ocosh O x in o1 O / (c * c).      (* np.cosh(x)**(-2) *)

  (* TullySimpleAvoidedCrossing *)
  Definition simple_V (A B Cc D x : T) : list (list T) :=
    let v11 := (if oltb O x Z0 then - A else A) * (o1 O - oexpn (B * oabs O x)) in
    let v12 := Cc * oexpn ((D * x) * x) in
    [[v11; v12]; [v12; - v11]].
  Definition simple_dV (A B Cc D x : T) : list (list T) :=
    let v11 := (A * B) * oexpn (B * oabs O x) in
    let v12 := (((- two * Cc) * D) * x) * oexpn ((D * x) * x) in
    [[v11; v12]; [v12; - v11]].

  (* TullyDualAvoidedCrossing *)
  Definition dual_V (A B Cc D E0 x : T) : list (list T) :=
    let v22 := (- A) * oexpn ((B * x) * x) + E0 in
    let v12 := Cc * oexpn ((D * x) * x) in
    [[Z0; v12]; [v12; v22]].
  Definition dual_dV (A B Cc D E0 x : T) : list (list T) :=
    let v22 := (((two * A) * B) * x) * oexpn ((B * x) * x) in
    let v12 := (((- two * Cc) * D) * x) * oexpn ((D * x) * x) in
    [[Z0; v12]; [v12; v22]].

  (* TullyExtendedCouplingReflection *)
  Definition extended_V (A B Cc x : T) : list (list T) :=
    let e := oexpn (oabs O x * Cc) in
    let v12 := if oltb O x Z0 then B * e else B * (two - e) in
    [[A; v12]; [v12; - A]].
  Definition extended_dV (A B Cc x : T) : list (list T) :=
    let v12 := (B * Cc) * oexpn (Cc * oabs O x) in
    [[Z0; v12]; [v12; Z0]].

  (* SuperExchange *)
  Definition super_V (v11 v22 v33 c12 c23 x : T) : list (list T) :=
    let g := oexpn ((ohalf O * x) * x) in
    [[v11; c12 * g; Z0]; [c12 * g; v22; c23 * g]; [Z0; c23 * g; v33]].
  Definition super_dV (v11 v22 v33 c12 c23 x : T) : list (list T) :=
    let g := oexpn ((ohalf O * x) * x) in
    let d12 := ((- x) * c12) * g in let d23 := ((- x) * c23) * g in
    [[Z0; d12; Z0]; [d12; Z0; d23]; [Z0; d23; Z0]].

  (* SubotnikModelX / S share: xx = [x-xp, x, x+xp]; tan_i = a tanh(b xx_i); ex_i = c exp(-xx_i^2) *)
  Definition tn (a b y : T) : T := a * otanh O (b * y).
  Definition dtn (a b y : T) : T := (a * b) * sech2 (b * y).
  Definition ex (c y : T) : T := c * oexpn (y * y).
  Definition dex (c y : T) : T := ((- two * y) * c) * oexpn (y * y).

  Definition modelx_V (a b c xp x : T) : list (list T) :=
    let y0 := x - xp in let y1 := x in let y2 := x + xp in
    let v11 := tn a b y1 + tn a b y2 in
    let v22 := - (tn a b y0 + tn a b y1) in
    let v33 := - (tn a b y2 - tn a b y0) in
    [[v11; ex c y1; ex c y2]; [ex c y1; v22; ex c y0]; [ex c y2; ex c y0; v33]].
  Definition modelx_dV (a b c xp x : T) : list (list T) :=
    let y0 := x - xp in let y1 := x in let y2 := x + xp in
    let v11 := dtn a b y1 + dtn a b y2 in
    let v22 := - (dtn a b y0 + dtn a b y1) in
    let v33 := - (dtn a b y2 - dtn a b y0) in
    [[v11; dex c y1; dex c y2]; [dex c y1; v22; dex c y0]; [dex c y2; dex c y0; v33]].

  Definition models_V (a b c d xp x : T) : list (list T) :=
    let y0 := x - xp in let y1 := x in let y2 := x + xp in
    let v11 := (tn a b y0 - tn a b y2) + a in
    let v22 := (- (tn a b y0 - tn a b y2)) - a in
    let v33 := (two * a) * otanh O (d * x) in
    let v12 := ex c y2 + ex c y0 in
    [[v11; v12; ex c y1]; [v12; v22; ex c y1]; [ex c y1; ex c y1; v33]].
  Definition models_dV (a b c d xp x : T) : list (list T) :=
    let y0 := x - xp in let y1 := x in let y2 := x + xp in
    let v11 := dtn a b y0 - dtn a b y2 in
    let v22 := - (dtn a b y0 - dtn a b y2) in
    let v33 := ((two * a) * d) * sech2 (d * x) in
    let v12 := dex c y2 + dex c y0 in
    [[v11; v12; dex c y1]; [v12; v22; dex c y1]; [dex c y1; dex c y1; v33]].

  (* Subotnik2D: r = (x, y); dV = [d/dx, d/dy] *)
  Definition sub2d_z (b g w halfpi x y : T) : T := b * (x - o1 O) + w * ocos O (g * y + halfpi).
  Definition sub2d_V (a b c d f g w halfpi x y : T) : list (list T) :=
    let v11 := (- f) * otanh O (b * x) in
    let v22 := a * otanh O (sub2d_z b g w halfpi x y) + (oofZ O 3 / oofZ O 4) * a in
    let v12 := c * oexpn ((d * x) * x) in
    [[v11; v12]; [v12; v22]].
  Definition sub2d_dV (a b c d f g w halfpi x y : T) : list (list (list T)) :=
    let z := sub2d_z b g w halfpi x y in
    let v11x := ((- f) * b) * sech2 (b * x) in
    let v22x := (a * b) * sech2 z in
    let v12x := (((- two * d) * x) * c) * oexpn ((d * x) * x) in
    let zy := ((- w) * g) * osin O (g * y + halfpi) in
    let v22y := (a * zy) * sech2 z in
    [[[v11x; v12x]; [v12x; v22x]]; [[Z0; Z0]; [Z0; v22y]]].

  (* LinearVibronic: X = (q1..q4, theta) *)
  Fixpoint sin2sum (An : list T) (i : nat) (theta : T) : T :=
    match An with [] => Z0 | a :: r => let s := osin O (ofnat O (S i) * theta) in a * (s * s) + sin2sum r (S i) theta end.
  Fixpoint dsin2sum (An : list T) (i : nat) (theta : T) : T :=
    match An with
    | [] => Z0
    | a :: r => let k := ofnat O (S i) in ((a * two) * k) * (osin O (k * theta) * ocos O (k * theta)) + dsin2sum r (S i) theta
    end.
  Definition vib_V (E1 E2 lam r0 : T) (om k1 k2 An : list T) (q : list T) (theta : T) : list (list T) :=
    let w0 := vsum O (vmap2 (fun o x => (o / two) * (x * x)) om q) in
    let q5 := sin2sum An 0 theta in
    let w12 := (lam * r0) * osin O theta in
    [[((E1 + w0) + vdot O k1 q) + q5; w12]; [w12; ((E2 + w0) + vdot O k2 q) + q5]].
  Fixpoint zipw {A B D : Type} (f : A -> B -> D) (a : list A) (b : list B) : list D :=
    match a, b with x :: a', y :: b' => f x y :: zipw f a' b' | _, _ => [] end.
  Definition vib_dV (E1 E2 lam r0 : T) (om k1 k2 An : list T) (q : list T) (theta : T) : list (list (list T)) :=
    zipw (fun (ok : T * T * T) x => [[fst (fst ok) * x + snd (fst ok); Z0]; [Z0; fst (fst ok) * x + snd ok]])
         (combine (combine om k1) k2) q
    ++ [let d := dsin2sum An 0 theta in let w12 := (lam * r0) * ocos O theta in [[d; w12]; [w12; d]]].

  (* SubotnikModelW: diag_m = tan(pi/2 - (2m-1) pi/(2N)) * x + (m-1) eps, off-diagonal 0.1/sqrt(N) *)
  Definition modelw_slope (pi : T) (N m : nat) : T :=
    otan O (ohalf O * pi - (ofnat O (2 * m - 1) * pi) / ofnat O (2 * N)).
  Definition modelw_V (pi eps : T) (N : nat) (x : T) : list (list T) :=
    let v := (o1 O / oofZ O 10) / osqrt O (ofnat O N) in
    tabulate N (fun i => tabulate N (fun j =>
      if Nat.eqb i j then modelw_slope pi N (S i) * x + ofnat O i * eps else v)).
  (* dV exactly as the code computes it (known finding: it is not the derivative of V) *)
  Definition modelw_dV_code (pi eps : T) (N : nat) (x : T) : list (list T) :=
    let v := (o1 O / oofZ O 10) / osqrt O (ofnat O N) in
    tabulate N (fun i => tabulate N (fun j =>
      if Nat.eqb i j then modelw_slope pi N (S i) + ofnat O i * eps else v)).
  Definition modelw_dV_true (pi eps : T) (N : nat) (x : T) : list (list T) :=
    tabulate N (fun i => tabulate N (fun j => if Nat.eqb i j then modelw_slope pi N (S i) else Z0)).

  (* SubotnikModelZ: first half x + (m-1) eps, second half -x + (N-m) eps *)
  Definition modelz_diag (eps : T) (N i : nat) (x : T) : T :=
    if Nat.ltb i (Nat.div N 2) then x + ofnat O i * eps else (- x) + ofnat O (N - S i) * eps.
  Definition modelz_V (eps : T) (N : nat) (x : T) : list (list T) :=
    let v := (o1 O / oofZ O 10) / osqrt O (ofnat O N) in
    tabulate N (fun i => tabulate N (fun j => if Nat.eqb i j then modelz_diag eps N i x else v)).
  Definition modelz_dV_code := modelz_V.        (* the code's dV repeats V *)
  Definition modelz_dV_true (eps : T) (N : nat) (x : T) : list (list T) :=
    tabulate N (fun i => tabulate N (fun j =>
      if Nat.eqb i j then (if Nat.ltb i (Nat.div N 2) then o1 O else - o1 O) else Z0)).

  (* HarmonicModel.compute: dx = X - x0; grad = H0 @ dx; energy = E0 + 0.5*dot(dx, grad); force = -grad *)
  Definition matvec (H : list (list T)) (v : list T) : list T := map (fun row => vdot O row v) H.
  Definition harm_energy (x0 : list T) (E0 : T) (H0 : list (list T)) (X : list T) : T :=
    let dx := vsub O X x0 in E0 + ohalf O * vdot O dx (matvec H0 dx).
  Definition harm_force (x0 : list T) (H0 : list (list T)) (X : list T) : list T :=
    map (oopp O) (matvec H0 (vsub O X x0)).
End Models.
