(* Model/Outcome.v — tracer.py: Trace_.outcome (100-117), TraceManager.outcome /
   counts / summarize (389-446); __main__.py averaged rows (203-204). *)
From Coq Require Import ZArith List Bool Arith.
From MV Require Import Ops Vec.
Import ListNotations.

Section Outcome.
  Context {T : Type} (O : Ops T).
  (* a finished trace: weight, final active state, final x < 0 ?, number of hops *)
  Record ftrace := mkF { fw : T; factive : nat; fleft : bool; fhops : nat }.

  (* Trace_.outcome(): out[active, lr] = 1, lr = 0 if position < 0 else 1 *)
  Definition indicator (t : ftrace) (i : nat) (lr : bool) : T :=
    if Nat.eqb (factive t) i && Bool.eqb (negb (fleft t)) lr then o1 O else o0 O.

  Definition wsum (ts : list ftrace) : T := vsum O (map fw ts).
  (* sum(t.weight * t.outcome()) / weight_norm, entry (i, lr) *)
  Definition outcome_entry (ts : list ftrace) (i : nat) (lr : bool) : T :=
    odiv O (vsum O (map (fun t => omul O (fw t) (indicator t i lr)) ts)) (wsum ts).
  Definition outcome (nst : nat) (ts : list ftrace) : list (list T) :=
    tabulate nst (fun i => [outcome_entry ts i false; outcome_entry ts i true]).

  Definition counts_entry (ts : list ftrace) (i : nat) (lr : bool) : T :=
    vsum O (map (fun t => indicator t i lr) ts).
  Definition counts (nst : nat) (ts : list ftrace) : list (list T) :=
    tabulate nst (fun i => [counts_entry ts i false; counts_entry ts i true]).

  (* hop_stats[i] = sum(weight of traces with i hops) / norm, i = 0 .. max nhops *)
  Definition hop_stat (ts : list ftrace) (i : nat) : T :=
    odiv O (vsum O (map fw (filter (fun t => Nat.eqb (fhops t) i) ts))) (wsum ts).
  Definition hop_stats (ts : list ftrace) : list T :=
    tabulate (S (fold_right Nat.max 0 (map fhops ts))) (hop_stat ts).
End Outcome.
