(* Model/Poisson.v — mudslide/math.py: poisson_prob_scale (lines 12-19)
     out = np.where(np.absolute(x) < 1e-3,
                    1 - x/2 + x**2/6 - x**3/24 + x**4/120,     (x**4/120: fix F15)
                    -np.expm1(-x)/x)                                       *)
From Coq Require Import ZArith List.
From MV Require Import Ops Cplx.

Section Poisson.
  Context {T : Type} (O : Ops T).
  Local Notation "x + y" := (oadd O x y).
  Local Notation "x - y" := (osub O x y).
  Local Notation "x * y" := (omul O x y).
  Local Notation "x / y" := (odiv O x y).

  Definition pps_switch : T := odec O 1 3.             (* 1e-3 *)

  Definition pps_series (x : T) : T :=
    (((o1 O - x / oofZ O 2) + (x * x) / oofZ O 6) - ((x * x) * x) / oofZ O 24)
      + (((x * x) * (x * x)) / oofZ O 120).

  Definition pps_closed (x : T) : T := oopp O (oexpm1 O (oopp O x)) / x.

  Definition pps (x : T) : T :=
    if oltb O (oabs O x) pps_switch then pps_series x else pps_closed x.

  (* complex argument (A-FSSH passes +-i*eee*dt) *)
  Definition cZ (z : Z) : C := cofr O (oofZ O z).
  Definition cpps_series (z : C) : C :=
    let z2 := cmul O z z in
    cadd O (csub O (cadd O (csub O (c1 O) (cdiv O z (cZ 2))) (cdiv O z2 (cZ 6)))
                 (cdiv O (cmul O z2 z) (cZ 24)))
         (cdiv O (cmul O z2 z2) (cZ 120)).
  Definition cpps_closed (z : C) : C := cdiv O (copp O (cexpm1 O (copp O z))) z.
  Definition cpps (z : C) : C :=
    if oltb O (cabs O z) pps_switch then cpps_series z else cpps_closed z.
End Poisson.
