(* Model/Propagate.v — trajectory_sh.py: hamiltonian_propagator (369-388),
   propagate_electronics (390-456: 'exp' and 'linear-rk4'); propagation.py: rk4.
   np.linalg.eigh is an oracle: its output (eigenvalues, eigenvector matrix) is an input. *)
From Coq Require Import ZArith List Bool Arith.
From MV Require Import Ops Vec Cplx Mat.
Import ListNotations.

Section Propagate.
  Context {T : Type} (O : Ops T).
  Notation C := (C (T:=T)).
  Local Notation "x + y" := (oadd O x y).
  Local Notation "x - y" := (osub O x y).
  Local Notation "x * y" := (omul O x y).
  Local Notation "x / y" := (odiv O x y).

  Definition rget (M : list (list T)) (i j : nat) : T := nth j (nth i M []) (o0 O).
  Definition tget (tau : list (list (list T))) (i j : nat) : list T := nth j (nth i tau []) [].

  (* hamiltonian_propagator: H = 0.5*(this_H + last_H); velo = 0.5*(v + last_v);
     TV = 0.5 * einsum("ijx,x->ij", this_tau + last_tau, velo);  W = H - 1j*TV *)
  Definition Wmid (n : nat) (H0 H1 : list (list T)) (tau0 tau1 : list (list (list T))) (v lastv : list T) : mat :=
    let velo := map (fun s => ohalf O * s) (vadd O v lastv) in
    mmk n n (fun i j =>
      (ohalf O * (rget H1 i j + rget H0 i j),
       oopp O (ohalf O * vdot O (vadd O (tget tau1 i j) (tget tau0 i j)) velo))).

  (* 'exp': U = C diag(exp(-i lam dt)) C^dagger ; rho <- U (rho U^dagger) *)
  Definition expU (n : nat) (lam : list T) (Cm : mat) (dt : T) : mat :=
    let D := mdiag O n (map (fun l => ccis O (oopp O (l * dt))) lam) in
    mmul O n (mmul O n Cm D) (madj O n Cm).
  Definition exp_step (n : nat) (lam : list T) (Cm : mat) (dt : T) (rho : mat) : mat :=
    let U := expU n lam Cm dt in mmul O n U (mmul O n rho (madj O n U)).

  (* ---- generic RK4 of propagation.py on matrices ---- *)
  Definition rscale (n : nat) (a : T) (A : mat) : mat := mscale O n (cofr O a) A.
  Fixpoint rk4_loop (n : nat) (ydot : mat -> T -> mat) (t0 h : T) (steps i : nat) (y : mat) : mat :=
    match steps with
    | 0 => y
    | S s =>
        let t := t0 + ofnat O i * h in
        let k1 := ydot y t in
        let k2 := ydot (madd O n y (rscale n (ohalf O * h) k1)) (t + ohalf O * h) in
        let k3 := ydot (madd O n y (rscale n (ohalf O * h) k2)) (t + ohalf O * h) in
        let k4 := ydot (madd O n y (rscale n h k3)) (t + h) in
        let incr := madd O n (madd O n (madd O n k1 (rscale n (o2 O) k2)) (rscale n (o2 O) k3)) k4 in
        rk4_loop n ydot t0 h s (S i) (madd O n y (rscale n (h / oofZ O 6) incr))
    end.
  Definition rk4 (n : nat) (y0 : mat) (ydot : mat -> T -> mat) (t0 tf : T) (nsteps : nat) : mat :=
    rk4_loop n ydot t0 ((tf - t0) / ofnat O nsteps) nsteps 0 y0.

  (* nsteps = starting_electronic_intervals; while dt/nsteps > max_electronic_dt: nsteps *= 2 *)
  Fixpoint substeps (fuel : nat) (dt maxdt : T) (ns : nat) : nat :=
    match fuel with
    | 0 => ns
    | S f => if oltb O maxdt (dt / ofnat O ns) then substeps f dt maxdt (2 * ns) else ns
    end.

  (* 'linear-rk4' in the eigenbasis (eigs, vecs) of last_H (vecs real, as a complex matrix) *)
  Definition tvmat (n : nat) (tau : list (list (list T))) (v : list T) : mat :=
    mmk n n (fun i j => cofr O (vdot O (tget tau i j) v)).
  Definition congr (n : nat) (V A : mat) : mat := mmul O n (mmul O n (mtr O n V) A) V.   (* V^T A V *)
  Definition phases (n : nat) (eigs : list T) (t : T) : mat :=     (* ergs^T ergs.conj(): e^{i E_j t} e^{-i E_k t} *)
    mmk n n (fun j k => cmul O (ccis O (nth j eigs (o0 O) * t)) (cconj O (ccis O (nth k eigs (o0 O) * t)))).
  Definition mi_scale (n : nat) (A : mat) : mat := mscale O n (o0 O, oopp O (o1 O)) A.     (* -1j * A *)

  Definition rk4_ydot (n : nat) (eigs : list T) (H0 H1 W00 W11 W01 : mat) (dt : T) (rho : mat) (t : T) : mat :=
    let w0 := o1 O - t / dt in let w1 := t / dt in
    let H := madd O n (rscale n (w0 - o1 O) H0) (rscale n w1 H1) in
    let Wt := madd O n (madd O n (rscale n (w0 * w0) W00) (rscale n (w1 * w1) W11)) (rscale n (w0 * w1) W01) in
    let Hbar := msub O n H (mscale O n (o0 O, o1 O) Wt) in                     (* H - 1j*W *)
    let HI := mhad O n Hbar (phases n eigs t) in
    mi_scale n (msub O n (mmul O n HI rho) (mmul O n rho HI)).

  Definition rk4_step (n : nat) (H0r H1r : list (list T)) (tau0 tau1 : list (list (list T))) (v lastv : list T)
             (eigs : list T) (vecs : list (list T)) (dt maxdt : T) (start : nat) (rho : mat) : mat :=
    let V := mofreal O n vecs in
    let TV00 := tvmat n tau0 lastv in let TV11 := tvmat n tau1 v in
    let TV01 := madd O n (tvmat n tau0 v) (tvmat n tau1 lastv) in
    let H0 := congr n V (mofreal O n H0r) in let H1 := congr n V (mofreal O n H1r) in
    let W00 := congr n V TV00 in let W11 := congr n V TV11 in let W01 := congr n V TV01 in
    let ns := substeps 40 dt maxdt start in
    let rho0 := congr n V rho in
    let tmp := rk4 n rho0 (rk4_ydot n eigs H0 H1 W00 W11 W01 dt) (o0 O) dt ns in
    (* phases = ergs.T.conj() ergs at t = dt: e^{-i E_j dt} e^{i E_k dt} = conj of phases(dt) *)
    let ph := mmk n n (fun j k => cconj O (mget O (phases n eigs dt) j k)) in
    mmul O n (mmul O n V (mhad O n tmp ph)) (mtr O n V).
End Propagate.
