(* Model/Quadrature.v — mudslide/integration.py (midpoint, trapezoid, simpson,
   the Gauss-Legendre affine map, Clenshaw-Curtis assembly with the inverse DFT
   as an argument) and SpawnStack.from_quadrature/unravel (even_sampling.py). *)
From Coq Require Import ZArith List Bool.
From MV Require Import Ops Vec.
Import ListNotations.

Section Quadrature.
  Context {T : Type} (O : Ops T).
  Local Notation "x + y" := (oadd O x y).
  Local Notation "x - y" := (osub O x y).
  Local Notation "x * y" := (omul O x y).
  Local Notation "x / y" := (odiv O x y).
  Local Notation N i := (ofnat O i).

  (* midpoint: weights = ones(n)*(b-a)/n ; points = a + ((b-a)/n * (arange(n)+0.5)) *)
  Definition midpoint_pts (n : nat) (a b : T) : list T :=
    tabulate n (fun i => a + ((b - a) / N n) * (N i + ohalf O)).
  Definition midpoint_wts (n : nat) (a b : T) : list T :=
    tabulate n (fun _ => (o1 O * (b - a)) / N n).

  (* trapezoid: ninterval = n-1; weights = ones*(b-a)/ninterval, ends halved;
     points = a + ((b-a)/ninterval)*arange(n) *)
  Definition trapezoid_pts (n : nat) (a b : T) : list T :=
    tabulate n (fun i => a + ((b - a) / N (n - 1)) * N i).
  Definition trapezoid_wts (n : nat) (a b : T) : list T :=
    tabulate n (fun i => let w := (o1 O * (b - a)) / N (n - 1) in
                         if (i =? 0)%nat || (i =? n - 1)%nat then w * ohalf O else w).

  (* simpson: ones; odd interior 4, even interior 2; *(b-a)/ninterval/3 *)
  Definition simpson_coef (n i : nat) : Z :=
    if (i =? 0)%nat || (i =? n - 1)%nat then 1%Z else if Nat.odd i then 4%Z else 2%Z.
  Definition simpson_pts (n : nat) (a b : T) : list T := trapezoid_pts n a b.
  Definition simpson_wts (n : nat) (a b : T) : list T :=
    tabulate n (fun i => oofZ O (simpson_coef n i) * (((b - a) / N (n - 1)) / oofZ O 3)).

  (* Gauss-Legendre: leggauss(n) is an oracle (x, w on [-1,1]);
     points = x*0.5*(b-a) + 0.5*(a+b); weights = w * 0.5*(b-a)   [fix F14] *)
  Definition gl_pts (x : list T) (a b : T) : list T :=
    map (fun xi => (xi * ohalf O) * (b - a) + ohalf O * (a + b)) x.
  Definition gl_wts (w : list T) (a b : T) : list T :=
    map (fun wi => wi * (ohalf O * (b - a))) w.

  (* Clenshaw-Curtis (Waldvogel): the h vector, then assembly from the inverse
     DFT `wcc` (oracle, real parts) *)
  Definition cc_v (ns : nat) (k : nat) : T :=
    (* v[:ns//2] = 2/(1-4k^2); v[ns//2] = (ns-3)/(2*(ns//2)-1) - 1; v[ns-k] = v[k] *)
    let half := Nat.div ns 2 in
    let base k := if (k <? half)%nat then oofZ O 2 / (o1 O - oofZ O 4 * (N k * N k))
                  else (oofZ O (Z.of_nat ns - 3)) / (oofZ O (2 * Z.of_nat half - 1)) - o1 O in
    if (k <=? half)%nat then base k else base (ns - k)%nat.
  Definition cc_g (ns : nat) (k : nat) : T :=
    let half := Nat.div ns 2 in
    let wcc0 := o1 O / oofZ O (Z.of_nat ns * Z.of_nat ns - 1 + Z.of_nat (Nat.modulo ns 2)) in
    let base k := if (k <? half)%nat then oopp O wcc0
                  else wcc0 * oofZ O ((2 - Z.of_nat (Nat.modulo ns 2)) * Z.of_nat ns - 1) in
    if (k <=? half)%nat then base k else base (ns - k)%nat.
  Definition cc_h (n : nat) : list T :=
    tabulate (n - 1) (fun k => cc_v (n - 1) k + cc_g (n - 1) k).
  (* out[:ns] = wcc; out[ns] = out[0]; flip; *= 0.5*(b-a) *)
  Definition cc_wts (wcc : list T) (a b : T) : list T :=
    map (fun w => w * (ohalf O * (b - a))) (rev (wcc ++ [vget O wcc 0])).
  (* direct O(n^2) inverse DFT of a real vector, real part:
       wcc_j = (1/ns) sum_k h_k cos(2 pi j k / ns) *)
  Definition idft_re (pi : T) (h : list T) : list T :=
    let ns := length h in
    tabulate ns (fun j =>
      vsum O (tabulate ns (fun k => vget O h k * ocos O ((o2 O * pi * N (Nat.modulo (j * k) ns)) / N ns)))
      / N ns).
  Definition cc_pts (pi : T) (n : nat) (a b : T) : list T :=
    tabulate n (fun i => (ocos O ((pi * N (n - 1 - i)) / N (n - 1)) * ohalf O) * (b - a) + ohalf O * (a + b)).

  (* moments: sum w_i x_i^k *)
  Fixpoint opow (x : T) (k : nat) : T := match k with 0 => o1 O | S k' => x * opow x k' end.
  Definition moment (pts wts : list T) (k : nat) : T :=
    vsum O (vmap2 (fun x w => w * opow x k) pts wts).
End Quadrature.

