(* Model/Restart.v — trajectory_sh.py: snapshot (222-240), restart (99-140 after the fixes);
   adiabatic_md.py restart (68-95).  What restart() rebuilds from the last two snapshots of
   a log, for a trajectory state whose electronic part (density matrix, tracked basis) is
   carried opaquely. *)
From Coq Require Import ZArith List Bool Arith.
From MV Require Import Ops Vec.
Import ListNotations.

Section Restart.
  Context {T : Type} (O : Ops T) {Rho Ref : Type}.

  Record tstate := mkTS {
    pos : list T; vel : list T; lastvel : list T;
    rho : Rho; active : nat; ref : Ref;        (* density matrix, active state, tracked sign convention *)
    time : T; nsteps : nat }.

  Record snap := mkSnap {
    s_time : T; s_position : list T; s_momentum : list T; s_rho : Rho; s_active : nat; s_ref : Ref }.

  (* snapshot(): momentum = mass * velocity *)
  Definition snapshot_of (m : list T) (s : tstate) : snap :=
    mkSnap (time s) (pos s) (vmul O m (vel s)) (rho s) (active s) (ref s).

  (* restart(model, log): x, p, rho, k, reference from log[-1]; last_velocity from log[-2];
     t0 = last time; previous_steps = len(log) - 1 *)
  Definition restore (m : list T) (prev last : snap) (loglen : nat) : tstate :=
    mkTS (s_position last) (vdivv O (s_momentum last) m) (vdivv O (s_momentum prev) m)
         (s_rho last) (s_active last) (s_ref last) (s_time last) (loglen - 1).

  (* dt inferred from the log when not supplied *)
  Definition inferred_dt (prev last : snap) : T := osub O (s_time last) (s_time prev).
End Restart.
