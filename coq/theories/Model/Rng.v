(* Model/Rng.v — seed sequences and threshold order.
   numpy SeedSequence: a child produced by parent.spawn(n) has
   spawn_key = parent.spawn_key ++ [c + i], where c = parent's count of children spawned so far.
   batch.py: TrajGen*.__call__ spawn(nsamples); even_sampling.py clone: seed_sequence.spawn(1)[0];
   trajectory_sh.py draw_new_zeta (308-318): zeta_list first, then the generator. *)
From Coq Require Import List Arith Lia.
Import ListNotations.

Record seedseq := mkSS { skey : list nat; nspawned : nat }.

Definition spawn (s : seedseq) (n : nat) : list seedseq * seedseq :=
  (map (fun i => mkSS (skey s ++ [nspawned s + i]) 0) (seq 0 n), mkSS (skey s) (nspawned s + n)).

(* thresholds actually used: user list first, then the generator stream *)
Fixpoint draws {A} (zl st : list A) (k : nat) : list A :=
  match k with
  | 0 => []
  | S k' => match zl with
            | z :: zl' => z :: draws zl' st k'
            | [] => match st with u :: st' => u :: draws [] st' k' | [] => [] end
            end
  end.
