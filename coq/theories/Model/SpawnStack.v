(* Model/SpawnStack.v — even_sampling.py: SpawnStack (17-99: __init__, next_zeta, weight,
   spawn, spawn_size), from_quadrature / unravel (150-252), and the weight bookkeeping of
   EvenSamplingTrajectory.hopper / hop_to_it (307-387). *)
From Coq Require Import ZArith List Bool Arith.
From MV Require Import Ops Vec.
Import ListNotations.

Section SpawnStack.
  Context {T : Type} (O : Ops T).
  Local Notation "x + y" := (oadd O x y).
  Local Notation "x - y" := (osub O x y).
  Local Notation "x * y" := (omul O x y).
  Local Notation "x / y" := (odiv O x y).

  (* {"zeta":..., "dw":..., "children":[...], "spawn_size":...} *)
  Inductive node : Type := Node (zeta dw : T) (children : list node) (spawn_size : nat).
  Definition nzeta (n : node) := let '(Node z _ _ _) := n in z.
  Definition ndw (n : node) := let '(Node _ w _ _) := n in w.
  Definition nchildren (n : node) := let '(Node _ _ c _) := n in c.
  Definition nspawn (n : node) := let '(Node _ _ _ s) := n in s.

  Definition dws (st : list node) : list T := map ndw st.
  Definition sum_range (l : list T) (a b : nat) : T := vsum O (firstn (b - a) (skipn a l)).

  (* marginal_weights[i] = 1 - cumsum(dw)[i-1]; marginal weight after crossing up to index i
     is marginal_weights[i], or 0.0 when the stack is exhausted *)
  Definition marginal (st : list node) (i : nat) : T :=
    if Nat.eqb i (length st) then (match st with [] => o1 O | _ => o0 O end)
    else o1 O - sum_range (dws st) 0 i.

  (* next_zeta: advance izeta while stack[izeta].zeta < current_value *)
  Fixpoint advance (st : list node) (i : nat) (cur : T) (fuel : nat) : nat :=
    match fuel with
    | 0 => i
    | S f => match nth_error st i with
             | Some n => if oltb O (nzeta n) cur then advance st (S i) cur f else i
             | None => i
             end
    end.
  Definition next_index (st : list node) (i : nat) (cur : T) : nat := advance st i cur (length st).
  Definition zeta_at (st : list node) (i : nat) : T :=
    match nth_error st i with Some n => nzeta n | None => oofZ O 10 end.

  (* what a trajectory did: a list of crossing events; each event says how far the index moved
     (k >= 1 thresholds crossed in that step), and for every target state its branching ratio and
     the histories of its spawn_size copies *)
  Inductive hist : Type := Hist (events : list (nat * list (T * list hist))).

  (* final weights of the whole tree rooted at a trajectory with this stack / base weight /
     current index: children first (in spawn order), the trajectory's own final weight last.
     fuel only bounds the recursion: running out of fuel = the history ends there. *)
  Fixpoint weights (fuel : nat) (st : list node) (base : T) (iz : nat) (h : hist) : list T :=
    match fuel with
    | 0 => [base * marginal st iz]
    | S f =>
        match st, h with
        | [], _ => [base]                                  (* no spawning: ordinary cumulative run *)
        | _, Hist [] => [base * marginal st iz]
        | _, Hist ((k, branches) :: rest) =>
            let iz' := Nat.min (iz + k) (length st) in
            let dw := sum_range (dws st) iz iz' in
            match nth_error st iz with
            | None => [base * marginal st iz]
            | Some nd =>
                let ns := nspawn nd in
                let share := o1 O / ofnat O ns in
                flat_map (fun br : T * list hist =>
                            let '(ratio, kids) := br in
                            flat_map (fun kh => weights f (nchildren nd) ((base * dw) * (share * ratio)) 0 kh) kids)
                         branches
                ++ weights f st base iz' (Hist rest)
            end
        end
    end.

  (* ---- from_quadrature: every level the same (points, weights) rule; unravel = leaves ---- *)
  Fixpoint mk_level (pts wts : list T) (ch : list node) (ss : nat) : list node :=
    match pts, wts with
    | p :: pts', w :: wts' => Node p w ch ss :: mk_level pts' wts' ch ss
    | _, _ => []
    end.
  (* forest for nsamples = [n1; n2; ...]: level 1 carries spawn_size mcsamples, deeper levels 1 *)
  Fixpoint build (levels : list (list T * list T)) (mcs : nat) : list node :=
    match levels with
    | [] => []
    | (pts, wts) :: rest => mk_level pts wts (build rest 1) mcs
    end.

  (* unravel: all root-to-leaf paths with the product of the weights along the path *)
  Fixpoint leaves (fuel : nat) (st : list node) : list (list T * T) :=
    match fuel with
    | 0 => []
    | S f => flat_map (fun nd =>
               match nchildren nd with
               | [] => [([nzeta nd], ndw nd)]
               | ch => map (fun pw => (nzeta nd :: fst pw, ndw nd * snd pw)) (leaves f ch)
               end) st
    end.
End SpawnStack.
