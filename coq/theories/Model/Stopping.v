(* Model/Stopping.v — trajectory_sh.py: duration_initialize (174-191),
   currently_interacting (164-172), continue_simulating (193-210), trace (212-220),
   simulate (561-605); identical code in adiabatic_md.py.  The positions after each
   step are an input (an arbitrary function of the step index). *)
From Coq Require Import ZArith List Bool Arith.
From MV Require Import Ops Vec.
Import ListNotations.

Section Stopping.
  Context {T : Type} (O : Ops T).

  Record cfg := mkCfg {
    max_steps : Z;              (* < 0: no limit *)
    max_time : T;
    every : nat;                (* trace_every >= 1 *)
    dt : T;
    box : option (list T * list T) }.   (* per-dimension lower / upper bounds *)

  (* np.all(lo < x) and np.all(x < hi) *)
  Fixpoint all_lt (a b : list T) : bool :=
    match a, b with
    | x :: a', y :: b' => oltb O x y && all_lt a' b'
    | _, _ => true
    end.
  Definition inside (c : cfg) (x : list T) : bool :=
    match box c with
    | None => false
    | Some (lo, hi) => all_lt lo x && all_lt x hi
    end.

  (* time >= max_time or |time - max_time| <= 1e-8 *)
  Definition time_up (c : cfg) (t : T) : bool :=
    oleb O (max_time c) t || oleb O (oabs O (osub O t (max_time c))) (odec O 1 8).
  Definition steps_up (c : cfg) (n : nat) : bool :=
    (0 <=? max_steps c)%Z && (max_steps c <=? Z.of_nat n)%Z.

  (* continue_simulating: (keep running?, found_box afterwards) *)
  Definition continue_sim (c : cfg) (found : bool) (n : nat) (t : T) (x : list T) : bool * bool :=
    if steps_up c n then (false, found)
    else if time_up c t then (false, found)
    else if found then (inside c x, found)
    else (true, inside c x).

  Definition logs (c : cfg) (n : nat) : bool := Nat.eqb (Nat.modulo n (every c)) 0.

  (* the loop: pos k = position after k steps (k counted from the start of this run) *)
  Fixpoint loop (fuel : nat) (c : cfg) (found : bool) (k n : nat) (t : T) (pos : nat -> list T)
           (log : list (nat * T)) : option (list (nat * T) * nat) :=
    match fuel with
    | 0 => None
    | S f =>
        let k' := S k in let n' := S n in let t' := oadd O t (dt c) in
        let '(cont, found') := continue_sim c found n' t' (pos k') in
        if cont then loop f c found' k' n' t' pos (if logs c n' then log ++ [(n', t')] else log)
        else Some (log ++ [(n', t')], n')
    end.

  (* simulate(): n0 = previous_steps, restarting suppresses the initial snapshot *)
  Definition simulate (fuel : nat) (c : cfg) (restarting : bool) (n0 : nat) (t0 : T) (pos : nat -> list T)
    : option (list (nat * T) * nat) :=
    let '(cont, found) := continue_sim c false n0 t0 (pos 0) in
    if cont then
      loop fuel c found 0 n0 t0 pos (if negb restarting && logs c n0 then [(n0, t0)] else [])
    else Some ([], n0).
End Stopping.
