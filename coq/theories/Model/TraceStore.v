(* Model/TraceStore.v — tracer.py: InMemoryTrace (132-166), YAMLTrace (169-337),
   load_log; util.py: find_unique_name.  Discrete: a snapshot is an opaque value (the
   harness numbers the recorded snapshots and checks their content separately). *)
From Coq Require Import ZArith List Bool Arith Lia.
Import ListNotations.

Section Store.
  Context {A : Type}.

  (* ---------- the paging core of YAMLTrace ---------- *)
  Record store := mkStore { pitch : nat; pages : list (list A); logsize : nat }.

  Definition init_store (p : nat) : store := mkStore p [[]] 0.

  Fixpoint app_last (ps : list (list A)) (x : A) : list (list A) :=
    match ps with
    | [] => [[x]]
    | [l] => [l ++ [x]]
    | l :: rest => l :: app_last rest x
    end.

  (* collect: target_log = logsize // pitch; if target_log != nlogs-1: start a new page;
     append the snapshot to the active page; logsize += 1 *)
  Definition collect (s : store) (x : A) : store :=
    let target := Nat.div (logsize s) (pitch s) in
    if Nat.eqb target (length (pages s) - 1)
    then mkStore (pitch s) (app_last (pages s) x) (S (logsize s))
    else mkStore (pitch s) (pages s ++ [[x]]) (S (logsize s)).

  (* __getitem__: negative index -> logsize - |i|; out of range -> None (IndexError) *)
  Definition getitem (s : store) (i : Z) : option A :=
    let j := if (i <? 0)%Z then (Z.of_nat (logsize s) - Z.abs i)%Z else i in
    if ((j <? 0) || (Z.of_nat (logsize s) <=? j))%Z then None
    else let jn := Z.to_nat j in
         let page := Nat.div jn (pitch s) in
         let off := jn - page * pitch s in
         nth_error (nth page (pages s) []) off.

  Definition iter (s : store) : list A := concat (pages s).
  Definition len (s : store) : nat := logsize s.

  (* reload: logsize = log_pitch*(nlogs-1) + len(active page) *)
  Definition reload (s : store) : store :=
    mkStore (pitch s) (pages s) (pitch s * (length (pages s) - 1) + length (last (pages s) [])).

  (* the in-memory store and its negative indexing (Python list semantics) *)
  Definition mem_getitem (data : list A) (i : Z) : option A :=
    let n := Z.of_nat (length data) in
    let j := if (i <? 0)%Z then (n + i)%Z else i in
    if ((j <? 0) || (n <=? j))%Z then None else nth_error data (Z.to_nat j).
End Store.

(* ---------- names: find_unique_name(base, always_enumerate=True) ---------- *)
Fixpoint find_unique (fuel : nat) (used : nat -> bool) (i : nat) : nat :=
  match fuel with
  | 0 => i
  | S f => if used i then find_unique f used (S i) else i
  end.

(* ---------- the directory: several traces, events, clone ---------- *)
Inductive fname : Type := FMain (base u : nat) | FPage (base u j : nat) | FEvents (base u : nat).
Definition fname_eqb (a b : fname) : bool :=
  match a, b with
  | FMain x y, FMain x' y' => Nat.eqb x x' && Nat.eqb y y'
  | FPage x y z, FPage x' y' z' => Nat.eqb x x' && Nat.eqb y y' && Nat.eqb z z'
  | FEvents x y, FEvents x' y' => Nat.eqb x x' && Nat.eqb y y'
  | _, _ => false
  end.
Definition fs := list (fname * list nat).     (* content: snapshot / event ids; main log: [nlogs; pitch] *)
Fixpoint fs_get (d : fs) (f : fname) : option (list nat) :=
  match d with [] => None | (g, c) :: r => if fname_eqb g f then Some c else fs_get r f end.
Fixpoint fs_set (d : fs) (f : fname) (c : list nat) : fs :=
  match d with
  | [] => [(f, c)]
  | (g, c') :: r => if fname_eqb g f then (g, c) :: r else (g, c') :: fs_set r f c
  end.
Definition fs_has (d : fs) (f : fname) : bool := match fs_get d f with Some _ => true | None => false end.

Record ytrace := mkY { ybase : nat; yu : nat; ypitch : nat; ynlogs : nat; ylogsize : nat }.

Definition y_init (d : fs) (base p : nat) : fs * ytrace :=
  let u := find_unique (length d + 1) (fun i => fs_has d (FMain base i)) 0 in
  let d1 := fs_set (fs_set (fs_set d (FMain base u) [1; p]) (FPage base u 0) []) (FEvents base u) [] in
  (d1, mkY base u p 1 0).

Definition y_collect (d : fs) (t : ytrace) (x : nat) : fs * ytrace :=
  let target := Nat.div (ylogsize t) (ypitch t) in
  let '(d1, nl) := if Nat.eqb target (ynlogs t - 1) then (d, ynlogs t)
                   else (fs_set d (FMain (ybase t) (yu t)) [S (ynlogs t); ypitch t], S (ynlogs t)) in
  let pg := FPage (ybase t) (yu t) (nl - 1) in
  let old := match fs_get d1 pg with Some c => c | None => [] end in
  (fs_set d1 pg (old ++ [x]), mkY (ybase t) (yu t) (ypitch t) nl (S (ylogsize t))).

Definition y_event (d : fs) (t : ytrace) (e : nat) : fs :=
  let f := FEvents (ybase t) (yu t) in
  fs_set d f ((match fs_get d f with Some c => c | None => [] end) ++ [e]).

Definition y_pages (d : fs) (t : ytrace) : list (list nat) :=
  map (fun j => match fs_get d (FPage (ybase t) (yu t) j) with Some c => c | None => [] end) (seq 0 (ynlogs t)).

Definition y_store (d : fs) (t : ytrace) : store (A:=nat) := mkStore (ypitch t) (y_pages d t) (ylogsize t).

(* load_log(main): nlogs, pitch from the main log; size from the last page *)
Definition y_reload (d : fs) (base u : nat) : option ytrace :=
  match fs_get d (FMain base u) with
  | Some [nl; p] =>
      let last := match fs_get d (FPage base u (nl - 1)) with Some c => c | None => [] end in
      Some (mkY base u p nl (p * (nl - 1) + length last))
  | _ => None
  end.

(* clone(): new unique name under base_name, pages and event log copied *)
Definition y_clone (d : fs) (t : ytrace) (newbase : nat) : fs * ytrace :=
  let '(d1, t1) := y_init d newbase (ypitch t) in
  let d2 := fold_left (fun acc j => fs_set acc (FPage newbase (yu t1) j)
                                     (match fs_get d (FPage (ybase t) (yu t) j) with Some c => c | None => [] end))
                      (seq 0 (ynlogs t)) d1 in
  let d3 := fs_set d2 (FEvents newbase (yu t1)) (match fs_get d (FEvents (ybase t) (yu t)) with Some c => c | None => [] end) in
  let d4 := fs_set d3 (FMain newbase (yu t1)) [ynlogs t; ypitch t] in
  (d4, mkY newbase (yu t1) (ypitch t) (ynlogs t) (ylogsize t)).
