(* Model/Traj.v — one full pass of the loop body of TrajectorySH.simulate
   (trajectory_sh.py 585-602) for the 'exp' integrator:
     advance_position; electronics at the new position (oracle data); advance_velocity;
     propagate_electronics (W from both ends, eigh answer as oracle data); surface_hopping
     (gkndt from the propagated rho and the same W, threshold, hop_to_it); time += dt.
   It only wires together Hop.v, Propagate.v and Hopper.v in the order the code uses them. *)
From Coq Require Import ZArith List Bool Arith.
From MV Require Import Ops Vec Cplx Mat Poisson Hop Hopper Propagate Ehrenfest Cumulative Afssh SpawnStack.
Import ListNotations.

Section Traj.
  Context {T : Type} (O : Ops T).
  Notation C := (C (T:=T)).

  (* what an electronics object provides at one position *)
  Record elec := mkElec { eH : list (list T); etau : list (list (list T)); eforce : list (list T) }.   (* H n x n; tau n x n x ndim; force n x ndim *)

  Record tstate := mkT { px : list T; pv : list T; prho : mat (T:=T); pact : nat; ptime : T }.

  Definition diagE (n : nat) (e : elec) : list T := tabulate n (fun i => rget O (eH e) i i).
  Definition row (n : nat) (M : mat (T:=T)) (k : nat) : list C := tabulate n (fun j => mget O M k j).
  Definition colm (n : nat) (M : mat (T:=T)) (k : nat) : list C := tabulate n (fun j => mget O M j k).

  (* returns the new state, the W that was used, the probabilities' sum (snapshot "hopping"), and the attempt *)
  Definition step (n : nat) (m : list T) (dt : T) (poisson : bool) (zeta : T)
             (e0 e1 : elec) (lam : list T) (Cm : mat (T:=T)) (s : tstate)
    : tstate * mat (T:=T) * T * option (nat * bool) :=
    let f0 := nth (pact s) (eforce e0) [] in
    let x1 := advance_position O m (px s) (pv s) f0 dt in
    let f1 := nth (pact s) (eforce e1) [] in
    let v1 := advance_velocity O m (pv s) f0 f1 dt in
    let W := Wmid O n (eH e0) (eH e1) (etau e0) (etau e1) v1 (pv s) in
    let rho1 := exp_step O n lam Cm dt (prho s) in
    let g := gkndt O (row n rho1 (pact s)) (colm n W (pact s)) (pact s) dt in
    let '(tg, hp) := hopper O poisson g zeta in
    match tg with
    | None => (mkT x1 v1 rho1 (pact s) (oadd O (ptime s) dt), W, hp, None)
    | Some t =>
        let '(a', v2, acc) := hop_to_it O m v1 (pact s) t (diagE n e1) (tget (etau e1) (pact s) t) in
        (mkT x1 v2 rho1 a' (oadd O (ptime s) dt), W, hp, Some (t, acc))
    end.
End Traj.

(* ---- the same pass for the classes that override parts of it ---- *)
Section TrajX.
  Context {T : Type} (O : Ops T).

  (* Ehrenfest: the force is the population-weighted one of ehrenfest.py, evaluated with the density
     matrix *before* propagation at both ends of the step (that is what the code does: _force reads
     self.rho, and propagate_electronics runs after advance_velocity); never hops *)
  Definition step_eh (n : nat) (m : list T) (dt : T) (e0 e1 : elec (T:=T)) (lam : list T) (Cm : mat (T:=T)) (s : tstate (T:=T))
    : tstate (T:=T) * mat (T:=T) :=
    let f0 := eh_force_code O n (prho s) (eforce e0) in
    let x1 := advance_position O m (px s) (pv s) f0 dt in
    let f1 := eh_force_code O n (prho s) (eforce e1) in
    let v1 := advance_velocity O m (pv s) f0 f1 dt in
    let W := Wmid O n (eH e0) (eH e1) (etau e0) (etau e1) v1 (pv s) in
    let rho1 := exp_step O n lam Cm dt (prho s) in
    (mkT x1 v1 rho1 (eh_surface_hopping (pact s)) (oadd O (ptime s) dt), W).

  (* TrajectoryCum: same pass, the decision is cum_step on the accumulated probability *)
  Definition step_cum (n : nat) (m : list T) (dt : T) (e0 e1 : elec (T:=T)) (lam : list T) (Cm : mat (T:=T))
             (s : tstate (T:=T)) (c : cstate (T:=T))
    : tstate (T:=T) * cstate (T:=T) * T * option (nat * bool) :=
    let f0 := nth (pact s) (eforce e0) [] in
    let x1 := advance_position O m (px s) (pv s) f0 dt in
    let f1 := nth (pact s) (eforce e1) [] in
    let v1 := advance_velocity O m (pv s) f0 f1 dt in
    let W := Wmid O n (eH e0) (eH e1) (etau e0) (etau e1) v1 (pv s) in
    let rho1 := exp_step O n lam Cm dt (prho s) in
    let g := gkndt O (row O n rho1 (pact s)) (colm O n W (pact s)) (pact s) dt in
    let '(c', att) := cum_step O c g in
    match att with
    | Some (Some t, _, _) =>
        let '(a', v2, acc) := hop_to_it O m v1 (pact s) t (diagE O n e1) (tget (etau e1) (pact s) t) in
        (mkT x1 v2 rho1 a' (oadd O (ptime s) dt), c', vsum O g, Some (t, acc))
    | _ => (mkT x1 v1 rho1 (pact s) (oadd O (ptime s) dt), c', vsum O g, None)
    end.
End TrajX.

(* ---- whole runs: the loop of simulate() over any number of passes ---- *)
Section Run.
  Context {T : Type} (O : Ops T).
  (* what each pass of the loop consumes from outside the model: the threshold, the electronics at
     both ends (model evaluations) and numpy's eigh answer for the propagator *)
  Record sdata := mkSD { dzeta : T; de0 : elec (T:=T); de1 : elec (T:=T); dlam : list T; dC : mat (T:=T) }.
  Fixpoint run (n : nat) (m : list T) (dt : T) (poisson : bool) (ds : list sdata) (s : tstate (T:=T))
    : tstate (T:=T) * list (option (nat * bool)) :=
    match ds with
    | [] => (s, [])
    | d :: ds' =>
        let '(s1, _, _, att) := step O n m dt poisson (dzeta d) (de0 d) (de1 d) (dlam d) (dC d) s in
        let '(sf, atts) := run n m dt poisson ds' s1 in (sf, att :: atts)
    end.
  (* the active state implied by the attempts alone *)
  Definition follow (a : nat) (atts : list (option (nat * bool))) : nat :=
    fold_left (fun a att => match att with Some (t, true) => t | _ => a end) atts a.
End Run.

(* ---- whole Ehrenfest and cumulative runs ---- *)
Section RunX.
  Context {T : Type} (O : Ops T).
  Fixpoint run_eh (n : nat) (m : list T) (dt : T) (ds : list (sdata (T:=T))) (s : tstate (T:=T)) : tstate (T:=T) :=
    match ds with
    | [] => s
    | d :: ds' => run_eh n m dt ds' (fst (step_eh O n m dt (de0 d) (de1 d) (dlam d) (dC d) s))
    end.
  Fixpoint run_cum (n : nat) (m : list T) (dt : T) (ds : list (sdata (T:=T))) (s : tstate (T:=T)) (c : cstate (T:=T))
    : tstate (T:=T) * cstate (T:=T) * list (option (nat * bool)) :=
    match ds with
    | [] => (s, c, [])
    | d :: ds' =>
        let '(s1, c1, _, att) := step_cum O n m dt (de0 d) (de1 d) (dlam d) (dC d) s c in
        let '(sf, cf, atts) := run_cum n m dt ds' s1 c1 in (sf, cf, att :: atts)
    end.
End RunX.

(* ---- the pass with the linear-rk4 electronic integrator ---- *)
Section TrajR.
  Context {T : Type} (O : Ops T).
  (* the loop body with electronic_integration = "linear-rk4": identical wiring, the density matrix takes the
     interpolated RK4 step in the eigenbasis of the previous Hamiltonian (eigs, vecs: numpy's eigh(last_H), oracle data);
     the hopping probabilities still use the midpoint propagator W *)
  Definition step_rk4 (n : nat) (m : list T) (dt maxdt : T) (start : nat) (poisson : bool) (zeta : T)
             (e0 e1 : elec (T:=T)) (eigs : list T) (vecs : list (list T)) (s : tstate (T:=T))
    : tstate (T:=T) * mat (T:=T) * T * option (nat * bool) :=
    let f0 := nth (pact s) (eforce e0) [] in
    let x1 := advance_position O m (px s) (pv s) f0 dt in
    let f1 := nth (pact s) (eforce e1) [] in
    let v1 := advance_velocity O m (pv s) f0 f1 dt in
    let W := Wmid O n (eH e0) (eH e1) (etau e0) (etau e1) v1 (pv s) in
    let rho1 := rk4_step O n (eH e0) (eH e1) (etau e0) (etau e1) v1 (pv s) eigs vecs dt maxdt start (prho s) in
    let g := gkndt O (row O n rho1 (pact s)) (colm O n W (pact s)) (pact s) dt in
    let '(tg, hp) := hopper O poisson g zeta in
    match tg with
    | None => (mkT x1 v1 rho1 (pact s) (oadd O (ptime s) dt), W, hp, None)
    | Some t =>
        let '(a', v2, acc) := hop_to_it O m v1 (pact s) t (diagE O n e1) (tget (etau e1) (pact s) t) in
        (mkT x1 v2 rho1 a' (oadd O (ptime s) dt), W, hp, Some (t, acc))
    end.
End TrajR.

(* ---- Ehrenfest and cumulative FSSH with electronic_integration = "linear-rk4": the wiring of step_eh / step_cum with the
   density matrix taking the interpolated RK4 step of step_rk4 ---- *)
Section TrajXR.
  Context {T : Type} (O : Ops T).
  Definition step_eh_rk4 (n : nat) (m : list T) (dt maxdt : T) (start : nat) (e0 e1 : elec (T:=T)) (eigs : list T) (vecs : list (list T)) (s : tstate (T:=T))
    : tstate (T:=T) * mat (T:=T) :=
    let f0 := eh_force_code O n (prho s) (eforce e0) in
    let x1 := advance_position O m (px s) (pv s) f0 dt in
    let f1 := eh_force_code O n (prho s) (eforce e1) in
    let v1 := advance_velocity O m (pv s) f0 f1 dt in
    let W := Wmid O n (eH e0) (eH e1) (etau e0) (etau e1) v1 (pv s) in
    let rho1 := rk4_step O n (eH e0) (eH e1) (etau e0) (etau e1) v1 (pv s) eigs vecs dt maxdt start (prho s) in
    (mkT x1 v1 rho1 (eh_surface_hopping (pact s)) (oadd O (ptime s) dt), W).
  Definition step_cum_rk4 (n : nat) (m : list T) (dt maxdt : T) (start : nat) (e0 e1 : elec (T:=T)) (eigs : list T) (vecs : list (list T))
             (s : tstate (T:=T)) (c : cstate (T:=T))
    : tstate (T:=T) * cstate (T:=T) * T * option (nat * bool) :=
    let f0 := nth (pact s) (eforce e0) [] in
    let x1 := advance_position O m (px s) (pv s) f0 dt in
    let f1 := nth (pact s) (eforce e1) [] in
    let v1 := advance_velocity O m (pv s) f0 f1 dt in
    let W := Wmid O n (eH e0) (eH e1) (etau e0) (etau e1) v1 (pv s) in
    let rho1 := rk4_step O n (eH e0) (eH e1) (etau e0) (etau e1) v1 (pv s) eigs vecs dt maxdt start (prho s) in
    let g := gkndt O (row O n rho1 (pact s)) (colm O n W (pact s)) (pact s) dt in
    let '(c', att) := cum_step O c g in
    match att with
    | Some (Some t, _, _) =>
        let '(a', v2, acc) := hop_to_it O m v1 (pact s) t (diagE O n e1) (tget (etau e1) (pact s) t) in
        (mkT x1 v2 rho1 a' (oadd O (ptime s) dt), c', vsum O g, Some (t, acc))
    | _ => (mkT x1 v1 rho1 (pact s) (oadd O (ptime s) dt), c', vsum O g, None)
    end.
End TrajXR.

(* ---- the A-FSSH pass ---- *)
Section TrajA.
  Context {T : Type} (O : Ops T).
  (* A-FSSH (augmented_integration = electronic_integration = "exp"): the loop body with the moment bookkeeping in the
     order and with the arguments the code uses.
       advance_position: x, then delR with the propagator of the PREVIOUS pass (last = electronics one position back,
                         this = electronics at the current position, velocities v_t and v_{t-1}) - eigh answer (epsR, coR);
       advance_velocity: v, then delP with this pass's propagator W (eigh answer (lam, Cm), shared with
                         propagate_electronics), delF from the new electronics and the active force there, rho BEFORE propagation;
       propagate_electronics; surface_hopping (direction = Re(delP_ss - delP_tt) of the updated moments; accepted hop
       re-centres both moments); collapse (gamma from the re-centred moments, one uniform per non-active state). *)
  Record astate := mkA { ab : tstate (T:=T); alastv : list T; adelR : list (mat (T:=T)); adelP : list (mat (T:=T)) }.

  Definition rediag (n : nat) (M : mat (T:=T)) : list T := tabulate n (fun i => cre (mget O M i i)).

  Definition step_af (n : nat) (m : list T) (dt : T) (poisson : bool) (zeta : T)
             (eprev e0 e1 : elec (T:=T)) (fm1 : list (list (list T)))      (* fm1[x] = force_matrix[:,:,x] at the new position *)
             (epsR : list T) (coR : mat (T:=T)) (lam : list T) (Cm : mat (T:=T)) (etas : list T) (s : astate)
    : astate * option (nat * bool) * bool :=
    let b := ab s in
    let f0 := nth (pact b) (eforce e0) [] in
    let x1 := advance_position O m (px b) (pv b) f0 dt in
    let dR1 := map (fun p => let '(mx, (R, P)) := p in delR_exp O n epsR coR dt mx R P) (combine m (combine (adelR s) (adelP s))) in
    let f1 := nth (pact b) (eforce e1) [] in
    let v1 := advance_velocity O m (pv b) f0 f1 dt in
    let W := Wmid O n (eH e0) (eH e1) (etau e0) (etau e1) v1 (pv b) in
    let dP1 := map (fun p => let '(fx, (fmx, P)) := p in delP_exp O n lam Cm dt P (delF O n fmx fx) (prho b)) (combine f1 (combine fm1 (adelP s))) in
    let rho1 := exp_step O n lam Cm dt (prho b) in
    let g := gkndt O (row O n rho1 (pact b)) (colm O n W (pact b)) (pact b) dt in
    let '(tg, _) := hopper O poisson g zeta in
    let '(a2, v2, dR2, dP2, att) :=
      match tg with
      | None => (pact b, v1, dR1, dP1, None)
      | Some t =>
          let '(a', v', acc) := hop_to_it O m v1 (pact b) t (diagE O n e1) (afssh_direction O dP1 (pact b) t) in
          if acc then (a', v', map (hop_shift O n t) dR1, map (hop_shift O n t) dP1, Some (t, true))
          else (a', v', dR1, dP1, Some (t, false))
      end in
    let gam := gamma_collapse O n (map (rediag n) dR2) (map (rediag n) dP2) (tabulate n (fun i => map (fun fmx => nth i (nth i fmx []) (o0 O)) fm1)) a2 dt in
    let '(coll, _) := collapse_scan O gam a2 0 etas in
    let '(rho3, dR3, dP3) := collapse_apply O n a2 coll rho1 dR2 dP2 in
    (mkA (mkT x1 v2 rho3 a2 (oadd O (ptime b) dt)) (pv b) dR3 dP3, att, coll).
End TrajA.

(* ---- A-FSSH with rk4 moments ---- *)
Section TrajAR.
  Context {T : Type} (O : Ops T).
  (* A-FSSH with augmented_integration = "rk4" (electronic_integration = "exp"): the wiring of step_af, the moments take
     four RK4 sub-steps with the propagator matrices themselves - the previous pass's for delR, this pass's for delP - so no
     eigh answer enters the moment propagation *)
  Definition step_af_rk4 (n : nat) (m : list T) (dt : T) (poisson : bool) (zeta : T)
             (eprev e0 e1 : elec (T:=T)) (fm1 : list (list (list T)))
             (lam : list T) (Cm : mat (T:=T)) (etas : list T) (s : astate (T:=T))
    : astate (T:=T) * option (nat * bool) * bool :=
    let b := ab s in
    let f0 := nth (pact b) (eforce e0) [] in
    let x1 := advance_position O m (px b) (pv b) f0 dt in
    let Wprev := Wmid O n (eH eprev) (eH e0) (etau eprev) (etau e0) (pv b) (alastv s) in
    let dR1 := map (fun p => let '(mx, (R, P)) := p in delR_rk4 O n Wprev dt mx R P) (combine m (combine (adelR s) (adelP s))) in
    let f1 := nth (pact b) (eforce e1) [] in
    let v1 := advance_velocity O m (pv b) f0 f1 dt in
    let W := Wmid O n (eH e0) (eH e1) (etau e0) (etau e1) v1 (pv b) in
    let dP1 := map (fun p => let '(fx, (fmx, P)) := p in delP_rk4 O n W dt P (delF O n fmx fx) (prho b)) (combine f1 (combine fm1 (adelP s))) in
    let rho1 := exp_step O n lam Cm dt (prho b) in
    let g := gkndt O (row O n rho1 (pact b)) (colm O n W (pact b)) (pact b) dt in
    let '(tg, _) := hopper O poisson g zeta in
    let '(a2, v2, dR2, dP2, att) :=
      match tg with
      | None => (pact b, v1, dR1, dP1, None)
      | Some t =>
          let '(a', v', acc) := hop_to_it O m v1 (pact b) t (diagE O n e1) (afssh_direction O dP1 (pact b) t) in
          if acc then (a', v', map (hop_shift O n t) dR1, map (hop_shift O n t) dP1, Some (t, true))
          else (a', v', dR1, dP1, Some (t, false))
      end in
    let gam := gamma_collapse O n (map (rediag O n) dR2) (map (rediag O n) dP2) (tabulate n (fun i => map (fun fmx => nth i (nth i fmx []) (o0 O)) fm1)) a2 dt in
    let '(coll, _) := collapse_scan O gam a2 0 etas in
    let '(rho3, dR3, dP3) := collapse_apply O n a2 coll rho1 dR2 dP2 in
    (mkA (mkT x1 v2 rho3 a2 (oadd O (ptime b) dt)) (pv b) dR3 dP3, att, coll).
End TrajAR.


(* ---- whole A-FSSH runs ---- *)
Section RunA.
  Context {T : Type} (O : Ops T).
  (* per-pass inputs of an A-FSSH run *)
  Record adata := mkAD { azeta : T; aeprev : elec (T:=T); ae0 : elec (T:=T); ae1 : elec (T:=T); afm1 : list (list (list T));
                         aepsR : list T; acoR : mat (T:=T); alam : list T; aC : mat (T:=T); aetas : list T }.
  Fixpoint run_af (n : nat) (m : list T) (dt : T) (poisson : bool) (ds : list adata) (s : astate (T:=T))
    : astate (T:=T) * list (option (nat * bool) * bool) :=
    match ds with
    | [] => (s, [])
    | d :: ds' =>
        let '(s1, att, coll) := step_af O n m dt poisson (azeta d) (aeprev d) (ae0 d) (ae1 d) (afm1 d) (aepsR d) (acoR d) (alam d) (aC d) (aetas d) s in
        let '(sf, evs) := run_af n m dt poisson ds' s1 in (sf, (att, coll) :: evs)
    end.
End RunA.

(* ---- whole linear-rk4 runs ---- *)
Section RunR.
  Context {T : Type} (O : Ops T).
  Record kdata := mkKD { kzeta : T; ke0 : elec (T:=T); ke1 : elec (T:=T); keigs : list T; kvecs : list (list T) }.
  Fixpoint run_rk4 (n : nat) (m : list T) (dt maxdt : T) (start : nat) (poisson : bool) (ds : list kdata) (s : tstate (T:=T))
    : tstate (T:=T) * list (option (nat * bool)) :=
    match ds with
    | [] => (s, [])
    | d :: ds' =>
        let '(s1, _, _, att) := step_rk4 O n m dt maxdt start poisson (kzeta d) (ke0 d) (ke1 d) (keigs d) (kvecs d) s in
        let '(sf, atts) := run_rk4 n m dt maxdt start poisson ds' s1 in (sf, att :: atts)
    end.
End RunR.

Section RunAR.
  Context {T : Type} (O : Ops T).
  (* whole A-FSSH runs with rk4 moments: the per-pass record of run_af, its eigh answer for the previous propagator unused *)
  Fixpoint run_af_rk4 (n : nat) (m : list T) (dt : T) (poisson : bool) (ds : list (adata (T:=T))) (s : astate (T:=T))
    : astate (T:=T) * list (option (nat * bool) * bool) :=
    match ds with
    | [] => (s, [])
    | d :: ds' =>
        let '(s1, att, coll) := step_af_rk4 O n m dt poisson (azeta d) (aeprev d) (ae0 d) (ae1 d) (afm1 d) (alam d) (aC d) (aetas d) s in
        let '(sf, evs) := run_af_rk4 n m dt poisson ds' s1 in (sf, (att, coll) :: evs)
    end.
End RunAR.


(* ---- the even-sampling pass (even_sampling.py hopper 307-356, hop_to_it 358-387 inside the loop body of simulate) with a
   non-empty spawn stack: the parent never hops; when the accumulated probability passes the current threshold the stack
   index advances past every threshold below it and, for every other state in ascending order, spawn_size children are
   cloned at the end point of the pass and sent through TrajectoryCum.hop_to_it (accepted or frustrated) ---- *)
Section TrajES.
  Context {T : Type} (O : Ops T).
  Record estate := mkES { eb : tstate (T:=T); eacc : T; eiz : nat; est : list (node (T:=T)); ebase : T }.
  (* SpawnStack.weight(): base_weight * marginal_weight *)
  Definition es_weight (s : estate) : T := omul O (ebase s) (marginal O (est s) (eiz s)).
  (* a child: its trajectory state, its own stack (the children of the node at the old index) and base weight *)
  Definition es_child (n : nat) (m : list T) (dt : T) (e1 : elec (T:=T)) (x1 v1 : list T) (rho1 : mat (T:=T)) (a : nat) (t1 : T)
             (st' : list (node (T:=T))) (w : T) (target : nat) : estate :=
    let '(a', v2, _) := hop_to_it O m v1 a target (diagE O n e1) (tget (etau e1) a target) in
    mkES (mkT x1 v2 rho1 a' t1) (o0 O) 0 st' w.
  Definition step_es (n : nat) (m : list T) (dt : T) (e0 e1 : elec (T:=T)) (lam : list T) (Cm : mat (T:=T)) (s : estate)
    : estate * list estate * T :=
    let b := eb s in
    let f0 := nth (pact b) (eforce e0) [] in
    let x1 := advance_position O m (px b) (pv b) f0 dt in
    let f1 := nth (pact b) (eforce e1) [] in
    let v1 := advance_velocity O m (pv b) f0 f1 dt in
    let W := Wmid O n (eH e0) (eH e1) (etau e0) (etau e1) v1 (pv b) in
    let rho1 := exp_step O n lam Cm dt (prho b) in
    let g := gkndt O (row O n rho1 (pact b)) (colm O n W (pact b)) (pact b) dt in
    let G := vsum O g in
    let a1 := accumulate_es O (eacc s) G in
    let t1 := oadd O (ptime b) dt in
    let b1 := mkT x1 v1 rho1 (pact b) t1 in
    if oltb O (zeta_at O (est s) (eiz s)) a1 then
      let iz' := next_index O (est s) (eiz s) a1 in
      match nth_error (est s) (eiz s) with
      | None => (mkES b1 a1 (eiz s) (est s) (ebase s), [], G)
      | Some nd =>
          let dw := sum_range O (dws (est s)) (eiz s) iz' in
          let ns := nspawn nd in
          let share := odiv O (o1 O) (ofnat O ns) in
          let kids := flat_map (fun i =>
                        if Nat.eqb i (pact b) then []
                        else repeat (es_child n m dt e1 x1 v1 rho1 (pact b) t1 (nchildren nd)
                                       (omul O (omul O (ebase s) dw) (omul O share (odiv O (vget O g i) G))) i) ns)
                      (seq 0 n) in
          (mkES b1 a1 iz' (est s) (ebase s), kids, G)
      end
    else (mkES b1 a1 (eiz s) (est s) (ebase s), [], G).
End TrajES.


(* ---- any number of even-sampling passes of one trajectory: the children of all passes are collected in spawn order ---- *)
Section RunES.
  Context {T : Type} (O : Ops T).
  Fixpoint run_es (n : nat) (m : list T) (dt : T) (ds : list (sdata (T:=T))) (s : estate (T:=T)) : estate (T:=T) * list (estate (T:=T)) :=
    match ds with
    | [] => (s, [])
    | d :: ds' =>
        let '(s1, kids, _) := step_es O n m dt (de0 d) (de1 d) (dlam d) (dC d) s in
        let '(sf, kids') := run_es n m dt ds' s1 in (sf, kids ++ kids')
    end.
End RunES.

(* ---- whole Ehrenfest / cumulative runs with the linear-rk4 electronic step (per-pass record kdata of run_rk4) ---- *)
Section RunXR.
  Context {T : Type} (O : Ops T).
  Fixpoint run_eh_rk4 (n : nat) (m : list T) (dt maxdt : T) (start : nat) (ds : list (kdata (T:=T))) (s : tstate (T:=T)) : tstate (T:=T) :=
    match ds with
    | [] => s
    | d :: ds' => run_eh_rk4 n m dt maxdt start ds' (fst (step_eh_rk4 O n m dt maxdt start (ke0 d) (ke1 d) (keigs d) (kvecs d) s))
    end.
  Fixpoint run_cum_rk4 (n : nat) (m : list T) (dt maxdt : T) (start : nat) (ds : list (kdata (T:=T))) (s : tstate (T:=T)) (c : cstate (T:=T))
    : tstate (T:=T) * cstate (T:=T) * list (option (nat * bool)) :=
    match ds with
    | [] => (s, c, [])
    | d :: ds' =>
        let '(s1, c1, _, att) := step_cum_rk4 O n m dt maxdt start (ke0 d) (ke1 d) (keigs d) (kvecs d) s c in
        let '(sf, cf, atts) := run_cum_rk4 n m dt maxdt start ds' s1 c1 in (sf, cf, att :: atts)
    end.
End RunXR.
