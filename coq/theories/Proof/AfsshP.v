(* Proof/AfsshP.v — A-FSSH moment matrices: Hermiticity under both integrators, the hop
   shift, the collapse (real instance). *)
From Coq Require Import Reals Ring Lra Lia List Arith Bool Setoid Morphisms.
From MV Require Import Ops RInst Vec Cplx Mat CRing SumR MatP Poisson PoissonP Propagate PropagateP Rk4P Afssh.
Import ListNotations.
Open Scope R_scope.
Local Open Scope C_scope.

Section A.
  Variable n : nat.
  Notation mh := (mherm n).

  (* ---- building blocks ---- *)
  Lemma to_eig_spec co A : meq n (mg (to_eig ROps n co A)) (fm n (fm n (fa (mg co)) (mg A)) (mg co)).
  Proof. unfold to_eig. rewrite (mmul_spec n _ co), (mmul_spec n _ A), (madj_spec n co). reflexivity. Qed.
  Lemma from_eig_spec co A : meq n (mg (from_eig ROps n co A)) (fm n (fm n (mg co) (mg A)) (fa (mg co))).
  Proof. unfold from_eig. rewrite (mmul_spec n _ _), (mmul_spec n co A), (madj_spec n co). reflexivity. Qed.
  Lemma to_eig_herm co A : mh A -> mh (to_eig ROps n co A).
  Proof. intros H. unfold mherm, herm in *. rewrite (to_eig_spec co A). apply herm_congr. exact H. Qed.
  Lemma from_eig_herm co A : mh A -> mh (from_eig ROps n co A).
  Proof. intros H. unfold mherm, herm in *. rewrite (from_eig_spec co A). apply herm_congr'. exact H. Qed.

  Lemma expiht_herm eps dt : mh (expiht ROps n eps dt).
  Proof.
    unfold mherm, herm, expiht. rewrite (mmk_spec n _). intros i j Hi Hj. unfold fadj.
    unfold ccis, cconj. apply C_eq; cbn.
    - rewrite <- cos_neg. f_equal. ring.
    - rewrite <- sin_neg. f_equal. ring.
  Qed.
  Lemma mherm_mhad A B : mh A -> mh B -> mh (mhad ROps n A B).
  Proof. intros HA HB. unfold mherm, herm in *. rewrite (mhad_spec n A B). apply herm_fhad; assumption. Qed.

  Theorem delR_exp_herm eps co dt mass dR dP : mh dR -> mh dP -> mh (delR_exp ROps n eps co dt mass dR dP).
  Proof.
    intros HR HP. unfold delR_exp. apply from_eig_herm, mherm_mhad; [|apply expiht_herm].
    apply mherm_madd; [apply to_eig_herm; exact HR|]. apply mherm_rscale, to_eig_herm, mherm_rscale. exact HP.
  Qed.

  (* ---- Hermiticity-preserving RK4 (no trace condition) ---- *)
  Lemma rk4_loop_herm (ydot : mat (T:=R) -> R -> mat (T:=R)) t0 h :
    (forall y t, mh y -> mh (ydot y t)) ->
    forall steps i y, mh y -> mh (rk4_loop ROps n ydot t0 h steps i y).
  Proof.
    intros Hy. induction steps as [|s IH]; intros i y H; cbn [rk4_loop]; [exact H|].
    apply IH. apply mherm_madd; [exact H|]. apply mherm_rscale.
    repeat (apply mherm_madd || apply mherm_rscale || apply Hy); exact H.
  Qed.

  Lemma comm_i_herm Hm R : mh Hm -> mh R -> mh (comm_i ROps n Hm R).
  Proof.
    intros HH HR. unfold comm_i, mi_scale, mherm, herm.
    rewrite (mscale_spec n _ _), (msub_spec n _ _), (mmul_spec n Hm R), (mmul_spec n R Hm).
    apply (comm_herm n (mg Hm) (mg R)); assumption.
  Qed.

  Theorem delR_rk4_herm Hm dt mass dR dP : mh Hm -> mh dR -> mh dP -> mh (delR_rk4 ROps n Hm dt mass dR dP).
  Proof.
    intros HH HR HP. unfold delR_rk4, rk4. apply rk4_loop_herm; [|exact HR].
    intros y t Hy. apply mherm_madd; [apply comm_i_herm; assumption | apply mherm_rscale; exact HP].
  Qed.

  Theorem delP_rk4_herm Hm dt dP dF rho : mh Hm -> mh dP -> mh dF -> mh rho -> mh (delP_rk4 ROps n Hm dt dP dF rho).
  Proof.
    intros HH HP HF Hr. unfold delP_rk4, rk4. apply rk4_loop_herm; [|exact HP].
    intros y t Hy. apply mherm_madd; [apply comm_i_herm; assumption|]. apply mherm_rscale.
    unfold mherm, herm in *. rewrite (madd_spec n _ _), (mmul_spec n dF rho), (mmul_spec n rho dF).
    intros i j Hi Hj. unfold fadj, fadd.
    pose proof (fadj_mul n (mg dF) (mg rho) i j Hi Hj) as E1. pose proof (fadj_mul n (mg rho) (mg dF) i j Hi Hj) as E2.
    unfold fadj at 1 in E1. unfold fadj at 1 in E2. rewrite cconj_add, E1, E2.
    assert (fm n (fa (mg rho)) (fa (mg dF)) i j = fm n (mg rho) (mg dF) i j) as -> by (apply fmul_ext; assumption).
    assert (fm n (fa (mg dF)) (fa (mg rho)) i j = fm n (mg dF) (mg rho) i j) as -> by (apply fmul_ext; assumption).
    ring.
  Qed.

  (* ---- the 'exp' momentum-moment propagation ---- *)
  Lemma poiss_star_conj eps dt i j k : poiss_star ROps eps dt i j k = (poiss ROps eps dt i j k)^*.
  Proof.
    unfold poiss_star, poiss.
    change (o0 ROps, oopp ROps (omul ROps (eee ROps eps i j k) dt)) with (cconj ROps (o0 ROps, omul ROps (eee ROps eps i j k) dt)).
    rewrite cpps_conj. generalize (cpps ROps (o0 ROps, omul ROps (eee ROps eps i j k) dt)). intros z. csolve.
  Qed.

  Lemma FFmat_herm eps dt dF rho : mh dF -> mh rho -> mh (FFmat ROps n eps dt dF rho).
  Proof.
    intros HF Hr. unfold mherm, herm, FFmat. rewrite (mmk_spec n _). intros i j Hi Hj. unfold fadj.
    set (c := oopp ROps (ohalf ROps)).
    assert (forall z, (cscale ROps c z)^* = cscale ROps c z^*) as Ec by (intros z; csolve).
    rewrite Ec, cconj_add, !csum_conj.
    assert (forall a b, cscale ROps c (a + b) = cscale ROps c (b + a)) as Esw by (intros; csolve).
    rewrite Esw. f_equal. f_equal.
    - apply csum_ext. intros k Hk. rewrite !cconj_mul, poiss_star_conj, cconj_invol.
      pose proof (Hr k j Hk Hj) as E1. pose proof (HF i k Hi Hk) as E2. unfold fadj in E1, E2. rewrite E1, E2. ring.
    - apply csum_ext. intros k Hk. rewrite !cconj_mul, poiss_star_conj.
      pose proof (HF k j Hk Hj) as E1. pose proof (Hr i k Hi Hk) as E2. unfold fadj in E1, E2. rewrite E1, E2. ring.
  Qed.

  Theorem delP_exp_herm eps co dt dP dF rho : mh dP -> mh dF -> mh rho -> mh (delP_exp ROps n eps co dt dP dF rho).
  Proof.
    intros HP HF Hr. unfold delP_exp. apply from_eig_herm, mherm_mhad; [|apply expiht_herm].
    apply mherm_madd; [apply to_eig_herm; exact HP|]. apply FFmat_herm; apply to_eig_herm; assumption.
  Qed.

  (* compute_delF: a real symmetric force matrix stays Hermitian after the diagonal shift *)
  Lemma delF_herm fmx f0 : (forall i j, (i < n)%nat -> (j < n)%nat -> nth j (nth i fmx []) (o0 ROps) = nth i (nth j fmx []) (o0 ROps)) ->
    mh (delF ROps n fmx f0).
  Proof.
    intros Hs. unfold mherm, herm, delF. rewrite (mmk_spec n _). intros i j Hi Hj. unfold fadj.
    rewrite cconj_ofr, (Nat.eqb_sym j i). destruct (Nat.eqb_spec i j) as [->|_]; [reflexivity|].
    rewrite (Hs j i Hj Hi). reflexivity.
  Qed.

  (* ---- hop shift ---- *)
  Theorem hop_shift_entries t M i j : (i < n)%nat -> (j < n)%nat ->
    mg (hop_shift ROps n t M) i j = if Nat.eqb i j then mg M i i - mg M t t else mg M i j.
  Proof. intros Hi Hj. unfold hop_shift. rewrite (mget_mmk n n _ i j Hi Hj). reflexivity. Qed.

  Theorem hop_shift_recentres t M : (t < n)%nat ->
    mg (hop_shift ROps n t M) t t = 0
    /\ (forall i j, (i < n)%nat -> (j < n)%nat ->
          mg (hop_shift ROps n t M) i i - mg (hop_shift ROps n t M) j j = mg M i i - mg M j j)
    /\ (forall i j, (i < n)%nat -> (j < n)%nat -> i <> j -> mg (hop_shift ROps n t M) i j = mg M i j).
  Proof.
    intros Ht. repeat split.
    - rewrite (hop_shift_entries t M t t Ht Ht), Nat.eqb_refl. ring.
    - intros i j Hi Hj. rewrite (hop_shift_entries t M i i Hi Hi), (hop_shift_entries t M j j Hj Hj), !Nat.eqb_refl. ring.
    - intros i j Hi Hj Hne. rewrite (hop_shift_entries t M i j Hi Hj).
      replace (i =? j)%nat with false by (symmetry; apply Nat.eqb_neq; exact Hne). reflexivity.
  Qed.

  Lemma hop_shift_herm t M : (t < n)%nat -> mh M -> mh (hop_shift ROps n t M).
  Proof.
    intros Ht HM i j Hi Hj. unfold fadj. rewrite (hop_shift_entries t M j i Hj Hi), (hop_shift_entries t M i j Hi Hj).
    rewrite (Nat.eqb_sym j i). destruct (Nat.eqb_spec i j) as [->|_].
    - rewrite cconj_sub. pose proof (HM j j Hj Hj) as E1. pose proof (HM t t Ht Ht) as E2. unfold fadj in E1, E2. rewrite E1, E2. reflexivity.
    - apply (HM i j Hi Hj).
  Qed.

  (* ---- collapse ---- *)
  Theorem collapse_state k : (k < n)%nat ->
    mh (collapse_rho ROps n k) /\ mpure n (collapse_rho ROps n k) /\ mtrace ROps n (collapse_rho ROps n k) = 1
    /\ (forall i j, (i < n)%nat -> (j < n)%nat -> mg (zero_mat ROps n) i j = 0).
  Proof.
    intros Hk.
    assert (meq n (mg (collapse_rho ROps n k)) (fun i j => if Nat.eqb i k && Nat.eqb j k then 1 else 0)) as E by apply mmk_spec.
    repeat split.
    - unfold mherm, herm. rewrite E. intros i j _ _. unfold fadj. rewrite andb_comm.
      destruct (_ && _); [apply cconj_1 | apply cconj_0].
    - unfold mpure. rewrite E. intros i j Hi Hj. unfold fmul.
      rewrite (csum_ext n _ (fun l => (if Nat.eqb k l then 1 else 0) * (if Nat.eqb i k && Nat.eqb j k then 1 else 0))).
      + apply (csum_delta_l n k (fun _ => if Nat.eqb i k && Nat.eqb j k then 1 else 0) Hk).
      + intros l _. rewrite (Nat.eqb_sym l k). destruct (Nat.eqb i k), (Nat.eqb k l), (Nat.eqb j k); cbn; ring.
    - unfold mtrace. rewrite (ftrace_ext n _ _ E). unfold ftrace.
      rewrite (csum_ext n _ (fun i => (if Nat.eqb k i then 1 else 0) * 1)).
      + apply (csum_delta_l n k (fun _ => 1) Hk).
      + intros i _. rewrite (Nat.eqb_sym i k). destruct (Nat.eqb k i); cbn; ring.
    - intros i j Hi Hj. unfold zero_mat. apply (mget_mmk n n _ i j Hi Hj).
  Qed.
End A.
