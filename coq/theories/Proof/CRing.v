(* Proof/CRing.v — the complex numbers of Base/Cplx.v on the real instance form a ring;
   `ring` is made available on them (operators registered in their model form). *)
From Coq Require Import Reals Ring Lra.
From MV Require Import Ops RInst Cplx.
Open Scope R_scope.

Notation RC := (C (T:=R)).

Lemma C_eq (x y : RC) : fst x = fst y -> snd x = snd y -> x = y.
Proof. destruct x, y; cbn; intros; subst; reflexivity. Qed.

Ltac csolve := intros; apply C_eq; unfold c0, c1, cadd, cmul, csub, copp, cconj, cofr, ci; cbn; ring.

Lemma C_ring_theory : ring_theory (c0 ROps) (c1 ROps) (cadd ROps) (cmul ROps) (csub ROps) (copp ROps) eq.
Proof. constructor; csolve. Qed.
Add Ring CRing : C_ring_theory.

Declare Scope C_scope.
Delimit Scope C_scope with C.
Notation "x + y" := (cadd ROps x y) : C_scope.
Notation "x * y" := (cmul ROps x y) : C_scope.
Notation "x - y" := (csub ROps x y) : C_scope.
Notation "- x" := (copp ROps x) : C_scope.
Notation "x ^*" := (cconj ROps x) (at level 5, format "x ^*") : C_scope.
Notation "0" := (c0 ROps) : C_scope.
Notation "1" := (c1 ROps) : C_scope.

Lemma cconj_add (x y : RC) : cconj ROps (cadd ROps x y) = cadd ROps (cconj ROps x) (cconj ROps y). Proof. csolve. Qed.
Lemma cconj_mul (x y : RC) : cconj ROps (cmul ROps x y) = cmul ROps (cconj ROps x) (cconj ROps y). Proof. csolve. Qed.
Lemma cconj_sub (x y : RC) : cconj ROps (csub ROps x y) = csub ROps (cconj ROps x) (cconj ROps y). Proof. csolve. Qed.
Lemma cconj_opp (x : RC) : cconj ROps (copp ROps x) = copp ROps (cconj ROps x). Proof. csolve. Qed.
Lemma cconj_invol (x : RC) : cconj ROps (cconj ROps x) = x. Proof. csolve. Qed.
Lemma cconj_0 : cconj ROps (c0 ROps) = c0 ROps. Proof. csolve. Qed.
Lemma cconj_1 : cconj ROps (c1 ROps) = c1 ROps. Proof. csolve. Qed.
Lemma cconj_ofr (x : R) : cconj ROps (cofr ROps x) = cofr ROps x. Proof. csolve. Qed.

Lemma cmul_conj_self (x : RC) : cmul ROps (cconj ROps x) x = (fst x * fst x + snd x * snd x, 0).
Proof. csolve. Qed.

Lemma ccis_unit t : cmul ROps (cconj ROps (ccis ROps t)) (ccis ROps t) = c1 ROps.
Proof.
  unfold ccis, cmul, cconj, c1. apply C_eq; cbn.
  - pose proof (sin2_cos2 t) as H. unfold Rsqr in H. lra.
  - ring.
Qed.
