(* Proof/ClenshawP.v — Clenshaw-Curtis as the code builds it (Waldvogel's vectors v, g, the inverse DFT written out,
   the assembly of Model/Quadrature.cc_wts): the weights sum to b - a for every n >= 3. *)
From Coq Require Import Reals Lra Lia List Arith ZArith Bool.
From MV Require Import Ops RInst Vec Quadrature SumR.
Import ListNotations.
Open Scope R_scope.

(* ---- roots of unity: sum_j cos(2 pi j k / n) = 0 ---- *)

Fixpoint rsum (n : nat) (f : nat -> R) : R := match n with O => 0 | S k => rsum k f + f k end.

Lemma cos_telescope th n :
  2 * sin (th / 2) * rsum n (fun j => cos (INR j * th)) = sin ((INR n - 1/2) * th) + sin (th / 2).
Proof.
  induction n as [|n IH].
  - cbn [rsum INR]. rewrite Rmult_0_r. replace ((0 - 1 / 2) * th) with (- (th / 2)) by lra. rewrite sin_neg. lra.
  - cbn [rsum]. rewrite Rmult_plus_distr_l, IH. rewrite S_INR.
    assert (2 * sin (th / 2) * cos (INR n * th) = sin ((INR n + 1 - 1/2) * th) - sin ((INR n - 1/2) * th)) as E.
    { rewrite (form4 ((INR n + 1 - 1/2) * th) ((INR n - 1/2) * th)).
      replace (((INR n + 1 - 1 / 2) * th - (INR n - 1 / 2) * th) / 2) with (th / 2) by lra.
      replace (((INR n + 1 - 1 / 2) * th + (INR n - 1 / 2) * th) / 2) with (INR n * th) by lra. ring. }
    rewrite E. lra.
Qed.

Lemma sum_cos_roots n k : (0 < k < n)%nat -> rsum n (fun j => cos (INR j * (2 * PI * INR k / INR n))) = 0.
Proof.
  intros [Hk Hn]. set (th := 2 * PI * INR k / INR n).
  assert (0 < INR n) as Hn0 by (apply lt_0_INR; lia).
  assert (0 < INR k) as Hk0 by (apply lt_0_INR; lia).
  assert (INR k < INR n) as Hkn by (apply lt_INR; exact Hn).
  pose proof (cos_telescope th n) as T.
  assert ((INR n - 1 / 2) * th = - (th / 2) + 2 * INR k * PI) as E by (unfold th; field; lra).
  rewrite E, sin_period, sin_neg in T.
  assert (0 < sin (th / 2)) as Hs.
  { apply sin_gt_0.
    - unfold th. apply Rdiv_lt_0_compat; [|lra]. apply Rdiv_lt_0_compat; [|exact Hn0]. pose proof PI_RGT_0. nra.
    - unfold th. pose proof PI_RGT_0 as HP. replace (2 * PI * INR k / INR n / 2) with (PI * (INR k / INR n)) by (field; lra).
      assert (INR k / INR n < 1) by (apply (Rmult_lt_reg_r (INR n)); [exact Hn0 | unfold Rdiv; rewrite Rmult_assoc, Rinv_l; lra]).
      nra. }
  assert (2 * sin (th / 2) * rsum n (fun j => cos (INR j * th)) = 0) as Z by lra.
  apply Rmult_integral in Z. destruct Z as [Z|Z]; [lra | exact Z].
Qed.

(* ---- the model's inverse DFT: entries sum to h_0, first entry is the mean ---- *)

Lemma rsum_vsum n f : vsum ROps (tabulate n f) = rsum n f.
Proof. induction n as [|n IH]; [apply vsum_tab_0 | rewrite vsum_tab_S, IH; reflexivity]. Qed.

Lemma rsum_ext n f g : (forall i, (i < n)%nat -> f i = g i) -> rsum n f = rsum n g.
Proof. induction n as [|n IH]; intros H; cbn [rsum]; [reflexivity|]. rewrite IH, H; [reflexivity | lia | intros; apply H; lia]. Qed.
Lemma rsum_plus n f g : rsum n (fun i => f i + g i) = rsum n f + rsum n g.
Proof. induction n as [|n IH]; cbn [rsum]; [lra | rewrite IH; lra]. Qed.
Lemma rsum_scal n c f : rsum n (fun i => c * f i) = c * rsum n f.
Proof. induction n as [|n IH]; cbn [rsum]; [lra | rewrite IH; lra]. Qed.
Lemma rsum_zero n : rsum n (fun _ => 0) = 0.
Proof. induction n as [|n IH]; cbn [rsum]; lra. Qed.
Lemma rsum_exchange n m (f : nat -> nat -> R) : rsum n (fun j => rsum m (fun k => f j k)) = rsum m (fun k => rsum n (fun j => f j k)).
Proof.
  induction n as [|n IH]; cbn [rsum].
  - symmetry. apply rsum_zero.
  - rewrite IH, <- rsum_plus. reflexivity.
Qed.
(* sum with a single non-zero term at index 0 *)
Lemma rsum_only0 n f : (0 < n)%nat -> (forall k, (0 < k < n)%nat -> f k = 0) -> rsum n f = f 0%nat.
Proof.
  induction n as [|n IH]; intros Hn H; [lia|]. cbn [rsum]. destruct n as [|n].
  - cbn. lra.
  - rewrite IH; [|lia|intros; apply H; lia]. rewrite (H (S n)); [lra | lia].
Qed.

(* cos of 2 pi (j k mod n)/n = cos of 2 pi j k / n *)
Lemma cos_mod n j k : (0 < n)%nat ->
  cos (2 * PI * INR (Nat.modulo (j * k) n) / INR n) = cos (INR j * (2 * PI * INR k / INR n)).
Proof.
  intros Hn. assert (0 < INR n) as Hn0 by (apply lt_0_INR; exact Hn).
  pose proof (Nat.div_mod (j * k) n ltac:(lia)) as E.
  assert (INR j * INR k = INR n * INR (j * k / n) + INR (Nat.modulo (j * k) n)) as ER.
  { rewrite <- mult_INR, <- mult_INR, <- plus_INR. f_equal. exact E. }
  replace (INR j * (2 * PI * INR k / INR n)) with (2 * PI * INR ((j * k) mod n) / INR n + 2 * INR (j * k / n) * PI).
  - rewrite cos_period. reflexivity.
  - replace (INR j * (2 * PI * INR k / INR n)) with (2 * PI * (INR j * INR k) / INR n) by (field; lra). rewrite ER. field. lra.
Qed.

Lemma tab_nth (h : list R) : tabulate (length h) (fun k => nth k h 0) = h.
Proof.
  unfold tabulate. induction h as [|a h IH]; [reflexivity|]. cbn [length seq map nth]. f_equal.
  rewrite <- seq_shift, map_map. exact IH.
Qed.
Lemma vsum_as_rsum (h : list R) : vsum ROps h = rsum (length h) (fun k => vget ROps h k).
Proof. rewrite <- rsum_vsum. unfold vget. cbn [o0 ROps]. rewrite tab_nth. reflexivity. Qed.

(* the inverse DFT of the model: its entries sum to h_0 and its first entry is the mean of h *)
Lemma idft_sum (h : list R) : (0 < length h)%nat ->
  vsum ROps (idft_re ROps PI h) = vget ROps h 0 /\ vget ROps (idft_re ROps PI h) 0 = vsum ROps h / INR (length h).
Proof.
  intros Hn. set (ns := length h) in *. assert (0 < INR ns) as Hn0 by (apply lt_0_INR; exact Hn).
  unfold idft_re. fold ns. split.
  - rewrite rsum_vsum.
    rewrite (rsum_ext ns _ (fun j => / INR ns * rsum ns (fun k => vget ROps h k * cos (INR j * (2 * PI * INR k / INR ns))))).
    2:{ intros j Hj. rewrite rsum_vsum. cbn [odiv omul o2 ROps]. rewrite !ofnat_R. unfold Rdiv. rewrite Rmult_comm. f_equal.
        apply rsum_ext. intros k Hk. rewrite !ofnat_R. f_equal.
        replace ((1 + 1) * PI * INR ((j * k) mod ns) * / INR ns) with (2 * PI * INR ((j * k) mod ns) / INR ns) by (unfold Rdiv; ring).
        apply cos_mod. exact Hn. }
    rewrite rsum_scal, rsum_exchange.
    rewrite (rsum_ext ns _ (fun k => vget ROps h k * rsum ns (fun j => cos (INR j * (2 * PI * INR k / INR ns))))) by (intros k Hk; apply rsum_scal).
    rewrite rsum_only0; [|exact Hn|].
    + rewrite (rsum_ext ns _ (fun _ => 1)) by (intros j Hj; cbn [INR]; replace (INR j * (2 * PI * 0 / INR ns)) with 0 by (unfold Rdiv; ring); apply cos_0).
      assert (rsum ns (fun _ => 1) = INR ns) as Eone by (clear; induction ns as [|n IH]; [reflexivity | cbn [rsum]; rewrite IH, S_INR; lra]).
      rewrite Eone. field. lra.
    + intros k Hk. rewrite sum_cos_roots by exact Hk. lra.
  - unfold vget. rewrite nth_tabulate by exact Hn. rewrite rsum_vsum.
    cbn [odiv ROps]. rewrite ofnat_R. f_equal.
    rewrite (vsum_as_rsum h). fold ns.
    apply rsum_ext. intros k Hk. cbn [omul odiv o2 ROps]. rewrite Nat.mul_0_l, Nat.mod_0_l by lia. rewrite !ofnat_R. cbn [INR].
    unfold vget. assert (o2 ROps * PI * 0 / INR ns = 0) as Ez by (unfold Rdiv; ring). rewrite Ez. cbn [ocos ROps]. rewrite cos_0. lra.
Qed.

(* ---- folded sums and the telescoping series ---- *)

Lemma rsum_split n p f : (p <= n)%nat -> rsum n f = rsum p f + rsum (n - p) (fun i => f (p + i)%nat).
Proof.
  intros Hp. replace n with (p + (n - p))%nat at 1 by lia. generalize (n - p)%nat as q. intros q.
  induction q as [|q IH]; [rewrite Nat.add_0_r; cbn [rsum]; lra|].
  rewrite Nat.add_succ_r. cbn [rsum]. rewrite IH. lra.
Qed.
Lemma rsum_rev n f : rsum n f = rsum n (fun i => f (n - 1 - i)%nat).
Proof.
  revert f. induction n as [|n IH]; intros f; [reflexivity|].
  rewrite (rsum_split (S n) 1 (fun i => f (S n - 1 - i)%nat)) by lia.
  replace (S n - 1)%nat with n by lia. cbn [rsum]. rewrite Nat.sub_0_r.
  rewrite (IH f). rewrite (rsum_ext n (fun i => f (n - (1 + i))%nat) (fun i => f (n - 1 - i)%nat)) by (intros i Hi; f_equal; lia). lra.
Qed.
Lemma rsum_const n c : rsum n (fun _ => c) = INR n * c.
Proof. induction n as [|n IH]; [cbn; lra | cbn [rsum]; rewrite IH, S_INR; lra]. Qed.

(* telescoping: sum_{k<m} 2/(1-4k^2) = 1 + 1/(2m-1)  (m >= 1) *)
Definition bv (k : nat) : R := 2 / (1 - 4 * (INR k * INR k)).
Lemma bv_tel m : (1 <= m)%nat -> rsum m bv = 1 + 1 / (2 * INR m - 1).
Proof.
  induction m as [|m IH]; intros Hm; [lia|]. cbn [rsum]. destruct m as [|m].
  - cbn [rsum INR]. unfold bv. cbn [INR]. field.
  - rewrite IH by lia. unfold bv. rewrite !S_INR.
    assert (0 <= INR m) by apply pos_INR. field. split; nra.
Qed.

Lemma folded_sum ns m (base : nat -> R) : (m + 1 <= ns)%nat ->
  rsum ns (fun k => if (k <=? m)%nat then base k else base (ns - k)%nat) = rsum (m + 1) base + rsum (ns - (m + 1)) (fun i => base (i + 1)%nat).
Proof.
  intros H. rewrite (rsum_split ns (m + 1)) by exact H. f_equal.
  - apply rsum_ext. intros k Hk. destruct (Nat.leb_spec k m); [reflexivity | lia].
  - set (q := (ns - (m + 1))%nat). rewrite (rsum_rev q (fun i => base (i + 1)%nat)).
    apply rsum_ext. intros i Hi. destruct (Nat.leb_spec (m + 1 + i) m); [lia|]. f_equal. unfold q. lia.
Qed.

(* threshold shape: b below m, the constant B from m on *)
Lemma thr_first m (b : nat -> R) B : rsum (m + 1) (fun k => if (k <? m)%nat then b k else B) = rsum m b + B.
Proof.
  rewrite Nat.add_1_r. cbn [rsum]. rewrite Nat.ltb_irrefl. f_equal.
  apply rsum_ext. intros k Hk. destruct (Nat.ltb_spec k m); [reflexivity | lia].
Qed.
Lemma thr_shift_all q m (b : nat -> R) B : (q + 1 <= m)%nat -> (1 <= m)%nat ->
  rsum q (fun i => if (i + 1 <? m)%nat then b (i + 1)%nat else B) = rsum (q + 1) b - b 0%nat.
Proof.
  intros Hq Hm. rewrite (rsum_split (q + 1) 1 b) by lia. cbn [rsum]. replace (q + 1 - 1)%nat with q by lia.
  rewrite (rsum_ext q _ (fun i => b (1 + i)%nat)); [lra|]. intros i Hi. destruct (Nat.ltb_spec (i + 1) m); [f_equal; lia | lia].
Qed.

Section CC.
  Variable ns m : nat.
  Hypothesis Hm1 : (1 <= m)%nat.
  Variables (b : nat -> R) (B : R).
  Let base k := if (k <? m)%nat then b k else B.
  Let total := rsum ns (fun k => if (k <=? m)%nat then base k else base (ns - k)%nat).

  Lemma total_even : ns = (2 * m)%nat -> total = 2 * rsum m b - b 0%nat + B.
  Proof.
    intros E. unfold total. rewrite folded_sum by lia. unfold base. rewrite thr_first.
    replace (ns - (m + 1))%nat with (m - 1)%nat by lia.
    rewrite (thr_shift_all (m - 1) m b B) by lia. replace (m - 1 + 1)%nat with m by lia. lra.
  Qed.
  Lemma total_odd : ns = (2 * m + 1)%nat -> total = 2 * rsum m b - b 0%nat + 2 * B.
  Proof.
    intros E. unfold total. rewrite folded_sum by lia. unfold base. rewrite thr_first.
    replace (ns - (m + 1))%nat with (S (m - 1)) by lia. cbn [rsum].
    rewrite (thr_shift_all (m - 1) m b B) by lia. replace (m - 1 + 1)%nat with m by lia.
    rewrite Nat.ltb_irrefl. lra.
  Qed.
End CC.

(* ---- the weights sum to b - a ---- *)

Lemma vsum_rev (l : list R) : vsum ROps (rev l) = vsum ROps l.
Proof. induction l as [|a l IH]; [reflexivity|]. cbn [rev]. rewrite vsum_app, IH. unfold vsum. cbn. lra. Qed.
Lemma vsum_map_scal c (l : list R) : vsum ROps (map (fun w => w * c) l) = vsum ROps l * c.
Proof. induction l as [|a l IH]; [unfold vsum; cbn; lra|]. cbn [map]. unfold vsum in *. cbn [fold_right oadd ROps] in *. rewrite IH. lra. Qed.

Lemma cc_wts_sum (wcc : list R) a b : vsum ROps (cc_wts ROps wcc a b) = (b - a) / 2 * (vsum ROps wcc + vget ROps wcc 0).
Proof.
  unfold cc_wts. cbn [omul osub ROps]. rewrite (vsum_map_scal (ohalf ROps * (b - a))), vsum_rev, vsum_app.
  assert (vsum ROps [vget ROps wcc 0] = vget ROps wcc 0) as E by (unfold vsum; cbn; lra). rewrite E.
  unfold ohalf. cbn. lra.
Qed.

(* the v and g vectors of the code in real form *)
Lemma cc_v_R ns k : cc_v ROps ns k =
  let m := Nat.div ns 2 in
  let base j := if (j <? m)%nat then bv j else IZR (Z.of_nat ns - 3) / IZR (2 * Z.of_nat m - 1) - 1 in
  if (k <=? m)%nat then base k else base (ns - k)%nat.
Proof.
  unfold cc_v. cbn zeta. cbn [oofZ odiv osub omul o1 ROps]. unfold bv.
  assert (forall j, IZR 2 / (1 - IZR 4 * (ofnat ROps j * ofnat ROps j)) = 2 / (1 - 4 * (INR j * INR j))) as E by (intros j; rewrite ofnat_R; reflexivity).
  destruct (k <=? ns / 2)%nat; destruct (_ <? ns / 2)%nat; try rewrite E; reflexivity.
Qed.

Lemma cc_g_R ns k : cc_g ROps ns k =
  let m := Nat.div ns 2 in
  let w := 1 / IZR (Z.of_nat ns * Z.of_nat ns - 1 + Z.of_nat (Nat.modulo ns 2)) in
  let base j := if (j <? m)%nat then - w else w * IZR ((2 - Z.of_nat (Nat.modulo ns 2)) * Z.of_nat ns - 1) in
  if (k <=? m)%nat then base k else base (ns - k)%nat.
Proof. unfold cc_g. cbn zeta. cbn [oofZ odiv oopp omul o1 ROps]. reflexivity. Qed.

Lemma sum_v ns : (2 <= ns)%nat -> rsum ns (fun k => cc_v ROps ns k) = 0.
Proof.
  intros Hns. rewrite (rsum_ext ns _ (fun k => let m := Nat.div ns 2 in
     let base j := if (j <? m)%nat then bv j else IZR (Z.of_nat ns - 3) / IZR (2 * Z.of_nat m - 1) - 1 in
     if (k <=? m)%nat then base k else base (ns - k)%nat)) by (intros; apply cc_v_R).
  cbv zeta. set (m := Nat.div ns 2). assert (1 <= m)%nat as Hm by (unfold m; apply Nat.div_le_lower_bound; lia).
  assert (0 < 2 * INR m - 1) as Hpos by (assert (1 <= INR m) by (change 1 with (INR 1); apply le_INR; exact Hm); lra).
  destruct (Nat.Even_or_Odd ns) as [[q Hq]|[q Hq]].
  - assert (m = q) as -> by (unfold m; subst ns; rewrite Nat.mul_comm, Nat.div_mul; lia).
    rewrite (total_even ns q Hm bv _ Hq), (bv_tel q Hm). unfold bv. cbn [INR].
    rewrite Hq. rewrite Nat2Z.inj_mul. rewrite minus_IZR, minus_IZR, !mult_IZR, <- !INR_IZR_INZ. cbn [INR]. field. lra.
  - assert (m = q) as -> by (unfold m; subst ns; rewrite Nat.add_comm, Nat.mul_comm, Nat.div_add; cbn; lia).
    rewrite (total_odd ns q Hm bv _ Hq), (bv_tel q Hm). unfold bv. cbn [INR].
    rewrite Hq. rewrite Nat2Z.inj_add, Nat2Z.inj_mul. rewrite minus_IZR, minus_IZR, plus_IZR, !mult_IZR, <- !INR_IZR_INZ. cbn [INR]. field. lra.
Qed.

Definition wcc0 (ns : nat) : R := 1 / IZR (Z.of_nat ns * Z.of_nat ns - 1 + Z.of_nat (Nat.modulo ns 2)).

Lemma sum_g ns : (2 <= ns)%nat -> rsum ns (fun k => cc_g ROps ns k) = wcc0 ns * INR ns.
Proof.
  intros Hns. rewrite (rsum_ext ns _ (fun k => let m := Nat.div ns 2 in
     let base j := if (j <? m)%nat then - wcc0 ns else wcc0 ns * IZR ((2 - Z.of_nat (Nat.modulo ns 2)) * Z.of_nat ns - 1) in
     if (k <=? m)%nat then base k else base (ns - k)%nat)) by (intros; apply cc_g_R).
  cbv zeta. set (m := Nat.div ns 2). assert (1 <= m)%nat as Hm by (unfold m; apply Nat.div_le_lower_bound; lia).
  set (w := wcc0 ns).
  destruct (Nat.Even_or_Odd ns) as [[q Hq]|[q Hq]].
  - assert (m = q) as -> by (unfold m; subst ns; rewrite Nat.mul_comm, Nat.div_mul; lia).
    rewrite (total_even ns q Hm (fun _ => - w) _ Hq), rsum_const.
    assert (Nat.modulo ns 2 = 0%nat) as E0 by (subst ns; rewrite Nat.mul_comm; apply Nat.mod_mul; lia). rewrite E0.
    replace (Z.of_nat ns) with (2 * Z.of_nat q)%Z by lia. replace (INR ns) with (2 * INR q) by (rewrite Hq, mult_INR; cbn [INR]; lra).
    rewrite minus_IZR, !mult_IZR, minus_IZR, <- !INR_IZR_INZ. cbn [INR]. ring.
  - assert (m = q) as -> by (unfold m; subst ns; rewrite Nat.add_comm, Nat.mul_comm, Nat.div_add; cbn; lia).
    rewrite (total_odd ns q Hm (fun _ => - w) _ Hq), rsum_const.
    assert (Nat.modulo ns 2 = 1%nat) as E1 by (subst ns; rewrite Nat.add_comm, Nat.mul_comm, Nat.mod_add; cbn; lia). rewrite E1.
    replace (Z.of_nat ns) with (2 * Z.of_nat q + 1)%Z by lia. replace (INR ns) with (2 * INR q + 1) by (rewrite Hq, plus_INR, mult_INR; cbn [INR]; lra).
    rewrite minus_IZR, mult_IZR, minus_IZR, plus_IZR, mult_IZR, <- !INR_IZR_INZ. cbn [INR]. ring.
Qed.

Lemma h0_val ns : (2 <= ns)%nat -> cc_v ROps ns 0 + cc_g ROps ns 0 = 2 - wcc0 ns.
Proof.
  intros Hns. rewrite cc_v_R, cc_g_R. cbv zeta.
  assert (1 <= Nat.div ns 2)%nat as Hm by (apply Nat.div_le_lower_bound; lia).
  destruct (Nat.leb_spec 0 (ns / 2)); [|lia]. destruct (Nat.ltb_spec 0 (ns / 2)); [|lia].
  unfold bv, wcc0. cbn [INR]. field.
  (* the denominator ns^2 - 1 + ns mod 2 is positive *)
  apply not_0_IZR. assert (Nat.modulo ns 2 < 2)%nat by (apply Nat.mod_upper_bound; lia). nia.
Qed.

Lemma wcc0_ne ns : (2 <= ns)%nat -> IZR (Z.of_nat ns * Z.of_nat ns - 1 + Z.of_nat (Nat.modulo ns 2)) <> 0.
Proof. intros Hns. apply not_0_IZR. assert (Nat.modulo ns 2 < 2)%nat by (apply Nat.mod_upper_bound; lia). nia. Qed.

(* Clenshaw-Curtis (Waldvogel's construction as the code performs it, with the inverse DFT written out):
   the weights on [a,b] sum to b - a, for every n >= 3 *)
Theorem cc_weights_sum n a b : (3 <= n)%nat ->
  vsum ROps (cc_wts ROps (idft_re ROps PI (cc_h ROps n)) a b) = b - a.
Proof.
  intros Hn. set (ns := (n - 1)%nat). assert (2 <= ns)%nat as Hns by (unfold ns; lia).
  set (h := cc_h ROps n). assert (length h = ns) as Hl by (unfold h, cc_h; apply tabulate_length).
  rewrite cc_wts_sum. destruct (idft_sum h ltac:(lia)) as [E1 E2]. rewrite E1, E2, Hl.
  assert (vget ROps h 0 = 2 - wcc0 ns) as Eh0.
  { unfold vget, h, cc_h. fold ns. rewrite nth_tabulate by lia. cbn [oadd ROps]. apply h0_val. exact Hns. }
  assert (vsum ROps h = wcc0 ns * INR ns) as Esum.
  { unfold h, cc_h. fold ns. rewrite rsum_vsum. cbn [oadd ROps]. rewrite (rsum_plus ns (fun k => cc_v ROps ns k) (fun k => cc_g ROps ns k)), sum_v, sum_g by exact Hns. lra. }
  rewrite Eh0, Esum. assert (0 < INR ns) by (apply lt_0_INR; lia). field. lra.
Qed.
