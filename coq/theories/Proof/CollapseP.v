(* Proof/CollapseP.v — the A-FSSH collapse: gamma_collapse and the collapse loop (Model/Afssh.v). *)
From Coq Require Import Reals ZArith List Lra Lia Bool.
From MV Require Import Ops RInst Vec Cplx Mat Afssh.
Import ListNotations.
Open Scope R_scope.

Lemma nth_tabulate {A} n (f : nat -> A) i d : (i < n)%nat -> nth i (tabulate n f) d = f i.
Proof.
  intros Hi. unfold tabulate. rewrite (nth_indep _ d (f 0%nat)) by (rewrite map_length, seq_length; exact Hi).
  rewrite (map_nth f (seq 0 n) 0%nat i). rewrite seq_nth by exact Hi. reflexivity.
Qed.

(* the active state never collapses onto itself: its entry of gamma is exactly zero *)
Lemma gamma_self_zero n dR dP F k dt : (k < n)%nat -> nth k (gamma_collapse ROps n dR dP F k dt) 0 = 0.
Proof.
  intros Hk. unfold gamma_collapse. rewrite nth_tabulate by exact Hk. rewrite Nat.eqb_refl. cbn [omul o0 ROps]. unfold ohalf. cbn. lra.
Qed.

(* the scan draws exactly one uniform per non-active state, whatever it decides *)
Lemma collapse_scan_consumes (gam : list R) k : forall i us,
  (i <= k < i + length gam)%nat -> (length gam - 1 <= length us)%nat ->
  length (snd (collapse_scan ROps gam k i us)) = (length us - (length gam - 1))%nat.
Proof.
  induction gam as [|g rest IH]; intros i us Hk Hu; [cbn in Hk; lia|]. cbn [length] in Hk, Hu |- *.
  cbn [collapse_scan]. destruct (Nat.eqb i k) eqn:E.
  - apply Nat.eqb_eq in E. subst i. clear IH.
    (* after the active state the index never equals k again *)
    assert (forall (r : list R) j u, (k < j)%nat -> (length r <= length u)%nat ->
              length (snd (collapse_scan ROps r k j u)) = (length u - length r)%nat) as Hafter.
    { induction r as [|g' r IHr]; intros j u Hj Hl; cbn [collapse_scan length snd] in *; [lia|].
      destruct (Nat.eqb j k) eqn:E2; [apply Nat.eqb_eq in E2; lia|].
      destruct u as [|e u']; cbn [length] in *; [lia|].
      specialize (IHr (S j) u' ltac:(lia) ltac:(lia)).
      destruct (collapse_scan ROps r k (S j) u') as [c r0]. cbn [snd] in *. lia. }
    rewrite Hafter by lia. lia.
  - apply Nat.eqb_neq in E. destruct us as [|e us']; cbn [length] in *.
    + destruct rest; cbn [length] in *; lia.
    + specialize (IH (S i) us' ltac:(lia) ltac:(lia)).
      destruct (collapse_scan ROps rest k (S i) us') as [c r0]. cbn [snd] in *. lia.
Qed.

(* no collapse when no other state has a positive rate (uniform numbers are non-negative) *)
Lemma collapse_scan_none (gam : list R) k : forall i us,
  (forall j g, nth_error gam j = Some g -> (i + j)%nat <> k -> g <= 0) -> Forall (fun e => 0 <= e) us ->
  fst (collapse_scan ROps gam k i us) = false.
Proof.
  induction gam as [|g rest IH]; intros i us Hg Hu; cbn [collapse_scan]; [reflexivity|].
  destruct (Nat.eqb i k) eqn:E.
  - apply IH; [|exact Hu]. intros j g' Hj Hne. apply (Hg (S j) g'); [exact Hj | lia].
  - apply Nat.eqb_neq in E. destruct us as [|e us']; [reflexivity|].
    inversion Hu as [|? ? He Hu']; subst.
    specialize (IH (S i) us' (fun j g' Hj Hne => Hg (S j) g' Hj ltac:(lia)) Hu').
    destruct (collapse_scan ROps rest k (S i) us') as [c r0]. cbn [fst] in *. subst c.
    assert (g <= 0) as Hg0 by (apply (Hg 0%nat g); [reflexivity | lia]).
    cbn [oltb ROps]. rewrite orb_false_r. destruct (Rltb_spec e g); [lra | reflexivity].
Qed.

(* a collapse leaves the pure active state and zero moments *)
Lemma collapse_apply_true n k rho (dRs dPs : list (mat (T:=R))) :
  collapse_apply ROps n k true rho dRs dPs = (collapse_rho ROps n k, map (fun _ => zero_mat ROps n) dRs, map (fun _ => zero_mat ROps n) dPs).
Proof. reflexivity. Qed.
