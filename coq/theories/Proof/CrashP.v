From Coq Require Import List Arith Lia.
From MV Require Import TraceStore TraceStoreP Crash.
Import ListNotations.

Section P.
  Context {A : Type}.

  Lemma load_disk_of (s : store (A:=A)) data : Inv s data -> load (disk_of s) = data.
  Proof.
    intros H. unfold load, disk_of; cbn. rewrite firstn_all. exact (inv_iter s data H).
  Qed.

  Lemma load_orphan (s : store (A:=A)) data x : Inv s data ->
    load (mkDisk (length (pages s)) (pages s ++ [[x]])) = data.
  Proof.
    intros H. unfold load; cbn. rewrite firstn_app, Nat.sub_diag, firstn_all. cbn. rewrite app_nil_r.
    exact (inv_iter s data H).
  Qed.

  (* every state visited during the (m+1)-th collect loads either the m snapshots completed
     before it or those plus the one being written *)
  Lemma collect_states_prefix (s : store (A:=A)) data x d : Inv s data -> In d (collect_states s x) ->
    load d = data \/ load d = data ++ [x].
  Proof.
    intros H Hin. unfold collect_states in Hin.
    pose proof (inv_collect s data x H) as H'.
    destruct (Nat.eqb _ _).
    - destruct Hin as [<-|[]]. right. apply load_disk_of. exact H'.
    - destruct Hin as [<-|[<-|[<-|[]]]].
      + left. apply load_orphan. exact H.
      + left. apply load_orphan. exact H.
      + right. apply load_disk_of. exact H'.
  Qed.

  Lemma visited_prefix : forall (xs : list A) (s : store (A:=A)) data m k d,
    Inv s data -> length data = m -> In (k, d) (visited s m xs) ->
    exists n, (n = k \/ n = S k) /\ load d = firstn n (data ++ xs) /\ m <= k < m + length xs.
  Proof.
    induction xs as [|x rest IH]; intros s data m k d H Hm Hin; cbn in Hin; [contradiction|].
    apply in_app_or in Hin. destruct Hin as [Hin|Hin].
    - apply in_map_iff in Hin. destruct Hin as [d' [E Hd]]. injection E as <- <-.
      destruct (collect_states_prefix s data x d' H Hd) as [L|L].
      + exists m. split; [left; reflexivity|]. split; [|cbn; lia].
        rewrite L, firstn_app, <- Hm, firstn_all, Nat.sub_diag. cbn. rewrite app_nil_r. reflexivity.
      + exists (S m). split; [right; reflexivity|]. split; [|cbn; lia].
        rewrite L. replace (data ++ x :: rest) with ((data ++ [x]) ++ rest) by (rewrite <- app_assoc; reflexivity).
        rewrite firstn_app. replace (S m) with (length (data ++ [x])) by (rewrite app_length; cbn; lia).
        rewrite firstn_all, Nat.sub_diag. cbn. rewrite app_nil_r. reflexivity.
    - specialize (IH (collect s x) (data ++ [x]) (S m) k d (inv_collect s data x H)
                     ltac:(rewrite app_length; cbn; lia) Hin).
      destruct IH as [n [Hn [L Hk]]]. exists n. split; [exact Hn|]. split.
      + rewrite L, <- app_assoc. reflexivity.
      + cbn [length]. lia.
  Qed.
End P.
