(* Proof/CumulativeP.v — lemmas about Model/Cumulative.v on the real instance. *)
From Coq Require Import Reals ZArith List Lra Lia Bool.
From MV Require Import Ops RInst Vec Hopper Cumulative SumR HopperP.
Import ListNotations.
Open Scope R_scope.

Notation Gof g := (vsum ROps g).

Lemma accumulate_R a G : accumulate ROps a G = 1 - (1 - a) * exp (- G).
Proof. unfold accumulate. cbn. ring. Qed.

Lemma accumulate_es_R a G : accumulate_es ROps a G = accumulate ROps a G.
Proof. rewrite accumulate_R. unfold accumulate_es. cbn. ring. Qed.

(* survival since the last attempt: prod_{i<n} exp(-G_i) *)
Fixpoint surv (gs : list (list R)) (n : nat) : R :=
  match n, gs with
  | S n', g :: rest => exp (- Gof g) * surv rest n'
  | _, _ => 1
  end.
Definition acc_seq (a : R) (gs : list (list R)) (n : nat) : R := 1 - (1 - a) * surv gs n.

Lemma acc_seq_0 a gs : acc_seq a gs 0 = a.
Proof. unfold acc_seq. destruct gs; cbn; lra. Qed.
Lemma acc_seq_S a g rest n : acc_seq a (g :: rest) (S n) = acc_seq (accumulate ROps a (Gof g)) rest n.
Proof. unfold acc_seq. rewrite accumulate_R. cbn [surv]. ring. Qed.

(* one step, the two cases *)
Lemma cum_step_no (s : cstate) g :
  accumulate ROps (acc s) (Gof g) <= zeta s ->
  cum_step ROps s g = (mkC (accumulate ROps (acc s) (Gof g)) (zeta s) (zlist s) (stream s), None).
Proof.
  intros H. unfold cum_step. cbn [oltb ROps].
  destruct (Rltb_spec (zeta s) (accumulate ROps (acc s) (Gof g))); [lra | reflexivity].
Qed.

Lemma cum_step_yes (s : cstate) g u st' :
  zeta s < accumulate ROps (acc s) (Gof g) -> stream s = u :: st' ->
  cum_step ROps s g =
    (let '(z, zl', st'') := draw ROps (zlist s) st' in mkC 0 z zl' st'',
     Some (choice ROps g u, zeta s, accumulate ROps (acc s) (Gof g))).
Proof.
  intros H Hs. unfold cum_step. cbn [oltb ROps].
  destruct (Rltb_spec (zeta s) (accumulate ROps (acc s) (Gof g))); [|lra].
  rewrite Hs. destruct (draw ROps (zlist s) st') as [[z zl'] st'']. reflexivity.
Qed.

(* the attempt happens exactly at the first crossing *)
Lemma cum_first_crossing : forall n gs (s : cstate) u st',
  (n < length gs)%nat -> stream s = u :: st' ->
  (forall j, (j < n)%nat -> acc_seq (acc s) gs (S j) <= zeta s) ->
  zeta s < acc_seq (acc s) gs (S n) ->
  let os := fst (cum_run ROps s gs) in
  (forall j, (j < n)%nat -> nth j os None = None)
  /\ nth n os None = Some (choice ROps (nth n gs []) u, zeta s, acc_seq (acc s) gs (S n)).
Proof.
  induction n as [|n IH]; intros gs s u st' Hlen Hst Hbefore Hcross;
    destruct gs as [|g rest]; cbn [length] in Hlen; try lia.
  - cbn [cum_run]. rewrite acc_seq_S, acc_seq_0 in Hcross.
    rewrite (cum_step_yes s g u st' Hcross Hst).
    destruct (draw ROps (zlist s) st') as [[z zl'] st''].
    destruct (cum_run ROps _ rest) as [os sf]. cbn. split; [intros; lia|].
    rewrite acc_seq_S, acc_seq_0. reflexivity.
  - cbn [cum_run].
    assert (accumulate ROps (acc s) (Gof g) <= zeta s) as Hno.
    { specialize (Hbefore 0%nat ltac:(lia)). rewrite acc_seq_S, acc_seq_0 in Hbefore. exact Hbefore. }
    rewrite (cum_step_no s g Hno).
    set (s' := mkC (accumulate ROps (acc s) (Gof g)) (zeta s) (zlist s) (stream s)).
    specialize (IH rest s' u st' ltac:(lia) Hst).
    assert (forall j, (j < n)%nat -> acc_seq (acc s') rest (S j) <= zeta s') as Hb'.
    { intros j Hj. specialize (Hbefore (S j) ltac:(lia)). rewrite acc_seq_S in Hbefore. exact Hbefore. }
    assert (zeta s' < acc_seq (acc s') rest (S n)) as Hc'.
    { rewrite acc_seq_S in Hcross. exact Hcross. }
    specialize (IH Hb' Hc'). cbv zeta in IH. destruct IH as [IH1 IH2].
    destruct (cum_run ROps s' rest) as [os sf]. cbn [fst] in *. split.
    + intros [|j] Hj; [reflexivity|]. cbn [nth]. apply IH1. lia.
    + cbn [nth]. rewrite IH2. rewrite acc_seq_S. reflexivity.
Qed.

(* no attempt while the accumulated value stays at or below the threshold *)
Lemma cum_no_crossing : forall gs (s : cstate),
  (forall j, (j < length gs)%nat -> acc_seq (acc s) gs (S j) <= zeta s) ->
  let '(os, sf) := cum_run ROps s gs in
  (forall j, nth j os None = None) /\ acc sf = acc_seq (acc s) gs (length gs) /\ zeta sf = zeta s.
Proof.
  induction gs as [|g rest IH]; intros s H; cbn [cum_run].
  - cbn. split; [intros [|j]; reflexivity|]. rewrite acc_seq_0. split; reflexivity.
  - assert (accumulate ROps (acc s) (Gof g) <= zeta s) as Hno.
    { specialize (H 0%nat ltac:(cbn; lia)). rewrite acc_seq_S, acc_seq_0 in H. exact H. }
    rewrite (cum_step_no s g Hno).
    set (s' := mkC _ _ _ _).
    specialize (IH s').
    assert (forall j, (j < length rest)%nat -> acc_seq (acc s') rest (S j) <= zeta s') as H'.
    { intros j Hj. specialize (H (S j) ltac:(cbn; lia)). rewrite acc_seq_S in H. exact H. }
    specialize (IH H'). destruct (cum_run ROps s' rest) as [os sf]. destruct IH as [I1 [I2 I3]].
    split; [intros [|j]; [reflexivity | apply I1]|]. cbn [length]. rewrite acc_seq_S. split; assumption.
Qed.

(* after the attempt: reset to zero, next threshold = head of the user list, else next generator number *)
Lemma cum_step_reset (s : cstate) g u st' :
  zeta s < accumulate ROps (acc s) (Gof g) -> stream s = u :: st' ->
  let s' := fst (cum_step ROps s g) in
  acc s' = 0 /\
  match zlist s with
  | z :: zl' => zeta s' = z /\ zlist s' = zl' /\ stream s' = st'
  | [] => match st' with
          | u2 :: st'' => zeta s' = u2 /\ zlist s' = [] /\ stream s' = st''
          | [] => True
          end
  end.
Proof.
  intros H Hs. rewrite (cum_step_yes s g u st' H Hs). unfold draw.
  destruct (zlist s) as [|z zl']; [destruct st' as [|u2 st'']|]; cbn; repeat split; reflexivity.
Qed.

(* runs compose: the process restarts after each attempt, so the statement lifts to any
   number of successive hops *)
Lemma cum_run_app : forall gs1 gs2 (s : cstate),
  cum_run ROps s (gs1 ++ gs2) =
  let '(os1, s1) := cum_run ROps s gs1 in
  let '(os2, s2) := cum_run ROps s1 gs2 in (os1 ++ os2, s2).
Proof.
  induction gs1 as [|g rest IH]; intros gs2 s; cbn [app cum_run].
  - destruct (cum_run ROps s gs2); reflexivity.
  - destruct (cum_step ROps s g) as [s' o]. rewrite IH.
    destruct (cum_run ROps s' rest) as [os1 s1]. destruct (cum_run ROps s1 gs2) as [os2 s2]. reflexivity.
Qed.

(* survival function coincides with standard FSSH using Poisson probabilities:
   prod_i (1 - total_i), total_i = 1 - exp(-G_i)  (C03_poisson_total_and_ratios) *)
Fixpoint surv_poisson (gs : list (list R)) (n : nat) : R :=
  match n, gs with
  | S n', g :: rest => (1 - (1 - exp (- Gof g))) * surv_poisson rest n'
  | _, _ => 1
  end.
Lemma survival_equiv gs n : 1 - acc_seq 0 gs n = surv_poisson gs n.
Proof.
  unfold acc_seq. replace (1 - (1 - (1 - 0) * surv gs n)) with (surv gs n) by ring.
  revert gs. induction n as [|n IH]; intros [|g rest]; cbn; try lra. rewrite IH. ring.
Qed.

(* the set of thresholds with no attempt through step n is [acc_n, 1): its length is the survival *)
Lemma surv_pos gs n : 0 < surv gs n.
Proof.
  revert gs. induction n as [|n IH]; intros [|g rest]; cbn; try lra.
  apply Rmult_lt_0_compat; [apply exp_pos | apply IH].
Qed.

(* target choice: slot rule on the normalised rates *)
Lemma choice_slot g u n :
  Forall (fun x => 0 <= x) g -> 0 < Gof g -> 0 <= u ->
  let p := map (fun x => x / Gof g) g in
  let q := map (fun x => x / vsum ROps p) p in
  (choice ROps g u = Some n <-> (n < length g)%nat /\ psum q n <= u < psum q (S n)).
Proof.
  intros Hg HG Hu p q. unfold choice. cbn [odiv o0 ROps]. fold p. fold q.
  assert (Forall (fun x => 0 <= x) p) as Hp.
  { unfold p. apply Forall_forall. intros x Hx. apply in_map_iff in Hx. destruct Hx as [y [<- Hy]].
    rewrite Forall_forall in Hg. specialize (Hg y Hy). apply Rmult_le_pos; [exact Hg|].
    left. apply Rinv_0_lt_compat. exact HG. }
  assert (vsum ROps p = 1) as Hp1.
  { unfold p. clear -HG. set (G := Gof g) in *.
    assert (forall l, vsum ROps (map (fun x => x / G) l) = vsum ROps l / G) as E.
    { induction l as [|x l IH]; cbn in *; [unfold Rdiv; ring | rewrite IH; field; lra]. }
    rewrite E. unfold G in *. field. lra. }
  assert (Forall (fun x => 0 <= x) q) as Hq.
  { unfold q. rewrite Hp1. apply Forall_forall. intros x Hx. apply in_map_iff in Hx.
    destruct Hx as [y [<- Hy]]. rewrite Forall_forall in Hp. specialize (Hp y Hy). lra. }
  pose proof (hop_target_slot q u n Hq Hu) as H. unfold hop_target in H. cbn [o0 ROps] in H.
  rewrite H. unfold q, p. rewrite !map_length. reflexivity.
Qed.
