From Coq Require Import Reals Ring Lra Lia List Arith Bool Setoid Morphisms.
From MV Require Import Ops RInst Vec Cplx Mat CRing SumR MatP Propagate PropagateP Rk4P Ehrenfest.
Import ListNotations.
Open Scope R_scope.
Local Open Scope C_scope.

(* the code's force differs from the mean-field force: 2 states, rho_01 = rho_10 = 1/2,
   rho_00 = rho_11 = 1/2 (a valid pure state), one dimension, F_01 = F_10 = 1, F_00 = F_11 = 0 *)
Definition rho_w : mat (T:=R) := [[(1/2, 0); (1/2, 0)]; [(1/2, 0); (1/2, 0)]]%R.
Definition fmx_w : list (list (list R)) := [[[0]; [1]]; [[1]; [0]]]%R.
Definition force_w : list (list R) := [[0]; [0]]%R.

Lemma ehrenfest_force_differs :
  eh_force_code ROps 2 rho_w force_w = [0%R] /\ eh_force_meanfield ROps 2 1 rho_w fmx_w = [1%R].
Proof.
  split.
  - unfold eh_force_code, rho_w, force_w. cbn. f_equal. lra.
  - unfold eh_force_meanfield, rho_w, fmx_w. cbn. f_equal. lra.
Qed.

(* power balance of the mean-field force: for rho' = -i [W, rho], W = H - iT with H = diag(E)
   and T the velocity-contracted coupling, the electronic part of d/dt tr(rho H) is
   - sum_ij rho_ji (E_i - E_j) T_ij = - v . (off-diagonal part of the mean-field force),
   using F_ij = (E_i - E_j) d_ij (C05).  The diagonal part comes from dH/dt = diag(-v.F_i). *)
Section Power.
  Variable n : nat.
  Variables (E : nat -> R) (Tm rho : FM).
  Let Hd : FM := fdiag ROps (fun i => cofr ROps (E i)).
  Let W : FM := fsub ROps Hd (fscale ROps (o0 ROps, o1 ROps) Tm).

  Lemma diag_mul_l A i j : (i < n)%nat -> fm n Hd A i j = cofr ROps (E i) * A i j.
  Proof.
    intros Hi. unfold fmul, Hd, fdiag.
    rewrite (csum_ext n _ (fun k => (if Nat.eqb i k then 1 else 0) * (cofr ROps (E i) * A k j))).
    - apply (csum_delta_l n i (fun k => cofr ROps (E i) * A k j) Hi).
    - intros k _. destruct (Nat.eqb_spec i k) as [->|_]; ring.
  Qed.
  Lemma diag_mul_r A i j : (j < n)%nat -> fm n A Hd i j = A i j * cofr ROps (E j).
  Proof.
    intros Hj. unfold fmul, Hd, fdiag.
    rewrite (csum_ext n _ (fun k => (A i k * cofr ROps (E j)) * (if Nat.eqb k j then 1 else 0))).
    - apply (csum_delta_r n j (fun k => A i k * cofr ROps (E j)) Hj).
    - intros k _. destruct (Nat.eqb_spec k j) as [->|_]; ring.
  Qed.

  Lemma fmul_fsub_l A B D : meq n (fm n (fsub ROps A B) D) (fsub ROps (fm n A D) (fm n B D)).
  Proof. intros i j _ _. unfold fmul, fsub. rewrite <- csum_sub. apply csum_ext. intros k _. ring. Qed.
  Lemma fmul_fsub_r A B D : meq n (fm n D (fsub ROps A B)) (fsub ROps (fm n D A) (fm n D B)).
  Proof. intros i j _ _. unfold fmul, fsub. rewrite <- csum_sub. apply csum_ext. intros k _. ring. Qed.
  Lemma ftrace_sub A B : ftrace ROps n (fsub ROps A B) = ftrace ROps n A - ftrace ROps n B.
  Proof. unfold ftrace, fsub. apply csum_sub. Qed.

  (* [H, T]_ij = (E_i - E_j) T_ij for diagonal H *)
  Lemma comm_diag : meq n (fsub ROps (fm n Hd Tm) (fm n Tm Hd)) (fun i j => cofr ROps (E i - E j)%R * Tm i j).
  Proof. intros i j Hi Hj. unfold fsub. rewrite (diag_mul_l Tm i j Hi), (diag_mul_r Tm i j Hj). csolve. Qed.

  Lemma ftrace_mul_sum A B : ftrace ROps n (fm n A B) = csum n (fun i => csum n (fun j => A j i * B i j)).
  Proof. unfold ftrace, fmul. rewrite csum_swap. reflexivity. Qed.

  Lemma power_balance :
    ftrace ROps n (fm n (comm n W rho) Hd)
    = copp ROps (csum n (fun i => csum n (fun j => rho j i * (cofr ROps (E i - E j)%R * Tm i j)))).
  Proof.
    unfold comm.
    rewrite (fmul_fscale_l n _ _ Hd), ftrace_scale, (fmul_fsub_l _ _ Hd), ftrace_sub.
    (* tr(W rho H) = tr(rho H W);  tr(rho W H) = tr(rho (W H)) *)
    rewrite (fmul_assoc n W rho Hd), (ftrace_cyclic n W (fm n rho Hd)), (fmul_assoc n rho Hd W).
    rewrite (fmul_assoc n rho W Hd).
    rewrite <- ftrace_sub, <- (fmul_fsub_r (fm n Hd W) (fm n W Hd) rho).
    (* H W - W H = -i (H T - T H) *)
    assert (meq n (fsub ROps (fm n Hd W) (fm n W Hd))
                  (fscale ROps (o0 ROps, oopp ROps (o1 ROps)) (fun i j => cofr ROps (E i - E j)%R * Tm i j))) as EC.
    { rewrite <- comm_diag. unfold W.
      rewrite (fmul_fsub_r Hd (fscale ROps (o0 ROps, o1 ROps) Tm) Hd), (fmul_fsub_l Hd (fscale ROps (o0 ROps, o1 ROps) Tm) Hd).
      rewrite (fmul_fscale_r n _ Hd Tm), (fmul_fscale_l n _ Tm Hd).
      intros i j _ _. unfold fsub, fscale. generalize (fm n Hd Hd i j) (fm n Hd Tm i j) (fm n Tm Hd i j). intros a b c. csolve. }
    rewrite EC, (fmul_fscale_r n _ rho _), ftrace_scale, ftrace_mul_sum.
    generalize (csum n (fun i => csum n (fun j => rho j i * (cofr ROps (E i - E j)%R * Tm i j)))). intros z. csolve.
  Qed.
End Power.
