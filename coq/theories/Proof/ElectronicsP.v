(* Proof/ElectronicsP.v — the generic electronic-structure layer (real instance):
   Hellmann-Feynman, coupling = overlap derivative, antisymmetry, F_ij = (E_i - E_j) d_ij,
   sign fix and gauge invariance. *)
From Coq Require Import Reals ZArith List Lra Lia Bool Arith.
From MV Require Import Ops RInst Vec Electronics SumR.
Import ListNotations.
Open Scope R_scope.

Notation rs := (rsum ROps).

Lemma rs_ext n f g : (forall k, (k < n)%nat -> f k = g k) -> rs n f = rs n g.
Proof. apply vsum_tab_ext. Qed.
Lemma rs_plus n f g : rs n (fun k => f k + g k) = rs n f + rs n g.
Proof. apply vsum_tab_plus. Qed.
Lemma rs_scal n c f : rs n (fun k => c * f k) = c * rs n f.
Proof. apply vsum_tab_scal. Qed.
Lemma rs_scal_r n c f : rs n (fun k => f k * c) = rs n f * c.
Proof. rewrite (rs_ext n _ (fun k => c * f k)) by (intros; ring). rewrite rs_scal. ring. Qed.
Lemma rs_S n f : rs (S n) f = rs n f + f n.
Proof. apply vsum_tab_S. Qed.
Lemma rs_0 n : rs n (fun _ => 0) = 0.
Proof. unfold rsum. rewrite vsum_tab_const. ring. Qed.
Lemma rs_swap n m (f : nat -> nat -> R) : rs n (fun i => rs m (fun j => f i j)) = rs m (fun j => rs n (fun i => f i j)).
Proof.
  induction n as [|n IH].
  - rewrite (rs_ext m (fun j => rs 0 (fun i => f i j)) (fun _ => 0)) by (intros; reflexivity). rewrite rs_0. reflexivity.
  - rewrite rs_S, IH, <- rs_plus. apply rs_ext. intros j _. rewrite rs_S. reflexivity.
Qed.
Lemma rs_delta n j f : (j < n)%nat -> rs n (fun k => (if Nat.eqb k j then 1 else 0) * f k) = f j.
Proof.
  induction n as [|n IH]; intros H; [lia|]. rewrite rs_S.
  destruct (Nat.eq_dec j n) as [->|Hne].
  - rewrite Nat.eqb_refl, (rs_ext n _ (fun _ => 0)), rs_0; [ring|].
    intros k Hk. replace (k =? n)%nat with false by (symmetry; apply Nat.eqb_neq; lia). ring.
  - rewrite IH by lia. replace (n =? j)%nat with false by (symmetry; apply Nat.eqb_neq; lia). ring.
Qed.

(* ---- Hellmann-Feynman on first-order jets ----
   C, V, lam are the values, C', V', lam' their derivatives along one nuclear coordinate. *)
Section HF.
  Variable n : nat.
  Variables (C C' V V' : nat -> nat -> R) (lam lam' : nat -> R).
  Definition delta (i j : nat) : R := if Nat.eqb i j then 1 else 0.
  Hypothesis Horth : forall i j, (i < n)%nat -> (j < n)%nat -> rs n (fun p => C p i * C p j) = delta i j.
  Hypothesis Heig : forall p j, (p < n)%nat -> (j < n)%nat -> rs n (fun q => V p q * C q j) = C p j * lam j.
  Hypothesis Hsym : forall p q, (p < n)%nat -> (q < n)%nat -> V p q = V q p.
  (* derivative of the eigen-equation V C = C diag(lam) *)
  Hypothesis Hder : forall p j, (p < n)%nat -> (j < n)%nat ->
    rs n (fun q => V' p q * C q j) + rs n (fun q => V p q * C' q j) = C' p j * lam j + C p j * lam' j.

  Definition A (i j : nat) : R := rs n (fun p => C p i * C' p j).            (* <phi_i | d phi_j> *)
  Definition CtVpC (i j : nat) : R := rs n (fun p => rs n (fun q => (C p i * V' p q) * C q j)).

  Theorem hf_general i j : (i < n)%nat -> (j < n)%nat ->
    CtVpC i j = A i j * lam j - lam i * A i j + delta i j * lam' i.
  Proof.
    intros Hi Hj.
    assert (rs n (fun p => C p i * (rs n (fun q => V' p q * C q j) + rs n (fun q => V p q * C' q j)))
            = rs n (fun p => C p i * (C' p j * lam j + C p j * lam' j))) as E.
    { apply rs_ext. intros p Hp. rewrite (Hder p j Hp Hj). reflexivity. }
    assert (rs n (fun p => C p i * rs n (fun q => V' p q * C q j)) = CtVpC i j) as E1.
    { unfold CtVpC. apply rs_ext. intros p _. rewrite <- rs_scal. apply rs_ext. intros q _. ring. }
    assert (rs n (fun p => C p i * rs n (fun q => V p q * C' q j)) = lam i * A i j) as E2.
    { rewrite (rs_ext n _ (fun p => rs n (fun q => (C p i * V p q) * C' q j)))
        by (intros p _; rewrite <- rs_scal; apply rs_ext; intros; ring).
      rewrite rs_swap.
      rewrite (rs_ext n _ (fun q => (C q i * lam i) * C' q j)).
      - unfold A. rewrite <- rs_scal. apply rs_ext. intros; ring.
      - intros q Hq. rewrite rs_scal_r. f_equal. rewrite <- (Heig q i Hq Hi). apply rs_ext. intros p Hp.
        rewrite (Hsym q p Hq Hp). ring. }
    assert (rs n (fun p => C p i * (C' p j * lam j + C p j * lam' j)) = A i j * lam j + delta i j * lam' j) as E3.
    { rewrite (rs_ext n _ (fun p => (C p i * C' p j) * lam j + (C p i * C p j) * lam' j)) by (intros; ring).
      rewrite rs_plus, !rs_scal_r, (Horth i j Hi Hj). reflexivity. }
    rewrite (rs_ext n _ (fun p => C p i * rs n (fun q => V' p q * C q j) + C p i * rs n (fun q => V p q * C' q j))) in E by (intros; ring).
    rewrite rs_plus, E1, E2, E3 in E.
    assert (delta i j * lam' j = delta i j * lam' i) as Ed.
    { unfold delta. destruct (Nat.eqb_spec i j) as [->|_]; ring. }
    lra.
  Qed.

  (* the force on state i is minus the derivative of its energy *)
  Corollary hf_force i : (i < n)%nat -> - CtVpC i i = - lam' i.
  Proof. intros Hi. rewrite (hf_general i i Hi Hi). unfold delta. rewrite Nat.eqb_refl. ring. Qed.

  (* the derivative coupling (C^T V' C)_ij / (E_j - E_i) is the overlap derivative <phi_i|d phi_j> *)
  Corollary dc_is_overlap i j : (i < n)%nat -> (j < n)%nat -> i <> j -> lam j - lam i <> 0 ->
    CtVpC i j / (lam j - lam i) = A i j.
  Proof.
    intros Hi Hj Hne Hg. rewrite (hf_general i j Hi Hj). unfold delta.
    replace (i =? j)%nat with false by (symmetry; apply Nat.eqb_neq; exact Hne). field. exact Hg.
  Qed.

  (* derivative of orthonormality gives antisymmetry of the overlap derivative *)
  Hypothesis Horth' : forall i j, (i < n)%nat -> (j < n)%nat ->
    rs n (fun p => C' p i * C p j) + rs n (fun p => C p i * C' p j) = 0.
  Corollary overlap_antisym i j : (i < n)%nat -> (j < n)%nat -> A j i = - A i j.
  Proof.
    intros Hi Hj. specialize (Horth' i j Hi Hj). unfold A.
    rewrite (rs_ext n (fun p => C p j * C' p i) (fun p => C' p i * C p j)) by (intros; ring). lra.
  Qed.
End HF.

(* ---- what the code computes from (C, dV, E): list-level ---- *)
Section Code.
  Variables (N nst : nat) (floor : R) (Cm dV : rmat (T:=R)) (E : list R).
  Hypothesis Hfl : 0 < floor.
  Notation ct := (ctac ROps N Cm dV).

  Lemma rg_rmk n m f i j : (i < n)%nat -> (j < m)%nat -> rg ROps (rmk n m f) i j = f i j.
  Proof. intros Hi Hj. unfold rg, rmk. rewrite (nth_tabulate n _ i [] Hi), (nth_tabulate m _ j _ Hj). reflexivity. Qed.

  Lemma ctac_sym : (forall p q, (p < N)%nat -> (q < N)%nat -> rg ROps dV p q = rg ROps dV q p) ->
    forall i j, ct i j = ct j i.
  Proof.
    intros Hs i j. unfold ctac. rewrite rs_swap. apply rs_ext. intros q Hq. apply rs_ext. intros p Hp.
    rewrite (Hs p q Hp Hq). cbn. ring.
  Qed.

  Lemma gap_regular Ei Ej : floor <= Rabs (Ej - Ei) -> gap ROps floor Ei Ej = Ej - Ei.
  Proof.
    intros H. unfold gap. cbn [osub oabs oltb ROps]. destruct (Rltb_spec (Rabs (Ej - Ei)) floor); [lra | reflexivity].
  Qed.
  Lemma gap_nonzero Ei Ej : gap ROps floor Ei Ej <> 0.
  Proof.
    unfold gap. cbn [osub oabs oltb oopp o0 ROps].
    destruct (Rltb_spec (Rabs (Ej - Ei)) floor) as [H|H].
    - destruct (Rltb_spec (Ej - Ei) 0); lra.
    - intros E0. rewrite E0, Rabs_R0 in H. lra.
  Qed.
  Lemma gap_antisym Ei Ej : floor <= Rabs (Ej - Ei) -> gap ROps floor Ej Ei = - gap ROps floor Ei Ej.
  Proof.
    intros H. rewrite (gap_regular Ei Ej H). rewrite (gap_regular Ej Ei); [ring|]. rewrite <- Rabs_Ropp. replace (- (Ei - Ej)) with (Ej - Ei) by ring. exact H.
  Qed.

  Notation dcm := (dc_of ROps N nst floor Cm dV E).
  Notation fmm := (force_matrix_of ROps N nst Cm dV).
  Notation e i := (nth i E (o0 ROps)).

  Theorem dc_zero_diag i : (i < nst)%nat -> rg ROps dcm i i = 0.
  Proof. intros Hi. unfold dc_of. rewrite (rg_rmk nst nst _ i i Hi Hi), Nat.eqb_refl. reflexivity. Qed.

  (* antisymmetric whatever the gap (the floor keeps the two divisions opposite) *)
  Theorem dc_antisym : (forall p q, (p < N)%nat -> (q < N)%nat -> rg ROps dV p q = rg ROps dV q p) ->
    forall i j, (i < nst)%nat -> (j < nst)%nat -> rg ROps dcm j i = - rg ROps dcm i j.
  Proof.
    intros Hs i j Hi Hj. unfold dc_of. rewrite (rg_rmk nst nst _ j i Hj Hi), (rg_rmk nst nst _ i j Hi Hj).
    rewrite (Nat.eqb_sym j i). destruct (Nat.eqb_spec i j) as [->|Hne]; [cbn; lra|].
    rewrite (ctac_sym Hs j i). cbn [odiv oopp ROps].
    destruct (Nat.ltb_spec i j) as [Hlt|Hge].
    - replace (j <? i)%nat with false by (symmetry; apply Nat.ltb_ge; lia).
      pose proof (gap_nonzero (e i) (e j)). field. assumption.
    - replace (j <? i)%nat with true by (symmetry; apply Nat.ltb_lt; lia).
      pose proof (gap_nonzero (e j) (e i)). field. assumption.
  Qed.

  (* off-diagonal force matrix = (E_i - E_j) d_ij when the gap is above the floor *)
  Theorem force_matrix_offdiag i j : (i < nst)%nat -> (j < nst)%nat -> i <> j -> floor <= Rabs (e j - e i) ->
    rg ROps fmm i j = (e i - e j) * rg ROps dcm i j.
  Proof.
    intros Hi Hj Hne Hg. unfold force_matrix_of, dc_of.
    rewrite (rg_rmk nst nst _ i j Hi Hj), (rg_rmk nst nst _ i j Hi Hj).
    replace (i =? j)%nat with false by (symmetry; apply Nat.eqb_neq; exact Hne). cbn [odiv oopp ROps].
    assert (e j - e i <> 0) as Hnz by (intros E0; rewrite E0, Rabs_R0 in Hg; lra).
    destruct (Nat.ltb_spec i j) as [Hlt|Hge].
    - rewrite (gap_regular (e i) (e j) Hg). field. exact Hnz.
    - assert (floor <= Rabs (e i - e j)) as Hg' by (rewrite <- Rabs_Ropp; replace (- (e i - e j)) with (e j - e i) by ring; exact Hg).
      rewrite (gap_regular (e j) (e i) Hg'). field. lra.
  Qed.

  Theorem force_is_diag_of_matrix i : (i < nst)%nat ->
    nth i (force_of ROps N nst Cm dV) 0 = rg ROps fmm i i.
  Proof.
    intros Hi. unfold force_of, force_matrix_of. rewrite (nth_tabulate nst _ i 0 Hi), (rg_rmk nst nst _ i i Hi Hi). reflexivity.
  Qed.
End Code.

(* ---- sign fix and gauge invariance (C06) ---- *)
Section Gauge.
  Variables (N nst : nat).

  Lemma rg_signfix Cm r p mo : (p < N)%nat -> (mo < nst)%nat ->
    rg ROps (signfix ROps N nst Cm (Some r)) p mo = rg ROps Cm p mo * col_sign ROps N Cm r mo.
  Proof. intros Hp Hm. unfold signfix. apply rg_rmk; assumption. Qed.

  Lemma col_sign_pm Cm r mo : col_sign ROps N Cm r mo = 1 \/ col_sign ROps N Cm r mo = -1.
  Proof. unfold col_sign. cbn [oltb oopp o0 o1 ROps]. destruct (Rltb _ _); [right | left]; reflexivity. Qed.

  Lemma vdot_tab (f g : nat -> R) : vdot ROps (tabulate N f) (tabulate N g) = rs N (fun p => f p * g p).
  Proof. unfold vdot, vmul, rsum. rewrite (vmap2_tab (omul ROps) N f g). reflexivity. Qed.

  (* after the sign fix every column has non-negative overlap with the reference column *)
  Theorem signfix_overlap Cm r mo : (mo < nst)%nat ->
    0 <= vdot ROps (col ROps N (signfix ROps N nst Cm (Some r)) mo) (col ROps N r mo).
  Proof.
    intros Hm. unfold col. rewrite vdot_tab.
    rewrite (rs_ext N _ (fun p => col_sign ROps N Cm r mo * (rg ROps Cm p mo * rg ROps r p mo)))
      by (intros p Hp; rewrite (rg_signfix Cm r p mo Hp Hm); ring).
    rewrite rs_scal.
    assert (rs N (fun p => rg ROps Cm p mo * rg ROps r p mo) = vdot ROps (col ROps N Cm mo) (col ROps N r mo)) as E
      by (unfold col; rewrite vdot_tab; reflexivity).
    rewrite E. unfold col_sign. cbn [oltb oopp o0 o1 ROps].
    destruct (Rltb_spec (vdot ROps (col ROps N Cm mo) (col ROps N r mo)) 0); lra.
  Qed.

  (* gauge: multiplying the columns by signs s_i in {+1,-1} *)
  Variables (Cm Cs dV : rmat (T:=R)) (s : nat -> R).
  Hypothesis Hs : forall i, (i < nst)%nat -> s i = 1 \/ s i = -1.
  Hypothesis HCs : forall p i, (p < N)%nat -> (i < nst)%nat -> rg ROps Cs p i = rg ROps Cm p i * s i.

  Lemma ctac_gauge i j : (i < nst)%nat -> (j < nst)%nat ->
    ctac ROps N Cs dV i j = s i * s j * ctac ROps N Cm dV i j.
  Proof.
    intros Hi Hj. unfold ctac. rewrite <- rs_scal. apply rs_ext. intros p Hp.
    rewrite <- rs_scal. apply rs_ext. intros q Hq. cbn [omul ROps].
    rewrite (HCs p i Hp Hi), (HCs q j Hq Hj). ring.
  Qed.

  Theorem gauge_force i : (i < nst)%nat ->
    nth i (force_of ROps N nst Cs dV) 0 = nth i (force_of ROps N nst Cm dV) 0.
  Proof.
    intros Hi. unfold force_of. rewrite !(nth_tabulate nst _ i 0 Hi). cbn [oopp ROps].
    rewrite (ctac_gauge i i Hi Hi). destruct (Hs i Hi) as [E|E]; rewrite E; ring.
  Qed.

  Theorem gauge_coupling floor E i j : (i < nst)%nat -> (j < nst)%nat ->
    rg ROps (dc_of ROps N nst floor Cs dV E) i j = s i * s j * rg ROps (dc_of ROps N nst floor Cm dV E) i j
    /\ rg ROps (force_matrix_of ROps N nst Cs dV) i j = s i * s j * rg ROps (force_matrix_of ROps N nst Cm dV) i j.
  Proof.
    intros Hi Hj. unfold dc_of, force_matrix_of. rewrite !(rg_rmk nst nst _ i j Hi Hj). cbn [odiv oopp o0 ROps].
    rewrite (ctac_gauge i j Hi Hj). split; [|ring].
    destruct (Nat.eqb i j); [ring|]. destruct (Nat.ltb i j); unfold Rdiv; ring.
  Qed.

  Corollary gauge_coupling_magnitude floor E i j : (i < nst)%nat -> (j < nst)%nat ->
    Rabs (rg ROps (dc_of ROps N nst floor Cs dV E) i j) = Rabs (rg ROps (dc_of ROps N nst floor Cm dV E) i j).
  Proof.
    intros Hi Hj. rewrite (proj1 (gauge_coupling floor E i j Hi Hj)).
    destruct (Hs i Hi) as [Ei|Ei], (Hs j Hj) as [Ej|Ej]; rewrite Ei, Ej.
    - f_equal. ring.
    - replace (1 * -1 * _) with (- rg ROps (dc_of ROps N nst floor Cm dV E) i j) by ring. apply Rabs_Ropp.
    - replace (-1 * 1 * _) with (- rg ROps (dc_of ROps N nst floor Cm dV E) i j) by ring. apply Rabs_Ropp.
    - f_equal. ring.
  Qed.
End Gauge.
