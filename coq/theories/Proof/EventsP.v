From Coq Require Import List Bool Arith Lia.
From MV Require Import Events.
Import ListNotations.

Lemma filter_app_ev (f : event -> bool) l1 l2 : filter f (l1 ++ l2) = filter f l1 ++ filter f l2.
Proof. apply filter_app. Qed.

Lemma hops_match_changes : forall atts k active,
  attempts_ok active atts = true ->
  let '(acts, evs) := run_from k active atts in
  filter is_hop evs = changes_from k active acts.
Proof.
  induction atts as [|a rest IH]; intros k active Hok; cbn; [reflexivity|].
  cbn in Hok. apply andb_true_iff in Hok. destruct Hok as [Ha Hrest].
  specialize (IH (S k) (step_active active a) Hrest).
  destruct (run_from (S k) (step_active active a) rest) as [acts evs].
  rewrite filter_app. cbn [changes_from]. rewrite IH. f_equal.
  destruct a as [|tg [|]]; cbn in *.
  - rewrite Nat.eqb_refl. reflexivity.
  - destruct (Nat.eqb tg active); [discriminate | reflexivity].
  - rewrite Nat.eqb_refl. reflexivity.
Qed.

Lemma frustrated_count : forall atts k active,
  let '(_, evs) := run_from k active atts in
  length (filter (fun e => negb (is_hop e)) evs) = count_frustrated atts.
Proof.
  induction atts as [|a rest IH]; intros k active; cbn; [reflexivity|].
  specialize (IH (S k) (step_active active a)).
  destruct (run_from (S k) (step_active active a) rest) as [acts evs].
  rewrite filter_app, app_length, IH. unfold count_frustrated. cbn [filter].
  destruct a as [|tg [|]]; cbn; reflexivity.
Qed.

Lemma events_sorted_times : forall atts k active e,
  let '(_, evs) := run_from k active atts in
  In e evs -> match e with EHop j _ _ | EFrustrated j _ _ => k <= j < k + length atts end.
Proof.
  induction atts as [|a rest IH]; intros k active e; cbn; [tauto|].
  specialize (IH (S k) (step_active active a) e).
  destruct (run_from (S k) (step_active active a) rest) as [acts evs].
  intros Hin. apply in_app_or in Hin. destruct Hin as [Hin|Hin].
  - destruct a as [|tg [|]]; cbn in Hin; try tauto; destruct Hin as [<-|[]]; lia.
  - specialize (IH Hin). destruct e; lia.
Qed.
