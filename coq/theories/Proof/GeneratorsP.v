From Coq Require Import Reals ZArith List Lra Lia Bool Arith FinFun.
From MV Require Import Ops RInst Vec Generators Rng SumR.
Import ListNotations.
Open Scope R_scope.

(* ---- Boltzmann scaling: kinetic energy per degree of freedom = kT/2 exactly ---- *)
Lemma ke_scaled (m p : list R) s :
  vsum ROps (vmap2 (fun pi mi => pi * pi * (1 / mi)) (map (fun pi => pi * s) p) m)
  = s * s * vsum ROps (vmap2 (fun pi mi => pi * pi * (1 / mi)) p m).
Proof.
  revert m. induction p as [|pi p IH]; intros [|mi m]; cbn [map vmap2 vsum]; try (cbn; lra).
  rewrite IH. cbn. ring.
Qed.

Lemma boltzmann_scaled_ke (kt : R) (m p : list R) :
  0 <= kt -> 0 < avg_ke ROps m p ->
  avg_ke ROps m (boltz_scale ROps kt m p) = 1 / 2 * kt.
Proof.
  intros Hkt Havg. unfold boltz_scale.
  set (a := avg_ke ROps m p) in *. cbn [omul odiv ohalf o1 o2 oofZ osqrt ROps].
  set (s := sqrt (1 / 2 * kt / a)).
  assert (s * s = 1 / 2 * kt / a) as Hs.
  { unfold s. apply sqrt_sqrt. apply Rmult_le_pos; [lra | left; apply Rinv_0_lt_compat; exact Havg]. }
  unfold avg_ke. cbn [omul odiv ohalf o1 o2 oofZ ROps]. rewrite map_length.
  rewrite (ke_scaled m p s), Hs.
  assert (a = 1 / 2 * vsum ROps (vmap2 (fun pi mi => pi * pi * (1 / mi)) p m) / ofnat ROps (length p)) as Ea by reflexivity.
  set (S := vsum ROps (vmap2 (fun pi mi => pi * pi * (1 / mi)) p m)) in *.
  set (N := ofnat ROps (length p)) in *.
  assert (N <> 0) as HN.
  { intros E. rewrite Ea, E in Havg. unfold Rdiv in Havg. rewrite Rinv_0, Rmult_0_r in Havg. lra. }
  rewrite Ea. field. split; [exact HN|]. intros E. rewrite Ea, E in Havg. unfold Rdiv in Havg.
  rewrite Rmult_0_r, Rmult_0_l in Havg. lra.
Qed.

Lemma boltz_sigma_sq kt (m : list R) i : 0 <= kt -> (i < length m)%nat -> 0 <= nth i m 0 ->
  nth i (boltz_sigma ROps kt m) 0 * nth i (boltz_sigma ROps kt m) 0 = nth i m 0 * kt.
Proof.
  intros Hkt Hi Hm. unfold boltz_sigma.
  rewrite (nth_indep _ 0 (osqrt ROps (omul ROps kt 0))) by (rewrite map_length; exact Hi).
  rewrite (map_nth (fun mi => osqrt ROps (omul ROps kt mi)) m 0 i). cbn [osqrt omul ROps].
  rewrite sqrt_sqrt by (apply Rmult_le_pos; assumption). ring.
Qed.

(* ---- normal generator: widths and the momentum filter ---- *)
Lemma normal_widths_R sigma : normal_widths ROps sigma = (sigma / 2, 1 / sigma).
Proof. unfold normal_widths. cbn. f_equal. field. Qed.

Lemma kskip_false (k : list R) : kskip ROps k = false -> Forall (fun ki => 0 <= ki) k.
Proof.
  unfold kskip. induction k as [|x k IH]; cbn [existsb]; intros H; [constructor|].
  apply orb_false_iff in H. destruct H as [H1 H2]. constructor; [|apply IH; exact H2].
  cbn in H1. apply Rltb_false in H1. exact H1.
Qed.

Lemma normal_gen_spec : forall draws i j x k,
  In (j, x, k) (normal_gen ROps i draws) ->
  Forall (fun ki => 0 <= ki) k /\ (i <= j < i + length draws)%nat /\ nth_error draws (j - i) = Some (x, k).
Proof.
  induction draws as [|[x0 k0] rest IH]; intros i j x k Hin; cbn in Hin; [contradiction|].
  destruct (kskip ROps k0) eqn:Es.
  - destruct (IH (S i) j x k Hin) as [A [B C]]. split; [exact A|]. split; [cbn [length]; lia|].
    replace (j - i)%nat with (S (j - S i)) by lia. exact C.
  - destruct Hin as [E|Hin].
    + injection E as <- <- <-. split; [apply kskip_false; exact Es|]. split; [cbn [length]; lia|].
      rewrite Nat.sub_diag. reflexivity.
    + destruct (IH (S i) j x k Hin) as [A [B C]]. split; [exact A|]. split; [cbn [length]; lia|].
      replace (j - i)%nat with (S (j - S i)) by lia. exact C.
Qed.

Lemma normal_gen_indices_increasing : forall draws i,
  let idx := map (fun t => fst (fst t)) (normal_gen ROps i draws) in
  forall a b, (a < b < length idx)%nat -> (nth a idx 0 < nth b idx 0)%nat.
Proof.
  intros draws i idx.
  assert (forall dr i0, let l := map (fun t : nat * list R * list R => fst (fst t)) (normal_gen ROps i0 dr) in
            Forall (fun j => (i0 <= j)%nat) l /\ (forall a b, (a < b < length l)%nat -> (nth a l 0 < nth b l 0)%nat)) as G.
  { induction dr as [|[x0 k0] rest IH]; intros i0; cbn.
    - split; [constructor | intros a b H; cbn in H; lia].
    - destruct (IH (S i0)) as [F M]. destruct (kskip ROps k0); cbn.
      + split; [eapply Forall_impl; [|exact F]; intros; cbn in *; lia | exact M].
      + split; [constructor; [lia | eapply Forall_impl; [|exact F]; intros; cbn in *; lia]|].
        intros [|a] [|b] H; cbn [length] in H; try lia.
        * cbn [nth]. rewrite Forall_forall in F.
          assert (S i0 <= nth b (map (fun t : nat * list R * list R => fst (fst t)) (normal_gen ROps (S i0) rest)) 0)%nat.
          { apply F. apply nth_In. lia. } lia.
        * cbn [nth]. apply M. lia. }
  apply (G draws i).
Qed.

Lemma const_gen_spec {A} n (ic : A) :
  length (const_gen n ic) = n /\ forall i, (i < n)%nat -> nth_error (const_gen n ic) i = Some (i, ic).
Proof.
  unfold const_gen. split; [rewrite map_length, seq_length; reflexivity|].
  intros i Hi. rewrite nth_error_map, nth_error_nth' with (d := 0%nat) by (rewrite seq_length; exact Hi).
  rewrite seq_nth by exact Hi. reflexivity.
Qed.

(* ---- seed sequences ---- *)
Lemma spawn_child_key s n i : (i < n)%nat ->
  nth_error (fst (spawn s n)) i = Some (mkSS (skey s ++ [(nspawned s + i)%nat]) 0%nat).
Proof.
  intros Hi. unfold spawn. cbn [fst].
  rewrite nth_error_map, nth_error_nth' with (d := 0%nat) by (rewrite seq_length; exact Hi).
  rewrite seq_nth by exact Hi. reflexivity.
Qed.

Lemma spawn_keys_nodup s n : NoDup (map skey (fst (spawn s n))).
Proof.
  unfold spawn. cbn [fst]. rewrite map_map. cbn [skey].
  apply FinFun.Injective_map_NoDup; [|apply seq_NoDup].
  intros a b E. apply app_inv_head in E. injection E. lia.
Qed.

Lemma draws_order {A} (zl st : list A) k : (k <= length zl + length st)%nat ->
  draws zl st k = firstn k (zl ++ st).
Proof.
  revert zl st. induction k as [|k IH]; intros zl st H; [reflexivity|].
  destruct zl as [|z zl]; cbn [draws app].
  - destruct st as [|u st]; [cbn in H; lia|]. cbn [firstn]. f_equal. rewrite (IH [] st) by (cbn in *; lia). reflexivity.
  - cbn [firstn]. f_equal. apply IH. cbn in H. lia.
Qed.
