(* Proof/HarmonicP.v — HarmonicModel: the force is minus the gradient of the energy
   (exact second-order expansion for a symmetric Hessian). *)
From Coq Require Import Reals ZArith List Lra Lia.
From MV Require Import Ops RInst Vec Electronics Models SumR ElectronicsP.
Import ListNotations.
Open Scope R_scope.

Lemma vdot_as_sum n (a b : list R) : length a = n -> length b = n ->
  vdot ROps a b = rs n (fun i => nth i a 0 * nth i b 0).
Proof.
  revert a b. induction n as [|n IH]; intros a b Ha Hb.
  - destruct a, b; try discriminate. reflexivity.
  - destruct a as [|x a], b as [|y b]; try discriminate. cbn in Ha, Hb.
    unfold vdot, vmul. cbn [vmap2 vsum]. fold (vmul ROps a b). fold (vdot ROps a b).
    rewrite (IH a b) by lia. unfold rsum, tabulate. cbn [seq map vsum].
    rewrite <- seq_shift, map_map. reflexivity.
Qed.

Lemma nth_matvec (H : list (list R)) v i : (i < length H)%nat -> nth i (matvec ROps H v) 0 = vdot ROps (nth i H []) v.
Proof.
  intros Hi. unfold matvec. rewrite (nth_indep _ 0 (vdot ROps [] v)) by (rewrite map_length; exact Hi).
  apply (map_nth (fun row => vdot ROps row v) H [] i).
Qed.

Lemma vadd_length_g : forall m (a b : list R), length a = m -> length b = m -> length (vadd ROps a b) = m.
Proof.
  induction m as [|m IH]; intros a b Ha Hb; destruct a, b; try discriminate; [reflexivity|].
  cbn in *. f_equal. apply IH; lia.
Qed.
Lemma vsub_length_g : forall m (a b : list R), length a = m -> length b = m -> length (vsub ROps a b) = m.
Proof.
  induction m as [|m IH]; intros a b Ha Hb; destruct a, b; try discriminate; [reflexivity|].
  cbn in *. f_equal. apply IH; lia.
Qed.
Lemma nth_vadd_g : forall m (a b : list R) i, length a = m -> length b = m -> (i < m)%nat ->
  nth i (vadd ROps a b) 0 = nth i a 0 + nth i b 0.
Proof.
  induction m as [|m IH]; intros a b i Ha Hb Hi; [lia|].
  destruct a as [|x a], b as [|y b]; try discriminate. destruct i as [|i]; [reflexivity|].
  cbn in Ha, Hb. apply (IH a b i); lia.
Qed.
Lemma vsub_vadd_g : forall m (X d y0 : list R), length X = m -> length d = m -> length y0 = m ->
  vsub ROps (vadd ROps X d) y0 = vadd ROps (vsub ROps X y0) d.
Proof.
  induction m as [|m IH]; intros X d y0 HX Hd Hy; destruct X, d, y0; try discriminate; [reflexivity|].
  cbn in *. f_equal; [ring | apply IH; lia].
Qed.
Lemma vdot_map_opp (d l : list R) : vdot ROps d (map (oopp ROps) l) = - vdot ROps d l.
Proof. unfold vdot, vmul. revert l. induction d as [|a dd IHd]; intros [|b l]; cbn in *; try lra. rewrite IHd. lra. Qed.

Section Harm.
  Variable n : nat.
  Variables (x0 : list R) (E0 : R) (H : list (list R)).
  Hypothesis Hx0 : length x0 = n.
  Hypothesis HH : length H = n.
  Hypothesis Hrows : forall i, (i < n)%nat -> length (nth i H []) = n.
  Hypothesis Hsym : forall i j, (i < n)%nat -> (j < n)%nat -> nth j (nth i H []) 0 = nth i (nth j H []) 0.

  Definition quadf (a b : list R) : R := rs n (fun i => nth i a 0 * rs n (fun j => nth j (nth i H []) 0 * nth j b 0)).

  Lemma dot_matvec a b : length a = n -> length b = n -> vdot ROps a (matvec ROps H b) = quadf a b.
  Proof.
    intros Ha Hb. rewrite (vdot_as_sum n a (matvec ROps H b) Ha) by (unfold matvec; rewrite map_length; exact HH).
    apply rs_ext. intros i Hi. f_equal. rewrite (nth_matvec H b i) by lia.
    apply (vdot_as_sum n _ b (Hrows i Hi) Hb).
  Qed.

  Lemma quadf_sym a b : quadf a b = quadf b a.
  Proof.
    unfold quadf.
    rewrite (rs_ext n _ (fun i => rs n (fun j => nth i a 0 * nth j (nth i H []) 0 * nth j b 0))) by (intros; rewrite <- rs_scal; apply rs_ext; intros; ring).
    rewrite rs_swap. apply rs_ext. intros j Hj. rewrite <- rs_scal. apply rs_ext. intros i Hi.
    rewrite (Hsym i j Hi Hj). ring.
  Qed.

  Lemma quadf_add_l a a' b : length a = n -> length a' = n -> quadf (vadd ROps a a') b = quadf a b + quadf a' b.
  Proof.
    intros Ha Ha'. unfold quadf. rewrite <- rs_plus. apply rs_ext. intros i Hi.
    rewrite (nth_vadd_g n a a' i Ha Ha' Hi). ring.
  Qed.
  Lemma quadf_add_r a b b' : length b = n -> length b' = n -> quadf a (vadd ROps b b') = quadf a b + quadf a b'.
  Proof. intros Hb Hb'. rewrite (quadf_sym a), (quadf_add_l b b' a Hb Hb'), (quadf_sym b a), (quadf_sym b' a). reflexivity. Qed.

  (* E(X + d) = E(X) - d . F(X) + (1/2) d^T H d  *)
  Theorem harmonic_expansion X d : length X = n -> length d = n ->
    harm_energy ROps x0 E0 H (vadd ROps X d)
    = harm_energy ROps x0 E0 H X - vdot ROps d (harm_force ROps x0 H X) + 1 / 2 * quadf d d.
  Proof.
    intros HX Hd. unfold harm_energy, harm_force. cbn [oadd omul ohalf o1 o2 odiv oofZ ROps].
    rewrite (vsub_vadd_g n X d x0 HX Hd Hx0). set (dx := vsub ROps X x0).
    assert (length dx = n) as Hdx by (apply vsub_length_g; assumption).
    rewrite (dot_matvec (vadd ROps dx d) (vadd ROps dx d)) by (apply vadd_length_g; assumption).
    rewrite (dot_matvec dx dx Hdx Hdx).
    assert (vdot ROps d (map (oopp ROps) (matvec ROps H dx)) = - quadf d dx) as ->.
    { rewrite <- (dot_matvec d dx Hd Hdx). apply vdot_map_opp. }
    rewrite (quadf_add_l dx d _ Hdx Hd), (quadf_add_r dx dx d Hdx Hd), (quadf_add_r d dx d Hdx Hd), (quadf_sym dx d). lra.
  Qed.
End Harm.
