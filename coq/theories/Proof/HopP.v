(* Proof/HopP.v — lemmas about Model/Hop.v on the real instance. *)
From Coq Require Import Reals ZArith List Lra Lia Bool.
From MV Require Import Ops RInst Vec Hop SumR.
Import ListNotations.
Open Scope R_scope.

Local Notation a_ := (qa ROps).
Local Notation b_ := (qb ROps).

(* ---- kinetic energy after a kick along any list u ---- *)
Lemma kick_sum : forall (m v u : list R) (s : R),
  length v = length m -> length u = length m -> Forall (fun mi => mi <> 0) m ->
  vsum ROps (vmap2 (fun mi vi => mi * vi * vi) m
     (vmap2 (fun vi mu => vi + mu) v (vmap2 (fun mi ui => s * (1 / mi) * ui) m u)))
  = vsum ROps (vmap2 (fun mi vi => mi * vi * vi) m v)
    + (vsum ROps (vmap2 (fun mi ui => 1 / mi * ui * ui) m u) * (s * s)
       + 2 * vsum ROps (vmap2 Rmult v u) * s).
Proof.
  intros m v u s. revert v u.
  induction m as [|mi m IH]; intros [|vi v] [|ui u] Hv Hu Hm; cbn [length] in *; try discriminate.
  - cbn. lra.
  - inversion Hm as [|? ? Hmi Hm']; subst.
    specialize (IH v u ltac:(lia) ltac:(lia) Hm').
    cbn [vmap2 vsum oadd ROps o0]. cbn [vmap2 vsum oadd ROps o0] in IH. rewrite IH.
    assert (mi * (vi + s * (1 / mi) * ui) * (vi + s * (1 / mi) * ui)
            = mi * vi * vi + (1 / mi * ui * ui) * (s * s) + 2 * (vi * ui) * s) as -> by (field; exact Hmi).
    lra.
Qed.

Lemma kinetic_kick : forall (m v u : list R) (s : R),
  length v = length m -> length u = length m -> Forall (fun mi => mi <> 0) m ->
  kinetic ROps m (kick ROps m v u s)
  = kinetic ROps m v + 1 / 2 * (a_ m u * (s * s) + b_ v u * s).
Proof.
  intros m v u s Hv Hu Hm. unfold kinetic, kick, qa, qb, vdot, vmul.
  cbn [ohalf o1 o2 odiv omul oadd oofZ ROps].
  rewrite (kick_sum m v u s Hv Hu Hm). lra.
Qed.

(* ---- the root of least modulus ---- *)
Section Roots.
  Variables a b c : R.
  Let D := b * b - 4 * a * c.
  Let sq := sqrt D.
  Let q := - (b + (if Rltb b 0 then - sq else sq)) / 2.

  Lemma small_root_R : small_root ROps a b c = c / q.
  Proof. reflexivity. Qed.
  Lemma large_root_R : large_root ROps a b c = q / a.
  Proof. reflexivity. Qed.

  Hypothesis HD : 0 <= D.
  Lemma sq_sq : sq * sq = D. Proof. apply sqrt_sqrt; exact HD. Qed.
  Lemma sq_nonneg : 0 <= sq. Proof. apply sqrt_pos. Qed.

  Lemma q_quadratic : q * q + b * q + a * c = 0.
  Proof.
    pose proof sq_sq as H. unfold q, D in *. destruct (Rltb b 0); nra.
  Qed.

  Lemma q_nonzero : (0 < D \/ b <> 0) -> q <> 0.
  Proof.
    intros H. pose proof sq_nonneg as Hs. pose proof sq_sq as Hss. unfold q.
    destruct (Rltb_spec b 0) as [Hb|Hb].
    - intros E. assert (b - sq = 0) by lra. nra.
    - intros E. assert (b + sq = 0) by lra.
      destruct H as [H|H]; [nra|]. assert (b = 0) by nra. contradiction.
  Qed.

  Lemma small_root_is_root : q <> 0 -> let s := small_root ROps a b c in a * (s * s) + b * s + c = 0.
  Proof.
    intros Hq s. unfold s. rewrite small_root_R. pose proof q_quadratic as H.
    replace (a * (c / q * (c / q)) + b * (c / q) + c) with (c * (q * q + b * q + a * c) / (q * q)) by (field; exact Hq).
    rewrite H. field. exact Hq.
  Qed.

  Lemma roots_sum : q <> 0 -> a <> 0 -> small_root ROps a b c + large_root ROps a b c = - b / a.
  Proof.
    intros Hq Ha. rewrite small_root_R, large_root_R. pose proof q_quadratic as H.
    replace (c / q + q / a) with ((q * q + a * c) / (a * q)) by (field; split; assumption).
    replace (q * q + a * c) with (- b * q) by lra. field. split; assumption.
  Qed.

  Lemma small_le_large : q <> 0 -> 0 < a ->
    Rabs (small_root ROps a b c) <= Rabs (large_root ROps a b c).
  Proof.
    intros Hq Ha. rewrite small_root_R, large_root_R.
    unfold Rdiv. rewrite !Rabs_mult, !Rabs_Rinv by lra.
    assert (0 < Rabs q) as Hqa by (apply Rabs_pos_lt; exact Hq).
    rewrite (Rabs_pos_eq a) by lra.
    apply Rmult_le_reg_r with (Rabs q * a); [nra|].
    replace (Rabs c * / Rabs q * (Rabs q * a)) with (Rabs c * a) by (field; lra).
    replace (Rabs q * / a * (Rabs q * a)) with (Rabs q * Rabs q) by (field; lra).
    replace (Rabs q * Rabs q) with (q * q) by (rewrite <- Rabs_mult; symmetry; apply Rabs_pos_eq; nra).
    pose proof sq_sq as Hss. pose proof sq_nonneg as Hs.
    assert (4 * (a * c) = b * b - sq * sq) as Hac by (unfold D in Hss; lra).
    assert (4 * (q * q) = (b * b + sq * sq) + 2 * Rabs b * sq) as Hqq.
    { unfold q. destruct (Rltb_spec b 0) as [Hb|Hb].
      - rewrite (Rabs_left b) by lra. field.
      - rewrite (Rabs_pos_eq b) by lra. field. }
    assert (0 <= Rabs b) by apply Rabs_pos.
    unfold Rabs at 1. destruct (Rcase_abs c); nra.
  Qed.

  (* any energy-conserving kick is one of the two roots, so the chosen one is the smallest *)
  Lemma small_root_minimal : q <> 0 -> 0 < a -> forall s', a * (s' * s') + b * s' + c = 0 ->
    Rabs (small_root ROps a b c) <= Rabs s'.
  Proof.
    intros Hq Ha s' Hs'.
    pose proof (small_root_is_root Hq) as Hs. cbv zeta in Hs.
    pose proof (roots_sum Hq ltac:(lra)) as Hsum.
    set (s := small_root ROps a b c) in *. set (L := large_root ROps a b c) in *.
    assert ((s' - s) * (a * (s' + s) + b) = 0) as Hf by nra.
    apply Rmult_integral in Hf. destruct Hf as [Hf|Hf].
    - replace s' with s by lra. lra.
    - assert (s' = L) as ->.
      { assert (s + L = - b / a) by exact Hsum.
        assert (a * (s + L) = - b) by (rewrite H; field; lra). nra. }
      apply small_le_large; assumption.
  Qed.
End Roots.

(* ---- positivity of a ---- *)
Lemma qa_nonneg m u : Forall (fun mi => 0 < mi) m -> 0 <= a_ m u.
Proof.
  unfold qa. cbn [o1 odiv omul ROps]. revert u. induction m as [|mi m IH]; intros [|ui u] Hm; cbn; try lra.
  inversion Hm as [|? ? Hmi Hm']; subst. specialize (IH u Hm').
  assert (0 <= 1 / mi * ui * ui).
  { replace (1 / mi * ui * ui) with (ui * ui / mi) by (field; lra).
    apply Rmult_le_pos; [nra | left; apply Rinv_0_lt_compat; exact Hmi]. }
  lra.
Qed.

Lemma kick_component m v u s i : length v = length m -> length u = length m -> (i < length m)%nat ->
  nth i m 0 <> 0 ->
  nth i m 0 * (nth i (kick ROps m v u s) 0 - nth i v 0) = s * nth i u 0.
Proof.
  unfold kick. cbn [o1 odiv omul oadd ROps].
  revert v u i. induction m as [|mi m IH]; intros [|vi v] [|ui u] [|i] Hv Hu Hi Hm; cbn in *; try discriminate; try lia.
  - field. exact Hm.
  - apply IH; try lia. exact Hm.
Qed.

(* ---- the hop as a whole ---- *)
Lemma unit_dir_length dir : length (unit_dir ROps dir) = length dir.
Proof. unfold unit_dir. apply map_length. Qed.

Lemma hop_allowed_disc m v dir dE :
  0 < a_ m (unit_dir ROps dir) -> hop_allowed ROps m v dir dE = true ->
  let u := unit_dir ROps dir in
  0 < b_ v u * b_ v u - 4 * a_ m u * qc ROps dE.
Proof.
  intros Ha H u. unfold hop_allowed in H. cbn [oltb o0 omul oofZ ROps] in H.
  fold u in H, Ha. unfold qc in *. cbn [oopp o2 omul oofZ ROps] in *.
  destruct (Rltb_spec 0 dE) as [HdE|HdE].
  - nra.
  - apply Rltb_true in H. lra.
Qed.

Lemma hop_energy_exact m v dir en st tg st' v' :
  Forall (fun mi => 0 < mi) m -> length v = length m -> length dir = length m ->
  0 < a_ m (unit_dir ROps dir) ->
  hop_to_it ROps m v st tg en dir = (st', v', true) ->
  st' = tg /\ kinetic ROps m v' + vget ROps en tg = kinetic ROps m v + vget ROps en st.
Proof.
  intros Hm Hv Hd Ha H. unfold hop_to_it in H.
  set (delV := osub ROps (vget ROps en tg) (vget ROps en st)) in *.
  destruct (hop_allowed ROps m v dir (oopp ROps delV)) eqn:Hal; [|discriminate].
  injection H as <- <-. split; [reflexivity|].
  pose proof (hop_allowed_disc m v dir _ Ha Hal) as HD. cbv zeta in HD.
  unfold rescale. set (u := unit_dir ROps dir) in *.
  set (a := a_ m u) in *. set (b := b_ v u) in *. set (c := qc ROps (oopp ROps delV)) in *.
  assert (Forall (fun mi => mi <> 0) m) as Hm0
    by (eapply Forall_impl; [|exact Hm]; intros; cbn in *; lra).
  rewrite kinetic_kick; [| exact Hv | unfold u; rewrite unit_dir_length; exact Hd | exact Hm0].
  fold a b.
  assert (- (b + (if Rltb b 0 then - sqrt (b * b - 4 * a * c) else sqrt (b * b - 4 * a * c))) / 2 <> 0) as Hq
    by (apply q_nonzero; [lra | left; lra]).
  pose proof (small_root_is_root a b c ltac:(lra) Hq) as Hr. cbv zeta in Hr.
  set (s := small_root ROps a b c) in *.
  assert (c = 2 * (vget ROps en tg - vget ROps en st)) as Hc by (unfold c, qc, delV, o2; cbn [oopp omul osub oofZ ROps]; lra).
  change (qc ROps (- delV)) with c. fold s.
  set (P := a * (s * s)) in *. set (Q := b * s) in *. lra.
Qed.

Lemma hop_rejected_identity m v dir en st tg st' v' :
  hop_to_it ROps m v st tg en dir = (st', v', false) -> st' = st /\ v' = v.
Proof.
  unfold hop_to_it. destruct (hop_allowed ROps m v dir _); intros H; [discriminate|].
  injection H as <- <-. split; reflexivity.
Qed.

Lemma hop_allowed_iff m v dir delV :
  0 < a_ m (unit_dir ROps dir) ->
  let u := unit_dir ROps dir in
  (delV < 0 -> hop_allowed ROps m v dir (- delV) = true) /\
  (0 < delV -> (hop_allowed ROps m v dir (- delV) = true <->
                delV < (vdot ROps v u * vdot ROps v u) / (2 * a_ m u))).
Proof.
  intros Ha u. unfold hop_allowed. cbn [oltb o0 omul oofZ ROps]. fold u. fold u in Ha.
  split.
  - intros H. destruct (Rltb_spec 0 (- delV)); [reflexivity | lra].
  - intros H. destruct (Rltb_spec 0 (- delV)); [lra|].
    unfold qb, qc. cbn [o2 oopp omul oofZ ROps]. set (d := vdot ROps v u). set (a := a_ m u) in *.
    rewrite Rltb_true. split; intros K.
    + apply Rmult_lt_reg_r with (2 * a); [lra|].
      replace (d * d / (2 * a) * (2 * a)) with (d * d) by (field; lra). nra.
    + apply Rmult_lt_compat_r with (r := 2 * a) in K; [|lra].
      replace (d * d / (2 * a) * (2 * a)) with (d * d) in K by (field; lra). nra.
Qed.

Lemma rescale_minimal m v dir reduction s' :
  let u := unit_dir ROps dir in
  let a := a_ m u in let b := b_ v u in let c := qc ROps reduction in
  0 < a -> 0 < b * b - 4 * a * c ->
  a * (s' * s') + b * s' + c = 0 ->
  Rabs (small_root ROps a b c) <= Rabs s'.
Proof.
  intros u a b c Ha HD Hs'.
  apply small_root_minimal; try lra; try exact Hs'.
  apply q_nonzero; [lra | left; lra].
Qed.

(* ---- velocity Verlet: exact time reversibility, any forces ---- *)
Lemma verlet_reverse_pos : forall (m x v f0 f1 : list R) (dt : R),
  length x = length m -> length v = length m -> length f0 = length m -> length f1 = length m ->
  Forall (fun mi => mi <> 0) m ->
  let x1 := advance_position ROps m x v f0 dt in
  let v1 := advance_velocity ROps m v f0 f1 dt in
  advance_position ROps m x1 (map Ropp v1) f1 dt = x.
Proof.
  intros m x v f0 f1 dt. unfold advance_position, advance_velocity, vdivv, vadd.
  cbn [ohalf o1 o2 odiv omul oadd oofZ ROps].
  revert x v f0 f1.
  induction m as [|mi m IH]; intros [|xi x] [|vi v] [|f0i f0] [|f1i f1] Hx Hv H0 H1 Hm;
    cbn [length] in *; try discriminate; [reflexivity|].
  inversion Hm as [|? ? Hmi Hm']; subst.
  cbn [vmap2 map]. f_equal.
  - field. exact Hmi.
  - apply (IH x v f0 f1); try lia. exact Hm'.
Qed.

Lemma verlet_reverse_vel : forall (m v f0 f1 : list R) (dt : R),
  length v = length m -> length f0 = length m -> length f1 = length m ->
  let v1 := advance_velocity ROps m v f0 f1 dt in
  advance_velocity ROps m (map Ropp v1) f1 f0 dt = map Ropp v.
Proof.
  intros m v f0 f1 dt. unfold advance_velocity, vdivv, vadd.
  cbn [ohalf o1 o2 odiv omul oadd oofZ ROps].
  revert v f0 f1.
  induction m as [|mi m IH]; intros [|vi v] [|f0i f0] [|f1i f1] Hv H0 H1;
    cbn [length] in *; try discriminate; [reflexivity|].
  cbn [vmap2 map]. f_equal.
  - unfold Rdiv. ring.
  - apply (IH v f0 f1); lia.
Qed.

(* one full Verlet step with a position-dependent force field *)
Definition verlet_step (m : list R) (F : list R -> list R) (dt : R) (s : list R * list R) : list R * list R :=
  let '(x, v) := s in
  let f0 := F x in
  let x1 := advance_position ROps m x v f0 dt in
  let f1 := F x1 in
  (x1, advance_velocity ROps m v f0 f1 dt).
Definition flip (s : list R * list R) : list R * list R := (fst s, map Ropp (snd s)).

Lemma verlet_step_reversible m F dt x v :
  length x = length m -> length v = length m -> (forall y, length (F y) = length m) ->
  Forall (fun mi => mi <> 0) m ->
  verlet_step m F dt (flip (verlet_step m F dt (x, v))) = flip (x, v).
Proof.
  intros Hx Hv HF Hm. unfold verlet_step, flip. cbn [fst snd].
  rewrite (verlet_reverse_pos m x v (F x) _ dt Hx Hv (HF _) (HF _) Hm).
  rewrite (verlet_reverse_vel m v (F x) _ dt Hv (HF _) (HF _)). reflexivity.
Qed.

Fixpoint iter {A} (n : nat) (f : A -> A) (s : A) : A :=
  match n with O => s | S n' => iter n' f (f s) end.

Lemma iter_snoc {A} n (f : A -> A) s : iter (S n) f s = f (iter n f s).
Proof. revert s. induction n as [|n IH]; intros s; [reflexivity|]. cbn in *. rewrite <- IH. reflexivity. Qed.

Lemma vmap2_length (g : R -> R -> R) a b : length a = length b -> length (vmap2 g a b) = length a.
Proof.
  revert b. induction a as [|? a IH]; intros [|? b] H; cbn in *; try discriminate; [reflexivity|].
  f_equal. apply IH. lia.
Qed.

Lemma advance_position_length m x v f dt :
  length x = length m -> length v = length m -> length f = length m ->
  length (advance_position ROps m x v f dt) = length m.
Proof.
  intros Hx Hv Hf. unfold advance_position, vdivv.
  assert (length (vmap2 (odiv ROps) f m) = length m) as L1 by (rewrite vmap2_length; lia).
  rewrite vmap2_length; [exact Hx|]. rewrite vmap2_length; lia.
Qed.

Lemma advance_velocity_length m v f0 f1 dt :
  length v = length m -> length f0 = length m -> length f1 = length m ->
  length (advance_velocity ROps m v f0 f1 dt) = length m.
Proof.
  intros Hv H0 H1. unfold advance_velocity, vdivv, vadd.
  assert (length (vmap2 (odiv ROps) f0 m) = length m) as L0 by (rewrite vmap2_length; lia).
  assert (length (vmap2 (odiv ROps) f1 m) = length m) as L1 by (rewrite vmap2_length; lia).
  rewrite vmap2_length; [exact Hv|]. rewrite map_length, vmap2_length; lia.
Qed.

Lemma verlet_lengths m F dt x v :
  length x = length m -> length v = length m -> (forall y, length (F y) = length m) ->
  let s := verlet_step m F dt (x, v) in length (fst s) = length m /\ length (snd s) = length m.
Proof.
  intros Hx Hv HF. cbn. split.
  - apply advance_position_length; auto.
  - apply advance_velocity_length; auto.
Qed.

Lemma iter_lengths m F dt n : forall x v,
  length x = length m -> length v = length m -> (forall y, length (F y) = length m) ->
  let s := iter n (verlet_step m F dt) (x, v) in length (fst s) = length m /\ length (snd s) = length m.
Proof.
  induction n as [|n IHn]; intros x v Hx Hv HF; [split; assumption|].
  cbn [iter]. destruct (verlet_step m F dt (x, v)) as [x1 v1] eqn:E.
  pose proof (verlet_lengths m F dt x v Hx Hv HF) as [A B]. rewrite E in A, B. apply IHn; assumption.
Qed.

Lemma verlet_n_reversible m F dt n : forall x v,
  length x = length m -> length v = length m -> (forall y, length (F y) = length m) ->
  Forall (fun mi => mi <> 0) m ->
  iter n (verlet_step m F dt) (flip (iter n (verlet_step m F dt) (x, v))) = flip (x, v).
Proof.
  induction n as [|n IH]; intros x v Hx Hv HF Hm; [reflexivity|].
  rewrite (iter_snoc n _ (x, v)).
  pose proof (iter_lengths m F dt n x v Hx Hv HF) as [L1 L2].
  destruct (iter n (verlet_step m F dt) (x, v)) as [xn vn] eqn:Esn. cbn [fst snd] in L1, L2.
  cbn [iter]. rewrite (verlet_step_reversible m F dt xn vn L1 L2 HF Hm).
  rewrite <- Esn. apply IH; assumption.
Qed.

(* ---- exact shadow energy of velocity Verlet on the 1-D harmonic oscillator ----
   E_dt(x,v) = m v^2/2 + k x^2/2 - (dt^2/8) (k^2/m) x^2 is conserved exactly, so the
   true energy oscillates within O(dt^2) of its initial value for all time. *)
Definition shadow (m k dt x v : R) : R := m * v * v / 2 + k * x * x / 2 - dt * dt / 8 * (k * k / m) * (x * x).

Lemma verlet_harmonic_shadow m k dt x v : m <> 0 ->
  let F := fun y : list R => map (fun yi => - k * yi) y in
  match verlet_step [m] F dt ([x], [v]) with
  | ([x1], [v1]) => shadow m k dt x1 v1 = shadow m k dt x v
  | _ => False
  end.
Proof.
  intros Hm F. cbn. unfold shadow. field. exact Hm.
Qed.

(* ---- 0 < a whenever the masses are positive and the direction is not the zero vector ---- *)
Lemma qa_pos_raw : forall (m d : list R), length d = length m -> Forall (fun mi => 0 < mi) m ->
  0 < vdot ROps d d -> 0 < a_ m d.
Proof.
  unfold qa, vdot, vmul. cbn [o1 odiv omul ROps].
  induction m as [|mi m IH]; intros [|di d] Hl Hm Hd; cbn [length] in Hl; try discriminate; cbn in Hd |- *; [lra|].
  inversion Hm as [|? ? Hmi Hm']; subst.
  assert (0 <= 1 / mi * di * di) as H1.
  { replace (1 / mi * di * di) with (di * di / mi) by (field; lra). apply Rmult_le_pos; [nra | left; apply Rinv_0_lt_compat; exact Hmi]. }
  pose proof (qa_nonneg m d Hm') as H2. unfold qa in H2. cbn [o1 odiv omul ROps] in H2.
  destruct (Req_dec di 0) as [->|Hne].
  - assert (0 < vsum ROps (vmap2 Rmult d d)) as Hd' by lra.
    specialize (IH d ltac:(lia) Hm' Hd'). cbn in IH. lra.
  - assert (0 < 1 / mi * di * di).
    { replace (1 / mi * di * di) with (di * di / mi) by (field; lra). apply Rdiv_lt_0_compat; [nra | exact Hmi]. }
    cbn in H2. lra.
Qed.

Lemma qa_scale (m d : list R) c : c <> 0 -> a_ m (map (fun x => x / c) d) = a_ m d / (c * c).
Proof.
  intros Hc. unfold qa. cbn [o1 odiv omul ROps]. revert d.
  induction m as [|mi m IH]; intros [|di d]; cbn; try (field; exact Hc).
  cbn in IH. rewrite IH. generalize (1 / mi). intros k. field. exact Hc.
Qed.

Lemma qa_pos m dir : length dir = length m -> Forall (fun mi => 0 < mi) m -> 0 < vdot ROps dir dir ->
  0 < a_ m (unit_dir ROps dir).
Proof.
  intros Hl Hm Hd. unfold unit_dir, vnorm. cbn [odiv osqrt ROps].
  assert (0 < sqrt (vdot ROps dir dir)) as Hs by (apply sqrt_lt_R0; exact Hd).
  rewrite qa_scale by lra. apply Rdiv_lt_0_compat; [apply qa_pos_raw; assumption | nra].
Qed.
