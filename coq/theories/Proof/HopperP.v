(* Proof/HopperP.v — lemmas about Model/Hopper.v on the real instance. *)
From Coq Require Import Reals ZArith List Lra Lia Bool.
From MV Require Import Ops RInst Vec Cplx Poisson Hopper SumR PoissonP.
Import ListNotations.
Open Scope R_scope.

Notation RC := (C (T:=R)).

(* ---- partition of [0, total) into slots ---- *)
Definition psum (ps : list R) (j : nat) : R := vsum ROps (firstn j ps).

Lemma psum_0 ps : psum ps 0 = 0. Proof. reflexivity. Qed.
Lemma psum_cons p t j : psum (p :: t) (S j) = p + psum t j. Proof. reflexivity. Qed.

Lemma psum_S ps j : (j < length ps)%nat -> psum ps (S j) = psum ps j + nth j ps 0.
Proof.
  revert j. induction ps as [|p t IH]; intros j Hj; cbn in Hj; [lia|].
  destruct j as [|j]; [cbn; lra|]. rewrite !psum_cons, IH by lia. cbn [nth]. lra.
Qed.

Lemma psum_mono ps j : Forall (fun p => 0 <= p) ps -> psum ps j <= psum ps (S j).
Proof.
  revert j. induction ps as [|p t IH]; intros j H; [destruct j; cbn; lra|].
  inversion H as [|? ? Hp Ht]; subst. destruct j as [|j].
  - rewrite psum_cons, !psum_0. lra.
  - rewrite !psum_cons. specialize (IH j Ht). lra.
Qed.

Lemma psum_all ps j : (length ps <= j)%nat -> psum ps j = vsum ROps ps.
Proof. intros H. unfold psum. rewrite firstn_all2 by exact H. reflexivity. Qed.

Lemma first_below_slot : forall ps zeta acc i n,
  Forall (fun p => 0 <= p) ps -> acc <= zeta ->
  (first_below ROps zeta acc ps i = Some n <->
   exists j, n = (i + j)%nat /\ (j < length ps)%nat /\ acc + psum ps j <= zeta < acc + psum ps (S j)).
Proof.
  induction ps as [|p t IH]; intros zeta acc i n Hps Hacc; cbn [first_below].
  - split; [discriminate | intros [j [_ [Hj _]]]; cbn in Hj; lia].
  - inversion Hps as [|? ? Hp Ht]; subst. cbn [oadd oltb ROps].
    destruct (Rltb_spec zeta (acc + p)) as [Hlt|Hge].
    + split.
      * intros H; injection H as <-. exists 0%nat. rewrite psum_cons, !psum_0. cbn [length].
        repeat split; try lia; lra.
      * intros [j [-> [Hj [Hlo Hhi]]]]. destruct j as [|j]; [f_equal; lia|].
        exfalso. rewrite psum_cons in Hlo.
        assert (0 <= psum t j).
        { clear -Ht. revert j. induction t as [|q t IH]; intros j; [destruct j; cbn; lra|].
          inversion Ht; subst. destruct j; [cbn; lra|]. rewrite psum_cons. specialize (IH H2 j). lra. }
        lra.
    + rewrite (IH zeta (acc + p) (S i) n Ht ltac:(lra)). split.
      * intros [j [-> [Hj [Hlo Hhi]]]]. exists (S j). rewrite !psum_cons. cbn [length].
        repeat split; try lia; lra.
      * intros [j [-> [Hj [Hlo Hhi]]]]. destruct j as [|j].
        -- exfalso. rewrite psum_cons, !psum_0 in *. lra.
        -- exists j. rewrite !psum_cons in *. cbn [length] in Hj. repeat split; try lia; lra.
Qed.

Lemma vsum_nonneg' (t : list R) : Forall (fun p => 0 <= p) t -> 0 <= vsum ROps t.
Proof. induction 1; cbn; lra. Qed.

Lemma first_below_none : forall ps zeta acc i,
  Forall (fun p => 0 <= p) ps -> acc <= zeta ->
  (first_below ROps zeta acc ps i = None <-> acc + vsum ROps ps <= zeta).
Proof.
  induction ps as [|p t IH]; intros zeta acc i Hps Hacc; cbn [first_below vsum].
  - cbn. split; [intros _; lra | reflexivity].
  - inversion Hps as [|? ? Hp Ht]; subst. cbn [oadd oltb ROps o0].
    pose proof (vsum_nonneg' t Ht).
    destruct (Rltb_spec zeta (acc + p)) as [Hlt|Hge].
    + split; [discriminate | intros; lra].
    + rewrite (IH zeta (acc + p) (S i) Ht ltac:(lra)). split; intros; lra.
Qed.

(* the slot theorem for hop_target *)
Lemma hop_target_slot ps zeta n : Forall (fun p => 0 <= p) ps -> 0 <= zeta ->
  (hop_target ROps ps zeta = Some n <->
   (n < length ps)%nat /\ psum ps n <= zeta < psum ps (S n)).
Proof.
  intros Hps Hz. unfold hop_target. cbn [o0 ROps].
  rewrite (first_below_slot ps zeta 0 0 n Hps Hz). split.
  - intros [j [-> [Hj H]]]. cbn [Nat.add]. split; [exact Hj | lra].
  - intros [Hn H]. exists n. repeat split; try lia; lra.
Qed.

Lemma hop_target_none ps zeta : Forall (fun p => 0 <= p) ps -> 0 <= zeta ->
  (hop_target ROps ps zeta = None <-> vsum ROps ps <= zeta).
Proof.
  intros Hps Hz. unfold hop_target. cbn [o0 ROps].
  rewrite (first_below_none ps zeta 0 0 Hps Hz). split; intros; lra.
Qed.

Lemma slot_length ps n : (n < length ps)%nat -> psum ps (S n) - psum ps n = nth n ps 0.
Proof. intros H. rewrite psum_S by exact H. lra. Qed.

Lemma hop_target_not_self ps zeta k : Forall (fun p => 0 <= p) ps -> 0 <= zeta ->
  nth k ps 0 = 0 -> hop_target ROps ps zeta <> Some k.
Proof.
  intros Hps Hz Hk H. apply hop_target_slot in H; try assumption.
  destruct H as [Hlen [Hlo Hhi]]. rewrite psum_S, Hk in Hhi by exact Hlen. lra.
Qed.

(* ---- g >= 0 and g_k = 0 ---- *)
Lemma clip0_nonneg x : 0 <= clip0 ROps x.
Proof. unfold clip0. cbn. destruct (Rltb_spec x 0); lra. Qed.

Lemma gkndt_nonneg rr wc k dt : Forall (fun p => 0 <= p) (gkndt ROps rr wc k dt).
Proof. unfold gkndt. apply Forall_forall. intros x Hx. apply in_map_iff in Hx. destruct Hx as [y [<- _]]. apply clip0_nonneg. Qed.

Lemma set_nth_same (l : list R) k x : (k < length l)%nat -> nth k (set_nth l k x) 0 = x.
Proof. revert k. induction l as [|h t IH]; intros [|k] H; cbn in *; try lia; [reflexivity | apply IH; lia]. Qed.
Lemma set_nth_length (l : list R) k x : length (set_nth l k x) = length l.
Proof. revert k. induction l as [|h t IH]; intros [|k]; cbn; try reflexivity. f_equal. apply IH. Qed.

Lemma gkndt_self_zero rr wc k dt : nth k (gkndt ROps rr wc k dt) 0 = 0.
Proof.
  unfold gkndt. set (l := map _ (flux ROps rr wc)).
  destruct (Nat.lt_ge_cases k (length l)) as [H|H].
  - rewrite (nth_indep _ 0 (clip0 ROps 0)) by (rewrite map_length, set_nth_length; exact H).
    rewrite map_nth, set_nth_same by exact H. unfold clip0; cbn. destruct (Rltb_spec 0 0); lra.
  - apply nth_overflow. rewrite map_length, set_nth_length. exact H.
Qed.

(* ---- flux: antisymmetry and row sum ---- *)
Lemma flux_conj_scalar (r w : RC) :
  cim (cmul ROps (cconj ROps r) (cconj ROps w)) = - cim (cmul ROps r w).
Proof. destruct r, w. cbn. ring. Qed.

Lemma flux_antisym (rr wc : list RC) :
  flux ROps (map (cconj ROps) rr) (map (cconj ROps) wc) = map Ropp (flux ROps rr wc).
Proof.
  revert wc. induction rr as [|r rr IH]; intros [|w wc]; cbn [flux map]; try reflexivity.
  rewrite IH, flux_conj_scalar. cbn [map]. f_equal. unfold o2; cbn [omul oofZ ROps]. ring.
Qed.

Fixpoint cdot (a b : list RC) : RC :=
  match a, b with x :: a', y :: b' => cadd ROps (cmul ROps x y) (cdot a' b') | _, _ => c0 ROps end.

Lemma flux_sum (rr wc : list RC) : vsum ROps (flux ROps rr wc) = 2 * cim (cdot rr wc).
Proof.
  revert wc. induction rr as [|r rr IH]; intros [|w wc]; cbn [flux vsum cdot]; try (cbn; lra).
  rewrite IH. destruct r, w. cbn. unfold cim. ring.
Qed.

(* d rho_kk/dt = (-i [W, rho])_kk = Re( -i ((W rho)_kk - (rho W)_kk) ), and for Hermitian
   rho, W: (W rho)_kk = sum_n conj(W_nk) conj(rho_kn) *)
Definition rhodot_kk (rr wc : list RC) : R :=
  cre (cmul ROps (0, -1) (csub ROps (cdot (map (cconj ROps) wc) (map (cconj ROps) rr)) (cdot rr wc))).

Lemma cdot_conj (a b : list RC) : cdot (map (cconj ROps) b) (map (cconj ROps) a) = cconj ROps (cdot a b).
Proof.
  revert b. induction a as [|x a IH]; intros [|y b]; cbn [cdot map].
  - unfold cconj, c0; cbn. f_equal; ring.
  - unfold cconj, c0; cbn. f_equal; ring.
  - unfold cconj, c0; cbn. f_equal; ring.
  - rewrite IH. destruct x, y, (cdot a b). unfold cconj, cadd, cmul; cbn. f_equal; ring.
Qed.

Lemma flux_row_sum (rr wc : list RC) : vsum ROps (flux ROps rr wc) = - rhodot_kk rr wc.
Proof.
  rewrite flux_sum. unfold rhodot_kk. rewrite cdot_conj. destruct (cdot rr wc) as [x y]. cbn. ring.
Qed.

(* ---- Poisson option ---- *)
Lemma vsum_map_scale (g : list R) s : vsum ROps (map (fun x => x * s) g) = vsum ROps g * s.
Proof. induction g as [|x g IH]; cbn in *; [lra | rewrite IH; lra]. Qed.

Lemma probs_poisson_total g : 1 / 1000 <= vsum ROps g ->
  vsum ROps (probs ROps true g) = 1 - exp (- vsum ROps g).
Proof.
  intros H. unfold probs. cbn [omul ROps]. rewrite vsum_map_scale.
  set (G := vsum ROps g) in *. rewrite pps_R.
  destruct (Rltb_spec (Rabs G) (1/1000)) as [Hs|_].
  - rewrite Rabs_pos_eq in Hs by lra. lra.
  - unfold PoissonP.g. field. lra.
Qed.

Lemma probs_poisson_total_small g : 0 < vsum ROps g < 1 / 1000 ->
  Rabs (vsum ROps (probs ROps true g) - (1 - exp (- vsum ROps g))) <= vsum ROps g * (1/100000000000000000).
Proof.
  intros H. unfold probs. cbn [omul ROps]. rewrite vsum_map_scale.
  set (G := vsum ROps g) in *. rewrite pps_R.
  destruct (Rltb_spec (Rabs G) (1/1000)) as [_|Hs].
  - assert (G * S4 G - (1 - exp (- G)) = h G) as -> by reflexivity.
    rewrite <- (Rabs_pos_eq G) at 2 by lra. apply h_small. rewrite Rabs_pos_eq; lra.
  - rewrite Rabs_pos_eq in Hs by lra. lra.
Qed.

Lemma probs_poisson_ratios g i j :
  nth i (probs ROps true g) 0 * nth j g 0 = nth j (probs ROps true g) 0 * nth i g 0.
Proof.
  unfold probs. cbn [omul ROps]. set (s := pps ROps (vsum ROps g)).
  assert (forall n, nth n (map (fun x => x * s) g) 0 = nth n g 0 * s) as E.
  { intros n. replace 0 with (0 * s) at 1 by lra. exact (map_nth (fun x => x * s) g 0 n). }
  rewrite !E. ring.
Qed.

Lemma probs_tully g : probs ROps false g = g. Proof. reflexivity. Qed.
