(* Proof/MDP.v — the assembled MD loop (Model/MD.v): it is the iterated Verlet map, so it is exactly reversible for any
   force field and any number of steps; on a harmonic surface it conserves a shadow energy exactly, which bounds the
   error of the logged total energy uniformly in the number of steps. *)
From Coq Require Import Reals List Lra Lia.
From MV Require Import Ops RInst Vec Hop HopP Models MD TrigP.
Import ListNotations.
Open Scope R_scope.

Definition xv (s : list R * list R * R) : list R * list R := fst s.
Definition tm (s : list R * list R * R) : R := snd s.

Lemma md_step_verlet F m dt s : xv (md_step ROps F m dt s) = verlet_step m F dt (xv s).
Proof. destruct s as [[x v] t]. reflexivity. Qed.
Lemma md_step_time F m dt s : tm (md_step ROps F m dt s) = tm s + dt.
Proof. destruct s as [[x v] t]. reflexivity. Qed.

Lemma md_run_verlet F m dt N : forall s, xv (md_run ROps F m dt N s) = iter N (verlet_step m F dt) (xv s).
Proof.
  induction N as [|N IH]; intros s; cbn [md_run iter]; [reflexivity|].
  rewrite IH, md_step_verlet. reflexivity.
Qed.
Lemma md_run_time F m dt N : forall s, tm (md_run ROps F m dt N s) = tm s + INR N * dt.
Proof.
  induction N as [|N IH]; intros s; [cbn; ring|].
  cbn [md_run]. rewrite IH, md_step_time, S_INR. ring.
Qed.
Lemma md_run_app F m dt N1 N2 : forall s, md_run ROps F m dt (N1 + N2) s = md_run ROps F m dt N2 (md_run ROps F m dt N1 s).
Proof. induction N1 as [|N1 IH]; intros s; cbn [md_run Nat.add]; [reflexivity | apply IH]. Qed.

(* N steps forward, momenta reversed, N steps: the start with reversed momenta; the clock has advanced by 2 N dt *)
Theorem md_run_reversible F m dt N x v t :
  length x = length m -> length v = length m -> (forall y, length (F y) = length m) -> Forall (fun mi => mi <> 0) m ->
  let s1 := md_run ROps F m dt N (x, v, t) in
  let s2 := md_run ROps F m dt N (fst (xv s1), map Ropp (snd (xv s1)), tm s1) in
  xv s2 = (x, map Ropp v) /\ tm s2 = t + 2 * INR N * dt.
Proof.
  intros Hx Hv HF Hm s1 s2. split.
  - unfold s2. rewrite md_run_verlet. unfold s1. cbn [xv fst]. 
    change (fst (md_run ROps F m dt N (x, v, t))) with (xv (md_run ROps F m dt N (x, v, t))).
    rewrite md_run_verlet. cbn [xv fst].
    exact (verlet_n_reversible m F dt N x v Hx Hv HF Hm).
  - unfold s2. rewrite md_run_time. cbn [tm snd]. unfold s1.
    change (snd (md_run ROps F m dt N (x, v, t))) with (tm (md_run ROps F m dt N (x, v, t))).
    rewrite md_run_time. cbn [tm snd]. ring.
Qed.

(* ---- one harmonic degree of freedom: V(x) = E0 + k (x-c)^2 / 2, mass mu ---- *)
Definition hE (E0 c k mu : R) (s : list R * list R * R) : R := md_energy ROps (harm_energy ROps [c] E0 [[k]]) [mu] s.
Definition hshadow (E0 c k mu dt : R) (x v : R) : R :=
  E0 + / 2 * mu * (v * v) + / 2 * k * ((x - c) * (x - c)) * (1 - k * (dt * dt) / (4 * mu)).

Lemma hE_val E0 c k mu x v t : hE E0 c k mu ([x], [v], t) = E0 + / 2 * k * ((x - c) * (x - c)) + / 2 * mu * (v * v).
Proof.
  unfold hE, md_energy, harm_energy, kinetic, matvec, vsub, vdot, vsum, vmap2. cbn. lra.
Qed.

Lemma harm_step_1d c k mu dt x v t : mu <> 0 ->
  md_harm_step ROps [c] [[k]] [mu] dt ([x], [v], t) =
    ([x + (v * dt + / 2 * (- (k * (x - c)) / mu) * dt * dt)],
     [v + / 2 * ((- (k * (x - c)) / mu) + (- (k * (x + (v * dt + / 2 * (- (k * (x - c)) / mu) * dt * dt) - c)) / mu)) * dt],
     t + dt).
Proof.
  intros Hmu. unfold md_harm_step, md_step, harm_force, advance_position, advance_velocity, matvec, vsub, vdot, vsum, vmap2, vdivv, vadd.
  cbn. f_equal. f_equal; (f_equal; field; exact Hmu).
Qed.

Lemma hshadow_step E0 c k mu dt x v t : mu <> 0 ->
  exists x1 v1, md_harm_step ROps [c] [[k]] [mu] dt ([x], [v], t) = ([x1], [v1], t + dt)
                /\ hshadow E0 c k mu dt x1 v1 = hshadow E0 c k mu dt x v.
Proof.
  intros Hmu. rewrite (harm_step_1d c k mu dt x v t Hmu). eexists; eexists; split; [reflexivity|].
  unfold hshadow. field. exact Hmu.
Qed.

(* the shadow energy is conserved exactly by any number of steps *)
Theorem hshadow_conserved E0 c k mu dt N : mu <> 0 -> forall x v t,
  exists xN vN, md_harm_run ROps [c] [[k]] [mu] dt N ([x], [v], t) = ([xN], [vN], t + INR N * dt)
                /\ hshadow E0 c k mu dt xN vN = hshadow E0 c k mu dt x v.
Proof.
  intros Hmu. induction N as [|N IH]; intros x v t.
  - exists x, v. split; [cbn; f_equal; ring | reflexivity].
  - destruct (hshadow_step E0 c k mu dt x v t Hmu) as (x1 & v1 & E1 & S1).
    destruct (IH x1 v1 (t + dt)) as (xN & vN & EN & SN).
    exists xN, vN. split.
    + unfold md_harm_run in *. cbn [md_run]. unfold md_harm_step in E1. rewrite E1, EN. rewrite S_INR. f_equal. ring.
    + rewrite SN. exact S1.
Qed.

(* logged total energy = shadow energy + (k^2 dt^2 / 8 mu) (x-c)^2 *)
Lemma energy_hshadow E0 c k mu dt x v t : mu <> 0 ->
  hE E0 c k mu ([x], [v], t) = hshadow E0 c k mu dt x v + k * (dt * dt) / (4 * mu) * (/ 2 * k * ((x - c) * (x - c))).
Proof. intros Hmu. rewrite hE_val. unfold hshadow. field. exact Hmu. Qed.

(* for a stable time step (k dt^2 < 4 mu) the error of the logged total energy after ANY number of steps is at most
   alpha/(1-alpha) times the initial energy above the minimum, alpha = k dt^2/(4 mu): second order in dt, uniformly in N *)
Theorem harmonic_energy_error_bounded E0 c k mu dt N x v t :
  0 < mu -> 0 < k -> k * (dt * dt) < 4 * mu ->
  let alpha := k * (dt * dt) / (4 * mu) in
  let s0 := ([x], [v], t) in
  let sN := md_harm_run ROps [c] [[k]] [mu] dt N s0 in
  Rabs (hE E0 c k mu sN - hE E0 c k mu s0) <= alpha / (1 - alpha) * (hE E0 c k mu s0 - E0).
Proof.
  intros Hmu Hk Hst alpha s0 sN.
  assert (mu <> 0) as Hmu0 by lra.
  assert (0 <= alpha) as Ha0.
  { unfold alpha. apply Rmult_le_pos; [apply Rmult_le_pos; [lra | apply Rle_0_sqr]|]. left. apply Rinv_0_lt_compat. lra. }
  assert (alpha < 1) as Ha1.
  { unfold alpha. apply (Rmult_lt_reg_r (4 * mu)); [lra|]. unfold Rdiv. rewrite Rmult_assoc, Rinv_l by lra. lra. }
  destruct (hshadow_conserved E0 c k mu dt N Hmu0 x v t) as (xN & vN & EN & SN).
  unfold sN, s0. rewrite EN.
  rewrite (energy_hshadow E0 c k mu dt xN vN _ Hmu0), (energy_hshadow E0 c k mu dt x v t Hmu0), SN.
  fold alpha.
  set (A := / 2 * k * ((xN - c) * (xN - c))). set (B := / 2 * k * ((x - c) * (x - c))).
  assert (0 <= A) as HA by (unfold A; apply Rmult_le_pos; [lra | apply Rle_0_sqr]).
  assert (0 <= B) as HB by (unfold B; apply Rmult_le_pos; [lra | apply Rle_0_sqr]).
  set (KN := / 2 * mu * (vN * vN)). set (K0 := / 2 * mu * (v * v)).
  assert (0 <= KN) as HKN by (unfold KN; apply Rmult_le_pos; [lra | apply Rle_0_sqr]).
  assert (0 <= K0) as HK0 by (unfold K0; apply Rmult_le_pos; [lra | apply Rle_0_sqr]).
  (* the conservation law in these variables *)
  assert (KN + A * (1 - alpha) = K0 + B * (1 - alpha)) as Hc.
  { unfold hshadow in SN. fold alpha in SN. unfold KN, A, K0, B. lra. }
  assert (hshadow E0 c k mu dt x v - E0 = K0 + B * (1 - alpha)) as Hs.
  { unfold hshadow. fold alpha. unfold K0, B. lra. }
  replace (hshadow E0 c k mu dt x v + alpha * A - (hshadow E0 c k mu dt x v + alpha * B)) with (alpha * (A - B)) by ring.
  replace (hshadow E0 c k mu dt x v + alpha * B - E0) with (K0 + B) by (rewrite <- (Rplus_0_r (K0 + B)); lra).
  assert (0 <= alpha * A) as HaA by (apply Rmult_le_pos; assumption).
  assert (0 <= alpha * B) as HaB by (apply Rmult_le_pos; assumption).
  assert ((1 - alpha) * Rabs (alpha * (A - B)) <= alpha * (K0 + B)) as Hmain.
  { rewrite Rabs_mult, (Rabs_pos_eq alpha Ha0).
    assert ((1 - alpha) * Rabs (A - B) <= K0 + B) as H1.
    { unfold Rabs. destruct (Rcase_abs (A - B)); nra. }
    nra. }
  apply (Rmult_le_reg_l (1 - alpha)); [lra|].
  replace ((1 - alpha) * (alpha / (1 - alpha) * (K0 + B))) with (alpha * (K0 + B)) by (field; lra).
  exact Hmain.
Qed.

(* the premises can be met and the bound is not vacuous: k = mu = 1, dt = 1/2: alpha = 1/16, bound 1/15 of the initial excess energy *)
Example harmonic_bound_instance : forall N,
  Rabs (hE 0 0 1 1 (md_harm_run ROps [0] [[1]] [1] (/ 2) N ([1], [0], 0)) - hE 0 0 1 1 ([1], [0], 0)) <= / 15 * / 2.
Proof.
  intros N. pose proof (harmonic_energy_error_bounded 0 0 1 1 (/ 2) N 1 0 0 ltac:(lra) ltac:(lra) ltac:(lra)) as H.
  cbv zeta in H. rewrite hE_val in H. rewrite hE_val.
  eapply Rle_trans; [exact H|]. right. field.
Qed.

(* ---- one pass against the exact flow: local error of third order ---- *)
Lemma Rabs_lin2 a b p q A B : Rabs p <= A -> Rabs q <= B -> Rabs (a * p + b * q) <= Rabs a * A + Rabs b * B.
Proof.
  intros Hp Hq. eapply Rle_trans; [apply Rabs_triang|]. rewrite !Rabs_mult.
  apply Rplus_le_compat; apply Rmult_le_compat_l; try apply Rabs_pos; assumption.
Qed.

Theorem harmonic_step_local_error c mu w dt x v t :
  0 < mu -> 0 < w -> 0 <= w * dt <= 1 ->
  let th := w * dt in
  exists x1 v1, md_harm_step ROps [c] [[mu * (w * w)]] [mu] dt ([x], [v], t) = ([x1], [v1], t + dt)
    /\ Rabs (x1 - (c + (x - c) * cos th + v / w * sin th)) <= Rabs (x - c) * (th ^ 4 / 24) + Rabs (v / w) * (th ^ 3 / 6)
    /\ Rabs (v1 - (v * cos th - w * (x - c) * sin th)) <= Rabs v * (th ^ 4 / 24) + Rabs (w * (x - c)) * (th ^ 3 / 4).
Proof.
  intros Hmu Hw Hth th.
  assert (mu <> 0) as Hmu0 by (intro; lra). assert (w <> 0) as Hw0 by (intro; lra).
  rewrite (harm_step_1d c (mu * (w * w)) mu dt x v t Hmu0).
  eexists; eexists; split; [reflexivity|].
  assert (dt = th / w) as Edt by (unfold th; field; exact Hw0).
  assert (0 <= th <= 1) as Hth' by (unfold th; lra). clearbody th.
  destruct (sin_bounds th Hth') as [SL SU]. destruct (cos_bounds th Hth') as [CL CU].
  assert (0 <= th ^ 3) as H3 by (apply pow_le; lra).
  assert (0 <= th ^ 4) as H4 by (apply pow_le; lra).
  set (Cs := cos th) in *. set (Sn := sin th) in *. set (u := x - c).
  split.
  - match goal with |- Rabs ?e <= _ =>
      replace e with (u * (1 - th ^ 2 / 2 - Cs) + v / w * (th - Sn)) by (unfold u; rewrite Edt; field; split; assumption) end.
    apply Rabs_lin2; apply Rabs_le; lra.
  - match goal with |- Rabs ?e <= _ =>
      replace e with (v * (1 - th ^ 2 / 2 - Cs) + w * u * (Sn - (th - th ^ 3 / 4))) by (unfold u; rewrite Edt; field; split; assumption) end.
    apply Rabs_lin2; apply Rabs_le; lra.
Qed.
