(* Proof/MatP.v — algebra of function-matrices over the complex numbers (real instance):
   sums, products, adjoint, trace, identity; and the link to the list-level matrices. *)
From Coq Require Import Reals Ring Lra Lia List Arith Bool.
From MV Require Import Ops RInst Vec Cplx Mat CRing SumR.
Import ListNotations.
Open Scope R_scope.

Notation FM := (fmat (T:=R)).
Notation csum := (csumf ROps).
Notation "A ** B" := (fmul ROps _ A B) (at level 40, left associativity, only printing).

Local Open Scope C_scope.

(* ---- finite sums ---- *)
Lemma csum_ext n (f g : nat -> RC) : (forall k, (k < n)%nat -> f k = g k) -> csum n f = csum n g.
Proof. induction n as [|n IH]; intros H; cbn; [reflexivity|]. rewrite IH, H by (intros; try apply H; lia). reflexivity. Qed.

Lemma csum_add n (f g : nat -> RC) : csum n (fun k => f k + g k) = csum n f + csum n g.
Proof. induction n as [|n IH]; cbn; [ring | rewrite IH; ring]. Qed.
Lemma csum_sub n (f g : nat -> RC) : csum n (fun k => f k - g k) = csum n f - csum n g.
Proof. induction n as [|n IH]; cbn; [ring | rewrite IH; ring]. Qed.
Lemma csum_scale_l n c (f : nat -> RC) : csum n (fun k => c * f k) = c * csum n f.
Proof. induction n as [|n IH]; cbn; [ring | rewrite IH; ring]. Qed.
Lemma csum_scale_r n c (f : nat -> RC) : csum n (fun k => f k * c) = csum n f * c.
Proof. induction n as [|n IH]; cbn; [ring | rewrite IH; ring]. Qed.
Lemma csum_zero n : csum n (fun _ => 0) = 0.
Proof. induction n as [|n IH]; cbn; [reflexivity | rewrite IH; ring]. Qed.
Lemma csum_conj n (f : nat -> RC) : (csum n f)^* = csum n (fun k => (f k)^*).
Proof. induction n as [|n IH]; cbn [csumf]; [apply cconj_0 | rewrite cconj_add, IH; reflexivity]. Qed.

Lemma csum_swap n m (f : nat -> nat -> RC) :
  csum n (fun i => csum m (fun j => f i j)) = csum m (fun j => csum n (fun i => f i j)).
Proof.
  induction n as [|n IH]; cbn [csumf].
  - rewrite csum_zero. reflexivity.
  - rewrite IH, <- csum_add. reflexivity.
Qed.

(* Kronecker delta *)
Lemma csum_delta_l n j (f : nat -> RC) : (j < n)%nat ->
  csum n (fun k => (if Nat.eqb j k then 1 else 0) * f k) = f j.
Proof.
  induction n as [|n IH]; intros H; [lia|]. cbn [csumf].
  destruct (Nat.eq_dec j n) as [->|Hne].
  - rewrite Nat.eqb_refl. rewrite (csum_ext n _ (fun _ => 0)).
    + rewrite csum_zero. ring.
    + intros k Hk. replace (n =? k)%nat with false by (symmetry; apply Nat.eqb_neq; lia). ring.
  - rewrite IH by lia. replace (j =? n)%nat with false by (symmetry; apply Nat.eqb_neq; lia). ring.
Qed.
Lemma csum_delta_r n j (f : nat -> RC) : (j < n)%nat ->
  csum n (fun k => f k * (if Nat.eqb k j then 1 else 0)) = f j.
Proof.
  intros H. rewrite <- (csum_delta_l n j f H). apply csum_ext. intros k _.
  rewrite (Nat.eqb_sym k j). ring.
Qed.

(* ---- matrices: equality on the n x n block ---- *)
Definition meq (n : nat) (A B : FM) : Prop := forall i j, (i < n)%nat -> (j < n)%nat -> A i j = B i j.

Lemma meq_refl n A : meq n A A. Proof. intros i j _ _. reflexivity. Qed.
Lemma meq_sym n A B : meq n A B -> meq n B A. Proof. intros H i j Hi Hj. symmetry. apply H; assumption. Qed.
Lemma meq_trans n A B C0 : meq n A B -> meq n B C0 -> meq n A C0.
Proof. intros H1 H2 i j Hi Hj. rewrite H1, H2 by assumption. reflexivity. Qed.

Lemma fmul_ext n A A' B B' : meq n A A' -> meq n B B' -> meq n (fmul ROps n A B) (fmul ROps n A' B').
Proof.
  intros HA HB i j Hi Hj. unfold fmul. apply csum_ext. intros k Hk. rewrite HA, HB by assumption. reflexivity.
Qed.
Lemma fadj_ext n A A' : meq n A A' -> meq n (fadj ROps A) (fadj ROps A').
Proof. intros H i j Hi Hj. unfold fadj. rewrite H by assumption. reflexivity. Qed.
Lemma fadd_ext n A A' B B' : meq n A A' -> meq n B B' -> meq n (fadd ROps A B) (fadd ROps A' B').
Proof. intros HA HB i j Hi Hj. unfold fadd. rewrite HA, HB by assumption. reflexivity. Qed.
Lemma fsub_ext n A A' B B' : meq n A A' -> meq n B B' -> meq n (fsub ROps A B) (fsub ROps A' B').
Proof. intros HA HB i j Hi Hj. unfold fsub. rewrite HA, HB by assumption. reflexivity. Qed.
Lemma fscale_ext n c A A' : meq n A A' -> meq n (fscale ROps c A) (fscale ROps c A').
Proof. intros H i j Hi Hj. unfold fscale. rewrite H by assumption. reflexivity. Qed.
Lemma fhad_ext n A A' B B' : meq n A A' -> meq n B B' -> meq n (fhad ROps A B) (fhad ROps A' B').
Proof. intros HA HB i j Hi Hj. unfold fhad. rewrite HA, HB by assumption. reflexivity. Qed.
Lemma ftrace_ext n A A' : meq n A A' -> ftrace ROps n A = ftrace ROps n A'.
Proof. intros H. unfold ftrace. apply csum_ext. intros k Hk. apply H; assumption. Qed.

Lemma fmul_assoc n A B C0 : meq n (fmul ROps n (fmul ROps n A B) C0) (fmul ROps n A (fmul ROps n B C0)).
Proof.
  intros i j _ _. unfold fmul.
  rewrite (csum_ext n _ (fun k => csum n (fun l => A i l * B l k * C0 k j))) by (intros; rewrite csum_scale_r; reflexivity).
  rewrite csum_swap. apply csum_ext. intros l _.
  rewrite <- csum_scale_l. apply csum_ext. intros k _. ring.
Qed.

Lemma fmul_id_l n A : meq n (fmul ROps n (fid ROps) A) A.
Proof. intros i j Hi Hj. unfold fmul, fid. apply (csum_delta_l n i (fun k => A k j) Hi). Qed.
Lemma fmul_id_r n A : meq n (fmul ROps n A (fid ROps)) A.
Proof. intros i j Hi Hj. unfold fmul, fid. apply (csum_delta_r n j (fun k => A i k) Hj). Qed.

Lemma fadj_mul n A B : meq n (fadj ROps (fmul ROps n A B)) (fmul ROps n (fadj ROps B) (fadj ROps A)).
Proof.
  intros i j _ _. unfold fadj, fmul. rewrite csum_conj. apply csum_ext. intros k _. rewrite cconj_mul. ring.
Qed.
Lemma fadj_invol n A : meq n (fadj ROps (fadj ROps A)) A.
Proof. intros i j _ _. unfold fadj. apply cconj_invol. Qed.
Lemma fadj_id n : meq n (fadj ROps (fid ROps)) (fid ROps).
Proof. intros i j _ _. unfold fadj, fid. rewrite (Nat.eqb_sym j i). destruct (i =? j)%nat; [apply cconj_1 | apply cconj_0]. Qed.

Lemma ftrace_cyclic n A B : ftrace ROps n (fmul ROps n A B) = ftrace ROps n (fmul ROps n B A).
Proof.
  unfold ftrace, fmul. rewrite csum_swap. apply csum_ext. intros k _. apply csum_ext. intros i _. ring.
Qed.
Lemma ftrace_add n A B : ftrace ROps n (fadd ROps A B) = ftrace ROps n A + ftrace ROps n B.
Proof. unfold ftrace, fadd. apply csum_add. Qed.
Lemma ftrace_scale n c A : ftrace ROps n (fscale ROps c A) = c * ftrace ROps n A.
Proof. unfold ftrace, fscale. apply csum_scale_l. Qed.
Lemma ftrace_adj n A : ftrace ROps n (fadj ROps A) = (ftrace ROps n A)^*.
Proof. unfold ftrace, fadj. rewrite csum_conj. reflexivity. Qed.

Definition herm (n : nat) (A : FM) : Prop := meq n (fadj ROps A) A.
Definition unitary (n : nat) (U : FM) : Prop :=
  meq n (fmul ROps n (fadj ROps U) U) (fid ROps) /\ meq n (fmul ROps n U (fadj ROps U)) (fid ROps).

(* ---- link with the list-level matrices ---- *)
Lemma mget_mmk n m (f : FM) : forall i j, (i < n)%nat -> (j < m)%nat -> mget ROps (mmk n m f) i j = f i j.
Proof.
  intros i j Hi Hj. unfold mget, mmk.
  rewrite (nth_tabulate n _ i [] Hi), (nth_tabulate m _ j _ Hj). reflexivity.
Qed.
Lemma mmk_spec n f : meq n (mget ROps (mmk n n f)) f.
Proof. intros i j Hi Hj. apply mget_mmk; assumption. Qed.
Lemma mmul_spec n A B : meq n (mget ROps (mmul ROps n A B)) (fmul ROps n (mget ROps A) (mget ROps B)).
Proof. apply mmk_spec. Qed.
Lemma madj_spec n A : meq n (mget ROps (madj ROps n A)) (fadj ROps (mget ROps A)).
Proof. apply mmk_spec. Qed.
Lemma madd_spec n A B : meq n (mget ROps (madd ROps n A B)) (fadd ROps (mget ROps A) (mget ROps B)).
Proof. apply mmk_spec. Qed.
Lemma msub_spec n A B : meq n (mget ROps (msub ROps n A B)) (fsub ROps (mget ROps A) (mget ROps B)).
Proof. apply mmk_spec. Qed.
Lemma mscale_spec n c A : meq n (mget ROps (mscale ROps n c A)) (fscale ROps c (mget ROps A)).
Proof. apply mmk_spec. Qed.
Lemma mhad_spec n A B : meq n (mget ROps (mhad ROps n A B)) (fhad ROps (mget ROps A) (mget ROps B)).
Proof. apply mmk_spec. Qed.
Lemma mdiag_spec n d : meq n (mget ROps (mdiag ROps n d)) (fdiag ROps (fun i => nth i d (c0 ROps))).
Proof. apply mmk_spec. Qed.
