(* Proof/ModelsP.v — dV is the derivative of V, entry by entry, for the built-in diabatic
   models (real instance; Coquelicot's is_derive).  Kinks (simple, extended at x = 0) are
   excluded by x <> 0. *)
From Coq Require Import Reals ZArith List Lra Lia.
From Coquelicot Require Import Coquelicot.
From MV Require Import Ops RInst Vec Electronics Models SumR.
Import ListNotations.
Open Scope R_scope.

Definition ent (M : list (list R)) (i j : nat) : R := nth j (nth i M []) 0.

(* V : R -> matrix is differentiable at x with derivative matrix dV, entry by entry *)
Definition deriv_mat (n : nat) (V : R -> list (list R)) (dV : list (list R)) (x : R) : Prop :=
  forall i j, (i < n)%nat -> (j < n)%nat -> is_derive (fun y => ent (V y) i j) x (ent dV i j).

Ltac exp_sq :=
  repeat match goal with
         | |- context [exp (2 * ?t)] =>
             replace (exp (2 * t)) with (exp t * exp t) by (rewrite <- exp_plus; f_equal; ring)
         end.
Ltac exp_abs :=
  repeat match goal with
         | |- context [exp ?t] =>
             let u := fresh "u" in let Hu := fresh "Hu" in
             pose proof (exp_pos t) as Hu; set (u := exp t) in *; clearbody u
         end.
Ltac side := try (exp_sq; exp_abs; nra).
Ltac fin := exp_sq; exp_abs; try (field; repeat split; nra); try nra.

Ltac entries2 := intros i j Hi Hj; destruct i as [|[|i]]; try lia; destruct j as [|[|j]]; try lia; unfold ent; cbn [nth].
Ltac entries3 := intros i j Hi Hj; destruct i as [|[|[|i]]]; try lia; destruct j as [|[|[|j]]]; try lia; unfold ent; cbn [nth].

Lemma dual_deriv A B Cc D E0 x : deriv_mat 2 (dual_V ROps A B Cc D E0) (dual_dV ROps A B Cc D E0 x) x.
Proof.
  unfold dual_V, dual_dV, oexpn. entries2; cbn; auto_derive; try exact I; try ring.
Qed.

Lemma super_deriv v11 v22 v33 c12 c23 x : deriv_mat 3 (super_V ROps v11 v22 v33 c12 c23) (super_dV ROps v11 v22 v33 c12 c23 x) x.
Proof.
  unfold super_V, super_dV, oexpn. entries3; cbn; auto_derive; try exact I; try field.
Qed.

Lemma locally_pos x : 0 < x -> locally x (fun y => 0 < y).
Proof.
  intros Hx. exists (mkposreal x Hx). intros y Hy. unfold ball in Hy; cbn in Hy.
  unfold AbsRing_ball, abs, minus, plus, opp in Hy; cbn in Hy. apply Rabs_def2 in Hy. lra.
Qed.
Lemma locally_neg x : x < 0 -> locally x (fun y => y < 0).
Proof.
  intros Hx. assert (0 < - x) as Hx' by lra. exists (mkposreal (- x) Hx'). intros y Hy. unfold ball in Hy; cbn in Hy.
  unfold AbsRing_ball, abs, minus, plus, opp in Hy; cbn in Hy. apply Rabs_def2 in Hy. lra.
Qed.

Lemma deriv_sign_split (f gp gn : R -> R) x l : x <> 0 ->
  (forall y, 0 < y -> f y = gp y) -> (forall y, y < 0 -> f y = gn y) ->
  (0 < x -> is_derive gp x l) -> (x < 0 -> is_derive gn x l) -> is_derive f x l.
Proof.
  intros Hx Hp Hn Dp Dn. destruct (Rdichotomy x 0 Hx) as [Hneg|Hpos].
  - apply (is_derive_ext_loc gn f x l); [|apply Dn; exact Hneg].
    apply (filter_imp (fun y => y < 0)); [intros y Hy; symmetry; apply Hn; exact Hy | apply locally_neg; exact Hneg].
  - apply (is_derive_ext_loc gp f x l); [|apply Dp; exact Hpos].
    apply (filter_imp (fun y => 0 < y)); [intros y Hy; symmetry; apply Hp; exact Hy | apply locally_pos; exact Hpos].
Qed.

Lemma simple_deriv A B Cc D x : x <> 0 -> deriv_mat 2 (simple_V ROps A B Cc D) (simple_dV ROps A B Cc D x) x.
Proof.
  intros Hx. unfold simple_V, simple_dV, oexpn. entries2; cbn [oabs oltb omul oopp osub oexp o1 o2 o0 oofZ ROps].
  - apply (deriv_sign_split _ (fun y => A * (1 - exp (- (B * y)))) (fun y => - A * (1 - exp (- (B * - y)))) x _ Hx).
    + intros y Hy. destruct (Rltb_spec y 0); [lra|]. rewrite Rabs_pos_eq by lra. reflexivity.
    + intros y Hy. destruct (Rltb_spec y 0); [|lra]. rewrite Rabs_left by lra. reflexivity.
    + intros Hp. rewrite Rabs_pos_eq by lra. auto_derive; [exact I | ring].
    + intros Hn. rewrite Rabs_left by lra. auto_derive; [exact I | ring].
  - auto_derive; [exact I | ring].
  - auto_derive; [exact I | ring].
  - apply (deriv_sign_split _ (fun y => - (A * (1 - exp (- (B * y))))) (fun y => - (- A * (1 - exp (- (B * - y))))) x _ Hx).
    + intros y Hy. destruct (Rltb_spec y 0); [lra|]. rewrite Rabs_pos_eq by lra. reflexivity.
    + intros y Hy. destruct (Rltb_spec y 0); [|lra]. rewrite Rabs_left by lra. reflexivity.
    + intros Hp. rewrite Rabs_pos_eq by lra. auto_derive; [exact I | ring].
    + intros Hn. rewrite Rabs_left by lra. auto_derive; [exact I | ring].
Qed.

Lemma extended_deriv A B Cc x : x <> 0 -> deriv_mat 2 (extended_V ROps A B Cc) (extended_dV ROps A B Cc x) x.
Proof.
  intros Hx. unfold extended_V, extended_dV, oexpn. entries2; cbn [oabs oltb omul oopp osub oexp o1 o2 o0 oofZ ROps].
  - auto_derive; [exact I | ring].
  - apply (deriv_sign_split _ (fun y => B * (2 - exp (- (y * Cc)))) (fun y => B * exp (- (- y * Cc))) x _ Hx).
    + intros y Hy. destruct (Rltb_spec y 0); [lra|]. rewrite Rabs_pos_eq by lra. reflexivity.
    + intros y Hy. destruct (Rltb_spec y 0); [|lra]. rewrite Rabs_left by lra. reflexivity.
    + intros Hp. rewrite Rabs_pos_eq by lra. auto_derive; [exact I|]. replace (- (x * Cc)) with (- (Cc * x)) by ring. ring.
    + intros Hn. rewrite Rabs_left by lra. auto_derive; [exact I|]. replace (- (- x * Cc)) with (- (Cc * - x)) by ring. ring.
  - apply (deriv_sign_split _ (fun y => B * (2 - exp (- (y * Cc)))) (fun y => B * exp (- (- y * Cc))) x _ Hx).
    + intros y Hy. destruct (Rltb_spec y 0); [lra|]. rewrite Rabs_pos_eq by lra. reflexivity.
    + intros y Hy. destruct (Rltb_spec y 0); [|lra]. rewrite Rabs_left by lra. reflexivity.
    + intros Hp. rewrite Rabs_pos_eq by lra. auto_derive; [exact I|]. replace (- (x * Cc)) with (- (Cc * x)) by ring. ring.
    + intros Hn. rewrite Rabs_left by lra. auto_derive; [exact I|]. replace (- (- x * Cc)) with (- (Cc * - x)) by ring. ring.
  - auto_derive; [exact I | ring].
Qed.


(* ---- tanh / sech^2 building blocks ---- *)
Lemma tn_deriv a b c x : is_derive (fun y => tn ROps a b (y + c)) x (dtn ROps a b (x + c)).
Proof.
  unfold tn, dtn, sech2, otanh, ocosh, oexpn. cbn.
  auto_derive.
  - exp_sq. exp_abs. nra.
  - exp_sq. exp_abs. field. split; nra.
Qed.
Lemma tn_deriv0 a b x : is_derive (fun y => tn ROps a b y) x (dtn ROps a b x).
Proof.
  apply (is_derive_ext (fun y => tn ROps a b (y + 0))); [intros t; f_equal; ring|].
  replace x with (x + 0) at 2 by ring. apply tn_deriv.
Qed.
Lemma tn_deriv_m a b c x : is_derive (fun y => tn ROps a b (y - c)) x (dtn ROps a b (x - c)).
Proof. exact (tn_deriv a b (- c) x). Qed.
Lemma ex_deriv c k x : is_derive (fun y => ex ROps c (y + k)) x (dex ROps c (x + k)).
Proof. unfold ex, dex, oexpn. cbn. auto_derive; [exact I | ring]. Qed.
Lemma ex_deriv0 c x : is_derive (fun y => ex ROps c y) x (dex ROps c x).
Proof.
  apply (is_derive_ext (fun y => ex ROps c (y + 0))); [intros t; f_equal; ring|].
  replace x with (x + 0) at 2 by ring. apply ex_deriv.
Qed.
Lemma ex_deriv_m c k x : is_derive (fun y => ex ROps c (y - k)) x (dex ROps c (x - k)).
Proof. exact (ex_deriv c (- k) x). Qed.

Lemma d_plus (f g : R -> R) x df dg : is_derive f x df -> is_derive g x dg -> is_derive (fun y => f y + g y) x (df + dg).
Proof. intros Hf Hg. exact (is_derive_plus f g x df dg Hf Hg). Qed.
Lemma d_minus (f g : R -> R) x df dg : is_derive f x df -> is_derive g x dg -> is_derive (fun y => f y - g y) x (df - dg).
Proof. intros Hf Hg. exact (is_derive_minus f g x df dg Hf Hg). Qed.
Lemma d_opp (f : R -> R) x df : is_derive f x df -> is_derive (fun y => - f y) x (- df).
Proof. intros Hf. exact (is_derive_opp f x df Hf). Qed.

Lemma modelx_deriv a b c xp x : deriv_mat 3 (modelx_V ROps a b c xp) (modelx_dV ROps a b c xp x) x.
Proof.
  unfold modelx_V, modelx_dV. entries3; cbn [oadd osub oopp ROps].
  - apply d_plus; [apply tn_deriv0 | apply tn_deriv].
  - apply ex_deriv0.
  - apply ex_deriv.
  - apply ex_deriv0.
  - apply d_opp, d_plus; [apply tn_deriv_m | apply tn_deriv0].
  - apply ex_deriv_m.
  - apply ex_deriv.
  - apply ex_deriv_m.
  - apply d_opp, d_minus; [apply tn_deriv | apply tn_deriv_m].
Qed.

Lemma tanh_scaled_deriv k d x :
  is_derive (fun y => k * otanh ROps (d * y)) x (k * d * sech2 ROps (d * x)).
Proof.
  unfold sech2, otanh, ocosh. cbn. auto_derive.
  - exp_sq. exp_abs. nra.
  - exp_sq. exp_abs. field. split; nra.
Qed.

Lemma models_deriv a b c d xp x : deriv_mat 3 (models_V ROps a b c d xp) (models_dV ROps a b c d xp x) x.
Proof.
  unfold models_V, models_dV. entries3; cbn [oadd osub oopp omul o2 oofZ ROps].
  - replace (dtn ROps a b (x - xp) - dtn ROps a b (x + xp)) with (dtn ROps a b (x - xp) - dtn ROps a b (x + xp) + 0) by ring.
    apply d_plus; [apply d_minus; [apply tn_deriv_m | apply tn_deriv] | apply @is_derive_const].
  - apply d_plus; [apply ex_deriv | apply ex_deriv_m].
  - apply ex_deriv0.
  - apply d_plus; [apply ex_deriv | apply ex_deriv_m].
  - replace (- (dtn ROps a b (x - xp) - dtn ROps a b (x + xp))) with (- (dtn ROps a b (x - xp) - dtn ROps a b (x + xp)) - 0) by ring.
    apply d_minus; [apply d_opp, d_minus; [apply tn_deriv_m | apply tn_deriv] | apply @is_derive_const].
  - apply ex_deriv0.
  - apply ex_deriv0.
  - apply ex_deriv0.
  - apply tanh_scaled_deriv.
Qed.


(* ---- Subotnik2D: both partial derivatives ---- *)
Lemma tanh_affine_deriv k al be x :
  is_derive (fun t => k * otanh ROps (al * t + be)) x (k * al * sech2 ROps (al * x + be)).
Proof.
  unfold sech2, otanh, ocosh. cbn. auto_derive.
  - exp_sq. exp_abs. nra.
  - exp_sq. exp_abs. field. split; nra.
Qed.

Lemma tanh_comp_deriv k (u : R -> R) du x : is_derive u x du ->
  is_derive (fun t => k * otanh ROps (u t)) x (k * du * sech2 ROps (u x)).
Proof.
  intros Hu.
  pose proof (tanh_affine_deriv k 1 0 (u x)) as Ht.
  apply (is_derive_ext (fun t => (fun s => k * otanh ROps (1 * s + 0)) (u t))).
  - intros t. cbn beta. f_equal. f_equal. ring.
  - replace (k * du * sech2 ROps (u x)) with (scal du (k * 1 * sech2 ROps (1 * u x + 0))).
    + apply (is_derive_comp (fun s => k * otanh ROps (1 * s + 0)) u x _ du Ht Hu).
    + unfold scal; cbn; unfold mult; cbn. replace (1 * u x + 0) with (u x) by ring. ring.
Qed.

Lemma d_plus_const (f : R -> R) x df c : is_derive f x df -> is_derive (fun y => f y + c) x df.
Proof.
  intros Hf. replace df with (df + 0) by ring. apply d_plus; [exact Hf | apply @is_derive_const].
Qed.

Lemma sub2d_deriv_x a b c d f g w hp x y :
  deriv_mat 2 (fun t => sub2d_V ROps a b c d f g w hp t y) (nth 0 (sub2d_dV ROps a b c d f g w hp x y) []) x.
Proof.
  unfold sub2d_V, sub2d_dV. entries2.
  - cbn [omul oopp ROps]. apply (tanh_scaled_deriv (- f) b x).
  - unfold oexpn. cbn. auto_derive; [exact I | ring].
  - unfold oexpn. cbn. auto_derive; [exact I | ring].
  - cbn [oadd omul odiv oofZ ROps]. apply d_plus_const.
    apply (tanh_comp_deriv a (fun t => sub2d_z ROps b g w hp t y) b x).
    unfold sub2d_z. cbn. auto_derive; [exact I | ring].
Qed.

Lemma sub2d_deriv_y a b c d f g w hp x y :
  deriv_mat 2 (fun t => sub2d_V ROps a b c d f g w hp x t) (nth 1 (sub2d_dV ROps a b c d f g w hp x y) []) y.
Proof.
  unfold sub2d_V, sub2d_dV. entries2.
  - cbn [o0 ROps]. apply @is_derive_const.
  - cbn [o0 ROps]. apply @is_derive_const.
  - cbn [o0 ROps]. apply @is_derive_const.
  - cbn [oadd omul odiv oofZ oopp osin ROps]. apply d_plus_const.
    apply (tanh_comp_deriv a (fun t => sub2d_z ROps b g w hp x t) (- w * g * sin (g * y + hp)) y).
    unfold sub2d_z. cbn. auto_derive; [exact I | ring].
Qed.

(* ---- LinearVibronic: four harmonic coordinates and the torsion angle ---- *)
Section Vib.
  Variables E1 E2 lam r0 o1 o2 o3 o4 a1 a2 a3 a4 b1 b2 b3 b4 n1 n2 n3 n4 : R.
  Let om := [o1; o2; o3; o4]. Let k1 := [a1; a2; a3; a4]. Let k2 := [b1; b2; b3; b4]. Let An := [n1; n2; n3; n4].
  Notation VV q th := (vib_V ROps E1 E2 lam r0 om k1 k2 An q th).
  Notation DV q th := (vib_dV ROps E1 E2 lam r0 om k1 k2 An q th).

  Ltac vib := unfold vib_V, vib_dV, om, k1, k2, An; entries2; cbn; auto_derive; try exact I; try ring; try field.

  Lemma vib_deriv_q1 q1 q2 q3 q4 th : deriv_mat 2 (fun t => VV [t; q2; q3; q4] th) (nth 0 (DV [q1; q2; q3; q4] th) []) q1.
  Proof. vib. Qed.
  Lemma vib_deriv_q2 q1 q2 q3 q4 th : deriv_mat 2 (fun t => VV [q1; t; q3; q4] th) (nth 1 (DV [q1; q2; q3; q4] th) []) q2.
  Proof. vib. Qed.
  Lemma vib_deriv_q3 q1 q2 q3 q4 th : deriv_mat 2 (fun t => VV [q1; q2; t; q4] th) (nth 2 (DV [q1; q2; q3; q4] th) []) q3.
  Proof. vib. Qed.
  Lemma vib_deriv_q4 q1 q2 q3 q4 th : deriv_mat 2 (fun t => VV [q1; q2; q3; t] th) (nth 3 (DV [q1; q2; q3; q4] th) []) q4.
  Proof. vib. Qed.
  Lemma vib_deriv_theta q1 q2 q3 q4 th : deriv_mat 2 (fun t => VV [q1; q2; q3; q4] t) (nth 4 (DV [q1; q2; q3; q4] th) []) th.
  Proof. vib. Qed.
End Vib.

(* ---- SubotnikModelW / Z: the true gradient, and the code's dV refuted ---- *)
Lemma nth2_tab N (f : nat -> nat -> R) i j d : (i < N)%nat -> (j < N)%nat ->
  nth j (nth i (tabulate N (fun a => tabulate N (fun b => f a b))) []) d = f i j.
Proof. intros Hi Hj. rewrite (nth_tabulate N _ i [] Hi), (nth_tabulate N _ j d Hj). reflexivity. Qed.

Lemma modelw_true_deriv pi eps N x : deriv_mat N (modelw_V ROps pi eps N) (modelw_dV_true ROps pi eps N x) x.
Proof.
  intros i j Hi Hj. unfold ent, modelw_dV_true. rewrite (nth2_tab N _ i j 0 Hi Hj).
  apply (is_derive_ext (fun y => if Nat.eqb i j then modelw_slope ROps pi N (S i) * y + ofnat ROps i * eps
                                 else 1 / 10 / sqrt (ofnat ROps N))).
  - intros t. unfold modelw_V. rewrite (nth2_tab N _ i j 0 Hi Hj). reflexivity.
  - destruct (Nat.eqb i j); cbv iota; [|apply @is_derive_const].
    generalize (modelw_slope ROps pi N (S i)) (ofnat ROps i). intros s c. auto_derive; [exact I | ring].
Qed.

Lemma modelz_true_deriv eps N x : deriv_mat N (modelz_V ROps eps N) (modelz_dV_true ROps eps N x) x.
Proof.
  intros i j Hi Hj. unfold ent, modelz_dV_true. rewrite (nth2_tab N _ i j 0 Hi Hj).
  apply (is_derive_ext (fun y => if Nat.eqb i j then (if Nat.ltb i (Nat.div N 2) then y + ofnat ROps i * eps else - y + ofnat ROps (N - S i) * eps)
                                 else 1 / 10 / sqrt (ofnat ROps N))).
  - intros t. unfold modelz_V, modelz_diag. rewrite (nth2_tab N _ i j 0 Hi Hj). reflexivity.
  - destruct (Nat.eqb i j); cbv iota; [|apply @is_derive_const].
    destruct (Nat.ltb i (Nat.div N 2)); cbv iota; cbn [o1 oopp ROps];
      [generalize (ofnat ROps i) | generalize (ofnat ROps (N - S i))]; intros c; auto_derive; try exact I; ring.
Qed.

(* the off-diagonal element V_01 is constant, so its derivative is 0, but the code reports v = 0.1/sqrt(N) *)
Lemma modelw_code_dV_refuted : exists pi eps N x i j, (i < N)%nat /\ (j < N)%nat /\
  is_derive (fun y => ent (modelw_V ROps pi eps N y) i j) x 0 /\ ent (modelw_dV_code ROps pi eps N x) i j <> 0.
Proof.
  exists 3, (1/10), 4%nat, 0, 0%nat, 1%nat. split; [lia|]. split; [lia|]. split.
  - pose proof (modelw_true_deriv 3 (1/10) 4%nat 0 0%nat 1%nat ltac:(lia) ltac:(lia)) as H. exact H.
  - unfold ent, modelw_dV_code. cbn. apply Rgt_not_eq. apply Rdiv_lt_0_compat; [lra|]. apply sqrt_lt_R0. lra.
Qed.
Lemma modelz_code_dV_refuted : exists eps N x i j, (i < N)%nat /\ (j < N)%nat /\
  is_derive (fun y => ent (modelz_V ROps eps N y) i j) x 0 /\ ent (modelz_dV_code ROps eps N x) i j <> 0.
Proof.
  exists (1/10), 4%nat, 0, 0%nat, 1%nat. split; [lia|]. split; [lia|]. split.
  - pose proof (modelz_true_deriv (1/10) 4%nat 0 0%nat 1%nat ltac:(lia) ltac:(lia)) as H. exact H.
  - unfold ent, modelz_dV_code, modelz_V. cbn. apply Rgt_not_eq. apply Rdiv_lt_0_compat; [lra|]. apply sqrt_lt_R0. lra.
Qed.
