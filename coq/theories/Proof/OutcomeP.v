(* Proof/OutcomeP.v — batch outcome statistics on the real instance. *)
From Coq Require Import Reals ZArith List Lra Lia Bool Arith Permutation.
From MV Require Import Ops RInst Vec Outcome SumR.
Import ListNotations.
Open Scope R_scope.

Notation FT := (ftrace (T:=R)).

Lemma vsum_perm (l l' : list R) : Permutation l l' -> vsum ROps l = vsum ROps l'.
Proof. induction 1; cbn in *; lra. Qed.

Lemma indicator_01 (t : FT) i lr : indicator ROps t i lr = 0 \/ indicator ROps t i lr = 1.
Proof. unfold indicator. destruct (_ && _); cbn; [right|left]; reflexivity. Qed.

Definition num (ts : list FT) i lr : R := vsum ROps (map (fun t => fw t * indicator ROps t i lr) ts).

Lemma num_bounds ts i lr : Forall (fun t : FT => 0 <= fw t) ts -> 0 <= num ts i lr <= wsum ROps ts.
Proof.
  unfold num, wsum. induction 1 as [|t ts Ht Hts IH]; cbn; [lra|].
  destruct (indicator_01 t i lr) as [E|E]; rewrite E; cbn in *; lra.
Qed.

Lemma outcome_entry_unit ts i lr :
  Forall (fun t : FT => 0 <= fw t) ts -> 0 < wsum ROps ts -> 0 <= outcome_entry ROps ts i lr <= 1.
Proof.
  intros Hw HW. unfold outcome_entry. cbn [odiv omul ROps]. fold (num ts i lr).
  pose proof (num_bounds ts i lr Hw) as [H0 H1]. split.
  - apply Rmult_le_pos; [exact H0 | left; apply Rinv_0_lt_compat; exact HW].
  - apply Rmult_le_reg_r with (wsum ROps ts); [exact HW|].
    unfold Rdiv. rewrite Rmult_assoc, Rinv_l by lra. lra.
Qed.

(* sum over all (state, side) entries *)
Definition total_entries (nst : nat) (f : nat -> bool -> R) : R :=
  vsum ROps (tabulate nst (fun i => f i false + f i true)).

Lemma indicator_total nst (t : FT) : (factive t < nst)%nat ->
  total_entries nst (indicator ROps t) = 1.
Proof.
  unfold total_entries, indicator. intros H.
  assert (forall n, vsum ROps (tabulate n (fun i =>
            (if Nat.eqb (factive t) i && Bool.eqb (negb (fleft t)) false then o1 ROps else o0 ROps)
          + (if Nat.eqb (factive t) i && Bool.eqb (negb (fleft t)) true then o1 ROps else o0 ROps)))
          = if (factive t <? n)%nat then 1 else 0) as E.
  { induction n as [|n IH]; [reflexivity|]. rewrite vsum_tab_S, IH.
    destruct (Nat.eqb_spec (factive t) n) as [->|Hne].
    - rewrite Nat.ltb_irrefl. replace (n <? S n)%nat with true by (symmetry; apply Nat.ltb_lt; lia).
      destruct (fleft t); cbn; lra.
    - cbn [andb]. destruct (factive t <? n)%nat eqn:E1.
      + apply Nat.ltb_lt in E1. replace (factive t <? S n)%nat with true by (symmetry; apply Nat.ltb_lt; lia). cbn; lra.
      + apply Nat.ltb_ge in E1. replace (factive t <? S n)%nat with false by (symmetry; apply Nat.ltb_ge; lia). cbn; lra. }
  rewrite E. apply Nat.ltb_lt in H. rewrite H. reflexivity.
Qed.

Lemma num_total nst ts : Forall (fun t : FT => (factive t < nst)%nat) ts ->
  total_entries nst (num ts) = wsum ROps ts.
Proof.
  induction 1 as [|t ts Ht Hts IH].
  - unfold total_entries, num, wsum. cbn [map vsum]. 
    rewrite (vsum_tab_ext nst _ (fun _ => 0)) by (intros; cbn; lra). rewrite vsum_tab_const. cbn. lra.
  - unfold total_entries in *. unfold num in *. cbn [map vsum]. unfold wsum in *. cbn [map vsum].
    rewrite (vsum_tab_ext nst _ (fun i => fw t * (indicator ROps t i false + indicator ROps t i true)
                 + (vsum ROps (map (fun t0 => fw t0 * indicator ROps t0 i false) ts)
                    + vsum ROps (map (fun t0 => fw t0 * indicator ROps t0 i true) ts)))) by (intros; cbn; lra).
    rewrite vsum_tab_plus, vsum_tab_scal, IH.
    pose proof (indicator_total nst t Ht) as E. unfold total_entries in E. rewrite E. cbn. lra.
Qed.

Lemma outcome_sums_to_one nst ts :
  Forall (fun t : FT => (factive t < nst)%nat) ts -> wsum ROps ts <> 0 ->
  total_entries nst (outcome_entry ROps ts) = 1.
Proof.
  intros Ha HW. unfold total_entries, outcome_entry. cbn [odiv omul ROps].
  rewrite (vsum_tab_ext nst _ (fun i => / wsum ROps ts * (num ts i false + num ts i true)))
    by (intros; unfold num; field; exact HW).
  rewrite vsum_tab_scal. pose proof (num_total nst ts Ha) as E. unfold total_entries in E. rewrite E.
  field. exact HW.
Qed.

Lemma outcome_perm ts ts' i lr : Permutation ts ts' ->
  outcome_entry ROps ts i lr = outcome_entry ROps ts' i lr.
Proof.
  intros P. unfold outcome_entry, wsum. f_equal; apply vsum_perm; apply Permutation_map; exact P.
Qed.

Lemma counts_perm ts ts' i lr : Permutation ts ts' ->
  counts_entry ROps ts i lr = counts_entry ROps ts' i lr.
Proof. intros P. unfold counts_entry. apply vsum_perm, Permutation_map, P. Qed.

Lemma counts_is_count ts i lr :
  counts_entry ROps ts i lr
  = INR (length (filter (fun t : FT => Nat.eqb (factive t) i && Bool.eqb (negb (fleft t)) lr) ts)).
Proof.
  unfold counts_entry, indicator. induction ts as [|t ts IH]; [reflexivity|].
  cbn [map vsum filter]. rewrite IH. destruct (_ && _); cbn [length]; [rewrite S_INR|]; cbn; lra.
Qed.

(* equal weights: the table is the plain frequency *)
Lemma outcome_equal_weights ts i lr w : w <> 0 -> ts <> [] -> Forall (fun t : FT => fw t = w) ts ->
  outcome_entry ROps ts i lr = counts_entry ROps ts i lr / INR (length ts).
Proof.
  intros Hw Hne Hall. unfold outcome_entry, counts_entry, wsum. cbn [odiv omul ROps].
  assert (vsum ROps (map (fun t => fw t * indicator ROps t i lr) ts) = w * vsum ROps (map (fun t => indicator ROps t i lr) ts)) as ->.
  { clear Hne. induction Hall as [|t ts Ht _ IH]; cbn [map vsum]; [cbn; lra|]. rewrite IH, Ht. cbn. lra. }
  assert (vsum ROps (map fw ts) = w * INR (length ts)) as ->.
  { clear Hne. induction Hall as [|t ts Ht _ IH]; [cbn; lra|]. cbn [map vsum length]. rewrite S_INR, IH, Ht. cbn. lra. }
  assert (INR (length ts) <> 0) by (destruct ts; [contradiction|]; apply not_0_INR; cbn; lia).
  field. split; assumption.
Qed.

(* hop-count histogram *)
Lemma hop_stat_unit ts i :
  Forall (fun t : FT => 0 <= fw t) ts -> 0 < wsum ROps ts -> 0 <= hop_stat ROps ts i <= 1.
Proof.
  intros Hw HW. unfold hop_stat. cbn [odiv ROps].
  assert (0 <= vsum ROps (map fw (filter (fun t => Nat.eqb (fhops t) i) ts)) <= wsum ROps ts) as [H0 H1].
  { unfold wsum. clear HW. induction Hw as [|t ts Ht _ IH]; cbn; [lra|].
    destruct (Nat.eqb (fhops t) i); cbn in *; lra. }
  split.
  - apply Rmult_le_pos; [exact H0 | left; apply Rinv_0_lt_compat; exact HW].
  - apply Rmult_le_reg_r with (wsum ROps ts); [exact HW|].
    unfold Rdiv. rewrite Rmult_assoc, Rinv_l by lra. lra.
Qed.
