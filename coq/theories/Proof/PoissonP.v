(* Proof/PoissonP.v — lemmas about Model/Poisson.v on the real instance. *)
From Coq Require Import Reals ZArith Lra Lia.
From Coquelicot Require Import Coquelicot.
From Interval Require Import Tactic.
From MV Require Import Ops RInst Cplx Poisson.
Open Scope R_scope.

Lemma pps_switch_R : pps_switch ROps = 1 / 1000.
Proof. unfold pps_switch, odec; cbn. reflexivity. Qed.

Definition S4 (x : R) : R := 1 - x / 2 + x * x / 6 - x * x * x / 24 + x * x * (x * x) / 120.
Definition g (x : R) : R := (1 - exp (- x)) / x.

Lemma pps_series_R x : pps_series ROps x = S4 x.
Proof. reflexivity. Qed.

Lemma pps_closed_R x : pps_closed ROps x = g x.
Proof. unfold pps_closed, g; cbn. unfold Rdiv; ring. Qed.

Lemma pps_R x : pps ROps x = if Rltb (Rabs x) (1/1000) then S4 x else g x.
Proof. unfold pps. rewrite pps_switch_R, pps_closed_R. reflexivity. Qed.

(* ---- the series branch: |S4 x - g x| <= 1e-17 for 0 < |x| < 1e-3 ---- *)
Definition h (x : R) : R := x * S4 x - (1 - exp (- x)).
Definition dh (x : R) : R :=
  (1 - x + x * x / 2 - x * x * x / 6 + x * x * (x * x) / 24) - exp (- x).

Lemma h_derive x : is_derive h x (dh x).
Proof. unfold h, dh, S4. auto_derive; [exact I | field]. Qed.

Lemma dh_small c : Rabs c <= 1/1000 -> Rabs (dh c) <= 1/100000000000000000.
Proof.
  intros H. unfold dh.
  interval with (i_taylor c, i_degree 8, i_prec 100).
Qed.

Lemma h_small x : Rabs x <= 1/1000 -> Rabs (h x) <= Rabs x * (1/100000000000000000).
Proof.
  intros Hx.
  destruct (MVT_gen h 0 x dh) as [c [Hc Heq]].
  - intros y _. apply h_derive.
  - intros y _. apply derivable_continuous_pt. apply ex_derive_Reals_0.
    eexists; apply h_derive.
  - assert (h 0 = 0) as H0 by (unfold h, S4; rewrite Ropp_0, exp_0; lra).
    rewrite H0, !Rminus_0_r in Heq. rewrite Heq, Rabs_mult, Rmult_comm.
    apply Rmult_le_compat_l; [apply Rabs_pos|].
    apply dh_small.
    revert Hc Hx. unfold Rmin, Rmax. destruct (Rle_dec 0 x); unfold Rabs;
      destruct (Rcase_abs c); destruct (Rcase_abs x); lra.
Qed.

Lemma pps_series_error x : x <> 0 -> Rabs x < 1/1000 ->
  Rabs (S4 x - g x) <= 1/100000000000000000.
Proof.
  intros Hx Hs.
  assert (S4 x - g x = h x / x) as -> by (unfold h, g; field; exact Hx).
  unfold Rdiv. rewrite Rabs_mult, Rabs_Rinv by exact Hx.
  apply Rmult_le_reg_r with (Rabs x); [apply Rabs_pos_lt; exact Hx|].
  rewrite Rmult_assoc, Rinv_l, Rmult_1_r by (apply Rabs_no_R0; exact Hx).
  rewrite Rmult_comm. apply h_small. lra.
Qed.

(* relative form, as the property states it ("to near machine precision"):
   g x >= 0.9995 on the series range, so the relative error is below 1.0006e-17 *)
Lemma g_lower x : x <> 0 -> Rabs x < 1/1000 -> 999/1000 <= S4 x.
Proof. intros _ H. unfold S4. interval. Qed.

(* ---- value at 0, range, monotonicity ---- *)
Lemma pps_at_zero : pps ROps 0 = 1.
Proof.
  rewrite pps_R. destruct (Rltb_spec (Rabs 0) (1/1000)) as [_|H].
  - unfold S4; lra.
  - exfalso; apply H; rewrite Rabs_R0; lra.
Qed.

Definition dg (x : R) : R := ((1 + x) * exp (- x) - 1) / (x * x).
Lemma g_derive x : x <> 0 -> is_derive g x (dg x).
Proof. intros Hx. unfold g, dg. auto_derive; [exact Hx | field; exact Hx]. Qed.

Lemma dg_neg c : 0 < c -> dg c < 0.
Proof.
  intros Hc. unfold dg.
  assert (1 + c < exp c) by (apply exp_ineq1; lra).
  assert (0 < exp (- c)) by apply exp_pos.
  assert (exp c * exp (- c) = 1) by (rewrite <- exp_plus; replace (c + - c) with 0 by ring; apply exp_0).
  assert ((1 + c) * exp (- c) < 1) by nra.
  apply Rmult_lt_reg_r with (c * c); [nra|].
  unfold Rdiv. rewrite Rmult_assoc, Rinv_l by nra. lra.
Qed.

Lemma g_decreasing x y : 0 < x -> x < y -> g y < g x.
Proof.
  intros Hx Hxy.
  destruct (MVT_gen g x y dg) as [c [Hc Heq]].
  - intros z Hz. apply g_derive. revert Hz; unfold Rmin, Rmax; destruct (Rle_dec x y); lra.
  - intros z Hz. apply derivable_continuous_pt, ex_derive_Reals_0.
    eexists; apply g_derive. revert Hz; unfold Rmin, Rmax; destruct (Rle_dec x y); lra.
  - assert (dg c < 0) by (apply dg_neg; revert Hc; unfold Rmin, Rmax; destruct (Rle_dec x y); lra).
    nra.
Qed.

Definition dS4 (x : R) : R := - (1/2) + x / 3 - x * x / 8 + x * x * x / 30.
Lemma S4_derive x : is_derive S4 x (dS4 x).
Proof. unfold S4, dS4. auto_derive; [exact I | field]. Qed.

Lemma S4_decreasing x y : 0 <= x -> x < y -> y <= 1/1000 -> S4 y < S4 x.
Proof.
  intros Hx Hxy Hy.
  destruct (MVT_gen S4 x y dS4) as [c [Hc Heq]].
  - intros z _. apply S4_derive.
  - intros z _. apply derivable_continuous_pt, ex_derive_Reals_0. eexists; apply S4_derive.
  - assert (0 <= c <= 1/1000) as Hc' by (revert Hc; unfold Rmin, Rmax; destruct (Rle_dec x y); lra).
    assert (dS4 c < 0) by (unfold dS4; interval).
    nra.
Qed.

Lemma S4_ge_g_at_switch : g (1/1000) <= S4 (1/1000).
Proof. unfold g, S4. interval with (i_prec 150). Qed.

Lemma pps_decreasing x y : 0 <= x -> x < y -> pps ROps y < pps ROps x.
Proof.
  intros Hx Hxy. rewrite !pps_R.
  rewrite (Rabs_pos_eq x), (Rabs_pos_eq y) by lra.
  destruct (Rltb_spec x (1/1000)) as [Hxs|Hxs]; destruct (Rltb_spec y (1/1000)) as [Hys|Hys].
  - apply S4_decreasing; lra.
  - (* across the switch *)
    apply Rle_lt_trans with (g (1/1000)).
    + destruct (Req_dec y (1/1000)) as [->|Hne]; [lra|]. left. apply g_decreasing; lra.
    + apply Rle_lt_trans with (S4 (1/1000)); [apply S4_ge_g_at_switch|].
      apply S4_decreasing; lra.
  - lra.
  - apply g_decreasing; lra.
Qed.

Lemma pps_range x : 0 <= x -> 0 < pps ROps x <= 1.
Proof.
  intros Hx. destruct (Req_dec x 0) as [->|Hne].
  - rewrite pps_at_zero; lra.
  - split.
    + rewrite pps_R, (Rabs_pos_eq x) by lra.
      destruct (Rltb_spec x (1/1000)) as [Hs|Hs].
      * assert (999/1000 <= S4 x) by (apply g_lower; [exact Hne | rewrite Rabs_pos_eq; lra]). lra.
      * unfold g. apply Rdiv_lt_0_compat; [|lra].
        assert (exp (- x) < 1); [|lra]. rewrite <- exp_0. apply exp_increasing. lra.
    + rewrite <- pps_at_zero. left. apply pps_decreasing; lra.
Qed.

(* ---- complex argument, closed-form branch: exact identity
       cpps_closed z * z = 1 - exp(-z)   (componentwise, z <> 0) ---- *)
Lemma cexpm1_R a b :
  cexpm1 ROps (a, b) = (exp a * cos b - 1, exp a * sin b).
Proof.
  unfold cexpm1; cbn. f_equal.
  assert (cos b = 1 - 2 * sin (1 / 2 * b) * sin (1 / 2 * b)) as E.
  { replace b with (2 * (1/2 * b)) at 1 by field. rewrite cos_2a_sin. ring. }
  rewrite E. ring.
Qed.

Lemma cpps_closed_spec a b : a * a + b * b <> 0 ->
  cmul ROps (cpps_closed ROps (a, b)) (a, b)
  = (1 - exp (- a) * cos b, exp (- a) * sin b).
Proof.
  intros Hz. unfold cpps_closed.
  change (copp ROps (a, b)) with (- a, - b).
  rewrite cexpm1_R. rewrite cos_neg, sin_neg.
  unfold cmul, cdiv, copp, cnorm2; cbn. f_equal; field; exact Hz.
Qed.

(* imaginary axis (the only arguments A-FSSH passes): sin y / y and -(1-cos y)/y *)
Lemma cpps_imag_axis y : y <> 0 ->
  cpps_closed ROps (0, y) = (sin y / y, - ((1 - cos y) / y)).
Proof.
  intros Hy. unfold cpps_closed. change (copp ROps (0, y)) with (- 0, - y).
  rewrite cexpm1_R, cos_neg, sin_neg, Ropp_0, exp_0.
  unfold cdiv, copp, cnorm2; cbn. f_equal; field; exact Hy.
Qed.

Lemma cpps_closed_conj a b :
  cpps_closed ROps (cconj ROps (a, b)) = cconj ROps (cpps_closed ROps (a, b)).
Proof.
  unfold cpps_closed, cconj. cbn [fst snd].
  change (copp ROps (a, oopp ROps b)) with (- a, - - b).
  change (copp ROps (a, b)) with (- a, - b).
  rewrite !cexpm1_R, Ropp_involutive, !cos_neg, !sin_neg.
  unfold cdiv, copp, cnorm2; cbn.
  replace (a * a + - b * - b) with (a * a + b * b) by ring.
  f_equal; unfold Rdiv; ring.
Qed.

Lemma cpps_series_conj z :
  cpps_series ROps (cconj ROps z) = cconj ROps (cpps_series ROps z).
Proof.
  destruct z as [a b]. unfold cpps_series, cconj, cZ, cofr, cadd, csub, cmul, cdiv, cnorm2, c1; cbn.
  f_equal; unfold Rdiv; ring.
Qed.

Lemma cpps_conj z : cpps ROps (cconj ROps z) = cconj ROps (cpps ROps z).
Proof.
  destruct z as [a b]. unfold cpps.
  assert (cabs ROps (cconj ROps (a, b)) = cabs ROps (a, b)) as ->.
  { unfold cabs, cnorm2, cconj; cbn. f_equal. ring. }
  destruct (oltb ROps _ _); [apply cpps_series_conj | apply cpps_closed_conj].
Qed.
