(* Proof/PropagateP.v — validity of the propagated density matrix (real instance). *)
From Coq Require Import Reals Ring Lra Lia List Arith Bool Setoid Morphisms.
From MV Require Import Ops RInst Vec Cplx Mat CRing SumR MatP Propagate.
Import ListNotations.
Open Scope R_scope.
Local Open Scope C_scope.

Notation fm := (fmul ROps).
Notation fa := (fadj ROps).
Notation fI := (fid ROps).

(* ---- setoid structure: equality on the n x n block ---- *)
Global Instance meq_Equivalence n : Equivalence (meq n).
Proof. split; [intros A; apply meq_refl | intros A B; apply meq_sym | intros A B C0; apply meq_trans]. Qed.
Global Instance fmul_Proper n : Proper (meq n ==> meq n ==> meq n) (fm n).
Proof. intros A A' HA B B' HB. apply fmul_ext; assumption. Qed.
Global Instance fadj_Proper n : Proper (meq n ==> meq n) fa.
Proof. intros A A' HA. apply fadj_ext; assumption. Qed.
Global Instance ftrace_Proper n : Proper (meq n ==> eq) (ftrace ROps n).
Proof. intros A A' HA. apply ftrace_ext; assumption. Qed.
Global Instance fadd_Proper n : Proper (meq n ==> meq n ==> meq n) (fadd ROps).
Proof. intros A A' HA B B' HB. apply fadd_ext; assumption. Qed.
Global Instance fsub_Proper n : Proper (meq n ==> meq n ==> meq n) (fsub ROps).
Proof. intros A A' HA B B' HB. apply fsub_ext; assumption. Qed.
Global Instance fscale_Proper n c : Proper (meq n ==> meq n) (fscale ROps c).
Proof. intros A A' HA. apply fscale_ext; assumption. Qed.
Global Instance fhad_Proper n : Proper (meq n ==> meq n ==> meq n) (fhad ROps).
Proof. intros A A' HA B B' HB. apply fhad_ext; assumption. Qed.

Section Unitary.
  Variable n : nat.
  Implicit Types A B U rho : FM.

  Lemma conj_herm U rho : herm n rho -> herm n (fm n U (fm n rho (fa U))).
  Proof.
    intros H. unfold herm in *.
    rewrite (fadj_mul n U (fm n rho (fa U))), (fadj_mul n rho (fa U)), (fadj_invol n U), H.
    apply fmul_assoc.
  Qed.

  Lemma conj_trace U rho : meq n (fm n (fa U) U) fI ->
    ftrace ROps n (fm n U (fm n rho (fa U))) = ftrace ROps n rho.
  Proof.
    intros HU. rewrite ftrace_cyclic. rewrite (fmul_assoc n rho (fa U) U), HU, (fmul_id_r n rho). reflexivity.
  Qed.

  Lemma conj_pure U rho : meq n (fm n (fa U) U) fI -> meq n (fm n rho rho) rho ->
    let r' := fm n U (fm n rho (fa U)) in meq n (fm n r' r') r'.
  Proof.
    intros HU Hp r'. unfold r'.
    rewrite (fmul_assoc n U (fm n rho (fa U)) (fm n U (fm n rho (fa U)))).
    rewrite <- (fmul_assoc n (fm n rho (fa U)) U (fm n rho (fa U))).
    rewrite (fmul_assoc n rho (fa U) U), HU, (fmul_id_r n rho).
    rewrite <- (fmul_assoc n rho rho (fa U)), Hp. reflexivity.
  Qed.

  (* U = (C D) C^dagger with C unitary and D diagonal of unit modulus *)
  Lemma fadj_diag (d : nat -> RC) : meq n (fa (fdiag ROps d)) (fdiag ROps (fun i => (d i)^*)).
  Proof.
    intros i j _ _. unfold fadj, fdiag. rewrite (Nat.eqb_sym j i).
    destruct (Nat.eqb_spec i j) as [->|_]; [reflexivity | apply cconj_0].
  Qed.

  Lemma fdiag_mul (d e : nat -> RC) : meq n (fm n (fdiag ROps d) (fdiag ROps e)) (fdiag ROps (fun i => d i * e i)).
  Proof.
    intros i j Hi Hj. unfold fmul, fdiag.
    rewrite (csum_ext n _ (fun k => (if Nat.eqb i k then 1 else 0) * (d i * (if Nat.eqb k j then e k else 0)))).
    - rewrite (csum_delta_l n i _ Hi). destruct (Nat.eqb i j); ring.
    - intros k _. destruct (Nat.eqb_spec i k) as [->|_]; ring.
  Qed.

  Lemma fdiag_unit (d : nat -> RC) : (forall k, (k < n)%nat -> (d k)^* * d k = 1) ->
    meq n (fm n (fa (fdiag ROps d)) (fdiag ROps d)) fI.
  Proof.
    intros H. rewrite (fadj_diag d), (fdiag_mul (fun i => (d i)^*) d).
    intros i j Hi Hj. unfold fdiag, fid. destruct (Nat.eqb i j); [apply H; exact Hi | reflexivity].
  Qed.

  Lemma expU_unitary_f (Cf : FM) (d : nat -> RC) :
    unitary n Cf -> (forall k, (k < n)%nat -> (d k)^* * d k = 1) ->
    let U := fm n (fm n Cf (fdiag ROps d)) (fa Cf) in meq n (fm n (fa U) U) fI.
  Proof.
    intros [HC1 HC2] Hd U. unfold U.
    rewrite (fadj_mul n (fm n Cf (fdiag ROps d)) (fa Cf)), (fadj_invol n Cf), (fadj_mul n Cf (fdiag ROps d)).
    (* Cf (D^dag Cf^dag) ((Cf D) Cf^dag) *)
    rewrite (fmul_assoc n Cf (fm n (fa (fdiag ROps d)) (fa Cf)) (fm n (fm n Cf (fdiag ROps d)) (fa Cf))).
    rewrite (fmul_assoc n (fa (fdiag ROps d)) (fa Cf) (fm n (fm n Cf (fdiag ROps d)) (fa Cf))).
    rewrite <- (fmul_assoc n (fa Cf) (fm n Cf (fdiag ROps d)) (fa Cf)).
    rewrite <- (fmul_assoc n (fa Cf) Cf (fdiag ROps d)), HC1, (fmul_id_l n (fdiag ROps d)).
    rewrite <- (fmul_assoc n (fa (fdiag ROps d)) (fdiag ROps d) (fa Cf)), (fdiag_unit d Hd), (fmul_id_l n (fa Cf)).
    exact HC2.
  Qed.
End Unitary.

(* ---- positive semidefiniteness ---- *)
Definition quad (n : nat) (x : nat -> RC) (rho : FM) : RC :=
  csum n (fun i => csum n (fun j => (x i)^* * rho i j * x j)).
Definition psd (n : nat) (rho : FM) : Prop := forall x, (0 <= fst (quad n x rho))%R.

Lemma quad_conj n x U rho :
  quad n x (fm n U (fm n rho (fa U))) = quad n (fun k => csum n (fun i => (U i k)^* * x i)) rho.
Proof.
  unfold quad, fmul, fadj.
  (* left: sum_i sum_j conj(x_i) (sum_k U_ik (sum_l rho_kl conj(U_jl))) x_j *)
  transitivity (csum n (fun k => csum n (fun l => csum n (fun i => csum n (fun j =>
                  ((x i)^* * U i k) * rho k l * ((U j l)^* * x j)))))).
  - rewrite (csum_ext n _ (fun i => csum n (fun k => csum n (fun l => csum n (fun j =>
                  ((x i)^* * U i k) * rho k l * ((U j l)^* * x j)))))).
    + rewrite csum_swap. apply csum_ext. intros k _.
      rewrite csum_swap. apply csum_ext. intros l _. reflexivity.
    + intros i _.
      rewrite (csum_ext n _ (fun j => csum n (fun k => csum n (fun l =>
                  ((x i)^* * U i k) * rho k l * ((U j l)^* * x j))))).
      * rewrite csum_swap. apply csum_ext. intros k _. rewrite csum_swap. reflexivity.
      * intros j _. rewrite <- csum_scale_l, <- csum_scale_r. apply csum_ext. intros k _.
        rewrite <- csum_scale_l, <- csum_scale_l, <- csum_scale_r. apply csum_ext. intros l _. ring.
  - apply csum_ext. intros k _. apply csum_ext. intros l _.
    rewrite csum_conj.
    rewrite (csum_ext n (fun i => csum n (fun j => (x i)^* * U i k * rho k l * ((U j l)^* * x j)))
                      (fun i => ((x i)^* * U i k) * (rho k l * csum n (fun j => (U j l)^* * x j)))).
    + rewrite csum_scale_r.
      rewrite (csum_ext n (fun k0 => ((U k0 k)^* * x k0)^*) (fun i => (x i)^* * U i k)).
      * ring.
      * intros i _. rewrite cconj_mul, cconj_invol. ring.
    + intros i _. rewrite <- csum_scale_l, <- csum_scale_l. apply csum_ext. intros j _. ring.
Qed.

Lemma conj_psd n U rho : psd n rho -> psd n (fm n U (fm n rho (fa U))).
Proof. intros H x. rewrite quad_conj. apply H. Qed.

Lemma quad_basis n (rho : FM) (i : nat) : (i < n)%nat -> quad n (fun k => if Nat.eqb i k then c1 ROps else c0 ROps) rho = rho i i.
Proof.
  intros Hi. unfold quad.
  rewrite (csum_ext n _ (fun a => (if Nat.eqb i a then 1 else 0) * csum n (fun j => rho a j * (if Nat.eqb j i then 1 else 0)))).
  - rewrite (csum_delta_l n i _ Hi). apply (csum_delta_r n i (fun j => rho i j) Hi).
  - intros a _. rewrite <- csum_scale_l. apply csum_ext. intros j _. rewrite (Nat.eqb_sym j i).
    destruct (Nat.eqb i a); destruct (Nat.eqb i j); rewrite ?cconj_1, ?cconj_0; ring.
Qed.

Local Close Scope C_scope.

Lemma psd_diag_nonneg n (rho : FM) (i : nat) : psd n rho -> (i < n)%nat -> 0 <= fst (rho i i).
Proof. intros H Hi. rewrite <- (quad_basis n rho i Hi). apply H. Qed.

Lemma csum_fst n (f : nat -> RC) : fst (csum n f) = vsum ROps (tabulate n (fun k => fst (f k))).
Proof. induction n as [|n IH]; [reflexivity|]. cbn [csumf]. rewrite vsum_tab_S, <- IH. reflexivity. Qed.

Lemma partial_sums_nonneg (g : nat -> R) N : (forall k, (k < N)%nat -> 0 <= g k) ->
  forall m, (m <= N)%nat -> 0 <= vsum ROps (tabulate m g).
Proof.
  intros H m. induction m as [|m IH]; intros Hm; [cbn; lra|]. rewrite vsum_tab_S.
  specialize (IH ltac:(lia)). specialize (H m ltac:(lia)). lra.
Qed.

Lemma term_le_sum (g : nat -> R) N i : (forall k, (k < N)%nat -> 0 <= g k) -> (i < N)%nat ->
  g i <= vsum ROps (tabulate N g).
Proof.
  intros H. induction N as [|N IH]; intros Hi; [lia|]. rewrite vsum_tab_S.
  destruct (Nat.eq_dec i N) as [->|Hne].
  - pose proof (partial_sums_nonneg g (S N) H N ltac:(lia)). lra.
  - assert (g i <= vsum ROps (tabulate N g)) by (apply IH; [intros; apply H; lia | lia]).
    specialize (H N ltac:(lia)). lra.
Qed.

Lemma populations_unit n (rho : FM) (i : nat) : psd n rho -> fst (ftrace ROps n rho) = 1 -> (i < n)%nat ->
  0 <= fst (rho i i) <= 1.
Proof.
  intros Hp Ht Hi. split; [apply (psd_diag_nonneg n rho i Hp Hi)|].
  unfold ftrace in Ht. rewrite csum_fst in Ht. rewrite <- Ht.
  apply (term_le_sum (fun k => fst (rho k k)) n i); [|exact Hi].
  intros k Hk. apply (psd_diag_nonneg n rho k Hp Hk).
Qed.

(* ---- the list-level 'exp' step of the model ---- *)
Local Open Scope C_scope.

Definition dphase (lam : list R) (dt : R) : nat -> RC :=
  fun i => nth i (map (fun l => ccis ROps (oopp ROps (omul ROps l dt))) lam) (c0 ROps).

Definition Uf (n : nat) (lam : list R) (Cm : mat (T:=R)) (dt : R) : FM :=
  fm n (fm n (mget ROps Cm) (fdiag ROps (dphase lam dt))) (fa (mget ROps Cm)).

Lemma expU_spec n lam Cm dt : meq n (mget ROps (expU ROps n lam Cm dt)) (Uf n lam Cm dt).
Proof.
  unfold expU, Uf. rewrite (mmul_spec n _ _), (mmul_spec n Cm _), (madj_spec n Cm), (mdiag_spec n _). reflexivity.
Qed.

Lemma exp_step_spec n lam Cm dt rho :
  meq n (mget ROps (exp_step ROps n lam Cm dt rho))
        (fm n (Uf n lam Cm dt) (fm n (mget ROps rho) (fa (Uf n lam Cm dt)))).
Proof.
  unfold exp_step. rewrite (mmul_spec n _ _), (mmul_spec n rho _), (madj_spec n _), (expU_spec n lam Cm dt). reflexivity.
Qed.

Lemma dphase_unit lam dt k : (k < length lam)%nat -> (dphase lam dt k)^* * dphase lam dt k = 1.
Proof.
  intros Hk. unfold dphase.
  rewrite (nth_indep _ (c0 ROps) (ccis ROps (oopp ROps (omul ROps 0%R dt)))) by (rewrite map_length; exact Hk).
  rewrite (map_nth (fun l => ccis ROps (oopp ROps (omul ROps l dt))) lam 0%R k). apply ccis_unit.
Qed.

Lemma Uf_unitary n lam Cm dt : length lam = n -> unitary n (mget ROps Cm) ->
  meq n (fm n (fa (Uf n lam Cm dt)) (Uf n lam Cm dt)) fI.
Proof.
  intros Hl HC. unfold Uf. apply expU_unitary_f; [exact HC|]. intros k Hk. apply dphase_unit. lia.
Qed.

Definition mherm (n : nat) (M : mat (T:=R)) : Prop := herm n (mget ROps M).
Definition mpure (n : nat) (M : mat (T:=R)) : Prop := meq n (fm n (mget ROps M) (mget ROps M)) (mget ROps M).
Definition mpsd (n : nat) (M : mat (T:=R)) : Prop := psd n (mget ROps M).

Lemma psd_ext n A B : meq n A B -> psd n A -> psd n B.
Proof.
  intros H HA x. specialize (HA x). unfold quad in *.
  rewrite (csum_ext n _ (fun i => csum n (fun j => (x i)^* * A i j * x j))); [exact HA|].
  intros i Hi. apply csum_ext. intros j Hj. rewrite (H i j Hi Hj). reflexivity.
Qed.

Theorem exp_step_valid n lam Cm dt rho : length lam = n -> unitary n (mget ROps Cm) ->
  let rho' := exp_step ROps n lam Cm dt rho in
  (mherm n rho -> mherm n rho')
  /\ mtrace ROps n rho' = mtrace ROps n rho
  /\ (mpure n rho -> mpure n rho')
  /\ (mpsd n rho -> mpsd n rho').
Proof.
  intros Hl HC rho'. pose proof (Uf_unitary n lam Cm dt Hl HC) as HU.
  pose proof (exp_step_spec n lam Cm dt rho) as Hs. fold rho' in Hs.
  repeat split.
  - intros H. unfold mherm, herm in *. rewrite Hs. apply conj_herm. exact H.
  - unfold mtrace. rewrite Hs. apply conj_trace. exact HU.
  - intros H. unfold mpure in *. rewrite Hs. apply conj_pure; assumption.
  - intros H. unfold mpsd in *. apply (psd_ext n _ _ (meq_sym _ _ _ Hs)). apply conj_psd. exact H.
Qed.

(* any number of steps, each with its own oracle answer (lam_k, C_k) and time step *)
Definition exp_steps (n : nat) (steps : list (list R * mat (T:=R) * R)) (rho : mat (T:=R)) : mat :=
  fold_left (fun r s => let '(lam, Cm, dt) := s in exp_step ROps n lam Cm dt r) steps rho.

Theorem exp_steps_valid n steps : forall rho,
  Forall (fun s => let '(lam, Cm, dt) := s in length lam = n /\ unitary n (mget ROps Cm)) steps ->
  let rho' := exp_steps n steps rho in
  (mherm n rho -> mherm n rho')
  /\ mtrace ROps n rho' = mtrace ROps n rho
  /\ (mpure n rho -> mpure n rho')
  /\ (mpsd n rho -> mpsd n rho').
Proof.
  induction steps as [|[[lam Cm] dt] rest IH]; intros rho Hall; cbn [exp_steps fold_left].
  - repeat split; auto.
  - inversion Hall as [|? ? Hhead Hrest]; subst. cbn beta iota in Hhead. destruct Hhead as [Hl HC].
    pose proof (exp_step_valid n lam Cm dt rho Hl HC) as HA. cbv zeta in HA. destruct HA as [A1 [A2 [A3 A4]]].
    pose proof (IH (exp_step ROps n lam Cm dt rho) Hrest) as HB. cbv zeta in HB. destruct HB as [B1 [B2 [B3 B4]]].
    repeat split; auto. unfold exp_steps in *. rewrite B2. exact A2.
Qed.

(* the purity measure tr(rho^2) is preserved by the exp step, also for mixed states *)
Lemma conj_purity_measure n (U rho : FM) : meq n (fm n (fa U) U) (fid ROps) ->
  let r' := fm n U (fm n rho (fa U)) in
  ftrace ROps n (fm n r' r') = ftrace ROps n (fm n rho rho).
Proof.
  intros HU r'. unfold r'.
  assert (meq n (fm n (fm n U (fm n rho (fa U))) (fm n U (fm n rho (fa U)))) (fm n U (fm n (fm n rho rho) (fa U)))) as E.
  { rewrite (fmul_assoc n U (fm n rho (fa U)) (fm n U (fm n rho (fa U)))).
    rewrite <- (fmul_assoc n (fm n rho (fa U)) U (fm n rho (fa U))).
    rewrite (fmul_assoc n rho (fa U) U), HU, (fmul_id_r n rho).
    rewrite <- (fmul_assoc n rho rho (fa U)). reflexivity. }
  rewrite E. apply conj_trace. exact HU.
Qed.

Definition mpurity (n : nat) (M : mat (T:=R)) : RC := ftrace ROps n (fm n (mget ROps M) (mget ROps M)).

Lemma exp_step_purity n lam Cm dt rho : length lam = n -> unitary n (mget ROps Cm) ->
  mpurity n (exp_step ROps n lam Cm dt rho) = mpurity n rho.
Proof.
  intros Hl HC. unfold mpurity. pose proof (Uf_unitary n lam Cm dt Hl HC) as HU.
  rewrite (exp_step_spec n lam Cm dt rho). apply conj_purity_measure. exact HU.
Qed.

Lemma exp_steps_purity n steps : forall rho,
  Forall (fun s => let '(lam, Cm, dt) := s in length lam = n /\ unitary n (mget ROps Cm)) steps ->
  mpurity n (exp_steps n steps rho) = mpurity n rho.
Proof.
  induction steps as [|[[lam Cm] dt] rest IH]; intros rho Hall; cbn [exp_steps fold_left]; [reflexivity|].
  inversion Hall as [|? ? Hh Hr]; subst. cbn beta iota in Hh. destruct Hh as [Hl HC].
  unfold exp_steps in IH. rewrite (IH _ Hr). apply exp_step_purity; assumption.
Qed.
