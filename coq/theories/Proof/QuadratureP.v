(* Proof/QuadratureP.v — C18: Newton-Cotes rules of integration.py for every n. *)
From Coq Require Import Reals ZArith List Lra Lia Bool.
From MV Require Import Ops RInst Vec Quadrature SumR.
Import ListNotations.
Open Scope R_scope.

Local Notation mom := (moment ROps).

(* exact value of int_a^b x^k dx *)
Definition mono_int (a b : R) (k : nat) : R := (b ^ S k - a ^ S k) / INR (S k).

Lemma opow_R x k : opow ROps x k = x ^ k.
Proof. induction k as [|k IH]; cbn; [reflexivity | rewrite IH; reflexivity]. Qed.

(* ------------------------------------------------------------ midpoint *)
Section Midpoint.
  Variables (n : nat) (a b : R).
  Hypothesis Hn : (1 <= n)%nat.
  Let h := (b - a) / INR n.
  Lemma INRn_pos : 0 < INR n. Proof. apply lt_0_INR. lia. Qed.

  Lemma mid_pts_eq : midpoint_pts ROps n a b = tabulate n (fun i => a + h * (INR i + 1 / 2)).
  Proof.
    unfold midpoint_pts. apply tabulate_ext. intros i _. rewrite !ofnat_R. reflexivity.
  Qed.
  Lemma mid_wts_eq : midpoint_wts ROps n a b = tabulate n (fun _ => h).
  Proof.
    unfold midpoint_wts. apply tabulate_ext. intros i _. rewrite ofnat_R. cbn. unfold h. field.
    apply Rgt_not_eq, INRn_pos.
  Qed.

  Lemma mid_sum_weights : vsum ROps (midpoint_wts ROps n a b) = b - a.
  Proof.
    rewrite mid_wts_eq, vsum_tab_const. unfold h. field. apply Rgt_not_eq, INRn_pos.
  Qed.

  Lemma mid_aux m : vsum ROps (tabulate m (fun i => h * (a + h * (INR i + 1 / 2))))
                    = h * (INR m * a) + h * h * (INR m * INR m) / 2.
  Proof.
    induction m as [|m IH]; [cbn; lra|]. rewrite vsum_tab_S, IH, S_INR. lra.
  Qed.

  Lemma mid_moment0 : mom (midpoint_pts ROps n a b) (midpoint_wts ROps n a b) 0 = mono_int a b 0.
  Proof.
    unfold moment. rewrite mid_pts_eq, mid_wts_eq, vmap2_tab. cbn [opow].
    rewrite (vsum_tab_ext n _ (fun _ => h)) by (intros; cbn; lra).
    rewrite vsum_tab_const. unfold h, mono_int. cbn. field. apply Rgt_not_eq, INRn_pos.
  Qed.

  Lemma mid_moment1 : mom (midpoint_pts ROps n a b) (midpoint_wts ROps n a b) 1 = mono_int a b 1.
  Proof.
    unfold moment. rewrite mid_pts_eq, mid_wts_eq, vmap2_tab. cbn [opow].
    rewrite (vsum_tab_ext n _ (fun i => h * (a + h * (INR i + 1 / 2)))) by (intros; cbn; lra).
    rewrite mid_aux. unfold h, mono_int. cbn. field. apply Rgt_not_eq, INRn_pos.
  Qed.

  Hypothesis Hab : a < b.
  Lemma h_pos : 0 < h.
  Proof. unfold h. apply Rdiv_lt_0_compat; [lra | apply INRn_pos]. Qed.

  Lemma mid_weights_pos : forall w, In w (midpoint_wts ROps n a b) -> 0 < w.
  Proof.
    rewrite mid_wts_eq. unfold tabulate. intros w Hw. apply in_map_iff in Hw.
    destruct Hw as [i [<- _]]. apply h_pos.
  Qed.

  Lemma mid_nodes_increasing : forall i, (S i < n)%nat ->
    nth i (midpoint_pts ROps n a b) 0 < nth (S i) (midpoint_pts ROps n a b) 0.
  Proof.
    intros i Hi. rewrite mid_pts_eq, !nth_tabulate by lia. rewrite S_INR.
    pose proof h_pos. nra.
  Qed.

  Lemma mid_nodes_inside : forall i, (i < n)%nat ->
    a < nth i (midpoint_pts ROps n a b) 0 < b.
  Proof.
    intros i Hi. rewrite mid_pts_eq, nth_tabulate by lia.
    pose proof h_pos as Hh. pose proof (pos_INR i) as Hi0.
    assert (INR i + 1 <= INR n) as Hle by (rewrite <- S_INR; apply le_INR; lia).
    assert (h * INR n = b - a) as Hhn by (unfold h; field; apply Rgt_not_eq, INRn_pos).
    split; nra.
  Qed.
End Midpoint.

(* ----------------------------------------------------------- trapezoid *)
Section Trapezoid.
  Variables (m : nat) (a b : R).        (* n = m + 1 points, m >= 1 intervals *)
  Hypothesis Hm : (1 <= m)%nat.
  Let n := S m.
  Let h := (b - a) / INR m.
  Lemma INRm_pos : 0 < INR m. Proof. apply lt_0_INR. lia. Qed.

  Lemma trap_pts_eq : trapezoid_pts ROps n a b = tabulate n (fun i => a + h * INR i).
  Proof.
    unfold trapezoid_pts. apply tabulate_ext. intros i _. rewrite !ofnat_R.
    unfold n. replace (S m - 1)%nat with m by lia. reflexivity.
  Qed.

  Definition trap_c (i : nat) : R := if (i =? 0)%nat || (i =? m)%nat then 1 / 2 else 1.
  Lemma trap_wts_eq : trapezoid_wts ROps n a b = tabulate n (fun i => h * trap_c i).
  Proof.
    unfold trapezoid_wts. apply tabulate_ext. intros i _. rewrite ofnat_R.
    unfold n, trap_c. replace (S m - 1)%nat with m by lia.
    destruct ((i =? 0)%nat || (i =? m)%nat); cbn; unfold h; field; apply Rgt_not_eq, INRm_pos.
  Qed.

  (* sum_{i<=m} c_i f(i) = sum_{i<=m} f(i) - f(0)/2 - f(m)/2 *)
  Lemma trap_sum (f : nat -> R) :
    vsum ROps (tabulate n (fun i => trap_c i * f i))
    = vsum ROps (tabulate n f) - f 0%nat / 2 - f m / 2.
  Proof.
    unfold n. rewrite !vsum_tab_S.
    assert (forall k, (k <= m)%nat ->
       vsum ROps (tabulate k (fun i => trap_c i * f i))
       = vsum ROps (tabulate k f) - (if (k =? 0)%nat then 0 else f 0%nat / 2)) as Hk.
    { induction k as [|k IH]; intros Hle; [cbn; lra|].
      rewrite !vsum_tab_S, IH by lia. unfold trap_c.
      destruct k as [|k].
      - cbn. lra.
      - replace (S k =? m)%nat with false by (symmetry; apply Nat.eqb_neq; lia).
        change (S (S k) =? 0)%nat with false. change (S k =? 0)%nat with false. cbn [orb]. lra. }
    rewrite Hk by lia. unfold trap_c. rewrite Nat.eqb_refl, orb_true_r.
    destruct m as [|m']; [lia|]. cbn [Nat.eqb]. lra.
  Qed.

  Lemma sum_INR k : vsum ROps (tabulate k INR) = INR k * (INR k - 1) / 2.
  Proof. induction k as [|k IH]; [cbn; lra|]. rewrite vsum_tab_S, IH, S_INR. lra. Qed.

  Lemma trap_moment0 : mom (trapezoid_pts ROps n a b) (trapezoid_wts ROps n a b) 0 = mono_int a b 0.
  Proof.
    unfold moment. rewrite trap_pts_eq, trap_wts_eq, vmap2_tab. cbn [opow].
    rewrite (vsum_tab_ext n _ (fun i => trap_c i * h)) by (intros; cbn; lra).
    rewrite trap_sum, vsum_tab_const. unfold n. rewrite S_INR. unfold h, mono_int. cbn. field.
    apply Rgt_not_eq, INRm_pos.
  Qed.

  Lemma trap_moment1 : mom (trapezoid_pts ROps n a b) (trapezoid_wts ROps n a b) 1 = mono_int a b 1.
  Proof.
    unfold moment. rewrite trap_pts_eq, trap_wts_eq, vmap2_tab. cbn [opow].
    rewrite (vsum_tab_ext n _ (fun i => trap_c i * (h * (a + h * INR i)))) by (intros; cbn; lra).
    rewrite trap_sum.
    rewrite (vsum_tab_ext n _ (fun i => h * a + (h * h) * INR i)) by (intros; lra).
    rewrite vsum_tab_plus, vsum_tab_const, vsum_tab_scal, sum_INR. unfold n. rewrite S_INR.
    unfold h, mono_int. cbn. field. apply Rgt_not_eq, INRm_pos.
  Qed.

  Lemma trap_sum_weights : vsum ROps (trapezoid_wts ROps n a b) = b - a.
  Proof.
    rewrite trap_wts_eq.
    rewrite (vsum_tab_ext n _ (fun i => trap_c i * h)) by (intros; lra).
    rewrite trap_sum, vsum_tab_const. unfold n. rewrite S_INR. unfold h. field.
    apply Rgt_not_eq, INRm_pos.
  Qed.

  Hypothesis Hab : a < b.
  Lemma trap_h_pos : 0 < h.
  Proof. unfold h. apply Rdiv_lt_0_compat; [lra | apply INRm_pos]. Qed.

  Lemma trap_weights_pos : forall w, In w (trapezoid_wts ROps n a b) -> 0 < w.
  Proof.
    rewrite trap_wts_eq. unfold tabulate. intros w Hw. apply in_map_iff in Hw.
    destruct Hw as [i [<- _]]. pose proof trap_h_pos. unfold trap_c.
    destruct ((i =? 0)%nat || (i =? m)%nat); nra.
  Qed.

  Lemma trap_nodes_increasing : forall i, (S i < n)%nat ->
    nth i (trapezoid_pts ROps n a b) 0 < nth (S i) (trapezoid_pts ROps n a b) 0.
  Proof.
    intros i Hi. rewrite trap_pts_eq, !nth_tabulate by lia. rewrite S_INR.
    pose proof trap_h_pos. nra.
  Qed.

  Lemma trap_nodes_inside : forall i, (i < n)%nat ->
    a <= nth i (trapezoid_pts ROps n a b) 0 <= b.
  Proof.
    intros i Hi. rewrite trap_pts_eq, nth_tabulate by lia.
    pose proof trap_h_pos as Hh. pose proof (pos_INR i) as Hi0.
    assert (INR i <= INR m) as Hle by (apply le_INR; unfold n in Hi; lia).
    assert (h * INR m = b - a) as Hhn by (unfold h; field; apply Rgt_not_eq, INRm_pos).
    split; nra.
  Qed.

  Lemma trap_endpoints :
    nth 0 (trapezoid_pts ROps n a b) 0 = a /\ nth m (trapezoid_pts ROps n a b) 0 = b.
  Proof.
    rewrite trap_pts_eq, !nth_tabulate by (unfold n; lia). split; [cbn; lra|].
    unfold h. field. apply Rgt_not_eq, INRm_pos.
  Qed.
End Trapezoid.

(* ------------------------------------------------------------- simpson *)
Section Simpson.
  Variables (m : nat) (a b : R).        (* n = 2m+1 points, m >= 1 *)
  Hypothesis Hm : (1 <= m)%nat.
  Let n := S (2 * m).
  Let h := (b - a) / INR (2 * m).
  Lemma INR2m_pos : 0 < INR (2 * m). Proof. apply lt_0_INR. lia. Qed.

  Definition c' (i : nat) : R := if (i =? 0)%nat then 1 else if Nat.odd i then 4 else 2.

  Lemma odd_2k1 k : Nat.odd (2 * k + 1) = true.
  Proof. rewrite Nat.add_1_r, Nat.odd_succ, Nat.even_mul. reflexivity. Qed.
  Lemma odd_2k k : Nat.odd (2 * k) = false.
  Proof. rewrite <- Nat.negb_even, Nat.even_mul. reflexivity. Qed.

  Lemma simp_A (g : nat -> R) k :
    vsum ROps (tabulate (S (2 * k)) (fun i => c' i * g i))
    = vsum ROps (tabulate k (fun j => g (2 * j)%nat + 4 * g (2 * j + 1)%nat + g (2 * j + 2)%nat))
      + g (2 * k)%nat.
  Proof.
    induction k as [|k IH].
    - cbn. unfold c'; cbn. lra.
    - replace (S (2 * S k)) with (S (S (S (2 * k)))) by lia.
      rewrite (vsum_tab_S (S (S (2 * k)))), (vsum_tab_S (S (2 * k))), IH, (vsum_tab_S k).
      unfold c'.
      replace (S (2 * k)) with (2 * k + 1)%nat by lia.
      replace (S (2 * k + 1)) with (2 * (k + 1))%nat by lia.
      rewrite odd_2k1, odd_2k.
      replace (2 * k + 1 =? 0)%nat with false by (symmetry; apply Nat.eqb_neq; lia).
      replace (2 * (k + 1) =? 0)%nat with false by (symmetry; apply Nat.eqb_neq; lia).
      replace (2 * S k)%nat with (2 * k + 2)%nat by lia.
      replace (2 * (k + 1))%nat with (2 * k + 2)%nat by lia. lra.
  Qed.

  Lemma simp_coef_sum (g : nat -> R) :
    vsum ROps (tabulate n (fun i => IZR (simpson_coef n i) * g i))
    = vsum ROps (tabulate m (fun j => g (2 * j)%nat + 4 * g (2 * j + 1)%nat + g (2 * j + 2)%nat)).
  Proof.
    pose proof (simp_A g m) as HA. unfold n in *.
    rewrite vsum_tab_S in HA. rewrite vsum_tab_S.
    rewrite (vsum_tab_ext (2 * m) _ (fun i => c' i * g i)).
    - unfold simpson_coef, c' in *.
      replace (S (2 * m) - 1)%nat with (2 * m)%nat by lia. rewrite Nat.eqb_refl, orb_true_r.
      rewrite odd_2k in HA.
      replace (2 * m =? 0)%nat with false in * by (symmetry; apply Nat.eqb_neq; lia). lra.
    - intros i Hi. unfold simpson_coef, c'.
      replace (S (2 * m) - 1)%nat with (2 * m)%nat by lia.
      replace (i =? 2 * m)%nat with false by (symmetry; apply Nat.eqb_neq; lia).
      rewrite orb_false_r. destruct (i =? 0)%nat; [reflexivity|]. destruct (Nat.odd i); reflexivity.
  Qed.

  Lemma simp_pts_eq : simpson_pts ROps n a b = tabulate n (fun i => a + h * INR i).
  Proof.
    unfold simpson_pts, trapezoid_pts. apply tabulate_ext. intros i _. rewrite !ofnat_R.
    unfold n. replace (S (2 * m) - 1)%nat with (2 * m)%nat by lia. reflexivity.
  Qed.
  Lemma simp_wts_eq : simpson_wts ROps n a b = tabulate n (fun i => IZR (simpson_coef n i) * (h / 3)).
  Proof.
    unfold simpson_wts. apply tabulate_ext. intros i _. rewrite ofnat_R.
    unfold n. replace (S (2 * m) - 1)%nat with (2 * m)%nat by lia. reflexivity.
  Qed.

  (* telescoping panel sums for x^p, p = 0..3 *)
  Lemma simp_panels (p : nat) : (p <= 3)%nat -> forall k,
    vsum ROps (tabulate k (fun j =>
        h / 3 * (a + h * INR (2 * j)) ^ p + 4 * (h / 3 * (a + h * INR (2 * j + 1)) ^ p)
        + h / 3 * (a + h * INR (2 * j + 2)) ^ p))
    = ((a + h * INR (2 * k)) ^ S p - a ^ S p) / INR (S p).
  Proof.
    intros Hp k. induction k as [|k IH].
    - cbn [tabulate seq map vsum]. replace (INR (2 * 0)) with 0 by (cbn; lra).
      rewrite Rmult_0_r, Rplus_0_r. unfold Rminus. rewrite Rplus_opp_r. unfold Rdiv. cbn [o0 ROps]. ring.
    - rewrite vsum_tab_S, IH.
      replace (INR (2 * S k)) with (INR (2 * k) + 2) by (replace (2 * S k)%nat with (2 * k + 2)%nat by lia; rewrite plus_INR; simpl (INR 2); lra).
      replace (INR (2 * k + 1)) with (INR (2 * k) + 1) by (rewrite plus_INR; simpl (INR 1); lra).
      replace (INR (2 * k + 2)) with (INR (2 * k) + 2) by (rewrite plus_INR; simpl (INR 2); lra).
      generalize (INR (2 * k)). intros t.
      destruct p as [|[|[|[|p]]]]; try lia; cbn; field.
  Qed.

  Lemma simp_moment p : (p <= 3)%nat ->
    mom (simpson_pts ROps n a b) (simpson_wts ROps n a b) p = mono_int a b p.
  Proof.
    intros Hp. unfold moment. rewrite simp_pts_eq, simp_wts_eq, vmap2_tab.
    rewrite (vsum_tab_ext n _ (fun i => IZR (simpson_coef n i) * (h / 3 * (a + h * INR i) ^ p)))
      by (intros; cbn [omul ROps]; rewrite opow_R; lra).
    rewrite (simp_coef_sum (fun i => h / 3 * (a + h * INR i) ^ p)).
    rewrite (simp_panels p Hp m). unfold mono_int. f_equal. f_equal. f_equal.
    unfold h. field. apply Rgt_not_eq, INR2m_pos.
  Qed.

  Lemma simp_sum_weights : vsum ROps (simpson_wts ROps n a b) = b - a.
  Proof.
    pose proof (simp_moment 0 ltac:(lia)) as H. unfold moment in H.
    rewrite simp_pts_eq, simp_wts_eq, vmap2_tab in H. cbn [opow] in H.
    rewrite simp_wts_eq.
    rewrite (vsum_tab_ext n _ (fun i => omul ROps (IZR (simpson_coef n i) * (h / 3)) (o1 ROps))) by (intros; cbn; lra).
    rewrite H. unfold mono_int. cbn. field.
  Qed.

  Hypothesis Hab : a < b.
  Lemma simp_weights_pos : forall w, In w (simpson_wts ROps n a b) -> 0 < w.
  Proof.
    rewrite simp_wts_eq. unfold tabulate. intros w Hw. apply in_map_iff in Hw.
    destruct Hw as [i [<- _]].
    assert (0 < h) by (unfold h; apply Rdiv_lt_0_compat; [lra | apply INR2m_pos]).
    unfold simpson_coef. destruct ((i =? 0)%nat || (i =? n - 1)%nat); [|destruct (Nat.odd i)]; lra.
  Qed.
End Simpson.

(* ------------------------------------------- Gauss-Legendre: affine map *)
From Coquelicot Require Import Coquelicot.

Definition rule_sum (x w : list R) (f : R -> R) : R :=
  vsum ROps (vmap2 (fun xi wi => wi * f xi) x w).

Lemma nth_map_lt {A B} (g : A -> B) l i d d' : (i < length l)%nat -> nth i (map g l) d' = g (nth i l d).
Proof.
  revert i. induction l as [|y l IH]; intros [|i] H; cbn in *; try lia; [reflexivity | apply IH; lia].
Qed.

Section GL.
  Variables (a b : R).
  Hypothesis Hab : a < b.
  Let c := (b - a) / 2.
  Let mid := (a + b) / 2.

  Lemma gl_pts_eq x : gl_pts ROps x a b = map (fun xi => c * xi + mid) x.
  Proof. unfold gl_pts. apply map_ext. intros xi. cbn. unfold c, mid. field. Qed.
  Lemma gl_wts_eq w : gl_wts ROps w a b = map (fun wi => c * wi) w.
  Proof. unfold gl_wts. apply map_ext. intros wi. cbn. unfold c. field. Qed.

  Lemma rule_sum_affine x w f :
    rule_sum (gl_pts ROps x a b) (gl_wts ROps w a b) f
    = c * rule_sum x w (fun y => f (c * y + mid)).
  Proof.
    rewrite gl_pts_eq, gl_wts_eq. unfold rule_sum. revert w.
    induction x as [|xi x IH]; intros [|wi w]; cbn; try lra.
    cbn in IH. rewrite IH. lra.
  Qed.

  Lemma gl_affine_exact x w (f : R -> R) :
    (forall t, continuous f t) ->
    rule_sum x w (fun y => f (c * y + mid)) = RInt (fun y => f (c * y + mid)) (-1) 1 ->
    rule_sum (gl_pts ROps x a b) (gl_wts ROps w a b) f = RInt f a b.
  Proof.
    intros Hc Hex. rewrite rule_sum_affine, Hex.
    assert (ex_RInt f (c * -1 + mid) (c * 1 + mid)) as Hf
      by (apply (ex_RInt_continuous (V:=R_CompleteNormedModule)); intros; apply Hc).
    pose proof (RInt_comp_lin f c mid (-1) 1 Hf) as H.
    replace (c * -1 + mid) with a in H by (unfold c, mid; field).
    replace (c * 1 + mid) with b in H by (unfold c, mid; field).
    rewrite <- H. symmetry.
    assert (ex_RInt (fun y => f (c * y + mid)) (-1) 1) as Hg.
    { apply (ex_RInt_continuous (V:=R_CompleteNormedModule)). intros z _.
      apply continuous_comp; [|apply Hc].
      apply (continuous_plus (fun y => c * y) (fun _ => mid)); [|apply continuous_const].
      apply (continuous_scal_r c (fun y : R => y)). apply continuous_id. }
    rewrite (RInt_scal _ (-1) 1 c Hg). reflexivity.
  Qed.

  Lemma gl_sum_weights w : vsum ROps (gl_wts ROps w a b) = c * vsum ROps w.
  Proof.
    rewrite gl_wts_eq. induction w as [|wi w IH]; cbn in *; [lra | rewrite IH; lra].
  Qed.

  Lemma gl_weights_pos w : (forall wi, In wi w -> 0 < wi) ->
    forall wi, In wi (gl_wts ROps w a b) -> 0 < wi.
  Proof.
    intros H wi Hin. rewrite gl_wts_eq in Hin. apply in_map_iff in Hin.
    destruct Hin as [w0 [<- Hw0]]. specialize (H w0 Hw0). unfold c. nra.
  Qed.

  Lemma gl_nodes_order x i :
    (S i < length x)%nat -> nth i x 0 < nth (S i) x 0 ->
    nth i (gl_pts ROps x a b) 0 < nth (S i) (gl_pts ROps x a b) 0.
  Proof.
    intros Hi Hlt. rewrite gl_pts_eq.
    rewrite !(nth_map_lt (fun xi => c * xi + mid) x _ 0 0) by lia. unfold c. nra.
  Qed.

  Lemma gl_nodes_inside x xi : In xi x -> -1 < xi < 1 ->
    a < (fun t => c * t + mid) xi < b.
  Proof. intros _ H. unfold c, mid. split; nra. Qed.
End GL.

(* ---- polynomials of degree <= d are closed under affine substitution, so the degree of
       exactness of the reference rule on [-1,1] transfers to [a,b] ---- *)
Fixpoint peval (l : list R) (y : R) : R := match l with nil => 0 | c0 :: t => c0 + y * peval t y end.
Fixpoint padd (p q : list R) : list R :=
  match p, q with
  | nil, _ => q
  | _, nil => p
  | x :: p', y :: q' => (x + y) :: padd p' q'
  end.
Lemma peval_padd p q y : peval (padd p q) y = peval p y + peval q y.
Proof. revert q. induction p as [|x p IH]; intros [|z q]; cbn; try lra. rewrite IH. lra. Qed.
Lemma padd_length p q : length (padd p q) = Nat.max (length p) (length q).
Proof. revert q. induction p as [|x p IH]; intros [|z q]; cbn; try reflexivity. rewrite IH. reflexivity. Qed.
Lemma peval_scale k l y : peval (map (Rmult k) l) y = k * peval l y.
Proof. induction l as [|x l IH]; cbn; [lra | rewrite IH; lra]. Qed.

Definition poly_le (d : nat) (f : R -> R) : Prop := exists l, (length l <= S d)%nat /\ forall y, f y = peval l y.

Lemma poly_affine c m : forall l, exists l', (length l' <= length l)%nat /\ forall y, peval l (c * y + m) = peval l' y.
Proof.
  induction l as [|a0 l [l' [Hlen Hev]]].
  - exists nil. split; [lia | reflexivity].
  - (* a0 + (c y + m) q(y), q = l' *)
    exists (padd (a0 :: nil) (padd (map (Rmult m) l') (0 :: map (Rmult c) l'))). split.
    + rewrite !padd_length. cbn [length]. rewrite !map_length. lia.
    + intros y. cbn [peval]. rewrite Hev, !peval_padd. cbn [peval]. rewrite !peval_scale. ring.
Qed.

Lemma poly_le_affine d f c m : poly_le d f -> poly_le d (fun y => f (c * y + m)).
Proof.
  intros [l [Hl Hf]]. destruct (poly_affine c m l) as [l' [Hl' He]].
  exists l'. split; [lia|]. intros y. rewrite Hf. apply He.
Qed.

Lemma poly_le_pow k : poly_le k (fun t => t ^ k).
Proof.
  induction k as [|k [l [Hl Hf]]].
  - exists (1 :: nil). split; [cbn; lia | intros y; cbn; lra].
  - exists (0 :: l). split; [cbn; lia|]. intros y. cbn [pow peval]. rewrite Hf. ring.
Qed.
Lemma poly_le_mono d d' f : (d <= d')%nat -> poly_le d f -> poly_le d' f.
Proof. intros H [l [Hl Hf]]. exists l. split; [lia | exact Hf]. Qed.

(* exact for all polynomials of degree <= d on [-1,1]  ==>  the mapped rule integrates every
   monomial t^k, k <= d, exactly on [a,b] *)
Theorem gl_exact_to_degree a b (x w : list R) d : a < b ->
  (forall g, poly_le d g -> rule_sum x w g = RInt g (-1) 1) ->
  forall k, (k <= d)%nat -> rule_sum (gl_pts ROps x a b) (gl_wts ROps w a b) (fun t => t ^ k) = RInt (fun t => t ^ k) a b.
Proof.
  intros Hab Hex k Hk. apply (gl_affine_exact a b x w (fun t => t ^ k)).
  - intros t. apply (ex_derive_continuous (fun t => t ^ k)). auto_derive. exact I.
  - apply Hex. apply (poly_le_affine d (fun t => t ^ k) ((b - a) / 2) ((a + b) / 2)).
    apply (poly_le_mono k d); [exact Hk | apply poly_le_pow].
Qed.
