From Coq Require Import Reals ZArith List Lra Lia Bool Arith.
From MV Require Import Ops RInst Vec Restart Stopping StoppingP.
Import ListNotations.
Open Scope R_scope.

Section P.
  Context {Rho Ref : Type}.
  Notation tstateR := (tstate (T:=R) (Rho:=Rho) (Ref:=Ref)).

  Lemma mul_div_id (m v : list R) : length v = length m -> Forall (fun mi => mi <> 0) m ->
    vdivv ROps (vmul ROps m v) m = v.
  Proof.
    unfold vdivv, vmul. revert v. induction m as [|mi m IH]; intros [|vi v] Hl Hm; cbn in *; try discriminate; [reflexivity|].
    inversion Hm as [|? ? Hmi Hm']; subst. f_equal; [field; exact Hmi | apply IH; [lia | exact Hm']].
  Qed.

  (* restore (snapshot s_{k-1}) (snapshot s_k) = s_k whenever s_k's last velocity is the velocity
     of s_{k-1} and its step count is k = (length of the log) - 1 *)
  Lemma restore_snapshot (m : list R) (sp sl : tstateR) loglen :
    Forall (fun mi => mi <> 0) m -> length (vel sl) = length m -> length (vel sp) = length m ->
    lastvel sl = vel sp -> nsteps sl = (loglen - 1)%nat ->
    restore ROps m (snapshot_of ROps m sp) (snapshot_of ROps m sl) loglen = sl.
  Proof.
    intros Hm Hl Hp Hlv Hn. unfold restore, snapshot_of. cbn.
    rewrite (mul_div_id m (vel sl) Hl Hm), (mul_div_id m (vel sp) Hp Hm), <- Hlv, <- Hn.
    destruct sl; reflexivity.
  Qed.

  (* a deterministic step that keeps the bookkeeping the loop relies on *)
  Variable m : list R.
  Variable step : tstateR -> tstateR.
  Hypothesis step_lastvel : forall s, lastvel (step s) = vel s.
  Hypothesis step_nsteps : forall s, nsteps (step s) = S (nsteps s).
  Hypothesis step_len : forall s, length (vel s) = length m -> length (vel (step s)) = length m.
  Hypothesis Hm : Forall (fun mi => mi <> 0) m.

  Fixpoint run (n : nat) (s : tstateR) : tstateR := match n with 0 => s | S n' => step (run n' s) end.
  Definition log_of (n : nat) (s0 : tstateR) : list snap := map (fun j => snapshot_of ROps m (run j s0)) (seq 0 (S n)).

  Lemma run_nsteps n s0 : nsteps (run n s0) = (nsteps s0 + n)%nat.
  Proof. induction n as [|n IH]; cbn; [lia | rewrite step_nsteps, IH; lia]. Qed.
  Lemma run_len n s0 : length (vel s0) = length m -> length (vel (run n s0)) = length m.
  Proof. intros H. induction n as [|n IH]; cbn; [exact H | apply step_len; exact IH]. Qed.

  Lemma log_length n s0 : length (log_of n s0) = S n.
  Proof. unfold log_of. rewrite map_length, seq_length. reflexivity. Qed.

  Lemma log_nth n s0 j d : (j <= n)%nat -> nth j (log_of n s0) d = snapshot_of ROps m (run j s0).
  Proof.
    intros H. unfold log_of.
    rewrite (nth_indep _ d (snapshot_of ROps m (run 0 s0))) by (rewrite map_length, seq_length; lia).
    rewrite (map_nth (fun j => snapshot_of ROps m (run j s0)) (seq 0 (S n)) 0%nat j), seq_nth by lia. reflexivity.
  Qed.

  (* the state rebuilt from the log of k >= 1 steps is the state after k steps *)
  Lemma restart_state k s0 d : (1 <= k)%nat -> nsteps s0 = 0%nat -> length (vel s0) = length m ->
    let lg := log_of k s0 in
    restore ROps m (nth (k - 1) lg d) (nth k lg d) (length lg) = run k s0.
  Proof.
    intros Hk Hn0 Hl lg. unfold lg. rewrite log_length, !log_nth by lia.
    destruct k as [|k]; [lia|]. replace (S k - 1)%nat with k by lia.
    apply restore_snapshot; try assumption.
    - apply run_len; exact Hl.
    - apply run_len; exact Hl.
    - cbn [run]. apply step_lastvel.
    - rewrite run_nsteps. lia.
  Qed.

  (* hence the continuation is the uninterrupted run *)
  Lemma restart_resumes k n s0 d : (1 <= k)%nat -> nsteps s0 = 0%nat -> length (vel s0) = length m ->
    let lg := log_of k s0 in
    run n (restore ROps m (nth (k - 1) lg d) (nth k lg d) (length lg)) = run (k + n) s0.
  Proof.
    intros Hk Hn0 Hl lg. unfold lg. rewrite (restart_state k s0 d Hk Hn0 Hl).
    induction n as [|n IH]; [rewrite Nat.add_0_r; reflexivity|].
    replace (k + S n)%nat with (S (k + n)) by lia. cbn [run]. rewrite IH. reflexivity.
  Qed.
End P.

(* the stopping rule of the restarted loop (n0 = k, t0 = t_k, positions shifted, no box):
   same stopping index, shifted by k *)
Lemma stopP_shift (c : cfg (T:=R)) t0 posf k j : box c = None ->
  stopP c k (tk c t0 k) (fun i => posf (k + i)%nat) j <-> stopP c 0 t0 posf (k + j).
Proof.
  intros Hb. unfold stopP.
  assert (forall x, inside ROps c x = false) as Hin by (intros x; unfold inside; rewrite Hb; reflexivity).
  assert (tk c (tk c t0 k) j = tk c t0 (k + j)) as Et by (unfold tk; rewrite plus_INR; ring).
  rewrite Et. replace (0 + (k + j))%nat with (k + j)%nat by lia.
  assert (forall (pf : nat -> list R) q, latch c pf q = false) as Hl.
  { intros. unfold latch. induction (seq 0 q) as [|a l IH]; cbn; [reflexivity | rewrite Hin, IH; reflexivity]. }
  rewrite !Hl. intuition congruence.
Qed.
