(* Proof/ReverseP.v — time-reversal symmetry of the midpoint generator and of the
   exponential electronic step (real instance). *)
From Coq Require Import Reals Ring Lra Lia List Arith Bool Setoid Morphisms.
From MV Require Import Ops RInst Vec Cplx Mat CRing SumR MatP Propagate PropagateP.
Import ListNotations.
Open Scope R_scope.
Local Open Scope C_scope.

Definition fconj (A : FM) : FM := fun i j => (A i j)^*.
Definition mconj (n : nat) (M : mat (T:=R)) : mat := mmk n n (fconj (mget ROps M)).

Global Instance fconj_Proper n : Proper (meq n ==> meq n) fconj.
Proof. intros A B H i j Hi Hj. unfold fconj. rewrite (H i j Hi Hj). reflexivity. Qed.

Lemma mconj_spec n M : meq n (mget ROps (mconj n M)) (fconj (mget ROps M)).
Proof. apply mmk_spec. Qed.
Lemma fconj_mul n A B : meq n (fconj (fm n A B)) (fm n (fconj A) (fconj B)).
Proof. intros i j _ _. unfold fconj, fmul. rewrite csum_conj. apply csum_ext. intros k _. apply cconj_mul. Qed.
Lemma fconj_adj n A : meq n (fconj (fa A)) (fa (fconj A)).
Proof. intros i j _ _. reflexivity. Qed.
Lemma fconj_invol n A : meq n (fconj (fconj A)) A.
Proof. intros i j _ _. unfold fconj. apply cconj_invol. Qed.

(* ---- vectors ---- *)
Lemma vadd_comm (a b : list R) : vadd ROps a b = vadd ROps b a.
Proof. unfold vadd. revert b. induction a as [|x a IH]; intros [|y b]; cbn; try reflexivity. rewrite IH. f_equal. lra. Qed.
Lemma vadd_opp (a b : list R) : vadd ROps (map Ropp a) (map Ropp b) = map Ropp (vadd ROps a b).
Proof. unfold vadd. revert b. induction a as [|x a IH]; intros [|y b]; cbn; try reflexivity. rewrite IH. f_equal. lra. Qed.
Lemma vdot_opp_r (a b : list R) : vdot ROps a (map Ropp b) = (- vdot ROps a b)%R.
Proof. unfold vdot, vmul. revert b. induction a as [|x a IH]; intros [|y b]; cbn in *; try lra. rewrite IH. lra. Qed.
Lemma map_half_opp (a : list R) : map (fun s => omul ROps (ohalf ROps) s) (map Ropp a) = map Ropp (map (fun s => omul ROps (ohalf ROps) s) a).
Proof. rewrite !map_map. apply map_ext. intros x. cbn. lra. Qed.

(* the generator of the reversed step (ends swapped, velocities negated) is the complex
   conjugate of the generator of the forward step *)
Lemma Wmid_reversed n H0 H1 tau0 tau1 v lastv :
  meq n (mget ROps (Wmid ROps n H1 H0 tau1 tau0 (map Ropp lastv) (map Ropp v)))
        (fconj (mget ROps (Wmid ROps n H0 H1 tau0 tau1 v lastv))).
Proof.
  unfold Wmid. rewrite (mmk_spec n _). intros i j Hi Hj. unfold fconj. rewrite (mmk_spec n _ i j Hi Hj).
  rewrite vadd_opp, map_half_opp, vdot_opp_r, (vadd_comm lastv v), (vadd_comm (tget tau0 i j) (tget tau1 i j)).
  apply C_eq; cbn; ring.
Qed.

(* ---- the exponential step undoes itself under time reversal ---- *)
Section Rev.
  Variable n : nat.
  Variables (lam : list R) (Cm : mat (T:=R)) (dt : R).
  Hypothesis Hl : length lam = n.
  Hypothesis HC : unitary n (mget ROps Cm).

  Let U := Uf n lam Cm dt.
  Let Urev := Uf n lam (mconj n Cm) dt.

  Lemma fdiag_adj_conj d : meq n (fa (fdiag ROps d)) (fconj (fdiag ROps d)).
  Proof.
    intros i j _ _. unfold fadj, fconj, fdiag. rewrite (Nat.eqb_sym j i).
    destruct (Nat.eqb_spec i j) as [->|_]; reflexivity.
  Qed.

  Lemma Urev_is_conj_Uadj : meq n Urev (fconj (fa U)).
  Proof.
    unfold Urev, U, Uf. rewrite (mconj_spec n Cm).
    rewrite (fadj_mul n (fm n (mget ROps Cm) (fdiag ROps (dphase lam dt))) (fa (mget ROps Cm))).
    rewrite (fadj_invol n (mget ROps Cm)), (fadj_mul n (mget ROps Cm) (fdiag ROps (dphase lam dt))).
    rewrite (fconj_mul n _ _), (fconj_mul n _ _), (fconj_adj n (mget ROps Cm)).
    rewrite (fdiag_adj_conj (dphase lam dt)), (fconj_invol n (fdiag ROps (dphase lam dt))).
    apply fmul_assoc.
  Qed.

  Lemma exp_step_reverses rho :
    meq n (mget ROps (exp_step ROps n lam (mconj n Cm) dt (mconj n (exp_step ROps n lam Cm dt rho))))
          (fconj (mget ROps rho)).
  Proof.
    rewrite (exp_step_spec n lam (mconj n Cm) dt _). fold Urev.
    rewrite (mconj_spec n _), (exp_step_spec n lam Cm dt rho). fold U.
    rewrite Urev_is_conj_Uadj.
    rewrite <- (fconj_adj n (fa U)), (fadj_invol n U).
    rewrite <- (fconj_mul n (fm n U (fm n (mget ROps rho) (fa U))) U).
    rewrite <- (fconj_mul n (fa U) _).
    apply fconj_Proper.
    pose proof (Uf_unitary n lam Cm dt Hl HC) as HU. fold U in HU.
    rewrite (fmul_assoc n U (fm n (mget ROps rho) (fa U)) U), (fmul_assoc n (mget ROps rho) (fa U) U), HU, (fmul_id_r n (mget ROps rho)).
    rewrite <- (fmul_assoc n (fa U) U (mget ROps rho)), HU. apply fmul_id_l.
  Qed.
End Rev.
