(* Proof/Rk4P.v — the 'linear-rk4' electronic propagation preserves trace and Hermiticity
   exactly (it is not unitary: purity/positivity only to integrator accuracy). *)
From Coq Require Import Reals Ring Lra Lia List Arith Bool Setoid Morphisms.
From MV Require Import Ops RInst Vec Cplx Mat CRing SumR MatP Propagate PropagateP.
Import ListNotations.
Open Scope R_scope.
Local Open Scope C_scope.

Notation mg := (mget ROps).
Definition aherm (n : nat) (A : FM) : Prop := meq n (fa A) (fscale ROps (copp ROps (c1 ROps)) A).
Definition realm (n : nat) (A : FM) : Prop := forall i j, (i < n)%nat -> (j < n)%nat -> (A i j)^* = A i j.

Section Alg.
  Variable n : nat.

  Lemma herm_fadd A B : herm n A -> herm n B -> herm n (fadd ROps A B).
  Proof. intros HA HB i j Hi Hj. unfold fadj, fadd. rewrite cconj_add. rewrite <- (HA i j Hi Hj), <- (HB i j Hi Hj). reflexivity. Qed.
  Lemma herm_fsub A B : herm n A -> herm n B -> herm n (fsub ROps A B).
  Proof. intros HA HB i j Hi Hj. unfold fadj, fsub. rewrite cconj_sub. rewrite <- (HA i j Hi Hj), <- (HB i j Hi Hj). reflexivity. Qed.
  Lemma herm_rscale (a : R) A : herm n A -> herm n (fscale ROps (cofr ROps a) A).
  Proof. intros HA i j Hi Hj. unfold fadj, fscale. rewrite cconj_mul, cconj_ofr. rewrite <- (HA i j Hi Hj). reflexivity. Qed.
  Lemma aherm_fadd A B : aherm n A -> aherm n B -> aherm n (fadd ROps A B).
  Proof.
    intros HA HB i j Hi Hj. specialize (HA i j Hi Hj). specialize (HB i j Hi Hj).
    unfold fadj, fadd, fscale in *. rewrite cconj_add, HA, HB. ring.
  Qed.
  Lemma aherm_rscale (a : R) A : aherm n A -> aherm n (fscale ROps (cofr ROps a) A).
  Proof.
    intros HA i j Hi Hj. specialize (HA i j Hi Hj). unfold fadj, fscale in *. rewrite cconj_mul, cconj_ofr, HA. ring.
  Qed.
  (* H - i W is Hermitian when H is Hermitian and W anti-Hermitian *)
  Lemma herm_H_minus_iW H W : herm n H -> aherm n W ->
    herm n (fsub ROps H (fscale ROps (o0 ROps, o1 ROps) W)).
  Proof.
    intros HH HW i j Hi Hj. specialize (HH i j Hi Hj). specialize (HW i j Hi Hj).
    unfold fadj, fsub, fscale in *. rewrite cconj_sub, cconj_mul, HH, HW. csolve.
  Qed.
  Lemma herm_fhad A B : herm n A -> herm n B -> herm n (fhad ROps A B).
  Proof. intros HA HB i j Hi Hj. unfold fadj, fhad. rewrite cconj_mul. rewrite <- (HA i j Hi Hj), <- (HB i j Hi Hj). reflexivity. Qed.

  (* -i [HI, rho] *)
  Definition comm (HI rho : FM) : FM := fscale ROps (o0 ROps, oopp ROps (o1 ROps)) (fsub ROps (fm n HI rho) (fm n rho HI)).
  Lemma fadj_fscale c A : meq n (fa (fscale ROps c A)) (fscale ROps (c^*) (fa A)).
  Proof. intros i j _ _. unfold fadj, fscale. apply cconj_mul. Qed.
  Lemma fadj_fsub A B : meq n (fa (fsub ROps A B)) (fsub ROps (fa A) (fa B)).
  Proof. intros i j _ _. unfold fadj, fsub. apply cconj_sub. Qed.

  Lemma comm_herm HI rho : herm n HI -> herm n rho -> herm n (comm HI rho).
  Proof.
    intros HH Hr. unfold herm, comm in *.
    rewrite (fadj_fscale _ _), (fadj_fsub _ _), (fadj_mul n HI rho), (fadj_mul n rho HI), HH, Hr.
    intros i j _ _. unfold fscale, fsub.
    generalize (fm n rho HI i j) (fm n HI rho i j). intros a b. csolve.
  Qed.
  Lemma comm_traceless HI rho : ftrace ROps n (comm HI rho) = 0.
  Proof.
    unfold comm. rewrite ftrace_scale. unfold ftrace, fsub. rewrite csum_sub.
    fold (ftrace ROps n (fm n HI rho)). fold (ftrace ROps n (fm n rho HI)). rewrite (ftrace_cyclic n HI rho). ring.
  Qed.

  (* X A Y adjoint *)
  Lemma herm_congr V A : herm n A -> herm n (fm n (fm n (fa V) A) V).
  Proof.
    intros HA. unfold herm in *.
    rewrite (fadj_mul n (fm n (fa V) A) V), (fadj_mul n (fa V) A), (fadj_invol n V), HA.
    symmetry. apply fmul_assoc.
  Qed.
  Lemma fmul_fscale_l c A B : meq n (fm n (fscale ROps c A) B) (fscale ROps c (fm n A B)).
  Proof. intros i j _ _. unfold fmul, fscale. rewrite <- csum_scale_l. apply csum_ext. intros k _. ring. Qed.
  Lemma fmul_fscale_r c A B : meq n (fm n A (fscale ROps c B)) (fscale ROps c (fm n A B)).
  Proof. intros i j _ _. unfold fmul, fscale. rewrite <- csum_scale_l. apply csum_ext. intros k _. ring. Qed.

  Lemma aherm_congr V A : aherm n A -> aherm n (fm n (fm n (fa V) A) V).
  Proof.
    intros HA. unfold aherm in *.
    rewrite (fadj_mul n (fm n (fa V) A) V), (fadj_mul n (fa V) A), (fadj_invol n V), HA.
    rewrite (fmul_fscale_l _ A V), (fmul_fscale_r _ (fa V) (fm n A V)), <- (fmul_assoc n (fa V) A V). reflexivity.
  Qed.
  Lemma herm_congr' V A : herm n A -> herm n (fm n (fm n V A) (fa V)).
  Proof.
    intros HA. pose proof (herm_congr (fa V) A HA) as H. unfold herm in *.
    rewrite (fadj_invol n V) in H. exact H.
  Qed.
  Lemma trace_congr V A : meq n (fm n V (fa V)) fI -> ftrace ROps n (fm n (fm n (fa V) A) V) = ftrace ROps n A.
  Proof.
    intros HV. rewrite ftrace_cyclic. rewrite <- (fmul_assoc n V (fa V) A), HV, (fmul_id_l n A). reflexivity.
  Qed.
  Lemma trace_congr' V A : meq n (fm n (fa V) V) fI -> ftrace ROps n (fm n (fm n V A) (fa V)) = ftrace ROps n A.
  Proof.
    intros HV. rewrite ftrace_cyclic. rewrite <- (fmul_assoc n (fa V) V A), HV, (fmul_id_l n A). reflexivity.
  Qed.

  Lemma real_tr_adj V : realm n V -> meq n (ftr V) (fa V).
  Proof. intros H i j Hi Hj. unfold ftr, fadj. symmetry. apply H; assumption. Qed.

  (* phases: P_jk = e_j conj(e_k), |e_j| = 1 *)
  Definition phasef (eigs : list R) (t : R) : FM :=
    fun j k => ccis ROps (omul ROps (nth j eigs 0%R) t) * (ccis ROps (omul ROps (nth k eigs 0%R) t))^*.
  Lemma phase_herm eigs t : herm n (phasef eigs t).
  Proof. intros i j _ _. unfold fadj, phasef. rewrite cconj_mul, cconj_invol. ring. Qed.
  Lemma phase_diag eigs t j : phasef eigs t j j = 1.
  Proof. unfold phasef. rewrite <- (ccis_unit (omul ROps (nth j eigs 0%R) t)). ring. Qed.
  Lemma phase_conj_herm eigs t : herm n (fun j k => (phasef eigs t j k)^*).
  Proof. intros i j _ _. unfold fadj, phasef. rewrite !cconj_mul, !cconj_invol. ring. Qed.
  Lemma trace_had_unit_diag A P : (forall j, (j < n)%nat -> P j j = 1) -> ftrace ROps n (fhad ROps A P) = ftrace ROps n A.
  Proof. intros H. unfold ftrace, fhad. apply csum_ext. intros k Hk. rewrite (H k Hk). ring. Qed.
End Alg.

(* ---- the generic RK4 loop on list matrices ---- *)
Section Loop.
  Variable n : nat.
  Variable ydot : mat (T:=R) -> R -> mat (T:=R).
  Hypothesis ydot_herm : forall y t, mherm n y -> mherm n (ydot y t).
  Hypothesis ydot_trace : forall y t, mtrace ROps n (ydot y t) = 0.

  Lemma mherm_madd A B : mherm n A -> mherm n B -> mherm n (madd ROps n A B).
  Proof. intros HA HB. unfold mherm, herm in *. rewrite (madd_spec n A B). apply herm_fadd; assumption. Qed.
  Lemma mherm_rscale a A : mherm n A -> mherm n (rscale ROps n a A).
  Proof. intros HA. unfold mherm, herm, rscale in *. rewrite (mscale_spec n _ A). apply herm_rscale; assumption. Qed.
  Lemma mtrace_madd A B : mtrace ROps n (madd ROps n A B) = mtrace ROps n A + mtrace ROps n B.
  Proof. unfold mtrace. rewrite (madd_spec n A B). apply ftrace_add. Qed.
  Lemma mtrace_rscale a A : mtrace ROps n (rscale ROps n a A) = cofr ROps a * mtrace ROps n A.
  Proof. unfold mtrace, rscale. rewrite (mscale_spec n _ A). apply ftrace_scale. Qed.

  Lemma rk4_loop_preserves t0 h : forall steps i y, mherm n y ->
    mherm n (rk4_loop ROps n ydot t0 h steps i y)
    /\ mtrace ROps n (rk4_loop ROps n ydot t0 h steps i y) = mtrace ROps n y.
  Proof.
    induction steps as [|s IH]; intros i y Hy; cbn [rk4_loop]; [split; [exact Hy | reflexivity]|].
    set (t := oadd ROps t0 (omul ROps (ofnat ROps i) h)).
    set (k1 := ydot y t).
    set (k2 := ydot (madd ROps n y (rscale ROps n (omul ROps (ohalf ROps) h) k1)) (oadd ROps t (omul ROps (ohalf ROps) h))).
    set (k3 := ydot (madd ROps n y (rscale ROps n (omul ROps (ohalf ROps) h) k2)) (oadd ROps t (omul ROps (ohalf ROps) h))).
    set (k4 := ydot (madd ROps n y (rscale ROps n h k3)) (oadd ROps t h)).
    assert (mherm n k1) as H1 by (apply ydot_herm; exact Hy).
    assert (mherm n k2) as H2 by (apply ydot_herm, mherm_madd; [exact Hy | apply mherm_rscale; exact H1]).
    assert (mherm n k3) as H3 by (apply ydot_herm, mherm_madd; [exact Hy | apply mherm_rscale; exact H2]).
    assert (mherm n k4) as H4 by (apply ydot_herm, mherm_madd; [exact Hy | apply mherm_rscale; exact H3]).
    set (incr := madd ROps n (madd ROps n (madd ROps n k1 (rscale ROps n (o2 ROps) k2)) (rscale ROps n (o2 ROps) k3)) k4).
    assert (mherm n incr) as Hi by (unfold incr; repeat (apply mherm_madd || apply mherm_rscale); assumption).
    assert (mtrace ROps n incr = 0) as Ti.
    { unfold incr. rewrite !mtrace_madd, !mtrace_rscale. unfold k1, k2, k3, k4. rewrite !ydot_trace. ring. }
    destruct (IH (S i) (madd ROps n y (rscale ROps n (odiv ROps h (oofZ ROps 6)) incr))) as [A B].
    { apply mherm_madd; [exact Hy | apply mherm_rscale; exact Hi]. }
    split; [exact A|]. rewrite B, mtrace_madd, mtrace_rscale, Ti. ring.
  Qed.
End Loop.

(* ---- the 'linear-rk4' step of the model ---- *)
Lemma mtr_spec n A : meq n (mg (mtr ROps n A)) (ftr (mg A)).
Proof. apply mmk_spec. Qed.

Lemma mofreal_real n (A : list (list R)) : realm n (mg (mofreal ROps n A)).
Proof. intros i j Hi Hj. unfold mofreal. rewrite (mget_mmk n n _ i j Hi Hj). apply cconj_ofr. Qed.

Lemma congr_spec n V A : realm n (mg V) ->
  meq n (mg (congr ROps n V A)) (fm n (fm n (fa (mg V)) (mg A)) (mg V)).
Proof.
  intros HR. unfold congr. rewrite (mmul_spec n _ V), (mmul_spec n _ A), (mtr_spec n V), (real_tr_adj n (mg V) HR). reflexivity.
Qed.

Section Step.
  Variable n : nat.
  Variables (H0r H1r : list (list R)) (tau0 tau1 : list (list (list R))) (v lastv eigs : list R) (vecs : list (list R)).
  Variables (dt maxdt : R) (start : nat).
  Let V := mofreal ROps n vecs.
  Hypothesis V_orth : unitary n (mg V).
  Hypothesis H0_sym : mherm n (mofreal ROps n H0r).
  Hypothesis H1_sym : mherm n (mofreal ROps n H1r).
  Hypothesis TV_anti : forall tau w, (tau = tau0 \/ tau = tau1) -> (w = v \/ w = lastv) -> aherm n (mg (tvmat ROps n tau w)).

  Let HRV : realm n (mg V) := mofreal_real n vecs.

  Lemma congr_herm A : mherm n A -> mherm n (congr ROps n V A).
  Proof. intros HA. unfold mherm, herm in *. rewrite (congr_spec n V A HRV). apply herm_congr. exact HA. Qed.
  Lemma congr_aherm A : aherm n (mg A) -> aherm n (mg (congr ROps n V A)).
  Proof.
    intros HA. unfold aherm. rewrite (congr_spec n V A HRV). apply aherm_congr. exact HA.
  Qed.
  Lemma congr_trace A : mtrace ROps n (congr ROps n V A) = mtrace ROps n A.
  Proof. unfold mtrace. rewrite (congr_spec n V A HRV). apply trace_congr. apply V_orth. Qed.

  Lemma aherm_madd A B : aherm n (mg A) -> aherm n (mg B) -> aherm n (mg (madd ROps n A B)).
  Proof. intros HA HB. unfold aherm. rewrite (madd_spec n A B). apply aherm_fadd; assumption. Qed.
  Lemma aherm_mrscale a A : aherm n (mg A) -> aherm n (mg (rscale ROps n a A)).
  Proof. intros HA. unfold aherm, rscale. rewrite (mscale_spec n _ A). apply aherm_rscale; assumption. Qed.

  Lemma phases_spec t : meq n (mg (phases ROps n eigs t)) (phasef eigs t).
  Proof. unfold phases. apply mmk_spec. Qed.

  Lemma ydot_ok (H0 H1 W00 W11 W01 : mat (T:=R)) :
    mherm n H0 -> mherm n H1 -> aherm n (mg W00) -> aherm n (mg W11) -> aherm n (mg W01) ->
    (forall y t, mherm n y -> mherm n (rk4_ydot ROps n eigs H0 H1 W00 W11 W01 dt y t))
    /\ (forall y t, mtrace ROps n (rk4_ydot ROps n eigs H0 H1 W00 W11 W01 dt y t) = c0 ROps).
  Proof.
    intros h0 h1 a00 a11 a01. split.
    - intros y t Hy. unfold rk4_ydot.
      set (w0 := osub ROps (o1 ROps) (odiv ROps t dt)). set (w1 := odiv ROps t dt).
      set (H := madd ROps n (rscale ROps n (osub ROps w0 (o1 ROps)) H0) (rscale ROps n w1 H1)).
      set (Wt := madd ROps n (madd ROps n (rscale ROps n (omul ROps w0 w0) W00) (rscale ROps n (omul ROps w1 w1) W11)) (rscale ROps n (omul ROps w0 w1) W01)).
      set (Hbar := msub ROps n H (mscale ROps n (o0 ROps, o1 ROps) Wt)).
      set (HI := mhad ROps n Hbar (phases ROps n eigs t)).
      assert (mherm n H) as hH by (unfold H; apply mherm_madd; apply mherm_rscale; assumption).
      assert (aherm n (mg Wt)) as aW by (unfold Wt; repeat (apply aherm_madd || apply aherm_mrscale); assumption).
      assert (mherm n Hbar) as hHb.
      { unfold Hbar, mherm, herm. rewrite (msub_spec n H _), (mscale_spec n _ Wt). apply herm_H_minus_iW; assumption. }
      assert (mherm n HI) as hHI.
      { unfold HI, mherm, herm. rewrite (mhad_spec n Hbar _), (phases_spec t). apply herm_fhad; [exact hHb | apply phase_herm]. }
      unfold mi_scale, mherm, herm.
      rewrite (mscale_spec n _ _), (msub_spec n _ _), (mmul_spec n HI y), (mmul_spec n y HI).
      apply (comm_herm n (mg HI) (mg y)); assumption.
    - intros y t. unfold rk4_ydot, mi_scale, mtrace.
      rewrite (mscale_spec n _ _), (msub_spec n _ _), (mmul_spec n _ y), (mmul_spec n y _).
      apply (comm_traceless n).
  Qed.

  Theorem rk4_step_trace_herm rho : mherm n rho ->
    let rho' := rk4_step ROps n H0r H1r tau0 tau1 v lastv eigs vecs dt maxdt start rho in
    mherm n rho' /\ mtrace ROps n rho' = mtrace ROps n rho.
  Proof.
    intros Hr rho'. unfold rho', rk4_step. fold V.
    set (TV00 := tvmat ROps n tau0 lastv). set (TV11 := tvmat ROps n tau1 v).
    set (TV01 := madd ROps n (tvmat ROps n tau0 v) (tvmat ROps n tau1 lastv)).
    set (H0 := congr ROps n V (mofreal ROps n H0r)). set (H1 := congr ROps n V (mofreal ROps n H1r)).
    set (W00 := congr ROps n V TV00). set (W11 := congr ROps n V TV11). set (W01 := congr ROps n V TV01).
    set (ns := substeps ROps 40 dt maxdt start).
    set (rho0 := congr ROps n V rho).
    assert (mherm n H0) as h0 by (apply congr_herm; exact H0_sym).
    assert (mherm n H1) as h1 by (apply congr_herm; exact H1_sym).
    assert (aherm n (mg W00)) as a00 by (apply congr_aherm, TV_anti; auto).
    assert (aherm n (mg W11)) as a11 by (apply congr_aherm, TV_anti; auto).
    assert (aherm n (mg W01)) as a01 by (apply congr_aherm, aherm_madd; apply TV_anti; auto).
    destruct (ydot_ok H0 H1 W00 W11 W01 h0 h1 a00 a11 a01) as [Yh Yt].
    assert (mherm n rho0) as hr0 by (apply congr_herm; exact Hr).
    unfold rk4.
    destruct (rk4_loop_preserves n _ Yh Yt (o0 ROps) (odiv ROps (osub ROps dt (o0 ROps)) (ofnat ROps ns)) ns 0 rho0 hr0) as [Lh Lt].
    set (tmp := rk4_loop ROps n _ (o0 ROps) (odiv ROps (osub ROps dt (o0 ROps)) (ofnat ROps ns)) ns 0 rho0) in *.
    set (ph := mmk n n (fun j k => cconj ROps (mget ROps (phases ROps n eigs dt) j k))).
    assert (meq n (mg ph) (fun j k => (phasef eigs dt j k)^*)) as Eph.
    { unfold ph. rewrite (mmk_spec n _). intros j k Hj Hk. rewrite (phases_spec dt j k Hj Hk). reflexivity. }
    assert (mherm n (mhad ROps n tmp ph)) as hh.
    { unfold mherm, herm. rewrite (mhad_spec n tmp ph), Eph. apply herm_fhad; [exact Lh | apply phase_conj_herm]. }
    assert (mtrace ROps n (mhad ROps n tmp ph) = mtrace ROps n tmp) as th.
    { unfold mtrace. rewrite (mhad_spec n tmp ph), Eph. apply trace_had_unit_diag. intros j _. rewrite phase_diag. apply cconj_1. }
    assert (meq n (mg (mmul ROps n (mmul ROps n V (mhad ROps n tmp ph)) (mtr ROps n V)))
                  (fm n (fm n (mg V) (mg (mhad ROps n tmp ph))) (fa (mg V)))) as Ef.
    { rewrite (mmul_spec n _ _), (mmul_spec n V _), (mtr_spec n V), (real_tr_adj n (mg V) HRV). reflexivity. }
    split.
    - unfold mherm, herm. rewrite Ef. apply herm_congr'. exact hh.
    - unfold mtrace. rewrite Ef. rewrite (trace_congr' n (mg V) _ (proj1 V_orth)).
      fold (mtrace ROps n (mhad ROps n tmp ph)). rewrite th, Lt. unfold rho0. apply congr_trace.
  Qed.
End Step.
