(* Proof/SpawnStackP.v — weight conservation over the whole spawned tree (real instance). *)
From Coq Require Import Reals ZArith List Lra Lia Bool Arith.
From MV Require Import Ops RInst Vec SpawnStack SumR.
Import ListNotations.
Open Scope R_scope.

Notation nodeR := (node (T:=R)).
Notation histR := (hist (T:=R)).

Lemma vsum_flat_map {A} (f : A -> list R) (l : list A) :
  vsum ROps (flat_map f l) = vsum ROps (map (fun x => vsum ROps (f x)) l).
Proof. induction l as [|x l IH]; cbn; [reflexivity|]. rewrite vsum_app, IH. reflexivity. Qed.

Lemma vsum_map_ext {A} (f g : A -> R) (l : list A) :
  Forall (fun x => f x = g x) l -> vsum ROps (map f l) = vsum ROps (map g l).
Proof. induction 1 as [|x l Hx _ IH]; cbn; [reflexivity|]. rewrite Hx, IH. reflexivity. Qed.

Lemma vsum_map_const {A} (c : R) (l : list A) : vsum ROps (map (fun _ => c) l) = INR (length l) * c.
Proof. induction l as [|x l IH]; [cbn; lra|]. cbn [map vsum length]. rewrite IH, S_INR. cbn. lra. Qed.

Lemma vsum_map_scal {A} (c : R) (f : A -> R) (l : list A) :
  vsum ROps (map (fun x => c * f x) l) = c * vsum ROps (map f l).
Proof. induction l as [|x l IH]; cbn in *; [lra | rewrite IH; lra]. Qed.

Lemma firstn_plus {A} (a c : nat) (l : list A) : firstn (a + c) l = firstn a l ++ firstn c (skipn a l).
Proof.
  revert l. induction a as [|a IH]; intros l; [reflexivity|]. destruct l as [|x l]; cbn.
  - destruct c; reflexivity.
  - f_equal. apply IH.
Qed.

Lemma vsum_nonneg' (t : list R) : Forall (fun p => 0 <= p) t -> 0 <= vsum ROps t.
Proof. induction 1; cbn; lra. Qed.

(* sum of dw over [a, b) *)
Lemma sum_range_split (l : list R) a b : (a <= b)%nat ->
  sum_range ROps l 0 b = sum_range ROps l 0 a + sum_range ROps l a b.
Proof.
  intros H. unfold sum_range. cbn [skipn]. rewrite !Nat.sub_0_r.
  replace b with (a + (b - a))%nat at 1 by lia.
  rewrite firstn_plus, vsum_app. reflexivity.
Qed.

Lemma Forall_firstn {A} (P : A -> Prop) n (l : list A) : Forall P l -> Forall P (firstn n l).
Proof. revert l. induction n as [|n IH]; intros l H; [constructor|]. destruct H; cbn; [constructor | constructor; [assumption | apply IH; assumption]]. Qed.
Lemma Forall_skipn {A} (P : A -> Prop) n (l : list A) : Forall P l -> Forall P (skipn n l).
Proof. revert l. induction n as [|n IH]; intros l H; [exact H|]. destruct H; cbn; [constructor | apply IH; assumption]. Qed.

Lemma sum_range_nonneg (l : list R) a b : Forall (fun x => 0 <= x) l -> 0 <= sum_range ROps l a b.
Proof.
  intros H. unfold sum_range. apply vsum_nonneg'. apply Forall_firstn, Forall_skipn, H.
Qed.

Lemma sum_range_all (l : list R) : sum_range ROps l 0 (length l) = vsum ROps l.
Proof. unfold sum_range. cbn [skipn]. rewrite Nat.sub_0_r, firstn_all. reflexivity. Qed.

Lemma sum_range_le_total (l : list R) b : Forall (fun x => 0 <= x) l -> (b <= length l)%nat ->
  sum_range ROps l 0 b <= vsum ROps l.
Proof.
  intros H Hb. rewrite <- sum_range_all, (sum_range_split l b (length l) Hb).
  pose proof (sum_range_nonneg l b (length l) H). lra.
Qed.

(* the share of the base weight a trajectory still holds when its index is iz *)
Definition rem (st : list nodeR) (iz : nat) : R :=
  match st with [] => 1 | _ => 1 - sum_range ROps (dws st) 0 iz end.

(* well-formed stacks: at every level dw >= 0, sum dw = 1, spawn_size >= 1 (to depth d) *)
Fixpoint wf_stack (d : nat) (st : list nodeR) : Prop :=
  match d with
  | 0 => True
  | S d' => st = [] \/
            (Forall (fun n => 0 <= ndw n) st /\ vsum ROps (dws st) = 1
             /\ Forall (fun n => (1 <= nspawn n)%nat /\ wf_stack d' (nchildren n)) st)
  end.

(* well-formed histories, along the recursion of `weights`: at every crossing the branching
   ratios are >= 0 and sum to one, and every target has spawn_size copies *)
Fixpoint ok (fuel : nat) (st : list nodeR) (iz : nat) (h : histR) : Prop :=
  match fuel with
  | 0 => True
  | S f =>
      match st, h with
      | [], _ => True
      | _, Hist [] => True
      | _, Hist ((k, brs) :: rest) =>
          match nth_error st iz with
          | None => True
          | Some nd =>
              Forall (fun br : R * list histR => 0 <= fst br /\ length (snd br) = nspawn nd
                                                 /\ Forall (ok f (nchildren nd) 0) (snd br)) brs
              /\ vsum ROps (map fst brs) = 1
              /\ ok f st (Nat.min (iz + k) (length st)) (Hist rest)
          end
      end
  end.

Lemma marginal_rem st iz d : wf_stack (S d) st -> (iz <= length st)%nat -> marginal ROps st iz = rem st iz.
Proof.
  intros Hwf Hiz. unfold marginal, rem. destruct st as [|n st]; [destruct iz; [reflexivity|cbn in Hiz; lia]|].
  destruct Hwf as [E|[_ [Hs _]]]; [discriminate|].
  destruct (Nat.eqb_spec iz (length (n :: st))) as [->|Hne]; [|reflexivity].
  assert (length (n :: st) = length (dws (n :: st))) as -> by (unfold dws; rewrite map_length; reflexivity).
  rewrite sum_range_all, Hs. cbn. lra.
Qed.

Lemma rem_nonneg st iz d : wf_stack (S d) st -> (iz <= length st)%nat -> 0 <= rem st iz.
Proof.
  intros Hwf Hiz. unfold rem. destruct st as [|n st]; [lra|].
  destruct Hwf as [E|[Hd [Hs _]]]; [discriminate|].
  assert (Forall (fun x => 0 <= x) (dws (n :: st))) as Hd'.
  { unfold dws. apply Forall_forall. intros x Hx. apply in_map_iff in Hx. destruct Hx as [m [<- Hm]].
    rewrite Forall_forall in Hd. apply Hd. exact Hm. }
  pose proof (sum_range_le_total (dws (n :: st)) iz Hd' ltac:(unfold dws; rewrite map_length; exact Hiz)). lra.
Qed.

Lemma wf_stack_down d st : wf_stack (S d) st -> wf_stack d st.
Proof.
  revert st. induction d as [|d IH]; intros st H; [exact I|].
  destruct H as [E|[Hd [Hs Hc]]]; [left; exact E|]. right. split; [exact Hd|]. split; [exact Hs|].
  eapply Forall_impl; [|exact Hc]. intros n [Hn Hw]. split; [exact Hn | apply IH; exact Hw].
Qed.

Theorem weights_total : forall fuel (st : list nodeR) base iz h,
  wf_stack (S fuel) st -> ok fuel st iz h -> (iz <= length st)%nat ->
  vsum ROps (weights ROps fuel st base iz h) = base * rem st iz.
Proof.
  induction fuel as [|f IH]; intros st base iz h Hwf Hok Hiz.
  - cbn [weights vsum]. cbn [oadd omul o0 ROps]. rewrite (marginal_rem st iz 0 Hwf Hiz). lra.
  - cbn [weights]. destruct st as [|n0 st0] eqn:Est.
    + cbn. lra.
    + rewrite <- Est in *. destruct h as [[|[k brs] rest]].
      * cbn [vsum oadd omul o0 ROps]. rewrite (marginal_rem st iz _ Hwf Hiz). lra.
      * cbn [ok] in Hok. rewrite Est in Hok. rewrite <- Est in Hok.
        destruct (nth_error st iz) as [nd|] eqn:End.
        2:{ cbn [vsum oadd omul o0 ROps]. rewrite (marginal_rem st iz _ Hwf Hiz). lra. }
        destruct Hok as [Hbrs [Hsum Hrest]].
        set (iz' := Nat.min (iz + k) (length st)) in *.
        assert (wf_stack (S f) st) as Hwf' by (apply wf_stack_down; exact Hwf).
        rewrite vsum_app, (IH st base iz' (Hist rest) Hwf' Hrest ltac:(unfold iz'; lia)).
        (* the node's data *)
        assert (In nd st) as Hin by (eapply nth_error_In; exact End).
        destruct Hwf as [E|[Hd [Hs Hc]]]; [rewrite E in Est; discriminate|].
        rewrite Forall_forall in Hc. destruct (Hc nd Hin) as [Hns Hwch].
        set (dw := sum_range ROps (dws st) iz iz').
        (* children: each copy of target i totals (base*dw)*(1/ns * ratio_i) *)
        rewrite vsum_flat_map.
        rewrite (vsum_map_ext _ (fun br : R * list histR => (base * dw) * fst br)).
        2:{ eapply Forall_impl; [|exact Hbrs]. intros [ratio kids] [Hr [Hlen Hkids]]. cbn [fst snd] in *.
            rewrite vsum_flat_map.
            rewrite (vsum_map_ext _ (fun _ => (base * dw) * (1 / INR (nspawn nd) * ratio))).
            2:{ eapply Forall_impl; [|exact Hkids]. intros kh Hkh. cbn [omul odiv o1 ROps].
                rewrite SumR.ofnat_R.
                rewrite (IH (nchildren nd) _ 0%nat kh Hwch Hkh ltac:(lia)).
                unfold rem. destruct (nchildren nd); [lra|]. unfold sum_range. cbn. lra. }
            rewrite vsum_map_const, Hlen. field. apply not_0_INR. lia. }
        rewrite vsum_map_scal, Hsum.
        (* rem st iz = dw + rem st iz' *)
        unfold rem. rewrite Est. rewrite <- Est.
        assert (iz <= iz')%nat as Hle by (unfold iz'; lia).
        rewrite (sum_range_split (dws st) iz iz' Hle). fold dw. lra.
Qed.

Lemma weights_nonneg : forall fuel (st : list nodeR) base iz h,
  0 <= base -> wf_stack (S fuel) st -> ok fuel st iz h -> (iz <= length st)%nat ->
  Forall (fun w => 0 <= w) (weights ROps fuel st base iz h).
Proof.
  induction fuel as [|f IH]; intros st base iz h Hb Hwf Hok Hiz.
  - cbn [weights]. constructor; [|constructor]. cbn [omul ROps]. rewrite (marginal_rem st iz 0 Hwf Hiz).
    apply Rmult_le_pos; [exact Hb | eapply rem_nonneg; eassumption].
  - cbn [weights]. destruct st as [|n0 st0] eqn:Est.
    + constructor; [exact Hb | constructor].
    + rewrite <- Est in *. destruct h as [[|[k brs] rest]].
      * constructor; [|constructor]. cbn [omul ROps]. rewrite (marginal_rem st iz _ Hwf Hiz).
        apply Rmult_le_pos; [exact Hb | eapply rem_nonneg; eassumption].
      * cbn [ok] in Hok. rewrite Est in Hok. rewrite <- Est in Hok.
        destruct (nth_error st iz) as [nd|] eqn:End.
        2:{ constructor; [|constructor]. cbn [omul ROps]. rewrite (marginal_rem st iz _ Hwf Hiz).
            apply Rmult_le_pos; [exact Hb | eapply rem_nonneg; eassumption]. }
        destruct Hok as [Hbrs [Hsum Hrest]].
        assert (wf_stack (S f) st) as Hwf' by (apply wf_stack_down; exact Hwf).
        assert (In nd st) as Hin by (eapply nth_error_In; exact End).
        destruct Hwf as [E|[Hd [Hs Hc]]]; [rewrite E in Est; discriminate|].
        rewrite Forall_forall in Hc. destruct (Hc nd Hin) as [Hns Hwch].
        assert (Forall (fun x => 0 <= x) (dws st)) as Hd'.
        { unfold dws. apply Forall_forall. intros x Hx. apply in_map_iff in Hx. destruct Hx as [m [<- Hm]].
          rewrite Forall_forall in Hd. apply Hd. exact Hm. }
        apply Forall_app. split.
        -- apply Forall_forall. intros w Hw. apply in_flat_map in Hw. destruct Hw as [[ratio kids] [Hbr Hw]].
           apply in_flat_map in Hw. destruct Hw as [kh [Hkh Hw]].
           rewrite Forall_forall in Hbrs. destruct (Hbrs _ Hbr) as [Hr [Hlen Hkids]]. cbn [fst snd] in *.
           rewrite Forall_forall in Hkids.
           assert (0 <= (base * sum_range ROps (dws st) iz (Nat.min (iz + k) (length st))) * (1 / INR (nspawn nd) * ratio)) as Hcb.
           { apply Rmult_le_pos; [apply Rmult_le_pos; [exact Hb | apply sum_range_nonneg; exact Hd']|].
             apply Rmult_le_pos; [|exact Hr]. apply Rlt_le, Rdiv_lt_0_compat; [lra | apply lt_0_INR; lia]. }
           pose proof (IH (nchildren nd) _ 0%nat kh Hcb Hwch (Hkids kh Hkh) ltac:(lia)) as HF.
           cbn [omul odiv o1 ROps] in Hw. rewrite SumR.ofnat_R in Hw.
           rewrite Forall_forall in HF. apply HF. exact Hw.
        -- apply IH; try assumption. lia.
Qed.

(* from_quadrature: the flattened weights of the tensor-product forest *)
Lemma leaves_mk_level fuel pts wts (ch : list nodeR) ss : length pts = length wts -> ch <> [] ->
  vsum ROps (map snd (leaves ROps (S fuel) (mk_level pts wts ch ss)))
  = vsum ROps wts * vsum ROps (map snd (leaves ROps fuel ch)).
Proof.
  revert wts. induction pts as [|p pts IH]; intros [|w wts] Hl Hch; cbn [length] in Hl; try discriminate.
  - cbn. lra.
  - cbn [mk_level leaves flat_map nchildren]. destruct ch as [|c ch']; [contradiction|].
    rewrite map_app, vsum_app, map_map. cbn [snd nzeta ndw omul ROps].
    change (flat_map _ (mk_level pts wts (c :: ch') ss)) with (leaves ROps (S fuel) (mk_level pts wts (c :: ch') ss)).
    rewrite (IH wts ltac:(lia) Hch).
    rewrite (vsum_map_scal w snd). cbn [vsum oadd ROps]. lra.
Qed.

Lemma leaves_mk_level_leaf fuel pts wts ss : length pts = length wts ->
  vsum ROps (map snd (leaves ROps (S fuel) (mk_level pts wts [] ss))) = vsum ROps wts.
Proof.
  revert wts. induction pts as [|p pts IH]; intros [|w wts] Hl; cbn [length] in Hl; try discriminate; [reflexivity|].
  cbn [mk_level leaves flat_map nchildren app map snd ndw vsum].
  change (flat_map _ (mk_level pts wts [] ss)) with (leaves ROps (S fuel) (mk_level pts wts [] ss)).
  rewrite (IH wts ltac:(lia)). reflexivity.
Qed.

Fixpoint level_prod (levels : list (list R * list R)) : R :=
  match levels with [] => 1 | (_, wts) :: rest => vsum ROps wts * level_prod rest end.

Lemma build_nonempty (levels : list (list R * list R)) mcs :
  levels <> [] -> Forall (fun lv => length (fst lv) = length (snd lv) /\ fst lv <> []) levels ->
  build levels mcs <> [].
Proof.
  intros Hne Hall. destruct levels as [|[pts wts] rest]; [contradiction|].
  inversion Hall as [|? ? [Hl Hp] _]; subst. cbn [fst snd] in *. cbn [build].
  destruct pts as [|p pts]; [contradiction|]. destruct wts as [|w wts]; [discriminate|]. cbn. discriminate.
Qed.

Lemma stack_weights_product : forall (levels : list (list R * list R)) mcs,
  levels <> [] -> Forall (fun lv => length (fst lv) = length (snd lv) /\ fst lv <> []) levels ->
  vsum ROps (map snd (leaves ROps (length levels) (build levels mcs))) = level_prod levels.
Proof.
  induction levels as [|[pts wts] rest IH]; intros mcs Hne Hall; [contradiction|].
  inversion Hall as [|? ? [Hl Hp] Hrest]; subst. cbn [fst snd] in *.
  cbn [build length level_prod]. destruct rest as [|lv2 rest2].
  - cbn [build level_prod length]. change (build [] 1) with (@nil nodeR).
    rewrite (leaves_mk_level_leaf 0 pts wts mcs Hl). lra.
  - rewrite (leaves_mk_level (length (lv2 :: rest2)) pts wts _ mcs Hl
               (build_nonempty (lv2 :: rest2) 1 ltac:(discriminate) Hrest)).
    rewrite (IH 1%nat ltac:(discriminate) Hrest). reflexivity.
Qed.
