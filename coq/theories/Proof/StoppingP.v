(* Proof/StoppingP.v — the stopping rule and the snapshot schedule (real instance). *)
From Coq Require Import Reals ZArith List Lra Lia Bool Arith.
From MV Require Import Ops RInst Vec Stopping.
Import ListNotations.
Open Scope R_scope.

Section Spec.
  Variable c : cfg (T:=R).
  Variable n0 : nat.
  Variable t0 : R.
  Variable pos : nat -> list R.

  Definition tk (k : nat) : R := t0 + INR k * dt c.
  (* has the trajectory been inside the box at some check before check k? *)
  Definition latch (k : nat) : bool := existsb (fun j => inside ROps c (pos j)) (seq 0 k).
  (* the stopping condition at the k-th check of this run (global step n0 + k) *)
  Definition stopP (k : nat) : Prop :=
    steps_up c (n0 + k) = true \/ time_up ROps c (tk k) = true
    \/ (latch k = true /\ inside ROps c (pos k) = false).

  Lemma tk_S k : tk (S k) = tk k + dt c.
  Proof. unfold tk. rewrite S_INR. ring. Qed.
  Lemma latch_S k : latch (S k) = latch k || inside ROps c (pos k).
  Proof. unfold latch. rewrite seq_S, existsb_app. cbn. rewrite orb_false_r. reflexivity. Qed.

  Lemma continue_spec found n t x cont f' :
    continue_sim ROps c found n t x = (cont, f') ->
    (cont = false <-> (steps_up c n = true \/ time_up ROps c t = true \/ (found = true /\ inside ROps c x = false)))
    /\ (cont = true -> f' = found || inside ROps c x).
  Proof.
    unfold continue_sim.
    destruct (steps_up c n) eqn:Es; destruct (time_up ROps c t) eqn:Et; destruct found eqn:Ef;
      destruct (inside ROps c x) eqn:Ei; intros H; injection H as <- <-;
      (split; [split; [intros; try discriminate; tauto | intros [K|[K|[K1 K2]]]; try discriminate; reflexivity] | intros; try discriminate; reflexivity]).
  Qed.

  Definition sched (k K : nat) : list (nat * R) :=
    map (fun j => ((n0 + j)%nat, tk j)) (filter (fun j => logs c (n0 + j)) (seq (S k) (K - S k))).

  Lemma sched_nil k : sched k (S k) = [].
  Proof. unfold sched. rewrite Nat.sub_diag. reflexivity. Qed.

  Lemma sched_step k K : (S k < K)%nat ->
    sched k K = (if logs c (n0 + S k) then [((n0 + S k)%nat, tk (S k))] else []) ++ sched (S k) K.
  Proof.
    intros H. unfold sched. replace (K - S k)%nat with (S (K - S (S k))) by lia.
    cbn [seq filter]. destruct (logs c (n0 + S k)); reflexivity.
  Qed.

  Lemma loop_spec : forall fuel k log log' N,
    loop ROps fuel c (latch (S k)) k (n0 + k) (tk k) pos log = Some (log', N) ->
    exists K, (k < K)%nat /\ N = (n0 + K)%nat /\ stopP K
              /\ (forall j, (k < j < K)%nat -> ~ stopP j)
              /\ log' = log ++ sched k K ++ [(N, tk K)].
  Proof.
    induction fuel as [|f IH]; intros k log log' N H; cbn [loop] in H; [discriminate|].
    cbn [oadd ROps] in H. rewrite <- tk_S in H.
    replace (S (n0 + k)) with (n0 + S k)%nat in H by lia.
    destruct (continue_sim ROps c (latch (S k)) (n0 + S k) (tk (S k)) (pos (S k))) as [cont f'] eqn:Ec.
    pose proof (continue_spec _ _ _ _ _ _ Ec) as [Hstop Hf].
    destruct cont.
    - rewrite (Hf eq_refl), <- latch_S in H.
      apply IH in H. destruct H as [K [HK [HN [HP [Hno Hlog]]]]].
      exists K. repeat split; try assumption; try lia.
      + intros j Hj. destruct (Nat.eq_dec j (S k)) as [->|Hne].
        * intros HS. apply Hstop in HS. discriminate.
        * apply Hno. lia.
      + rewrite Hlog, (sched_step k K) by lia.
        destruct (logs c (n0 + S k)); rewrite <- ?app_assoc; reflexivity.
    - injection H as <- <-. exists (S k). repeat split; try lia.
      + apply Hstop. reflexivity.
      + rewrite sched_nil. reflexivity.
  Qed.

  Lemma simulate_spec fuel restarting log N :
    simulate ROps fuel c restarting n0 t0 pos = Some (log, N) ->
    (stopP 0 /\ log = [] /\ N = n0)
    \/ (~ stopP 0 /\ exists K, (0 < K)%nat /\ N = (n0 + K)%nat /\ stopP K
          /\ (forall j, (j < K)%nat -> ~ stopP j)
          /\ log = (if negb restarting && logs c n0 then [(n0, t0)] else []) ++ sched 0 K ++ [(N, tk K)]).
  Proof.
    unfold simulate. intros H.
    destruct (continue_sim ROps c false n0 t0 (pos 0)) as [cont f'] eqn:Ec.
    pose proof (continue_spec _ _ _ _ _ _ Ec) as [Hstop Hf].
    assert (tk 0 = t0) as Ht0 by (unfold tk; cbn; ring).
    assert (stopP 0 <-> cont = false) as H0.
    { rewrite Hstop. unfold stopP. rewrite Ht0, Nat.add_0_r. unfold latch. cbn [seq existsb]. tauto. }
    destruct cont.
    - right. assert (~ stopP 0) as Hn0 by (rewrite H0; discriminate). split; [exact Hn0|].
      rewrite (Hf eq_refl) in H. cbn [orb] in H.
      assert (inside ROps c (pos 0) = latch 1) as El by (unfold latch; cbn; rewrite orb_false_r; reflexivity).
      rewrite El in H. rewrite <- Ht0 in H at 1. replace n0 with (n0 + 0)%nat in H at 1 by lia.
      apply loop_spec in H. destruct H as [K [HK [HN [HP [Hno Hlog]]]]].
      exists K. repeat split; try assumption.
      intros j Hj. destruct j; [exact Hn0 | apply Hno; lia].
    - left. injection H as <- <-. split; [apply H0; reflexivity | split; reflexivity].
  Qed.

  (* strictly increasing times, spaced by whole time steps *)
  Lemma sched_in k K e : In e (sched k K) -> exists j, (k < j < K)%nat /\ e = ((n0 + j)%nat, tk j) /\ logs c (n0 + j) = true.
  Proof.
    unfold sched. intros H. apply in_map_iff in H. destruct H as [j [<- Hj]].
    apply filter_In in Hj. destruct Hj as [Hs Hl]. apply in_seq in Hs. exists j. repeat split; try lia. exact Hl.
  Qed.

  Lemma tk_mono j1 j2 : 0 < dt c -> (j1 < j2)%nat -> tk j1 < tk j2.
  Proof. intros Hd H. unfold tk. apply lt_INR in H. nra. Qed.
End Spec.
