(* Proof/SumR.v — sums over lists / tabulate on the real instance. *)
From Coq Require Import Reals ZArith List Lra Lia.
From MV Require Import Ops RInst Vec.
Import ListNotations.
Open Scope R_scope.

Lemma ofnat_R n : ofnat ROps n = INR n.
Proof. unfold ofnat; cbn. symmetry; apply INR_IZR_INZ. Qed.

Lemma vsum_app (l1 l2 : list R) : vsum ROps (l1 ++ l2) = vsum ROps l1 + vsum ROps l2.
Proof. induction l1 as [|x l1 IH]; cbn in *; [lra | rewrite IH; lra]. Qed.

Lemma tabulate_S {A} n (f : nat -> A) : tabulate (S n) f = tabulate n f ++ [f n].
Proof. unfold tabulate. rewrite seq_S, map_app. reflexivity. Qed.

Lemma tabulate_length {A} n (f : nat -> A) : length (tabulate n f) = n.
Proof. unfold tabulate. rewrite map_length, seq_length. reflexivity. Qed.

Lemma nth_tabulate {A} n (f : nat -> A) i d : (i < n)%nat -> nth i (tabulate n f) d = f i.
Proof.
  intros H. unfold tabulate.
  rewrite nth_indep with (d' := f 0%nat) by (rewrite map_length, seq_length; exact H).
  rewrite map_nth. f_equal. apply seq_nth. exact H.
Qed.

Lemma tabulate_ext {A} n (f g : nat -> A) :
  (forall i, (i < n)%nat -> f i = g i) -> tabulate n f = tabulate n g.
Proof.
  intros H. unfold tabulate. apply map_ext_in. intros i Hi. apply in_seq in Hi. apply H. lia.
Qed.

Lemma vsum_tab_S n f : vsum ROps (tabulate (S n) f) = vsum ROps (tabulate n f) + f n.
Proof. rewrite tabulate_S, vsum_app. cbn. lra. Qed.

Lemma vsum_tab_0 f : vsum ROps (tabulate 0 f) = 0.
Proof. reflexivity. Qed.

Lemma vmap2_tab (g : R -> R -> R) n f1 f2 :
  vmap2 g (tabulate n f1) (tabulate n f2) = tabulate n (fun i => g (f1 i) (f2 i)).
Proof.
  unfold tabulate. generalize 0%nat. induction n as [|n IH]; intros s; cbn; [reflexivity|].
  rewrite IH. reflexivity.
Qed.

Lemma vsum_tab_ext n f g :
  (forall i, (i < n)%nat -> f i = g i) -> vsum ROps (tabulate n f) = vsum ROps (tabulate n g).
Proof. intros H. rewrite (tabulate_ext n f g H). reflexivity. Qed.

Lemma vsum_tab_const n c : vsum ROps (tabulate n (fun _ => c)) = INR n * c.
Proof.
  induction n as [|n IH]; [cbn; lra|]. rewrite vsum_tab_S, IH, S_INR. lra.
Qed.

Lemma vsum_tab_scal n c f :
  vsum ROps (tabulate n (fun i => c * f i)) = c * vsum ROps (tabulate n f).
Proof.
  induction n as [|n IH]; [cbn; lra|]. rewrite !vsum_tab_S, IH. lra.
Qed.

Lemma vsum_tab_plus n f g :
  vsum ROps (tabulate n (fun i => f i + g i)) = vsum ROps (tabulate n f) + vsum ROps (tabulate n g).
Proof.
  induction n as [|n IH]; [cbn; lra|]. rewrite !vsum_tab_S, IH. lra.
Qed.

Lemma vsum_nonneg (l : list R) : (forall x, In x l -> 0 <= x) -> 0 <= vsum ROps l.
Proof.
  induction l as [|x l IH]; intros H; cbn; [lra|].
  assert (0 <= x) by (apply H; left; reflexivity).
  assert (0 <= vsum ROps l) by (apply IH; intros y Hy; apply H; right; exact Hy). lra.
Qed.
