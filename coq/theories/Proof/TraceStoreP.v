(* Proof/TraceStoreP.v — the YAML paging core refines a plain list. *)
From Coq Require Import ZArith List Bool Arith Lia.
From MV Require Import TraceStore.
Import ListNotations.

Section P.
  Context {A : Type}.
  Notation store := (store (A:=A)).

  Definition Inv (s : store) (data : list A) : Prop :=
    1 <= pitch s /\ logsize s = length data /\
    exists full last, pages s = full ++ [last] /\ concat (pages s) = data
      /\ Forall (fun pg => length pg = pitch s) full /\ length last <= pitch s
      /\ (last = [] -> full = []).

  Lemma inv_init p : 1 <= p -> Inv (init_store p) [].
  Proof.
    intros Hp. unfold Inv, init_store; cbn. repeat split; try lia.
    exists [], []. cbn. repeat split; auto; lia.
  Qed.

  Lemma app_last_snoc (full : list (list A)) last x : app_last (full ++ [last]) x = full ++ [last ++ [x]].
  Proof.
    induction full as [|l full IH]; [reflexivity|]. destruct full as [|l' full']; [reflexivity|].
    cbn [app] in *. cbn [app_last] in *. rewrite IH. reflexivity.
  Qed.

  Lemma concat_full_length (full : list (list A)) p : Forall (fun pg => length pg = p) full ->
    length (concat full) = length full * p.
  Proof. induction 1 as [|pg full Hpg _ IH]; cbn; [reflexivity|]. rewrite app_length, IH, Hpg. lia. Qed.

  Lemma concat_snoc_length (full : list (list A)) last p : Forall (fun pg => length pg = p) full ->
    length (concat (full ++ [last])) = length full * p + length last.
  Proof.
    intros H. rewrite concat_app, app_length, (concat_full_length full p H).
    change (concat [last]) with (last ++ []). rewrite app_nil_r. reflexivity.
  Qed.

  Lemma inv_collect s data x : Inv s data -> Inv (collect s x) (data ++ [x]).
  Proof.
    intros [Hp [Hsz [full [last [Hpg [Hcat [Hfull [Hlast Hemp]]]]]]]].
    assert (length data = length full * pitch s + length last) as Hlen.
    { rewrite <- Hcat, Hpg. apply concat_snoc_length. exact Hfull. }
    unfold collect. rewrite Hpg, app_length. cbn [length]. replace (length full + 1 - 1) with (length full) by lia.
    rewrite Hsz, Hlen.
    destruct (Nat.eq_dec (length last) (pitch s)) as [Efull|Hlt].
    - (* active page full: start a new page *)
      rewrite Efull. replace (length full * pitch s + pitch s) with ((length full + 1) * pitch s) by lia.
      rewrite Nat.div_mul by lia.
      replace (length full + 1 =? length full) with false by (symmetry; apply Nat.eqb_neq; lia).
      unfold Inv. cbn [pitch pages logsize]. repeat split; try lia.
      + rewrite app_length. cbn. lia.
      + exists (full ++ [last]), [x]. repeat split.
        * rewrite concat_app. cbn. rewrite ?app_nil_r. rewrite <- Hpg, Hcat. reflexivity.
        * apply Forall_app. split; [exact Hfull | constructor; [exact Efull | constructor]].
        * cbn. lia.
        * discriminate.
    - rewrite Nat.div_add_l by lia. rewrite Nat.div_small by lia. rewrite Nat.add_0_r, Nat.eqb_refl.
      unfold Inv. cbn [pitch pages logsize]. repeat split; try lia.
      + rewrite app_length. cbn. lia.
      + exists full, (last ++ [x]). rewrite app_last_snoc. repeat split.
        * rewrite concat_app. change (concat [last ++ [x]]) with ((last ++ [x]) ++ []). rewrite app_nil_r.
          rewrite <- Hcat, Hpg, concat_app. change (concat [last]) with (last ++ []).
          rewrite app_nil_r, app_assoc. reflexivity.
        * exact Hfull.
        * rewrite app_length. cbn. lia.
        * intros E. destruct last; discriminate.
  Qed.

  (* every reachable store *)
  Lemma inv_collects p (xs : list A) : 1 <= p -> Inv (fold_left collect xs (init_store p)) xs.
  Proof.
    intros Hp.
    assert (forall ys s data, Inv s data -> Inv (fold_left collect ys s) (data ++ ys)) as G.
    { induction ys as [|y ys IH]; intros s data H; cbn; [rewrite app_nil_r; exact H|].
      replace (data ++ y :: ys) with ((data ++ [y]) ++ ys) by (rewrite <- app_assoc; reflexivity).
      apply IH. apply inv_collect. exact H. }
    apply (G xs (init_store p) [] (inv_init p Hp)).
  Qed.

  Lemma inv_len s data : Inv s data -> len s = length data.
  Proof. intros [_ [H _]]. exact H. Qed.
  Lemma inv_iter s data : Inv s data -> iter s = data.
  Proof. intros [_ [_ [full [last [_ [H _]]]]]]. exact H. Qed.

  Lemma nth_error_paged (full : list (list A)) last p j : 1 <= p -> length last <= p ->
    Forall (fun pg => length pg = p) full -> j < length full * p + length last ->
    nth_error (nth (j / p) (full ++ [last]) []) (j - (j / p) * p) = nth_error (concat (full ++ [last])) j.
  Proof.
    intros Hp Hl. revert j. induction full as [|pg full IH]; intros j Hf Hj.
    - change ([] ++ [last]) with [last]. change (concat [last]) with (last ++ []). rewrite app_nil_r.
      cbn [length] in Hj. rewrite Nat.div_small by lia. cbn [nth]. f_equal. lia.
    - inversion Hf as [|? ? Hpg Hf']; subst.
      change ((pg :: full) ++ [last]) with (pg :: (full ++ [last])). cbn [concat].
      destruct (Nat.lt_ge_cases j (length pg)) as [Hlt|Hge].
      + rewrite Nat.div_small by lia. cbn [nth]. rewrite nth_error_app1 by lia. f_equal. lia.
      + rewrite nth_error_app2 by lia.
        assert (j / length pg = S ((j - length pg) / length pg)) as Ed.
        { replace j with ((j - length pg) + 1 * length pg) at 1 by lia. rewrite Nat.div_add by lia. lia. }
        rewrite Ed. cbn [nth]. rewrite <- (IH (j - length pg) Hf') by (cbn [length] in Hj; lia).
        f_equal. lia.
  Qed.

  Lemma inv_getitem s data i : Inv s data -> getitem s i = mem_getitem data i.
  Proof.
    intros [Hp [Hsz [full [last [Hpg [Hcat [Hfull [Hlast Hemp]]]]]]]].
    unfold getitem, mem_getitem. rewrite Hsz.
    assert ((if (i <? 0)%Z then (Z.of_nat (length data) - Z.abs i)%Z else i)
            = (if (i <? 0)%Z then (Z.of_nat (length data) + i)%Z else i)) as ->.
    { destruct (i <? 0)%Z eqn:E; [|reflexivity]. apply Z.ltb_lt in E. lia. }
    set (j := if (i <? 0)%Z then _ else i).
    destruct ((j <? 0)%Z || (Z.of_nat (length data) <=? j)%Z) eqn:Eb; [reflexivity|].
    apply orb_false_iff in Eb. destruct Eb as [E1 E2]. apply Z.ltb_ge in E1. apply Z.leb_gt in E2.
    assert (length data = length full * pitch s + length last) as Hlen.
    { rewrite <- Hcat, Hpg. apply concat_snoc_length. exact Hfull. }
    rewrite Hpg, <- Hcat, Hpg. apply nth_error_paged; try assumption; lia.
  Qed.

  Lemma inv_reload s data : Inv s data -> reload s = s.
  Proof.
    intros [Hp [Hsz [full [last [Hpg [Hcat [Hfull [Hlast Hemp]]]]]]]].
    unfold reload. destruct s as [p pgs sz]. cbn in *. f_equal.
    rewrite Hpg, app_length, last_last. cbn [length].
    rewrite Hsz, <- Hcat, Hpg, (concat_snoc_length full last p Hfull). lia.
  Qed.
End P.

(* find_unique returns an unused index (never reuses a name) when enough fuel *)
Lemma find_unique_fresh fuel used i :
  (exists k, k < fuel /\ used (i + k) = false) -> used (find_unique fuel used i) = false.
Proof.
  revert i. induction fuel as [|f IH]; intros i [k [Hk Hu]]; [lia|]. cbn.
  destruct (used i) eqn:E; [|exact E].
  apply IH. destruct k as [|k]; [rewrite Nat.add_0_r in Hu; congruence|].
  exists k. split; [lia|]. replace (S i + k) with (i + S k) by lia. exact Hu.
Qed.

Lemma find_unique_least fuel used i j : i <= j -> j < find_unique fuel used i -> used j = true.
Proof.
  revert i. induction fuel as [|f IH]; intros i Hij Hj; cbn in Hj; [lia|].
  destruct (used i) eqn:E; [|lia].
  destruct (Nat.eq_dec i j) as [->|Hne]; [exact E|]. apply (IH (S i)); [lia | exact Hj].
Qed.
