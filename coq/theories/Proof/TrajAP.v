(* Proof/TrajAP.v — the assembled A-FSSH pass and whole A-FSSH runs (Model/Traj.step_af, run_af).
   Kept apart from TrajP.v because it needs AfsshP.v, which depends on the Interval library through PoissonP.v. *)
From Coq Require Import Reals ZArith List Lra Lia Bool.
From MV Require Import Ops RInst Vec Cplx Mat CRing MatP Poisson Hop Hopper Propagate Traj HopP PropagateP Afssh AfsshP CollapseP TrajP WmidP.
Import ListNotations.
Open Scope R_scope.

(* ---- A-FSSH pass ---- *)
Lemma Forall_map_combine3 {A B Cc D} (P : D -> Prop) (f : A * (B * Cc) -> D) (la : list A) (lb : list B) (lc : list Cc) :
  (forall a b c, In b lb -> In c lc -> P (f (a, (b, c)))) -> Forall P (map f (combine la (combine lb lc))).
Proof.
  intros H. apply Forall_forall. intros d Hd. apply in_map_iff in Hd. destruct Hd as [[a [b c]] [<- Hin]].
  apply in_combine_r in Hin as Hbc. apply H; [eapply in_combine_l; exact Hbc | eapply in_combine_r; exact Hbc].
Qed.

Lemma zero_herm n : mherm n (zero_mat ROps n).
Proof.
  unfold mherm, herm, zero_mat. rewrite (mmk_spec n _). intros i j Hi Hj. unfold fadj, cconj, c0. cbn. f_equal. lra.
Qed.

(* the whole A-FSSH pass keeps both moment families and the density matrix Hermitian, whatever the hop and collapse decisions *)
Lemma step_af_hermitian n m dt poisson zeta eprev e0 e1 fm1 epsR coR lam Cm etas (s s' : astate (T:=R)) att coll :
  step_af ROps n m dt poisson zeta eprev e0 e1 fm1 epsR coR lam Cm etas s = (s', att, coll) ->
  length lam = n -> unitary n (mget ROps Cm) -> (pact (ab s) < n)%nat ->
  (forall t, att = Some (t, true) -> (t < n)%nat) ->
  Forall (fun fmx => forall i j, (i < n)%nat -> (j < n)%nat -> nth j (nth i fmx []) (o0 ROps) = nth i (nth j fmx []) (o0 ROps)) fm1 ->
  Forall (mherm n) (adelR s) -> Forall (mherm n) (adelP s) -> mherm n (prho (ab s)) ->
  Forall (mherm n) (adelR s') /\ Forall (mherm n) (adelP s') /\ mherm n (prho (ab s')).
Proof.
  intros H Hl HC Ha Htn Hfm HR HP Hrho.
  unfold step_af in H.
  set (b := ab s) in *.
  set (dR1 := map _ (combine m (combine (adelR s) (adelP s)))) in H.
  set (v1 := advance_velocity ROps m (pv b) _ _ dt) in H.
  set (dP1 := map _ (combine (nth (pact b) (eforce e1) []) (combine fm1 (adelP s)))) in H.
  set (rho1 := exp_step ROps n lam Cm dt (prho b)) in H.
  assert (Forall (mherm n) dR1) as HR1.
  { unfold dR1. apply Forall_map_combine3. intros mx R P HinR HinP. apply delR_exp_herm.
    - apply (proj1 (Forall_forall _ _) HR R HinR).
    - apply (proj1 (Forall_forall _ _) HP P HinP). }
  assert (Forall (mherm n) dP1) as HP1.
  { unfold dP1. apply Forall_map_combine3. intros fx fmx P Hinf HinP. apply delP_exp_herm.
    - apply (proj1 (Forall_forall _ _) HP P HinP).
    - apply delF_herm. apply (proj1 (Forall_forall _ _) Hfm fmx Hinf).
    - exact Hrho. }
  assert (mherm n rho1) as Hr1.
  { destruct (exp_step_valid n lam Cm dt (prho b) Hl HC) as (A & _). apply A. exact Hrho. }
  destruct (hopper ROps poisson _ zeta) as [tg hp].
  assert (forall (a2 : nat) (v2 : list R) dR2 dP2 att0,
            Forall (mherm n) dR2 -> Forall (mherm n) dP2 -> (a2 < n)%nat ->
            (let gam := gamma_collapse ROps n (map (rediag ROps n) dR2) (map (rediag ROps n) dP2)
                          (tabulate n (fun i => map (fun fmx => nth i (nth i fmx []) (o0 ROps)) fm1)) a2 dt in
             let '(coll0, _) := collapse_scan ROps gam a2 0 etas in
             let '(rho3, dR3, dP3) := collapse_apply ROps n a2 coll0 rho1 dR2 dP2 in
             (mkA (mkT (advance_position ROps m (px b) (pv b) (nth (pact b) (eforce e0) []) dt) v2 rho3 a2 (oadd ROps (ptime b) dt)) (pv b) dR3 dP3, att0, coll0))
            = (s', att, coll) ->
            Forall (mherm n) (adelR s') /\ Forall (mherm n) (adelP s') /\ mherm n (prho (ab s'))) as Fin.
  { intros a2 v2 dR2 dP2 att0 H2R H2P Ha2 E. cbv zeta in E.
    destruct (collapse_scan ROps _ a2 0 etas) as [c0 r0]. destruct c0; cbn [collapse_apply] in E; injection E as <- _ _; cbn [adelR adelP ab prho].
    - repeat split.
      + apply Forall_forall. intros M HM. apply in_map_iff in HM. destruct HM as [? [<- _]]. apply zero_herm.
      + apply Forall_forall. intros M HM. apply in_map_iff in HM. destruct HM as [? [<- _]]. apply zero_herm.
      + apply (proj1 (collapse_state n a2 Ha2)).
    - repeat split; assumption. }
  destruct tg as [t|].
  - destruct (hop_to_it ROps m v1 (pact b) t (diagE ROps n e1) (afssh_direction ROps dP1 (pact b) t)) as [[a' v'] acc] eqn:Eh.
    destruct acc.
    + assert (a' = t) as -> by (unfold hop_to_it in Eh; destruct (hop_allowed _ _ _ _ _); [injection Eh as <- _; reflexivity | discriminate]).
      assert (t < n)%nat as Ht.
      { apply Htn. cbv zeta in H. destruct (collapse_scan ROps _ t 0 etas) as [c0 r0]. destruct (collapse_apply ROps n t c0 rho1 (map (hop_shift ROps n t) dR1) (map (hop_shift ROps n t) dP1)) as [[? ?] ?]. injection H as _ <- _. reflexivity. }
      apply (Fin t v' (map (hop_shift ROps n t) dR1) (map (hop_shift ROps n t) dP1) (Some (t, true))); [ | | exact Ht | exact H].
      * apply Forall_forall. intros M HM. apply in_map_iff in HM. destruct HM as [M0 [<- HM0]]. apply hop_shift_herm; [exact Ht | apply (proj1 (Forall_forall _ _) HR1 M0 HM0)].
      * apply Forall_forall. intros M HM. apply in_map_iff in HM. destruct HM as [M0 [<- HM0]]. apply hop_shift_herm; [exact Ht | apply (proj1 (Forall_forall _ _) HP1 M0 HM0)].
    + assert (a' = pact b) as -> by (unfold hop_to_it in Eh; destruct (hop_allowed _ _ _ _ _); [discriminate | injection Eh as <- _; reflexivity]).
      apply (Fin (pact b) v' dR1 dP1 (Some (t, false)) HR1 HP1 Ha H).
  - apply (Fin (pact b) v1 dR1 dP1 None HR1 HP1 Ha H).
Qed.

(* augmented_integration = "rk4": the whole A-FSSH pass keeps both moment families and the density matrix Hermitian, whatever the hop and collapse decisions *)
Lemma step_af_rk4_hermitian n m dt poisson zeta eprev e0 e1 fm1 lam Cm etas (s s' : astate (T:=R)) att coll :
  step_af_rk4 ROps n m dt poisson zeta eprev e0 e1 fm1 lam Cm etas s = (s', att, coll) ->
  mherm n (Wmid ROps n (eH eprev) (eH e0) (etau eprev) (etau e0) (pv (ab s)) (alastv s)) ->
  (forall v1, mherm n (Wmid ROps n (eH e0) (eH e1) (etau e0) (etau e1) v1 (pv (ab s)))) ->
  length lam = n -> unitary n (mget ROps Cm) -> (pact (ab s) < n)%nat ->
  (forall t, att = Some (t, true) -> (t < n)%nat) ->
  Forall (fun fmx => forall i j, (i < n)%nat -> (j < n)%nat -> nth j (nth i fmx []) (o0 ROps) = nth i (nth j fmx []) (o0 ROps)) fm1 ->
  Forall (mherm n) (adelR s) -> Forall (mherm n) (adelP s) -> mherm n (prho (ab s)) ->
  Forall (mherm n) (adelR s') /\ Forall (mherm n) (adelP s') /\ mherm n (prho (ab s')).
Proof.
  intros H HWp HW Hl HC Ha Htn Hfm HR HP Hrho.
  unfold step_af_rk4 in H.
  set (b := ab s) in *.
  set (dR1 := map _ (combine m (combine (adelR s) (adelP s)))) in H.
  set (v1 := advance_velocity ROps m (pv b) _ _ dt) in H.
  set (dP1 := map _ (combine (nth (pact b) (eforce e1) []) (combine fm1 (adelP s)))) in H.
  set (rho1 := exp_step ROps n lam Cm dt (prho b)) in H.
  assert (Forall (mherm n) dR1) as HR1.
  { unfold dR1. apply Forall_map_combine3. intros mx R P HinR HinP. apply delR_rk4_herm.
    - exact HWp.
    - apply (proj1 (Forall_forall _ _) HR R HinR).
    - apply (proj1 (Forall_forall _ _) HP P HinP). }
  assert (Forall (mherm n) dP1) as HP1.
  { unfold dP1. apply Forall_map_combine3. intros fx fmx P Hinf HinP. apply delP_rk4_herm.
    - apply HW.
    - apply (proj1 (Forall_forall _ _) HP P HinP).
    - apply delF_herm. apply (proj1 (Forall_forall _ _) Hfm fmx Hinf).
    - exact Hrho. }
  assert (mherm n rho1) as Hr1.
  { destruct (exp_step_valid n lam Cm dt (prho b) Hl HC) as (A & _). apply A. exact Hrho. }
  destruct (hopper ROps poisson _ zeta) as [tg hp].
  assert (forall (a2 : nat) (v2 : list R) dR2 dP2 att0,
            Forall (mherm n) dR2 -> Forall (mherm n) dP2 -> (a2 < n)%nat ->
            (let gam := gamma_collapse ROps n (map (rediag ROps n) dR2) (map (rediag ROps n) dP2)
                          (tabulate n (fun i => map (fun fmx => nth i (nth i fmx []) (o0 ROps)) fm1)) a2 dt in
             let '(coll0, _) := collapse_scan ROps gam a2 0 etas in
             let '(rho3, dR3, dP3) := collapse_apply ROps n a2 coll0 rho1 dR2 dP2 in
             (mkA (mkT (advance_position ROps m (px b) (pv b) (nth (pact b) (eforce e0) []) dt) v2 rho3 a2 (oadd ROps (ptime b) dt)) (pv b) dR3 dP3, att0, coll0))
            = (s', att, coll) ->
            Forall (mherm n) (adelR s') /\ Forall (mherm n) (adelP s') /\ mherm n (prho (ab s'))) as Fin.
  { intros a2 v2 dR2 dP2 att0 H2R H2P Ha2 E. cbv zeta in E.
    destruct (collapse_scan ROps _ a2 0 etas) as [c0 r0]. destruct c0; cbn [collapse_apply] in E; injection E as <- _ _; cbn [adelR adelP ab prho].
    - repeat split.
      + apply Forall_forall. intros M HM. apply in_map_iff in HM. destruct HM as [? [<- _]]. apply zero_herm.
      + apply Forall_forall. intros M HM. apply in_map_iff in HM. destruct HM as [? [<- _]]. apply zero_herm.
      + apply (proj1 (collapse_state n a2 Ha2)).
    - repeat split; assumption. }
  destruct tg as [t|].
  - destruct (hop_to_it ROps m v1 (pact b) t (diagE ROps n e1) (afssh_direction ROps dP1 (pact b) t)) as [[a' v'] acc] eqn:Eh.
    destruct acc.
    + assert (a' = t) as -> by (unfold hop_to_it in Eh; destruct (hop_allowed _ _ _ _ _); [injection Eh as <- _; reflexivity | discriminate]).
      assert (t < n)%nat as Ht.
      { apply Htn. cbv zeta in H. destruct (collapse_scan ROps _ t 0 etas) as [c0 r0]. destruct (collapse_apply ROps n t c0 rho1 (map (hop_shift ROps n t) dR1) (map (hop_shift ROps n t) dP1)) as [[? ?] ?]. injection H as _ <- _. reflexivity. }
      apply (Fin t v' (map (hop_shift ROps n t) dR1) (map (hop_shift ROps n t) dP1) (Some (t, true))); [ | | exact Ht | exact H].
      * apply Forall_forall. intros M HM. apply in_map_iff in HM. destruct HM as [M0 [<- HM0]]. apply hop_shift_herm; [exact Ht | apply (proj1 (Forall_forall _ _) HR1 M0 HM0)].
      * apply Forall_forall. intros M HM. apply in_map_iff in HM. destruct HM as [M0 [<- HM0]]. apply hop_shift_herm; [exact Ht | apply (proj1 (Forall_forall _ _) HP1 M0 HM0)].
    + assert (a' = pact b) as -> by (unfold hop_to_it in Eh; destruct (hop_allowed _ _ _ _ _); [discriminate | injection Eh as <- _; reflexivity]).
      apply (Fin (pact b) v' dR1 dP1 (Some (t, false)) HR1 HP1 Ha H).
  - apply (Fin (pact b) v1 dR1 dP1 None HR1 HP1 Ha H).
Qed.


(* the active state after a pass *)
Lemma step_af_rk4_active n m dt poisson zeta eprev e0 e1 fm1 lam Cm etas (s s' : astate (T:=R)) att coll :
  step_af_rk4 ROps n m dt poisson zeta eprev e0 e1 fm1 lam Cm etas s = (s', att, coll) ->
  pact (ab s') = match att with Some (t, true) => t | _ => pact (ab s) end.
Proof.
  unfold step_af_rk4. destruct (hopper ROps poisson _ zeta) as [tg hp]. destruct tg as [t|].
  - destruct (hop_to_it ROps m _ (pact (ab s)) t _ _) as [[a' v'] acc] eqn:Eh. destruct acc.
    + assert (a' = t) as -> by (unfold hop_to_it in Eh; destruct (hop_allowed _ _ _ _ _); [injection Eh as <- _; reflexivity | discriminate]).
      cbv zeta. destruct (collapse_scan ROps _ t 0 etas) as [c0 r0]. destruct (collapse_apply ROps n t c0 _ _ _) as [[? ?] ?].
      intros H; injection H as <- <- _. reflexivity.
    + assert (a' = pact (ab s)) as -> by (unfold hop_to_it in Eh; destruct (hop_allowed _ _ _ _ _); [discriminate | injection Eh as <- _; reflexivity]).
      cbv zeta. destruct (collapse_scan ROps _ (pact (ab s)) 0 etas) as [c0 r0]. destruct (collapse_apply ROps n _ c0 _ _ _) as [[? ?] ?].
      intros H; injection H as <- <- _. reflexivity.
  - cbv zeta. destruct (collapse_scan ROps _ (pact (ab s)) 0 etas) as [c0 r0]. destruct (collapse_apply ROps n _ c0 _ _ _) as [[? ?] ?].
    intros H; injection H as <- <- _. reflexivity.
Qed.


(* ---- whole A-FSSH runs ---- *)
Definition af_ok (n : nat) (d : adata (T:=R)) : Prop :=
  length (alam d) = n /\ unitary n (mget ROps (aC d))
  /\ Forall (fun fmx => forall i j, (i < n)%nat -> (j < n)%nat -> nth j (nth i fmx []) (o0 ROps) = nth i (nth j fmx []) (o0 ROps)) (afm1 d).

(* the active state after a pass *)
Lemma step_af_active n m dt poisson zeta eprev e0 e1 fm1 epsR coR lam Cm etas (s s' : astate (T:=R)) att coll :
  step_af ROps n m dt poisson zeta eprev e0 e1 fm1 epsR coR lam Cm etas s = (s', att, coll) ->
  pact (ab s') = match att with Some (t, true) => t | _ => pact (ab s) end.
Proof.
  unfold step_af. destruct (hopper ROps poisson _ zeta) as [tg hp]. destruct tg as [t|].
  - destruct (hop_to_it ROps m _ (pact (ab s)) t _ _) as [[a' v'] acc] eqn:Eh. destruct acc.
    + assert (a' = t) as -> by (unfold hop_to_it in Eh; destruct (hop_allowed _ _ _ _ _); [injection Eh as <- _; reflexivity | discriminate]).
      cbv zeta. destruct (collapse_scan ROps _ t 0 etas) as [c0 r0]. destruct (collapse_apply ROps n t c0 _ _ _) as [[? ?] ?].
      intros H; injection H as <- <- _. reflexivity.
    + assert (a' = pact (ab s)) as -> by (unfold hop_to_it in Eh; destruct (hop_allowed _ _ _ _ _); [discriminate | injection Eh as <- _; reflexivity]).
      cbv zeta. destruct (collapse_scan ROps _ (pact (ab s)) 0 etas) as [c0 r0]. destruct (collapse_apply ROps n _ c0 _ _ _) as [[? ?] ?].
      intros H; injection H as <- <- _. reflexivity.
  - cbv zeta. destruct (collapse_scan ROps _ (pact (ab s)) 0 etas) as [c0 r0]. destruct (collapse_apply ROps n _ c0 _ _ _) as [[? ?] ?].
    intros H; injection H as <- <- _. reflexivity.
Qed.

(* any number of A-FSSH passes: moments and density matrix stay Hermitian, provided every accepted target is a state index *)
Theorem run_af_hermitian n m dt poisson (ds : list (adata (T:=R))) : forall s sf evs,
  run_af ROps n m dt poisson ds s = (sf, evs) ->
  Forall (af_ok n) ds -> (pact (ab s) < n)%nat ->
  Forall (fun ev => forall t, fst ev = Some (t, true) -> (t < n)%nat) evs ->
  Forall (mherm n) (adelR s) -> Forall (mherm n) (adelP s) -> mherm n (prho (ab s)) ->
  Forall (mherm n) (adelR sf) /\ Forall (mherm n) (adelP sf) /\ mherm n (prho (ab sf)) /\ (pact (ab sf) < n)%nat.
Proof.
  induction ds as [|d ds IH]; intros s sf evs H Hok Ha Hev HR HP Hr.
  - cbn in H. injection H as <- <-. repeat split; assumption.
  - cbn [run_af] in H.
    destruct (step_af ROps n m dt poisson (azeta d) (aeprev d) (ae0 d) (ae1 d) (afm1 d) (aepsR d) (acoR d) (alam d) (aC d) (aetas d) s) as [[s1 att] coll] eqn:Es.
    destruct (run_af ROps n m dt poisson ds s1) as [sf' evs'] eqn:Er. injection H as <- <-.
    pose proof (Forall_inv Hok) as Hd. pose proof (Forall_inv_tail Hok) as Hds. destruct Hd as (Hl & HC & Hfm).
    pose proof (Forall_inv Hev) as He. pose proof (Forall_inv_tail Hev) as Hevs. cbn [fst] in He.
    destruct (step_af_hermitian n m dt poisson _ _ _ _ _ _ _ _ _ _ s s1 att coll Es Hl HC Ha He Hfm HR HP Hr) as (A & B & C0).
    assert (pact (ab s1) < n)%nat as Ha1.
    { rewrite (step_af_active _ _ _ _ _ _ _ _ _ _ _ _ _ _ _ _ _ _ Es). destruct att as [[t [|]]|]; [apply He; reflexivity | exact Ha | exact Ha]. }
    apply (IH s1 sf' evs' Er Hds Ha1 Hevs A B C0).
Qed.

(* the rk4 pass under primitive hypotheses: symmetric Hamiltonians, antisymmetric coupling tensors *)
Lemma step_af_rk4_hermitian' n m dt poisson zeta eprev e0 e1 fm1 lam Cm etas (s s' : astate (T:=R)) att coll :
  step_af_rk4 ROps n m dt poisson zeta eprev e0 e1 fm1 lam Cm etas s = (s', att, coll) ->
  hsym n (eH eprev) -> hsym n (eH e0) -> hsym n (eH e1) -> tanti n (etau eprev) -> tanti n (etau e0) -> tanti n (etau e1) ->
  length lam = n -> unitary n (mget ROps Cm) -> (pact (ab s) < n)%nat ->
  (forall t, att = Some (t, true) -> (t < n)%nat) ->
  Forall (fun fmx => forall i j, (i < n)%nat -> (j < n)%nat -> nth j (nth i fmx []) (o0 ROps) = nth i (nth j fmx []) (o0 ROps)) fm1 ->
  Forall (mherm n) (adelR s) -> Forall (mherm n) (adelP s) -> mherm n (prho (ab s)) ->
  Forall (mherm n) (adelR s') /\ Forall (mherm n) (adelP s') /\ mherm n (prho (ab s')).
Proof.
  intros H Sp S0 S1 Ap A0 A1 Hl HC Ha Ht Hfm HR HP Hr.
  exact (step_af_rk4_hermitian n m dt poisson zeta eprev e0 e1 fm1 lam Cm etas s s' att coll H
           (Wmid_herm n _ _ _ _ _ _ Sp S0 Ap A0) (fun v1 => Wmid_herm n _ _ _ _ v1 _ S0 S1 A0 A1) Hl HC Ha Ht Hfm HR HP Hr).
Qed.

Definition af_rk_ok (n : nat) (d : adata (T:=R)) : Prop :=
  af_ok n d /\ hsym n (eH (aeprev d)) /\ hsym n (eH (ae0 d)) /\ hsym n (eH (ae1 d))
  /\ tanti n (etau (aeprev d)) /\ tanti n (etau (ae0 d)) /\ tanti n (etau (ae1 d)).

Theorem run_af_rk4_hermitian n m dt poisson (ds : list (adata (T:=R))) : forall s sf evs,
  run_af_rk4 ROps n m dt poisson ds s = (sf, evs) ->
  Forall (af_rk_ok n) ds -> (pact (ab s) < n)%nat ->
  Forall (fun ev => forall t, fst ev = Some (t, true) -> (t < n)%nat) evs ->
  Forall (mherm n) (adelR s) -> Forall (mherm n) (adelP s) -> mherm n (prho (ab s)) ->
  Forall (mherm n) (adelR sf) /\ Forall (mherm n) (adelP sf) /\ mherm n (prho (ab sf)) /\ (pact (ab sf) < n)%nat.
Proof.
  induction ds as [|d ds IH]; intros s sf evs H Hok Ha Hev HR HP Hr.
  - cbn in H. injection H as <- <-. repeat split; assumption.
  - cbn [run_af_rk4] in H.
    destruct (step_af_rk4 ROps n m dt poisson (azeta d) (aeprev d) (ae0 d) (ae1 d) (afm1 d) (alam d) (aC d) (aetas d) s) as [[s1 att] coll] eqn:Es.
    destruct (run_af_rk4 ROps n m dt poisson ds s1) as [sf' evs'] eqn:Er. injection H as <- <-.
    pose proof (Forall_inv Hok) as Hd. pose proof (Forall_inv_tail Hok) as Hds. destruct Hd as ((Hl & HC & Hfm) & Sp & S0 & S1 & Ap & A0 & A1).
    pose proof (Forall_inv Hev) as He. pose proof (Forall_inv_tail Hev) as Hevs. cbn [fst] in He.
    destruct (step_af_rk4_hermitian' n m dt poisson _ _ _ _ _ _ _ _ s s1 att coll Es Sp S0 S1 Ap A0 A1 Hl HC Ha He Hfm HR HP Hr) as (A & B & C0).
    assert (pact (ab s1) < n)%nat as Ha1.
    { rewrite (step_af_rk4_active _ _ _ _ _ _ _ _ _ _ _ _ _ _ _ _ Es). destruct att as [[t [|]]|]; [apply He; reflexivity | exact Ha | exact Ha]. }
    apply (IH s1 sf' evs' Er Hds Ha1 Hevs A B C0).
Qed.

