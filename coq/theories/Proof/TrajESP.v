(* Proof/TrajESP.v — the assembled even-sampling pass (Model/Traj.step_es). *)
From Coq Require Import Reals ZArith List Lra Lia Bool.
From MV Require Import Ops RInst Vec Cplx Mat Hop Hopper Propagate Cumulative SpawnStack SpawnStackP Traj HopP SumR.
Import ListNotations.
Open Scope R_scope.

(* the parent: never hops, takes the Verlet pass and the exponential step; stack and base weight are its own for ever;
   the index never moves back *)
Lemma advance_ge (st : list nodeR) cur fuel : forall i, (i <= advance ROps st i cur fuel)%nat.
Proof.
  induction fuel as [|f IH]; intros i; cbn [advance]; [lia|].
  destruct (nth_error st i) as [nd|]; [|lia]. destruct (oltb ROps (nzeta nd) cur); [|lia].
  specialize (IH (S i)). lia.
Qed.
Lemma advance_le (st : list nodeR) cur fuel : forall i, (i <= length st)%nat -> (advance ROps st i cur fuel <= length st)%nat.
Proof.
  induction fuel as [|f IH]; intros i Hi; cbn [advance]; [exact Hi|].
  destruct (nth_error st i) as [nd|] eqn:E; [|exact Hi]. destruct (oltb ROps (nzeta nd) cur); [|exact Hi].
  apply IH. assert (i < length st)%nat by (apply nth_error_Some; rewrite E; discriminate). lia.
Qed.

Lemma step_es_parent n m dt e0 e1 lam Cm (s s' : estate (T:=R)) kids G :
  step_es ROps n m dt e0 e1 lam Cm s = (s', kids, G) ->
  let b := eb s in
  let f0 := nth (pact b) (eforce e0) [] in let f1 := nth (pact b) (eforce e1) [] in
  pact (eb s') = pact b /\ ptime (eb s') = ptime b + dt
  /\ px (eb s') = advance_position ROps m (px b) (pv b) f0 dt
  /\ pv (eb s') = advance_velocity ROps m (pv b) f0 f1 dt
  /\ prho (eb s') = exp_step ROps n lam Cm dt (prho b)
  /\ est s' = est s /\ ebase s' = ebase s /\ (eiz s <= eiz s')%nat.
Proof.
  unfold step_es. destruct (oltb ROps (zeta_at ROps (est s) (eiz s)) _).
  - destruct (nth_error (est s) (eiz s)) as [nd|]; intros H; injection H as <- <- <-; cbn; repeat split; try reflexivity; try lia.
    apply advance_ge.
  - intros H; injection H as <- <- <-; cbn; repeat split; try reflexivity; lia.
Qed.

(* ---- weight conservation of one pass: what the children carry plus what the parent keeps is what the parent held ---- *)
Lemma vsum_repeat (c : R) k : vsum ROps (repeat c k) = INR k * c.
Proof. induction k as [|k IH]; [cbn; lra|]. cbn [repeat]. change (vsum ROps (c :: repeat c k)) with (c + vsum ROps (repeat c k)). rewrite IH, S_INR. lra. Qed.

Lemma vsum_seq_vget (g : list R) : vsum ROps (map (fun i => vget ROps g i) (seq 0 (length g))) = vsum ROps g.
Proof.
  assert (forall k, map (fun i => vget ROps g i) (seq k (length g - k)) = skipn k g) as H.
  { intros k. remember (length g - k)%nat as r. revert k Heqr. induction r as [|r IH]; intros k Hr.
    - cbn. symmetry. apply skipn_all2. lia.
    - cbn [seq map]. rewrite (IH (S k)) by lia.
      assert (k < length g)%nat as Hk by lia.
      unfold vget. clear IH Hr. revert k Hk. induction g as [|x g IHg]; intros k Hk; [cbn in Hk; lia|].
      destruct k as [|k]; [reflexivity|]. cbn [nth skipn]. apply IHg. cbn in Hk. lia. }
  specialize (H 0%nat). rewrite Nat.sub_0_r in H. rewrite H. reflexivity.
Qed.

Lemma es_child_base n m dt e1 x1 v1 rho1 a t1 (st' : list nodeR) w tg :
  ebase (es_child ROps n m dt e1 x1 v1 rho1 a t1 st' w tg) = w.
Proof. unfold es_child. destruct (hop_to_it ROps m v1 a tg _ _) as [[a' v2] acc]. reflexivity. Qed.

(* the children of one crossing carry base*dw in total: spawn_size copies per other state, each with share 1/spawn_size of
   the branching ratio g_i/G *)
Lemma kids_sum (n ns a : nat) (g : list R) (bd : R) (mk : R -> nat -> estate (T:=R)) :
  (forall w i, ebase (mk w i) = w) ->
  length g = n -> vget ROps g a = 0 -> vsum ROps g <> 0 -> (1 <= ns)%nat ->
  vsum ROps (map (fun k => ebase k)
     (flat_map (fun i => if Nat.eqb i a then [] else repeat (mk (bd * (1 / INR ns * (vget ROps g i / vsum ROps g))) i) ns) (seq 0 n))) = bd.
Proof.
  intros Hmk Hl Ha HG Hns.
  rewrite flat_map_concat_map, concat_map, map_map, <- flat_map_concat_map, vsum_flat_map.
  assert (INR ns <> 0) as Hn0 by (apply not_0_INR; lia).
  rewrite (vsum_map_ext _ (fun i => (bd / vsum ROps g) * vget ROps g i)).
  - rewrite vsum_map_scal. subst n. rewrite vsum_seq_vget. field. exact HG.
  - apply Forall_forall. intros i _. destruct (Nat.eqb_spec i a) as [->|Hne].
    + cbn. rewrite Ha. lra.
    + assert (forall (e : estate (T:=R)) k, map (fun k0 => ebase k0) (repeat e k) = repeat (ebase e) k) as Hrep
        by (intros e k; induction k as [|k IHk]; [reflexivity | cbn; rewrite IHk; reflexivity]).
      rewrite Hrep, vsum_repeat, Hmk. field. split; [exact HG | exact Hn0].
Qed.

(* (copies of three small facts of Proof/HopperP.v, which cannot be imported here: it depends on the Interval library) *)
Lemma es_set_nth_same (l : list R) k x : (k < length l)%nat -> nth k (set_nth l k x) 0 = x.
Proof. revert k. induction l as [|h t IH]; intros [|k] H; cbn in *; try lia; [reflexivity | apply IH; lia]. Qed.
Lemma es_set_nth_length (l : list R) k x : length (set_nth l k x) = length l.
Proof. revert k. induction l as [|h t IH]; intros [|k]; cbn; try reflexivity. f_equal. apply IH. Qed.
Lemma es_gkndt_self_zero rr wc k dt : nth k (gkndt ROps rr wc k dt) 0 = 0.
Proof.
  unfold gkndt. set (l := map _ (flux ROps rr wc)).
  destruct (Nat.lt_ge_cases k (length l)) as [H|H].
  - rewrite (nth_indep _ 0 (clip0 ROps 0)) by (rewrite map_length, es_set_nth_length; exact H).
    rewrite map_nth, es_set_nth_same by exact H. unfold clip0; cbn. destruct (Rltb_spec 0 0); lra.
  - apply nth_overflow. rewrite map_length, es_set_nth_length. exact H.
Qed.
Lemma flux_length (rr wc : list (R * R)) : length rr = length wc -> length (flux ROps rr wc) = length rr.
Proof. revert wc. induction rr as [|r rr IH]; intros [|w wc] H; cbn in *; try lia. f_equal. apply IH. lia. Qed.
Lemma gkndt_length (rr wc : list (R * R)) k dt : length rr = length wc -> length (gkndt ROps rr wc k dt) = length rr.
Proof. intros H. unfold gkndt. rewrite map_length, es_set_nth_length, map_length. apply flux_length. exact H. Qed.
Lemma tabulate_length {A} n (f : nat -> A) : length (tabulate n f) = n.
Proof. unfold tabulate. rewrite map_length, seq_length. reflexivity. Qed.

(* one even-sampling pass conserves the statistical weight: the base weights of the children spawned in the pass plus the
   weight the parent keeps equal the weight the parent held; children exist only if the total rate of the pass is non-zero *)
Theorem step_es_weight_conserved n m dt e0 e1 lam Cm (s s' : estate (T:=R)) kids G d :
  step_es ROps n m dt e0 e1 lam Cm s = (s', kids, G) ->
  wf_stack (S d) (est s) -> (eiz s <= length (est s))%nat ->
  (eiz s' <> eiz s -> G <> 0) ->
  vsum ROps (map (fun k => ebase k) kids) + es_weight ROps s' = es_weight ROps s.
Proof.
  intros H Hwf Hiz HG. unfold step_es in H.
  set (b := eb s) in *.
  set (x1 := advance_position ROps m (px b) (pv b) _ dt) in H.
  set (v1 := advance_velocity ROps m (pv b) _ _ dt) in H.
  set (W := Wmid ROps n (eH e0) (eH e1) (etau e0) (etau e1) v1 (pv b)) in H.
  set (rho1 := exp_step ROps n lam Cm dt (prho b)) in H.
  set (g := gkndt ROps (row ROps n rho1 (pact b)) (colm ROps n W (pact b)) (pact b) dt) in H.
  set (a1 := accumulate_es ROps (eacc s) (vsum ROps g)) in H.
  destruct (oltb ROps (zeta_at ROps (est s) (eiz s)) a1).
  2:{ injection H as <- <- _. cbn [map vsum]. unfold es_weight. cbn [ebase est eiz oadd o0 omul ROps]. lra. }
  destruct (nth_error (est s) (eiz s)) as [nd|] eqn:End.
  2:{ injection H as <- <- _. cbn [map vsum]. unfold es_weight. cbn [ebase est eiz oadd o0 omul ROps]. lra. }
  remember (next_index ROps (est s) (eiz s) a1) as iz' eqn:Eiz.
  injection H as <- <- HGe.
  assert (eiz s <= iz')%nat as Hge by (rewrite Eiz; unfold next_index; apply advance_ge).
  assert (iz' <= length (est s))%nat as Hle by (rewrite Eiz; unfold next_index; apply advance_le; exact Hiz).
  unfold es_weight. cbn [ebase est eiz].
  rewrite (marginal_rem (est s) iz' d Hwf Hle), (marginal_rem (est s) (eiz s) d Hwf Hiz).
  assert (est s <> []) as Hne by (intros E; rewrite E in End; destruct (eiz s); discriminate).
  unfold rem. destruct (est s) as [|n0 st0] eqn:Est; [contradiction|]. rewrite <- Est in *.
  cbn [omul ROps].
  cbn [eiz] in HG.
  assert (1 <= nspawn nd)%nat as Hns.
  { destruct Hwf as [E|[_ [_ Hc]]]; [congruence|]. apply nth_error_In in End. rewrite Forall_forall in Hc. apply (Hc nd End). }
  rewrite <- INR_IZR_INZ.
  destruct (Nat.eq_dec iz' (eiz s)) as [Eq|Neq].
  - (* the index did not move: dw = 0, every child carries zero *)
    rewrite Eq.
    assert (sum_range ROps (dws (est s)) (eiz s) (eiz s) = 0) as Z by (unfold sum_range; rewrite Nat.sub_diag; reflexivity).
    rewrite vsum_map_ext with (g := fun _ => 0).
    + rewrite vsum_map_const. lra.
    + apply Forall_forall. intros k Hk. apply in_flat_map in Hk. destruct Hk as [i [_ Hk]].
      destruct (Nat.eqb i (pact b)); [contradiction|]. apply repeat_spec in Hk. subst k. rewrite es_child_base, Z. lra.
  - specialize (HG Neq). rewrite <- HGe in HG.
    pose proof (sum_range_split (dws (est s)) (eiz s) iz' Hge) as Hsp.
    rewrite (kids_sum n (nspawn nd) (pact b) g (ebase s * sum_range ROps (dws (est s)) (eiz s) iz')
               (fun w i => es_child ROps n m dt e1 x1 v1 rho1 (pact b) (ptime b + dt) (nchildren nd) w i)).
    + rewrite Hsp. lra.
    + intros w i. apply es_child_base.
    + unfold g. rewrite gkndt_length; unfold row, colm; rewrite !tabulate_length; reflexivity.
    + unfold vget, g. apply es_gkndt_self_zero.
    + exact HG.
    + exact Hns.
Qed.

(* ---- any number of passes of one trajectory ---- *)
Lemma step_es_index_le n m dt e0 e1 lam Cm (s s' : estate (T:=R)) kids G :
  step_es ROps n m dt e0 e1 lam Cm s = (s', kids, G) -> (eiz s <= length (est s))%nat -> (eiz s' <= length (est s'))%nat /\ est s' = est s.
Proof.
  unfold step_es. destruct (oltb ROps (zeta_at ROps (est s) (eiz s)) _).
  - destruct (nth_error (est s) (eiz s)) as [nd|]; intros H Hi; injection H as <- <- <-; cbn [eiz est]; split; try reflexivity; try exact Hi.
    unfold next_index. apply advance_le. exact Hi.
  - intros H Hi; injection H as <- <- <-; cbn [eiz est]; split; [exact Hi | reflexivity].
Qed.

(* the per-pass total rates of a run, read off the model (what step_es returns as its third component) *)
Fixpoint es_rates_ok (n : nat) (m : list R) (dt : R) (ds : list (sdata (T:=R))) (s : estate (T:=R)) : Prop :=
  match ds with
  | [] => True
  | d :: ds' =>
      let '(s1, _, G) := step_es ROps n m dt (de0 d) (de1 d) (dlam d) (dC d) s in
      (eiz s1 <> eiz s -> G <> 0) /\ es_rates_ok n m dt ds' s1
  end.

(* weight conservation over ANY number of passes: everything the trajectory has handed to children so far plus what it
   still holds is what it started with *)
Theorem run_es_weight_conserved n m dt (ds : list (sdata (T:=R))) d : forall (s sf : estate (T:=R)) kids,
  run_es ROps n m dt ds s = (sf, kids) ->
  wf_stack (S d) (est s) -> (eiz s <= length (est s))%nat -> es_rates_ok n m dt ds s ->
  vsum ROps (map (fun k => ebase k) kids) + es_weight ROps sf = es_weight ROps s.
Proof.
  induction ds as [|x ds IH]; intros s sf kids H Hwf Hiz Hok.
  - cbn in H. injection H as <- <-. cbn. lra.
  - cbn [run_es] in H. cbn [es_rates_ok] in Hok.
    destruct (step_es ROps n m dt (de0 x) (de1 x) (dlam x) (dC x) s) as [[s1 k1] G] eqn:Es.
    destruct (run_es ROps n m dt ds s1) as [sf' k2] eqn:Er. injection H as <- <-.
    destruct Hok as [HG Hok'].
    destruct (step_es_index_le _ _ _ _ _ _ _ _ _ _ _ Es Hiz) as [Hi1 Est1].
    pose proof (step_es_weight_conserved n m dt _ _ _ _ s s1 k1 G d Es Hwf Hiz HG) as P1.
    assert (wf_stack (S d) (est s1)) as Hwf1 by (rewrite Est1; exact Hwf).
    pose proof (IH s1 sf' k2 Er Hwf1 Hi1 Hok') as P2.
    rewrite map_app, vsum_app. cbn [oadd ROps] in *. lra.
Qed.
