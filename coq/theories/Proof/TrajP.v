(* Proof/TrajP.v — the assembled loop body (Model/Traj.step): what a pass does to the nuclear
   variables, and exact energy conservation across the hop part of the pass. *)
From Coq Require Import Reals ZArith List Lra Lia Bool.
From MV Require Import Ops RInst Vec Cplx Mat Poisson Hop Hopper Propagate Traj HopP PropagateP Ehrenfest Cumulative.
Import ListNotations.
Open Scope R_scope.

Section P.
  Variables (n : nat) (m : list R) (dt : R) (poisson : bool) (zeta : R).
  Variables (e0 e1 : elec (T:=R)) (lam : list R) (Cm : mat (T:=R)) (s : tstate (T:=R)).

  Let f0 := nth (pact s) (eforce e0) [].
  Let f1 := nth (pact s) (eforce e1) [].
  Let x1 := advance_position ROps m (px s) (pv s) f0 dt.
  Let v1 := advance_velocity ROps m (pv s) f0 f1 dt.

  (* position, time and density matrix after the pass never depend on the hop decision;
     without an attempt the velocity is the Verlet velocity and the state is unchanged *)
  Lemma step_nuclear s' W hp att : step ROps n m dt poisson zeta e0 e1 lam Cm s = (s', W, hp, att) ->
    px s' = x1 /\ ptime s' = ptime s + dt /\ prho s' = exp_step ROps n lam Cm dt (prho s)
    /\ (att = None -> pv s' = v1 /\ pact s' = pact s).
  Proof.
    unfold step. fold f0 f1 x1 v1.
    destruct (hopper ROps poisson _ zeta) as [tg hp'].
    destruct tg as [t|].
    - destruct (hop_to_it ROps m v1 (pact s) t _ _) as [[a' v2] acc]. intros H. injection H as <- <- <- <-.
      cbn. repeat split; try reflexivity; discriminate.
    - intros H. injection H as <- <- <- <-. cbn. repeat split; reflexivity.
  Qed.

  (* an accepted hop inside the pass conserves kinetic + active-state potential energy exactly *)
  Lemma step_hop_energy s' W hp t : step ROps n m dt poisson zeta e0 e1 lam Cm s = (s', W, hp, Some (t, true)) ->
    Forall (fun mi => 0 < mi) m -> length v1 = length m -> length (tget (etau e1) (pact s) t) = length m ->
    0 < vdot ROps (tget (etau e1) (pact s) t) (tget (etau e1) (pact s) t) ->
    pact s' = t /\ kinetic ROps m (pv s') + vget ROps (diagE ROps n e1) t
                   = kinetic ROps m v1 + vget ROps (diagE ROps n e1) (pact s).
  Proof.
    unfold step. fold f0 f1 x1 v1.
    destruct (hopper ROps poisson _ zeta) as [tg hp'].
    destruct tg as [t0|]; [|discriminate].
    destruct (hop_to_it ROps m v1 (pact s) t0 (diagE ROps n e1) (tget (etau e1) (pact s) t0)) as [[a' v2] acc] eqn:Eh.
    intros H Hm Hv Hd Hn. injection H as Hs HW Hhp Ht Hacc. subst. cbn [pact pv].
    apply (hop_energy_exact m v1 _ _ (pact s) _ a' v2 Hm Hv Hd (qa_pos m _ Hd Hm Hn) Eh).
  Qed.
End P.

(* ---- whole runs ---- *)
Lemma step_active n m dt poisson zeta e0 e1 lam Cm (s s' : tstate (T:=R)) W hp att :
  step ROps n m dt poisson zeta e0 e1 lam Cm s = (s', W, hp, att) ->
  pact s' = match att with Some (t, true) => t | _ => pact s end.
Proof.
  unfold step. destruct (hopper ROps poisson _ zeta) as [tg hp'].
  destruct tg as [t|].
  - unfold hop_to_it. destruct (hop_allowed _ _ _ _ _); intros H; injection H as <- <- <- <-; reflexivity.
  - intros H; injection H as <- <- <- <-; reflexivity.
Qed.

Theorem run_invariants n m dt poisson (ds : list (sdata (T:=R))) : forall s sf atts,
  run ROps n m dt poisson ds s = (sf, atts) ->
  length atts = length ds
  /\ ptime sf = ptime s + INR (length ds) * dt
  /\ prho sf = exp_steps n (map (fun d => (dlam d, dC d, dt)) ds) (prho s)
  /\ pact sf = follow (pact s) atts.
Proof.
  induction ds as [|d ds IH]; intros s sf atts H.
  - cbn in H. injection H as <- <-. cbn. repeat split; try reflexivity. lra.
  - cbn [run] in H.
    destruct (step ROps n m dt poisson (dzeta d) (de0 d) (de1 d) (dlam d) (dC d) s) as [[[s1 W] hp] att] eqn:Es.
    destruct (run ROps n m dt poisson ds s1) as [sf' atts'] eqn:Er. injection H as <- <-.
    destruct (IH s1 sf' atts' Er) as (I1 & I2 & I3 & I4).
    destruct (step_nuclear n m dt poisson _ _ _ _ _ s s1 W hp att Es) as (_ & Ht & Hr & _).
    pose proof (step_active _ _ _ _ _ _ _ _ _ _ _ _ _ _ Es) as Ha.
    repeat split.
    + cbn [length]. rewrite I1. reflexivity.
    + rewrite I2, Ht. cbn [length]. rewrite S_INR. lra.
    + rewrite I3, Hr. reflexivity.
    + rewrite I4, Ha. reflexivity.
Qed.

(* ---- Ehrenfest and cumulative passes ---- *)

(* Ehrenfest pass: the label never changes, rho is propagated by the same unitary step (so stays a
   valid density matrix), and the nuclear half uses the population-weighted force of the density
   matrix held at the start of the pass *)
Lemma step_eh_props n m dt e0 e1 lam Cm (s : tstate (T:=R)) :
  let '(s', W) := step_eh ROps n m dt e0 e1 lam Cm s in
  pact s' = pact s /\ ptime s' = ptime s + dt /\ prho s' = exp_step ROps n lam Cm dt (prho s)
  /\ px s' = advance_position ROps m (px s) (pv s) (eh_force_code ROps n (prho s) (eforce e0)) dt
  /\ pv s' = advance_velocity ROps m (pv s) (eh_force_code ROps n (prho s) (eforce e0)) (eh_force_code ROps n (prho s) (eforce e1)) dt.
Proof. unfold step_eh. cbn. repeat split; reflexivity. Qed.

(* cumulative pass: same nuclear/electronic halves; an accepted hop conserves energy exactly *)
Lemma step_cum_hop_energy n m dt e0 e1 lam Cm (s s' : tstate (T:=R)) c c' hp t :
  step_cum ROps n m dt e0 e1 lam Cm s c = (s', c', hp, Some (t, true)) ->
  let f0 := nth (pact s) (eforce e0) [] in let f1 := nth (pact s) (eforce e1) [] in
  let v1 := advance_velocity ROps m (pv s) f0 f1 dt in
  Forall (fun mi => 0 < mi) m -> length v1 = length m -> length (tget (etau e1) (pact s) t) = length m ->
  0 < vdot ROps (tget (etau e1) (pact s) t) (tget (etau e1) (pact s) t) ->
  pact s' = t /\ kinetic ROps m (pv s') + vget ROps (diagE ROps n e1) t
                 = kinetic ROps m v1 + vget ROps (diagE ROps n e1) (pact s)
  /\ acc c' = 0.
Proof.
  intros H f0 f1 v1. unfold step_cum in H. change (advance_velocity ROps m (pv s) (nth (pact s) (eforce e0) []) (nth (pact s) (eforce e1) []) dt) with v1 in H.
  destruct (cum_step ROps c _) as [c1 att] eqn:Ec.
  destruct att as [[[[tg|] z] p]|]; try discriminate.
  destruct (hop_to_it ROps m v1 (pact s) tg (diagE ROps n e1) (tget (etau e1) (pact s) tg)) as [[a' v2] ac] eqn:Eh.
  intros Hm Hv Hd Hn. injection H as Hs Hc Hhp Ht Hacc. subst. cbn [pact pv].
  destruct (hop_energy_exact m v1 _ _ (pact s) _ a' v2 Hm Hv Hd (qa_pos m _ Hd Hm Hn) Eh) as [A B].
  split; [exact A|]. split; [exact B|].
  unfold cum_step in Ec. destruct (oltb ROps _ _); [|discriminate].
  destruct (stream c); [discriminate|]. destruct (draw ROps (zlist c) _) as [[z' zl'] st'']. injection Ec as <- _. reflexivity.
Qed.

(* a run over ds1 ++ ds2 is the run over ds2 started from the state the run over ds1 reached *)
Lemma run_app n m dt poisson (ds1 ds2 : list (sdata (T:=R))) : forall s,
  run ROps n m dt poisson (ds1 ++ ds2) s =
  let '(s1, a1) := run ROps n m dt poisson ds1 s in
  let '(s2, a2) := run ROps n m dt poisson ds2 s1 in (s2, a1 ++ a2).
Proof.
  induction ds1 as [|d ds1 IH]; intros s; cbn [app run].
  - destruct (run ROps n m dt poisson ds2 s) as [s2 a2]. reflexivity.
  - destruct (step ROps n m dt poisson (dzeta d) (de0 d) (de1 d) (dlam d) (dC d) s) as [[[s1 W] hp] att].
    rewrite IH. destruct (run ROps n m dt poisson ds1 s1) as [s1' a1].
    destruct (run ROps n m dt poisson ds2 s1') as [s2 a2]. reflexivity.
Qed.

(* ---- whole Ehrenfest and cumulative runs ---- *)
Lemma run_eh_invariants n m dt (ds : list (sdata (T:=R))) : forall s,
  let sf := run_eh ROps n m dt ds s in
  pact sf = pact s /\ ptime sf = ptime s + INR (length ds) * dt
  /\ prho sf = exp_steps n (map (fun d => (dlam d, dC d, dt)) ds) (prho s).
Proof.
  induction ds as [|d ds IH]; intros s; cbn [run_eh length map].
  - cbn. repeat split; try reflexivity. lra.
  - pose proof (step_eh_props n m dt (de0 d) (de1 d) (dlam d) (dC d) s) as P.
    destruct (step_eh ROps n m dt (de0 d) (de1 d) (dlam d) (dC d) s) as [s1 W] eqn:Es. cbn [fst].
    destruct P as (Pa & Pt & Pr & _).
    specialize (IH s1). cbv zeta in IH. destruct IH as (A & B & C). cbv zeta.
    repeat split.
    + rewrite A. exact Pa.
    + rewrite B, Pt. rewrite S_INR. lra.
    + rewrite C, Pr. reflexivity.
Qed.

Lemma step_cum_shape n m dt e0 e1 lam Cm (s s' : tstate (T:=R)) c c' hp att :
  step_cum ROps n m dt e0 e1 lam Cm s c = (s', c', hp, att) ->
  ptime s' = ptime s + dt /\ prho s' = exp_step ROps n lam Cm dt (prho s)
  /\ pact s' = match att with Some (t, true) => t | _ => pact s end.
Proof.
  unfold step_cum. destruct (cum_step ROps c _) as [c1 a]. destruct a as [[[[tg|] z] p]|].
  - unfold hop_to_it. destruct (hop_allowed _ _ _ _ _); intros H; injection H as <- <- <- <-; cbn; repeat split; reflexivity.
  - intros H; injection H as <- <- <- <-; cbn; repeat split; reflexivity.
  - intros H; injection H as <- <- <- <-; cbn; repeat split; reflexivity.
Qed.

Lemma run_cum_invariants n m dt (ds : list (sdata (T:=R))) : forall s c sf cf atts,
  run_cum ROps n m dt ds s c = (sf, cf, atts) ->
  length atts = length ds /\ ptime sf = ptime s + INR (length ds) * dt
  /\ prho sf = exp_steps n (map (fun d => (dlam d, dC d, dt)) ds) (prho s)
  /\ pact sf = follow (pact s) atts.
Proof.
  induction ds as [|d ds IH]; intros s c sf cf atts H.
  - cbn in H. injection H as <- <- <-. cbn. repeat split; try reflexivity. lra.
  - cbn [run_cum] in H.
    destruct (step_cum ROps n m dt (de0 d) (de1 d) (dlam d) (dC d) s c) as [[[s1 c1] hp] att] eqn:Es.
    destruct (run_cum ROps n m dt ds s1 c1) as [[sf' cf'] atts'] eqn:Er. injection H as <- <- <-.
    destruct (IH s1 c1 sf' cf' atts' Er) as (I1 & I2 & I3 & I4).
    destruct (step_cum_shape _ _ _ _ _ _ _ _ _ _ _ _ _ Es) as (Ht & Hr & Ha).
    repeat split.
    + cbn [length]. rewrite I1. reflexivity.
    + rewrite I2, Ht. cbn [length]. rewrite S_INR. lra.
    + rewrite I3, Hr. reflexivity.
    + rewrite I4, Ha. reflexivity.
Qed.
