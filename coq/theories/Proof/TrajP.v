(* Proof/TrajP.v — the assembled loop body (Model/Traj.step): what a pass does to the nuclear
   variables, and exact energy conservation across the hop part of the pass. *)
From Coq Require Import Reals ZArith List Lra Lia Bool Setoid Morphisms.
From MV Require Import Ops RInst Vec Cplx Mat CRing MatP Poisson Hop Hopper Propagate Traj HopP PropagateP Rk4P ReverseP Ehrenfest Cumulative Events.
Import ListNotations.
Open Scope R_scope.

Section P.
  Variables (n : nat) (m : list R) (dt : R) (poisson : bool) (zeta : R).
  Variables (e0 e1 : elec (T:=R)) (lam : list R) (Cm : mat (T:=R)) (s : tstate (T:=R)).

  Let f0 := nth (pact s) (eforce e0) [].
  Let f1 := nth (pact s) (eforce e1) [].
  Let x1 := advance_position ROps m (px s) (pv s) f0 dt.
  Let v1 := advance_velocity ROps m (pv s) f0 f1 dt.

  (* position, time and density matrix after the pass never depend on the hop decision;
     without an attempt the velocity is the Verlet velocity and the state is unchanged *)
  Lemma step_nuclear s' W hp att : step ROps n m dt poisson zeta e0 e1 lam Cm s = (s', W, hp, att) ->
    px s' = x1 /\ ptime s' = ptime s + dt /\ prho s' = exp_step ROps n lam Cm dt (prho s)
    /\ (att = None -> pv s' = v1 /\ pact s' = pact s).
  Proof.
    unfold step. fold f0 f1 x1 v1.
    destruct (hopper ROps poisson _ zeta) as [tg hp'].
    destruct tg as [t|].
    - destruct (hop_to_it ROps m v1 (pact s) t _ _) as [[a' v2] acc]. intros H. injection H as <- <- <- <-.
      cbn. repeat split; try reflexivity; discriminate.
    - intros H. injection H as <- <- <- <-. cbn. repeat split; reflexivity.
  Qed.

  (* an accepted hop inside the pass conserves kinetic + active-state potential energy exactly *)
  Lemma step_hop_energy s' W hp t : step ROps n m dt poisson zeta e0 e1 lam Cm s = (s', W, hp, Some (t, true)) ->
    Forall (fun mi => 0 < mi) m -> length v1 = length m -> length (tget (etau e1) (pact s) t) = length m ->
    0 < vdot ROps (tget (etau e1) (pact s) t) (tget (etau e1) (pact s) t) ->
    pact s' = t /\ kinetic ROps m (pv s') + vget ROps (diagE ROps n e1) t
                   = kinetic ROps m v1 + vget ROps (diagE ROps n e1) (pact s).
  Proof.
    unfold step. fold f0 f1 x1 v1.
    destruct (hopper ROps poisson _ zeta) as [tg hp'].
    destruct tg as [t0|]; [|discriminate].
    destruct (hop_to_it ROps m v1 (pact s) t0 (diagE ROps n e1) (tget (etau e1) (pact s) t0)) as [[a' v2] acc] eqn:Eh.
    intros H Hm Hv Hd Hn. injection H as Hs HW Hhp Ht Hacc. subst. cbn [pact pv].
    apply (hop_energy_exact m v1 _ _ (pact s) _ a' v2 Hm Hv Hd (qa_pos m _ Hd Hm Hn) Eh).
  Qed.
End P.

(* ---- whole runs ---- *)
Lemma step_active n m dt poisson zeta e0 e1 lam Cm (s s' : tstate (T:=R)) W hp att :
  step ROps n m dt poisson zeta e0 e1 lam Cm s = (s', W, hp, att) ->
  pact s' = match att with Some (t, true) => t | _ => pact s end.
Proof.
  unfold step. destruct (hopper ROps poisson _ zeta) as [tg hp'].
  destruct tg as [t|].
  - unfold hop_to_it. destruct (hop_allowed _ _ _ _ _); intros H; injection H as <- <- <- <-; reflexivity.
  - intros H; injection H as <- <- <- <-; reflexivity.
Qed.

Theorem run_invariants n m dt poisson (ds : list (sdata (T:=R))) : forall s sf atts,
  run ROps n m dt poisson ds s = (sf, atts) ->
  length atts = length ds
  /\ ptime sf = ptime s + INR (length ds) * dt
  /\ prho sf = exp_steps n (map (fun d => (dlam d, dC d, dt)) ds) (prho s)
  /\ pact sf = follow (pact s) atts.
Proof.
  induction ds as [|d ds IH]; intros s sf atts H.
  - cbn in H. injection H as <- <-. cbn. repeat split; try reflexivity. lra.
  - cbn [run] in H.
    destruct (step ROps n m dt poisson (dzeta d) (de0 d) (de1 d) (dlam d) (dC d) s) as [[[s1 W] hp] att] eqn:Es.
    destruct (run ROps n m dt poisson ds s1) as [sf' atts'] eqn:Er. injection H as <- <-.
    destruct (IH s1 sf' atts' Er) as (I1 & I2 & I3 & I4).
    destruct (step_nuclear n m dt poisson _ _ _ _ _ s s1 W hp att Es) as (_ & Ht & Hr & _).
    pose proof (step_active _ _ _ _ _ _ _ _ _ _ _ _ _ _ Es) as Ha.
    repeat split.
    + cbn [length]. rewrite I1. reflexivity.
    + rewrite I2, Ht. cbn [length]. rewrite S_INR. lra.
    + rewrite I3, Hr. reflexivity.
    + rewrite I4, Ha. reflexivity.
Qed.

(* ---- Ehrenfest and cumulative passes ---- *)

(* Ehrenfest pass: the label never changes, rho is propagated by the same unitary step (so stays a
   valid density matrix), and the nuclear half uses the population-weighted force of the density
   matrix held at the start of the pass *)
Lemma step_eh_props n m dt e0 e1 lam Cm (s : tstate (T:=R)) :
  let '(s', W) := step_eh ROps n m dt e0 e1 lam Cm s in
  pact s' = pact s /\ ptime s' = ptime s + dt /\ prho s' = exp_step ROps n lam Cm dt (prho s)
  /\ px s' = advance_position ROps m (px s) (pv s) (eh_force_code ROps n (prho s) (eforce e0)) dt
  /\ pv s' = advance_velocity ROps m (pv s) (eh_force_code ROps n (prho s) (eforce e0)) (eh_force_code ROps n (prho s) (eforce e1)) dt.
Proof. unfold step_eh. cbn. repeat split; reflexivity. Qed.

(* cumulative pass: same nuclear/electronic halves; an accepted hop conserves energy exactly *)
Lemma step_cum_hop_energy n m dt e0 e1 lam Cm (s s' : tstate (T:=R)) c c' hp t :
  step_cum ROps n m dt e0 e1 lam Cm s c = (s', c', hp, Some (t, true)) ->
  let f0 := nth (pact s) (eforce e0) [] in let f1 := nth (pact s) (eforce e1) [] in
  let v1 := advance_velocity ROps m (pv s) f0 f1 dt in
  Forall (fun mi => 0 < mi) m -> length v1 = length m -> length (tget (etau e1) (pact s) t) = length m ->
  0 < vdot ROps (tget (etau e1) (pact s) t) (tget (etau e1) (pact s) t) ->
  pact s' = t /\ kinetic ROps m (pv s') + vget ROps (diagE ROps n e1) t
                 = kinetic ROps m v1 + vget ROps (diagE ROps n e1) (pact s)
  /\ acc c' = 0.
Proof.
  intros H f0 f1 v1. unfold step_cum in H. change (advance_velocity ROps m (pv s) (nth (pact s) (eforce e0) []) (nth (pact s) (eforce e1) []) dt) with v1 in H.
  destruct (cum_step ROps c _) as [c1 att] eqn:Ec.
  destruct att as [[[[tg|] z] p]|]; try discriminate.
  destruct (hop_to_it ROps m v1 (pact s) tg (diagE ROps n e1) (tget (etau e1) (pact s) tg)) as [[a' v2] ac] eqn:Eh.
  intros Hm Hv Hd Hn. injection H as Hs Hc Hhp Ht Hacc. subst. cbn [pact pv].
  destruct (hop_energy_exact m v1 _ _ (pact s) _ a' v2 Hm Hv Hd (qa_pos m _ Hd Hm Hn) Eh) as [A B].
  split; [exact A|]. split; [exact B|].
  unfold cum_step in Ec. destruct (oltb ROps _ _); [|discriminate].
  destruct (stream c); [discriminate|]. destruct (draw ROps (zlist c) _) as [[z' zl'] st'']. injection Ec as <- _. reflexivity.
Qed.

(* a run over ds1 ++ ds2 is the run over ds2 started from the state the run over ds1 reached *)
Lemma run_app n m dt poisson (ds1 ds2 : list (sdata (T:=R))) : forall s,
  run ROps n m dt poisson (ds1 ++ ds2) s =
  let '(s1, a1) := run ROps n m dt poisson ds1 s in
  let '(s2, a2) := run ROps n m dt poisson ds2 s1 in (s2, a1 ++ a2).
Proof.
  induction ds1 as [|d ds1 IH]; intros s; cbn [app run].
  - destruct (run ROps n m dt poisson ds2 s) as [s2 a2]. reflexivity.
  - destruct (step ROps n m dt poisson (dzeta d) (de0 d) (de1 d) (dlam d) (dC d) s) as [[[s1 W] hp] att].
    rewrite IH. destruct (run ROps n m dt poisson ds1 s1) as [s1' a1].
    destruct (run ROps n m dt poisson ds2 s1') as [s2 a2]. reflexivity.
Qed.

(* ---- whole Ehrenfest and cumulative runs ---- *)
Lemma run_eh_invariants n m dt (ds : list (sdata (T:=R))) : forall s,
  let sf := run_eh ROps n m dt ds s in
  pact sf = pact s /\ ptime sf = ptime s + INR (length ds) * dt
  /\ prho sf = exp_steps n (map (fun d => (dlam d, dC d, dt)) ds) (prho s).
Proof.
  induction ds as [|d ds IH]; intros s; cbn [run_eh length map].
  - cbn. repeat split; try reflexivity. lra.
  - pose proof (step_eh_props n m dt (de0 d) (de1 d) (dlam d) (dC d) s) as P.
    destruct (step_eh ROps n m dt (de0 d) (de1 d) (dlam d) (dC d) s) as [s1 W] eqn:Es. cbn [fst].
    destruct P as (Pa & Pt & Pr & _).
    specialize (IH s1). cbv zeta in IH. destruct IH as (A & B & C). cbv zeta.
    repeat split.
    + rewrite A. exact Pa.
    + rewrite B, Pt. rewrite S_INR. lra.
    + rewrite C, Pr. reflexivity.
Qed.

Lemma step_cum_shape n m dt e0 e1 lam Cm (s s' : tstate (T:=R)) c c' hp att :
  step_cum ROps n m dt e0 e1 lam Cm s c = (s', c', hp, att) ->
  ptime s' = ptime s + dt /\ prho s' = exp_step ROps n lam Cm dt (prho s)
  /\ pact s' = match att with Some (t, true) => t | _ => pact s end.
Proof.
  unfold step_cum. destruct (cum_step ROps c _) as [c1 a]. destruct a as [[[[tg|] z] p]|].
  - unfold hop_to_it. destruct (hop_allowed _ _ _ _ _); intros H; injection H as <- <- <- <-; cbn; repeat split; reflexivity.
  - intros H; injection H as <- <- <- <-; cbn; repeat split; reflexivity.
  - intros H; injection H as <- <- <- <-; cbn; repeat split; reflexivity.
Qed.

Lemma run_cum_invariants n m dt (ds : list (sdata (T:=R))) : forall s c sf cf atts,
  run_cum ROps n m dt ds s c = (sf, cf, atts) ->
  length atts = length ds /\ ptime sf = ptime s + INR (length ds) * dt
  /\ prho sf = exp_steps n (map (fun d => (dlam d, dC d, dt)) ds) (prho s)
  /\ pact sf = follow (pact s) atts.
Proof.
  induction ds as [|d ds IH]; intros s c sf cf atts H.
  - cbn in H. injection H as <- <- <-. cbn. repeat split; try reflexivity. lra.
  - cbn [run_cum] in H.
    destruct (step_cum ROps n m dt (de0 d) (de1 d) (dlam d) (dC d) s c) as [[[s1 c1] hp] att] eqn:Es.
    destruct (run_cum ROps n m dt ds s1 c1) as [[sf' cf'] atts'] eqn:Er. injection H as <- <- <-.
    destruct (IH s1 c1 sf' cf' atts' Er) as (I1 & I2 & I3 & I4).
    destruct (step_cum_shape _ _ _ _ _ _ _ _ _ _ _ _ _ Es) as (Ht & Hr & Ha).
    repeat split.
    + cbn [length]. rewrite I1. reflexivity.
    + rewrite I2, Ht. cbn [length]. rewrite S_INR. lra.
    + rewrite I3, Hr. reflexivity.
    + rewrite I4, Ha. reflexivity.
Qed.

(* ---- linear-rk4 pass ---- *)
Lemma step_rk4_shape n m dt maxdt start poisson zeta e0 e1 eigs vecs (s s' : tstate (T:=R)) W hp att :
  step_rk4 ROps n m dt maxdt start poisson zeta e0 e1 eigs vecs s = (s', W, hp, att) ->
  let f0 := nth (pact s) (eforce e0) [] in let f1 := nth (pact s) (eforce e1) [] in
  let v1 := advance_velocity ROps m (pv s) f0 f1 dt in
  px s' = advance_position ROps m (px s) (pv s) f0 dt /\ ptime s' = ptime s + dt
  /\ prho s' = rk4_step ROps n (eH e0) (eH e1) (etau e0) (etau e1) v1 (pv s) eigs vecs dt maxdt start (prho s)
  /\ pact s' = match att with Some (t, true) => t | _ => pact s end.
Proof.
  unfold step_rk4. destruct (hopper ROps poisson _ zeta) as [tg hp'].
  destruct tg as [t|].
  - unfold hop_to_it. destruct (hop_allowed _ _ _ _ _); intros H; injection H as <- <- <- <-; cbn; repeat split; reflexivity.
  - intros H; injection H as <- <- <- <-; cbn; repeat split; reflexivity.
Qed.

(* trace and Hermiticity of rho survive the rk4 pass whatever the hop decision, under the hypotheses of C02_rk4_trace_and_hermiticity *)
Lemma step_rk4_trace_herm n m dt maxdt start poisson zeta e0 e1 eigs vecs (s s' : tstate (T:=R)) W hp att :
  step_rk4 ROps n m dt maxdt start poisson zeta e0 e1 eigs vecs s = (s', W, hp, att) ->
  unitary n (mget ROps (mofreal ROps n vecs)) ->
  mherm n (mofreal ROps n (eH e0)) -> mherm n (mofreal ROps n (eH e1)) ->
  (forall tau w, (tau = etau e0 \/ tau = etau e1) -> aherm n (mget ROps (tvmat ROps n tau w))) ->
  mherm n (prho s) ->
  mherm n (prho s') /\ mtrace ROps n (prho s') = mtrace ROps n (prho s).
Proof.
  intros H HV H0 H1 Ht Hr. destruct (step_rk4_shape _ _ _ _ _ _ _ _ _ _ _ _ _ _ _ _ H) as (_ & _ & Hrho & _).
  rewrite Hrho. apply rk4_step_trace_herm; try assumption.
  intros tau w Htau _. apply Ht. exact Htau.
Qed.

(* ---- time reversal of a whole pass ---- *)
(* a pass without hop attempt, then the pass of the time-reversed problem: momenta negated, density matrix conjugated, the two
   electronics exchanged, and - as the eigen-decomposition of the reversed generator, which is the conjugate of the forward one
   (C07_midpoint_generator_time_symmetric) - the pair (lam, conj C).  The second pass returns the reversed initial state exactly. *)
Lemma step_reversible n m dt poisson zeta zeta' e0 e1 lam Cm (s s1 s2 : tstate (T:=R)) W hp W' hp' :
  let f0 := nth (pact s) (eforce e0) [] in let f1 := nth (pact s) (eforce e1) [] in
  length (px s) = length m -> length (pv s) = length m -> length f0 = length m -> length f1 = length m ->
  Forall (fun mi => mi <> 0) m -> length lam = n -> unitary n (mget ROps Cm) ->
  step ROps n m dt poisson zeta e0 e1 lam Cm s = (s1, W, hp, None) ->
  step ROps n m dt poisson zeta' e1 e0 lam (mconj n Cm) (mkT (px s1) (map Ropp (pv s1)) (mconj n (prho s1)) (pact s1) (ptime s1)) = (s2, W', hp', None) ->
  px s2 = px s /\ pv s2 = map Ropp (pv s) /\ pact s2 = pact s
  /\ meq n (mget ROps (prho s2)) (fconj (mget ROps (prho s))).
Proof.
  intros f0 f1 Hx Hv H0 H1 Hm Hl HC Hf Hb.
  destruct (step_nuclear n m dt poisson zeta e0 e1 lam Cm s s1 W hp None Hf) as (Ex & _ & Er & En).
  destruct (En eq_refl) as [Ev Ea].
  destruct (step_nuclear n m dt poisson zeta' e1 e0 lam (mconj n Cm) _ s2 W' hp' None Hb) as (Ex2 & _ & Er2 & En2).
  destruct (En2 eq_refl) as [Ev2 Ea2]. cbn [px pv prho pact] in Ex2, Er2, Ev2, Ea2.
  rewrite Ea in Ex2, Ev2, Ea2. fold f0 f1 in Ex, Ev. fold f0 f1 in Ex2, Ev2.
  repeat split.
  - rewrite Ex2, Ex, Ev. apply verlet_reverse_pos; assumption.
  - rewrite Ev2, Ev. apply verlet_reverse_vel; assumption.
  - exact Ea2.
  - rewrite Er2, Er. apply exp_step_reverses; assumption.
Qed.

(* ---- time reversal of whole runs ---- *)
(* ---- electronic half: n exp steps forward, then the n conjugate steps in reverse order, give back conj(rho) ---- *)
Lemma exp_step_meq n lam Cm dt rho rho' : meq n (mget ROps rho) (mget ROps rho') ->
  meq n (mget ROps (exp_step ROps n lam Cm dt rho)) (mget ROps (exp_step ROps n lam Cm dt rho')).
Proof. intros H. rewrite (exp_step_spec n lam Cm dt rho), (exp_step_spec n lam Cm dt rho'), H. reflexivity. Qed.

Lemma exp_steps_meq n steps : forall rho rho', meq n (mget ROps rho) (mget ROps rho') ->
  meq n (mget ROps (exp_steps n steps rho)) (mget ROps (exp_steps n steps rho')).
Proof.
  induction steps as [|[[lam Cm] dt] rest IH]; intros rho rho' H; cbn [exp_steps fold_left]; [exact H|].
  apply IH. apply exp_step_meq. exact H.
Qed.

Lemma exp_steps_app n a b rho : exp_steps n (a ++ b) rho = exp_steps n b (exp_steps n a rho).
Proof. unfold exp_steps. apply fold_left_app. Qed.

Definition conj_step (n : nat) (s : list R * mat (T:=R) * R) : list R * mat (T:=R) * R := let '(lam, Cm, dt) := s in (lam, mconj n Cm, dt).

Lemma exp_steps_reverse n steps : forall rho,
  Forall (fun s => let '(lam, Cm, dt) := s in length lam = n /\ unitary n (mget ROps Cm)) steps ->
  meq n (mget ROps (exp_steps n (rev (map (conj_step n) steps)) (mconj n (exp_steps n steps rho)))) (fconj (mget ROps rho)).
Proof.
  induction steps as [|[[lam Cm] dt] rest IH]; intros rho Hall.
  - cbn. apply mconj_spec.
  - pose proof (Forall_inv Hall) as Hh. pose proof (Forall_inv_tail Hall) as Ht. cbn beta iota in Hh. destruct Hh as [Hl HC].
    cbn [map rev conj_step]. rewrite exp_steps_app. cbn [exp_steps fold_left].
    change (fold_left _ rest (exp_step ROps n lam Cm dt rho)) with (exp_steps n rest (exp_step ROps n lam Cm dt rho)).
    set (r1 := exp_step ROps n lam Cm dt rho).
    (* inner: reversed tail applied to conj(exp_steps rest r1) ~ conj r1 *)
    pose proof (IH r1 Ht) as E.
    set (inner := exp_steps n (rev (map (conj_step n) rest)) (mconj n (exp_steps n rest r1))) in *.
    assert (meq n (mget ROps inner) (mget ROps (mconj n r1))) as E' by (rewrite E; symmetry; apply mconj_spec).
    rewrite (exp_step_meq n lam (mconj n Cm) dt inner (mconj n r1) E').
    unfold r1. apply exp_step_reverses; assumption.
Qed.

(* ---- nuclear half ---- *)
Fixpoint nuc (m : list R) (dt : R) (fs : list (list R * list R)) (xv : list R * list R) : list R * list R :=
  match fs with
  | [] => xv
  | (f0, f1) :: r => nuc m dt r (advance_position ROps m (fst xv) (snd xv) f0 dt, advance_velocity ROps m (snd xv) f0 f1 dt)
  end.
Definition fswap (p : list R * list R) := (snd p, fst p).
Definition fok (m : list R) (p : list R * list R) := length (fst p) = length m /\ length (snd p) = length m.

Lemma nuc_app m dt a b xv : nuc m dt (a ++ b) xv = nuc m dt b (nuc m dt a xv).
Proof. revert xv. induction a as [|[f0 f1] a IH]; intros xv; cbn [app nuc]; [reflexivity | apply IH]. Qed.

Lemma nuc_lengths m dt fs : forall xv, Forall (fok m) fs -> length (fst xv) = length m -> length (snd xv) = length m ->
  length (fst (nuc m dt fs xv)) = length m /\ length (snd (nuc m dt fs xv)) = length m.
Proof.
  induction fs as [|[f0 f1] r IH]; intros xv Hf Hx Hv; cbn [nuc]; [split; assumption|].
  pose proof (Forall_inv Hf) as [H0 H1]. cbn [fst snd] in H0, H1.
  apply IH; [exact (Forall_inv_tail Hf) | cbn [fst]; apply advance_position_length; assumption | cbn [snd]; apply advance_velocity_length; assumption].
Qed.

Lemma nuc_reverse m dt fs : forall x v, Forall (fun mi => mi <> 0) m -> Forall (fok m) fs -> length x = length m -> length v = length m ->
  let '(x1, v1) := nuc m dt fs (x, v) in
  nuc m dt (rev (map fswap fs)) (x1, map Ropp v1) = (x, map Ropp v).
Proof.
  induction fs as [|[f0 f1] r IH]; intros x v Hm Hf Hx Hv; cbn [nuc map rev fst snd]; [reflexivity|].
  pose proof (Forall_inv Hf) as [H0 H1]. cbn [fst snd] in H0, H1. pose proof (Forall_inv_tail Hf) as Hr.
  set (xa := advance_position ROps m x v f0 dt). set (va := advance_velocity ROps m v f0 f1 dt).
  assert (length xa = length m) as Lxa by (apply advance_position_length; assumption).
  assert (length va = length m) as Lva by (apply advance_velocity_length; assumption).
  specialize (IH xa va Hm Hr Lxa Lva). cbn [fst snd].
  destruct (nuc m dt r (xa, va)) as [x1 v1]. rewrite nuc_app, IH. cbn [nuc fswap fst snd]. f_equal.
  - apply verlet_reverse_pos; assumption.
  - apply verlet_reverse_vel; assumption.
Qed.

(* ---- a run without attempts is the nuclear map and the product of exp steps ---- *)
Definition fpair (a : nat) (d : sdata (T:=R)) : list R * list R := (nth a (eforce (de0 d)) [], nth a (eforce (de1 d)) []).

Lemma run_nohop n m dt poisson (ds : list (sdata (T:=R))) : forall s sf atts,
  run ROps n m dt poisson ds s = (sf, atts) -> Forall (fun a => a = None) atts ->
  (px sf, pv sf) = nuc m dt (map (fpair (pact s)) ds) (px s, pv s) /\ pact sf = pact s.
Proof.
  induction ds as [|d ds IH]; intros s sf atts H Hn.
  - cbn in H. injection H as <- <-. split; reflexivity.
  - cbn [run] in H.
    destruct (step ROps n m dt poisson (dzeta d) (de0 d) (de1 d) (dlam d) (dC d) s) as [[[s1 W] hp] att] eqn:Es.
    destruct (run ROps n m dt poisson ds s1) as [sf' atts'] eqn:Er. injection H as <- <-.
    pose proof (Forall_inv Hn) as Ha. pose proof (Forall_inv_tail Hn) as Hn'. cbn beta in Ha. subst att.
    destruct (step_nuclear n m dt poisson _ _ _ _ _ s s1 W hp None Es) as (Ex & _ & _ & En). destruct (En eq_refl) as [Ev Ea].
    destruct (IH s1 sf' atts' Er Hn') as [A B]. split; [|rewrite B; exact Ea].
    rewrite A, Ea. cbn [map nuc fpair fst snd]. rewrite Ex, Ev. reflexivity.
Qed.

Definition rd (n : nat) (d : sdata (T:=R)) : sdata (T:=R) := mkSD (dzeta d) (de1 d) (de0 d) (dlam d) (mconj n (dC d)).

(* ---- the statement: N passes without attempts, then the N passes of the reversed problem ---- *)
Theorem run_reversible n m dt poisson (ds : list (sdata (T:=R))) (s sf s2 : tstate (T:=R)) atts atts2 :
  run ROps n m dt poisson ds s = (sf, atts) -> Forall (fun a => a = None) atts ->
  run ROps n m dt poisson (rev (map (rd n) ds)) (mkT (px sf) (map Ropp (pv sf)) (mconj n (prho sf)) (pact sf) (ptime sf)) = (s2, atts2) ->
  Forall (fun a => a = None) atts2 ->
  Forall (fun mi => mi <> 0) m -> length (px s) = length m -> length (pv s) = length m ->
  Forall (fun d => fok m (fpair (pact s) d) /\ length (dlam d) = n /\ unitary n (mget ROps (dC d))) ds ->
  px s2 = px s /\ pv s2 = map Ropp (pv s) /\ pact s2 = pact s
  /\ meq n (mget ROps (prho s2)) (fconj (mget ROps (prho s))).
Proof.
  intros Hf Hn Hb Hn2 Hm Hx Hv Hd.
  destruct (run_nohop n m dt poisson ds s sf atts Hf Hn) as [Nf Af].
  destruct (run_nohop n m dt poisson _ _ s2 atts2 Hb Hn2) as [Nb Ab]. cbn [px pv pact] in Nb, Ab.
  destruct (run_invariants n m dt poisson ds s sf atts Hf) as (_ & _ & Rf & _).
  destruct (run_invariants n m dt poisson _ _ s2 atts2 Hb) as (_ & _ & Rb & _). cbn [prho] in Rb.
  assert (Forall (fok m) (map (fpair (pact s)) ds)) as Hfok.
  { apply Forall_forall. intros p Hp. apply in_map_iff in Hp. destruct Hp as [d [<- Hin]]. apply (proj1 (Forall_forall _ _) Hd d Hin). }
  pose proof (nuc_reverse m dt (map (fpair (pact s)) ds) (px s) (pv s) Hm Hfok Hx Hv) as NR.
  rewrite <- Nf in NR.
  assert (map (fpair (pact sf)) (rev (map (rd n) ds)) = rev (map fswap (map (fpair (pact s)) ds))) as Emap.
  { rewrite Af, map_rev, !map_map. f_equal. }
  rewrite Emap, NR in Nb. injection Nb as Ex Ev.
  split; [exact Ex|]. split; [exact Ev|]. split; [rewrite Ab; exact Af|].
  rewrite Rb, Rf.
  assert (map (fun d : sdata => (dlam d, dC d, dt)) (rev (map (rd n) ds)) = rev (map (conj_step n) (map (fun d : sdata => (dlam d, dC d, dt)) ds))) as Es.
  { rewrite map_rev, !map_map. f_equal. }
  rewrite Es. apply exp_steps_reverse.
  apply Forall_forall. intros st Hst. apply in_map_iff in Hst. destruct Hst as [d [<- Hin]]. cbn beta iota.
  apply (proj2 (proj1 (Forall_forall _ _) Hd d Hin)).
Qed.

(* ---- whole linear-rk4 runs ---- *)
(* ---- Ehrenfest and cumulative FSSH with the linear-rk4 electronic step ---- *)
Lemma step_eh_rk4_props n m dt maxdt start e0 e1 eigs vecs (s : tstate (T:=R)) :
  let '(s', W) := step_eh_rk4 ROps n m dt maxdt start e0 e1 eigs vecs s in
  let f0 := eh_force_code ROps n (prho s) (eforce e0) in let f1 := eh_force_code ROps n (prho s) (eforce e1) in
  let v1 := advance_velocity ROps m (pv s) f0 f1 dt in
  pact s' = pact s /\ ptime s' = ptime s + dt
  /\ prho s' = rk4_step ROps n (eH e0) (eH e1) (etau e0) (etau e1) v1 (pv s) eigs vecs dt maxdt start (prho s)
  /\ px s' = advance_position ROps m (px s) (pv s) f0 dt /\ pv s' = v1.
Proof. unfold step_eh_rk4. cbn. repeat split; reflexivity. Qed.

Lemma step_eh_rk4_trace_herm n m dt maxdt start e0 e1 eigs vecs (s : tstate (T:=R)) :
  unitary n (mget ROps (mofreal ROps n vecs)) ->
  mherm n (mofreal ROps n (eH e0)) -> mherm n (mofreal ROps n (eH e1)) ->
  (forall tau w, (tau = etau e0 \/ tau = etau e1) -> aherm n (mget ROps (tvmat ROps n tau w))) ->
  mherm n (prho s) ->
  let s' := fst (step_eh_rk4 ROps n m dt maxdt start e0 e1 eigs vecs s) in
  mherm n (prho s') /\ mtrace ROps n (prho s') = mtrace ROps n (prho s) /\ pact s' = pact s.
Proof.
  intros HV H0 H1 Ht Hr. unfold step_eh_rk4. cbn [fst prho pact].
  destruct (rk4_step_trace_herm n (eH e0) (eH e1) (etau e0) (etau e1)
              (advance_velocity ROps m (pv s) (eh_force_code ROps n (prho s) (eforce e0)) (eh_force_code ROps n (prho s) (eforce e1)) dt)
              (pv s) eigs vecs dt maxdt start HV H0 H1 (fun tau w Htau _ => Ht tau w Htau) (prho s) Hr) as [A B].
  split; [exact A|]. split; [exact B | reflexivity].
Qed.

Lemma step_cum_rk4_shape n m dt maxdt start e0 e1 eigs vecs (s s' : tstate (T:=R)) c c' hp att :
  step_cum_rk4 ROps n m dt maxdt start e0 e1 eigs vecs s c = (s', c', hp, att) ->
  let f0 := nth (pact s) (eforce e0) [] in let f1 := nth (pact s) (eforce e1) [] in
  let v1 := advance_velocity ROps m (pv s) f0 f1 dt in
  ptime s' = ptime s + dt
  /\ prho s' = rk4_step ROps n (eH e0) (eH e1) (etau e0) (etau e1) v1 (pv s) eigs vecs dt maxdt start (prho s)
  /\ px s' = advance_position ROps m (px s) (pv s) f0 dt
  /\ pact s' = match att with Some (t, true) => t | _ => pact s end.
Proof.
  unfold step_cum_rk4. destruct (cum_step ROps c _) as [c1 a]. destruct a as [[[[tg|] z] p]|].
  - unfold hop_to_it. destruct (hop_allowed _ _ _ _ _); intros H; injection H as <- <- <- <-; cbn; repeat split; reflexivity.
  - intros H; injection H as <- <- <- <-; cbn; repeat split; reflexivity.
  - intros H; injection H as <- <- <- <-; cbn; repeat split; reflexivity.
Qed.

Lemma step_cum_rk4_trace_herm n m dt maxdt start e0 e1 eigs vecs (s s' : tstate (T:=R)) c c' hp att :
  step_cum_rk4 ROps n m dt maxdt start e0 e1 eigs vecs s c = (s', c', hp, att) ->
  unitary n (mget ROps (mofreal ROps n vecs)) ->
  mherm n (mofreal ROps n (eH e0)) -> mherm n (mofreal ROps n (eH e1)) ->
  (forall tau w, (tau = etau e0 \/ tau = etau e1) -> aherm n (mget ROps (tvmat ROps n tau w))) ->
  mherm n (prho s) ->
  mherm n (prho s') /\ mtrace ROps n (prho s') = mtrace ROps n (prho s).
Proof.
  intros H HV H0 H1 Ht Hr. destruct (step_cum_rk4_shape _ _ _ _ _ _ _ _ _ _ _ _ _ _ _ H) as (_ & Hrho & _).
  rewrite Hrho. apply rk4_step_trace_herm; try assumption.
  intros tau w Htau _. apply Ht. exact Htau.
Qed.

(* an accepted hop of the cumulative pass with the rk4 electronic step: same energy bookkeeping, accumulation reset *)
Lemma step_cum_rk4_hop_energy n m dt maxdt start e0 e1 eigs vecs (s s' : tstate (T:=R)) c c' hp t :
  step_cum_rk4 ROps n m dt maxdt start e0 e1 eigs vecs s c = (s', c', hp, Some (t, true)) ->
  let f0 := nth (pact s) (eforce e0) [] in let f1 := nth (pact s) (eforce e1) [] in
  let v1 := advance_velocity ROps m (pv s) f0 f1 dt in
  Forall (fun mi => 0 < mi) m -> length v1 = length m -> length (tget (etau e1) (pact s) t) = length m ->
  0 < vdot ROps (tget (etau e1) (pact s) t) (tget (etau e1) (pact s) t) ->
  pact s' = t /\ kinetic ROps m (pv s') + vget ROps (diagE ROps n e1) t
                 = kinetic ROps m v1 + vget ROps (diagE ROps n e1) (pact s)
  /\ acc c' = 0.
Proof.
  intros H f0 f1 v1. unfold step_cum_rk4 in H. change (advance_velocity ROps m (pv s) (nth (pact s) (eforce e0) []) (nth (pact s) (eforce e1) []) dt) with v1 in H.
  destruct (cum_step ROps c _) as [c1 att] eqn:Ec.
  destruct att as [[[[tg|] z] p]|]; try discriminate.
  destruct (hop_to_it ROps m v1 (pact s) tg (diagE ROps n e1) (tget (etau e1) (pact s) tg)) as [[a' v2] ac] eqn:Eh.
  intros Hm Hv Hd Hn. injection H as Hs Hc Hhp Ht Hacc. subst. cbn [pact pv].
  destruct (hop_energy_exact m v1 _ _ (pact s) _ a' v2 Hm Hv Hd (qa_pos m _ Hd Hm Hn) Eh) as [A B].
  split; [exact A|]. split; [exact B|].
  unfold cum_step in Ec. destruct (oltb ROps _ _); [|discriminate].
  destruct (stream c); [discriminate|]. destruct (draw ROps (zlist c) _) as [[z' zl'] st'']. injection Ec as <- _. reflexivity.
Qed.

Definition rk_ok (n : nat) (d : kdata (T:=R)) : Prop :=
  unitary n (mget ROps (mofreal ROps n (kvecs d)))
  /\ mherm n (mofreal ROps n (eH (ke0 d))) /\ mherm n (mofreal ROps n (eH (ke1 d)))
  /\ (forall tau w, (tau = etau (ke0 d) \/ tau = etau (ke1 d)) -> aherm n (mget ROps (tvmat ROps n tau w))).

(* any number of linear-rk4 passes: rho stays Hermitian with the trace it started with, whatever the hop decisions *)
Theorem run_rk4_trace_herm n m dt maxdt start poisson (ds : list (kdata (T:=R))) : forall s sf atts,
  run_rk4 ROps n m dt maxdt start poisson ds s = (sf, atts) -> Forall (rk_ok n) ds -> mherm n (prho s) ->
  mherm n (prho sf) /\ mtrace ROps n (prho sf) = mtrace ROps n (prho s) /\ length atts = length ds.
Proof.
  induction ds as [|d ds IH]; intros s sf atts H Hok Hr.
  - cbn in H. injection H as <- <-. repeat split; try reflexivity. exact Hr.
  - cbn [run_rk4] in H.
    destruct (step_rk4 ROps n m dt maxdt start poisson (kzeta d) (ke0 d) (ke1 d) (keigs d) (kvecs d) s) as [[[s1 W] hp] att] eqn:Es.
    destruct (run_rk4 ROps n m dt maxdt start poisson ds s1) as [sf' atts'] eqn:Er. injection H as <- <-.
    pose proof (Forall_inv Hok) as (HV & H0 & H1 & Ht). pose proof (Forall_inv_tail Hok) as Hds.
    destruct (step_rk4_trace_herm n m dt maxdt start poisson _ _ _ _ _ s s1 W hp att Es HV H0 H1 Ht Hr) as [A B].
    destruct (IH s1 sf' atts' Er Hds A) as (C & D & E). repeat split; [exact C | rewrite D; exact B | cbn [length]; rewrite E; reflexivity].
Qed.

(* ---- what the pass hands to the hopper ---- *)
(* what the pass hands to the hopper: the probabilities are built from the density matrix AFTER the electronic step and from
   the same midpoint propagator W that drove it (new velocity and old velocity), and the recorded attempt is the hopper's answer *)
Lemma step_attempt n m dt poisson zeta e0 e1 lam Cm (s s' : tstate (T:=R)) W hp att :
  step ROps n m dt poisson zeta e0 e1 lam Cm s = (s', W, hp, att) ->
  let f0 := nth (pact s) (eforce e0) [] in let f1 := nth (pact s) (eforce e1) [] in
  let v1 := advance_velocity ROps m (pv s) f0 f1 dt in
  let rho1 := exp_step ROps n lam Cm dt (prho s) in
  let g := gkndt ROps (row ROps n rho1 (pact s)) (colm ROps n W (pact s)) (pact s) dt in
  W = Wmid ROps n (eH e0) (eH e1) (etau e0) (etau e1) v1 (pv s)
  /\ fst (hopper ROps poisson g zeta) = option_map fst att
  /\ hp = snd (hopper ROps poisson g zeta).
Proof.
  unfold step. cbv zeta.
  destruct (hopper ROps poisson _ zeta) as [tg hp'] eqn:Eh. destruct tg as [t|].
  - destruct (hop_to_it ROps m _ (pact s) t _ _) as [[a' v2] acc]. intros H. injection H as <- <- <- <-.
    rewrite Eh. cbn. repeat split; reflexivity.
  - intros H. injection H as <- <- <- <-. rewrite Eh. cbn. repeat split; reflexivity.
Qed.

(* ---- energy bookkeeping of a pass ---- *)
(* whatever the hop decision of a pass - none, frustrated, accepted - kinetic energy plus the potential of the active state
   at the end of the pass equals what the Verlet half alone produced on the old surface: hops never change the total energy *)
Lemma step_energy_any n m dt poisson zeta e0 e1 lam Cm (s s' : tstate (T:=R)) W hp att :
  step ROps n m dt poisson zeta e0 e1 lam Cm s = (s', W, hp, att) ->
  let f0 := nth (pact s) (eforce e0) [] in let f1 := nth (pact s) (eforce e1) [] in
  let v1 := advance_velocity ROps m (pv s) f0 f1 dt in
  (forall t, att = Some (t, true) ->
     Forall (fun mi => 0 < mi) m /\ length v1 = length m /\ length (tget (etau e1) (pact s) t) = length m
     /\ 0 < vdot ROps (tget (etau e1) (pact s) t) (tget (etau e1) (pact s) t)) ->
  kinetic ROps m (pv s') + vget ROps (diagE ROps n e1) (pact s') = kinetic ROps m v1 + vget ROps (diagE ROps n e1) (pact s).
Proof.
  intros H f0 f1 v1 Hacc.
  destruct att as [[t [|]]|].
  - destruct (Hacc t eq_refl) as (Hm & Hv & Hd & Hn).
    destruct (step_hop_energy n m dt poisson zeta e0 e1 lam Cm s s' W hp t H Hm Hv Hd Hn) as [Ea Ee]. rewrite Ea. exact Ee.
  - (* frustrated: state and velocity untouched *)
    unfold step in H. fold f0 f1 v1 in H.
    destruct (hopper ROps poisson _ zeta) as [tg hp'] eqn:Eh. destruct tg as [t0|]; [|discriminate].
    destruct (hop_to_it ROps m v1 (pact s) t0 (diagE ROps n e1) (tget (etau e1) (pact s) t0)) as [[a' v2] acc] eqn:Eht.
    injection H as Hs _ _ Ht Hacc'. subst. cbn [pv pact].
    destruct (hop_rejected_identity m v1 _ _ (pact s) t a' v2 Eht) as [-> ->]. reflexivity.
  - destruct (step_nuclear n m dt poisson zeta e0 e1 lam Cm s s' W hp None H) as (_ & _ & _ & En). destruct (En eq_refl) as [-> ->]. reflexivity.
Qed.

(* ---- the active column of a run is the one the event-log model reconstructs ---- *)
Definition toatt (a : option (nat * bool)) : attempt := match a with None => NoAttempt | Some (t, ok) => Attempt t ok end.

Lemma follow_step a att rest : follow (follow a [att]) rest = follow a (att :: rest).
Proof. reflexivity. Qed.
Lemma follow_toatt a att : follow a [att] = Events.step_active a (toatt att).
Proof. destruct att as [[t [|]]|]; reflexivity. Qed.

(* the active column that Events.run_from reconstructs from the attempts is, entry by entry, `follow` of the attempts so far *)
Lemma events_acts_nth (atts : list (option (nat * bool))) : forall k a i d, (i < length atts)%nat ->
  nth i (fst (run_from k a (map toatt atts))) d = follow a (firstn (S i) atts).
Proof.
  induction atts as [|att rest IH]; intros k a i d Hi; cbn [length] in Hi; [lia|].
  cbn [map run_from]. destruct (run_from (S k) (Events.step_active a (toatt att)) (map toatt rest)) as [acts evs] eqn:E.
  cbn [fst]. destruct i as [|i].
  - cbn [nth firstn]. symmetry. apply follow_toatt.
  - cbn [nth]. change (firstn (S (S i)) (att :: rest)) with (att :: firstn (S i) rest).
    rewrite <- follow_step, follow_toatt.
    specialize (IH (S k) (Events.step_active a (toatt att)) i d ltac:(lia)). rewrite E in IH. exact IH.
Qed.

(* the state after the first i+1 passes of a run carries exactly that entry *)
Theorem run_active_column n m dt poisson (ds : list (sdata (T:=R))) (s sf : tstate (T:=R)) atts k i d :
  run ROps n m dt poisson ds s = (sf, atts) -> (i < length ds)%nat ->
  pact (fst (run ROps n m dt poisson (firstn (S i) ds) s)) = nth i (fst (run_from k (pact s) (map toatt atts))) d.
Proof.
  intros H Hi. rewrite <- (firstn_skipn (S i) ds) in H. rewrite run_app in H.
  destruct (run ROps n m dt poisson (firstn (S i) ds) s) as [s1 a1] eqn:E1.
  destruct (run ROps n m dt poisson (skipn (S i) ds) s1) as [s2 a2] eqn:E2. injection H as _ <-.
  destruct (run_invariants n m dt poisson _ s s1 a1 E1) as (L1 & _ & _ & A1). cbn [fst].
  assert (length a1 = S i) as La by (rewrite L1, firstn_length; lia).
  rewrite events_acts_nth by (rewrite app_length; lia).
  rewrite firstn_app. replace (S i - length a1)%nat with 0%nat by lia. rewrite <- La, firstn_all. cbn [firstn]. rewrite app_nil_r. exact A1.
Qed.

(* ---- any number of Ehrenfest / cumulative passes with the linear-rk4 electronic step ---- *)
Theorem run_eh_rk4_trace_herm n m dt maxdt start (ds : list (kdata (T:=R))) : forall s,
  Forall (rk_ok n) ds -> mherm n (prho s) ->
  let sf := run_eh_rk4 ROps n m dt maxdt start ds s in
  mherm n (prho sf) /\ mtrace ROps n (prho sf) = mtrace ROps n (prho s) /\ pact sf = pact s.
Proof.
  induction ds as [|d ds IH]; intros s Hok Hr; cbn [run_eh_rk4].
  - repeat split; try reflexivity. exact Hr.
  - pose proof (Forall_inv Hok) as (HV & H0 & H1 & Ht). pose proof (Forall_inv_tail Hok) as Hds.
    destruct (step_eh_rk4_trace_herm n m dt maxdt start (ke0 d) (ke1 d) (keigs d) (kvecs d) s HV H0 H1 Ht Hr) as (A & B & C0).
    destruct (IH _ Hds A) as (D & E & F). repeat split; [exact D | rewrite E; exact B | rewrite F; exact C0].
Qed.

Theorem run_cum_rk4_trace_herm n m dt maxdt start (ds : list (kdata (T:=R))) : forall s c sf cf atts,
  run_cum_rk4 ROps n m dt maxdt start ds s c = (sf, cf, atts) -> Forall (rk_ok n) ds -> mherm n (prho s) ->
  mherm n (prho sf) /\ mtrace ROps n (prho sf) = mtrace ROps n (prho s) /\ length atts = length ds.
Proof.
  induction ds as [|d ds IH]; intros s c sf cf atts H Hok Hr.
  - cbn in H. injection H as <- <- <-. repeat split; try reflexivity. exact Hr.
  - cbn [run_cum_rk4] in H.
    destruct (step_cum_rk4 ROps n m dt maxdt start (ke0 d) (ke1 d) (keigs d) (kvecs d) s c) as [[[s1 c1] hp] att] eqn:Es.
    destruct (run_cum_rk4 ROps n m dt maxdt start ds s1 c1) as [[sf' cf'] atts'] eqn:Er. injection H as <- <- <-.
    pose proof (Forall_inv Hok) as (HV & H0 & H1 & Ht). pose proof (Forall_inv_tail Hok) as Hds.
    destruct (step_cum_rk4_trace_herm n m dt maxdt start _ _ _ _ s s1 c c1 hp att Es HV H0 H1 Ht Hr) as [A B].
    destruct (IH s1 c1 sf' cf' atts' Er Hds A) as (C0 & D & E). repeat split; [exact C0 | rewrite D; exact B | cbn [length]; rewrite E; reflexivity].
Qed.
