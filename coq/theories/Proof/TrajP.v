(* Proof/TrajP.v — the assembled loop body (Model/Traj.step): what a pass does to the nuclear
   variables, and exact energy conservation across the hop part of the pass. *)
From Coq Require Import Reals ZArith List Lra Lia Bool.
From MV Require Import Ops RInst Vec Cplx Mat Poisson Hop Hopper Propagate Traj HopP.
Import ListNotations.
Open Scope R_scope.

Section P.
  Variables (n : nat) (m : list R) (dt : R) (poisson : bool) (zeta : R).
  Variables (e0 e1 : elec (T:=R)) (lam : list R) (Cm : mat (T:=R)) (s : tstate (T:=R)).

  Let f0 := nth (pact s) (eforce e0) [].
  Let f1 := nth (pact s) (eforce e1) [].
  Let x1 := advance_position ROps m (px s) (pv s) f0 dt.
  Let v1 := advance_velocity ROps m (pv s) f0 f1 dt.

  (* position, time and density matrix after the pass never depend on the hop decision;
     without an attempt the velocity is the Verlet velocity and the state is unchanged *)
  Lemma step_nuclear s' W hp att : step ROps n m dt poisson zeta e0 e1 lam Cm s = (s', W, hp, att) ->
    px s' = x1 /\ ptime s' = ptime s + dt /\ prho s' = exp_step ROps n lam Cm dt (prho s)
    /\ (att = None -> pv s' = v1 /\ pact s' = pact s).
  Proof.
    unfold step. fold f0 f1 x1 v1.
    destruct (hopper ROps poisson _ zeta) as [tg hp'].
    destruct tg as [t|].
    - destruct (hop_to_it ROps m v1 (pact s) t _ _) as [[a' v2] acc]. intros H. injection H as <- <- <- <-.
      cbn. repeat split; try reflexivity; discriminate.
    - intros H. injection H as <- <- <- <-. cbn. repeat split; reflexivity.
  Qed.

  (* an accepted hop inside the pass conserves kinetic + active-state potential energy exactly *)
  Lemma step_hop_energy s' W hp t : step ROps n m dt poisson zeta e0 e1 lam Cm s = (s', W, hp, Some (t, true)) ->
    Forall (fun mi => 0 < mi) m -> length v1 = length m -> length (tget (etau e1) (pact s) t) = length m ->
    0 < vdot ROps (tget (etau e1) (pact s) t) (tget (etau e1) (pact s) t) ->
    pact s' = t /\ kinetic ROps m (pv s') + vget ROps (diagE ROps n e1) t
                   = kinetic ROps m v1 + vget ROps (diagE ROps n e1) (pact s).
  Proof.
    unfold step. fold f0 f1 x1 v1.
    destruct (hopper ROps poisson _ zeta) as [tg hp'].
    destruct tg as [t0|]; [|discriminate].
    destruct (hop_to_it ROps m v1 (pact s) t0 (diagE ROps n e1) (tget (etau e1) (pact s) t0)) as [[a' v2] acc] eqn:Eh.
    intros H Hm Hv Hd Hn. injection H as Hs HW Hhp Ht Hacc. subst. cbn [pact pv].
    apply (hop_energy_exact m v1 _ _ (pact s) _ a' v2 Hm Hv Hd (qa_pos m _ Hd Hm Hn) Eh).
  Qed.
End P.
