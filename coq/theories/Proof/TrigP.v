(* Proof/TrigP.v — polynomial bounds of sin and cos on [0,1] from the alternating series of the standard library (SIN) and the half-angle formula. *)
From Coq Require Import Reals Lra Lia.
Open Scope R_scope.

Lemma sin_bounds t : 0 <= t <= 1 -> t - t ^ 3 / 6 <= sin t <= t.
Proof.
  intros [H0 H1].
  assert (t <= PI) as HP by (pose proof PI2_1; pose proof PI_RGT_0; lra).
  destruct (SIN t H0 HP) as [L U].
  split.
  - eapply Rle_trans; [|exact L].
    unfold sin_lb, sin_approx, sin_term. cbn [sum_f_R0 Nat.mul Nat.add fact]. simpl INR.
    assert (0 <= t ^ 5 * (1 / 120 - t ^ 2 / 5040)) as A.
    { apply Rmult_le_pos; [apply pow_le; lra|]. assert (t ^ 2 <= 1) by (simpl; nra). lra. }
    simpl in *. lra.
  - destruct (Rle_lt_dec t 0) as [Hz|Hp]; [assert (t = 0) as -> by lra; rewrite sin_0; lra|].
    left. apply sin_lt_x. exact Hp.
Qed.

Lemma cos_bounds t : 0 <= t <= 1 -> 1 - t ^ 2 / 2 <= cos t <= 1 - t ^ 2 / 2 + t ^ 4 / 24.
Proof.
  intros [H0 H1].
  assert (0 <= t / 2 <= 1) as Hh by lra.
  destruct (sin_bounds (t / 2) Hh) as [L U].
  replace t with (2 * (t / 2)) at 2 3 by lra. rewrite cos_2a_sin.
  set (s := sin (t / 2)) in *. set (h := t / 2) in *.
  assert (0 <= h - h ^ 3 / 6) as Hp.
  { assert (h ^ 3 <= h) by (simpl; assert (h * h <= 1) by nra; nra). lra. }
  assert (0 <= s) as Hs by lra.
  assert (s * s <= h * h) as S1 by nra.
  assert ((h - h ^ 3 / 6) * (h - h ^ 3 / 6) <= s * s) as S2 by nra.
  replace t with (2 * h) by (unfold h; lra).
  split.
  - simpl. nra.
  - assert (0 <= h ^ 6) by (apply pow_le; lra).
    simpl in *. nra.
Qed.
