(* Proof/WmidP.v — the midpoint propagator is Hermitian for symmetric Hamiltonians and antisymmetric coupling tensors. *)
From Coq Require Import Reals ZArith List Lra Lia Bool.
From MV Require Import Ops RInst Vec Cplx Mat CRing MatP Propagate PropagateP.
Import ListNotations.
Open Scope R_scope.

(* the midpoint propagator is Hermitian when both Hamiltonians are symmetric and both coupling tensors are antisymmetric
   in the state indices (component lists of equal length) - what every electronics object provides (C05) *)
Definition hsym (n : nat) (H : list (list R)) : Prop := forall i j, (i < n)%nat -> (j < n)%nat -> rget ROps H i j = rget ROps H j i.
Definition tanti (n : nat) (tau : list (list (list R))) : Prop :=
  forall i j, (i < n)%nat -> (j < n)%nat -> tget tau i j = map Ropp (tget tau j i).

Lemma vdot_opp_l (a b : list R) : vdot ROps (map Ropp a) b = - vdot ROps a b.
Proof.
  revert b. induction a as [|x a IH]; intros [|y b]; cbn; try lra.
  unfold vdot, vsum, vmap2 in *. cbn. specialize (IH b). cbn in IH. lra.
Qed.

Lemma vadd_opp (a b : list R) : vadd ROps (map Ropp a) (map Ropp b) = map Ropp (vadd ROps a b).
Proof.
  revert b. induction a as [|x a IH]; intros [|y b]; cbn; try reflexivity.
  unfold vadd in *. cbn. rewrite IH. f_equal. lra.
Qed.

Lemma Wmid_herm n H0 H1 tau0 tau1 v lastv :
  hsym n H0 -> hsym n H1 -> tanti n tau0 -> tanti n tau1 -> mherm n (Wmid ROps n H0 H1 tau0 tau1 v lastv).
Proof.
  intros S0 S1 A0 A1. unfold mherm, herm. intros i j Hi Hj. unfold fadj.
  unfold Wmid. rewrite (mget_mmk _ _ _ _ _ Hj Hi), (mget_mmk _ _ _ _ _ Hi Hj).
  unfold cconj. cbn [fst snd]. f_equal.
  - cbn [ohalf omul oadd o1 o2 odiv oofZ ROps]. rewrite (S0 j i Hj Hi), (S1 j i Hj Hi). reflexivity.
  - rewrite (A0 j i Hj Hi), (A1 j i Hj Hi), vadd_opp, vdot_opp_l.
    cbn [ohalf omul oadd oopp o1 o2 odiv oofZ ROps]. lra.
Qed.
