(* Run/R01.v — binary64 runner/verdicts for the hop (C01, C04) and Verlet cases. *)
From Coq Require Import PrimFloat ZArith List Bool.
From MV Require Import Ops FloatFun FInst Vec Hop.
Import ListNotations.
Open Scope float_scope.

(* hop case: masses, velocity, direction, energies, state, target,
   impl: new state, new velocity, accepted, margin of the decision *)
Definition hopcase : Type :=
  (list float * list float * list float * list float * nat * nat * nat * list float * bool)%type.

Definition vscale_of (m v dir : list float) : float :=
  (* scale on which the kick is compared: |b/a| * max |u_i/m_i| + max|v| *)
  let u := unit_dir FOps dir in
  let a := qa FOps m u in let b := qb FOps v u in
  fold_right (fun x acc => fmaxabs x acc) 0 v
  + abs (b / a) * fold_right (fun x acc => fmaxabs x acc) 0 (vmap2 (fun mi ui => ui / mi) m u).

(* decision margin, relative: (b^2 - 4ac)/ (b^2 + |4ac|) ; cases with tiny margin are knife-edge *)
Definition hop_margin (c : hopcase) : float :=
  let '(m, v, dir, en, st, tg, _, _, _) := c in
  let dE := - (vget FOps en tg - vget FOps en st) in
  let u := unit_dir FOps dir in
  let a := qa FOps m u in let b := qb FOps v u in let cc := qc FOps dE in
  abs (b * b - 4 * a * cc) / (b * b + abs (4 * a * cc)).

(* near a double root both root finders lose accuracy like eps/sqrt(margin) *)
Definition chk_hop (c : hopcase) : bool :=
  let '(m, v, dir, en, st, tg, ist, iv, iacc) := c in
  let '(mst, mv, macc) := hop_to_it FOps m v st tg en dir in
  let tol := 0x1p-36 + 0x1p-44 / sqrt (hop_margin c) in
  Nat.eqb mst ist && Bool.eqb macc iacc && fclose_l (tol * vscale_of m v dir) 0 mv iv.

Definition chk_hop_k (c : hopcase) : bool :=
  (hop_margin c <? 0x1p-40) || chk_hop c.
(* exact ties built from dyadic data (float arithmetic exact): no knife-edge excuse *)
Definition chk_hop_sk (sc : bool * hopcase) : bool :=
  if fst sc then chk_hop (snd sc) else chk_hop_k (snd sc).

(* Verlet case: m x v f_last f_this dt, impl x', impl v' *)
Definition verletcase : Type :=
  (list float * list float * list float * list float * list float * float * list float * list float)%type.
Definition lmax (l : list float) : float := fold_right (fun x acc => fmaxabs x acc) 0 l.
Definition chk_verlet (c : verletcase) : bool :=
  let '(m, x, v, fl, ft, dt, ix, iv) := c in
  let mx := advance_position FOps m x v ft dt in
  let mv := advance_velocity FOps m v fl ft dt in
  fclose_l (0x1p-44 * (lmax x + lmax mx)) 0 mx ix && fclose_l (0x1p-44 * (lmax v + lmax mv)) 0 mv iv.

(* kinetic energy case *)
Definition chk_ke (c : list float * list float * float) : bool :=
  let '(m, v, ike) := c in fclose 0 0x1p-44 (kinetic FOps m v) ike.
