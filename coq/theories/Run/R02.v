From Coq Require Import PrimFloat ZArith List Bool.
From MV Require Import Ops FloatFun FInst Vec Cplx Mat Propagate.
Import ListNotations.
Open Scope float_scope.

Definition cmat := list (list (float * float)).
Fixpoint cclose_l (tol : float) (a b : list (float * float)) : bool :=
  match a, b with
  | [], [] => true
  | x :: a', y :: b' => (abs (fst x - fst y) <=? tol) && (abs (snd x - snd y) <=? tol) && cclose_l tol a' b'
  | _, _ => false
  end.
Fixpoint cclose_ll (tol : float) (a b : cmat) : bool :=
  match a, b with
  | [], [] => true
  | x :: a', y :: b' => cclose_l tol x y && cclose_ll tol a' b'
  | _, _ => false
  end.
Definition cmaxabs (m : cmat) : float :=
  fold_right (fun row acc => fold_right (fun z a => fmaxabs (fmaxabs (fst z) (snd z)) a) acc row) 0 m.

(* integrator (0 exp, 1 linear-rk4), n, H0, H1, tau0, tau1, v, lastv, eigenvalues, eigenvectors (complex for exp,
   real part used for rk4), dt, rho before, impl W, impl rho after *)
Definition case02 : Type :=
  (nat * nat * list (list float) * list (list float) * list (list (list float)) * list (list (list float))
   * list float * list float * list float * cmat * float * cmat * cmat * cmat)%type.

Definition chk02 (c : case02) : bool :=
  let '(integ, n, H0, H1, t0, t1, v, lv, lam, Cm, dt, rho, iW, irho) := c in
  let W := Wmid FOps n H0 H1 t0 t1 v lv in
  let okW := cclose_ll (0x1p-44 * (cmaxabs iW + 0x1p-1000)) W iW in
  match integ with
  | 0%nat => okW && cclose_ll 0x1p-38 (exp_step FOps n lam Cm dt rho) irho
  | _ => let vecs := map (map fst) Cm in
         cclose_ll 0x1p-34 (rk4_step FOps n H0 H1 t0 t1 v lv lam vecs dt 0x1.999999999999ap-4 4 rho) irho
  end.
