(* Run/R03.v — binary64 runner for C03 cases. *)
From Coq Require Import PrimFloat ZArith List Bool.
From MV Require Import Ops FloatFun FInst Vec Cplx Poisson Hopper.
Import ListNotations.
Open Scope float_scope.

(* rho_row, w_col, k, dt, poisson, zeta, impl: gkndt, target (n = length means none), hopping, strict *)
Definition case03 : Type :=
  (list (float * float) * list (float * float) * nat * float * bool * float
   * list float * nat * float * bool)%type.

Definition opt_to_nat (n : nat) (o : option nat) : nat := match o with Some i => i | None => n end.

(* distance of zeta to the nearest partition boundary, relative to the total *)
Fixpoint min_gap (zeta : float) (cs : list float) : float :=
  match cs with [] => infinity | c :: t => let d := abs (zeta - c) in let r := min_gap zeta t in if d <? r then d else r end.

Definition chk03 (c : case03) : bool :=
  let '(rr, wc, k, dt, pois, zeta, ig, itg, ihop, strict) := c in
  let g := gkndt FOps rr wc k dt in
  let ps := probs FOps pois g in
  let '(tg, hp) := hopper FOps pois g zeta in
  let sc := fold_right (fun x acc => fmaxabs x acc) 0 g in
  let knife := negb strict && (min_gap zeta (vcumsum FOps ps) <=? 0x1p-40 * (sc + 0x1p-1000)) in
  fclose_l (0x1p-44 * sc) 0 g ig
  && fclose (0x1p-44 * sc) 0 hp ihop
  && (knife || Nat.eqb (opt_to_nat (length g) tg) itg).
