From Coq Require Import PrimFloat ZArith List Bool.
From MV Require Import Ops FloatFun FInst Vec Electronics Models.
Import ListNotations.
Open Scope float_scope.
Definition fpi5 : float := 0x1.921fb54442d18p+1.
Definition fhalfpi : float := 0x1.921fb54442d18p+0.
Definition mmax (m : list (list float)) : float := fold_right (fun r a => fold_right fmaxabs a r) 0 m.
Fixpoint fclose_lll (atol : float) (a b : list (list (list float))) : bool :=
  match a, b with [], [] => true | x :: a', y :: b' => fclose_ll atol 0 x y && fclose_lll atol a' b' | _, _ => false end.
(* model V, model dV (one matrix per dimension), impl V, impl dV *)
Definition chk05m (c : list (list float) * list (list (list float)) * list (list float) * list (list (list float))) : bool :=
  let '(mV, mdV, iV, idV) := c in
  fclose_ll (0x1p-44 * (mmax iV + 0x1p-60)) 0 mV iV
  && fclose_lll (0x1p-44 * (fold_right (fun m a => fmaxabs (mmax m) a) 0x1p-60 idV)) mdV idV.
(* generic layer: N, nst, adiabatic?, E, raw coeff, reference, dV per dimension;
   impl: fixed coeff, force (per dim: list over states), dc (per dim: nst x nst), force matrix (per dim) *)
Definition case05g : Type :=
  (nat * nat * bool * list float * list (list float) * option (list (list float)) * list (list (list float))
   * list (list float) * list (list float) * list (list (list float)) * list (list (list float)))%type.
Fixpoint mingap_from (e : float) (l : list float) : float :=
  match l with [] => infinity | x :: t => let d := abs (x - e) in let r := mingap_from e t in if d <? r then d else r end.
Fixpoint mingap (l : list float) : float :=
  match l with [] => infinity | e :: t => let a := mingap_from e t in let b := mingap t in if a <? b then a else b end.
Definition chk05g (c : case05g) : bool :=
  let '(N, nst, adia, E, Craw, ref, dVs, iC, iF, iD, iM) := c in
  let Cf := signfix FOps N nst Craw ref in
  let fl := if adia then floor_adiabatic FOps else floor_diabatic FOps in
  let sc := fold_right (fun m a => fmaxabs (mmax m) a) 0x1p-60 dVs in
  let gmin := fold_right (fun d a => fmaxabs (mmax d) a) 0x1p-60 iD in
  fclose_ll 0 0 Cf iC
  && fclose_ll (0x1p-40 * sc) 0 (map (fun dV => force_of FOps N nst Cf dV) dVs) iF
  && fclose_lll (0x1p-40 * sc) (map (fun dV => force_matrix_of FOps N nst Cf dV) dVs) iM
  && (let mg := let g := mingap E in if g <? fl then fl else g in
      fclose_lll (0x1p-36 * gmin + 0x1p-40 * sc / mg) (map (fun dV => dc_of FOps N nst fl Cf dV E) dVs) iD).
(* harmonic *)
Definition chk05h (c : list float * float * list (list float) * list float * float * list float) : bool :=
  let '(x0, E0, H0, X, iE, iF) := c in
  fclose 0x1p-44 0x1p-44 (harm_energy FOps x0 E0 H0 X) iE && fclose_l (0x1p-44 * (mmax [iF] + 0x1p-60)) 0 (harm_force FOps x0 H0 X) iF.
