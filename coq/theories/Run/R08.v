From Coq Require Import PrimFloat ZArith List Bool.
From MV Require Import Ops FloatFun FInst Vec Cplx Mat Ehrenfest R02.
Import ListNotations.
Open Scope float_scope.
(* n, ndim, rho, H (real), force (n x ndim), force matrix (n x n x ndim), impl potential, impl force, want mean-field? *)
Definition case08 : Type :=
  (nat * nat * cmat * list (list float) * list (list float) * list (list (list float)) * float * list float)%type.
Definition chk08 (c : case08) : bool :=
  let '(n, nd, rho, H, F, FM, ipot, ifor) := c in
  let sc := fold_right (fun r a => fold_right fmaxabs a r) 0x1p-1000 F in
  fclose 0x1p-40 0x1p-44 (eh_potential FOps n rho (mofreal FOps n H)) ipot
  && fclose_l (0x1p-42 * sc) 0 (eh_force_code FOps n rho F) ifor.
(* the mean-field force, for the discrepancy oracle *)
Definition mf08 (c : case08) : list float :=
  let '(n, nd, rho, H, F, FM, ipot, ifor) := c in eh_force_meanfield FOps n nd rho FM.
