From Coq Require Import PrimFloat ZArith List Bool.
From MV Require Import Ops FloatFun FInst Vec Hopper Cumulative.
Import ListNotations.
Open Scope float_scope.

(* zeta_list, stream (pre-drawn generator numbers), steps g, impl per step: (attempt? , target, prob_cum after, zeta after) *)
Definition case09 : Type :=
  (list float * list float * list (list float) * list (bool * nat * float * float))%type.

Fixpoint chk_steps (s : cstate (T:=float)) (gs : list (list float)) (obs : list (bool * nat * float * float)) : bool :=
  match gs, obs with
  | [], [] => true
  | g :: gs', (att, tg, pc, z) :: obs' =>
      let '(s', o) := cum_step FOps s g in
      let a := accumulate FOps (acc s) (vsum FOps g) in
      let knife := abs (a - zeta s) <=? 0x1p-40 in
      (* re-synchronise on the implementation's decision at a knife edge: stop comparing *)
      if knife then true else
      let ok := match o with
                | None => negb att && fclose 0x1p-40 0 (acc s') pc && fclose 0 0 (zeta s') z
                | Some (mt, _, _) => att && Nat.eqb (match mt with Some i => i | None => length g end) tg
                                     && fclose 0 0 (acc s') pc && fclose 0 0 (zeta s') z
                end in
      ok && chk_steps s' gs' obs'
  | _, _ => false
  end.

Definition chk09 (c : case09) : bool :=
  let '(zl, st, gs, obs) := c in chk_steps (init FOps zl st) gs obs.
