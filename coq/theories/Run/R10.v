From Coq Require Import PrimFloat ZArith List Bool.
From MV Require Import Ops FloatFun FInst Vec SpawnStack.
Import ListNotations.
Open Scope float_scope.
Definition case10 : Type := (list (node (T:=float)) * float * hist (T:=float) * list float)%type.
Definition chk10 (c : case10) : bool :=
  let '(st, base, h, iw) := c in
  fclose_l (0x1p-44 * base) 0 (weights FOps 100000 st base 0 h) iw.
(* next_zeta bookkeeping: stack, index, current value -> (new index, zeta, marginal weight) *)
Definition chk10z (c : list (node (T:=float)) * nat * float * nat * float * float) : bool :=
  let '(st, i, cur, ii, iz, im) := c in
  let i' := next_index FOps st i cur in
  Nat.eqb i' ii && fclose 0 0 (zeta_at FOps st i') iz && fclose 0x1p-48 0 (marginal FOps st i') im.
