From Coq Require Import PrimFloat ZArith List Bool.
From MV Require Import Ops FloatFun FInst Vec Cplx Mat Propagate Afssh R02.
Import ListNotations.
Open Scope float_scope.
(* kind: 0 delR-exp, 1 delR-rk4, 2 delP-exp, 3 delP-rk4, 4 hop shift (aux nat = target) *)
Definition case11 : Type :=
  (nat * nat * list float * cmat * cmat * float * float * cmat * cmat * list (list float) * float * cmat * nat * cmat)%type.
Definition chk11 (c : case11) : bool :=
  let '(kind, n, eps, co, W, dt, mass, dR, dP, fmx, f0, rho, aux, impl) := c in
  let sc := cmaxabs impl + cmaxabs dR + cmaxabs dP + 0x1p-1000 in
  let out := match kind with
             | 0%nat => delR_exp FOps n eps co dt mass dR dP
             | 1%nat => delR_rk4 FOps n W dt mass dR dP
             | 2%nat => delP_exp FOps n eps co dt dP (delF FOps n fmx f0) rho
             | 3%nat => delP_rk4 FOps n W dt dP (delF FOps n fmx f0) rho
             | _ => hop_shift FOps n aux dR
             end in
  cclose_ll (0x1p-36 * sc) out impl.
