From Coq Require Import PrimFloat ZArith List Bool.
From MV Require Import Ops FloatFun FInst Vec Cplx Mat Propagate Afssh R02.
Import ListNotations.
Open Scope float_scope.
(* kind: 0 delR-exp, 1 delR-rk4, 2 delP-exp, 3 delP-rk4, 4 hop shift (aux nat = target) *)
Definition case11 : Type :=
  (nat * nat * list float * cmat * cmat * float * float * cmat * cmat * list (list float) * float * cmat * nat * cmat)%type.
Definition chk11 (c : case11) : bool :=
  let '(kind, n, eps, co, W, dt, mass, dR, dP, fmx, f0, rho, aux, impl) := c in
  let sc := cmaxabs impl + cmaxabs dR + cmaxabs dP + 0x1p-1000 in
  let out := match kind with
             | 0%nat => delR_exp FOps n eps co dt mass dR dP
             | 1%nat => delR_rk4 FOps n W dt mass dR dP
             | 2%nat => delP_exp FOps n eps co dt dP (delF FOps n fmx f0) rho
             | 3%nat => delP_rk4 FOps n W dt dP (delF FOps n fmx f0) rho
             | _ => hop_shift FOps n aux dR
             end in
  cclose_ll (0x1p-36 * sc) out impl.
(* n, Re diag delR per dimension, Re diag delP per dimension, state forces, active, dt, impl gamma *)
Definition caseG : Type := (nat * list (list float) * list (list float) * list (list float) * nat * float * list float)%type.
Definition lmaxg (l : list float) : float := fold_right (fun x acc => fmaxabs x acc) 0x1p-1000 l.
Definition chkG (c : caseG) : bool :=
  let '(n, dR, dP, F, k, dt, ig) := c in
  fclose_l (0x1p-44 * lmaxg ig) 0 (gamma_collapse FOps n dR dP F k dt) ig.
(* gamma, active, next uniforms of the trajectory's stream, impl: collapsed?, number of uniforms consumed *)
Definition caseS : Type := (list float * nat * list float * bool * nat)%type.
Definition chkS (c : caseS) : bool :=
  let '(gam, k, us, icoll, iused) := c in
  let '(coll, rest) := collapse_scan FOps gam k 0 us in
  Bool.eqb coll icoll && Nat.eqb (length us - length rest) iused.
