From Coq Require Import PrimFloat ZArith List Bool.
From MV Require Import Ops FloatFun FInst Vec Restart.
Import ListNotations.
Open Scope float_scope.
(* masses, prev (time,pos,mom), last (time,pos,mom), loglen, impl: pos, vel, lastvel, time, nsteps, inferred dt *)
Definition case13 : Type :=
  (list float * (float * list float * list float) * (float * list float * list float) * nat
   * (list float * list float * list float * float * nat * float))%type.
Definition chk13 (c : case13) : bool :=
  let '(m, (pt, px, pp), (lt, lx, lp), n, (ix, iv, ilv, it, ins, idt)) := c in
  let sp := mkSnap pt px pp tt 0%nat tt in let sl := mkSnap lt lx lp tt 0%nat tt in
  let s := restore FOps m sp sl n in
  fclose_l 0 0 (pos s) ix && fclose_l 0 0 (vel s) iv && fclose_l 0 0 (lastvel s) ilv
  && fclose 0 0 (time s) it && Nat.eqb (nsteps s) ins && fclose 0 0 (inferred_dt FOps sp sl) idt.
