From Coq Require Import ZArith List Bool Arith.
From MV Require Import TraceStore.
Import ListNotations.

Inductive op := OInit (base p : nat) | OCollect (h x : nat) | OEvent (h e : nat) | OReload (h : nat) | OClone (h : nat).

(* handle = trace + the base name a clone of it would use (load_log leaves the default "traj" = 0) *)
Definition handle := (ytrace * nat)%type.

Fixpoint set_h (hs : list handle) (i : nat) (h : handle) : list handle :=
  match hs, i with
  | [], _ => []
  | _ :: t, 0 => h :: t
  | x :: t, S i' => x :: set_h t i' h
  end.

Definition dummy : handle := (mkY 0 0 1 1 0, 0).

Definition exec (st : fs * list handle) (o : op) : fs * list handle :=
  let '(d, hs) := st in
  match o with
  | OInit b p => let '(d', t) := y_init d b p in (d', hs ++ [(t, b)])
  | OCollect h x => let '(t, cb) := nth h hs dummy in let '(d', t') := y_collect d t x in (d', set_h hs h (t', cb))
  | OEvent h e => let '(t, _) := nth h hs dummy in (y_event d t e, hs)
  | OReload h => let '(t, _) := nth h hs dummy in
                 match y_reload d (ybase t) (yu t) with
                 | Some t' => (d, set_h hs h (t', 0))
                 | None => (d, hs)
                 end
  | OClone h => let '(t, cb) := nth h hs dummy in let '(d', t') := y_clone d t cb in (d', hs ++ [(t', cb)])
  end.

Definition listing := list (fname * list nat).
Definition same_listing (d : fs) (l : listing) : bool :=
  Nat.eqb (length d) (length l)
  && forallb (fun fc => match fs_get d (fst fc) with
                        | Some c => if list_eq_dec Nat.eq_dec c (snd fc) then true else false
                        | None => false end) l.

(* ops with the directory listing observed after each one, and the logsize of every handle at the end *)
Fixpoint run14 (st : fs * list handle) (steps : list (op * listing)) : bool :=
  match steps with
  | [] => true
  | (o, l) :: rest => let st' := exec st o in same_listing (fst st') l && run14 st' rest
  end.
Definition chk14 (c : list (op * listing)) : bool := run14 ([], []) c.
