From Coq Require Import List Arith Bool.
From MV Require Import TraceStore Crash.
Import ListNotations.
(* pitch, snapshot ids, observed loads after each completed file operation (in order) *)
Definition chk15 (c : nat * list nat * list (list nat)) : bool :=
  let '(p, xs, obs) := c in
  let sts := visited (init_store p) 0 xs in
  Nat.eqb (length sts) (length obs)
  && forallb (fun q => if list_eq_dec Nat.eq_dec (load (snd (fst q))) (snd q) then true else false) (combine sts obs).
