From Coq Require Import PrimFloat ZArith List Bool.
From MV Require Import Ops FloatFun FInst Vec Stopping.
Import ListNotations.
Open Scope float_scope.

(* max_steps, max_time, every, dt, box, t0, positions after k steps (k = 0..), impl log (step, time) *)
Definition case16 : Type :=
  (Z * float * nat * float * option (list float * list float) * float * list (list float) * list (nat * float))%type.

Definition chk16 (c : case16) : bool :=
  let '(ms, mt, ev, dt, bx, t0, poss, ilog) := c in
  let cf := mkCfg ms mt ev dt bx in
  let pos k := nth k poss [] in
  match simulate FOps (length poss) cf false 0 t0 pos with
  | None => false
  | Some (mlog, _) =>
      Nat.eqb (length mlog) (length ilog) &&
      forallb (fun p => Nat.eqb (fst (fst p)) (fst (snd p)) && (snd (fst p) =? snd (snd p))) (combine mlog ilog)
  end.
