From Coq Require Import PrimFloat ZArith List Bool.
From MV Require Import Ops FloatFun FInst Vec Outcome.
Import ListNotations.
Open Scope float_scope.
Definition case17 : Type :=
  (nat * list (float * nat * bool * nat) * list (list float) * list (list float) * list float)%type.
Definition chk17 (c : case17) : bool :=
  let '(nst, ts, iout, icnt, ihist) := c in
  let fts := map (fun q => let '(w, a, l, h) := q in mkF w a l h) ts in
  fclose_ll 0x1p-44 0 (outcome FOps nst fts) iout
  && fclose_ll 0 0 (counts FOps nst fts) icnt
  && match ihist with [] => true | _ => fclose_l 0x1p-39 0 (hop_stats FOps fts) ihist  (* printed with 12 decimals *) end.
