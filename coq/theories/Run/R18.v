(* Run/R18.v — binary64 runner/verdict for C18 case files. *)
From Coq Require Import PrimFloat ZArith List Bool.
From MV Require Import Ops FloatFun FInst Vec Quadrature.
Import ListNotations.
Open Scope float_scope.

Definition fpi : float := 0x1.921fb54442d18p+1.

Definition case18 : Type :=
  (nat * nat * float * float * list float * list float * list float * list float)%type.

Definition model18 (m n : nat) (a b : float) (ox ow : list float) : list float * list float :=
  match m with
  | 0%nat => (midpoint_pts FOps n a b, midpoint_wts FOps n a b)
  | 1%nat => (trapezoid_pts FOps n a b, trapezoid_wts FOps n a b)
  | 2%nat => (simpson_pts FOps n a b, simpson_wts FOps n a b)
  | 3%nat => (gl_pts FOps ox a b, gl_wts FOps ow a b)
  | _ => (cc_pts FOps fpi n a b, cc_wts FOps (idft_re FOps fpi (cc_h FOps n)) a b)
  end.

Definition chk18 (c : case18) : bool :=
  let '(m, n, a, b, ox, ow, ip, iw) := c in
  let sc := fmaxabs (fmaxabs a b) (b - a) in
  let '(mp, mw) := model18 m n a b ox ow in
  fclose_l (0x1p-43 * sc) 0 mp ip && fclose_l (0x1p-43 * (b - a)) 0 mw iw.
