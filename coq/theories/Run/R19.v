From Coq Require Import PrimFloat ZArith List Bool.
From MV Require Import Ops FloatFun FInst Vec Generators Rng.
Import ListNotations.
Open Scope float_scope.
(* scale?, kt, masses, raw draw p, impl sigma, impl momentum (scaled), impl velocities *)
Definition chk19b (c : bool * float * list float * list float * list float * list float * list float) : bool :=
  let '(sc, kt, m, p, isig, ip, iv) := c in
  fclose_l 0 0x1p-48 (boltz_sigma FOps kt m) isig
  && fclose_l 0 0x1p-46 (if sc then boltz_scale FOps kt m p else p) ip
  && fclose_l 0 0x1p-46 (boltz_velocities FOps sc kt m p) iv.
(* sigma, impl widths, draws, impl yields (index, x, k) *)
Definition chk19n (c : float * float * float * list (list float * list float) * list (nat * list float * list float)) : bool :=
  let '(sg, iwx, iwk, draws, iy) := c in
  let '(wx, wk) := normal_widths FOps sg in
  fclose 0 0 wx iwx && fclose 0 0 wk iwk
  && (let my := normal_gen FOps 0 draws in
      Nat.eqb (length my) (length iy)
      && forallb (fun q => let '((i, x, k), (j, y, l)) := q in Nat.eqb i j && fclose_l 0 0 x y && fclose_l 0 0 k l) (combine my iy)).
(* seeds: parent key, spawn counts in order, observed child keys *)
Fixpoint spawn_seq (s : seedseq) (ns : list nat) : list (list (list nat)) :=
  match ns with [] => [] | n :: rest => let '(c, s') := spawn s n in map skey c :: spawn_seq s' rest end.
Definition chk12k (c : list nat * list nat * list (list (list nat))) : bool :=
  let '(k, ns, obs) := c in
  if list_eq_dec (list_eq_dec (list_eq_dec Nat.eq_dec)) (spawn_seq (mkSS k 0) ns) obs then true else false.
Definition chk12d (c : list float * list float * nat * list float) : bool :=
  let '(zl, st, k, obs) := c in fclose_l 0 0 (draws zl st k) obs.
