(* Run/RMD.v — N passes of the loop of AdiabaticMD.simulate on a HarmonicModel against Model/MD.md_harm_run, in binary64:
   positions, velocities (logged momentum / mass), clock and the logged total energy of the last snapshot. *)
From Coq Require Import PrimFloat ZArith List Bool.
From MV Require Import Ops FloatFun FInst Vec Hop Models MD R02.
Import ListNotations.
Open Scope float_scope.
(* x0, E0, H0, masses, dt, number of passes, state before (x, v, t), implementation after (x, v, t, total energy) *)
Definition caseM : Type :=
  (list float * float * list (list float) * list float * float * nat * (list float * list float * float)
   * (list float * list float * float * float))%type.
Definition lmaxm (l : list float) : float := fold_right (fun x acc => fmaxabs x acc) 0x1p-1000 l.
Definition chkM (c : caseM) : bool :=
  let '(x0, E0, H0, m, dt, N, s, (ix, iv, it, ie)) := c in
  let s' := md_harm_run FOps x0 H0 m dt N s in
  let '(x', v', t') := s' in
  fclose_l (0x1p-40 * lmaxm ix) 0 x' ix
  && fclose_l (0x1p-36 * lmaxm iv) 0 v' iv
  && fclose 0 0 t' it
  && fclose 0x1p-44 0x1p-36 (md_energy FOps (harm_energy FOps x0 E0 H0) m s') ie.
