From Coq Require Import PrimFloat ZArith List Bool.
From MV Require Import Ops FloatFun FInst Vec Cplx Mat Hop Hopper Propagate Traj Cumulative Afssh SpawnStack R02.
Import ListNotations.
Open Scope float_scope.
(* n, masses, dt, poisson, zeta, e0 (H,tau,force), e1, eigh(W_impl), state before (x, v, rho, active, time),
   impl after: x, momentum/mass (v), rho, active, time, hopping *)
Definition caseT : Type :=
  (nat * list float * float * bool * float
   * (list (list float) * list (list (list float)) * list (list float))
   * (list (list float) * list (list (list float)) * list (list float))
   * list float * cmat
   * (list float * list float * cmat * nat * float)
   * (list float * list float * cmat * nat * float * float))%type.
Definition lmaxa (l : list float) : float := fold_right (fun x acc => fmaxabs x acc) 0x1p-1000 l.
Definition chkT (c : caseT) : bool :=
  let '(n, m, dt, pois, zeta, (H0, t0, F0), (H1, t1, F1), lam, Cm, (x, v, rho, a, t), (ix, iv, irho, ia, it, ihop)) := c in
  let '(s', _, hp, _) := step FOps n m dt pois zeta (mkElec H0 t0 F0) (mkElec H1 t1 F1) lam Cm (mkT x v rho a t) in
  fclose_l (0x1p-44 * lmaxa ix) 0 (px s') ix
  && fclose_l (0x1p-36 * lmaxa iv) 0 (pv s') iv
  && cclose_ll 0x1p-38 (prho s') irho
  && Nat.eqb (pact s') ia && fclose 0 0 (ptime s') it
  && fclose (0x1p-40 * (ihop + 0x1p-40)) 0x1p-30 hp ihop.
Definition elecL : Type := (list (list float) * list (list (list float)) * list (list float))%type.
Definition caseE : Type :=
  (nat * list float * float * elecL * elecL * list float * cmat
   * (list float * list float * cmat * nat * float)
   * (list float * list float * cmat * nat * float))%type.
Definition chkE (c : caseE) : bool :=
  let '(n, m, dt, (H0, t0, F0), (H1, t1, F1), lam, Cm, (x, v, rho, a, t), (ix, iv, irho, ia, it)) := c in
  let '(s', _) := step_eh FOps n m dt (mkElec H0 t0 F0) (mkElec H1 t1 F1) lam Cm (mkT x v rho a t) in
  fclose_l (0x1p-44 * lmaxa ix) 0 (px s') ix
  && fclose_l (0x1p-36 * lmaxa iv) 0 (pv s') iv
  && cclose_ll 0x1p-38 (prho s') irho
  && Nat.eqb (pact s') ia && fclose 0 0 (ptime s') it.
(* cumulative: cstate before (prob_cum, zeta, remaining zeta_list, next generator numbers); after (prob_cum, zeta, zeta_list) *)
Definition caseC : Type :=
  (nat * list float * float * elecL * elecL * list float * cmat
   * (list float * list float * cmat * nat * float)
   * (float * float * list float * list float)
   * (list float * list float * cmat * nat * float * float)
   * (float * float * list float))%type.
Definition chkC (c : caseC) : bool :=
  let '(n, m, dt, (H0, t0, F0), (H1, t1, F1), lam, Cm, (x, v, rho, a, t), (pc, zc, zl, st), (ix, iv, irho, ia, it, ihop), (pc1, zc1, zl1)) := c in
  let '(s', c', hp, _) := step_cum FOps n m dt (mkElec H0 t0 F0) (mkElec H1 t1 F1) lam Cm (mkT x v rho a t) (mkC pc zc zl st) in
  fclose_l (0x1p-44 * lmaxa ix) 0 (px s') ix
  && fclose_l (0x1p-36 * lmaxa iv) 0 (pv s') iv
  && cclose_ll 0x1p-38 (prho s') irho
  && Nat.eqb (pact s') ia && fclose 0 0 (ptime s') it
  && fclose (0x1p-40 * (ihop + 0x1p-40)) 0x1p-30 hp ihop
  && fclose 0x1p-44 0x1p-44 (acc c') pc1 && fclose 0 0 (zeta c') zc1 && fclose_l 0 0 (zlist c') zl1.

(* the pass with electronic_integration = "linear-rk4": same case layout, lam/Cm = eigh(last_H) (real eigenvectors) *)
Definition chkTr (c : caseT) : bool :=
  let '(n, m, dt, pois, zeta, (H0, t0, F0), (H1, t1, F1), eigs, Cm, (x, v, rho, a, t), (ix, iv, irho, ia, it, ihop)) := c in
  let '(s', _, hp, _) := step_rk4 FOps n m dt 0x1.999999999999ap-4 4 pois zeta (mkElec H0 t0 F0) (mkElec H1 t1 F1) eigs (map (map fst) Cm) (mkT x v rho a t) in
  fclose_l (0x1p-44 * lmaxa ix) 0 (px s') ix
  && fclose_l (0x1p-36 * lmaxa iv) 0 (pv s') iv
  && cclose_ll 0x1p-34 (prho s') irho
  && Nat.eqb (pact s') ia && fclose 0 0 (ptime s') it
  && fclose (0x1p-30 * (ihop + 0x1p-40)) 0x1p-30 hp ihop.
(* n, masses, dt, poisson, zeta, eprev, e0, e1 (H,tau,force), fm1 per dimension, eigh(W_prev), eigh(W), uniforms,
   before: (x, v, rho, active, time), lastv, delR per dim, delP per dim;
   impl after: (x, v, rho, active, time), delR per dim, delP per dim, collapsed? *)
Definition caseA : Type :=
  (nat * list float * float * bool * float * elecL * elecL * elecL * list (list (list float))
   * (list float * cmat) * (list float * cmat) * list float
   * ((list float * list float * cmat * nat * float) * list float * list cmat * list cmat)
   * ((list float * list float * cmat * nat * float) * list cmat * list cmat * bool))%type.
Fixpoint cclose_lll (tol : float) (a b : list cmat) : bool :=
  match a, b with
  | [], [] => true
  | x :: a', y :: b' => cclose_ll tol x y && cclose_lll tol a' b'
  | _, _ => false
  end.
Definition cmaxabs_l (l : list cmat) : float := fold_right (fun m acc => fmaxabs (cmaxabs m) acc) 0x1p-1000 l.
(* residual of an eigen-decomposition oracle: W co = co diag(eps) *)
Definition eig_ok (n : nat) (W : cmat) (eps : list float) (co : cmat) : bool :=
  let lhs := mmul FOps n W co in
  let rhs := mmk n n (fun i j => cscale FOps (nth j eps 0) (mget FOps co i j)) in
  cclose_ll (0x1p-36 * (cmaxabs W + 0x1p-1000)) lhs rhs.
Definition chkA (c : caseA) : bool :=
  let '(n, m, dt, pois, zeta, (Hp, tp, Fp), (H0, t0, F0), (H1, t1, F1), fm1, (epsR, coR), (lam, Cm), etas,
        ((x, v, rho, a, t), lastv, dR, dP), ((ix, iv, irho, ia, it), idR, idP, icoll)) := c in
  let s := mkA (mkT x v rho a t) lastv dR dP in
  let '(s', _, coll) := step_af FOps n m dt pois zeta (mkElec Hp tp Fp) (mkElec H0 t0 F0) (mkElec H1 t1 F1) fm1 epsR coR lam Cm etas s in
  let Wprev := Wmid FOps n Hp H0 tp t0 v lastv in
  eig_ok n Wprev epsR coR
  && fclose_l (0x1p-44 * lmaxa ix) 0 (px (ab s')) ix
  && fclose_l (0x1p-36 * lmaxa iv) 0 (pv (ab s')) iv
  && cclose_ll 0x1p-38 (prho (ab s')) irho
  && Nat.eqb (pact (ab s')) ia && fclose 0 0 (ptime (ab s')) it
  && cclose_lll (0x1p-36 * (cmaxabs_l idR + 0x1p-60)) (adelR s') idR
  && cclose_lll (0x1p-36 * (cmaxabs_l idP + 0x1p-60)) (adelP s') idP
  && Bool.eqb coll icoll.

(* Ehrenfest / cumulative passes with electronic_integration = "linear-rk4": caseE / caseC layouts, lam/Cm = eigh(last_H) *)
Definition chkEr (c : caseE) : bool :=
  let '(n, m, dt, (H0, t0, F0), (H1, t1, F1), eigs, Cm, (x, v, rho, a, t), (ix, iv, irho, ia, it)) := c in
  let '(s', _) := step_eh_rk4 FOps n m dt 0x1.999999999999ap-4 4 (mkElec H0 t0 F0) (mkElec H1 t1 F1) eigs (map (map fst) Cm) (mkT x v rho a t) in
  fclose_l (0x1p-44 * lmaxa ix) 0 (px s') ix
  && fclose_l (0x1p-36 * lmaxa iv) 0 (pv s') iv
  && cclose_ll 0x1p-34 (prho s') irho
  && Nat.eqb (pact s') ia && fclose 0 0 (ptime s') it.
Definition chkCr (c : caseC) : bool :=
  let '(n, m, dt, (H0, t0, F0), (H1, t1, F1), eigs, Cm, (x, v, rho, a, t), (pc, zc, zl, st), (ix, iv, irho, ia, it, ihop), (pc1, zc1, zl1)) := c in
  let '(s', c', hp, _) := step_cum_rk4 FOps n m dt 0x1.999999999999ap-4 4 (mkElec H0 t0 F0) (mkElec H1 t1 F1) eigs (map (map fst) Cm) (mkT x v rho a t) (mkC pc zc zl st) in
  fclose_l (0x1p-44 * lmaxa ix) 0 (px s') ix
  && fclose_l (0x1p-36 * lmaxa iv) 0 (pv s') iv
  && cclose_ll 0x1p-34 (prho s') irho
  && Nat.eqb (pact s') ia && fclose 0 0 (ptime s') it
  && fclose (0x1p-30 * (ihop + 0x1p-40)) 0x1p-30 hp ihop
  && fclose 0x1p-30 0x1p-30 (acc c') pc1 && fclose 0 0 (zeta c') zc1 && fclose_l 0 0 (zlist c') zl1.

(* A-FSSH pass with augmented_integration = "rk4": caseA layout (the eigh answer for the previous propagator is not used) *)
Definition chkAr (c : caseA) : bool :=
  let '(n, m, dt, pois, zeta, (Hp, tp, Fp), (H0, t0, F0), (H1, t1, F1), fm1, (epsR, coR), (lam, Cm), etas,
        ((x, v, rho, a, t), lastv, dR, dP), ((ix, iv, irho, ia, it), idR, idP, icoll)) := c in
  let s := mkA (mkT x v rho a t) lastv dR dP in
  let '(s', _, coll) := step_af_rk4 FOps n m dt pois zeta (mkElec Hp tp Fp) (mkElec H0 t0 F0) (mkElec H1 t1 F1) fm1 lam Cm etas s in
  fclose_l (0x1p-44 * lmaxa ix) 0 (px (ab s')) ix
  && fclose_l (0x1p-36 * lmaxa iv) 0 (pv (ab s')) iv
  && cclose_ll 0x1p-38 (prho (ab s')) irho
  && Nat.eqb (pact (ab s')) ia && fclose 0 0 (ptime (ab s')) it
  && cclose_lll (0x1p-36 * (cmaxabs_l idR + 0x1p-60)) (adelR s') idR
  && cclose_lll (0x1p-36 * (cmaxabs_l idP + 0x1p-60)) (adelP s') idP
  && Bool.eqb coll icoll.

(* ---- the even-sampling pass ---- *)
(* n, masses, dt, e0, e1, eigh(W), state before, (prob_cum, izeta, stack, base weight) before;
   implementation after: state, (prob_cum, izeta, weight); children in queue order: (x, v, active, time), base weight, size of own stack *)
Definition caseS : Type :=
  (nat * list float * float * elecL * elecL * list float * cmat
   * (list float * list float * cmat * nat * float)
   * (float * nat * list (node (T:=float)) * float)
   * (list float * list float * cmat * nat * float)
   * (float * nat * float)
   * list ((list float * list float * nat * float) * float * nat))%type.
Fixpoint kids_ok (ks : list (estate (T:=float))) (iks : list ((list float * list float * nat * float) * float * nat)) : bool :=
  match ks, iks with
  | [], [] => true
  | k :: ks', ((ix, iv, ia, it), iw, ins) :: iks' =>
      fclose_l (0x1p-44 * lmaxa ix) 0 (px (eb k)) ix && fclose_l (0x1p-36 * lmaxa iv) 0 (pv (eb k)) iv
      && Nat.eqb (pact (eb k)) ia && fclose 0 0 (ptime (eb k)) it
      && fclose 0x1p-60 0x1p-40 (ebase k) iw && Nat.eqb (length (est k)) ins && kids_ok ks' iks'
  | _, _ => false
  end.
Definition chkES (c : caseS) : bool :=
  let '(n, m, dt, (H0, t0, F0), (H1, t1, F1), lam, Cm, (x, v, rho, a, t), (pc, iz, st, base), (ix, iv, irho, ia, it), (pc1, iz1, w1), iks) := c in
  let '(s', kids, _) := step_es FOps n m dt (mkElec H0 t0 F0) (mkElec H1 t1 F1) lam Cm (mkES (mkT x v rho a t) pc iz st base) in
  fclose_l (0x1p-44 * lmaxa ix) 0 (px (eb s')) ix
  && fclose_l (0x1p-36 * lmaxa iv) 0 (pv (eb s')) iv
  && cclose_ll 0x1p-38 (prho (eb s')) irho
  && Nat.eqb (pact (eb s')) ia && fclose 0 0 (ptime (eb s')) it
  && fclose 0x1p-44 0x1p-44 (eacc s') pc1 && Nat.eqb (eiz s') iz1
  && fclose 0x1p-60 0x1p-40 (es_weight FOps s') w1
  && kids_ok kids iks.

