From Coq Require Import PrimFloat ZArith List Bool.
From MV Require Import Ops FloatFun FInst Vec Cplx Mat Hop Hopper Propagate Traj Cumulative R02.
Import ListNotations.
Open Scope float_scope.
(* n, masses, dt, poisson, zeta, e0 (H,tau,force), e1, eigh(W_impl), state before (x, v, rho, active, time),
   impl after: x, momentum/mass (v), rho, active, time, hopping *)
Definition caseT : Type :=
  (nat * list float * float * bool * float
   * (list (list float) * list (list (list float)) * list (list float))
   * (list (list float) * list (list (list float)) * list (list float))
   * list float * cmat
   * (list float * list float * cmat * nat * float)
   * (list float * list float * cmat * nat * float * float))%type.
Definition lmaxa (l : list float) : float := fold_right (fun x acc => fmaxabs x acc) 0x1p-1000 l.
Definition chkT (c : caseT) : bool :=
  let '(n, m, dt, pois, zeta, (H0, t0, F0), (H1, t1, F1), lam, Cm, (x, v, rho, a, t), (ix, iv, irho, ia, it, ihop)) := c in
  let '(s', _, hp, _) := step FOps n m dt pois zeta (mkElec H0 t0 F0) (mkElec H1 t1 F1) lam Cm (mkT x v rho a t) in
  fclose_l (0x1p-44 * lmaxa ix) 0 (px s') ix
  && fclose_l (0x1p-36 * lmaxa iv) 0 (pv s') iv
  && cclose_ll 0x1p-38 (prho s') irho
  && Nat.eqb (pact s') ia && fclose 0 0 (ptime s') it
  && fclose (0x1p-40 * (ihop + 0x1p-40)) 0x1p-30 hp ihop.
Definition elecL : Type := (list (list float) * list (list (list float)) * list (list float))%type.
Definition caseE : Type :=
  (nat * list float * float * elecL * elecL * list float * cmat
   * (list float * list float * cmat * nat * float)
   * (list float * list float * cmat * nat * float))%type.
Definition chkE (c : caseE) : bool :=
  let '(n, m, dt, (H0, t0, F0), (H1, t1, F1), lam, Cm, (x, v, rho, a, t), (ix, iv, irho, ia, it)) := c in
  let '(s', _) := step_eh FOps n m dt (mkElec H0 t0 F0) (mkElec H1 t1 F1) lam Cm (mkT x v rho a t) in
  fclose_l (0x1p-44 * lmaxa ix) 0 (px s') ix
  && fclose_l (0x1p-36 * lmaxa iv) 0 (pv s') iv
  && cclose_ll 0x1p-38 (prho s') irho
  && Nat.eqb (pact s') ia && fclose 0 0 (ptime s') it.
(* cumulative: cstate before (prob_cum, zeta, remaining zeta_list, next generator numbers); after (prob_cum, zeta, zeta_list) *)
Definition caseC : Type :=
  (nat * list float * float * elecL * elecL * list float * cmat
   * (list float * list float * cmat * nat * float)
   * (float * float * list float * list float)
   * (list float * list float * cmat * nat * float * float)
   * (float * float * list float))%type.
Definition chkC (c : caseC) : bool :=
  let '(n, m, dt, (H0, t0, F0), (H1, t1, F1), lam, Cm, (x, v, rho, a, t), (pc, zc, zl, st), (ix, iv, irho, ia, it, ihop), (pc1, zc1, zl1)) := c in
  let '(s', c', hp, _) := step_cum FOps n m dt (mkElec H0 t0 F0) (mkElec H1 t1 F1) lam Cm (mkT x v rho a t) (mkC pc zc zl st) in
  fclose_l (0x1p-44 * lmaxa ix) 0 (px s') ix
  && fclose_l (0x1p-36 * lmaxa iv) 0 (pv s') iv
  && cclose_ll 0x1p-38 (prho s') irho
  && Nat.eqb (pact s') ia && fclose 0 0 (ptime s') it
  && fclose (0x1p-40 * (ihop + 0x1p-40)) 0x1p-30 hp ihop
  && fclose 0x1p-44 0x1p-44 (acc c') pc1 && fclose 0 0 (zeta c') zc1 && fclose_l 0 0 (zlist c') zl1.
