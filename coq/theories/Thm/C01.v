(* Thm/C01.v — property C01: energy conservation; accepted hops conserve exactly.
   Model: Model/Hop.v (hop_to_it, rescale, kinetic, advance_position/velocity);
   proofs: Proof/HopP.v; assembled loop body: Model/Traj.v, Proof/TrajP.v. *)
From Coq Require Import Reals List Lra.
From MV Require Import Ops RInst Vec Cplx Mat Hop HopP Propagate Traj TrajP Models MD MDP.
Import ListNotations.
Open Scope R_scope.

(* Every accepted hop: KE' + E_target = KE + E_source, exactly, for any number of
   dimensions (lists of any length), any positive masses, any number of states
   (energies is any list), any non-degenerate direction.  `0 < qa m u` is implied by
   positive masses and a direction with a non-zero component (qa_nonneg gives >= 0);
   a zero rescale vector makes the real code return NaN and is outside the quantifier. *)
Theorem C01_hop_conserves_energy_exactly :
  forall (m v dir en : list R) (st tg st' : nat) (v' : list R),
    Forall (fun mi => 0 < mi) m -> length v = length m -> length dir = length m ->
    0 < qa ROps m (unit_dir ROps dir) ->
    hop_to_it ROps m v st tg en dir = (st', v', true) ->
    st' = tg /\ kinetic ROps m v' + vget ROps en tg = kinetic ROps m v + vget ROps en st.
Proof. exact hop_energy_exact. Qed.
Print Assumptions C01_hop_conserves_energy_exactly.

(* the same with the hypothesis on the direction in its natural form: not the zero vector *)
Theorem C01_hop_conserves_energy_exactly_nonzero_direction :
  forall (m v dir en : list R) (st tg st' : nat) (v' : list R),
    Forall (fun mi => 0 < mi) m -> length v = length m -> length dir = length m ->
    0 < vdot ROps dir dir ->
    hop_to_it ROps m v st tg en dir = (st', v', true) ->
    st' = tg /\ kinetic ROps m v' + vget ROps en tg = kinetic ROps m v + vget ROps en st.
Proof.
  intros m v dir en st tg st' v' Hm Hv Hd Hn H.
  apply (hop_energy_exact m v dir en st tg st' v' Hm Hv Hd (qa_pos m dir Hd Hm Hn) H).
Qed.
Print Assumptions C01_hop_conserves_energy_exactly_nonzero_direction.

Theorem C01_rejected_hop_changes_nothing :
  forall (m v dir en : list R) (st tg st' : nat) (v' : list R),
    hop_to_it ROps m v st tg en dir = (st', v', false) -> st' = st /\ v' = v.
Proof. exact hop_rejected_identity. Qed.
Print Assumptions C01_rejected_hop_changes_nothing.

(* velocity Verlet is exactly time reversible for any force field, any number of steps
   (structural fact behind even-order accuracy) *)
Theorem C01_verlet_time_reversible :
  forall (m : list R) (F : list R -> list R) (dt : R) (n : nat) (x v : list R),
    length x = length m -> length v = length m -> (forall y, length (F y) = length m) ->
    Forall (fun mi => mi <> 0) m ->
    iter n (verlet_step m F dt) (flip (iter n (verlet_step m F dt) (x, v))) = flip (x, v).
Proof. intros. apply verlet_n_reversible; assumption. Qed.
Print Assumptions C01_verlet_time_reversible.

(* On the harmonic oscillator the modified energy
     m v^2/2 + k x^2/2 - (dt^2/8)(k^2/m) x^2
   is conserved exactly by one step, hence for every number of steps: the true energy
   stays within (dt^2/8)(k^2/m) max x^2 of its initial value, an O(dt^2) bound uniform in time. *)
Theorem C01_harmonic_shadow_energy_exact :
  forall m k dt x v : R, m <> 0 ->
    match verlet_step [m] (fun y => map (fun yi => - k * yi) y) dt ([x], [v]) with
    | ([x1], [v1]) => shadow m k dt x1 v1 = shadow m k dt x v
    | _ => False
    end.
Proof. exact verlet_harmonic_shadow. Qed.
Print Assumptions C01_harmonic_shadow_energy_exact.

(* the assembled loop body (Model/Traj.step = advance_position; advance_velocity;
   propagate_electronics; surface_hopping; time += dt, in the code's order): an accepted hop in
   the pass leaves kinetic + active-state potential energy exactly where the Verlet half of the
   pass put it; the position, time and density matrix never depend on the hop decision, and a
   pass with no attempt is the plain Verlet pass *)
Theorem C01_full_step_hop_conserves_energy :
  forall (n : nat) (m : list R) (dt : R) (poisson : bool) (zeta : R) (e0 e1 : elec (T:=R))
         (lam : list R) (Cm : mat (T:=R)) (s s' : tstate (T:=R)) W hp att,
    step ROps n m dt poisson zeta e0 e1 lam Cm s = (s', W, hp, att) ->
    let f0 := nth (pact s) (eforce e0) [] in let f1 := nth (pact s) (eforce e1) [] in
    let v1 := advance_velocity ROps m (pv s) f0 f1 dt in
    px s' = advance_position ROps m (px s) (pv s) f0 dt /\ ptime s' = ptime s + dt
    /\ prho s' = exp_step ROps n lam Cm dt (prho s)
    /\ (att = None -> pv s' = v1 /\ pact s' = pact s)
    /\ (forall t, att = Some (t, true) ->
          Forall (fun mi => 0 < mi) m -> length v1 = length m ->
          length (tget (etau e1) (pact s) t) = length m ->
          0 < vdot ROps (tget (etau e1) (pact s) t) (tget (etau e1) (pact s) t) ->
          pact s' = t /\ kinetic ROps m (pv s') + vget ROps (diagE ROps n e1) t
                         = kinetic ROps m v1 + vget ROps (diagE ROps n e1) (pact s)).
Proof.
  intros n m dt poisson zeta e0 e1 lam Cm s s' W hp att H. cbv zeta.
  destruct (step_nuclear n m dt poisson zeta e0 e1 lam Cm s s' W hp att H) as (Hx & Ht & Hr & Hn).
  split; [exact Hx|]. split; [exact Ht|]. split; [exact Hr|]. split; [exact Hn|].
  intros t -> Hm Hv Hd Hp. apply (step_hop_energy n m dt poisson zeta e0 e1 lam Cm s s' W hp t H Hm Hv Hd Hp).
Qed.
Print Assumptions C01_full_step_hop_conserves_energy.

(* bookkeeping for ANY hop decision of a pass (none, frustrated, accepted): kinetic energy plus the potential of the state that
   is active at the end equals what the Verlet half alone produced on the old surface - hops never change the total energy,
   so the only energy error of a trajectory is the O(dt^2) error of velocity Verlet *)
Theorem C01_full_step_energy_bookkeeping :
  forall n m dt poisson zeta (e0 e1 : elec (T:=R)) lam Cm (s s' : tstate (T:=R)) W hp att,
  step ROps n m dt poisson zeta e0 e1 lam Cm s = (s', W, hp, att) ->
  let f0 := nth (pact s) (eforce e0) [] in let f1 := nth (pact s) (eforce e1) [] in
  let v1 := advance_velocity ROps m (pv s) f0 f1 dt in
  (forall t, att = Some (t, true) ->
     Forall (fun mi => 0 < mi) m /\ length v1 = length m /\ length (tget (etau e1) (pact s) t) = length m
     /\ 0 < vdot ROps (tget (etau e1) (pact s) t) (tget (etau e1) (pact s) t)) ->
  kinetic ROps m (pv s') + vget ROps (diagE ROps n e1) (pact s') = kinetic ROps m v1 + vget ROps (diagE ROps n e1) (pact s).
Proof. intros n m dt poisson zeta e0 e1 lam Cm s s' W hp att H f0 f1 v1 Hacc. exact (step_energy_any n m dt poisson zeta e0 e1 lam Cm s s' W hp att H Hacc). Qed.
Print Assumptions C01_full_step_energy_bookkeeping.

(* PARTIAL — full statement: "along every trajectory the logged total energy is constant
   up to an error that shrinks quadratically with dt".  Proved: exact conservation at hops,
   exact reversibility of the nuclear integrator, exact O(dt^2) shadow energy for the
   harmonic model.  NOT mechanised: the O(dt^2) bound for a general smooth potential
   (backward-error analysis); the harness measures the drift ratio (~4) on real runs. *)

(* non-vacuity: a 3-D hop with unequal masses is accepted and satisfies the hypotheses *)
Example C01_witness :
  let m := [1; 2; 4] in let v := [1; 1; 1] in let dir := [3; 0; 4] in
  Forall (fun mi => 0 < mi) m /\ length v = length m /\ length dir = length m.
Proof. cbn. repeat split; try reflexivity. repeat constructor; lra. Qed.

(* ---- the assembled loop of AdiabaticMD.simulate (Model/MD.v) on a HarmonicModel with one degree of freedom, ANY number
   of passes: the shadow energy E0 + mu v^2/2 + k (x-c)^2 (1 - k dt^2/(4 mu))/2 is conserved exactly ... *)
Theorem C01_md_harmonic_shadow_energy_conserved_any_number_of_steps :
  forall E0 c k mu dt N, mu <> 0 -> forall x v t,
  exists xN vN, md_harm_run ROps [c] [[k]] [mu] dt N ([x], [v], t) = ([xN], [vN], t + INR N * dt)
                /\ hshadow E0 c k mu dt xN vN = hshadow E0 c k mu dt x v.
Proof. exact hshadow_conserved. Qed.
Print Assumptions C01_md_harmonic_shadow_energy_conserved_any_number_of_steps.

(* ... hence, for a stable time step, the error of the total energy a snapshot logs (md_energy: energies[0] + kinetic
   energy, as AdiabaticMD.snapshot computes it) is bounded by alpha/(1-alpha) times the initial energy above the minimum,
   alpha = k dt^2 / (4 mu), for EVERY number of passes: no secular drift, and second order in dt *)
Theorem C01_md_harmonic_energy_error_bounded_for_all_time :
  forall E0 c k mu dt N x v t,
  0 < mu -> 0 < k -> k * (dt * dt) < 4 * mu ->
  let alpha := k * (dt * dt) / (4 * mu) in
  let s0 := ([x], [v], t) in
  let sN := md_harm_run ROps [c] [[k]] [mu] dt N s0 in
  Rabs (hE E0 c k mu sN - hE E0 c k mu s0) <= alpha / (1 - alpha) * (hE E0 c k mu s0 - E0).
Proof. exact harmonic_energy_error_bounded. Qed.
Print Assumptions C01_md_harmonic_energy_error_bounded_for_all_time.

(* non-vacuity: k = mu = 1, dt = 1/2 from x = 1 at rest: the error never exceeds 1/30, whatever N *)
Example C01_md_witness : forall N,
  Rabs (hE 0 0 1 1 (md_harm_run ROps [0] [[1]] [1] (/ 2) N ([1], [0], 0)) - hE 0 0 1 1 ([1], [0], 0)) <= / 15 * / 2.
Proof. exact harmonic_bound_instance. Qed.
