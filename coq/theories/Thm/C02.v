(* Thm/C02.v — property C02: the electronic density matrix stays a valid quantum state.
   Model: Model/Propagate.v (exp_step, rk4_step over list matrices of any size n);
   proofs: Proof/MatP.v, PropagateP.v, Rk4P.v.
   np.linalg.eigh is an oracle: its answer (lam, C) enters as data; the only facts used are
   that lam has n real entries and that C is unitary (C^dagger C = I and C C^dagger = I — for
   square matrices each implies the other; both are checked numerically per step by the
   harness).  mherm / mpure / mpsd / mtrace: Hermitian, rho^2 = rho, x^dagger rho x >= 0 for all x,
   trace — on the n x n block. *)
From Coq Require Import Reals List Lra.
From MV Require Import Ops RInst Vec Cplx Mat CRing MatP Propagate PropagateP Rk4P Traj TrajP.
Import ListNotations.
Open Scope R_scope.

(* 'exp' integrator, one step and any number of steps with arbitrary per-step oracle answers
   and time steps: Hermiticity, trace, purity and positivity are all preserved exactly *)
Theorem C02_exp_any_number_of_steps : forall n (steps : list (list R * mat (T:=R) * R)) (rho : mat (T:=R)),
  Forall (fun s => let '(lam, Cm, dt) := s in length lam = n /\ unitary n (mget ROps Cm)) steps ->
  let rho' := exp_steps n steps rho in
  (mherm n rho -> mherm n rho')
  /\ mtrace ROps n rho' = mtrace ROps n rho
  /\ (mpure n rho -> mpure n rho')
  /\ (mpsd n rho -> mpsd n rho').
Proof. intros. apply exp_steps_valid. assumption. Qed.
Print Assumptions C02_exp_any_number_of_steps.

(* consequently the populations stay in [0,1] *)
Theorem C02_populations_in_unit_interval : forall n (rho : mat (T:=R)) i,
  mpsd n rho -> fst (mtrace ROps n rho) = 1 -> (i < n)%nat -> 0 <= fst (mget ROps rho i i) <= 1.
Proof. intros n rho i Hp Ht Hi. apply (populations_unit n (mget ROps rho) i Hp Ht Hi). Qed.
Print Assumptions C02_populations_in_unit_interval.

(* 'linear-rk4' integrator, any number of sub-steps: trace and Hermiticity are preserved
   exactly, provided the generator is Hermitian: symmetric H at both ends, antisymmetric
   velocity-contracted derivative couplings (in particular zero diagonal — the hypothesis that
   failed for AdiabaticModel_ before the fix), orthogonal eigenvectors of last_H *)
Theorem C02_rk4_trace_and_hermiticity :
  forall n (H0r H1r : list (list R)) (tau0 tau1 : list (list (list R))) (v lastv eigs : list R)
         (vecs : list (list R)) (dt maxdt : R) (start : nat) (rho : mat (T:=R)),
  unitary n (mget ROps (mofreal ROps n vecs)) ->
  mherm n (mofreal ROps n H0r) -> mherm n (mofreal ROps n H1r) ->
  (forall tau w, (tau = tau0 \/ tau = tau1) -> (w = v \/ w = lastv) -> aherm n (mget ROps (tvmat ROps n tau w))) ->
  mherm n rho ->
  let rho' := rk4_step ROps n H0r H1r tau0 tau1 v lastv eigs vecs dt maxdt start rho in
  mherm n rho' /\ mtrace ROps n rho' = mtrace ROps n rho.
Proof. intros. apply rk4_step_trace_herm; assumption. Qed.
Print Assumptions C02_rk4_trace_and_hermiticity.

(* the whole loop of TrajectorySH.simulate (Model/Traj.run: any number of passes of Traj.step, each
   with its own threshold, electronics and eigh answer): hops and hop attempts never touch the
   density matrix — after the run it is exactly the electronic-only product of exp steps — so it
   is a valid state whatever the sequence of attempts, accepted or frustrated *)
Theorem C02_full_run_density_matrix_valid :
  forall n m dt poisson (ds : list (sdata (T:=R))) (s sf : tstate (T:=R)) atts,
  run ROps n m dt poisson ds s = (sf, atts) ->
  Forall (fun d => length (dlam d) = n /\ unitary n (mget ROps (dC d))) ds ->
  prho sf = exp_steps n (map (fun d => (dlam d, dC d, dt)) ds) (prho s)
  /\ (mherm n (prho s) -> mherm n (prho sf))
  /\ mtrace ROps n (prho sf) = mtrace ROps n (prho s)
  /\ (mpure n (prho s) -> mpure n (prho sf))
  /\ (mpsd n (prho s) -> mpsd n (prho sf)).
Proof.
  intros n m dt poisson ds s sf atts Hrun Hall.
  destruct (run_invariants n m dt poisson ds s sf atts Hrun) as (_ & _ & Hr & _).
  split; [exact Hr|]. rewrite Hr. apply exp_steps_valid.
  clear -Hall. induction Hall as [|d ds Hd _ IH]; cbn [map]; constructor; [exact Hd | exact IH].
Qed.
Print Assumptions C02_full_run_density_matrix_valid.

(* the purity measure tr(rho^2) itself is conserved by every exp step and by any number of them -
   also for mixed states, which therefore stay exactly as mixed as they were (a pure state stays pure
   is the special case tr(rho^2) = 1) *)
Theorem C02_purity_measure_conserved : forall n (steps : list (list R * mat (T:=R) * R)) (rho : mat (T:=R)),
  Forall (fun s => let '(lam, Cm, dt) := s in length lam = n /\ unitary n (mget ROps Cm)) steps ->
  mpurity n (exp_steps n steps rho) = mpurity n rho.
Proof. intros. apply exp_steps_purity. assumption. Qed.
Print Assumptions C02_purity_measure_conserved.

(* the assembled loop body with the linear-rk4 integrator (Model/Traj.step_rk4, tied to real runs by Run/RTraj.chkTr):
   whatever the hop decision, rho after the pass is the rk4 step of rho before it, Hermitian with the same trace *)
Theorem C02_full_step_rk4 :
  forall n m dt maxdt start poisson zeta (e0 e1 : elec (T:=R)) eigs vecs (s s' : tstate (T:=R)) W hp att,
  step_rk4 ROps n m dt maxdt start poisson zeta e0 e1 eigs vecs s = (s', W, hp, att) ->
  unitary n (mget ROps (mofreal ROps n vecs)) ->
  mherm n (mofreal ROps n (eH e0)) -> mherm n (mofreal ROps n (eH e1)) ->
  (forall tau w, (tau = etau e0 \/ tau = etau e1) -> aherm n (mget ROps (tvmat ROps n tau w))) ->
  mherm n (prho s) ->
  mherm n (prho s') /\ mtrace ROps n (prho s') = mtrace ROps n (prho s).
Proof. intros. eapply step_rk4_trace_herm; eassumption. Qed.
Print Assumptions C02_full_step_rk4.

(* ... and for any number of linear-rk4 passes (Model/Traj.run_rk4) *)
Theorem C02_full_run_rk4 : forall n m dt maxdt start poisson (ds : list (kdata (T:=R))) (s sf : tstate (T:=R)) atts,
  run_rk4 ROps n m dt maxdt start poisson ds s = (sf, atts) -> Forall (rk_ok n) ds -> mherm n (prho s) ->
  mherm n (prho sf) /\ mtrace ROps n (prho sf) = mtrace ROps n (prho s) /\ length atts = length ds.
Proof. intros n m dt maxdt start poisson ds s sf atts H1 H2 H3. exact (run_rk4_trace_herm n m dt maxdt start poisson ds s sf atts H1 H2 H3). Qed.
Print Assumptions C02_full_run_rk4.

(* PARTIAL: purity and positivity under 'linear-rk4' hold only to the accuracy of the RK4
   integrator (it is not unitary); not mechanised, measured by the harness.
   Hop attempts: Model/Hop.hop_to_it neither takes nor returns the density matrix (checked on the
   real objects by C01/C04's harness); the A-FSSH collapse is in Thm/C11. *)

Example C02_witness : unitary 2 (fid ROps) /\ length [1; 2] = 2%nat.
Proof.
  split; [|reflexivity]. split.
  - rewrite (fadj_id 2), (fmul_id_l 2 (fid ROps)). reflexivity.
  - rewrite (fadj_id 2), (fmul_id_l 2 (fid ROps)). reflexivity.
Qed.

(* the same for the cumulative class with linear-rk4 (Model/Traj.run_cum_rk4), any number of passes, whatever is decided *)
Theorem C02_full_run_rk4_cumulative : forall n m dt maxdt start (ds : list (kdata (T:=R))) (s sf : tstate (T:=R)) c cf atts,
  run_cum_rk4 ROps n m dt maxdt start ds s c = (sf, cf, atts) -> Forall (rk_ok n) ds -> mherm n (prho s) ->
  mherm n (prho sf) /\ mtrace ROps n (prho sf) = mtrace ROps n (prho s) /\ length atts = length ds.
Proof. intros n m dt maxdt start ds s sf c cf atts H1 H2 H3. exact (run_cum_rk4_trace_herm n m dt maxdt start ds s c sf cf atts H1 H2 H3). Qed.
Print Assumptions C02_full_run_rk4_cumulative.
