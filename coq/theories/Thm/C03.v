(* Thm/C03.v — property C03: fewest-switches probabilities and target choice.
   Model: Model/Hopper.v; proofs: Proof/HopperP.v (+ PoissonP for the Poisson option). *)
From Coq Require Import Reals List Lra.
From MV Require Import Ops RInst Vec Cplx Poisson Hopper HopperP.
From MV Require Hop Propagate Traj TrajP.
Import ListNotations.
Open Scope R_scope.

(* g_kn >= 0 for all n, g_kk = 0 — any row of rho, any column of W, any k, dt *)
Theorem C03_probabilities_nonneg_and_self_zero : forall (rr wc : list RC) (k : nat) (dt : R),
  Forall (fun p => 0 <= p) (gkndt ROps rr wc k dt) /\ nth k (gkndt ROps rr wc k dt) 0 = 0.
Proof. intros. split; [apply gkndt_nonneg | apply gkndt_self_zero]. Qed.
Print Assumptions C03_probabilities_nonneg_and_self_zero.

(* antisymmetry b_kn = -b_nk: for Hermitian rho and W the row-n data are the conjugates
   of the row-k data (rho_nk = conj rho_kn, W_kn = conj W_nk) *)
Theorem C03_flux_antisymmetric : forall (rr wc : list RC),
  flux ROps (map (cconj ROps) rr) (map (cconj ROps) wc) = map Ropp (flux ROps rr wc).
Proof. exact flux_antisym. Qed.
Print Assumptions C03_flux_antisymmetric.

(* the unclipped fluxes sum to minus d rho_kk/dt of  rho' = -i[W,rho]  (Hermitian rho, W),
   i.e. the unclipped probabilities sum to -(d rho_kk/dt) dt / rho_kk *)
Theorem C03_flux_row_sum : forall (rr wc : list RC),
  vsum ROps (flux ROps rr wc) = - rhodot_kk rr wc.
Proof. exact flux_row_sum. Qed.
Print Assumptions C03_flux_row_sum.

(* the slot rule, measure-free: with cumulative sums c_n = psum ps (S n) (c_{-1} = 0),
   a hop to n is attempted iff c_{n-1} <= zeta < c_n; slot n has length p_n; slots are
   disjoint (n is unique, it is a function value); no attempt iff zeta >= total *)
Theorem C03_hop_slot : forall (ps : list R) (zeta : R) (n : nat),
  Forall (fun p => 0 <= p) ps -> 0 <= zeta ->
  (hop_target ROps ps zeta = Some n <-> (n < length ps)%nat /\ psum ps n <= zeta < psum ps (S n))
  /\ (hop_target ROps ps zeta = None <-> vsum ROps ps <= zeta)
  /\ ((n < length ps)%nat -> psum ps (S n) - psum ps n = nth n ps 0).
Proof.
  intros ps zeta n Hps Hz. split; [|split].
  - apply hop_target_slot; assumption.
  - apply hop_target_none; assumption.
  - apply slot_length.
Qed.
Print Assumptions C03_hop_slot.

Theorem C03_never_hops_to_itself : forall (ps : list R) (zeta : R) (k : nat),
  Forall (fun p => 0 <= p) ps -> 0 <= zeta -> nth k ps 0 = 0 -> hop_target ROps ps zeta <> Some k.
Proof. exact hop_target_not_self. Qed.
Print Assumptions C03_never_hops_to_itself.

(* Poisson option: total = 1 - exp(-sum g) (exact on the closed-form branch, within
   1e-17 * sum g on the series branch), branching ratios unchanged; tully: probs = g *)
Theorem C03_poisson_total_and_ratios : forall (g : list R),
  (1 / 1000 <= vsum ROps g -> vsum ROps (probs ROps true g) = 1 - exp (- vsum ROps g))
  /\ (0 < vsum ROps g < 1 / 1000 ->
      Rabs (vsum ROps (probs ROps true g) - (1 - exp (- vsum ROps g))) <= vsum ROps g * (1/100000000000000000))
  /\ (forall i j, nth i (probs ROps true g) 0 * nth j g 0 = nth j (probs ROps true g) 0 * nth i g 0)
  /\ probs ROps false g = g.
Proof.
  intros g. repeat split.
  - apply probs_poisson_total.
  - apply probs_poisson_total_small.
  - apply probs_poisson_ratios.
Qed.
Print Assumptions C03_poisson_total_and_ratios.

(* "attempts occur with exactly those probabilities": the slot of n is an interval of
   length p_n inside [0,1); uniformity of the random number is numpy's contract (oracle). *)

(* in the assembled loop body (Model/Traj.step) the probabilities handed to the hopper are built from the density matrix AFTER
   the electronic step and from the same midpoint propagator W (new and old velocity) that drove it; the recorded attempt is
   the hopper's answer, so the slot theorem above decides the target of the pass *)
Theorem C03_full_step_attempt :
  forall n m dt poisson zeta (e0 e1 : Traj.elec (T:=R)) lam Cm (s s' : Traj.tstate (T:=R)) W hp att,
  Traj.step ROps n m dt poisson zeta e0 e1 lam Cm s = (s', W, hp, att) ->
  let f0 := nth (Traj.pact s) (Traj.eforce e0) [] in let f1 := nth (Traj.pact s) (Traj.eforce e1) [] in
  let v1 := Hop.advance_velocity ROps m (Traj.pv s) f0 f1 dt in
  let rho1 := Propagate.exp_step ROps n lam Cm dt (Traj.prho s) in
  let g := gkndt ROps (Traj.row ROps n rho1 (Traj.pact s)) (Traj.colm ROps n W (Traj.pact s)) (Traj.pact s) dt in
  W = Propagate.Wmid ROps n (Traj.eH e0) (Traj.eH e1) (Traj.etau e0) (Traj.etau e1) v1 (Traj.pv s)
  /\ fst (hopper ROps poisson g zeta) = option_map fst att
  /\ hp = snd (hopper ROps poisson g zeta).
Proof. intros n m dt poisson zeta e0 e1 lam Cm s s' W hp att H. exact (TrajP.step_attempt n m dt poisson zeta e0 e1 lam Cm s s' W hp att H). Qed.
Print Assumptions C03_full_step_attempt.

Example C03_witness :
  let ps := [1/4; 0; 1/2] in Forall (fun p => 0 <= p) ps /\ hop_target ROps ps (1/4) = Some 2%nat.
Proof.
  cbv zeta. split; [repeat constructor; lra|].
  apply hop_target_slot; [repeat constructor; lra | lra |]. cbn. split; [repeat constructor | lra].
Qed.
