(* Thm/C04.v — property C04: frustrated hops rejected; rescaling along the coupling
   vector by the smallest energy-conserving amount; event log matches the trace.
   Models: Model/Hop.v, Model/Events.v; proofs: Proof/HopP.v, Proof/EventsP.v. *)
From Coq Require Import Reals List Lra Bool Arith.
From MV Require Import Ops RInst Vec Cplx Mat Hop HopP Events EventsP Propagate Traj TrajP.
Import ListNotations.
Open Scope R_scope.

(* acceptance rule: downward always; upward iff the kinetic energy along the unit
   direction, (v.u)^2 / (2 sum u_i^2/m_i), exceeds the gap *)
Theorem C04_acceptance_rule : forall (m v dir : list R) (delV : R),
  0 < qa ROps m (unit_dir ROps dir) ->
  let u := unit_dir ROps dir in
  (delV < 0 -> hop_allowed ROps m v dir (- delV) = true) /\
  (0 < delV -> (hop_allowed ROps m v dir (- delV) = true <->
                delV < (vdot ROps v u * vdot ROps v u) / (2 * qa ROps m u))).
Proof. exact hop_allowed_iff. Qed.
Print Assumptions C04_acceptance_rule.

(* the momentum changes only along the direction: m_i (v'_i - v_i) = s u_i *)
Theorem C04_momentum_changes_along_direction : forall (m v u : list R) (s : R) (i : nat),
  length v = length m -> length u = length m -> (i < length m)%nat -> nth i m 0 <> 0 ->
  nth i m 0 * (nth i (kick ROps m v u s) 0 - nth i v 0) = s * nth i u 0.
Proof. exact kick_component. Qed.
Print Assumptions C04_momentum_changes_along_direction.

(* ... by the smallest amount that conserves energy: every s' with
   a s'^2 + b s' + c = 0 (every energy-conserving kick along u, by C01's kinetic_kick)
   has |s'| >= |the root the code selects| *)
Theorem C04_smallest_energy_conserving_kick : forall (m v dir : list R) (reduction s' : R),
  let u := unit_dir ROps dir in
  let a := qa ROps m u in let b := qb ROps v u in let c := qc ROps reduction in
  0 < a -> 0 < b * b - 4 * a * c ->
  a * (s' * s') + b * s' + c = 0 ->
  Rabs (small_root ROps a b c) <= Rabs s'.
Proof. exact rescale_minimal. Qed.
Print Assumptions C04_smallest_energy_conserving_kick.

Theorem C04_rejected_hop_untouched :
  forall (m v dir en : list R) (st tg st' : nat) (v' : list R),
    hop_to_it ROps m v st tg en dir = (st', v', false) -> st' = st /\ v' = v.
Proof. exact hop_rejected_identity. Qed.
Print Assumptions C04_rejected_hop_untouched.

(* event log vs trace, any number of steps, every step logged: the changes of the
   active column between consecutive snapshots are exactly the hop events (same
   snapshot index = time, same from/to), each rejected attempt gives exactly one
   frustrated event, and every event belongs to a step of the run.
   Hypothesis attempts_ok: the hopper never proposes the active state itself
   (its probability is set to zero; C03). *)
Theorem C04_events_match_trace : forall (atts : list attempt) (k active : nat),
  attempts_ok active atts = true ->
  let '(acts, evs) := run_from k active atts in
  filter is_hop evs = changes_from k active acts
  /\ length (filter (fun e => negb (is_hop e)) evs) = count_frustrated atts
  /\ (forall e, In e evs ->
        match e with EHop j _ _ | EFrustrated j _ _ => (k <= j < k + length atts)%nat end).
Proof.
  intros atts k active Hok.
  pose proof (hops_match_changes atts k active Hok) as H1.
  pose proof (frustrated_count atts k active) as H2.
  assert (forall e, let '(_, evs) := run_from k active atts in In e evs ->
            match e with EHop j _ _ | EFrustrated j _ _ => (k <= j < k + length atts)%nat end) as H3
    by (intros e; apply events_sorted_times).
  destruct (run_from k active atts) as [acts evs]. repeat split; try assumption; apply H3; assumption.
Qed.
Print Assumptions C04_events_match_trace.

(* the whole loop (Model/Traj.run, any number of passes): the active state after the run is the
   initial one updated by the accepted attempts alone, in order — a frustrated attempt or a pass
   without attempt never changes it; one attempt record per pass; time advances by dt per pass *)
Theorem C04_full_run_active_state_follows_accepted_attempts :
  forall n m dt poisson (ds : list (sdata (T:=R))) (s sf : tstate (T:=R)) atts,
  run ROps n m dt poisson ds s = (sf, atts) ->
  length atts = length ds
  /\ pact sf = follow (pact s) atts
  /\ ptime sf = ptime s + INR (length ds) * dt.
Proof.
  intros n m dt poisson ds s sf atts Hrun.
  destruct (run_invariants n m dt poisson ds s sf atts Hrun) as (A & B & _ & D). repeat split; assumption.
Qed.
Print Assumptions C04_full_run_active_state_follows_accepted_attempts.

(* link between the assembled loop and the event-log model: the active state after the first i+1 passes of Traj.run is the
   (i+1)-th entry of the active column that Events.run_from builds from the same attempts - so C04_events_match_trace
   (changes of that column = hop events, one frustrated event per rejection, no others) speaks about the loop itself *)
Theorem C04_full_run_active_column : forall n m dt poisson (ds : list (sdata (T:=R))) (s sf : tstate (T:=R)) atts k i d,
  run ROps n m dt poisson ds s = (sf, atts) -> (i < length ds)%nat ->
  pact (fst (run ROps n m dt poisson (firstn (S i) ds) s)) = nth i (fst (run_from k (pact s) (map toatt atts))) d.
Proof. intros n m dt poisson ds s sf atts k i d H Hi. exact (run_active_column n m dt poisson ds s sf atts k i d H Hi). Qed.
Print Assumptions C04_full_run_active_column.

Example C04_witness :
  attempts_ok 0 [NoAttempt; Attempt 1 true; Attempt 0 false; Attempt 0 true] = true
  /\ run_from 0 0 [NoAttempt; Attempt 1 true; Attempt 0 false; Attempt 0 true]
     = ([0; 1; 1; 0]%nat, [EHop 1 0 1; EFrustrated 2 1 0; EHop 3 1 0]).
Proof. split; reflexivity. Qed.
