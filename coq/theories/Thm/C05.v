(* Thm/C05.v — property C05: every built-in model returns mutually consistent energies,
   forces and couplings.  Models: Model/Electronics.v (the generic layer exactly as the code
   computes it from V, dV and the eigh answer), Model/Models.v (V, dV of the built-in models);
   proofs: Proof/ElectronicsP.v, ModelsP.v, HarmonicP.v. *)
From Coq Require Import Reals List Lra Lia.
From Coquelicot Require Import Coquelicot.
From MV Require Import Ops RInst Vec Electronics Models SumR ElectronicsP ModelsP HarmonicP.
Import ListNotations.
Open Scope R_scope.

(* ---------------- generic layer, every diabatic model at once, any n ----------------
   First-order jets: C, V, lam are the values of the eigenvector matrix, the diabatic matrix
   and the energies at a position, C', V', lam' their derivatives along one nuclear
   coordinate.  Hypotheses: the eigh specification (orthonormal columns, V C = C diag(lam),
   V symmetric) and its derivative (product rule applied entrywise).  ASSUMED, not proved:
   that a differentiable orthonormal eigen-family exists near a non-degenerate point
   (perturbation theory); the code's dV is the derivative of V by the per-model theorems below. *)
Theorem C05_hellmann_feynman : forall n (C C' V V' : nat -> nat -> R) (lam lam' : nat -> R),
  (forall i j, (i < n)%nat -> (j < n)%nat -> rsum ROps n (fun p => C p i * C p j) = delta i j) ->
  (forall p j, (p < n)%nat -> (j < n)%nat -> rsum ROps n (fun q => V p q * C q j) = C p j * lam j) ->
  (forall p q, (p < n)%nat -> (q < n)%nat -> V p q = V q p) ->
  (forall p j, (p < n)%nat -> (j < n)%nat ->
      rsum ROps n (fun q => V' p q * C q j) + rsum ROps n (fun q => V p q * C' q j) = C' p j * lam j + C p j * lam' j) ->
  (* force on state i = -(C^T V' C)_ii = minus the derivative of its energy *)
  (forall i, (i < n)%nat -> - CtVpC n C V' i i = - lam' i)
  (* coupling (C^T V' C)_ij / (E_j - E_i) = overlap derivative <phi_i | d phi_j> *)
  /\ (forall i j, (i < n)%nat -> (j < n)%nat -> i <> j -> lam j - lam i <> 0 ->
        CtVpC n C V' i j / (lam j - lam i) = A n C C' i j).
Proof.
  intros n C C' V V' lam lam' Ho He Hs Hd. split.
  - intros i Hi. apply (hf_force n C C' V V' lam lam' Ho He Hs Hd i Hi).
  - intros i j Hi Hj Hne Hg. apply (dc_is_overlap n C C' V V' lam lam' Ho He Hs Hd i j Hi Hj Hne Hg).
Qed.
Print Assumptions C05_hellmann_feynman.

(* and the overlap derivative is antisymmetric (derivative of C^T C = I) *)
Theorem C05_overlap_derivative_antisymmetric : forall n (C C' : nat -> nat -> R),
  (forall i j, (i < n)%nat -> (j < n)%nat ->
     rsum ROps n (fun p => C' p i * C p j) + rsum ROps n (fun p => C p i * C' p j) = 0) ->
  forall i j, (i < n)%nat -> (j < n)%nat -> A n C C' j i = - A n C C' i j.
Proof. intros n C C' H i j Hi Hj. apply (overlap_antisym n C C' H i j Hi Hj). Qed.
Print Assumptions C05_overlap_derivative_antisymmetric.

(* what the code returns from (coeff, dV, energies): zero diagonal and antisymmetry of the
   derivative coupling whatever the gap (the floor keeps the two divisions opposite), the
   off-diagonal force matrix (E_i - E_j) d_ij above the floor, force = diagonal of the force matrix *)
Theorem C05_code_level_consistency : forall (N nst : nat) (floor : R) (Cm dV : rmat (T:=R)) (E : list R),
  0 < floor ->
  (forall p q, (p < N)%nat -> (q < N)%nat -> rg ROps dV p q = rg ROps dV q p) ->
  (forall i, (i < nst)%nat -> rg ROps (dc_of ROps N nst floor Cm dV E) i i = 0)
  /\ (forall i j, (i < nst)%nat -> (j < nst)%nat ->
        rg ROps (dc_of ROps N nst floor Cm dV E) j i = - rg ROps (dc_of ROps N nst floor Cm dV E) i j)
  /\ (forall i j, (i < nst)%nat -> (j < nst)%nat -> i <> j -> floor <= Rabs (nth j E 0 - nth i E 0) ->
        rg ROps (force_matrix_of ROps N nst Cm dV) i j = (nth i E 0 - nth j E 0) * rg ROps (dc_of ROps N nst floor Cm dV E) i j)
  /\ (forall i, (i < nst)%nat -> nth i (force_of ROps N nst Cm dV) 0 = rg ROps (force_matrix_of ROps N nst Cm dV) i i).
Proof.
  intros N nst floor Cm dV E Hf Hs. repeat split.
  - intros i Hi. apply dc_zero_diag. exact Hi.
  - intros i j Hi Hj. apply dc_antisym; assumption.
  - intros i j Hi Hj Hne Hg. apply force_matrix_offdiag; assumption.
  - intros i Hi. apply force_is_diag_of_matrix. exact Hi.
Qed.
Print Assumptions C05_code_level_consistency.

(* ---------------- dV is the gradient of V, model by model, all parameter values ---------------- *)
Theorem C05_gradients_of_builtin_models :
  (forall A B Cc D x, x <> 0 -> deriv_mat 2 (simple_V ROps A B Cc D) (simple_dV ROps A B Cc D x) x)
  /\ (forall A B Cc D E0 x, deriv_mat 2 (dual_V ROps A B Cc D E0) (dual_dV ROps A B Cc D E0 x) x)
  /\ (forall A B Cc x, x <> 0 -> deriv_mat 2 (extended_V ROps A B Cc) (extended_dV ROps A B Cc x) x)
  /\ (forall v11 v22 v33 c12 c23 x, deriv_mat 3 (super_V ROps v11 v22 v33 c12 c23) (super_dV ROps v11 v22 v33 c12 c23 x) x)
  /\ (forall a b c xp x, deriv_mat 3 (modelx_V ROps a b c xp) (modelx_dV ROps a b c xp x) x)
  /\ (forall a b c d xp x, deriv_mat 3 (models_V ROps a b c d xp) (models_dV ROps a b c d xp x) x)
  /\ (forall a b c d f g w hp x y,
        deriv_mat 2 (fun t => sub2d_V ROps a b c d f g w hp t y) (nth 0 (sub2d_dV ROps a b c d f g w hp x y) []) x
        /\ deriv_mat 2 (fun t => sub2d_V ROps a b c d f g w hp x t) (nth 1 (sub2d_dV ROps a b c d f g w hp x y) []) y).
Proof.
  split; [intros; apply simple_deriv; assumption|].
  split; [intros; apply dual_deriv|].
  split; [intros; apply extended_deriv; assumption|].
  split; [intros; apply super_deriv|].
  split; [intros; apply modelx_deriv|].
  split; [intros; apply models_deriv|].
  intros. split; [apply sub2d_deriv_x | apply sub2d_deriv_y].
Qed.
Print Assumptions C05_gradients_of_builtin_models.

Theorem C05_gradient_linear_vibronic :
  forall E1 E2 lam r0 o1 o2 o3 o4 a1 a2 a3 a4 b1 b2 b3 b4 n1 n2 n3 n4 q1 q2 q3 q4 th,
  let V q t := vib_V ROps E1 E2 lam r0 [o1; o2; o3; o4] [a1; a2; a3; a4] [b1; b2; b3; b4] [n1; n2; n3; n4] q t in
  let dV := vib_dV ROps E1 E2 lam r0 [o1; o2; o3; o4] [a1; a2; a3; a4] [b1; b2; b3; b4] [n1; n2; n3; n4] [q1; q2; q3; q4] th in
  deriv_mat 2 (fun t => V [t; q2; q3; q4] th) (nth 0 dV []) q1
  /\ deriv_mat 2 (fun t => V [q1; t; q3; q4] th) (nth 1 dV []) q2
  /\ deriv_mat 2 (fun t => V [q1; q2; t; q4] th) (nth 2 dV []) q3
  /\ deriv_mat 2 (fun t => V [q1; q2; q3; t] th) (nth 3 dV []) q4
  /\ deriv_mat 2 (fun t => V [q1; q2; q3; q4] t) (nth 4 dV []) th.
Proof.
  intros. split; [apply vib_deriv_q1|]. split; [apply vib_deriv_q2|]. split; [apply vib_deriv_q3|].
  split; [apply vib_deriv_q4 | apply vib_deriv_theta].
Qed.
Print Assumptions C05_gradient_linear_vibronic.

(* REFUTED for the code as it is (known findings): SubotnikModelW / SubotnikModelZ report a dV
   that is not the gradient of V: V_01 is constant, its derivative is 0, the code reports
   0.1/sqrt(N).  The true gradients are modelw_dV_true / modelz_dV_true. *)
Theorem C05_modelw_modelz_gradient_refuted :
  (exists pi eps N x i j, (i < N)%nat /\ (j < N)%nat /\
     is_derive (fun y => ent (modelw_V ROps pi eps N y) i j) x 0 /\ ent (modelw_dV_code ROps pi eps N x) i j <> 0)
  /\ (exists eps N x i j, (i < N)%nat /\ (j < N)%nat /\
     is_derive (fun y => ent (modelz_V ROps eps N y) i j) x 0 /\ ent (modelz_dV_code ROps eps N x) i j <> 0)
  /\ (forall pi eps N x, deriv_mat N (modelw_V ROps pi eps N) (modelw_dV_true ROps pi eps N x) x)
  /\ (forall eps N x, deriv_mat N (modelz_V ROps eps N) (modelz_dV_true ROps eps N x) x).
Proof.
  split; [exact modelw_code_dV_refuted|]. split; [exact modelz_code_dV_refuted|].
  split; [exact modelw_true_deriv | exact modelz_true_deriv].
Qed.
Print Assumptions C05_modelw_modelz_gradient_refuted.

(* harmonic model: E(X + d) = E(X) - d . F(X) + (1/2) d^T H d for a symmetric Hessian, so the
   force is minus the gradient of the energy (the remainder is quadratic in d) *)
Theorem C05_harmonic_force_is_minus_gradient : forall n (x0 : list R) (E0 : R) (H : list (list R)) (X d : list R),
  length x0 = n -> length H = n -> (forall i, (i < n)%nat -> length (nth i H []) = n) ->
  (forall i j, (i < n)%nat -> (j < n)%nat -> nth j (nth i H []) 0 = nth i (nth j H []) 0) ->
  length X = n -> length d = n ->
  harm_energy ROps x0 E0 H (vadd ROps X d)
  = harm_energy ROps x0 E0 H X - vdot ROps d (harm_force ROps x0 H X) + 1 / 2 * quadf n H d d.
Proof. intros. apply harmonic_expansion; assumption. Qed.
Print Assumptions C05_harmonic_force_is_minus_gradient.

(* PARTIAL: shin-metiu's soft-Coulomb gradient (erf) is not modelled: its V, dV enter the
   generic layer as data; the existence of a differentiable eigen-family is assumed. *)
Example C05_witness : (0 : R) < 1 / 10000000000 /\ (1 <> 0)%R.
Proof. split; lra. Qed.
