(* Thm/C06.v — property C06: adiabatic states keep a continuous sign; results depend only
   on position.  Model: Model/Electronics.v (signfix and the quantities derived from the
   coefficient matrix); proofs: Proof/ElectronicsP.v (Section Gauge). *)
From Coq Require Import Reals List Lra Lia.
From MV Require Import Ops RInst Vec Electronics SumR ElectronicsP.
Import ListNotations.
Open Scope R_scope.

(* every newly computed state has non-negative overlap with the state it was continued from *)
Theorem C06_sign_continuity : forall N nst (Cm r : rmat (T:=R)) mo, (mo < nst)%nat ->
  0 <= vdot ROps (col ROps N (signfix ROps N nst Cm (Some r)) mo) (col ROps N r mo).
Proof. intros. apply signfix_overlap. assumption. Qed.
Print Assumptions C06_sign_continuity.

(* whatever signs the history (the reference) imposed on the columns, the forces are the same,
   couplings and force-matrix elements change only by the sign product s_i s_j, so energies
   (eigenvalues, untouched by the fix), forces and coupling magnitudes depend on the position
   alone — given that eigh is a function of V(x) *)
Theorem C06_results_independent_of_history :
  forall N nst (Cm Cs dV : rmat (T:=R)) (s : nat -> R) floor E,
  (forall i, (i < nst)%nat -> s i = 1 \/ s i = -1) ->
  (forall p i, (p < N)%nat -> (i < nst)%nat -> rg ROps Cs p i = rg ROps Cm p i * s i) ->
  (forall i, (i < nst)%nat -> nth i (force_of ROps N nst Cs dV) 0 = nth i (force_of ROps N nst Cm dV) 0)
  /\ (forall i j, (i < nst)%nat -> (j < nst)%nat ->
        rg ROps (dc_of ROps N nst floor Cs dV E) i j = s i * s j * rg ROps (dc_of ROps N nst floor Cm dV E) i j
        /\ Rabs (rg ROps (dc_of ROps N nst floor Cs dV E) i j) = Rabs (rg ROps (dc_of ROps N nst floor Cm dV E) i j)
        /\ rg ROps (force_matrix_of ROps N nst Cs dV) i j = s i * s j * rg ROps (force_matrix_of ROps N nst Cm dV) i j).
Proof.
  intros N nst Cm Cs dV s floor E Hs HC. split.
  - intros i Hi. apply (gauge_force N nst Cm Cs dV s Hs HC i Hi).
  - intros i j Hi Hj. destruct (gauge_coupling N nst Cm Cs dV s HC floor E i j Hi Hj) as [A B].
    split; [exact A|]. split; [apply (gauge_coupling_magnitude N nst Cm Cs dV s Hs HC floor E i j Hi Hj) | exact B].
Qed.
Print Assumptions C06_results_independent_of_history.

(* the sign-fixed matrix is the raw matrix with columns multiplied by +-1, i.e. an instance of s above *)
Theorem C06_signfix_is_a_gauge : forall N nst (Cm r : rmat (T:=R)) p mo, (p < N)%nat -> (mo < nst)%nat ->
  rg ROps (signfix ROps N nst Cm (Some r)) p mo = rg ROps Cm p mo * col_sign ROps N Cm r mo
  /\ (col_sign ROps N Cm r mo = 1 \/ col_sign ROps N Cm r mo = -1).
Proof. intros. split; [apply rg_signfix; assumption | apply col_sign_pm]. Qed.
Print Assumptions C06_signfix_is_a_gauge.

(* PARTIAL: "computing a new point never changes what was already returned for an earlier
   point" is a Python aliasing fact (update() returns a copy; compute() rebinds attributes):
   the model is a pure function; the harness keeps deep copies of every returned object and
   re-compares all earlier results after each later call, including interleaved trajectories
   sharing one model object and the AdiabaticModel_ class that mutates its own reference. *)
Example C06_witness : (1 = 1 \/ 1 = -1)%R.
Proof. left. reflexivity. Qed.
