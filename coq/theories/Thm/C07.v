(* Thm/C07.v — property C07: second order and time-reversible.  Models: Model/Hop.v (Verlet),
   Model/Propagate.v (Wmid, exp_step); proofs: Proof/HopP.v, Proof/ReverseP.v. *)
From Coq Require Import Reals List Lra.
From MV Require Import Ops RInst Vec Cplx Mat CRing MatP Hop HopP Propagate PropagateP ReverseP Traj TrajP MD MDP.
Import ListNotations.
Open Scope R_scope.

(* nuclear part: velocity Verlet is exactly time reversible, any force field, any N *)
Theorem C07_verlet_reversible :
  forall (m : list R) (F : list R -> list R) (dt : R) (n : nat) (x v : list R),
    length x = length m -> length v = length m -> (forall y, length (F y) = length m) ->
    Forall (fun mi => mi <> 0) m ->
    iter n (verlet_step m F dt) (flip (iter n (verlet_step m F dt) (x, v))) = flip (x, v).
Proof. intros. apply verlet_n_reversible; assumption. Qed.
Print Assumptions C07_verlet_reversible.

(* electronic part: the midpoint generator of the reversed step (the two ends exchanged, both
   velocities negated) is the complex conjugate of the forward one.  This uses that the
   generator is built from the velocity at BOTH ends (the property that failed while
   last_velocity aliased the new velocity) *)
Theorem C07_midpoint_generator_time_symmetric : forall n H0 H1 tau0 tau1 (v lastv : list R),
  meq n (mget ROps (Wmid ROps n H1 H0 tau1 tau0 (map Ropp lastv) (map Ropp v)))
        (fconj (mget ROps (Wmid ROps n H0 H1 tau0 tau1 v lastv))).
Proof. exact Wmid_reversed. Qed.
Print Assumptions C07_midpoint_generator_time_symmetric.

(* and the exponential step undoes itself: propagating conj(rho') with the eigen-decomposition
   (lam, conj C) of conj W (a valid decomposition of the conjugate generator) returns conj(rho),
   exactly, for any n *)
Theorem C07_exponential_step_reversible : forall n (lam : list R) (Cm : mat (T:=R)) (dt : R) (rho : mat (T:=R)),
  length lam = n -> unitary n (mget ROps Cm) ->
  meq n (mget ROps (exp_step ROps n lam (mconj n Cm) dt (mconj n (exp_step ROps n lam Cm dt rho))))
        (fconj (mget ROps rho)).
Proof. intros. apply exp_step_reverses; assumption. Qed.
Print Assumptions C07_exponential_step_reversible.

(* the assembled loop body (Model/Traj.step): a pass without hop attempt followed by the pass of the time-reversed problem
   (momenta negated, density matrix conjugated, the two electronics exchanged, eigen-decomposition (lam, conj C) of the
   conjugate generator) returns the reversed initial state: position and momentum exactly, density matrix up to conjugation *)
Theorem C07_full_step_reversible :
  forall n m dt poisson zeta zeta' (e0 e1 : elec (T:=R)) lam Cm (s s1 s2 : tstate (T:=R)) W hp W' hp',
  let f0 := nth (pact s) (eforce e0) [] in let f1 := nth (pact s) (eforce e1) [] in
  length (px s) = length m -> length (pv s) = length m -> length f0 = length m -> length f1 = length m ->
  Forall (fun mi => mi <> 0) m -> length lam = n -> unitary n (mget ROps Cm) ->
  step ROps n m dt poisson zeta e0 e1 lam Cm s = (s1, W, hp, None) ->
  step ROps n m dt poisson zeta' e1 e0 lam (mconj n Cm) (mkT (px s1) (map Ropp (pv s1)) (mconj n (prho s1)) (pact s1) (ptime s1)) = (s2, W', hp', None) ->
  px s2 = px s /\ pv s2 = map Ropp (pv s) /\ pact s2 = pact s
  /\ meq n (mget ROps (prho s2)) (fconj (mget ROps (prho s))).
Proof.
  intros n m dt poisson zeta zeta' e0 e1 lam Cm s s1 s2 W hp W' hp' f0 f1 Hx Hv H0 H1 Hm Hl HC Hf Hb.
  exact (step_reversible n m dt poisson zeta zeta' e0 e1 lam Cm s s1 s2 W hp W' hp' Hx Hv H0 H1 Hm Hl HC Hf Hb).
Qed.
Print Assumptions C07_full_step_reversible.

(* ... and for any number of passes (Model/Traj.run): N passes without hop attempt, then the N passes of the reversed problem
   in reverse order, return position and momentum exactly and the density matrix up to conjugation - the third sentence of
   the property for the assembled loop *)
Theorem C07_full_run_reversible :
  forall n m dt poisson (ds : list (sdata (T:=R))) (s sf s2 : tstate (T:=R)) atts atts2,
  run ROps n m dt poisson ds s = (sf, atts) -> Forall (fun a => a = None) atts ->
  run ROps n m dt poisson (rev (map (rd n) ds)) (mkT (px sf) (map Ropp (pv sf)) (mconj n (prho sf)) (pact sf) (ptime sf)) = (s2, atts2) ->
  Forall (fun a => a = None) atts2 ->
  Forall (fun mi => mi <> 0) m -> length (px s) = length m -> length (pv s) = length m ->
  Forall (fun d => fok m (fpair (pact s) d) /\ length (dlam d) = n /\ unitary n (mget ROps (dC d))) ds ->
  px s2 = px s /\ pv s2 = map Ropp (pv s) /\ pact s2 = pact s
  /\ meq n (mget ROps (prho s2)) (fconj (mget ROps (prho s))).
Proof.
  intros n m dt poisson ds s sf s2 atts atts2 H1 H2 H3 H4 H5 H6 H7 H8.
  exact (run_reversible n m dt poisson ds s sf s2 atts atts2 H1 H2 H3 H4 H5 H6 H7 H8).
Qed.
Print Assumptions C07_full_run_reversible.

(* PARTIAL: "symmetric + consistent one-step map => even order >= 2" (and hence error ratio 4
   when halving dt, for both integrators) is the classical meta-theorem and is NOT mechanised;
   that exp(-i conj(W) dt) is independent of the eigen-decomposition chosen by LAPACK (spectral
   theorem) is assumed.  The harness measures the order on smooth models and the
   forward-backward defect on real runs. *)
Example C07_witness : map Ropp [1; -2] = [-1; - -2].
Proof. reflexivity. Qed.

(* the assembled loop of AdiabaticMD.simulate (Model/MD.v), any force that is a function of the position, any number N of
   passes: reversing the momenta after N passes and running N more returns to the start with reversed momenta, exactly;
   the clock has advanced by 2 N dt *)
Theorem C07_md_run_reversible :
  forall F m dt N x v t,
  length x = length m -> length v = length m -> (forall y, length (F y) = length m) -> Forall (fun mi => mi <> 0) m ->
  let s1 := md_run ROps F m dt N (x, v, t) in
  let s2 := md_run ROps F m dt N (fst (xv s1), map Ropp (snd (xv s1)), tm s1) in
  xv s2 = (x, map Ropp v) /\ tm s2 = t + 2 * INR N * dt.
Proof. exact md_run_reversible. Qed.
Print Assumptions C07_md_run_reversible.

(* second order, as a theorem about the assembled MD loop on HarmonicModel's own force (one degree of freedom, frequency w,
   k = mu w^2, any centre c): after ONE pass the position and the velocity differ from the exact flow
   x(dt) = c + (x-c) cos(w dt) + (v/w) sin(w dt), v(dt) = v cos(w dt) - w (x-c) sin(w dt) by at most third-order terms in
   w dt, with explicit constants, for every step with w dt <= 1 - a local error of third order is what "second-order
   accurate" means for a one-step method (the accumulation over T/dt passes is not mechanised) *)
Theorem C07_md_harmonic_local_error_third_order :
  forall c mu w dt x v t,
  0 < mu -> 0 < w -> 0 <= w * dt <= 1 ->
  let th := w * dt in
  exists x1 v1, md_harm_step ROps [c] [[mu * (w * w)]] [mu] dt ([x], [v], t) = ([x1], [v1], t + dt)
    /\ Rabs (x1 - (c + (x - c) * cos th + v / w * sin th)) <= Rabs (x - c) * (th ^ 4 / 24) + Rabs (v / w) * (th ^ 3 / 6)
    /\ Rabs (v1 - (v * cos th - w * (x - c) * sin th)) <= Rabs v * (th ^ 4 / 24) + Rabs (w * (x - c)) * (th ^ 3 / 4).
Proof. exact harmonic_step_local_error. Qed.
Print Assumptions C07_md_harmonic_local_error_third_order.
