(* Thm/C08.v — property C08: Ehrenfest mean-field consistency.  Model: Model/Ehrenfest.v
   (the force exactly as the code computes it, and the mean-field force beside it);
   proofs: Proof/EhrenfestP.v. *)
From Coq Require Import Reals List Lra.
From MV Require Import Ops RInst Vec Cplx Mat CRing MatP Hop Propagate PropagateP Rk4P Ehrenfest EhrenfestP Traj TrajP.
Import ListNotations.
Open Scope R_scope.

(* the potential is the expectation value Re tr(rho H) — by construction of the model, which the
   correspondence ties to potential_energy(); the active label never changes *)
Theorem C08_potential_and_no_hops : forall n (rho H : mat (T:=R)) k,
  eh_potential ROps n rho H = fst (ftrace ROps n (fmul ROps n (mget ROps rho) (mget ROps H)))
  /\ eh_surface_hopping k = k.
Proof.
  intros. split; [|reflexivity]. unfold eh_potential, mtrace, cre.
  rewrite (ftrace_ext n _ _ (mmul_spec n rho H)). reflexivity.
Qed.
Print Assumptions C08_potential_and_no_hops.

(* REFUTED for the code as it is: the force the code uses is NOT the mean-field force
   -tr(rho grad H) when the density matrix has coherences.  Witness: two states,
   rho = [[1/2,1/2],[1/2,1/2]] (pure), F_01 = F_10 = 1: code 0, mean field 1.
   (known finding; the repaired force fails the pinned test test_ehrenfest) *)
Theorem C08_force_is_meanfield_refuted : exists n ndim (rho : mat (T:=R)) force fmx,
  (forall i, (i < n)%nat -> nth i force [] = map (fun x => nth x (nth i (nth i fmx []) []) 0) (seq 0 ndim))
  /\ eh_force_code ROps n rho force <> eh_force_meanfield ROps n ndim rho fmx.
Proof.
  exists 2%nat, 1%nat, rho_w, force_w, fmx_w. split.
  - intros [|[|i]] Hi; try reflexivity. exfalso. inversion Hi as [|? H1]. inversion H1 as [|? H2]. inversion H2.
  - destruct ehrenfest_force_differs as [E1 E2]. rewrite E1, E2. intros H. injection H. lra.
Qed.
Print Assumptions C08_force_is_meanfield_refuted.

(* what makes the mean-field force the right one: with rho' = -i[W,rho], W = diag(E) - iT
   (T = velocity-contracted coupling), the electronic part of d/dt tr(rho H) equals
   - sum_ij rho_ji (E_i - E_j) T_ij, i.e. minus velocity times the off-diagonal (coherence)
   part of the mean-field force since F_ij = (E_i - E_j) d_ij: dropping that part, as the
   code does, leaves an energy drift that does not vanish with the time step *)
Theorem C08_meanfield_power_balance : forall n (E : nat -> R) (Tm rho : FM),
  let Hd := fdiag ROps (fun i => cofr ROps (E i)) in
  let W := fsub ROps Hd (fscale ROps (o0 ROps, o1 ROps) Tm) in
  ftrace ROps n (fmul ROps n (comm n W rho) Hd)
  = copp ROps (csumf ROps n (fun i => csumf ROps n (fun j => cmul ROps (rho j i) (cmul ROps (cofr ROps (E i - E j)) (Tm i j))))).
Proof. intros. apply power_balance. Qed.
Print Assumptions C08_meanfield_power_balance.

(* the assembled Ehrenfest pass (Model/Traj.step_eh, tied to Ehrenfest runs by Run/RTraj.chkE): the
   label never changes, rho takes the same unitary step as in FSSH, and both Verlet halves use the
   population-weighted force of the density matrix held at the start of the pass *)
Theorem C08_full_step : forall n m dt e0 e1 lam Cm (s : tstate (T:=R)),
  let '(s', W) := step_eh ROps n m dt e0 e1 lam Cm s in
  pact s' = pact s /\ ptime s' = ptime s + dt /\ prho s' = exp_step ROps n lam Cm dt (prho s)
  /\ px s' = advance_position ROps m (px s) (pv s) (eh_force_code ROps n (prho s) (eforce e0)) dt
  /\ pv s' = advance_velocity ROps m (pv s) (eh_force_code ROps n (prho s) (eforce e0)) (eh_force_code ROps n (prho s) (eforce e1)) dt.
Proof. exact step_eh_props. Qed.
Print Assumptions C08_full_step.

(* any number of Ehrenfest passes (Model/Traj.run_eh): the label is the initial one, time = t0 + N dt, and the density
   matrix is the electronic-only product of exp steps - hence a valid state by C02 *)
Theorem C08_full_run : forall n m dt (ds : list (sdata (T:=R))) (s : tstate (T:=R)),
  let sf := run_eh ROps n m dt ds s in
  pact sf = pact s /\ ptime sf = ptime s + INR (length ds) * dt
  /\ prho sf = exp_steps n (map (fun d => (dlam d, dC d, dt)) ds) (prho s).
Proof. intros. apply run_eh_invariants. Qed.
Print Assumptions C08_full_run.

Example C08_witness : eh_force_code ROps 2 rho_w force_w = [0].
Proof. apply ehrenfest_force_differs. Qed.

(* the assembled Ehrenfest pass with electronic_integration = "linear-rk4" (Model/Traj.step_eh_rk4, tied to real runs by
   Run/RTraj.chkEr): the label is constant, both Verlet halves use the population-weighted force of the rho held at the
   start of the pass, rho takes the interpolated RK4 step and stays Hermitian with the same trace - "both electronic integrators" *)
Theorem C08_full_step_rk4 :
  forall n m dt maxdt start (e0 e1 : elec (T:=R)) eigs vecs (s : tstate (T:=R)),
  let '(s', W) := step_eh_rk4 ROps n m dt maxdt start e0 e1 eigs vecs s in
  let f0 := eh_force_code ROps n (prho s) (eforce e0) in let f1 := eh_force_code ROps n (prho s) (eforce e1) in
  let v1 := advance_velocity ROps m (pv s) f0 f1 dt in
  pact s' = pact s /\ ptime s' = ptime s + dt
  /\ prho s' = rk4_step ROps n (eH e0) (eH e1) (etau e0) (etau e1) v1 (pv s) eigs vecs dt maxdt start (prho s)
  /\ px s' = advance_position ROps m (px s) (pv s) f0 dt /\ pv s' = v1.
Proof. exact step_eh_rk4_props. Qed.
Print Assumptions C08_full_step_rk4.

Theorem C08_full_step_rk4_density_matrix :
  forall n m dt maxdt start (e0 e1 : elec (T:=R)) eigs vecs (s : tstate (T:=R)),
  unitary n (mget ROps (mofreal ROps n vecs)) ->
  mherm n (mofreal ROps n (eH e0)) -> mherm n (mofreal ROps n (eH e1)) ->
  (forall tau w, (tau = etau e0 \/ tau = etau e1) -> aherm n (mget ROps (tvmat ROps n tau w))) ->
  mherm n (prho s) ->
  let s' := fst (step_eh_rk4 ROps n m dt maxdt start e0 e1 eigs vecs s) in
  mherm n (prho s') /\ mtrace ROps n (prho s') = mtrace ROps n (prho s) /\ pact s' = pact s.
Proof. exact step_eh_rk4_trace_herm. Qed.
Print Assumptions C08_full_step_rk4_density_matrix.

(* ... for any number of linear-rk4 Ehrenfest passes (Model/Traj.run_eh_rk4): the label is the initial one and the density
   matrix stays Hermitian with the trace it started with *)
Theorem C08_full_run_rk4 : forall n m dt maxdt start (ds : list (kdata (T:=R))) (s : tstate (T:=R)),
  Forall (rk_ok n) ds -> mherm n (prho s) ->
  let sf := run_eh_rk4 ROps n m dt maxdt start ds s in
  mherm n (prho sf) /\ mtrace ROps n (prho sf) = mtrace ROps n (prho s) /\ pact sf = pact s.
Proof. intros n m dt maxdt start ds s H1 H2. exact (run_eh_rk4_trace_herm n m dt maxdt start ds s H1 H2). Qed.
Print Assumptions C08_full_run_rk4.
