(* Thm/C09.v — property C09: cumulative FSSH.  Model: Model/Cumulative.v;
   proofs: Proof/CumulativeP.v.  acc_seq a gs n = 1 - (1-a) prod_{i<n} exp(-G_i),
   G_i = sum of the i-th rate vector. *)
From Coq Require Import Reals List Lra Lia.
From MV Require Import Ops RInst Vec Cplx Mat Hop Hopper Cumulative HopperP CumulativeP Propagate PropagateP Traj TrajP.
Import ListNotations.
Open Scope R_scope.

(* the accumulation formula of the code is 1-(1-a)exp(-G); the even-sampling variant is the same *)
Theorem C09_accumulation_closed_form : forall a G,
  accumulate ROps a G = 1 - (1 - a) * exp (- G) /\ accumulate_es ROps a G = accumulate ROps a G.
Proof. intros. split; [apply accumulate_R | apply accumulate_es_R]. Qed.
Print Assumptions C09_accumulation_closed_form.

(* an attempt happens exactly at the first step n at which 1 - prod exp(-G_i) exceeds the
   current threshold: no attempt at any earlier step, an attempt at n, carrying the threshold
   crossed, the accumulated value, and the target chosen by the choice oracle *)
Theorem C09_attempt_at_first_crossing : forall n gs (s : cstate (T:=R)) u st',
  (n < length gs)%nat -> stream s = u :: st' ->
  (forall j, (j < n)%nat -> acc_seq (acc s) gs (S j) <= zeta s) ->
  zeta s < acc_seq (acc s) gs (S n) ->
  let os := fst (cum_run ROps s gs) in
  (forall j, (j < n)%nat -> nth j os None = None)
  /\ nth n os None = Some (choice ROps (nth n gs []) u, zeta s, acc_seq (acc s) gs (S n)).
Proof. exact cum_first_crossing. Qed.
Print Assumptions C09_attempt_at_first_crossing.

(* and never otherwise *)
Theorem C09_no_attempt_without_crossing : forall gs (s : cstate (T:=R)),
  (forall j, (j < length gs)%nat -> acc_seq (acc s) gs (S j) <= zeta s) ->
  let '(os, sf) := cum_run ROps s gs in
  (forall j, nth j os None = None) /\ acc sf = acc_seq (acc s) gs (length gs) /\ zeta sf = zeta s.
Proof. exact cum_no_crossing. Qed.
Print Assumptions C09_no_attempt_without_crossing.

(* after an attempt: accumulation reset to zero, fresh threshold = next user-supplied value,
   otherwise the next generator number; runs compose, so this covers any number of hops *)
Theorem C09_reset_and_fresh_threshold : forall (s : cstate (T:=R)) g u st',
  zeta s < accumulate ROps (acc s) (vsum ROps g) -> stream s = u :: st' ->
  let s' := fst (cum_step ROps s g) in
  acc s' = 0 /\
  match zlist s with
  | z :: zl' => zeta s' = z /\ zlist s' = zl' /\ stream s' = st'
  | [] => match st' with u2 :: st'' => zeta s' = u2 /\ zlist s' = [] /\ stream s' = st'' | [] => True end
  end.
Proof. exact cum_step_reset. Qed.
Print Assumptions C09_reset_and_fresh_threshold.

Theorem C09_runs_compose : forall gs1 gs2 (s : cstate (T:=R)),
  cum_run ROps s (gs1 ++ gs2) =
  let '(os1, s1) := cum_run ROps s gs1 in
  let '(os2, s2) := cum_run ROps s1 gs2 in (os1 ++ os2, s2).
Proof. exact cum_run_app. Qed.
Print Assumptions C09_runs_compose.

(* target: the slot rule (C03) on the normalised rates g_i / G *)
Theorem C09_target_proportional_to_rates : forall g u n,
  Forall (fun x => 0 <= x) g -> 0 < vsum ROps g -> 0 <= u ->
  let p := map (fun x => x / vsum ROps g) g in
  let q := map (fun x => x / vsum ROps p) p in
  (choice ROps g u = Some n <-> (n < length g)%nat /\ psum q n <= u < psum q (S n)).
Proof. exact choice_slot. Qed.
Print Assumptions C09_target_proportional_to_rates.

(* hop-time statistics: the thresholds with no attempt through step n form [acc_n, 1), whose
   length 1 - acc_n equals prod_i (1 - total_i) with total_i = 1 - exp(-G_i), the per-step
   Poisson hopping probability of standard FSSH (C03): the survival functions coincide *)
Theorem C09_survival_equals_poisson_fssh : forall gs n,
  1 - acc_seq 0 gs n = surv_poisson gs n /\ 0 < 1 - acc_seq 0 gs n.
Proof.
  intros. split; [apply survival_equiv|]. unfold acc_seq.
  replace (1 - (1 - (1 - 0) * surv gs n)) with (surv gs n) by ring. apply surv_pos.
Qed.
Print Assumptions C09_survival_equals_poisson_fssh.

(* the assembled cumulative pass (Model/Traj.step_cum, tied to TrajectoryCum runs by Run/RTraj.chkC):
   an accepted hop conserves kinetic + active potential energy exactly and leaves the accumulation
   at zero *)
Theorem C09_full_step_accepted_hop : forall n m dt e0 e1 lam Cm (s s' : tstate (T:=R)) c c' hp t,
  step_cum ROps n m dt e0 e1 lam Cm s c = (s', c', hp, Some (t, true)) ->
  let f0 := nth (pact s) (eforce e0) [] in let f1 := nth (pact s) (eforce e1) [] in
  let v1 := advance_velocity ROps m (pv s) f0 f1 dt in
  Forall (fun mi => 0 < mi) m -> length v1 = length m -> length (tget (etau e1) (pact s) t) = length m ->
  0 < vdot ROps (tget (etau e1) (pact s) t) (tget (etau e1) (pact s) t) ->
  pact s' = t /\ kinetic ROps m (pv s') + vget ROps (diagE ROps n e1) t
                 = kinetic ROps m v1 + vget ROps (diagE ROps n e1) (pact s)
  /\ acc c' = 0.
Proof. exact step_cum_hop_energy. Qed.
Print Assumptions C09_full_step_accepted_hop.

(* any number of cumulative passes (Model/Traj.run_cum): the active state follows the accepted attempts alone,
   one attempt record per pass, the density matrix never feels the attempts *)
Theorem C09_full_run : forall n m dt (ds : list (sdata (T:=R))) (s sf : tstate (T:=R)) c cf atts,
  run_cum ROps n m dt ds s c = (sf, cf, atts) ->
  length atts = length ds /\ ptime sf = ptime s + INR (length ds) * dt
  /\ prho sf = PropagateP.exp_steps n (map (fun d => (dlam d, dC d, dt)) ds) (prho s)
  /\ pact sf = follow (pact s) atts.
Proof. intros n m dt ds s sf c cf atts H. apply (run_cum_invariants n m dt ds s c sf cf atts H). Qed.
Print Assumptions C09_full_run.

Example C09_witness : accumulate ROps 0 0 = 0 /\ (0 < 1)%nat.
Proof. split; [rewrite accumulate_R, Ropp_0, exp_0; ring | lia]. Qed.

(* the assembled cumulative pass with electronic_integration = "linear-rk4" (Model/Traj.step_cum_rk4, tied to real runs by
   Run/RTraj.chkCr): the decision is the same cum_step on rates built from the rk4-propagated rho; an accepted hop
   conserves energy exactly and resets the accumulation; rho stays Hermitian with its trace whatever the decision *)
Theorem C09_full_step_rk4_accepted_hop :
  forall n m dt maxdt start (e0 e1 : elec (T:=R)) eigs vecs (s s' : tstate (T:=R)) c c' hp t,
  step_cum_rk4 ROps n m dt maxdt start e0 e1 eigs vecs s c = (s', c', hp, Some (t, true)) ->
  let f0 := nth (pact s) (eforce e0) [] in let f1 := nth (pact s) (eforce e1) [] in
  let v1 := advance_velocity ROps m (pv s) f0 f1 dt in
  Forall (fun mi => 0 < mi) m -> length v1 = length m -> length (tget (etau e1) (pact s) t) = length m ->
  0 < vdot ROps (tget (etau e1) (pact s) t) (tget (etau e1) (pact s) t) ->
  pact s' = t /\ kinetic ROps m (pv s') + vget ROps (diagE ROps n e1) t
                 = kinetic ROps m v1 + vget ROps (diagE ROps n e1) (pact s)
  /\ acc c' = 0.
Proof. exact step_cum_rk4_hop_energy. Qed.
Print Assumptions C09_full_step_rk4_accepted_hop.

Theorem C09_full_step_rk4_shape :
  forall n m dt maxdt start (e0 e1 : elec (T:=R)) eigs vecs (s s' : tstate (T:=R)) c c' hp att,
  step_cum_rk4 ROps n m dt maxdt start e0 e1 eigs vecs s c = (s', c', hp, att) ->
  let f0 := nth (pact s) (eforce e0) [] in let f1 := nth (pact s) (eforce e1) [] in
  let v1 := advance_velocity ROps m (pv s) f0 f1 dt in
  ptime s' = ptime s + dt
  /\ prho s' = rk4_step ROps n (eH e0) (eH e1) (etau e0) (etau e1) v1 (pv s) eigs vecs dt maxdt start (prho s)
  /\ px s' = advance_position ROps m (px s) (pv s) f0 dt
  /\ pact s' = match att with Some (t, true) => t | _ => pact s end.
Proof. exact step_cum_rk4_shape. Qed.
Print Assumptions C09_full_step_rk4_shape.
