(* Thm/C10.v — property C10: even-sampling conserves statistical weight over the whole
   spawned tree.  Model: Model/SpawnStack.v (weights = final weights of a trajectory and
   all its descendants, for an arbitrary stack and an arbitrary crossing history);
   proofs: Proof/SpawnStackP.v.
   wf_stack d st : at every level (to depth d) dw >= 0, sum dw = 1, spawn_size >= 1
                   (C18 provides sum = 1 and positivity for quadrature stacks on [0,1]);
   ok fuel st iz h : at every crossing the branching ratios are >= 0 and sum to one and
                   every target is spawned spawn_size times. *)
From Coq Require Import Reals List Lra Lia.
From MV Require Import Ops RInst Vec SpawnStack SpawnStackP.
Import ListNotations.
Open Scope R_scope.

(* any stack (any depth/sizes), any history (any number of crossings, several thresholds
   crossed in one step: k > 1; exhausted stacks: index reaches the length), any fuel: the
   weights of all trajectories produced from one initial condition are >= 0 and sum to the
   initial weight *)
Theorem C10_tree_weights_sum_to_initial_weight : forall fuel (st : list nodeR) base (h : histR),
  0 <= base -> wf_stack (S fuel) st -> ok fuel st 0 h ->
  vsum ROps (weights ROps fuel st base 0 h) = base
  /\ Forall (fun w => 0 <= w) (weights ROps fuel st base 0 h).
Proof.
  intros fuel st base h Hb Hwf Hok. split.
  - rewrite (weights_total fuel st base 0 h Hwf Hok ltac:(lia)). unfold rem.
    destruct st; [lra|]. unfold sum_range. cbn. lra.
  - apply weights_nonneg; try assumption. lia.
Qed.
Print Assumptions C10_tree_weights_sum_to_initial_weight.

(* the general form: a trajectory whose index stands at iz, together with everything it will
   still spawn, carries base * (1 - sum of the dw already crossed): that is the parent's
   remaining marginal weight, and each child carries base * dw * ratio / spawn_size *)
Theorem C10_parent_keeps_marginal_weight : forall fuel (st : list nodeR) base iz (h : histR),
  wf_stack (S fuel) st -> ok fuel st iz h -> (iz <= length st)%nat ->
  vsum ROps (weights ROps fuel st base iz h) = base * rem st iz
  /\ marginal ROps st iz = rem st iz.
Proof.
  intros. split; [apply weights_total; assumption | eapply marginal_rem; eassumption].
Qed.
Print Assumptions C10_parent_keeps_marginal_weight.

(* a spawn stack built from quadrature sizes: flattened weights = product over the levels
   of the rule's weight sum (= 1 for rules on [0,1], C18) *)
Theorem C10_quadrature_stack_weights : forall (levels : list (list R * list R)) mcs,
  levels <> [] -> Forall (fun lv => length (fst lv) = length (snd lv) /\ fst lv <> []) levels ->
  vsum ROps (map snd (leaves ROps (length levels) (build levels mcs))) = level_prod levels.
Proof. exact stack_weights_product. Qed.
Print Assumptions C10_quadrature_stack_weights.

(* PARTIAL: "the parent itself is left unchanged" and "a child shares no state with the
   parent" are Python aliasing facts; the harness watches the real objects. *)

Example C10_witness :
  let st := [Node (1/4) (1/2) [] 1%nat; Node (3/4) (1/2) [] 1%nat] in
  wf_stack 3 st /\ ok 2 st 0 (Hist [(1%nat, [(1, [Hist []])])]).
Proof.
  cbv zeta. split.
  - right. split; [repeat constructor; cbn; lra|]. split; [cbn; lra|].
    repeat constructor; cbn; auto.
  - cbn. repeat split; try lra; repeat constructor; cbn; try lra; auto.
Qed.
