(* Thm/C10.v — property C10: even-sampling conserves statistical weight over the whole
   spawned tree.  Model: Model/SpawnStack.v (weights = final weights of a trajectory and
   all its descendants, for an arbitrary stack and an arbitrary crossing history);
   proofs: Proof/SpawnStackP.v.
   wf_stack d st : at every level (to depth d) dw >= 0, sum dw = 1, spawn_size >= 1
                   (C18 provides sum = 1 and positivity for quadrature stacks on [0,1]);
   ok fuel st iz h : at every crossing the branching ratios are >= 0 and sum to one and
                   every target is spawned spawn_size times. *)
From Coq Require Import Reals List Lra Lia.
From MV Require Import Ops RInst Vec Cplx Mat Hop Propagate Cumulative SpawnStack SpawnStackP Traj TrajESP.
Import ListNotations.
Open Scope R_scope.

(* any stack (any depth/sizes), any history (any number of crossings, several thresholds
   crossed in one step: k > 1; exhausted stacks: index reaches the length), any fuel: the
   weights of all trajectories produced from one initial condition are >= 0 and sum to the
   initial weight *)
Theorem C10_tree_weights_sum_to_initial_weight : forall fuel (st : list nodeR) base (h : histR),
  0 <= base -> wf_stack (S fuel) st -> ok fuel st 0 h ->
  vsum ROps (weights ROps fuel st base 0 h) = base
  /\ Forall (fun w => 0 <= w) (weights ROps fuel st base 0 h).
Proof.
  intros fuel st base h Hb Hwf Hok. split.
  - rewrite (weights_total fuel st base 0 h Hwf Hok ltac:(lia)). unfold rem.
    destruct st; [lra|]. unfold sum_range. cbn. lra.
  - apply weights_nonneg; try assumption. lia.
Qed.
Print Assumptions C10_tree_weights_sum_to_initial_weight.

(* the general form: a trajectory whose index stands at iz, together with everything it will
   still spawn, carries base * (1 - sum of the dw already crossed): that is the parent's
   remaining marginal weight, and each child carries base * dw * ratio / spawn_size *)
Theorem C10_parent_keeps_marginal_weight : forall fuel (st : list nodeR) base iz (h : histR),
  wf_stack (S fuel) st -> ok fuel st iz h -> (iz <= length st)%nat ->
  vsum ROps (weights ROps fuel st base iz h) = base * rem st iz
  /\ marginal ROps st iz = rem st iz.
Proof.
  intros. split; [apply weights_total; assumption | eapply marginal_rem; eassumption].
Qed.
Print Assumptions C10_parent_keeps_marginal_weight.

(* a spawn stack built from quadrature sizes: flattened weights = product over the levels
   of the rule's weight sum (= 1 for rules on [0,1], C18) *)
Theorem C10_quadrature_stack_weights : forall (levels : list (list R * list R)) mcs,
  levels <> [] -> Forall (fun lv => length (fst lv) = length (snd lv) /\ fst lv <> []) levels ->
  vsum ROps (map snd (leaves ROps (length levels) (build levels mcs))) = level_prod levels.
Proof. exact stack_weights_product. Qed.
Print Assumptions C10_quadrature_stack_weights.

(* PARTIAL: "the parent itself is left unchanged" and "a child shares no state with the
   parent" are Python aliasing facts; the harness watches the real objects. *)

Example C10_witness :
  let st := [Node (1/4) (1/2) [] 1%nat; Node (3/4) (1/2) [] 1%nat] in
  wf_stack 3 st /\ ok 2 st 0 (Hist [(1%nat, [(1, [Hist []])])]).
Proof.
  cbv zeta. split.
  - right. split; [repeat constructor; cbn; lra|]. split; [cbn; lra|].
    repeat constructor; cbn; auto.
  - cbn. repeat split; try lra; repeat constructor; cbn; try lra; auto.
Qed.

(* ---- the assembled even-sampling pass (Model/Traj.step_es: the loop body of simulate() with EvenSamplingTrajectory.hopper /
   hop_to_it and a non-empty stack; tied to whole passes of real runs by Run/RTraj.chkES) ---- *)

(* the parent is left unchanged by spawning: it never hops, takes the Verlet pass and the exponential step, keeps its stack
   and base weight, and its threshold index never moves back *)
Theorem C10_full_step_parent_unchanged :
  forall n m dt (e0 e1 : elec (T:=R)) lam Cm (s s' : estate (T:=R)) kids G,
  step_es ROps n m dt e0 e1 lam Cm s = (s', kids, G) ->
  let b := eb s in
  let f0 := nth (pact b) (eforce e0) [] in let f1 := nth (pact b) (eforce e1) [] in
  pact (eb s') = pact b /\ ptime (eb s') = ptime b + dt
  /\ px (eb s') = advance_position ROps m (px b) (pv b) f0 dt
  /\ pv (eb s') = advance_velocity ROps m (pv b) f0 f1 dt
  /\ prho (eb s') = exp_step ROps n lam Cm dt (prho b)
  /\ est s' = est s /\ ebase s' = ebase s /\ (eiz s <= eiz s')%nat.
Proof. exact step_es_parent. Qed.
Print Assumptions C10_full_step_parent_unchanged.

(* one pass conserves the statistical weight, whatever the electronics, for any well-formed stack, any number of thresholds
   crossed in the pass, any number of states and any spawn_size: the base weights of the children spawned in the pass plus
   the weight the parent keeps equal the weight the parent held (children need a non-zero total rate) *)
Theorem C10_full_step_weight_conserved :
  forall n m dt (e0 e1 : elec (T:=R)) lam Cm (s s' : estate (T:=R)) kids G d,
  step_es ROps n m dt e0 e1 lam Cm s = (s', kids, G) ->
  wf_stack (S d) (est s) -> (eiz s <= length (est s))%nat ->
  (eiz s' <> eiz s -> G <> 0) ->
  vsum ROps (map (fun k => ebase k) kids) + es_weight ROps s' = es_weight ROps s.
Proof. exact step_es_weight_conserved. Qed.
Print Assumptions C10_full_step_weight_conserved.

(* ... and over ANY number of passes of one trajectory (Model/Traj.run_es): everything it has handed to children so far plus
   what it still holds is what it started with.  es_rates_ok says that a pass in which the index moves has a non-zero total
   rate (the code divides by it) *)
Theorem C10_full_run_weight_conserved :
  forall n m dt (ds : list (sdata (T:=R))) d (s sf : estate (T:=R)) kids,
  run_es ROps n m dt ds s = (sf, kids) ->
  wf_stack (S d) (est s) -> (eiz s <= length (est s))%nat -> es_rates_ok n m dt ds s ->
  vsum ROps (map (fun k => ebase k) kids) + es_weight ROps sf = es_weight ROps s.
Proof. intros n m dt ds d s sf kids H1 H2 H3 H4. exact (run_es_weight_conserved n m dt ds d s sf kids H1 H2 H3 H4). Qed.
Print Assumptions C10_full_run_weight_conserved.

(* non-vacuity: a two-node stack with weights 1/4 and 3/4 is well formed *)
Definition C10_es_stack : list (node (T:=R)) := [Node (/ 4) (/ 4) [] 1; Node (3 / 4) (3 / 4) [] 2].
Example C10_es_witness : wf_stack 1 C10_es_stack /\ (0 <= length C10_es_stack)%nat.
Proof.
  split; [|cbn; lia]. unfold C10_es_stack. cbn. right. repeat split.
  - repeat constructor; cbn; lra.
  - lra.
  - repeat constructor; cbn; lia.
Qed.
