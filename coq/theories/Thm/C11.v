(* Thm/C11.v — property C11: A-FSSH moments stay Hermitian and are re-centred correctly.
   Model: Model/Afssh.v (one nuclear dimension at a time; eigh(W) is an oracle whose answer
   enters as data — Hermiticity needs NO property of it); proofs: Proof/AfsshP.v. *)
From Coq Require Import Reals List Lra Lia.
From MV Require Import Ops RInst Vec Cplx Mat CRing MatP Propagate PropagateP Rk4P Afssh AfsshP CollapseP Traj TrajP TrajAP WmidP.
Import ListNotations.
Open Scope R_scope.

(* position moments, both integrators: Hermitian in, Hermitian out — any n, any eigh answer *)
Theorem C11_delR_stays_hermitian : forall n eps co Hm dt mass (dR dP : mat (T:=R)),
  mherm n dR -> mherm n dP ->
  mherm n (delR_exp ROps n eps co dt mass dR dP)
  /\ (mherm n Hm -> mherm n (delR_rk4 ROps n Hm dt mass dR dP)).
Proof. intros. split; [apply delR_exp_herm | intros; apply delR_rk4_herm]; assumption. Qed.
Print Assumptions C11_delR_stays_hermitian.

(* momentum moments, both integrators; the 'exp' form needs pps(conj z) = conj pps(z) (C20) *)
Theorem C11_delP_stays_hermitian : forall n eps co Hm dt (dP dF rho : mat (T:=R)),
  mherm n dP -> mherm n dF -> mherm n rho ->
  mherm n (delP_exp ROps n eps co dt dP dF rho)
  /\ (mherm n Hm -> mherm n (delP_rk4 ROps n Hm dt dP dF rho)).
Proof. intros. split; [apply delP_exp_herm | intros; apply delP_rk4_herm]; assumption. Qed.
Print Assumptions C11_delP_stays_hermitian.

(* the force-difference matrix used there is Hermitian when the force matrix is symmetric *)
Theorem C11_delF_hermitian : forall n fmx f0,
  (forall i j, (i < n)%nat -> (j < n)%nat -> nth j (nth i fmx []) (o0 ROps) = nth i (nth j fmx []) (o0 ROps)) ->
  mherm n (delF ROps n fmx f0).
Proof. exact delF_herm. Qed.
Print Assumptions C11_delF_hermitian.

(* accepted hop to state t: every diagonal element loses the new active state's diagonal, so
   that diagonal vanishes, all differences of diagonal elements and all off-diagonal elements
   are unchanged — for hops to ANY target index (the view-aliasing defect broke this for
   states above the target) — and Hermiticity is kept *)
Theorem C11_hop_recentres_moments : forall n t (M : mat (T:=R)), (t < n)%nat ->
  mget ROps (hop_shift ROps n t M) t t = c0 ROps
  /\ (forall i j, (i < n)%nat -> (j < n)%nat ->
        csub ROps (mget ROps (hop_shift ROps n t M) i i) (mget ROps (hop_shift ROps n t M) j j)
        = csub ROps (mget ROps M i i) (mget ROps M j j))
  /\ (forall i j, (i < n)%nat -> (j < n)%nat -> i <> j -> mget ROps (hop_shift ROps n t M) i j = mget ROps M i j)
  /\ (mherm n M -> mherm n (hop_shift ROps n t M)).
Proof.
  intros n t M Ht. destruct (hop_shift_recentres n t M Ht) as [A [B C]].
  repeat split; try assumption. intros; apply hop_shift_herm; assumption.
Qed.
Print Assumptions C11_hop_recentres_moments.

(* collapse: the density matrix becomes the pure active state (Hermitian, rho^2 = rho, trace 1)
   and the moments are zero; moments also start at zero (zero_mat) *)
Theorem C11_collapse : forall n k, (k < n)%nat ->
  mherm n (collapse_rho ROps n k) /\ mpure n (collapse_rho ROps n k) /\ mtrace ROps n (collapse_rho ROps n k) = c1 ROps
  /\ (forall i j, (i < n)%nat -> (j < n)%nat -> mget ROps (zero_mat ROps n) i j = c0 ROps).
Proof. exact collapse_state. Qed.
Print Assumptions C11_collapse.

(* the collapse decision (Model/Afssh.gamma_collapse, collapse_scan; tied to gamma_collapse() and the loop in
   surface_hopping by Run/R11.chkG/chkS): the active state's own rate is exactly zero; the loop draws exactly one
   uniform per non-active state whatever it decides; without a positive rate nothing collapses; a collapse leaves
   the pure active state and zero moments *)
Theorem C11_collapse_decision : forall n (dR dP F : list (list R)) k dt (gam us : list R) rho (dRs dPs : list (mat (T:=R))),
  (k < n)%nat ->
  nth k (gamma_collapse ROps n dR dP F k dt) 0 = 0
  /\ ((k < length gam)%nat -> (length gam - 1 <= length us)%nat ->
        length (snd (collapse_scan ROps gam k 0 us)) = (length us - (length gam - 1))%nat)
  /\ ((forall j g, nth_error gam j = Some g -> j <> k -> g <= 0) -> Forall (fun e => 0 <= e) us ->
        fst (collapse_scan ROps gam k 0 us) = false)
  /\ collapse_apply ROps n k true rho dRs dPs
       = (collapse_rho ROps n k, map (fun _ => zero_mat ROps n) dRs, map (fun _ => zero_mat ROps n) dPs).
Proof.
  intros n dR dP F k dt gam us rho dRs dPs Hk. split; [apply gamma_self_zero; exact Hk|]. split.
  - intros Hg Hu. apply collapse_scan_consumes; [cbn; split; [apply Nat.le_0_l | exact Hg] | exact Hu].
  - split; [|reflexivity]. intros Hg Hu. apply collapse_scan_none; [|exact Hu]. intros j g Hj Hne. apply (Hg j g Hj). cbn in Hne. exact Hne.
Qed.
Print Assumptions C11_collapse_decision.

(* the assembled A-FSSH pass (Model/Traj.step_af: delR with the previous pass's propagator, delP with this pass's
   propagator and the density matrix before propagation, hop along Re(delP_ss - delP_tt) with re-centring, collapse;
   tied to real A-FSSH runs by Run/RTraj.chkA): both moment families and the density matrix are Hermitian after the
   pass whatever the hop and collapse decisions *)
Theorem C11_full_step_hermitian :
  forall n m dt poisson zeta (eprev e0 e1 : elec (T:=R)) fm1 epsR coR lam Cm etas (s s' : astate (T:=R)) att coll,
  step_af ROps n m dt poisson zeta eprev e0 e1 fm1 epsR coR lam Cm etas s = (s', att, coll) ->
  length lam = n -> unitary n (mget ROps Cm) -> (pact (ab s) < n)%nat ->
  (forall t, att = Some (t, true) -> (t < n)%nat) ->
  Forall (fun fmx => forall i j, (i < n)%nat -> (j < n)%nat -> nth j (nth i fmx []) (o0 ROps) = nth i (nth j fmx []) (o0 ROps)) fm1 ->
  Forall (mherm n) (adelR s) -> Forall (mherm n) (adelP s) -> mherm n (prho (ab s)) ->
  Forall (mherm n) (adelR s') /\ Forall (mherm n) (adelP s') /\ mherm n (prho (ab s')).
Proof. intros. eapply step_af_hermitian; eassumption. Qed.
Print Assumptions C11_full_step_hermitian.

(* ... and therefore "at all times": any number of A-FSSH passes (Model/Traj.run_af), each with its own thresholds,
   electronics, eigh answers and uniforms, provided every accepted hop target is a state index *)
Theorem C11_full_run_hermitian : forall n m dt poisson (ds : list (adata (T:=R))) (s sf : astate (T:=R)) evs,
  run_af ROps n m dt poisson ds s = (sf, evs) ->
  Forall (af_ok n) ds -> (pact (ab s) < n)%nat ->
  Forall (fun ev => forall t, fst ev = Some (t, true) -> (t < n)%nat) evs ->
  Forall (mherm n) (adelR s) -> Forall (mherm n) (adelP s) -> mherm n (prho (ab s)) ->
  Forall (mherm n) (adelR sf) /\ Forall (mherm n) (adelP sf) /\ mherm n (prho (ab sf)) /\ (pact (ab sf) < n)%nat.
Proof. intros. eapply run_af_hermitian; eassumption. Qed.
Print Assumptions C11_full_run_hermitian.

(* PARTIAL: agreement of the two moment integrators as dt -> 0 (both solve the same linear
   ODE; exp exactly for a frozen generator, rk4 to fourth order) is not mechanised; measured. *)
Example C11_witness : mherm 2 (zero_mat ROps 2).
Proof. intros i j Hi Hj. unfold fadj, zero_mat. rewrite (mget_mmk 2 2 _ j i Hj Hi), (mget_mmk 2 2 _ i j Hi Hj). apply cconj_0. Qed.

(* the assembled A-FSSH pass with augmented_integration = "rk4" (Model/Traj.step_af_rk4: four RK4 sub-steps with the propagator
   matrices themselves, the previous pass's for delR and this pass's for delP; tied to real runs by Run/RTraj.chkAr) - "both
   moment-integration options": moments and density matrix are Hermitian after the pass whatever the hop and collapse decisions *)
Theorem C11_full_step_rk4_hermitian :
  forall n m dt poisson zeta (eprev e0 e1 : elec (T:=R)) fm1 lam Cm etas (s s' : astate (T:=R)) att coll,
  step_af_rk4 ROps n m dt poisson zeta eprev e0 e1 fm1 lam Cm etas s = (s', att, coll) ->
  mherm n (Wmid ROps n (eH eprev) (eH e0) (etau eprev) (etau e0) (pv (ab s)) (alastv s)) ->
  (forall v1, mherm n (Wmid ROps n (eH e0) (eH e1) (etau e0) (etau e1) v1 (pv (ab s)))) ->
  length lam = n -> unitary n (mget ROps Cm) -> (pact (ab s) < n)%nat ->
  (forall t, att = Some (t, true) -> (t < n)%nat) ->
  Forall (fun fmx => forall i j, (i < n)%nat -> (j < n)%nat -> nth j (nth i fmx []) (o0 ROps) = nth i (nth j fmx []) (o0 ROps)) fm1 ->
  Forall (mherm n) (adelR s) -> Forall (mherm n) (adelP s) -> mherm n (prho (ab s)) ->
  Forall (mherm n) (adelR s') /\ Forall (mherm n) (adelP s') /\ mherm n (prho (ab s')).
Proof.
  intros n m dt poisson zeta eprev e0 e1 fm1 lam Cm etas s s' att coll H1 H2 H3 H4 H5 H6 H7 H8 H9 H10 H11.
  exact (step_af_rk4_hermitian n m dt poisson zeta eprev e0 e1 fm1 lam Cm etas s s' att coll H1 H2 H3 H4 H5 H6 H7 H8 H9 H10 H11).
Qed.
Print Assumptions C11_full_step_rk4_hermitian.

(* ... the same under primitive hypotheses - symmetric Hamiltonians and coupling tensors antisymmetric in the state indices at
   the three positions a pass touches, which is what every electronics object provides (C05) - and lifted to ANY number of
   passes with rk4 moments (Model/Traj.run_af_rk4) *)
Theorem C11_full_run_rk4_hermitian : forall n m dt poisson (ds : list (adata (T:=R))) (s sf : astate (T:=R)) evs,
  run_af_rk4 ROps n m dt poisson ds s = (sf, evs) ->
  Forall (af_rk_ok n) ds -> (pact (ab s) < n)%nat ->
  Forall (fun ev => forall t, fst ev = Some (t, true) -> (t < n)%nat) evs ->
  Forall (mherm n) (adelR s) -> Forall (mherm n) (adelP s) -> mherm n (prho (ab s)) ->
  Forall (mherm n) (adelR sf) /\ Forall (mherm n) (adelP sf) /\ mherm n (prho (ab sf)) /\ (pact (ab sf) < n)%nat.
Proof.
  intros n m dt poisson ds s sf evs H1 H2 H3 H4 H5 H6 H7.
  exact (run_af_rk4_hermitian n m dt poisson ds s sf evs H1 H2 H3 H4 H5 H6 H7).
Qed.
Print Assumptions C11_full_run_rk4_hermitian.

(* non-vacuity of the per-pass hypotheses: a symmetric 2x2 Hamiltonian and an antisymmetric two-component coupling tensor *)
Example C11_rk4_witness : hsym 2 [[1; 2]; [2; 3]] /\ tanti 2 [[[0; 0]; [1; -2]]; [[-1; 2]; [0; 0]]].
Proof.
  split.
  - intros i j Hi Hj. destruct i as [|[|i]]; destruct j as [|[|j]]; try lia; reflexivity.
  - intros i j Hi Hj. destruct i as [|[|i]]; destruct j as [|[|j]]; try lia; cbn; repeat f_equal; lra.
Qed.
