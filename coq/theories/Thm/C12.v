(* Thm/C12.v — property C12: reproducibility and stream independence.  Model: Model/Rng.v;
   proofs: Proof/GeneratorsP.v.  The model is a function of (inputs, thresholds, oracle answers),
   so repeating a run repeats the result; what needs proof is the seed/threshold bookkeeping. *)
From Coq Require Import List Lia Arith.
From MV Require Import Rng GeneratorsP.
Import ListNotations.

(* trajectory i of a batch gets child key parent ++ [c+i] whatever the batch size: requesting
   more trajectories does not change the stream of trajectory i *)
Theorem C12_child_stream_independent_of_batch_size : forall s n n' i, i < n -> i < n' ->
  nth_error (fst (spawn s n)) i = nth_error (fst (spawn s n')) i.
Proof. intros. rewrite !spawn_child_key by assumption. reflexivity. Qed.
Print Assumptions C12_child_stream_independent_of_batch_size.

Theorem C12_batch_streams_distinct : forall s n, NoDup (map skey (fst (spawn s n))).
Proof. exact spawn_keys_nodup. Qed.
Print Assumptions C12_batch_streams_distinct.

(* successive spawns (even-sampling clones: spawn(1) each time) never repeat a key *)
Theorem C12_successive_spawns_fresh : forall s n1 n2 k,
  In k (map skey (fst (spawn s n1))) -> ~ In k (map skey (fst (spawn (snd (spawn s n1)) n2))).
Proof.
  intros s n1 n2 k H1 H2. unfold spawn in *. cbn [fst snd skey nspawned] in *.
  rewrite map_map in H1, H2. cbn [skey] in *.
  apply in_map_iff in H1. destruct H1 as [a [<- Ha]]. apply in_map_iff in H2. destruct H2 as [b [E Hb]].
  apply in_seq in Ha. apply in_seq in Hb. apply app_inv_head in E. injection E. lia.
Qed.
Print Assumptions C12_successive_spawns_fresh.

(* user-supplied thresholds are consumed in the order given before any generator number *)
Theorem C12_thresholds_in_order : forall (A : Type) (zl st : list A) k, k <= length zl + length st ->
  draws zl st k = firstn k (zl ++ st).
Proof. intros. apply draws_order. assumption. Qed.
Print Assumptions C12_thresholds_in_order.

(* PARTIAL: bit-for-bit repeatability of numpy/LAPACK and "a clone shares no mutable state"
   are run-time facts; the harness runs everything twice and watches clones. *)
Example C12_witness : fst (spawn (mkSS [7] 2) 2) = [mkSS [7; 2] 0; mkSS [7; 3] 0].
Proof. reflexivity. Qed.
