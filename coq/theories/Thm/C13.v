(* Thm/C13.v — property C13: restarting from a log reproduces the uninterrupted trajectory.
   Model: Model/Restart.v (+ Stopping.v); proofs: Proof/RestartP.v.  The electronic part of the
   state (density matrix, tracked sign convention) is carried opaquely: what must be shown is
   that restart() recovers EVERY field the step function reads, from the last two snapshots. *)
From Coq Require Import Reals List Lra Lia.
From MV Require Import Ops RInst Vec Cplx Mat Restart RestartP Stopping StoppingP.
From MV Require Traj TrajP MD MDP.
Import ListNotations.
Open Scope R_scope.

(* For any deterministic step function that (as the code does) stores the previous velocity
   and counts its steps, any masses <> 0, any interruption point k >= 1: the state rebuilt by
   restart() from the log of the first k steps is exactly the state after k steps — position,
   velocity, previous velocity, density matrix, active state, tracked sign convention, time,
   step count — so continuing for n more steps gives the state of the uninterrupted run. *)
Theorem C13_restart_resumes : forall (Rho Ref : Type) (m : list R)
    (step : tstate (T:=R) (Rho:=Rho) (Ref:=Ref) -> tstate),
  (forall s, lastvel (step s) = vel s) -> (forall s, nsteps (step s) = S (nsteps s)) ->
  (forall s, length (vel s) = length m -> length (vel (step s)) = length m) ->
  Forall (fun mi => mi <> 0) m ->
  forall k n s0 d, (1 <= k)%nat -> nsteps s0 = 0%nat -> length (vel s0) = length m ->
  let lg := log_of m step k s0 in
  run step n (restore ROps m (nth (k - 1) lg d) (nth k lg d) (length lg)) = run step (k + n) s0.
Proof. intros. apply restart_resumes; assumption. Qed.
Print Assumptions C13_restart_resumes.

(* the restarted loop stops at the same step: with n0 = k, t0 = t_k and no box, its stopping
   condition at local index j is the original's at index k + j, so by C16 (first index
   satisfying the condition, in both runs) it ends at the same global step, and by C16's
   schedule it appends exactly the snapshots k < j <= K of the uninterrupted run *)
Theorem C13_same_stopping_step : forall (c : cfg (T:=R)) t0 posf k j, box c = None ->
  stopP c k (tk c t0 k) (fun i => posf (k + i)%nat) j <-> stopP c 0 t0 posf (k + j).
Proof. exact stopP_shift. Qed.
Print Assumptions C13_same_stopping_step.

(* for the concrete loop (Model/Traj.run): running the first k passes, then the remaining ones from the state reached,
   is the uninterrupted run - same final state, attempt records concatenated.  Together with C13_restart_resumes
   (the restored object *is* the state reached) this is the restart statement for TrajectorySH *)
Theorem C13_full_run_splits : forall n m dt poisson (ds1 ds2 : list (Traj.sdata (T:=R))) (s : Traj.tstate (T:=R)),
  Traj.run ROps n m dt poisson (ds1 ++ ds2) s =
  let '(s1, a1) := Traj.run ROps n m dt poisson ds1 s in
  let '(s2, a2) := Traj.run ROps n m dt poisson ds2 s1 in (s2, a1 ++ a2).
Proof. intros. apply TrajP.run_app. Qed.
Print Assumptions C13_full_run_splits.

(* PARTIAL: the YAML text round trip of the logged numbers is PyYAML's contract (oracle);
   dt inferred as t_k - t_{k-1} equals dt only up to rounding. *)
Example C13_witness : Forall (fun mi : R => mi <> 0) [1; 2000].
Proof. repeat constructor; lra. Qed.

(* the assembled MD loop (Model/MD.md_run, tied to whole real AdiabaticMD runs by Run/RMD.chkM): N1 + N2 passes are N1 passes
   followed by N2 passes from the state reached - position, velocity and clock are all a pass reads, so a run resumed from
   them at ANY interruption point reproduces the uninterrupted one *)
Theorem C13_md_run_splits : forall (F : list R -> list R) m dt N1 N2 s,
  MD.md_run ROps F m dt (N1 + N2) s = MD.md_run ROps F m dt N2 (MD.md_run ROps F m dt N1 s).
Proof. intros. apply MDP.md_run_app. Qed.
Print Assumptions C13_md_run_splits.
