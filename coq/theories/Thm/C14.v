(* Thm/C14.v — property C14: trace stores return exactly what was recorded.
   Model: Model/TraceStore.v; proofs: Proof/TraceStoreP.v.  The YAML store's paging
   (collect / __getitem__ / __iter__ / __len__ / reload arithmetic) refines a plain list
   (= the in-memory store) for every page size >= 1 and every sequence of snapshots. *)
From Coq Require Import ZArith List Bool Arith Lia.
From MV Require Import TraceStore TraceStoreP.
Import ListNotations.

(* every reachable YAML store (any pitch >= 1, any snapshot sequence, any element type)
   observes exactly like the list of recorded snapshots: length, iteration, indexing with
   non-negative and negative indices (None = IndexError in both), and a reload computes the
   same size, including lengths that are exact multiples of the page size *)
Theorem C14_yaml_store_refines_list : forall (A : Type) (p : nat) (xs : list A), 1 <= p ->
  let s := fold_left collect xs (init_store p) in
  len s = length xs
  /\ iter s = xs
  /\ (forall i : Z, getitem s i = mem_getitem xs i)
  /\ reload s = s.
Proof.
  intros A p xs Hp s. pose proof (inv_collects p xs Hp) as H. fold s in H.
  repeat split.
  - apply inv_len; exact H.
  - apply inv_iter; exact H.
  - intros i. apply inv_getitem; exact H.
  - eapply inv_reload; exact H.
Qed.
Print Assumptions C14_yaml_store_refines_list.

(* appending after a reload continues seamlessly: reload is the identity on reachable stores,
   so collect-after-reload = collect *)
Theorem C14_reload_then_append : forall (A : Type) (p : nat) (xs ys : list A), 1 <= p ->
  fold_left collect ys (reload (fold_left collect xs (init_store p))) = fold_left collect (xs ++ ys) (init_store p).
Proof.
  intros A p xs ys Hp. rewrite fold_left_app.
  rewrite (inv_reload _ xs (inv_collects p xs Hp)). reflexivity.
Qed.
Print Assumptions C14_reload_then_append.

(* the in-memory indexing rule is Python's: i < 0 means length + i *)
Theorem C14_negative_index : forall (A : Type) (xs : list A) (j : nat), 1 <= j <= length xs ->
  mem_getitem xs (- Z.of_nat j) = nth_error xs (length xs - j).
Proof.
  intros A xs j Hj. unfold mem_getitem.
  replace (- Z.of_nat j <? 0)%Z with true by (symmetry; apply Z.ltb_lt; lia).
  replace ((Z.of_nat (length xs) + - Z.of_nat j <? 0)%Z || (Z.of_nat (length xs) <=? Z.of_nat (length xs) + - Z.of_nat j)%Z) with false
    by (symmetry; apply orb_false_iff; split; [apply Z.ltb_ge | apply Z.leb_gt]; lia).
  f_equal. lia.
Qed.
Print Assumptions C14_negative_index.

(* new traces never reuse a name: find_unique_name returns the least unused index *)
Theorem C14_unique_name_fresh_and_least : forall fuel used i,
  (exists k, k < fuel /\ used (i + k) = false) ->
  used (find_unique fuel used i) = false
  /\ (forall j, i <= j -> j < find_unique fuel used i -> used j = true).
Proof.
  intros fuel used i H. split; [apply find_unique_fresh; exact H | intros j; apply find_unique_least].
Qed.
Print Assumptions C14_unique_name_fresh_and_least.

(* PARTIAL: clone independence and init-never-overwrites are exercised against the real
   directory by the correspondence run (Model/TraceStore.y_clone, y_init vs the files on
   disk after every operation) but not stated as theorems; exactness of the YAML text
   round trip of floats is PyYAML's contract (oracle), checked with adversarial floats. *)

Example C14_witness : getitem (fold_left collect [10; 11; 12; 13] (init_store 2)) (-1)%Z = Some 13
  /\ pages (fold_left collect [10; 11; 12; 13] (init_store 2)) = [[10; 11]; [12; 13]].
Proof. split; reflexivity. Qed.
