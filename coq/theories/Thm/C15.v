(* Thm/C15.v — property C15: a YAML log stays loadable after a crash between any two
   file operations.  Model: Model/Crash.v (+ TraceStore); proofs: Proof/CrashP.v.
   States are taken after each completed file operation of collect(); a crash inside an
   operation (file opened/truncated, nothing written) is covered by the injection run. *)
From Coq Require Import List Arith Lia.
From MV Require Import TraceStore TraceStoreP Crash CrashP.
Import ListNotations.

(* For every page size >= 1, every snapshot sequence, and every state the directory passes
   through while the (k+1)-th snapshot is being recorded (k snapshots completed): what
   load_log reads is a prefix of the recorded snapshots, of length k or k+1 — in order, and at
   most the snapshot being written is missing. *)
Theorem C15_crash_leaves_loadable_prefix : forall (A : Type) (p : nat) (xs : list A) (k : nat) (d : disk),
  1 <= p -> In (k, d) (visited (init_store p) 0 xs) ->
  exists n, (n = k \/ n = S k) /\ load d = firstn n xs /\ k < length xs.
Proof.
  intros A p xs k d Hp Hin.
  destruct (visited_prefix xs (init_store p) [] 0 k d (inv_init p Hp) eq_refl Hin) as [n [Hn [L Hk]]].
  exists n. split; [exact Hn|]. split; [exact L | cbn in Hk; lia].
Qed.
Print Assumptions C15_crash_leaves_loadable_prefix.

(* once the first snapshot has been recorded the loaded prefix is non-empty *)
Theorem C15_at_least_completed_snapshots : forall (A : Type) (p : nat) (xs : list A) (k : nat) (d : disk),
  1 <= p -> In (k, d) (visited (init_store p) 0 xs) -> k <= length (load d) <= S k.
Proof.
  intros A p xs k d Hp Hin.
  destruct (C15_crash_leaves_loadable_prefix A p xs k d Hp Hin) as [n [Hn [L Hk]]].
  rewrite L, firstn_length. destruct Hn as [->| ->]; lia.
Qed.
Print Assumptions C15_at_least_completed_snapshots.

Example C15_witness : In (2, mkDisk 1 [[7; 8]; [9]]) (visited (init_store 2) 0 [7; 8; 9])
  /\ load (mkDisk 1 [[7; 8]; [9]]) = [7; 8].
Proof. split; [cbn; auto 10 | reflexivity]. Qed.
