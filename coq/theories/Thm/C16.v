(* Thm/C16.v — property C16: trajectories stop exactly when specified and log a
   consistent timeline.  Model: Model/Stopping.v; proofs: Proof/StoppingP.v.
   stopP c n0 t0 pos k  :=  step limit reached at global step n0+k
                          \/ time t0 + k dt >= max_time (or within 1e-8 of it)
                          \/ (inside the box at some earlier check /\ outside now). *)
From Coq Require Import Reals List Lia Lra Bool Arith ZArith.
From MV Require Import Ops RInst Vec Stopping StoppingP.
From MV Require MD MDP.
Import ListNotations.
Open Scope R_scope.

(* For every configuration, every position sequence and any fuel for which the loop returns:
   either a limit is already met at the start and nothing is logged, or the run performs
   exactly K >= 1 steps where K is the FIRST check index satisfying the stopping condition
   (never earlier: stopP fails for all j < K; never later: stopP K), and the log is the initial
   condition (unless restarting), every step whose global index is a multiple of trace_every,
   and the final state exactly once, at times t0 + k dt. *)
Theorem C16_stops_at_first_and_log_schedule :
  forall (c : cfg (T:=R)) (n0 : nat) (t0 : R) (pos : nat -> list R) (fuel : nat) (restarting : bool) log N,
  simulate ROps fuel c restarting n0 t0 pos = Some (log, N) ->
  (stopP c n0 t0 pos 0 /\ log = [] /\ N = n0)
  \/ (~ stopP c n0 t0 pos 0 /\ exists K, (0 < K)%nat /\ N = (n0 + K)%nat /\ stopP c n0 t0 pos K
        /\ (forall j, (j < K)%nat -> ~ stopP c n0 t0 pos j)
        /\ log = (if negb restarting && logs c n0 then [(n0, t0)] else [])
                 ++ sched c n0 t0 0 K ++ [(N, tk c t0 K)]).
Proof. intros. eapply simulate_spec; eassumption. Qed.
Print Assumptions C16_stops_at_first_and_log_schedule.

(* the intermediate entries are exactly the steps 0 < j < K with (n0+j) mod trace_every = 0,
   each logged once with time t0 + j dt; times are strictly increasing when dt > 0 *)
Theorem C16_schedule_entries : forall (c : cfg (T:=R)) n0 t0 k K e,
  In e (sched c n0 t0 k K) ->
  exists j, (k < j < K)%nat /\ e = ((n0 + j)%nat, tk c t0 j) /\ logs c (n0 + j) = true.
Proof. intros. eapply sched_in; eassumption. Qed.
Print Assumptions C16_schedule_entries.

Theorem C16_times_strictly_increasing : forall (c : cfg (T:=R)) t0 j1 j2,
  0 < dt c -> (j1 < j2)%nat -> tk c t0 j1 < tk c t0 j2.
Proof. intros. apply tk_mono; assumption. Qed.
Print Assumptions C16_times_strictly_increasing.

(* snapshot self-consistency (energy = kinetic + potential, kinetic from the logged momentum,
   potential = active-state or mean-field energy) is definitional in snapshot(): it is
   checked on every logged snapshot of the real runs by the harness. *)

(* non-vacuity: the hypothesis is satisfiable (a run with max_steps = 2 returns) *)
Example C16_witness : exists log N,
  simulate ROps 10 (mkCfg 2%Z 100 1 1 None) false 0 0 (fun _ => []) = Some (log, N) /\ N = 2%nat.
Proof.
  assert (forall t, t <= 3 -> time_up ROps (mkCfg 2%Z 100 1 1 None) t = false) as Ht.
  { intros t Ht. unfold time_up. cbn [max_time oleb oabs osub ROps].
    apply orb_false_iff. split; apply Rleb_false.
    - lra.
    - unfold odec; cbn. unfold Rabs. destruct (Rcase_abs (t - 100)); lra. }
  unfold simulate, continue_sim. cbn [steps_up max_steps Z.of_nat Z.leb Z.compare andb].
  rewrite (Ht 0) by lra. cbn [loop continue_sim steps_up max_steps Z.of_nat Pos.of_succ_nat Pos.succ Z.leb Z.compare Pos.compare Pos.compare_cont andb inside box logs every dt oadd ROps negb].
  rewrite (Ht (0 + 1)) by lra.
  cbn. eexists. eexists. split; reflexivity.
Qed.

(* the clock of the assembled MD loop (Model/MD.md_run): after N passes it shows t0 + N dt, whatever the forces *)
Theorem C16_md_clock : forall (F : list R -> list R) m dt N s,
  MDP.tm (MD.md_run ROps F m dt N s) = MDP.tm s + INR N * dt.
Proof. intros. apply MDP.md_run_time. Qed.
Print Assumptions C16_md_clock.

(* the assembled single-surface MD run: the stopping rule and log schedule above with the positions of the assembled MD loop
   (Model/MD.md_run, tied to whole real AdiabaticMD runs by Run/RMD.chkM) as the position sequence - the run stops at the FIRST
   check index at which a limit is met for the positions the dynamics actually produces, and every logged time is the clock
   of the loop after that many passes *)
Theorem C16_md_simulate_assembled :
  forall (c : cfg (T:=R)) (n0 : nat) (F : list R -> list R) m (x v : list R) (t0 : R) (fuel : nat) (restarting : bool) log N,
  let pos := fun k => fst (MDP.xv (MD.md_run ROps F m (dt c) k (x, v, t0))) in
  simulate ROps fuel c restarting n0 t0 pos = Some (log, N) ->
  ((stopP c n0 t0 pos 0 /\ log = [] /\ N = n0)
   \/ (~ stopP c n0 t0 pos 0 /\ exists K, (0 < K)%nat /\ N = (n0 + K)%nat /\ stopP c n0 t0 pos K
        /\ (forall j, (j < K)%nat -> ~ stopP c n0 t0 pos j)
        /\ log = (if negb restarting && logs c n0 then [(n0, t0)] else [])
                 ++ sched c n0 t0 0 K ++ [(N, tk c t0 K)]))
  /\ (forall k, tk c t0 k = MDP.tm (MD.md_run ROps F m (dt c) k (x, v, t0))).
Proof.
  intros c n0 F m x v t0 fuel restarting log N pos H. split.
  - eapply simulate_spec; eassumption.
  - intros k. rewrite MDP.md_run_time. unfold tk. reflexivity.
Qed.
Print Assumptions C16_md_simulate_assembled.
