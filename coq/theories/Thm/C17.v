(* Thm/C17.v — property C17: batch outcome statistics.  Model: Model/Outcome.v;
   proofs: Proof/OutcomeP.v.  A finished trace is (weight, final active state,
   final x<0, number of hops), exactly what the harness reads from each real trace. *)
From Coq Require Import Reals List Lra Permutation Bool Arith.
From MV Require Import Ops RInst Vec Outcome OutcomeP.
Import ListNotations.
Open Scope R_scope.

Theorem C17_entries_in_unit_interval : forall (ts : list FT) i lr,
  Forall (fun t : FT => 0 <= fw t) ts -> 0 < wsum ROps ts -> 0 <= outcome_entry ROps ts i lr <= 1.
Proof. exact outcome_entry_unit. Qed.
Print Assumptions C17_entries_in_unit_interval.

(* the 2*nst entries sum to one, for any number of states, any number of traces, any weights
   with non-zero sum (one-dimensional models: every trace contributes one indicator) *)
Theorem C17_entries_sum_to_one : forall nst (ts : list FT),
  Forall (fun t : FT => (factive t < nst)%nat) ts -> wsum ROps ts <> 0 ->
  total_entries nst (outcome_entry ROps ts) = 1.
Proof. exact outcome_sums_to_one. Qed.
Print Assumptions C17_entries_sum_to_one.

Theorem C17_reordering_invariant : forall (ts ts' : list FT) i lr, Permutation ts ts' ->
  outcome_entry ROps ts i lr = outcome_entry ROps ts' i lr /\ counts_entry ROps ts i lr = counts_entry ROps ts' i lr.
Proof. intros. split; [apply outcome_perm | apply counts_perm]; assumption. Qed.
Print Assumptions C17_reordering_invariant.

(* agreement with the traces: the unweighted count is the number of traces that ended on
   state i on that side; with equal weights the table is count / number of traces *)
Theorem C17_counts_and_frequencies : forall (ts : list FT) i lr,
  counts_entry ROps ts i lr
    = INR (length (filter (fun t : FT => Nat.eqb (factive t) i && Bool.eqb (negb (fleft t)) lr) ts))
  /\ (forall w, w <> 0 -> ts <> [] -> Forall (fun t : FT => fw t = w) ts ->
        outcome_entry ROps ts i lr = counts_entry ROps ts i lr / INR (length ts)).
Proof. intros. split; [apply counts_is_count | intros; eapply outcome_equal_weights; eassumption]. Qed.
Print Assumptions C17_counts_and_frequencies.

Theorem C17_hop_histogram_unit : forall (ts : list FT) i,
  Forall (fun t : FT => 0 <= fw t) ts -> 0 < wsum ROps ts -> 0 <= hop_stat ROps ts i <= 1.
Proof. exact hop_stat_unit. Qed.
Print Assumptions C17_hop_histogram_unit.

Example C17_witness :
  let ts := [mkF 1 0%nat true 0%nat; mkF (1/2) 1%nat false 2%nat] in
  Forall (fun t : FT => 0 <= fw t) ts /\ 0 < wsum ROps ts /\ Forall (fun t : FT => (factive t < 2)%nat) ts.
Proof. cbn. repeat split; repeat constructor; cbn; lra. Qed.
