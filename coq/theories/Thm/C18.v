(* Thm/C18.v — property C18: quadrature rules (mudslide/integration.py).
   Model: Model/Quadrature.v; proofs: Proof/QuadratureP.v, Proof/SumR.v.
   mono_int a b k = (b^(k+1) - a^(k+1))/(k+1) = int_a^b x^k dx;
   moment pts wts k = sum_i w_i x_i^k. *)
From Coq Require Import Reals List Lia.
From Coquelicot Require Import Coquelicot.
From MV Require Import Ops RInst Vec Quadrature SumR QuadratureP SpawnStack SpawnStackP ClenshawP.
Open Scope R_scope.

Theorem C18_midpoint : forall (n : nat) (a b : R), (1 <= n)%nat -> a < b ->
  let x := midpoint_pts ROps n a b in let w := midpoint_wts ROps n a b in
  vsum ROps w = b - a
  /\ (forall wi, In wi w -> 0 < wi)
  /\ (forall i, (S i < n)%nat -> nth i x 0 < nth (S i) x 0)
  /\ (forall i, (i < n)%nat -> a < nth i x 0 < b)
  /\ moment ROps x w 0 = mono_int a b 0 /\ moment ROps x w 1 = mono_int a b 1.
Proof.
  intros n a b Hn Hab. cbv zeta. repeat split.
  - apply mid_sum_weights; assumption.
  - apply mid_weights_pos; assumption.
  - apply mid_nodes_increasing; assumption.
  - apply mid_nodes_inside; assumption.
  - apply mid_nodes_inside; assumption.
  - apply mid_moment0; assumption.
  - apply mid_moment1; assumption.
Qed.
Print Assumptions C18_midpoint.

(* trapezoid with n = m+1 points (m >= 1 intervals) *)
Theorem C18_trapezoid : forall (m : nat) (a b : R), (1 <= m)%nat -> a < b ->
  let n := S m in
  let x := trapezoid_pts ROps n a b in let w := trapezoid_wts ROps n a b in
  vsum ROps w = b - a
  /\ (forall wi, In wi w -> 0 < wi)
  /\ (forall i, (S i < n)%nat -> nth i x 0 < nth (S i) x 0)
  /\ (forall i, (i < n)%nat -> a <= nth i x 0 <= b)
  /\ moment ROps x w 0 = mono_int a b 0 /\ moment ROps x w 1 = mono_int a b 1.
Proof.
  intros m a b Hm Hab. cbv zeta. repeat split.
  - apply trap_sum_weights; assumption.
  - apply trap_weights_pos; assumption.
  - apply trap_nodes_increasing; assumption.
  - apply trap_nodes_inside; assumption.
  - apply trap_nodes_inside; assumption.
  - apply trap_moment0; assumption.
  - apply trap_moment1; assumption.
Qed.
Print Assumptions C18_trapezoid.

(* Simpson with n = 2m+1 points: exact through degree 3; nodes are the trapezoid nodes *)
Theorem C18_simpson : forall (m : nat) (a b : R), (1 <= m)%nat -> a < b ->
  let n := S (2 * m) in
  let x := simpson_pts ROps n a b in let w := simpson_wts ROps n a b in
  vsum ROps w = b - a
  /\ (forall wi, In wi w -> 0 < wi)
  /\ x = trapezoid_pts ROps n a b
  /\ (forall p, (p <= 3)%nat -> moment ROps x w p = mono_int a b p).
Proof.
  intros m a b Hm Hab. cbv zeta. repeat split.
  - apply simp_sum_weights; assumption.
  - apply simp_weights_pos; assumption.
  - intros p Hp. apply simp_moment; assumption.
Qed.
Print Assumptions C18_simpson.

(* Gauss-Legendre: numpy's leggauss(n) is an oracle (x, w) on [-1,1].  The code's
   affine map transfers exactness: whenever the reference rule integrates
   y |-> f(c y + mid) exactly on [-1,1] (for polynomial f of degree <= 2n-1 this is
   again a polynomial of the same degree), the mapped rule integrates f exactly on [a,b];
   weights scale by (b-a)/2 (so they sum to b-a when the reference weights sum to 2),
   stay positive, and node order / interior position is preserved. *)
Theorem C18_gauss_legendre_affine : forall (a b : R) (x w : list R), a < b ->
  (forall f : R -> R, (forall t, continuous f t) ->
     rule_sum x w (fun y => f ((b - a) / 2 * y + (a + b) / 2))
       = RInt (fun y => f ((b - a) / 2 * y + (a + b) / 2)) (-1) 1 ->
     rule_sum (gl_pts ROps x a b) (gl_wts ROps w a b) f = RInt f a b)
  /\ vsum ROps (gl_wts ROps w a b) = (b - a) / 2 * vsum ROps w
  /\ ((forall wi, In wi w -> 0 < wi) -> forall wi, In wi (gl_wts ROps w a b) -> 0 < wi)
  /\ (forall i, (S i < length x)%nat -> nth i x 0 < nth (S i) x 0 ->
        nth i (gl_pts ROps x a b) 0 < nth (S i) (gl_pts ROps x a b) 0)
  /\ (forall xi, In xi x -> -1 < xi < 1 -> a < (b - a) / 2 * xi + (a + b) / 2 < b).
Proof.
  intros a b x w Hab. repeat split.
  - intros f Hc H. apply gl_affine_exact; assumption.
  - apply gl_sum_weights.
  - apply gl_weights_pos; assumption.
  - intros i Hi Hlt. apply gl_nodes_order; assumption.
  - apply (gl_nodes_inside a b Hab x xi H H0).
  - apply (gl_nodes_inside a b Hab x xi H H0).
Qed.
Print Assumptions C18_gauss_legendre_affine.

(* degree of exactness transfers: a reference rule exact for every polynomial of degree <= d on
   [-1,1] (leggauss(n): d = 2n-1, oracle) gives a mapped rule that integrates every monomial
   t^k, k <= d, exactly on [a,b] (polynomials of degree <= d are closed under affine substitution) *)
Theorem C18_gauss_legendre_degree_of_exactness : forall (a b : R) (x w : list R) (d : nat), a < b ->
  (forall g, poly_le d g -> rule_sum x w g = RInt g (-1) 1) ->
  forall k, (k <= d)%nat ->
  rule_sum (gl_pts ROps x a b) (gl_wts ROps w a b) (fun t => t ^ k) = RInt (fun t => t ^ k) a b.
Proof. intros. apply (gl_exact_to_degree a b x w d); assumption. Qed.
Print Assumptions C18_gauss_legendre_degree_of_exactness.

(* a spawn stack built from quadrature sizes is the tensor product of the per-level rules: its
   flattened weights (products along root-to-leaf paths) sum to the product of the per-level
   weight sums — equal to one when every level is a rule on [0,1] (weights sum to b-a = 1) *)
Theorem C18_spawn_stack_is_tensor_product : forall (levels : list (list R * list R)) mcs,
  levels <> nil -> List.Forall (fun lv => length (fst lv) = length (snd lv) /\ fst lv <> nil) levels ->
  vsum ROps (map snd (SpawnStack.leaves ROps (length levels) (SpawnStack.build levels mcs))) = level_prod levels
  /\ (List.Forall (fun lv => vsum ROps (snd lv) = 1) levels -> level_prod levels = 1).
Proof.
  intros levels mcs Hne Hall. split; [apply stack_weights_product; assumption|].
  intros H1. clear Hne Hall. induction H1 as [|[pts wts] rest Hh _ IH]; cbn [level_prod]; [reflexivity|].
  cbn in Hh. rewrite Hh, IH. ring.
Qed.
Print Assumptions C18_spawn_stack_is_tensor_product.

(* Clenshaw-Curtis exactly as the code builds it (the vectors v and g of Waldvogel's construction, the inverse DFT
   written out as in Model/Quadrature.idft_re, the assembly cc_wts): the weights sum to b - a for EVERY n >= 3.
   (Roots-of-unity sums, a telescoping series and a parity split; Proof/ClenshawP.v.) *)
Theorem C18_clenshaw_curtis_weights_sum : forall (n : nat) (a b : R), (3 <= n)%nat ->
  vsum ROps (cc_wts ROps (idft_re ROps PI (cc_h ROps n)) a b) = b - a.
Proof. intros. apply cc_weights_sum. assumption. Qed.
Print Assumptions C18_clenshaw_curtis_weights_sum.

(* PARTIAL (not mechanised): that the Clenshaw-Curtis rule is exact for polynomials of degree <= n-1
   (validated per n against exact moments by the harness); numpy's ifft vs the written-out inverse DFT;
   leggauss itself (oracle). *)

Example C18_witness : (1 <= 3)%nat /\ (0:R) < 1.
Proof. split; [lia | apply Rlt_0_1]. Qed.
