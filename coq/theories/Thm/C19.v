(* Thm/C19.v — property C19: initial-condition generators.  Model: Model/Generators.v
   (+ Model/Rng.v for seeds); proofs: Proof/GeneratorsP.v.  rng.normal is an oracle. *)
From Coq Require Import Reals List Lra Lia.
From MV Require Import Ops RInst Vec Generators Rng GeneratorsP.
Import ListNotations.
Open Scope R_scope.

(* with scaling on, the kinetic energy per degree of freedom is exactly kT/2, for any masses,
   any temperature, any raw draw with non-zero kinetic energy *)
Theorem C19_boltzmann_scaled_kinetic_energy : forall (kt : R) (m p : list R),
  0 <= kt -> 0 < avg_ke ROps m p -> avg_ke ROps m (boltz_scale ROps kt m p) = 1 / 2 * kt.
Proof. exact boltzmann_scaled_ke. Qed.
Print Assumptions C19_boltzmann_scaled_kinetic_energy.

(* the width handed to the normal oracle for momentum i has variance m_i kT *)
Theorem C19_boltzmann_variance : forall kt (m : list R) i, 0 <= kt -> (i < length m)%nat -> 0 <= nth i m 0 ->
  nth i (boltz_sigma ROps kt m) 0 * nth i (boltz_sigma ROps kt m) 0 = nth i m 0 * kt.
Proof. exact boltz_sigma_sq. Qed.
Print Assumptions C19_boltzmann_variance.

(* constant generator: exactly n identical initial conditions, the i-th carrying child seed i *)
Theorem C19_constant_generator : forall (A : Type) n (ic : A),
  length (const_gen n ic) = n /\ forall i, (i < n)%nat -> nth_error (const_gen n ic) i = Some (i, ic).
Proof. intros. apply const_gen_spec. Qed.
Print Assumptions C19_constant_generator.

(* normal generator: widths sigma/2 and 1/sigma; every yielded momentum is >= 0 in every
   component; the yielded samples are the accepted draws, in order, each with its own seed index *)
Theorem C19_normal_generator : forall sigma draws j x k,
  normal_widths ROps sigma = (sigma / 2, 1 / sigma)
  /\ (In (j, x, k) (normal_gen ROps 0 draws) ->
      Forall (fun ki => 0 <= ki) k /\ (j < length draws)%nat /\ nth_error draws j = Some (x, k)).
Proof.
  intros. split; [apply normal_widths_R|]. intros H.
  destruct (normal_gen_spec draws 0 j x k H) as [A [B C]]. rewrite Nat.sub_0_r in C. repeat split; try assumption; lia.
Qed.
Print Assumptions C19_normal_generator.

(* every yielded sample carries its own distinct seed sequence: child i of spawn(n) has key
   parent ++ [i]; keys are pairwise distinct *)
Theorem C19_distinct_seeds : forall s n,
  NoDup (map skey (fst (spawn s n)))
  /\ forall i, (i < n)%nat -> nth_error (fst (spawn s n)) i = Some (mkSS (skey s ++ [(nspawned s + i)%nat]) 0%nat).
Proof. intros. split; [apply spawn_keys_nodup | intros; apply spawn_child_key; assumption]. Qed.
Print Assumptions C19_distinct_seeds.

(* PARTIAL: that rng.normal delivers independent zero-mean normal variates of the requested
   width is numpy's contract (oracle); the harness adds a seeded moment test as supporting evidence. *)
Example C19_witness : 0 < avg_ke ROps [2] [3].
Proof. unfold avg_ke; cbn. lra. Qed.
