(* Thm/C20.v — property C20: the Poisson scale function (mudslide/math.py).
   Statements only; proofs are in Proof/PoissonP.v.  Model: Model/Poisson.v. *)
From Coq Require Import Reals Lra.
From MV Require Import Ops RInst Cplx Poisson PoissonP.
Open Scope R_scope.

(* closed-form branch is exactly (1 - exp(-x))/x *)
Theorem C20_closed_branch_exact : forall x, 1/1000 <= Rabs x ->
  pps ROps x = (1 - exp (- x)) / x.
Proof.
  intros x Hx. rewrite pps_R. destruct (Rltb_spec (Rabs x) (1/1000)) as [H|_]; [exfalso; apply (Rlt_irrefl (1/1000)); eapply Rle_lt_trans; eassumption | reflexivity].
Qed.
Print Assumptions C20_closed_branch_exact.

(* series branch: truncation error <= 1e-17 absolute (function value >= 0.999, so <= 1.002e-17 relative) *)
Theorem C20_series_branch_error : forall x, x <> 0 -> Rabs x < 1/1000 ->
  Rabs (pps ROps x - (1 - exp (- x)) / x) <= 1/100000000000000000 /\ 999/1000 <= pps ROps x.
Proof.
  intros x Hx Hs. rewrite pps_R. destruct (Rltb_spec (Rabs x) (1/1000)) as [_|H]; [|contradiction].
  split; [exact (pps_series_error x Hx Hs) | exact (g_lower x Hx Hs)].
Qed.
Print Assumptions C20_series_branch_error.

Theorem C20_value_at_zero : pps ROps 0 = 1.
Proof. exact pps_at_zero. Qed.
Print Assumptions C20_value_at_zero.

Theorem C20_range : forall x, 0 <= x -> 0 < pps ROps x <= 1.
Proof. exact pps_range. Qed.
Print Assumptions C20_range.

(* strictly decreasing on x >= 0, on each branch and across the switch *)
Theorem C20_decreasing : forall x y, 0 <= x -> x < y -> pps ROps y < pps ROps x.
Proof. exact pps_decreasing. Qed.
Print Assumptions C20_decreasing.

(* complex argument, closed-form branch: cpps z * z = 1 - exp(-z) exactly *)
Theorem C20_complex_closed_exact : forall a b, a * a + b * b <> 0 ->
  cmul ROps (cpps_closed ROps (a, b)) (a, b) = (1 - exp (- a) * cos b, exp (- a) * sin b).
Proof. exact cpps_closed_spec. Qed.
Print Assumptions C20_complex_closed_exact.

Theorem C20_imaginary_axis : forall y, y <> 0 ->
  cpps_closed ROps (0, y) = (sin y / y, - ((1 - cos y) / y)).
Proof. exact cpps_imag_axis. Qed.
Print Assumptions C20_imaginary_axis.

(* conjugation symmetry on both branches (needed by C11: Hermitian moments) *)
Theorem C20_conj : forall z, cpps ROps (cconj ROps z) = cconj ROps (cpps ROps z).
Proof.
  intros [a b]. unfold cpps.
  assert (cabs ROps (cconj ROps (a, b)) = cabs ROps (a, b)) as ->.
  { unfold cabs, cnorm2, cconj; cbn. f_equal. ring. }
  destruct (oltb ROps _ _); [apply cpps_series_conj | apply cpps_closed_conj].
Qed.
Print Assumptions C20_conj.

(* PARTIAL: truncation error of the series branch for general complex |z| < 1e-3
   is not mechanised (only the real axis above); see DESIGN.md C20. *)

(* non-vacuity *)
Example C20_witness : 0 <= 1/2000 /\ 1/2000 < 2 /\ (1/1000 <= Rabs 2).
Proof. split; [lra|split; [lra|]]. rewrite Rabs_pos_eq; lra. Qed.
