"""Shared machinery of the correspondence harness.

Everything that talks to Coq (literal writers, coqc runner, output parsers)
and everything that writes verdicts/evidence lives here, so that each
property driver (pCxx.py) only contains generators, the driving of the real
implementation, and the case layout.
"""
import os, sys, re, json, time, math, subprocess, hashlib, random, shutil, tempfile
from concurrent.futures import ThreadPoolExecutor

VERIF = os.path.dirname(os.path.dirname(os.path.abspath(__file__)))
COQDIR = os.path.join(VERIF, "coq")
OUT = os.environ.get("VERIF_OUT", os.path.join(VERIF, "out"))            # scratch + replay files (seed runs against mutated copies set their own)
EVID = os.environ.get("VERIF_EVIDENCE", os.path.join(VERIF, "evidence"))
SRC = os.environ.get("MUDSLIDE_SRC", "/repo")
NPROC = int(os.environ.get("VERIF_NPROC", "16"))

# make sure the implementation under test is the working tree of /repo
if SRC not in sys.path:
    sys.path.insert(0, SRC)
os.environ.setdefault("PYTHONHASHSEED", "0")


def seed_from_env():
    try:
        return int(os.environ.get("VERIF_SEED", "20260930"))
    except ValueError:
        return 20260930


# ---------------------------------------------------------------- literals
def fl(x):
    """Coq PrimFloat literal (bit exact)."""
    x = float(x)
    if math.isnan(x):
        return "nan"
    if math.isinf(x):
        return "infinity" if x > 0 else "neg_infinity"
    h = x.hex()
    if h.startswith("-"):
        return "(-" + h[1:] + ")"
    return h


def fls(xs):
    return "[" + "; ".join(fl(x) for x in xs) + "]"


def flss(xss):
    return "[" + "; ".join(fls(xs) for xs in xss) + "]"


def cx(z):
    z = complex(z)
    return "(" + fl(z.real) + ", " + fl(z.imag) + ")"


def cxs(zs):
    return "[" + "; ".join(cx(z) for z in zs) + "]"


def cxss(zss):
    return "[" + "; ".join(cxs(zs) for zs in zss) + "]"


def nat(n):
    return "%d%%nat" % int(n)


def zlit(n):
    n = int(n)
    return "(%d)%%Z" % n


def bl(b):
    return "true" if b else "false"


def lst(items):
    return "[" + "; ".join(items) + "]"


def opt(x, f):
    return "None" if x is None else "(Some %s)" % f(x)


def tup(*items):
    return "(" + ", ".join(items) + ")"


# ---------------------------------------------------------------- coq runs
HEADER = """From Coq Require Import PrimFloat ZArith List Bool.
From MV Require Import Ops FloatFun FInst.
Import ListNotations.
Open Scope float_scope.
"""


def coq_build(targets=None, quiet=True):
    """(Re)build the Coq project (no-op when up to date). Returns (ok, log)."""
    if not os.path.exists(os.path.join(COQDIR, "Makefile")):
        subprocess.run(["coq_makefile", "-f", "_CoqProject", "-o", "Makefile"], cwd=COQDIR,
                       stdout=subprocess.PIPE, stderr=subprocess.STDOUT)
    cmd = ["timeout", "3000", "make", "-j%d" % NPROC]
    if targets:
        cmd += targets
    p = subprocess.run(cmd, cwd=COQDIR, stdout=subprocess.PIPE, stderr=subprocess.STDOUT, text=True)
    return p.returncode == 0, p.stdout


def coqc_file(path, timeout=900):
    p = subprocess.run(["timeout", str(timeout), "coqc", "-Q", os.path.join(COQDIR, "theories"), "MV",
                        "-w", "-notation-overridden,-ambiguous-paths,-abstract-large-number",
                        path],
                       stdout=subprocess.PIPE, stderr=subprocess.STDOUT, text=True,
                       cwd=os.path.dirname(path))
    return p.returncode, p.stdout


def run_coq_texts(name, texts, timeout=900, keep=False):
    """Write each text as out/tmp/<name>_<k>.v, compile in parallel, return list of (rc, output)."""
    d = os.path.join(OUT, "tmp", name)
    shutil.rmtree(d, ignore_errors=True)
    os.makedirs(d, exist_ok=True)
    paths = []
    for k, t in enumerate(texts):
        p = os.path.join(d, "cases_%s_%d.v" % (name, k))
        with open(p, "w") as f:
            f.write(t)
        paths.append(p)
    with ThreadPoolExecutor(max_workers=NPROC) as ex:
        res = list(ex.map(lambda p: coqc_file(p, timeout), paths))
    if not keep and all(rc == 0 for rc, _ in res):
        shutil.rmtree(d, ignore_errors=True)
    return res


_NATLIST = re.compile(r"=\s*\[([^\]]*)\]\s*:\s*list nat", re.S)


def parse_nat_lists(output):
    """All `= [...] : list nat` results, in order."""
    out = []
    for m in _NATLIST.finditer(output):
        body = m.group(1).strip()
        out.append([int(x.replace("%nat", "")) for x in re.split(r"[;\s]+", body) if x] if body else [])
    return out


_FLOATTOK = re.compile(r"-?(?:\d+\.?\d*(?:e[-+]?\d+)?|infinity|nan|neg_infinity)")


def parse_eval_blocks(output):
    """Split coqc output into the `= ... : type` blocks (raw strings)."""
    blocks = re.split(r"\n\s*=\s", "\n" + output)
    return [b.strip() for b in blocks[1:]]


def floats_in(text):
    body = text.rsplit(":", 1)[0]
    out = []
    for t in re.findall(r"-?\d+\.?\d*(?:e[-+]?\d+)?|neg_infinity|infinity|nan", body):
        out.append(float(t.replace("neg_infinity", "-inf").replace("infinity", "inf")))
    return out


def chunks(seq, n):
    for i in range(0, len(seq), n):
        yield seq[i:i + n]


def run_case_check(name, prelude, case_type, checker, cases_coq, per_file=300, timeout=900):
    """Generic driver: cases_coq is a list of Coq terms of type `case_type`;
    `checker` is a Coq term of type `case_type -> bool`.
    Returns (failing_global_indices, errors)."""
    texts = []
    offs = []
    for off, ch in zip(range(0, len(cases_coq), per_file), chunks(cases_coq, per_file)):
        t = HEADER + prelude + "\n"
        t += "Definition cases : list (%s) :=\n [ " % case_type
        t += ";\n   ".join(ch) + " ].\n"
        t += "Eval vm_compute in (failing (%s) cases).\n" % checker
        texts.append(t)
        offs.append(off)
    res = run_coq_texts(name, texts, timeout)
    failing, errors = [], []
    for off, (rc, out) in zip(offs, res):
        if rc != 0:
            errors.append(out[-3000:])
            continue
        ls = parse_nat_lists(out)
        if len(ls) != 1:
            errors.append("unparsable coqc output: " + out[-2000:])
            continue
        failing += [off + i for i in ls[0]]
    return failing, errors


def coq_eval(name, prelude, exprs, timeout=600):
    """Evaluate a few expressions (debug / replay detail). Returns raw blocks."""
    t = HEADER + prelude + "\n" + "\n".join("Eval vm_compute in (%s)." % e for e in exprs) + "\n"
    (rc, out), = run_coq_texts(name, [t], timeout)
    if rc != 0:
        return None, out
    return parse_eval_blocks(out), out


# ---------------------------------------------------------------- thm check
def check_theorems(pid):
    """Re-compile Thm/<pid>.v, count Theorems and Print Assumptions blocks.
    Returns dict(obligations, discharged, axioms(list), ok, log)."""
    path = os.path.join(COQDIR, "theories", "Thm", pid + ".v")
    if not os.path.exists(path):
        return dict(obligations=0, discharged=0, axioms=[], ok=False, log="no Thm file", theorems=[])
    src = open(path).read()
    src_nc = re.sub(r"\(\*.*?\*\)", "", src, flags=re.S)
    thms = re.findall(r"^\s*Theorem\s+([A-Za-z0-9_']+)", src_nc, flags=re.M)
    bad = re.findall(r"\b(Admitted|admit|Axiom|Parameter|Conjecture|Abort)\b", src_nc)
    ok_b, log_b = coq_build()
    # Print Assumptions over interval/Coquelicot proofs is slow: reuse the log of
    # the last real compile when no .v file of the development has changed since.
    hh = hashlib.sha1()
    for root, _, files in sorted(os.walk(os.path.join(COQDIR, "theories"))):
        for fn in sorted(files):
            if fn.endswith(".v"):
                hh.update(fn.encode()); hh.update(open(os.path.join(root, fn), "rb").read())
    key = hh.hexdigest()
    cdir = os.path.join(VERIF, "out", "thmlog"); os.makedirs(cdir, exist_ok=True)
    cpath = os.path.join(cdir, pid + ".json")
    rc, out = None, None
    if ok_b and os.path.exists(cpath) and os.path.exists(path[:-2] + ".vo"):
        try:
            c = json.load(open(cpath))
            if c["key"] == key:
                rc, out = c["rc"], c["out"]
        except Exception:
            pass
    if rc is None:
        rc, out = coqc_file(path, timeout=1800) if ok_b else (1, log_b)
        if ok_b:
            json.dump(dict(key=key, rc=rc, out=out), open(cpath, "w"))
    closed = out.count("Closed under the global context")
    axblocks = re.findall(r"Axioms:\n((?:.+\n?)+?)(?=\n\S|\Z)", out)
    nblocks = closed + out.count("Axioms:")
    axioms = set()
    for m in re.finditer(r"^([A-Za-z_][A-Za-z0-9_.']*)\s*:", out, flags=re.M):
        if m.group(1) != "Axioms":
            axioms.add(m.group(1))
    ok = ok_b and rc == 0 and not bad and nblocks >= len(thms) and len(thms) > 0
    return dict(obligations=len(thms), discharged=(len(thms) if ok else 0) if rc == 0 else 0,
                axioms=sorted(axioms), ok=ok, log=(log_b if not ok_b else out)[-4000:], theorems=thms)


# ---------------------------------------------------------------- verdicts
class Result:
    """Accumulates what a check run covered and found."""

    def __init__(self, pid, tier, seed):
        self.pid, self.tier, self.seed = pid, tier, seed
        self.t0 = time.time()
        self.evaluations = 0
        self.nontrivial = set()
        self.hist = {}
        self.samples = []
        self.violations = []       # (what, replay dict)
        self.known = []            # strings
        self.notes = []
        self.traces_validated = 0
        self.knife_edge = 0
        self.extra = {}

    def count(self, bucket, n=1):
        self.hist[bucket] = self.hist.get(bucket, 0) + n

    def case(self, canon, nontrivial=True, sample=None):
        self.evaluations += 1
        if nontrivial:
            self.nontrivial.add(hashlib.sha1(repr(canon).encode()).hexdigest())
        if sample is not None and len(self.samples) < 3:
            self.samples.append(sample)

    def violation(self, what, replay):
        self.violations.append((what, replay))

    def known_finding(self, text):
        self.known.append(text)


def jsonable(x):
    import numpy as np
    if isinstance(x, dict):
        return {str(k): jsonable(v) for k, v in x.items()}
    if isinstance(x, (list, tuple)):
        return [jsonable(v) for v in x]
    if isinstance(x, np.ndarray):
        return jsonable(x.tolist())
    if isinstance(x, (np.floating,)):
        return float(x)
    if isinstance(x, (np.integer,)):
        return int(x)
    if isinstance(x, (np.bool_,)):
        return bool(x)
    if isinstance(x, complex):
        return [x.real, x.imag]
    if isinstance(x, float):
        if math.isnan(x) or math.isinf(x):
            return repr(x)
        return x
    if isinstance(x, (int, str, bool)) or x is None:
        return x
    return repr(x)


TRUSTED_COMMON = [
    "Coq 8.16.1 kernel + vm_compute (no native_compute, no extraction)",
    "hand-written Gallina model tied to /repo by this run's correspondence check (harness/*.py, tolerances, knife-edge rule)",
    "unverified binary64 elementary functions Base/FloatFun.v (measured against numpy each run)",
    "same Gallina term evaluated on ROps (theorems) and FOps (runs); no rounding-error theorem",
]


def finish(res, thm, rule, assumptions, level="proof"):
    """Write evidence, print VIOLATION / KNOWN-FINDING lines, return exit code."""
    os.makedirs(EVID, exist_ok=True)
    os.makedirs(os.path.join(OUT, res.pid), exist_ok=True)
    vio = list(res.violations)
    if not thm["ok"]:
        vio.append(("proof obligations of Thm/%s.v not discharged" % res.pid,
                    dict(kind="proof-broken", theorem_file="coq/theories/Thm/%s.v" % res.pid,
                         log=thm["log"], no_failing_input_found=True)))
    code = 0
    for k, (what, replay) in enumerate(vio):
        path = os.path.join(OUT, res.pid, "replay_%d.json" % k)
        replay = dict(replay)
        replay.setdefault("property", res.pid)
        replay.setdefault("what", what)
        replay.setdefault("seed", res.seed)
        replay.setdefault("tier", res.tier)
        replay.setdefault("replay_cmd", "VERIF_SEED=%d ./check %s --tier %s" % (res.seed, res.pid, res.tier))
        with open(path, "w") as f:
            json.dump(jsonable(replay), f, indent=1)
        tail = " no-failing-input-found" if replay.get("no_failing_input_found") else ""
        print("VIOLATION property=%s replay=%s %s%s" % (res.pid, path, what, tail))
        code = 1
    for k in res.known:
        print("KNOWN-FINDING: property=%s %s" % (res.pid, k))
    cov = dict(
        obligations=thm["obligations"], discharged=thm["discharged"],
        checker_cmd="make -C coq (coqc 8.16.1, full .vo build) && coqc -Q coq/theories MV coq/theories/Thm/%s.v "
                    "(Print Assumptions under every Theorem); coqchk -o in setup" % res.pid,
        trusted_base=TRUSTED_COMMON + ["axioms (Print Assumptions, union over Thm/%s.v): %s"
                                       % (res.pid, ", ".join(thm["axioms"]) or "none (closed under the global context)")],
        theorems=thm["theorems"],
        evaluations=res.evaluations, distinct_nontrivial=len(res.nontrivial), rule=rule,
        samples=jsonable(res.samples) or ["(no correspondence sample recorded)"],
        traces_validated_against_impl=res.traces_validated,
        branch_histogram=res.hist, knife_edge_excluded=res.knife_edge,
        known_findings_reported=res.known, notes=res.notes,
    )
    cov.update(jsonable(res.extra))
    ev = dict(property_id=res.pid, tier=res.tier, seed=res.seed, level=level, coverage=cov,
              assumptions=assumptions, wall_s=round(time.time() - res.t0, 2), violations=len(vio))
    with open(os.path.join(EVID, res.pid + ".json"), "w") as f:
        json.dump(ev, f, indent=1)
    print("%s %s: theorems %d/%d, %d cases (%d distinct non-trivial), %d violation(s), %.1fs"
          % (res.pid, res.tier, thm["discharged"], thm["obligations"], res.evaluations,
             len(res.nontrivial), len(vio), time.time() - res.t0))
    return code


def load_known_findings(pid):
    p = os.path.join(VERIF, "known_findings.json")
    if not os.path.exists(p):
        return []
    d = json.load(open(p))
    return [e for e in d.get("findings", []) if e.get("property") == pid and e.get("status") == "open"]
