"""Guard for setup.sh: only the theorem files listed in INTERVAL_OK may depend (transitively) on the Interval library;
coqchk re-checks that library's own certificates for hours, so those modules are checked with the library admitted."""
import re, glob, os, sys
INTERVAL_OK = {"C03", "C09", "C11", "C20"}
root = os.path.join(os.path.dirname(os.path.dirname(os.path.abspath(__file__))), "coq", "theories")
mods = {}
for f in glob.glob(os.path.join(root, "*", "*.v")):
    src = re.sub(r"\(\*.*?\*\)", "", open(f).read(), flags=re.S)
    deps, iv = set(), False
    for m in re.finditer(r"From\s+(\S+)\s+Require\s+(?:Import\s+|Export\s+)?([^.]*)\.", src):
        if m.group(1) == "MV": deps.update(m.group(2).split())
        if m.group(1) == "Interval": iv = True
    mods[os.path.basename(f)[:-2]] = (deps, iv)
def closure(n, seen):
    if n in seen or n not in mods: return seen
    seen.add(n)
    for d in mods[n][0]: closure(d, seen)
    return seen
bad = [c for c in sorted(m for m in mods if re.fullmatch(r"C\d\d", m)) if any(mods[x][1] for x in closure(c, set())) and c not in INTERVAL_OK]
if bad:
    print("depcheck: these theorem files now depend on Interval (move the dependency or add them to the admitted coqchk call):", bad); sys.exit(1)
print("depcheck: Interval reaches only", sorted(INTERVAL_OK))
