"""Measure Base/FloatFun.v against numpy (ulp distance on the ranges the models use)."""
import numpy as np, random, math
from common import *

def ulps(a, b):
    if a == b: return 0.0
    return abs(a - b) / max(np.spacing(abs(b)), 5e-324)

def measure(seed=0, n=400):
    rng = random.Random(seed)
    xs_exp = [rng.uniform(-40, 40) for _ in range(n)] + [rng.uniform(-1, 1) * 10 ** rng.uniform(-12, 0) for _ in range(n)] + [-745.0, 709.0, 0.0, 700.0, -700.0]
    xs_trig = [rng.uniform(-60, 60) for _ in range(n)] + [rng.uniform(-1, 1) * 10 ** rng.uniform(-8, 3) for _ in range(n)]
    exprs = ["map fexp %s" % fls(xs_exp), "map fexpm1 %s" % fls(xs_exp), "map fsin %s" % fls(xs_trig), "map fcos %s" % fls(xs_trig)]
    blocks, raw = coq_eval("floatfun", "", exprs)
    if blocks is None:
        return None, raw
    out = {}
    for nm, b, xs, f in zip(["exp", "expm1", "sin", "cos"], blocks, [xs_exp, xs_exp, xs_trig, xs_trig], [np.exp, np.expm1, np.sin, np.cos]):
        got = floats_in(b)
        assert len(got) == len(xs), (nm, len(got), len(xs))
        worst = 0.0; wx = None; worst_abs = 0.0
        for x, g in zip(xs, got):
            e = float(f(x))
            u = ulps(g, e)
            if nm in ("sin", "cos"):
                # near zeros of sin/cos judge absolutely
                worst_abs = max(worst_abs, abs(g - e))
                if abs(e) < 1e-3: continue
            if u > worst: worst, wx = u, x
        out[nm] = dict(max_ulp=worst, at=wx, max_abs=worst_abs)
    return out, raw

if __name__ == "__main__":
    import json
    o, raw = measure()
    print(json.dumps(o, indent=1) if o else raw)
