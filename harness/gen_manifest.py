"""Regenerates /verif/MANIFEST.json from the table below (keeps it valid at all times)."""
import json, os
V = os.path.dirname(os.path.dirname(os.path.abspath(__file__)))
props = [json.loads(l) for l in open(os.path.join(V, "properties.jsonl"))]

# pid -> (claim text, level_note, technique, design_ref)
CLAIMED = {
 "C20": ("Coq theorems on the real-number instance of Model/Poisson.v: closed-form branch exact, series branch within 1e-17 of (1-exp(-x))/x (MVT + interval), value 1 at 0, range (0,1], strictly decreasing on x>=0 across the switch, complex closed-form identity, imaginary-axis values, conjugation symmetry; the same Gallina term runs in binary64 and is compared with poisson_prob_scale on ~4k real/complex scalars and mixed arrays at 2e-15. Partial: series truncation error for general complex |z|<1e-3 not mechanised.",
         "trusts: Coq kernel/vm_compute; real-number axioms + classic (interval/Coquelicot) as printed; FloatFun.v (measured <=1 ulp); correspondence tolerance 2e-15; numpy expm1",
         "Coq proof (Coquelicot MVT + interval) on hand-written model + float correspondence", "DESIGN.md §3 C20"),
 "C18": ("Coq theorems for every n and every a<b: midpoint and trapezoid (weights sum to b-a, positive, nodes strictly increasing inside [a,b], exact for degree 0 and 1), Simpson (n=2m+1: weights positive, sum b-a, exact through degree 3 by telescoping panel sums), Gauss-Legendre affine map (transfers exactness as a Riemann-integral identity via Coquelicot RInt_comp_lin; weight sum/positivity/order preserved). Same model runs in binary64 against integration.quadrature for all five rules (Clenshaw-Curtis through a direct inverse DFT). Partial: Waldvogel FFT identity for Clenshaw-Curtis and numpy leggauss are oracles validated numerically by exact moments; spawn-stack tensor product checked against the implementation (theorem in C10).",
         "trusts: Coq kernel/vm_compute; real-number axioms (+classic via Coquelicot); FloatFun.v; tolerance 2^-43*scale; leggauss / FFT identity as oracles",
         "Coq proof (induction over n, closed sums, Coquelicot RInt) on hand-written model + float correspondence", "DESIGN.md §3 C18"),
}
NOT_YET = "check not built yet in this commit (work in progress; see DESIGN.md §3 for the planned proof)"

checks, na = [], []
for p in props:
    pid = p["id"]
    if pid in CLAIMED:
        text, note, tech, ref = CLAIMED[pid]
        checks.append(dict(property_id=pid, quick_cmd="./check %s --tier quick" % pid,
                           thorough_cmd="./check %s --tier thorough" % pid,
                           evidence_file="/verif/evidence/%s.json" % pid,
                           replay_cmd_template="./check %s --replay {path}" % pid,
                           engine="coq-model+correspondence",
                           level_claimed=dict(category="proof", text=text, design_ref=ref),
                           level_note=note, technique=tech))
    else:
        na.append(dict(property_id=pid, reason=NOT_YET))
m = dict(version=1,
         setup_cmd="./setup.sh",
         hooks=dict(guard="MUDSLIDE_VERIF", enable="none needed: the harness wraps methods/module globals from outside; /repo contains no hook code",
                    baseline_off_cmd="cd /repo && /venv/bin/python -m pytest -ra -q -p no:cacheprovider --timeout=900 --continue-on-collection-errors",
                    source_commits=[], add_only=True),
         engines=[dict(name="coq-model+correspondence", path="/verif/coq + /verif/harness",
                       serves_properties=sorted(CLAIMED), kind_free_text="Coq 8.16.1 development (hand-written Gallina model over an Ops record, theorems on R, vm_compute runs on binary64) + Python correspondence harness driving /repo")],
         checks=checks, not_applicable=na,
         notes="See DESIGN.md. fix: commits in /repo are listed in known_findings.json.")
json.dump(m, open(os.path.join(V, "MANIFEST.json"), "w"), indent=1)
print("claimed", sorted(CLAIMED), "not claimed", len(na))
