"""Regenerates /verif/MANIFEST.json from the table below (keeps it valid at all times)."""
import json, os
V = os.path.dirname(os.path.dirname(os.path.abspath(__file__)))
props = [json.loads(l) for l in open(os.path.join(V, "properties.jsonl"))]

# pid -> (claim text, level_note, technique, design_ref)
CLAIMED = {
 "C20": ("Coq theorems on the real-number instance of Model/Poisson.v: closed-form branch exact, series branch within 1e-17 of (1-exp(-x))/x (MVT + interval), value 1 at 0, range (0,1], strictly decreasing on x>=0 across the switch, complex closed-form identity, imaginary-axis values, conjugation symmetry; the same Gallina term runs in binary64 and is compared with poisson_prob_scale on ~4k real/complex scalars and mixed arrays at 2e-15. Partial: series truncation error for general complex |z|<1e-3 not mechanised.",
         "trusts: Coq kernel/vm_compute; real-number axioms + classic (interval/Coquelicot) as printed; FloatFun.v (measured <=1 ulp); correspondence tolerance 2e-15; numpy expm1",
         "Coq proof (Coquelicot MVT + interval) on hand-written model + float correspondence", "DESIGN.md §3 C20"),
 "C18": ("Coq theorems for every n and every a<b: midpoint and trapezoid (weights sum to b-a, positive, nodes strictly increasing inside [a,b], exact for degree 0 and 1), Simpson (n=2m+1: weights positive, sum b-a, exact through degree 3 by telescoping panel sums), Gauss-Legendre affine map (transfers exactness as a Riemann-integral identity via Coquelicot RInt_comp_lin; weight sum/positivity/order preserved). Same model runs in binary64 against integration.quadrature for all five rules (Clenshaw-Curtis through a direct inverse DFT). Partial: Waldvogel FFT identity for Clenshaw-Curtis and numpy leggauss are oracles validated numerically by exact moments; spawn-stack tensor product checked against the implementation (theorem in C10).",
         "trusts: Coq kernel/vm_compute; real-number axioms (+classic via Coquelicot); FloatFun.v; tolerance 2^-43*scale; leggauss / FFT identity as oracles",
         "Coq proof (induction over n, closed sums, Coquelicot RInt) on hand-written model + float correspondence", "DESIGN.md §3 C18"),
 "C01": ("Coq theorems on Model/Hop.v over lists of any length: an accepted hop satisfies KE'+E_target = KE+E_source exactly for any dimension, any positive masses, any state count; a rejected hop returns state and velocity unchanged; velocity Verlet is exactly time-reversible for any force field and any number of steps; on the harmonic oscillator the shadow energy m v^2/2+k x^2/2-(dt^2/8)(k^2/m)x^2 is exactly conserved (an O(dt^2) bound uniform in time). The same terms run in binary64 against hop_to_it of TrajectorySH/TrajectoryCum/AugmentedFSSH/even-sampling children, advance_position/advance_velocity of TrajectorySH and AdiabaticMD, kinetic_energy. Partial: the O(dt^2) drift bound for a general smooth potential is not mechanised (drift ratio measured on real runs as supporting evidence).",
         "trusts: Coq kernel/vm_compute; real-number axioms; FloatFun.v; tolerance 2^-36 (+2^-44/sqrt(margin)) on the velocity scale; knife-edge exclusion below 2^-40 relative margin (exact dyadic ties still checked)",
         "Coq proof (list induction + field/nra) on hand-written model + float correspondence", "DESIGN.md §3 C01"),
 "C04": ("Coq theorems: acceptance rule (downward always; upward iff (v.u)^2/(2 sum u_i^2/m_i) > gap), momentum change m_i(v'_i-v_i)=s u_i along the direction only, the selected root has the least modulus among all energy-conserving kicks, rejected hop untouched, and for the event-emitting loop over any number of steps: changes of the active column = hop events (same index/from/to), one frustrated event per rejection, no others. Hop level runs in binary64 against the four hopping classes; trajectory level replays the observed hopper decisions of real FSSH/cumulative/A-FSSH runs (2-, 3-, 8-state models, both trace back-ends) through the Coq event model and compares with the active column and the event log.",
         "trusts: Coq kernel/vm_compute; real-number axioms; harness wrappers around hopper/hop_allowed; tolerance as C01",
         "Coq proof (nra/field; induction over the step list) on hand-written model + correspondence", "DESIGN.md §3 C04"),
 "C03": ("Coq theorems on Model/Hopper.v for any number of states: g>=0 and g_kk=0; flux antisymmetry b_kn=-b_nk for Hermitian rho,W; the unclipped fluxes sum to -d rho_kk/dt of rho'=-i[W,rho]; the slot theorem (hop to n iff c_{n-1}<=zeta<c_n, slot length p_n, no hop iff zeta>=total) by induction over the probability list; never hops to itself; Poisson option total = 1-exp(-sum g) (exact on the closed branch, 1e-17*sum on the series branch) with unchanged ratios. Binary64 runs against surface_hopping/hopper with thresholds inside slots, exactly on boundaries (dyadic, compared exactly), one ulp either side. Uniformity of the random number is numpy's contract (oracle).",
         "trusts: Coq kernel/vm_compute; real-number axioms (+classic through interval for the Poisson series bound); FloatFun.v; 2^-44 tolerance; knife-edge 2^-40 for non-dyadic thresholds",
         "Coq proof (list induction, lra/ring) on hand-written model + float correspondence", "DESIGN.md §3 C03"),
 "C09": ("Coq theorems on Model/Cumulative.v: the accumulation is 1-(1-a)exp(-G) (both code variants); for any rate sequence an attempt occurs exactly at the first step where 1-prod exp(-G_i) exceeds the threshold and at no earlier step, none without a crossing; after an attempt accumulation is 0 and the next threshold is the next user value, else the next generator number; runs compose (any number of hops); target by the slot rule on g_i/G; survival 1-acc_n = prod(1-total_i) equals that of Poisson FSSH. Binary64 runs against TrajectoryCum.hopper with a twin generator supplying the same random numbers, incl. exact-tie cases (acc == zeta must not attempt).",
         "trusts: Coq kernel/vm_compute; real-number axioms; numpy Generator.choice = one uniform + searchsorted (checked per attempt); longdouble accumulation vs binary64 at 2^-40",
         "Coq proof (induction over the step list) on hand-written model + correspondence", "DESIGN.md §3 C09"),
 "C16": ("Coq theorem on Model/Stopping.v (continue_simulating, trace, simulate loop with the positions as an arbitrary function of the step index): whenever the loop returns, either a limit was met at the start and nothing is logged, or it ran exactly K>=1 steps with K the first check index satisfying (step limit | time limit within 1e-8 | was inside the box earlier and is outside now) — never earlier, never later — and the log is the initial condition (unless restarting), every step whose index is a multiple of trace_every, and the final state exactly once, at times t0+k dt, strictly increasing. The same loop runs in binary64 (bit-exact times) against TrajectorySH, TrajectoryCum, Ehrenfest, AugmentedFSSH, AdiabaticMD and an even-sampling parent over randomised limit/box/trace_every combinations; snapshot self-consistency (energy, kinetic, potential) checked on every logged snapshot.",
         "trusts: Coq kernel/vm_compute; real-number axioms; wrappers around advance_position / tracer.collect to observe positions and step indices",
         "Coq proof (induction on the loop fuel with a latch invariant) on hand-written model + exact correspondence", "DESIGN.md §3 C16"),
 "C17": ("Coq theorems on Model/Outcome.v: every entry of the outcome table lies in [0,1]; the 2*nst entries sum to one (any number of states/traces/non-negative weights); the table and the counts are invariant under any permutation of the traces; counts = number of traces per (state, side); equal weights give count/N; hop-histogram entries in [0,1]. Binary64 runs against real batches of five trajectory classes (unequal even-sampling weights), both back-ends, shuffled, counts(), summarize() text and CLI averaged rows. KNOWN FINDING: summarize() raises for YAML-backed batches (no .hops).",
         "trusts: Coq kernel/vm_compute; real-number axioms; final (weight, active, side, hops) read from each real trace by the harness",
         "Coq proof (list induction, Permutation) on hand-written model + correspondence", "DESIGN.md §3 C17"),
 "C14": ("Coq theorems on Model/TraceStore.v: for every page size >= 1, every snapshot sequence and any element type, the YAML store's paging (collect/__len__/__iter__/__getitem__ with negative and out-of-range indices/reload size arithmetic, exact multiples included) observes exactly like the plain list = the in-memory store; reload-then-append = append; Python negative-index rule; find_unique_name returns the least unused index (never reuses a name). Correspondence: random sequences of init/collect/event/reload/clone over several live traces in one directory; after every operation the parsed directory equals the Coq file-map model; reads compared with the recorded list with exact numeric equality (signed zero, subnormals, 1e300, 17-digit floats); collect command output. Partial: clone independence / init-never-overwrites are checked by the correspondence run, not stated as theorems.",
         "trusts: Coq kernel/vm_compute (no axioms: closed under the global context); PyYAML text round trip (oracle); the harness's directory parser",
         "Coq proof (invariant by induction over operations, refinement to a list) + lock-step correspondence on a real directory", "DESIGN.md §3 C14"),
 "C15": ("Coq theorem on Model/Crash.v: for every page size, every snapshot sequence and every directory state visited while the (k+1)-th snapshot is being recorded (after each completed file operation of the repaired collect/write_main_log), load_log reads a prefix of the recorded snapshots of length k or k+1. Exhaustive fault injection on the real code: every file operation (open w/a/x, os.replace) after initialisation is crashed before it, after the open but before any write, and after it; the directory is loaded and read back, compared with the model's load per operation; real trajectories crashed mid-run are restarted from the loaded log and continued.",
         "trusts: Coq kernel/vm_compute (no axioms); crash = exception at a file operation (no torn write inside one write call); os.replace atomic",
         "Coq proof (prefix invariant over all visited disk states) + exhaustive crash-point injection", "DESIGN.md §3 C15"),
 "C10": ("Coq theorems on Model/SpawnStack.v: for any spawn stack (any depth, sizes, spawn_size), any crossing history (several thresholds crossed in one step, exhausted stacks) and any recursion fuel, the final weights of a trajectory and all its descendants are non-negative and sum to the initial weight; in general a trajectory at index iz plus everything it still spawns carries base*(1 - sum of dw crossed) = the parent's marginal weight, children carrying base*dw*ratio/spawn_size; a quadrature-built stack has flattened weights = product of the per-level weight sums. Correspondence: real BatchedTraj(EvenSamplingTrajectory) trees (all rules, depths 1-3, mcsamples, explicit trees, large dt) whose crossing histories are observed and replayed through the model; next_zeta index/marginal bookkeeping; parent unchanged, child start point, trace-clone independence, box rule per trajectory. Partial: aliasing facts (parent untouched, no shared arrays) are run-time observations.",
         "trusts: Coq kernel/vm_compute; real-number axioms; class-level wrappers observing hopper/clone/hop_to_it; 2^-44 tolerance",
         "Coq proof (induction on recursion fuel over nested histories) on hand-written model + correspondence", "DESIGN.md §3 C10"),
}
NOT_YET = "check not built yet in this commit (work in progress; see DESIGN.md §3 for the planned proof)"

checks, na = [], []
for p in props:
    pid = p["id"]
    if pid in CLAIMED:
        text, note, tech, ref = CLAIMED[pid]
        checks.append(dict(property_id=pid, quick_cmd="./check %s --tier quick" % pid,
                           thorough_cmd="./check %s --tier thorough" % pid,
                           evidence_file="/verif/evidence/%s.json" % pid,
                           replay_cmd_template="./check %s --replay {path}" % pid,
                           engine="coq-model+correspondence",
                           level_claimed=dict(category="proof", text=text, design_ref=ref),
                           level_note=note, technique=tech))
    else:
        na.append(dict(property_id=pid, reason=NOT_YET))
m = dict(version=1,
         setup_cmd="./setup.sh",
         hooks=dict(guard="MUDSLIDE_VERIF", enable="none needed: the harness wraps methods/module globals from outside; /repo contains no hook code",
                    baseline_off_cmd="cd /repo && /venv/bin/python -m pytest -ra -q -p no:cacheprovider --timeout=900 --continue-on-collection-errors",
                    source_commits=[], add_only=True),
         engines=[dict(name="coq-model+correspondence", path="/verif/coq + /verif/harness",
                       serves_properties=sorted(CLAIMED), kind_free_text="Coq 8.16.1 development (hand-written Gallina model over an Ops record, theorems on R, vm_compute runs on binary64) + Python correspondence harness driving /repo")],
         checks=checks, not_applicable=na,
         notes="See DESIGN.md. fix: commits in /repo are listed in known_findings.json.")
json.dump(m, open(os.path.join(V, "MANIFEST.json"), "w"), indent=1)
print("claimed", sorted(CLAIMED), "not claimed", len(na))
