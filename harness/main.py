import sys, os, argparse, importlib, json, traceback
sys.path.insert(0, os.path.dirname(os.path.abspath(__file__)))
import common


def main():
    ap = argparse.ArgumentParser()
    ap.add_argument("pid")
    ap.add_argument("--tier", default=os.environ.get("VERIF_TIER", "quick"), choices=["quick", "thorough"])
    ap.add_argument("--replay", default=None)
    a = ap.parse_args()
    seed = common.seed_from_env()
    mod = importlib.import_module("p" + a.pid[1:])
    if a.replay:
        rp = json.load(open(a.replay))
        seed = int(rp.get("seed", seed))
        a.tier = rp.get("tier", a.tier)
    # watchdog: a change that makes the implementation (or the model evaluation) run forever must end in a report, not in a hang.
    # Quick checks take at most ~70 s here, thorough ones at most ~25 min; the limits leave a factor > 30.
    import signal, faulthandler
    limit = int(os.environ.get("VERIF_TIMEOUT", "3600" if a.tier == "quick" else "40000"))
    def on_alarm(signum, frame):
        os.makedirs(os.path.join(common.OUT, a.pid), exist_ok=True)
        p = os.path.join(common.OUT, a.pid, "replay_timeout.json")
        json.dump(dict(property=a.pid, what="check did not finish", seconds=limit, stack="".join(traceback.format_stack(frame)[-12:]),
                       no_failing_input_found=True), open(p, "w"), indent=1)
        print("VIOLATION property=%s replay=%s check did not finish within %d s while driving the implementation (see the stack in the replay file) no-failing-input-found" % (a.pid, p, limit), flush=True)
        os._exit(1)
    signal.signal(signal.SIGALRM, on_alarm); signal.alarm(limit)
    try:
        code = mod.run(a.tier, seed)
    except Exception:
        # a crash of the harness itself must not pass silently
        traceback.print_exc()
        os.makedirs(os.path.join(common.OUT, a.pid), exist_ok=True)
        p = os.path.join(common.OUT, a.pid, "replay_crash.json")
        json.dump(dict(property=a.pid, what="check crashed", trace=traceback.format_exc(),
                       no_failing_input_found=True), open(p, "w"), indent=1)
        print("VIOLATION property=%s replay=%s check crashed while driving the implementation no-failing-input-found" % (a.pid, p))
        code = 1
    sys.exit(code)


if __name__ == "__main__":
    main()
