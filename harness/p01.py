"""C01 — hops conserve energy exactly; Verlet step; kinetic energy.  Also used by p04."""
import random, math, queue
import numpy as np
from common import *
from stubs import *

PRELUDE = "From MV Require Import Vec Hop R01.\n"
HOPCLASSES = ["fssh", "cumulative", "afssh", "es-child"]


def make_traj(kind, model, x, p, state, elec, rng):
    import mudslide
    from mudslide.even_sampling import EvenSamplingTrajectory
    common_opts = dict(dt=1.0, electronics=elec, seed_sequence=rng.randrange(2 ** 31))
    if kind == "fssh":
        return mudslide.TrajectorySH(model, x, p, state, **common_opts)
    if kind == "cumulative":
        return mudslide.TrajectoryCum(model, x, p, state, **common_opts)
    if kind == "afssh":
        return mudslide.AugmentedFSSH(model, x, p, state, **common_opts)
    if kind == "es-child":
        return EvenSamplingTrajectory(model, x, p, state, queue=queue.Queue(), spawn_stack=[3], quadrature="midpoint", **common_opts)
    raise ValueError(kind)


def gen_hop(rng, k):
    ndim = rng.choice([1, 1, 2, 3, 4, 5, 6])
    nst = rng.choice([2, 2, 3, 4, 5, 8])
    mass = [10 ** rng.uniform(0, 5) for _ in range(ndim)]
    if rng.random() < 0.15:
        mass = [2000.0] * ndim
    v = [rng.gauss(0, 1) * 10 ** rng.uniform(-3, 0) for _ in range(ndim)]
    style = rng.random()
    if style < 0.6 or ndim == 1:
        d = [rng.gauss(0, 1) * 10 ** rng.uniform(-2, 2) for _ in range(ndim)]
    elif style < 0.75:   # axis aligned
        d = [0.0] * ndim; d[rng.randrange(ndim)] = rng.choice([-1, 1]) * 10 ** rng.uniform(-2, 2)
    else:                # nearly (not exactly) parallel to the momentum
        d = [mi * vi * (1 + 1e-3 * rng.gauss(0, 1)) for mi, vi in zip(mass, v)]
    if all(x == 0 for x in d):
        d[0] = 1.0
    state = rng.randrange(nst)
    target = rng.choice([t for t in range(nst) if t != state])
    u = np.array(d) / np.linalg.norm(d)
    a = float(np.sum(u * u / np.array(mass)))
    b = 2.0 * float(np.dot(v, u))
    avail = b * b / (8.0 * a)          # (v.u)^2/(2a)
    r = rng.random()
    if r < 0.25:
        gap = -avail * 10 ** rng.uniform(-3, 2) - 1e-9       # downward
        kind = "down"
    elif r < 0.55:
        gap = avail * (1 - 10 ** rng.uniform(-6, -0.01))         # allowed upward
        kind = "up-allowed"
    elif r < 0.85:
        gap = avail * (1 + 10 ** rng.uniform(-6, 1))             # frustrated
        kind = "frustrated"
    else:
        gap = avail * (1 + rng.choice([-1, 1]) * 10 ** rng.uniform(-13, -9))   # close to threshold
        kind = "near-threshold"
    en = sorted(rng.uniform(-0.1, 0.1) for _ in range(nst))
    en = [float(e) for e in en]
    en[target] = en[state] + gap
    return dict(ndim=ndim, nst=nst, mass=mass, v=v, dir=d, state=state, target=target, en=en, kind=kind, avail=avail, gap=gap)


def dyadic_tie(rng):
    """exact tie b^2 == 4ac with dyadic data: 1-D, m=2^k, u=+-1."""
    m = 2.0 ** rng.randint(0, 10); v = rng.choice([-1, 1]) * 2.0 ** rng.randint(-6, 2)
    gap = 0.5 * m * v * v   # KE along u == gap exactly -> b*b > 4ac is False (strict)
    return dict(ndim=1, nst=2, mass=[m], v=[v], dir=[rng.choice([-1.0, 1.0]) * 2.0 ** rng.randint(-3, 3)], state=0, target=1,
                en=[0.0, gap], kind="exact-tie", avail=gap, gap=gap)


def orthogonal_case(rng):
    """velocity exactly orthogonal to the direction (b = 0), downward hop: both roots have the same modulus,
    so only the property itself is checked (energy, direction, minimality), not the sign chosen by the model"""
    ndim = rng.choice([2, 3, 4]); i, j = rng.sample(range(ndim), 2)
    v = [0.0] * ndim; d = [0.0] * ndim
    v[i] = rng.choice([-1, 1]) * 2.0 ** rng.randint(-6, 0); d[j] = rng.choice([-1, 1]) * 2.0 ** rng.randint(-3, 3)
    mass = [2.0 ** rng.randint(0, 12) for _ in range(ndim)]
    gap = -2.0 ** rng.randint(-12, -4)
    return dict(ndim=ndim, nst=2, mass=mass, v=v, dir=d, state=1, target=0, en=[gap, 0.0], kind="orthogonal-down", avail=0.0, gap=gap)


def drive_hop(kind, c, rng):
    """Run the real hop_to_it; returns observation dict."""
    nst, ndim = c["nst"], c["ndim"]
    H = np.diag(c["en"])
    dc = rand_antisym_dc(rng, nst, ndim)
    if kind != "afssh":
        dc[c["state"], c["target"]] = c["dir"]; dc[c["target"], c["state"]] = -np.array(c["dir"])
    # (A-FSSH rescales along its moment difference, set below; its derivative coupling stays an unrelated random vector)
    F = np.zeros((nst, ndim))
    elec = StubElec(H, dc, F)
    model = StubModel(c["mass"], nst, [elec])
    if all(float(mi).is_integer() for mi in c["mass"]) and rng.random() < 0.5:
        model.mass = np.array(c["mass"], dtype=np.int64)        # an integer-typed mass vector holding the same numbers
    x0 = [rng.uniform(-1, 1) for _ in range(ndim)]
    p0 = (np.array(c["mass"]) * np.array(c["v"])).tolist()
    tr = make_traj(kind, model, x0, p0, c["state"], elec, rng)
    # the velocity the implementation holds (p/m rounding) is the input of the model
    c = dict(c); c["v"] = tr.velocity.tolist()
    rho_before = tr.rho.copy()
    hop = {"target": c["target"], "weight": 1.0, "zeta": 0.25, "prob": 0.5}
    if kind == "afssh" and c["kind"] in ("exact-tie", "orthogonal-down"):
        tr.delP[:, c["state"], c["state"]] = np.array(c["dir"])   # exact data: direction = Re(delP_ss - delP_tt) with delP_tt = 0
        tr.delP[:, c["target"], c["target"]] = 0.0
    elif kind == "afssh":
        shift = np.array([rng.gauss(0, 1) for _ in range(ndim)]) * float(np.linalg.norm(c["dir"]))
        for j in range(nst):
            tr.delP[:, j, j] = np.array([rng.gauss(0, 1) for _ in range(ndim)])
        tiny = 10 ** rng.uniform(-13, -9) if rng.random() < 0.3 else 1.0          # just after a collapse / at the first steps the moments are tiny: the direction is still theirs
        if tiny != 1.0: shift = shift * 0.0
        tr.delP[:, c["target"], c["target"]] = shift                      # direction = Re(delP_ss - delP_tt): only the difference matters
        tr.delP[:, c["state"], c["state"]] = shift + np.array(c["dir"]) * tiny
        c = dict(c); c["dir"] = np.real(tr.delP[:, c["state"], c["state"]] - tr.delP[:, c["target"], c["target"]]).tolist()   # as rounded by the subtraction
    tr.last_velocity = np.array([rng.gauss(0, 1) for _ in range(ndim)]) * float(np.linalg.norm(tr.velocity) + 1e-3)   # mid-run: the previous step's velocity is unrelated to the decision
    x_before = tr.position.copy()
    mom_before = (tr.delR.copy(), tr.delP.copy()) if kind == "afssh" else None
    if kind == "afssh" and c["kind"] not in ("exact-tie", "orthogonal-down"):
        tr.delR = tr.delR + np.array([[[complex(rng.gauss(0, 1), 0.0) if i == j else 0.0 for j in range(nst)] for i in range(nst)] for _ in range(ndim)]); mom_before = (tr.delR.copy(), tr.delP.copy())
    ke0 = float(tr.kinetic_energy())
    if kind == "es-child":
        from mudslide.cumulative_sh import TrajectoryCum
        hop["stack"] = tr.spawn_stack.__class__(None, 1.0)
        tr.spawn_stack.last_stack = tr.spawn_stack.sample_stack[0]
        try:
            tr.hop_to_it([hop], elec)
        except Exception as ex:
            return c, dict(raised="%s: %s" % (type(ex).__name__, ex), state=int(tr.state), v=tr.velocity.tolist(), accepted=False)
        child = tr.queue.get()
        parent_unchanged = (tr.state == c["state"] and np.array_equal(tr.velocity, np.array(c["v"])) and np.array_equal(tr.position, x_before))
        obs_tr = child
    else:
        try:
            tr.hop_to_it([hop], elec)
        except Exception as ex:
            return c, dict(raised="%s: %s" % (type(ex).__name__, ex), state=int(tr.state), v=tr.velocity.tolist(), accepted=bool(tr.state == c["target"]))
        parent_unchanged = True
        obs_tr = tr
    accepted = (obs_tr.state == c["target"])
    hops = list(obs_tr.tracer.hops)
    fr = list(obs_tr.tracer.events.get("frustrated_hop", []))
    return c, dict(state=int(obs_tr.state), v=obs_tr.velocity.tolist(), accepted=accepted, x_same=bool(np.array_equal(obs_tr.position, x_before)),
                   rho_same=bool(np.array_equal(obs_tr.rho, rho_before)), ke0=ke0, ke1=float(obs_tr.kinetic_energy()),
                   nhop=len(hops), nfr=len(fr), hops=hops, fr=fr, parent_unchanged=parent_unchanged, time=float(tr.time),
                   moments_same=(True if mom_before is None else bool(np.array_equal(obs_tr.delR, mom_before[0]) and np.array_equal(obs_tr.delP, mom_before[1]))))


def hop_oracle(c, o):
    """Direct statement of C01/C04 (hop level) on the implementation. Returns failed clause or None."""
    if o.get("raised"):
        return "hop_to_it raised %s for a legal attempt (a hop that the energy criterion forbids must be rejected, not attempted)" % o["raised"]
    m = np.array(c["mass"]); v0 = np.array(c["v"]); v1 = np.array(o["v"])
    gap = c["en"][c["target"]] - c["en"][c["state"]]
    u = np.array(c["dir"]) / np.linalg.norm(c["dir"])
    a = float(np.sum(u * u / m)); b = 2 * float(np.dot(v0, u))
    avail = b * b / (8 * a)
    knife = abs(avail - gap) <= 1e-9 * max(abs(avail), abs(gap)) and gap > 0 and c["kind"] != "exact-tie"
    should = gap < 0 or avail > gap
    if not knife and o["accepted"] != should:
        return "acceptance iff KE along direction exceeds gap (avail=%r gap=%r accepted=%r)" % (avail, gap, o["accepted"])
    if not o["x_same"]:
        return "position untouched by hop attempt"
    if not o["rho_same"]:
        return "density matrix untouched by hop attempt"
    if not o["parent_unchanged"]:
        return "even-sampling parent unchanged by spawning"
    if o["accepted"]:
        scale = max(o["ke0"], abs(gap), 1e-300)
        if abs((o["ke1"] - o["ke0"]) + gap) > 1e-9 * scale:
            return "accepted hop conserves energy exactly (dKE=%r, dV=%r)" % (o["ke1"] - o["ke0"], gap)
        dp = m * (v1 - v0)
        perp = dp - np.dot(dp, u) * u
        if np.linalg.norm(perp) > 1e-9 * (np.linalg.norm(dp) + 1e-300) + 1e-14 * np.linalg.norm(m * v0):
            return "momentum changes only along the rescaling direction"
        # smallest energy-conserving change: |s| <= |other root|
        s = float(np.dot(dp, u)); other = -b / a - s
        if abs(s) > abs(other) * (1 + 1e-9) + 1e-300:
            return "smallest momentum change that conserves energy"
        if o["nhop"] != 1 or o["nfr"] != 0:
            return "exactly one hop event for an accepted hop"
        h = o["hops"][0]
        if (h["from"], h["to"]) != (c["state"], c["target"]):
            return "hop event records the states"
    else:
        if o["state"] != c["state"] or not np.array_equal(v1, v0):
            return "rejected hop leaves state and momentum untouched"
        if not o.get("moments_same", True):
            return "rejected hop leaves the A-FSSH moments untouched (they are re-centred only by an accepted hop)"
        if o["nhop"] != 0 or o["nfr"] != 1:
            return "exactly one frustrated_hop event for a rejected hop"
        f = o["fr"][0]
        if (f["from"], f["to"]) != (c["state"], c["target"]):
            return "frustrated event records the states"
    return None


def hop_cases(res, rng, n):
    cases, meta, bad = [], [], []
    gens = [gen_hop(rng, k) for k in range(n)] + [dyadic_tie(rng) for _ in range(max(4, n // 20))] + [orthogonal_case(rng) for _ in range(max(6, n // 20))]
    for k, c in enumerate(gens):
        kind = HOPCLASSES[k % len(HOPCLASSES)]
        c, o = drive_hop(kind, c, rng)
        if c["kind"] == "orthogonal-down":
            res.count("hop/" + c["kind"]); res.count("class/" + kind)
            res.case(("hop", kind, c["mass"], c["v"], c["dir"], c["en"]), True)
            f = hop_oracle(c, o)
            if f:
                bad.append(dict(cls=kind, failed=f, case=c, impl=o))
            continue
        cases.append(tup(bl(c["kind"] == "exact-tie"), tup(fls(c["mass"]), fls(c["v"]), fls(c["dir"]), fls(c["en"]), nat(c["state"]), nat(c["target"]),
                         nat(o["state"]), fls(o["v"]), bl(o["accepted"]))))
        meta.append(dict(cls=kind, case=c, impl=dict(state=o["state"], v=o["v"], accepted=o["accepted"])))
        res.count("hop/" + c["kind"]); res.count("class/" + kind); res.count("ndim/%d" % c["ndim"])
        res.count("accepted" if o["accepted"] else "rejected")
        res.case(("hop", kind, c["mass"], c["v"], c["dir"], c["en"], c["state"], c["target"]), True,
                 dict(cls=kind, mass=c["mass"], v=c["v"], dir=c["dir"], energies=c["en"], state=c["state"], target=c["target"], impl_accepted=o["accepted"]))
        f = hop_oracle(c, o)
        if f:
            bad.append(dict(cls=kind, failed=f, case=c, impl=o))
    return cases, meta, bad


def verlet_cases(res, rng, n):
    import mudslide
    cases, meta, bad = [], [], []
    for k in range(n):
        ndim = rng.choice([1, 2, 3, 6]); nst = rng.choice([1, 2, 3])
        mass = [10 ** rng.uniform(0, 5) for _ in range(ndim)]
        x = [rng.uniform(-5, 5) for _ in range(ndim)]; v = [rng.gauss(0, 1e-2) for _ in range(ndim)]
        dt = 10 ** rng.uniform(-2, 1.5)
        Fl = np.array([[rng.gauss(0, 1e-2) for _ in range(ndim)] for _ in range(max(nst, 1))])
        Ft = np.array([[rng.gauss(0, 1e-2) for _ in range(ndim)] for _ in range(max(nst, 1))])
        st = rng.randrange(max(nst, 1))
        el = StubElec(np.zeros((max(nst, 1),) * 2), np.zeros((max(nst, 1), max(nst, 1), ndim)), Fl)
        et = StubElec(np.zeros((max(nst, 1),) * 2), np.zeros((max(nst, 1), max(nst, 1), ndim)), Ft)
        model = StubModel(mass, max(nst, 1), [et])
        p = (np.array(mass) * np.array(v)).tolist()
        if k % 3 == 2:
            tr = mudslide.AdiabaticMD(model, x, p, dt=dt, electronics=et); st = 0; cls = "md"
        else:
            tr = mudslide.TrajectorySH(model, x, p, st, dt=dt, electronics=et); cls = "fssh"
        v_in = tr.velocity.tolist(); x_in = tr.position.tolist()
        ke = float(tr.kinetic_energy())
        tr.advance_position(None, et)
        x1 = tr.position.tolist()
        lastpos_ok = np.array_equal(tr.last_position, np.array(x_in))
        tr.advance_velocity(el, et)
        v1 = tr.velocity.tolist()
        lastvel_ok = np.array_equal(tr.last_velocity, np.array(v_in))
        cases.append(tup(fls(mass), fls(x_in), fls(v_in), fls(Fl[st]), fls(Ft[st]), fl(dt), fls(x1), fls(v1)))
        meta.append(dict(cls=cls, mass=mass, x=x_in, v=v_in, f_last=Fl[st].tolist(), f_this=Ft[st].tolist(), dt=dt, impl_x=x1, impl_v=v1))
        res.count("verlet/" + cls)
        res.case(("verlet", mass, x_in, v_in, dt), True)
        meta[-1]["last_ok"] = bool(lastpos_ok and lastvel_ok)   # judged by C07 (midpoint propagator), not here
        kecase = tup(fls(mass), fls(v_in), fl(ke))
        meta[-1]["ke"] = (kecase, ke)
    return cases, meta, bad


def run(tier, seed):
    res = Result("C01", tier, seed)
    rng = random.Random(seed)
    thm = check_theorems("C01")
    n = 240 if tier == "quick" else 24000
    hc, hmeta, hbad = hop_cases(res, rng, n)
    failing, errors = run_case_check("C01hop", PRELUDE, "bool * hopcase", "chk_hop_sk", hc, per_file=400)
    vc, vmeta, vbad = verlet_cases(res, rng, n // 2)
    f2, e2 = run_case_check("C01verlet", PRELUDE, "verletcase", "chk_verlet", vc, per_file=400)
    kc = [m["ke"][0] for m in vmeta]
    f3, e3 = run_case_check("C01ke", PRELUDE, "list float * list float * float", "chk_ke", kc, per_file=800)
    for e in errors + e2 + e3:
        res.violation("model evaluation failed (coqc)", dict(kind="coqc-error", log=e, no_failing_input_found=True))
    res.traces_validated = len(hc) + len(vc) + len(kc) - len(failing) - len(f2) - len(f3)
    # ---- whole loop-body passes of real FSSH runs replayed through Model/Traj.step (wiring of the pieces)
    import ptraj
    tc, tmeta = ptraj.collect(res, rng, 8 if tier == "quick" else 150, 64 if tier == "quick" else 1500)
    f4, e4 = run_case_check("C01traj", ptraj.PRELUDE_T, "caseT", "chkT", tc, per_file=8, timeout=1500)
    for e in e4:
        res.violation("model evaluation failed (coqc)", dict(kind="coqc-error", log=e, no_failing_input_found=True))
    res.traces_validated += len(tc) - len(f4)
    # ---- whole runs of AdiabaticMD on harmonic surfaces through the assembled loop Model/MD.md_harm_run (no oracle data), and the
    #      statements of C01_md_harmonic_* evaluated on the logged runs (shadow energy constant, N-independent bound on the energy error)
    import pmd
    mdbad = []
    mdc, mdmeta = pmd.collect(res, rng, 20 if tier == "quick" else 400, mdbad)
    f5, e5 = run_case_check("C01md", pmd.PRELUDE_M, "caseM", "chkM", mdc, per_file=100)
    for e in e5:
        res.violation("model evaluation failed (coqc)", dict(kind="coqc-error", log=e, no_failing_input_found=True))
    res.traces_validated += len(mdc) - len(f5)
    # ---- trajectory level: logged total energy drift is O(dt^2) (supporting oracle; the theorem part is partial)
    drift_bad = energy_drift_probe(res, rng, tier)
    bad = hbad + vbad + drift_bad + mdbad
    corr = [hmeta[i] for i in failing[:5]] + [vmeta[i] for i in f2[:5]] + [dict(ke_case=vmeta[i]) for i in f3[:5]] + [dict(full_step=tmeta[i]) for i in f4[:5]] + [dict(md_run=mdmeta[i]) for i in f5[:5]]
    if bad:
        res.violation("implementation violates: " + bad[0]["failed"], dict(kind="oracle", failing_inputs=bad[:5], correspondence_failures=corr))
    elif corr:
        only_full = bool(f4) and not (failing or f2 or f3 or f5)
        res.violation("loop body of TrajectorySH.simulate differs from Model/Traj.step (Run/RTraj.chkT): the pieces are wired in a different order or with different arguments; C01_full_step_hop_conserves_energy no longer covers the code"
                      if only_full else "implementation differs from Model/Hop.v (hop/Verlet theorems no longer cover the code)",
                      dict(kind="correspondence", correspondence="Run/RTraj.chkT: Model/Traj.step vs advance_position; advance_velocity; propagate_electronics; surface_hopping of TrajectorySH.simulate"
                           if only_full else "Run/R01: Model/Hop.v vs TrajectorySH.hop_to_it / advance_position / advance_velocity / kinetic_energy",
                           failing_inputs=corr, no_failing_input_found=True))
    return finish(res, thm,
                  rule="hop: ndim 1..6, masses 1..1e5, random/axis/near-parallel directions, gaps: downward, allowed, frustrated, 1e-13..1e-9 from threshold, exact dyadic ties; "
                       "driven through hop_to_it of TrajectorySH, TrajectoryCum, AugmentedFSSH and even-sampling children; Verlet: advance_position/advance_velocity of TrajectorySH and AdiabaticMD; "
                       "whole loop-body passes of real FSSH runs (simple, dual, extended, super, modelx, vibronic, modelw) replayed through Model/Traj.step; "
                       "non-trivial = distinct input tuple",
                  assumptions=["root selection: model uses c/q, numpy uses companion-matrix roots; compared at 2^-36 * velocity scale",
                               "decisions with relative margin < 2^-40 are knife-edge and excluded from the correspondence (still checked exactly on dyadic ties)",
                               "O(dt^2) drift for a general potential is not mechanised (partial); checked numerically as drift ratio ~4"])


def energy_drift_probe(res, rng, tier):
    """Supporting: the logged total energy of real runs drifts by an amount that shrinks quadratically with dt
    (ratio ~4 when halving dt) - every hopping class on every registered model (hop-free thresholds so that the
    two step sizes follow the same surface)."""
    import mudslide, queue
    from mudslide.models import scattering_models as M
    from mudslide.even_sampling import EvenSamplingTrajectory
    CLS = dict(fssh=mudslide.TrajectorySH, cumulative=mudslide.TrajectoryCum, afssh=mudslide.AugmentedFSSH, es_leaf=EvenSamplingTrajectory)
    SET = [("simple", [-3.0], [12.0], 0, 4.0, 150), ("dual", [-4.0], [14.0], 0, 4.0, 200), ("extended", [-4.0], [8.0], 0, 1.0, 500), ("super", [-5.0], [8.0], 0, 4.0, 250),
           ("modelx", [-8.0], [10.0], 0, 4.0, 300), ("models", [-8.0], [10.0], 1, 4.0, 300), ("modelw", [-1.0], [20.0], 0, 0.5, 100), ("modelz", [-1.0], [20.0], 0, 0.5, 100),
           ("vibronic", [0.1, -0.2, 0.15, 0.05, 0.6], [0.5, -0.3, 0.2, 0.1, 3.0], 1, 1.0, 80), ("shin-metiu", [-2.0], [10.0], 1, 2.0, 60)]
    known = set(e.get("key") for e in load_known_findings("C01"))
    combos = [(s_, c) for s_ in SET for c in CLS if not (c == "afssh" and s_[0] == "modelx")]
    if tier == "quick":
        rng.shuffle(combos)
        always = ("shin-metiu", "vibronic", "modelw", "modelz")
        combos = [c_ for c_ in combos if c_[0][0] in always] + [c_ for c_ in combos if c_[0][0] not in always][:8]
        # every model at least once
        combos += [(s_, rng.choice(list(CLS))) for s_ in SET if s_[0] not in set(c_[0][0] for c_ in combos)]
        combos = [c_ for c_ in combos if not (c_[1] == "afssh" and c_[0][0] == "modelx")]
    bad, khits = [], {}
    for (name, x0, p0, st, dt0, n0), cn in combos:
        drifts = []
        for dt, n in ((dt0, n0), (dt0 / 2, 2 * n0)):
            kw = dict(dt=dt, max_steps=n, zeta_list=[2.0] * (n + 5), seed_sequence=3)
            if cn == "es_leaf": kw.update(spawn_stack=None, queue=queue.Queue())
            log = CLS[cn](M[name](), x0, p0, st, **kw).simulate()
            e = np.array([s_["energy"] for s_ in log]); drifts.append(float(np.max(np.abs(e - e[0]))))
        ratio = drifts[0] / max(drifts[1], 1e-300)
        res.count("drift-probe/" + name); res.count("drift-probe-class/" + cn)
        res.extra.setdefault("drift_ratios", {})["%s/%s" % (name, cn)] = [drifts[0], drifts[1], ratio]
        if 2.8 < ratio < 5.5 or drifts[0] < 1e-12:
            continue
        key = {"modelw": "modelw-energy-drift", "modelz": "modelz-energy-drift"}.get(name)
        if key in known and ratio < 1.3:
            khits.setdefault(key, []).append((cn, drifts[0]))
        else:
            bad.append(dict(failed="energy drift shrinks quadratically with dt (%s on model %s: max|E-E0| %r at dt=%g, %r at dt=%g)" % (cn, name, drifts[0], dt0, drifts[1], dt0 / 2),
                            case=dict(model=name, cls=cn, x0=x0, p0=p0, state=st, dt=[dt0, dt0 / 2], steps=[n0, 2 * n0])))
    for key, hits in sorted(khits.items()):
        res.known_finding({key: "total energy drifts by %.3g Hartree independently of dt on %s (%d runs: %s): its dV is not the gradient of V (see the C05 finding), so the force is not minus the energy gradient"
                                % (hits[0][1], "SubotnikModelW" if "w-" in key else "SubotnikModelZ", len(hits), ",".join(h[0] for h in hits))}[key])
    return bad
