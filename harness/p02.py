"""C02 — the electronic density matrix stays a valid quantum state."""
import random
import numpy as np
from common import *

PRELUDE = "From MV Require Import Vec Cplx Mat Propagate R02.\n"
MODELS = [("simple", [-3.0], [12.0]), ("dual", [-4.0], [20.0]), ("extended", [-5.0], [8.0]), ("super", [-5.0], [10.0]),
          ("modelx", [-9.0], [12.0]), ("models", [-9.0], [12.0]), ("modelw", [-1.5], [20.0]), ("modelz", [-1.0], [20.0]),
          ("vibronic", [0.1, -0.2, 0.15, 0.05, 0.3], [0.5, -0.3, 0.2, 0.1, 1.0]), ("shin-metiu", [-2.0], [5.0])]


def rand_rho(rng, n, kind):
    if kind == "pure-coherent":
        a = np.array([complex(rng.gauss(0, 1), rng.gauss(0, 1)) for _ in range(n)]); a /= np.linalg.norm(a)
        return np.outer(a, a.conj())
    A = np.array([[complex(rng.gauss(0, 1), rng.gauss(0, 1)) for _ in range(n)] for _ in range(n)])
    r = A @ A.conj().T
    return r / np.trace(r).real


def validity(rho, pure0, tol=1e-9, tol_exact=1e-9):
    """tol_exact: Hermiticity and trace (preserved exactly by both integrators, C02 theorems);
    tol: populations / purity / positivity (exact for 'exp'; integrator accuracy for 'linear-rk4', which is not unitary)"""
    n = rho.shape[0]
    if np.max(np.abs(rho - rho.conj().T)) > tol_exact: return "Hermitian (max |rho - rho^dagger| = %.2e)" % np.max(np.abs(rho - rho.conj().T))
    if abs(np.trace(rho).real - 1.0) > tol_exact: return "unit trace (trace = %r)" % np.trace(rho)
    d = np.real(np.diag(rho))
    if np.any(d < -tol) or np.any(d > 1 + tol): return "populations in [0,1] (%r)" % d.tolist()
    if pure0 and np.max(np.abs(rho @ rho - rho)) > 10 * tol: return "a pure state stays pure (max |rho^2 - rho| = %.2e)" % np.max(np.abs(rho @ rho - rho))
    ev = np.linalg.eigvalsh(0.5 * (rho + rho.conj().T))
    if ev[0] < -10 * tol: return "positive semidefinite (min eigenvalue %.2e)" % ev[0]
    return None


def run(tier, seed):
    import mudslide
    from mudslide.models import scattering_models as M
    res = Result("C02", tier, seed)
    rng = random.Random(seed)
    thm = check_theorems("C02")
    nruns = 30 if tier == "quick" else 700
    cases, meta, bad = [], [], []
    for it in range(nruns):
        mname, x0, p0 = MODELS[it % len(MODELS)]
        integ = ["exp", "linear-rk4"][(it // len(MODELS)) % 2] if it < 2 * len(MODELS) else rng.choice(["exp", "linear-rk4", "linear-rk4"])      # every model with both integrators, then random
        cls = rng.choice([mudslide.TrajectorySH, mudslide.Ehrenfest, mudslide.TrajectoryCum, mudslide.AugmentedFSSH])
        # every model with both integrators in the adiabatic representation first; beyond that half the runs use the
        # diabatic representation (full symmetric H, zero couplings)
        diab = it >= 2 * len(MODELS) and rng.random() < 0.5 and mname != "shin-metiu"
        mkw = dict(nstates=rng.choice([4, 5]), nel=32) if mname == "shin-metiu" and (integ != "exp" or rng.random() < 0.5) else {}
        model = M[mname](representation="diabatic") if diab else M[mname](**mkw)
        if diab and len(x0) == 1:
            x0 = [rng.uniform(-1.0, -0.2)]       # inside the coupling region, where the diabatic Hamiltonian is far from diagonal
        n = model.nstates()
        if cls is mudslide.AugmentedFSSH and (n != 2 or diab): cls = mudslide.TrajectorySH
        kind = rng.choice(["state", "pure-coherent", "mixed"])
        dt = rng.choice([2.0, 5.0, 10.0]) if integ == "exp" else rng.choice([0.4, 0.8, 1.5, 0.7, 0.9, 1.3, 2.4, round(rng.uniform(0.3, 3.0), 2)])     # non-dyadic steps: the sub-step clock must not lose the last sub-step to rounding
        nsteps = rng.randint(10, 40) if integ == "exp" else rng.randint(30, 60)
        kw = dict(dt=dt, max_steps=nsteps, electronic_integration=integ, seed_sequence=rng.randrange(2 ** 31))
        if diab:
            kw["zeta_list"] = [1.0e9] * (nsteps + 5)     # no hops (a coherent start with a small active population can give g > 2): the rescaling direction (derivative coupling) is the zero vector in the diabatic representation
            if cls is mudslide.TrajectoryCum: cls = mudslide.TrajectorySH
        if cls is mudslide.AugmentedFSSH:
            kw["augmented_integration"] = "exp" if integ == "exp" else "rk4"   # the default (= electronic_integration) is not accepted for linear-rk4
        if kind == "state":
            tr = cls(model, x0, p0, rng.randrange(n), **kw); pure0 = True
        else:
            rho0 = rand_rho(rng, n, kind); tr = cls(model, x0, p0, rho0, state0=rng.randrange(n), **kw); pure0 = (kind == "pure-coherent")
        info = dict(model=mname, cls=cls.__name__, integrator=integ, dt=dt, initial=kind, nstates=n, representation="diabatic" if diab else "adiabatic")
        recorded = []
        orig = tr.propagate_electronics
        def prop(le, te, dt_, tr=tr, orig=orig, recorded=recorded, integ=integ):
            W = tr.hamiltonian_propagator(le, te)
            rho_b = tr.rho.copy(); v = tr.velocity.copy(); lv = tr.last_velocity.copy()
            if integ == "exp":
                lam, Cm = np.linalg.eigh(W)
            else:
                lam, Cr = np.linalg.eigh(le.hamiltonian()); Cm = Cr.astype(complex)
            orig(le, te, dt_)
            recorded.append(dict(H0=le.hamiltonian().copy(), H1=te.hamiltonian().copy(), t0=le.derivative_coupling_tensor().copy(), t1=te.derivative_coupling_tensor().copy(),
                                 v=v, lv=lv, lam=lam, C=Cm, W=W, rho_b=rho_b, rho_a=tr.rho.copy()))
        tr.propagate_electronics = prop
        orig_hop = tr.hop_to_it
        def hop(targets, electronics=None, tr=tr, orig_hop=orig_hop):
            b = tr.rho.copy(); orig_hop(targets, electronics)
            if not np.array_equal(b, tr.rho):
                bad.append(dict(failed="hop attempts do not alter the density matrix", case=info))
        tr.hop_to_it = hop
        try:
            log = tr.simulate()
        except np.linalg.LinAlgError as ex:
            # a hop attempted along a zero rescaling vector (A-FSSH before any moment has built up, or a vanishing coupling):
            # NaN velocities - outside the quantifier of every property here (DESIGN 4, observations); skip the run
            res.count("skipped/zero-rescale-vector"); res.extra.setdefault("skipped_runs", []).append(dict(info, reason=str(ex))); continue
        # the statement on every logged density matrix
        collapsed = bool(getattr(log, "events", {}).get("collapse"))
        for s in log:
            # 'linear-rk4' is not unitary: populations / purity / positivity hold to the integrator's accuracy, which accumulates with the
            # elapsed time (measured: up to 3.6e-3 after 36 a.u. on the 8-state model W); Hermiticity and trace stay exact (theorem)
            f = validity(np.asarray(s["density_matrix"]), pure0 and not collapsed, tol=1e-9 if integ == "exp" else 3e-4 * (1.0 + (float(s["time"]) - float(log[0]["time"])) / 10.0))
            if f:
                bad.append(dict(failed="density matrix stays " + f, case=dict(info, time=s["time"]))); break
        res.count("representation/" + info["representation"] + "/" + integ)
        res.count("integrator/" + integ); res.count("initial/" + kind); res.count("nstates/%d" % n); res.count("class/" + cls.__name__)
        # oracle spec of eigh + model correspondence, a few steps per run
        for k in sorted(set([0] + rng.sample(range(len(recorded)), min(len(recorded), 3 if tier == "quick" else 6)))) if recorded else []:   # step 0 always: the only step that sees the initial (possibly mixed) matrix
            r = recorded[k]
            Cm, lam = r["C"], r["lam"]
            Wt = r["W"] if integ == "exp" else r["H0"].astype(complex)
            sc = max(1e-300, np.max(np.abs(Wt)))
            if np.max(np.abs(Cm.conj().T @ Cm - np.eye(n))) > 1e-11 or np.max(np.abs(Cm @ Cm.conj().T - np.eye(n))) > 1e-11 \
               or np.max(np.abs(Wt @ Cm - Cm * lam)) > 1e-11 * sc + 1e-13 or np.any(np.diff(lam) < 0):
                res.notes.append("eigh oracle spec residual exceeded at %s step %d" % (mname, k))
            if n > 3 and integ != "exp" and tier == "quick":
                continue
            cases.append(tup(nat(0 if integ == "exp" else 1), nat(n), flss(r["H0"]), flss(r["H1"]),
                             lst([lst([fls(r["t0"][i, j]) for j in range(n)]) for i in range(n)]), lst([lst([fls(r["t1"][i, j]) for j in range(n)]) for i in range(n)]),
                             fls(r["v"]), fls(r["lv"]), fls(lam), cxss(Cm), fl(dt), cxss(r["rho_b"]), cxss(r["W"]), cxss(r["rho_a"])))
            meta.append(dict(info, step=k))
            res.case(("step", mname, integ, kind, dt, k, it), True, dict(info, step=k, rho_before=[[z.real, z.imag] for z in r["rho_b"][0]]) if k == 0 else None)
    # an A-FSSH collapse (also one landing in the same step as an accepted hop) replaces rho by the pure active state
    import p11
    p11.collapse_probe(res, rng, tier, bad)
    # ---- whole loop-body passes with the linear-rk4 integrator replayed through Model/Traj.step_rk4
    import ptraj
    tc, tmeta = ptraj.collect(res, rng, 8 if tier == "quick" else 100, 56 if tier == "quick" else 800, kind="sh", integ="rk4")
    f4, e4 = run_case_check("C02traj", ptraj.PRELUDE_T, "caseT", "chkTr", tc, per_file=4, timeout=1500)
    for e in e4:
        res.violation("model evaluation failed (coqc)", dict(kind="coqc-error", log=e, no_failing_input_found=True))
    res.traces_validated = len(tc) - len(f4)
    rk4_corr = [dict(tmeta[i], what="full pass, linear-rk4") for i in f4[:4]]
    failing, errors = run_case_check("C02", PRELUDE, "case02", "chk02", cases, per_file=6, timeout=1500)
    for e in errors:
        res.violation("model evaluation failed (coqc)", dict(kind="coqc-error", log=e, no_failing_input_found=True))
    res.traces_validated += len(cases) - len(failing)
    corr = [meta[i] for i in failing[:4]] + rk4_corr
    if bad:
        res.violation("implementation violates: " + bad[0]["failed"], dict(kind="oracle", failing_inputs=bad[:4], correspondence_failures=corr))
    elif corr:
        res.violation("implementation differs from Model/Propagate.v (theorems no longer cover the code)",
                      dict(kind="correspondence", correspondence="Run/R02.chk02: Wmid/exp_step/rk4_step vs hamiltonian_propagator/propagate_electronics", failing_inputs=corr, no_failing_input_found=True))
    return finish(res, thm,
                  rule="runs of TrajectorySH / Ehrenfest / TrajectoryCum / AugmentedFSSH on the 10 registered models (2, 3, 8 states; 1-D and 5-D), both integrators, initial state index / pure coherent / mixed density matrix; "
                       "whole loop-body passes of linear-rk4 runs replayed through Model/Traj.step_rk4; every logged density matrix checked (Hermitian, trace, populations, purity, min eigenvalue); sampled steps replayed through Wmid + exp_step / rk4_step with numpy's eigh output as oracle input "
                       "(oracle residuals checked); non-trivial = distinct replayed step",
                  assumptions=["np.linalg.eigh called by the harness on the same matrix returns what the implementation got (deterministic LAPACK)",
                               "tolerances: W 2^-44 relative, rho 2^-38 (exp) / 2^-34 (rk4) absolute"])
