"""C03 — fewest-switches probabilities and target choice."""
import random, math
import numpy as np
from common import *
from stubs import *

PRELUDE = "From MV Require Import Vec Cplx Poisson Hopper R03.\n"


def rand_rho(rng, n, pure=False):
    A = np.array([[complex(rng.gauss(0, 1), rng.gauss(0, 1)) for _ in range(1 if pure else n)] for _ in range(n)])
    rho = A @ A.conj().T
    return rho / np.trace(rho).real


def make_step(rng, n, ndim):
    mass = [10 ** rng.uniform(2, 4) for _ in range(ndim)]
    full = rng.random() < 0.5      # diabatic-like: real symmetric H with off-diagonal elements
    def elec():
        e = sorted(rng.uniform(-0.05, 0.05) for _ in range(n))
        H = np.diag(e)
        if full:
            for i in range(n):
                for j in range(i):
                    H[i, j] = H[j, i] = rng.uniform(-0.03, 0.03)
        return StubElec(H, rand_antisym_dc(rng, n, ndim, 1.0), np.zeros((n, ndim)))
    return mass, elec(), elec()


def drive(rng, n, ndim, k, pois, zeta, rho, dt):
    import mudslide
    mass, le, te = make_step(rng, n, ndim)
    model = StubModel(mass, n, [te])
    p0 = [rng.gauss(0, 10.0) for _ in range(ndim)]
    tr = mudslide.TrajectorySH(model, [0.0] * ndim, p0, rho, state0=k, dt=dt, electronics=te,
                               hopping_probability="poisson" if pois else "tully", zeta_list=[zeta])
    tr.last_velocity = tr.velocity * (1 + 0.01 * rng.gauss(0, 1))
    W = tr.hamiltonian_propagator(le, te)
    cap = {}
    orig = tr.hopper
    def hopper(g):
        cap["g"] = np.array(g, dtype=float).copy()
        out = orig(g)
        cap["out"] = out
        return out
    tr.hopper = hopper
    tr.hop_to_it = lambda targets, electronics=None: cap.setdefault("hop_to_it", targets)
    tr.surface_hopping(le, te)
    tgt = cap["out"][0]["target"] if cap["out"] else n
    return dict(W=W, g=cap["g"], target=int(tgt), hopping=float(tr.hopping), zeta_used=float(tr.zeta), out=cap["out"])


def slot_ref(probs, zeta):
    acc = 0.0
    for i, p in enumerate(probs):
        acc = acc + p if i else p
        if zeta < acc:
            return i
    return len(probs)


def run(tier, seed):
    import mudslide
    from mudslide.math import poisson_prob_scale
    res = Result("C03", tier, seed)
    rng = random.Random(seed)
    thm = check_theorems("C03")
    ncase = 200 if tier == "quick" else 3000
    cases, meta, bad = [], [], []
    for it in range(ncase):
        n = rng.choice([2, 2, 3, 4, 5, 8]); ndim = rng.choice([1, 2, 3]); k = rng.randrange(n)
        pois = rng.random() < 0.5
        rho = rand_rho(rng, n, pure=rng.random() < 0.3)
        if rho[k, k].real < 0.02:
            continue
        dt = 10 ** rng.uniform(-1, 1.7)
        # dry run to learn the probabilities, then place zeta
        st = rng.getstate()
        d0 = drive(rng, n, ndim, k, pois, 2.0, rho, dt)
        g = d0["g"]
        ps = g * float(poisson_prob_scale(np.sum(g))) if pois else g
        cs = np.cumsum(ps)
        mode = rng.choice(["inside", "boundary", "ulp", "above", "zero"])
        if mode == "inside" and cs[-1] > 0:
            j = rng.choice([i for i in range(n) if ps[i] > 0]); lo = cs[j] - ps[j]
            zeta = lo + rng.uniform(0.05, 0.95) * ps[j]
        elif mode == "boundary" and cs[-1] > 0:
            zeta = float(rng.choice(list(cs)))
        elif mode == "ulp" and cs[-1] > 0:
            c = float(rng.choice(list(cs))); zeta = float(np.nextafter(c, rng.choice([0.0, 2.0])))
        elif mode == "above":
            zeta = min(0.999999, float(cs[-1]) * (1 + rng.uniform(0.01, 2)) + 1e-12)
        else:
            zeta = 0.0
        rng.setstate(st)
        d = drive(rng, n, ndim, k, pois, zeta, rho, dt)
        W = d["W"]
        cases.append(tup(cxs(rho[k, :]), cxs(W[:, k]), nat(k), fl(dt), bl(pois), fl(zeta), fls(d["g"]), nat(d["target"]), fl(d["hopping"]), bl(False)))
        info = dict(kind="surface_hopping", n=n, k=k, dt=dt, poisson=pois, zeta=zeta, rho_row=[[z.real, z.imag] for z in rho[k, :]], W_col=[[z.real, z.imag] for z in W[:, k]],
                    impl=dict(g=d["g"].tolist(), target=d["target"], hopping=d["hopping"]))
        meta.append(info)
        res.count("path/surface_hopping"); res.count("zeta/" + mode); res.count("option/" + ("poisson" if pois else "tully"))
        res.count("target/" + ("none" if d["target"] == n else "slot%d" % d["target"]))
        res.case(("sh", n, k, dt, pois, zeta, rho.tobytes()), True, info)
        # ---- oracle: the statement itself
        b = 2.0 * np.imag(rho[k, :] * W[:, k])
        ref = np.maximum(b * dt / rho[k, k].real, 0.0); ref[k] = 0.0
        sc = max(1e-300, np.max(np.abs(ref)))
        if np.any(d["g"] < 0) or d["g"][k] != 0.0:
            bad.append(dict(failed="probabilities non-negative and zero for n = k", case=info))
        elif np.max(np.abs(d["g"] - ref)) > 1e-12 * sc:
            bad.append(dict(failed="g_kn = max(0, b_kn dt / rho_kk) with b_kn = 2 Im(rho_kn W_nk)", case=info, reference=ref.tolist()))
        rhodot = -1j * (W @ rho - rho @ W)
        unclipped = b * dt / rho[k, k].real; unclipped[k] = 0.0
        # sum over n != k of b_kn equals -d rho_kk/dt (b_kk = 0 for Hermitian rho, W)
        if abs(np.sum(b) + rhodot[k, k].real) > 1e-10 * (np.sum(np.abs(b)) + 1e-300):
            bad.append(dict(failed="unclipped fluxes sum to minus the rate of change of population k", case=info))
        bT = 2.0 * np.imag(rho.T * W)    # bT[n,k] = 2 Im(rho_kn W_nk) = b_kn
        if np.max(np.abs(bT + bT.T)) > 1e-10 * (np.max(np.abs(bT)) + 1e-300):
            bad.append(dict(failed="oracle self-check: flux antisymmetry of generated Hermitian data", case=info))
        want = slot_ref(list(ps), d["zeta_used"])
        near = np.min(np.abs(cs - d["zeta_used"])) <= 1e-12 * (cs[-1] + 1e-300) if pois else False
        if d["zeta_used"] != zeta:
            bad.append(dict(failed="user-supplied threshold is the one used", case=info))
        elif want != d["target"] and not near:
            bad.append(dict(failed="hop target = first slot of the cumulative partition containing zeta (want %d got %d)" % (want, d["target"]), case=info))
        if pois and np.sum(g) > 0:
            tot = float(np.sum(ps)); G = float(np.sum(g))
            if abs(d["hopping"] - (-math.expm1(-G))) > 1e-12 * max(G, 1e-300) + 1e-15:
                bad.append(dict(failed="poisson total = 1 - exp(-sum g)", case=info))
    # ---- direct hopper calls with dyadic probabilities: exact boundaries, strict
    model = StubModel([1.0], 8)
    for it in range(ncase // 2):
        n = rng.choice([2, 3, 4, 8]); k = rng.randrange(n)
        g = np.array([rng.choice([0, 1, 2, 3, 5]) / 2.0 ** rng.randint(3, 9) for _ in range(n)]); g[k] = 0.0
        cs = np.cumsum(g)
        mode = rng.choice(["boundary", "ulp-below", "ulp-above", "inside", "zero"])
        c = float(rng.choice(list(cs)))
        zeta = {"boundary": c, "ulp-below": float(np.nextafter(c, -1.0)), "ulp-above": float(np.nextafter(c, 2.0)),
                "inside": float(cs[-1] * rng.random()), "zero": 0.0}[mode]
        if zeta < 0: zeta = 0.0
        model._nst = n
        tr = mudslide.TrajectorySH(model, [0.0], [1.0], k, dt=1.0, zeta_list=[zeta])
        out = tr.hopper(g.copy())
        tgt = int(out[0]["target"]) if out else n
        zc = [(0.0, 0.0)] * n
        # case in the common layout: feed g directly by making flux reproduce it is not possible; use a dedicated checker
        cases.append(tup(lst([]), lst([]), nat(k), fl(1.0), bl(False), fl(zeta), fls(g), nat(tgt), fl(float(tr.hopping)), bl(True)))
        info = dict(kind="hopper-direct", g=g.tolist(), k=k, zeta=zeta, mode=mode, impl=dict(target=tgt, hopping=float(tr.hopping)))
        meta.append(info)
        res.count("path/hopper-direct"); res.count("zeta/dyadic-" + mode)
        res.count("target/" + ("none" if tgt == n else "slot%d" % tgt))
        res.case(("hd", tuple(g), k, zeta), True)
        want = slot_ref(list(g), zeta)
        if want != tgt:
            bad.append(dict(failed="hop target = first slot of the cumulative partition containing zeta (exact dyadic case: want %d got %d)" % (want, tgt), case=info))
        if out and (out[0]["zeta"] != zeta or abs(out[0]["prob"] - cs[tgt]) > 0):
            bad.append(dict(failed="hop record carries the threshold and the cumulative probability of the slot", case=info))
    # ---- the Poisson option given on the command line reaches the trajectories of every class that applies it in its hopper
    import io, mudslide.__main__ as mm
    for alg, C_ in [("fssh", mudslide.TrajectorySH), ("afssh", mudslide.AugmentedFSSH)]:
        for prob in ("tully", "poisson"):
            seen = []
            o_init = C_.__init__
            def spy(self_, *a, _o=o_init, **k):
                _o(self_, *a, **k); seen.append(getattr(self_, "hopping_probability", None))
            C_.__init__ = spy
            try:
                mm.main(["-m", "simple", "-a", alg, "-p", prob, "-n", "1", "-k", "12", "12", "-s", "2", "-z", "5", "-x", "-3", "-b", "3.5"], file=io.StringIO())
            finally:
                C_.__init__ = o_init
            res.count("cli-probability-option/%s/%s" % (alg, prob))
            if not seen or any(v != prob for v in seen):
                bad.append(dict(failed="the Poisson option scales the hop probabilities (command line -a %s -p %s built trajectories with hopping_probability=%r)" % (alg, prob, seen), case=dict(algorithm=alg, option=prob)))
    checker = ("fun c : case03 => let '(rr, wc, k, dt, pois, zeta, ig, itg, ihop, strict) := c in\n"
               " if strict then (let '(tg, hp) := hopper FOps pois ig zeta in Nat.eqb (opt_to_nat (length ig) tg) itg && fclose 0 0x1p-50 hp ihop)\n"
               " else chk03 c")
    failing, errors = run_case_check("C03", PRELUDE, "case03", checker, cases, per_file=300)
    for e in errors:
        res.violation("model evaluation failed (coqc)", dict(kind="coqc-error", log=e, no_failing_input_found=True))
    res.traces_validated = len(cases) - len(failing)
    corr = [meta[i] for i in failing[:6]]
    if bad:
        res.violation("implementation violates: " + bad[0]["failed"], dict(kind="oracle", failing_inputs=bad[:5], correspondence_failures=corr))
    elif corr:
        res.violation("implementation differs from Model/Hopper.v (theorems no longer cover the code)",
                      dict(kind="correspondence", correspondence="Run/R03.chk03: Model/Hopper.v vs TrajectorySH.surface_hopping/hopper", failing_inputs=corr, no_failing_input_found=True))
    return finish(res, thm,
                  rule="random Hermitian PSD rho (mixed and pure), Hermitian W from hamiltonian_propagator on random stub electronics, 2..8 states, both options, zeta inside a slot / on a boundary / one ulp off / above the total / zero, through surface_hopping; "
                       "plus direct hopper calls with dyadic probabilities and thresholds exactly on, one ulp below and above every boundary (compared exactly); non-trivial = distinct input",
                  assumptions=["zeta within 2^-40*scale of a boundary is knife-edge for the non-dyadic path", "numpy np.sum pairwise order vs model left fold: 2^-44 tolerance on `hopping`"])
