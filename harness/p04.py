"""C04 — frustrated hops, rescaling direction, event log vs trace."""
import random, os, shutil, tempfile
import numpy as np
import yaml
from common import *
from stubs import *
import p01

PRELUDE = "From MV Require Import Vec Hop R01 Events.\n"
MODELS = [("simple", 2, -3.0, (8.0, 16.0)), ("dual", 2, -4.0, (10.0, 30.0)), ("extended", 2, -6.0, (3.0, 12.0)),
          ("super", 3, -6.0, (4.0, 12.0)), ("modelx", 3, -9.0, (8.0, 15.0)), ("modelw", 8, -2.0, (10.0, 30.0))]


def run_traj(cls, mname, x0, p0, dt, nsteps, rng, backend, tmpdir):
    import mudslide
    from mudslide.models import scattering_models as M
    from mudslide.tracer import YAMLTrace, InMemoryTrace
    model = M[mname]()
    nst = model.nstates()
    zl = [rng.choice([2.0, 2.0, 10 ** rng.uniform(-6, -1), rng.uniform(0, 0.3)]) for _ in range(nsteps + 5)]
    tracer = InMemoryTrace() if backend == "memory" else YAMLTrace(base_name="t", location=tmpdir, log_pitch=rng.choice([3, 7, 512]))
    kw = dict(dt=dt, max_steps=nsteps, zeta_list=list(zl), tracer=tracer, seed_sequence=rng.randrange(2 ** 31))
    rho0 = rng.randrange(nst) if rng.random() < 0.5 else 0
    Cls = dict(fssh=mudslide.TrajectorySH, cumulative=mudslide.TrajectoryCum, afssh=mudslide.AugmentedFSSH)[cls]
    if cls == "cumulative":
        kw["zeta_list"] = [rng.uniform(0.0, 0.2) for _ in range(40)]
    tr = Cls(model, [x0], [p0], rho0, **kw)
    atts = []
    orig_hopper, orig_allowed = tr.hopper, tr.hop_allowed
    cur = {}

    def hopper(g):
        out = orig_hopper(g)
        cur["t"] = [int(h["target"]) for h in out]
        return out

    def hop_allowed(d, dE):
        r = bool(orig_allowed(d, dE))
        cur["a"] = r
        return r
    tr.hopper, tr.hop_allowed = hopper, hop_allowed
    orig_sh = tr.surface_hopping

    def surface_hopping(le, te):
        cur.clear()
        orig_sh(le, te)
        if cur.get("t"):
            atts.append((cur["t"][0], cur.get("a")))
        else:
            atts.append(None)
    tr.surface_hopping = surface_hopping
    log = tr.simulate()
    snaps = [s for s in log]
    active = [int(s["active"]) for s in snaps]
    times = [float(s["time"]) for s in snaps]
    if backend == "memory":
        hops = [dict(h) for h in log.hops]
        fr = [dict(e) for e in log.events.get("frustrated_hop", [])]
    else:
        with open(os.path.join(tmpdir, log.event_log)) as f:
            evs = yaml.safe_load(f) or []
        hops = [e for e in evs if e.get("event") == "hop"]
        fr = [e for e in evs if e.get("event") == "frustrated_hop"]
    return dict(active=active, times=times, hops=hops, fr=fr, atts=atts, rho0=rho0)


def event_index(times, t):
    for k, tt in enumerate(times):
        if tt == t:
            return k
    return None


def traj_oracle(o):
    """C04 third sentence on the implementation's own log."""
    act, times = o["active"], o["times"]
    want = [(k, act[k], act[k + 1]) for k in range(len(act) - 1) if act[k] != act[k + 1]]
    got = []
    for h in o["hops"]:
        k = event_index(times, float(h["time"]))
        if k is None:
            return "hop event time equals the time of a logged snapshot (t=%r)" % h["time"]
        got.append((k, int(h["from"]), int(h["to"])))
    if sorted(got) != want:
        return "changes of active state between snapshots match the hop events exactly (trace: %r, events: %r)" % (want, got)
    nfr = sum(1 for a in o["atts"] if a is not None and a[1] is False)
    if len(o["fr"]) != nfr:
        return "each rejected attempt yields exactly one frustrated_hop event (%d rejected, %d events)" % (nfr, len(o["fr"]))
    for f in o["fr"]:
        k = event_index(times, float(f["time"]))
        if k is None or act[k] != int(f["from"]):
            return "frustrated event carries time and source state of its step"
    return None


def run(tier, seed):
    res = Result("C04", tier, seed)
    rng = random.Random(seed)
    thm = check_theorems("C04")
    n = 200 if tier == "quick" else 3000
    hc, hmeta, hbad = p01.hop_cases(res, rng, n)
    failing, errors = run_case_check("C04hop", PRELUDE, "bool * hopcase", "chk_hop_sk", hc, per_file=400)
    # ---- trajectory level
    tmproot = os.path.join(OUT, "tmp", "C04traj"); shutil.rmtree(tmproot, ignore_errors=True); os.makedirs(tmproot)
    ntraj = 36 if tier == "quick" else 400
    tcases, tmeta, tbad = [], [], []
    for k in range(ntraj):
        cls = ["fssh", "cumulative", "afssh"][k % 3]
        mname, nst, x0, (plo, phi) = MODELS[(k // 3) % len(MODELS)]
        if cls == "afssh" and nst != 2:      # A-FSSH collapse is defined for two states only (asserted by the code)
            mname, nst, x0, (plo, phi) = MODELS[(k // 3) % 3]
        backend = "memory" if (k // 18) % 2 == 0 else "yaml"
        p0 = rng.uniform(plo, phi); dt = rng.choice([5.0, 10.0, 20.0]); nsteps = rng.randint(30, 120)
        d = os.path.join(tmproot, "t%d" % k); os.makedirs(d)
        try:
            o = run_traj(cls, mname, x0, p0, dt, nsteps, rng, backend, d)
        finally:
            shutil.rmtree(d, ignore_errors=True)
        info = dict(cls=cls, model=mname, x0=x0, p0=p0, dt=dt, nsteps=nsteps, backend=backend)
        f = traj_oracle(o)
        if f:
            tbad.append(dict(failed=f, case=info, impl=dict(active=o["active"], hops=o["hops"], frustrated=o["fr"])))
        nh, nf = len(o["hops"]), len(o["fr"])
        res.count("traj/%s/%s" % (cls, backend)); res.count("traj-hops", nh); res.count("traj-frustrated", nf)
        res.case(("traj", cls, mname, p0, dt, nsteps, backend), nh + nf > 0, dict(info, hops=nh, frustrated=nf) if nh else None)
        # model: replay the observed attempts
        atts = lst(["NoAttempt" if a is None else "Attempt %s %s" % (nat(a[0]), bl(bool(a[1]))) for a in o["atts"]])
        evs = []
        for h in o["hops"]:
            evs.append((event_index(o["times"], float(h["time"])), 0, int(h["from"]), int(h["to"])))
        for e in o["fr"]:
            evs.append((event_index(o["times"], float(e["time"])), 1, int(e["from"]), int(e["to"])))
        if any(e[0] is None for e in evs):
            continue
        evs.sort()
        evl = lst([("EHop %s %s %s" if kd == 0 else "EFrustrated %s %s %s") % (nat(k_), nat(a_), nat(b_)) for k_, kd, a_, b_ in evs])
        tcases.append(tup(nat(o["active"][0]), atts, lst([nat(a) for a in o["active"][1:]]), evl))
        tmeta.append(info)
    # ---- complete even-sampling trees: every trace (children inherit the parent's history) must satisfy the same statement
    import mudslide
    from mudslide.models import scattering_models as MM
    from mudslide.batch import BatchedTraj, TrajGenConst
    from mudslide.tracer import TraceManager, InMemoryTrace, YAMLTrace
    from mudslide.even_sampling import EvenSamplingTrajectory
    for k in range(6 if tier == "quick" else 60):
        mname, nst, x0, (plo, phi) = MODELS[k % 4]
        backend = ["memory", "yaml"][k % 2]; stack = [[2], [3, 2], [2, 2, 2], [2, 2]][(k // 2) % 4]
        d = os.path.join(tmproot, "es%d" % k); os.makedirs(d)
        tm = TraceManager(TraceType=InMemoryTrace) if backend == "memory" else TraceManager(TraceType=YAMLTrace, trace_kwargs=dict(location=d, log_pitch=rng.choice([4, 512])))
        p0 = rng.uniform(plo, phi); dt = rng.choice([10.0, 20.0])
        b = BatchedTraj(MM[mname](), TrajGenConst([x0], [p0], 0, seed=rng.randrange(2 ** 31)), EvenSamplingTrajectory, samples=1, dt=dt, bounds=[-abs(x0) - 1, abs(x0) + 1], max_steps=800,
                        tracemanager=tm, spawn_stack=list(stack), quadrature=rng.choice(["gl", "midpoint"]), mcsamples=rng.choice([1, 1, 2]))
        r = b.compute()
        info = dict(cls="even-sampling tree", model=mname, x0=x0, p0=p0, dt=dt, stack=stack, backend=backend, traces=len(r.traces))
        for ti, t in enumerate(r.traces):
            snaps = [s_ for s_ in t]
            if backend == "memory":
                hops = [dict(h) for h in t.hops]; fr = [dict(e) for e in t.events.get("frustrated_hop", [])]
            else:
                with open(os.path.join(d, t.event_log)) as f_:
                    evs_ = yaml.safe_load(f_) or []
                hops = [e for e in evs_ if e.get("event") == "hop"]; fr = [e for e in evs_ if e.get("event") == "frustrated_hop"]
            tlast = float(snaps[-1]["time"])
            # a child spawned with zero weight or on the last allowed step returns at once (C16: a limit already met at the start logs nothing):
            # the hop that created it is on record but no snapshot follows it
            trailing = [h for h in hops if float(h["time"]) >= tlast]
            if trailing:
                res.count("es-tree-children-that-never-stepped")
                if len(trailing) > 1 or len(snaps) != len([s_ for s_ in snaps if float(s_["time"]) <= tlast]):
                    tbad.append(dict(failed="even-sampling tree, trace %d: more than one hop event after the last snapshot" % ti, case=info)); break
                hops = [h for h in hops if float(h["time"]) < tlast]
            o = dict(active=[int(s_["active"]) for s_ in snaps], times=[float(s_["time"]) for s_ in snaps], hops=hops, fr=fr, atts=[(0, False)] * len(fr))
            f = traj_oracle(o)
            res.count("es-tree-traces/" + backend); res.count("es-tree-hops", len(hops))
            if f:
                tbad.append(dict(failed="even-sampling tree, trace %d of %d: %s" % (ti, len(r.traces), f), case=info)); break
        res.case(("estree", mname, p0, dt, tuple(stack), backend), len(r.traces) > 1, info)
        shutil.rmtree(d, ignore_errors=True)
    shutil.rmtree(tmproot, ignore_errors=True)
    # ---- two nuclear dimensions, read from the log alone: at every accepted hop the momentum changes only along the coupling vector of the
    #      two states at the point of the hop (the end point of the pass), whatever the class (A-FSSH rescales along its own direction and is left out)
    import sys as _sys
    S2 = _sys.modules['mudslide.models.scattering_models'].Subotnik2D
    for cls2, cname2 in [(mudslide.TrajectorySH, "fssh"), (mudslide.TrajectoryCum, "cumulative")]:
        for it2 in range(2 if tier == "quick" else 12):
            dt2 = 12.0; m2 = S2(mass=[2000.0, 700.0])
            x2 = [rng.uniform(-2.5, -1.5), rng.uniform(-1.0, 2.0)]; p2 = [rng.uniform(36.0, 50.0), rng.uniform(-12.0, 9.0)]; s2 = rng.randrange(2)
            zl2 = [1e-9] * 120 if cname2 == "fssh" else [rng.random() * 0.01 for _ in range(60)]
            log2 = cls2(m2, x2, p2, s2, dt=dt2, max_steps=120, seed_sequence=rng.randrange(2 ** 31), zeta_list=zl2).simulate()
            sn2 = [s_ for s_ in log2]; tm2 = np.array([s_["time"] for s_ in sn2]); nh2 = 0
            for h in log2.hops:
                i2 = int(np.argmin(np.abs(tm2 - h["time"])))
                if i2 + 1 >= len(sn2): continue
                b2, a2 = sn2[i2], sn2[i2 + 1]; k2, n2 = int(h["from"]), int(h["to"])
                ppre = np.array(b2["momentum"]) + 0.5 * dt2 * (np.array(b2["electronics"]["force"])[k2] + np.array(a2["electronics"]["force"])[k2])
                dp2 = np.array(a2["momentum"]) - ppre; d2 = np.array(a2["electronics"]["derivative_coupling"])[k2, n2]
                if np.linalg.norm(dp2) < 1e-9 or np.linalg.norm(d2) < 1e-12: continue
                sine = abs(dp2[0] * d2[1] - dp2[1] * d2[0]) / (np.linalg.norm(dp2) * np.linalg.norm(d2)); nh2 += 1
                if sine > 1e-7:
                    tbad.append(dict(failed="an accepted hop changes the momentum only along the coupling vector at the hop point (%s on Subotnik2D, hop %d -> %d at t=%g: sin(angle between dp and d) = %.3e)" % (cname2, k2, n2, h["time"], sine),
                                     case=dict(cls=cname2, x0=x2, p0=p2, state0=s2))); break
            res.count("2d-log-hops/" + cname2, nh2)
            res.case(("2dlog", cname2, it2), nh2 > 0)
    ev_eqb = ("(fun a b => match a, b with EHop k f t, EHop k' f' t' => Nat.eqb k k' && Nat.eqb f f' && Nat.eqb t t' "
              "| EFrustrated k f t, EFrustrated k' f' t' => Nat.eqb k k' && Nat.eqb f f' && Nat.eqb t t' | _, _ => false end)")
    checker = ("fun c => let '(a0, atts, acts, evs) := c in let '(macts, mevs) := run_from 0 a0 atts in\n"
               "  attempts_ok a0 atts && (if list_eq_dec Nat.eq_dec macts acts then true else false)\n"
               "  && Nat.eqb (length mevs) (length evs) && forallb (fun p => %s (fst p) (snd p)) (combine mevs evs)" % ev_eqb)
    f2, e2 = run_case_check("C04traj", PRELUDE, "nat * list attempt * list nat * list event", checker, tcases, per_file=200)
    for e in errors + e2:
        res.violation("model evaluation failed (coqc)", dict(kind="coqc-error", log=e, no_failing_input_found=True))
    res.traces_validated = len(hc) - len(failing) + len(tcases) - len(f2)
    bad = [b for b in hbad] + tbad
    corr = [hmeta[i] for i in failing[:5]] + [tmeta[i] for i in f2[:5]]
    if bad:
        res.violation("implementation violates: " + bad[0]["failed"], dict(kind="oracle", failing_inputs=bad[:5], correspondence_failures=corr))
    elif corr:
        res.violation("implementation differs from Model/Hop.v / Model/Events.v (theorems no longer cover the code)",
                      dict(kind="correspondence", correspondence="Run/R01.chk_hop_k and Events.run_from vs hop_to_it / trace + event log",
                           failing_inputs=corr, no_failing_input_found=True))
    return finish(res, thm,
                  rule="hop level as C01 (4 classes x gap regimes incl. 1e-13 from threshold and exact ties); trajectory level: FSSH / cumulative / A-FSSH runs on 2-, 3-, 8-state models, "
                       "random thresholds forcing hops, both trace back-ends, the observed hopper decisions replayed through Events.run_from and compared with the active column and the event log; complete even-sampling trees (stacks of depth 1-3, both back-ends): every trace, inherited history included, against its own event log; "
                       "non-trivial = trajectory with at least one hop or frustrated hop, or distinct hop input",
                  assumptions=["hopper decisions (target, allowed) are observed by wrapping hopper/hop_allowed from outside", "event time == snapshot time compared exactly"])
