"""C05 — every built-in model returns mutually consistent energies, forces and couplings."""
import random, os, io, json, shutil
import numpy as np
from common import *

PRELUDE = "From MV Require Import Vec Electronics Models R05.\n"
KEYW, KEYZ = "modelw-dV-not-gradient", "modelz-dV-not-gradient"


def F(x): return fl(x)


def model_case(rng, name, variant=None):
    """returns (model object, Coq expr for V, Coq expr for list of dV matrices, x sampler)"""
    import sys, mudslide.models
    S = sys.modules['mudslide.models.scattering_models']
    r = lambda lo, hi: rng.uniform(lo, hi)
    dflt = rng.random() < 0.4 if variant is None else variant == 0
    if name == "simple":
        p = dict(a=0.01, b=1.6, c=0.005, d=1.0) if dflt else dict(a=r(0.005, 0.05), b=r(0.5, 3), c=r(0.001, 0.02), d=r(0.3, 2))
        m = S.TullySimpleAvoidedCrossing(**p); x = [rng.choice([-1, 1]) * 10 ** r(-3, 1)]
        a = " ".join(F(p[k]) for k in "abcd") + " " + F(x[0])
        return m, x, "simple_V FOps " + a, "[simple_dV FOps %s]" % a
    if name == "dual":
        p = dict(a=0.1, b=0.28, c=0.015, d=0.06, e=0.05) if dflt else dict(a=r(0.05, 0.2), b=r(0.1, 0.6), c=r(0.005, 0.03), d=r(0.02, 0.2), e=r(0.01, 0.1))
        m = S.TullyDualAvoidedCrossing(**p); x = [r(-8, 8)]
        a = " ".join(F(p[k]) for k in "abcde") + " " + F(x[0])
        return m, x, "dual_V FOps " + a, "[dual_dV FOps %s]" % a
    if name == "extended":
        p = dict(a=0.0006, b=0.10, c=0.90) if dflt else dict(a=r(0.0002, 0.002), b=r(0.05, 0.2), c=r(0.4, 1.5))
        m = S.TullyExtendedCouplingReflection(**p); x = [rng.choice([-1, 1]) * 10 ** r(-3, 1)]
        a = " ".join(F(p[k]) for k in "abc") + " " + F(x[0])
        return m, x, "extended_V FOps " + a, "[extended_dV FOps %s]" % a
    if name == "super":
        p = dict(v11=0.0, v22=0.01, v33=0.005, v12=0.001, v23=0.01) if dflt else dict(v11=r(-0.01, 0.01), v22=r(0.005, 0.02), v33=r(0, 0.01), v12=r(0.0005, 0.005), v23=r(0.005, 0.02))
        m = S.SuperExchange(**p); x = [r(-5, 5)]
        a = " ".join(F(p[k]) for k in ("v11", "v22", "v33", "v12", "v23")) + " " + F(x[0])
        return m, x, "super_V FOps " + a, "[super_dV FOps %s]" % a
    if name == "modelx":
        p = dict(a=0.03, b=1.6, c=0.005, xp=7.0) if dflt else dict(a=r(0.01, 0.06), b=r(0.8, 2.5), c=r(0.002, 0.01), xp=r(3, 9))
        m = S.SubotnikModelX(**p); x = [r(-12, 12)]
        a = " ".join(F(p[k]) for k in ("a", "b", "c", "xp")) + " " + F(x[0])
        return m, x, "modelx_V FOps " + a, "[modelx_dV FOps %s]" % a
    if name == "models":
        p = dict(a=0.015, b=1.0, c=0.005, d=0.5, xp=7.0) if dflt else dict(a=r(0.005, 0.03), b=r(0.5, 2), c=r(0.002, 0.01), d=r(0.2, 1), xp=r(3, 9))
        m = S.SubotnikModelS(**p); x = [r(-12, 12)]
        a = " ".join(F(p[k]) for k in ("a", "b", "c", "d", "xp")) + " " + F(x[0])
        return m, x, "models_V FOps " + a, "[models_dV FOps %s]" % a
    if name == "subotnik2d":
        p = dict(a=0.2, b=0.6, c=0.015, d=0.3, f=0.05, g=0.3, w=2.0) if dflt else dict(a=r(0.1, 0.3), b=r(0.3, 1), c=r(0.005, 0.03), d=r(0.1, 0.6), f=r(0.02, 0.1), g=r(0.1, 0.6), w=r(0.5, 3))
        m = S.Subotnik2D(**p); x = [r(-4, 4), r(-6, 6)]
        a = " ".join(F(p[k]) for k in "abcdfgw") + " fhalfpi " + F(x[0]) + " " + F(x[1])
        return m, x, "sub2d_V FOps " + a, "sub2d_dV FOps " + a
    if name == "vibronic":
        m = S.LinearVibronic(); x = [r(-1, 1) for _ in range(4)] + [r(-3, 3)]
        a = "%s %s %s %s %s %s %s %s %s %s" % (F(m.E1), F(m.E2), F(m.lamb), F(m.r0sqrtw5mh), fls(m.om), fls(m.k1), fls(m.k2), fls(m.An), fls(x[:4]), F(x[4]))
        return m, x, "vib_V FOps " + a, "vib_dV FOps " + a
    if name in ("modelw", "modelz"):
        N = rng.randint(2, 10) if not dflt else 8
        eps = 0.1 if dflt else r(0.02, 0.3)
        m = (S.SubotnikModelW if name == "modelw" else S.SubotnikModelZ)(nstates=N, eps=eps); x = [r(-1.5, 1.5)]
        if name == "modelw":
            return m, x, "modelw_V FOps fpi5 %s %s %s" % (F(eps), nat(N), F(x[0])), "[modelw_dV_code FOps fpi5 %s %s %s]" % (F(eps), nat(N), F(x[0]))
        return m, x, "modelz_V FOps %s %s %s" % (F(eps), nat(N), F(x[0])), "[modelz_dV_code FOps %s %s %s]" % (F(eps), nat(N), F(x[0]))
    if name == "shin-metiu":
        if dflt:
            m = S.ShinMetiu(nel=64)
        else:
            L = rng.choice([19.0, 19.0, 16.0]); kw = dict(nstates=rng.choice([2, 4, 5, 6]), nel=rng.choice([32, 64]), L=L, Rf=r(4.0, 6.0), Rl=r(2.5, 4.0), Rr=r(3.0, 5.0), m_el=rng.choice([1.0, 1.0, 2.0]))
            if variant is not None and variant % 2 == 1: kw["nstates"] = rng.choice([4, 5, 6])
            if rng.random() < 0.6 or (variant is not None and variant >= 2): kw["box"] = rng.choice([0.8 * L, 1.25 * L])       # electronic grid not coinciding with the ion-ion distance
            m = S.ShinMetiu(**kw)
        return m, [r(-4, 4)], None, None
    raise KeyError(name)


NAMES = ["simple", "dual", "extended", "super", "modelx", "models", "subotnik2d", "vibronic", "modelw", "modelz", "shin-metiu"]


def fd_oracle(m, x, el, name, known):
    """the statement, by central differences on the implementation (supporting the theorems). returns (failed, known_key)"""
    x = np.array(x, dtype=float); n = m.nstates(); nd = m.ndim()
    H = el.hamiltonian(); E = np.diag(H)
    if np.max(np.abs(H - np.diag(E))) > 0 or np.any(np.diff(E) < 0):
        return "adiabatic Hamiltonian is diagonal and ascending", None
    dc = el._derivative_coupling; fm = el.force_matrix(); force = el._force
    if dc.shape != (n, n, nd) or fm.shape != (n, n, nd) or force.shape != (n, nd):
        return "documented shapes (nstates,nstates,ndim) of couplings / force matrix, (nstates,ndim) of forces", None
    sc = max(1e-12, np.max(np.abs(fm)))
    offg = np.abs(np.subtract.outer(E, E))[~np.eye(n, dtype=bool)]
    noise = 1e-12 * sc / max(1e-10, float(np.min(offg)) if n > 1 else 1.0)       # rounding of C^T dV C divided by the smallest gap
    if np.max(np.abs(dc + np.transpose(dc, (1, 0, 2)))) > 1e-9 * np.max(np.abs(dc)) + noise or np.max(np.abs(np.einsum("iix->ix", dc))) > 0:
        return "derivative coupling antisymmetric with zero diagonal", None
    gaps = np.subtract.outer(E, E)            # E_i - E_j
    mask = np.abs(gaps) > 1e-9            # the code floors gaps below 1e-10 (exact degeneracies are outside the quantifier)
    for xd in range(nd):
        off = fm[:, :, xd] - gaps * dc[:, :, xd]
        off[np.eye(n, dtype=bool)] = 0.0
        if np.max(np.abs(off[mask | np.eye(n, dtype=bool)])) > 1e-8 * sc:
            return "off-diagonal force matrix equals (E_i - E_j) d_ij", None
    V = m.V(x); dV = m.dV(x)
    if np.max(np.abs(V - V.T)) > 0:
        return "diabatic potential symmetric", None
    if dV.shape != (nd, V.shape[0], V.shape[0]):
        return "diabatic gradient has shape (ndim, nstates, nstates) (got %r)" % (dV.shape,), None
    mingap = np.min(np.abs(gaps[~np.eye(n, dtype=bool)])) if n > 1 else 1.0
    h = 1e-5
    for xd in range(nd):
        xp, xm = x.copy(), x.copy(); xp[xd] += h; xm[xd] -= h
        if name in ("simple", "extended") and xp[0] * xm[0] <= 0:
            continue      # kink at x = 0
        dVfd = (m.V(xp) - m.V(xm)) / (2 * h)
        bad_dv = np.max(np.abs(dVfd - dV[xd])) > 1e-6 * max(1e-3, np.max(np.abs(dV[xd])))
        ep, em = m.update(xp, electronics=el), m.update(xm, electronics=el)
        dE = (np.diag(ep.hamiltonian()) - np.diag(em.hamiltonian())) / (2 * h)
        bad_f = np.max(np.abs(dE + force[:, xd])) > 1e-6 * max(1e-3, np.max(np.abs(force)))
        if bad_dv or bad_f:
            key = {"modelw": KEYW, "modelz": KEYZ}.get(name)
            if key and key in known:
                # recognised only in its recorded form: dV differs from the true gradient by exactly the code's extra terms
                return None, key
            if bad_dv:
                return "diabatic gradient is the gradient of the diabatic potential (dimension %d, max deviation %.3e)" % (xd, float(np.max(np.abs(dVfd - dV[xd])))), None
            return "force on each state is minus the gradient of that state's energy (dimension %d: dE/dx %r, -force %r)" % (xd, dE.tolist(), (-force[:, xd]).tolist()), None
        if mingap > 1e-4 and hasattr(el, "_reference") and el._reference is not None:
            Cp, Cm_, C0 = ep._reference, em._reference, el._reference
            ov = C0.T @ ((Cp - Cm_) / (2 * h))
            o2 = ov - np.diag(np.diag(ov))
            if np.max(np.abs(o2 - dc[:, :, xd])) > 2e-5 * max(1e-3, np.max(np.abs(dc[:, :, xd]))):
                return "derivative coupling equals the overlap derivative <phi_i|grad phi_j> (max deviation %.3e)" % float(np.max(np.abs(o2 - dc[:, :, xd]))), None
    return None, None


def run(tier, seed):
    import sys, mudslide.models
    from mudslide.models import HarmonicModel
    S = sys.modules['mudslide.models.scattering_models']
    res = Result("C05", tier, seed)
    rng = random.Random(seed)
    thm = check_theorems("C05")
    known = set(e.get("key") for e in load_known_findings("C05"))
    per = 6 if tier == "quick" else 400
    mc, mmeta, gc, gmeta, hc, hmeta, bad = [], [], [], [], [], [], []
    khits = {}
    for name in NAMES:
        for it in range(per if name != "shin-metiu" else max(4, per // 3)):
            m, x, eV, edV = model_case(rng, name, variant=(it if name == "shin-metiu" and it < 4 else None))
            x = np.array(x, dtype=float)
            rep = "adiabatic"
            V = m.V(x); dV = m.dV(x)
            info = dict(model=name, x=x.tolist(), nstates=m.nstates())
            other = x + np.array([rng.uniform(0.3, 1.0) for _ in x]); m.V(other); dV_after = m.dV(x); m.dV(other); V_after = m.V(x)
            if not (np.array_equal(np.asarray(dV_after), np.asarray(dV)) and np.array_equal(np.asarray(V_after), np.asarray(V))):
                bad.append(dict(failed="the diabatic potential and its gradient at a position depend only on that position (dV(x) after V(y) differs from dV(x) after V(x) by %.3g)" % float(np.max(np.abs(np.asarray(dV_after) - np.asarray(dV)))), case=info))
            if eV is not None:
                mc.append(tup(eV, edV, flss(V), lst([flss(dV[d]) for d in range(dV.shape[0])]))); mmeta.append(info)
            # generic layer with a reference from a nearby point (so that the sign fix is exercised)
            prev = m.update(x + 0.05 * np.array([rng.gauss(0, 1) for _ in x])) if rng.random() < 0.8 else None
            if prev is not None and rng.random() < 0.5:
                prev._reference = prev._reference * np.array([rng.choice([-1.0, 1.0]) for _ in range(prev._reference.shape[1])])
            el = m.update(x, electronics=prev)
            Eall, Craw = np.linalg.eigh(V)
            nst = m.nstates(); N = V.shape[0]
            adia = isinstance(m, S.ShinMetiu)
            ref = None if prev is None else prev._reference
            gc.append(tup(nat(N), nat(nst), bl(adia), fls(Eall[:nst]), flss(Craw[:, :nst]), "None" if ref is None else "(Some %s)" % flss(ref),
                          lst([flss(dV[d]) for d in range(dV.shape[0])]), flss(el._reference),
                          lst([fls(el._force[:, d]) for d in range(m.ndim())]),
                          lst([flss(el._derivative_coupling[:, :, d]) for d in range(m.ndim())]),
                          lst([flss(el.force_matrix()[:, :, d]) for d in range(m.ndim())])))
            gmeta.append(info)
            res.count("model/" + name); res.case(("m", name, tuple(x), it), True, dict(info, energies=np.diag(el.hamiltonian()).tolist()))
            if prev is not None:
                ov = np.einsum("pi,pi->i", el._reference, prev._reference)
                if np.any(ov < 0): bad.append(dict(failed="new adiabatic states have non-negative overlap with the reference", case=info))
            f, key = fd_oracle(m, x, el, name, known)
            if key: khits[key] = khits.get(key, 0) + 1
            if f: bad.append(dict(failed=f, case=info))
            # diabatic representation: H = V, couplings zero, force = -diag dV
            if name not in ("shin-metiu",) and (it == 0 or rng.random() < 0.3):
                md = type(m)(representation="diabatic") if name not in ("modelw", "modelz") else type(m)(representation="diabatic", nstates=m.nstates())
                try:
                    ed = md.update(x)
                    if not (np.array_equal(ed.hamiltonian(), md.V(x)) and np.all(ed._derivative_coupling == 0)):
                        bad.append(dict(failed="diabatic representation returns the diabatic matrix and zero couplings", case=info))
                    res.count("representation/diabatic")
                except Exception as ex:
                    bad.append(dict(failed="diabatic representation raised %s" % ex, case=info))
    # user-defined diabatic model with a (nearly) degenerate pair: exercises the energy-gap floor of the coupling
    from mudslide.models.electronics import DiabaticModel_
    class TinyGap(DiabaticModel_):
        def __init__(self, c):
            DiabaticModel_.__init__(self, representation="adiabatic", nstates=2, ndim=1); self.c = c; self.mass = np.array([2000.0])
        def V(self, X): return np.array([[X[0], self.c], [self.c, -X[0]]])
        def dV(self, X): return np.array([[[1.0, 0.25], [0.25, -1.0]]])
    for c in [0.0, 1e-12, 3e-11, 1e-9, 1e-5, 4e-4]:
        for xv in [0.0, 1e-13, -2e-11, 1e-6]:
            m = TinyGap(c); x = np.array([xv]); el = m.update(x); V = m.V(x); dV = m.dV(x)
            Eall, Craw = np.linalg.eigh(V)
            if Eall[1] - Eall[0] == 0.0:
                continue      # exact degeneracy (sign of a zero gap is np.copysign's): outside the quantifier
            gc.append(tup(nat(2), nat(2), bl(False), fls(Eall), flss(Craw), "None", lst([flss(dV[0])]), flss(el._reference),
                          lst([fls(el._force[:, 0])]), lst([flss(el._derivative_coupling[:, :, 0])]), lst([flss(el.force_matrix()[:, :, 0])])))
            gmeta.append(dict(model="user-defined near-degenerate 2x2", c=c, x=xv, gap=float(Eall[1] - Eall[0])))
            gap_ = float(Eall[1] - Eall[0]); fm_ = el.force_matrix()[0, 1, 0]; dc_ = el._derivative_coupling[0, 1, 0]
            res.count("near-degenerate-gap-cases")
            if gap_ >= 1e-9 and abs(fm_ - (Eall[0] - Eall[1]) * dc_) > 1e-8 * max(abs(fm_), 1e-300):
                bad.append(dict(failed="off-diagonal force matrix equals (E_i - E_j) d_ij (near-degenerate pair, gap %.3e: F_01=%r, (E_0-E_1) d_01=%r)" % (gap_, float(fm_), float((Eall[0] - Eall[1]) * dc_)), case=gmeta[-1]))
            res.count("gap-floor/" + ("floored" if abs(Eall[1] - Eall[0]) < 1e-10 else "regular"))
            res.case(("tiny", c, xv), True)
    # user-defined models that keep the arrays they hand out (a constant gradient computed once): computing must not write into them, and
    # every computed point must satisfy the same relations as for models that build fresh arrays
    from mudslide.models.electronics import AdiabaticModel_
    def keeper(Base):
        class Keeper(Base):
            def __init__(self, representation="adiabatic", reference=None):
                Base.__init__(self, representation=representation, reference=reference, nstates=2, ndim=2)
                self.k = np.array([0.01, 0.004]); self.c = 0.003; self.mass = np.array([2000.0, 3000.0])
                self.gradient = np.zeros([2, 2, 2]); self.gradient[:, 0, 0] = self.k; self.gradient[:, 1, 1] = -self.k
                self.buf = np.zeros([2, 2])
            def V(self, X):
                e = float(np.dot(self.k, X)); self.buf[:, :] = [[e, self.c], [self.c, -e]]; return self.buf
            def dV(self, X): return self.gradient
        return Keeper
    for Base in (DiabaticModel_, AdiabaticModel_):
        mk = keeper(Base)(); g0 = mk.gradient.copy(); last = None
        for j in range(5):
            X = np.array([rng.uniform(-0.5, 0.5), rng.uniform(-0.5, 0.5)])
            el = mk.update(X, electronics=last)
            C_ = el._reference; Vx = np.array(mk.V(X)).copy()
            wantF = np.array([[-C_[:, i] @ g0[d] @ C_[:, i] for d in range(2)] for i in range(2)])
            wantFM = -np.einsum("ip,xij,jq->pqx", C_, g0, C_)
            res.count("user-model-keeping-its-arrays/" + Base.__name__)
            if not np.array_equal(mk.gradient, g0):
                bad.append(dict(failed="computing the electronics does not change the model: the gradient array kept by a user-defined model was overwritten (point %d)" % j, case=dict(base=Base.__name__, x=X.tolist()))); break
            if np.max(np.abs(np.array(el._force) - wantF)) > 1e-14 or np.max(np.abs(el.force_matrix() - wantFM)) > 1e-14 or np.max(np.abs(C_.T @ Vx @ C_ - el.hamiltonian())) > 1e-14:
                bad.append(dict(failed="forces are minus the expectation value of the gradient in the adiabatic states (user-defined model keeping its gradient array, point %d of a sequence: force %r, expected %r)" % (j, np.array(el._force).tolist(), wantF.tolist()), case=dict(base=Base.__name__, x=X.tolist()))); break
            last = el
        res.case(("keeper", Base.__name__), True)
    class IntSlope(DiabaticModel_):
        def __init__(self):
            DiabaticModel_.__init__(self, representation="adiabatic", nstates=2, ndim=2); self.mass = np.array([2000.0, 3000.0])
        def V(self, X): return np.array([[2.0 * X[0] - X[1], 0.75], [0.75, -2.0 * X[0] + 3.0 * X[1]]])
        def dV(self, X): return np.array([[[2, 0], [0, -2]], [[-1, 0], [0, 3]]])        # whole-number slopes, integer dtype
    mi_ = IntSlope()
    for j in range(4):
        X = np.array([rng.uniform(-0.5, 0.5), rng.uniform(-0.5, 0.5)]); el = mi_.update(X); C_ = el._reference; g_ = np.asarray(mi_.dV(X), dtype=float)
        wantF = np.array([[-C_[:, i] @ g_[d] @ C_[:, i] for d in range(2)] for i in range(2)])
        res.count("user-model-integer-gradient")
        if np.max(np.abs(np.asarray(el._force, dtype=float) - wantF)) > 1e-13 or np.max(np.abs(np.einsum("iix->ix", el.force_matrix()) - wantF)) > 1e-13:
            bad.append(dict(failed="the force on each state is minus the gradient of that state's energy, equal to the diagonal of the force matrix (user-defined model whose dV has an integer dtype: force %r, expected %r)" % (np.asarray(el._force).tolist(), wantF.tolist()), case=dict(x=X.tolist()))); break
    # an electronics object computed a second time (compute() is public) holds the quantities of the new position, all of them
    for name in ("simple", "dual", "super", "vibronic", "modelx"):
        m, x, _, _ = model_case(rng, name); x = np.array(x, dtype=float); x2 = x + np.array([rng.uniform(0.2, 0.7) for _ in x])
        e1 = m.update(x); e1.force_matrix(); e1.derivative_coupling_tensor(); r1 = np.array(e1._reference).copy()
        e1.compute(x2, reference=r1)
        import copy as _cp
        prev_ = _cp.copy(m.update(x)); prev_._reference = r1
        fresh = m.update(x2, electronics=prev_)
        res.count("recompute-on-same-object/" + name); res.case(("recompute", name, tuple(x)), True)
        for what, a_, b_ in [("hamiltonian", e1.hamiltonian(), fresh.hamiltonian()), ("force", e1._force, fresh._force), ("derivative coupling", e1._derivative_coupling, fresh._derivative_coupling), ("force matrix", e1.force_matrix(), fresh.force_matrix())]:
            if not np.array_equal(np.asarray(a_), np.asarray(b_)):
                bad.append(dict(failed="energies, forces, couplings and force matrix of an electronics object are those of the position it was last computed at (%s after a second compute() differs from a fresh computation by %.3g)" % (what, float(np.max(np.abs(np.asarray(a_) - np.asarray(b_))))), case=dict(model=name, x=x.tolist(), x2=x2.tolist()))); break
    # harmonic model: force = -grad E, save/load round trip
    tmproot = os.path.join(OUT, "tmp", "C05"); shutil.rmtree(tmproot, ignore_errors=True); os.makedirs(tmproot)
    for it in range(per * 2):
        nd = rng.choice([1, 2, 3, 6])
        A = np.array([[rng.gauss(0, 0.1) for _ in range(nd)] for _ in range(nd)]); H0 = 0.5 * (A + A.T) + 0.3 * np.eye(nd)
        x0 = [rng.uniform(-1, 1) for _ in range(nd)]; E0 = rng.uniform(-1, 1); mass = [10 ** rng.uniform(2, 4) for _ in range(nd)]
        if it % 4 == 3:
            x0 = [rng.randint(-2, 2) for _ in range(nd)]; res.count("model/harmonic-integer-x0")      # integer-typed equilibrium position (e.g. from a json file)
        hm = HarmonicModel(x0, E0, H0, mass); X = np.array([rng.uniform(-2, 2) for _ in range(nd)])
        el = hm.update(X)
        hc.append(tup(fls(x0), fl(E0), flss(H0), fls(X), fl(float(el.hamiltonian()[0])), fls(el._force[0]))); hmeta.append(dict(model="harmonic", ndim=nd))
        res.count("model/harmonic"); res.case(("h", nd, it), True)
        h = 1e-5
        for d in range(nd):
            Xp, Xm = X.copy(), X.copy(); Xp[d] += h; Xm[d] -= h
            de = (float(hm.update(Xp).hamiltonian()[0]) - float(hm.update(Xm).hamiltonian()[0])) / (2 * h)
            if abs(de + el._force[0][d]) > 1e-7 * (1 + abs(de)):
                bad.append(dict(failed="the harmonic model's force is minus the gradient of its energy", case=dict(ndim=nd))); break
        # continued from a previous point a tiny distance away (a slow or turning trajectory): energy and force are those of the new position
        for step_ in (1e-3, 1e-6, 1e-9, 1e-12):
            X2 = X + step_ * np.array([rng.choice([-1.0, 1.0]) for _ in range(nd)])
            e2 = hm.update(X2, electronics=el); fresh = hm.update(X2)
            hc.append(tup(fls(x0), fl(E0), flss(H0), fls(X2), fl(float(e2.hamiltonian()[0])), fls(e2._force[0]))); hmeta.append(dict(model="harmonic", ndim=nd, continued_from_distance=step_))
            res.count("model/harmonic-continued")
            if float(e2.hamiltonian()[0]) != float(fresh.hamiltonian()[0]) or not np.array_equal(e2._force, fresh._force):
                bad.append(dict(failed="the harmonic model's energy and force at a position depend only on that position (continued from a point %.0e away: energy %r vs %r computed afresh)" % (step_, float(e2.hamiltonian()[0]), float(fresh.hamiltonian()[0])), case=dict(ndim=nd))); break
        for ext in ("json", "yaml"):
            fn = os.path.join(tmproot, "h%d.%s" % (it, ext)); hm.to_file(fn); h2 = HarmonicModel.from_file(fn)
            if not (np.array_equal(h2.x0, hm.x0) and h2.E0 == hm.E0 and np.array_equal(h2.H0, hm.H0) and np.array_equal(h2.mass, hm.mass)):
                bad.append(dict(failed="the harmonic model survives a save/load round trip unchanged (%s)" % ext, case=dict(ndim=nd)))
    # round trip with values whose shortest decimal form has an exponent and no decimal point (5e-10, 1e+16): the hardest case for text formats
    for ext in ("json", "yaml"):
        hx = HarmonicModel([5e-10, -1e-05], 1e-07, [[1e+16, 2e-05], [2e-05, 3e-300]], [1e+22, 7e-07])
        fn = os.path.join(tmproot, "hx." + ext); hx.to_file(fn); res.count("model/harmonic-roundtrip-exponent-forms")
        try:
            h2 = HarmonicModel.from_file(fn); el2 = h2.update(np.array([1e-10, 2e-05]))
            okx = np.array_equal(np.asarray(h2.x0, dtype=float), hx.x0) and float(h2.E0) == hx.E0 and np.array_equal(np.asarray(h2.H0, dtype=float), hx.H0) and np.array_equal(np.asarray(h2.mass, dtype=float), hx.mass) \
                  and float(el2.hamiltonian()[0]) == float(hx.update(np.array([1e-10, 2e-05])).hamiltonian()[0])
            why = "" if okx else "reloaded x0=%r E0=%r" % (h2.x0, h2.E0)
        except Exception as ex:
            okx = False; why = "%s: %s" % (type(ex).__name__, ex)
        if not okx:
            bad.append(dict(failed="the harmonic model survives a save/load round trip unchanged (%s, values such as 5e-10 and 1e+16: %s)" % (ext, why), case=dict(ext=ext)))
    E0a = np.array(0.125); x0a = np.array([0.25, -0.5]); H0a = np.array([[0.5, 0.0625], [0.0625, 0.75]]); ma = np.array([100.0, 200.0])
    hma = HarmonicModel(x0a, E0a, H0a, ma); Xa = np.array([0.75, 0.5])
    ea = [float(np.asarray(hma.update(Xa).hamiltonian()).ravel()[0]) for _ in range(4)]
    prev_a = hma.update(Xa)
    for _ in range(3): prev_a = hma.update(Xa + 0.1, electronics=prev_a)
    ea.append(float(np.asarray(hma.update(Xa).hamiltonian()).ravel()[0]))
    res.count("model/harmonic-caller-owned-arrays")
    if len(set(ea)) != 1 or float(E0a) != 0.125 or float(np.asarray(hma.E0)) != 0.125 or not np.array_equal(x0a, [0.25, -0.5]) or not np.array_equal(H0a, [[0.5, 0.0625], [0.0625, 0.75]]):
        bad.append(dict(failed="the harmonic model's energy at a position depends only on that position and computing never changes the model (E0 given as a numpy 0-d array: energies of repeated computations at one point %r, model.E0 now %r)" % (ea, float(np.asarray(hma.E0))), case=dict(E0="0-d array")))
    for ext in ("json", "yaml"):
        fn = os.path.join(tmproot, "again." + ext)
        ha = HarmonicModel([0.25, -0.5], 0.125, [[0.5, 0.0625], [0.0625, 0.75]], [100.0, 200.0]); ha.to_file(fn); la = HarmonicModel.from_file(fn); la2 = HarmonicModel.from_file(fn)
        hb = HarmonicModel([1.5, 2.5], -0.375, [[0.25, 0.0], [0.0, 0.125]], [300.0, 50.0]); hb.to_file(fn); lb = HarmonicModel.from_file(fn)
        res.count("model/harmonic-file-overwritten")
        if not (np.array_equal(lb.x0, hb.x0) and lb.E0 == hb.E0 and np.array_equal(lb.H0, hb.H0) and np.array_equal(lb.mass, hb.mass) and np.array_equal(la.x0, ha.x0)):
            bad.append(dict(failed="the harmonic model survives a save/load round trip unchanged (%s: a file written again with another model loads as x0=%r, saved x0=%r)" % (ext, np.asarray(lb.x0).tolist(), hb.x0.tolist()), case=dict(ext=ext)))
        e_a = float(la.update(np.array([0.0, 0.0])).hamiltonian()[0]); la2.update(np.array([3.0, 3.0])); la2.compute(np.array([5.0, -5.0]))
        if la is la2 or float(la.update(np.array([0.0, 0.0])).hamiltonian()[0]) != e_a:
            bad.append(dict(failed="two loads of one file give two independent models (computing on one changes the other)", case=dict(ext=ext)))
    # shin-metiu built with different electron masses / boxes / grids in one process: each instance's electronic Hamiltonian has its own finite-difference kinetic term
    for kw_ in (dict(nel=32), dict(nel=32, m_el=2.0), dict(nel=32, box=30.0), dict(nel=64), dict(nel=32, L=12.0, m_el=0.5), dict(nel=32, Rf=4.0), dict(nel=32, Rl=2.5, Rr=4.5)):
        try:
            sm = S.ShinMetiu(**kw_)
        except TypeError:
            continue
        Hs = np.asarray(sm.V_el(np.array([0.3]))); n_ = Hs.shape[0]
        rr_ = getattr(sm, "rr", None)
        if rr_ is None: break
        dr_ = float(rr_[1] - rr_[0]); want_off = -0.5 / (sm.m_el * dr_ * dr_)
        e_own = np.linalg.eigvalsh(np.asarray(sm.V(np.array([0.3]))))[: sm.nstates()]
        e_upd = np.diag(np.asarray(sm.update(np.array([0.3])).hamiltonian()))
        if np.max(np.abs(e_own - e_upd)) > 1e-10:
            bad.append(dict(failed="shin-metiu's energies at a position depend only on the position and on the instance's own parameters (options %r: update(x) gives %r, the eigenvalues of its own V(x) are %r)" % (kw_, e_upd.tolist(), e_own.tolist()), case=dict(options=kw_)))
        res.count("model/shin-metiu-kinetic-term")
        if abs(Hs[0, 1] - want_off) > 1e-12 * abs(want_off) or abs(Hs[n_ - 2, n_ - 1] - want_off) > 1e-12 * abs(want_off):
            bad.append(dict(failed="shin-metiu's electronic Hamiltonian depends only on the position and on the instance's own parameters (options %r: off-diagonal kinetic element %r, expected -1/(2 m dr^2) = %r)" % (kw_, float(Hs[0, 1]), want_off), case=dict(options=kw_)))
    shutil.rmtree(tmproot, ignore_errors=True)
    # mudslide-surface rows agree with the model object
    from mudslide.surface import surface_main
    buf = io.StringIO(); surface_main("super", [-3.0, 3.0], 5, 0, [0.0], output=buf)
    rows = [l.split() for l in buf.getvalue().splitlines() if not l.startswith("#")]
    ms = S.SuperExchange()
    for row in rows:
        xv = float(row[0]); e = ms.update(np.array([xv]))
        want = [xv] + list(np.diag(ms.V(np.array([xv])))) + list(np.diag(e.hamiltonian()))
        if any(abs(float(a) - b) > 1e-9 for a, b in zip(row[:7], want)):
            bad.append(dict(failed="surface command rows equal the model's diabats and energies", case=dict(row=row)))
    res.count("surface-rows", len(rows))
    for key, n in khits.items():
        res.known_finding({KEYW: "SubotnikModelW.dV is not the gradient of V (diagonal carries the (m-1)*eps offset, off-diagonals carry v): forces differ from -dE/dx on %d sampled positions",
                           KEYZ: "SubotnikModelZ.dV repeats V instead of its gradient: forces differ from -dE/dx on %d sampled positions"}[key] % n)
    f1, e1 = run_case_check("C05m", PRELUDE, "list (list float) * list (list (list float)) * list (list float) * list (list (list float))", "chk05m", mc, per_file=60)
    f2, e2 = run_case_check("C05g", PRELUDE, "case05g", "chk05g", gc, per_file=12, timeout=1500)
    f3, e3 = run_case_check("C05h", PRELUDE, "list float * float * list (list float) * list float * float * list float", "chk05h", hc, per_file=200)
    for e in e1 + e2 + e3:
        res.violation("model evaluation failed (coqc)", dict(kind="coqc-error", log=e, no_failing_input_found=True))
    res.traces_validated = len(mc) + len(gc) + len(hc) - len(f1) - len(f2) - len(f3)
    corr = [dict(mmeta[i], layer="V/dV formulas") for i in f1[:3]] + [dict(gmeta[i], layer="generic electronics") for i in f2[:3]] + [hmeta[i] for i in f3[:3]]
    if bad:
        res.violation("implementation violates: " + bad[0]["failed"], dict(kind="oracle", failing_inputs=bad[:4], correspondence_failures=corr))
    elif corr:
        res.violation("implementation differs from Model/Models.v / Model/Electronics.v (theorems no longer cover the code)",
                      dict(kind="correspondence", correspondence="Run/R05: model V/dV formulas, signfix/force_of/dc_of/force_matrix_of, harm_energy/harm_force vs the model objects", failing_inputs=corr, no_failing_input_found=True))
    return finish(res, thm,
                  rule="10 registered scattering models + Subotnik2D + HarmonicModel at random positions with default and random constructor parameters (all state counts 2..10 of modelw/modelz, 2-4 states and 32/64 grid points of shin-metiu); "
                       "V/dV formulas replayed in binary64; the generic layer (sign fix against a nearby/sign-flipped reference, forces, couplings with the gap floor, force matrix) replayed with numpy's eigh output as oracle input; "
                       "central differences of V, of the energies and of the eigenvectors on the implementation; diabatic representation; harmonic force and json/yaml round trip; surface command rows; non-trivial = distinct case",
                  assumptions=["finite differences are supporting evidence (h = 1e-5, tolerance 1e-6 relative)", "np.linalg.eigh deterministic; shin-metiu's V/dV (erf soft Coulomb) enter the generic layer as data"])
