"""C06 — continuous sign; results depend only on position; earlier results never modified."""
import random, copy
import numpy as np
from common import *
import p05

PRELUDE = "From MV Require Import Vec Electronics Models R05.\n"


def snap(el):
    return dict(H=np.array(el.hamiltonian()).copy(), F=np.array(el._force).copy(), D=np.array(el._derivative_coupling).copy(),
                FM=np.array(el.force_matrix()).copy(), R=np.array(el._reference).copy(), X=np.array(el._position).copy())


def same(a, b):
    return all(np.array_equal(a[k], b[k]) for k in a)


def trajectory_continuity(res, rng, tier):
    import mudslide, queue
    from mudslide.models import scattering_models as M
    from mudslide.batch import BatchedTraj, TrajGenConst
    from mudslide.tracer import TraceManager
    from mudslide.even_sampling import EvenSamplingTrajectory
    bad = []
    CL = dict(fssh=mudslide.TrajectorySH, cumulative=mudslide.TrajectoryCum, ehrenfest=mudslide.Ehrenfest, afssh=mudslide.AugmentedFSSH, es=EvenSamplingTrajectory)
    SET = [("simple", -3.0, (8.0, 14.0), 4.0), ("super", -5.0, (6.0, 12.0), 6.0), ("dual", -4.0, (12.0, 25.0), 5.0), ("modelx", -8.0, (9.0, 14.0), 10.0), ("models", -8.0, (9.0, 14.0), 10.0)]
    for it in range(10 if tier == "quick" else 100):
        cls = ["es", "fssh", "afssh", "cumulative", "ehrenfest"][it % 5]
        mname, x0, (plo, phi), bound = SET[(it // 5 + it) % len(SET)]
        if cls == "afssh" and M[mname]().nstates() != 2: mname, x0, (plo, phi), bound = SET[0]
        model = M[mname](); k = rng.uniform(plo, phi)
        kept = []                                    # (electronics object, deep snapshot) for everything the model returned during the run
        orig_update = type(model).update
        def upd(self_, X, electronics=None, couplings=None, gradients=None, _o=orig_update):
            out = _o(self_, X, electronics=electronics, couplings=couplings, gradients=gradients)
            kept.append((out, snap(out)))
            return out
        type(model).update = upd
        try:
            kw = dict(samples=1, dt=rng.choice([5.0, 10.0]), bounds=[-bound, bound], max_steps=400, tracemanager=TraceManager())
            if cls == "es": kw.update(spawn_stack=rng.choice([[2], [3, 2], [2, 2]]), quadrature="gl")
            if cls in ("fssh", "afssh"): kw["zeta_list"] = [rng.choice([2.0, rng.random() * 0.1]) for _ in range(500)]
            r = BatchedTraj(model, TrajGenConst([x0], [k], 0, seed=rng.randrange(2 ** 31)), CL[cls], **kw).compute()
        finally:
            type(model).update = orig_update
        info = dict(cls=cls, model=mname, x0=x0, k=k, traces=len(r.traces))
        res.count("trajectory-continuity/" + cls); res.count("trajectory-continuity-traces", len(r.traces)); res.case(("trajcont", cls, mname, k), True, info)
        def diffkeys(a, b): return [k_ for k_ in a if k_ != "X" and not np.array_equal(a[k_], b[k_])]     # the position array handed in belongs to the caller
        stale = [(i, diffkeys(snap(obj), cp_)) for i, (obj, cp_) in enumerate(kept) if diffkeys(snap(obj), cp_)]
        if stale:
            bad.append(dict(failed="computing a new point never changes the energies, forces or couplings already returned for an earlier point (a %s run modified %d of the %d electronics objects it had received; first: fields %r)" % (cls, len(stale), len(kept), stale[0][1]), case=info)); continue
        for ti, t in enumerate(r.traces):
            refs = [np.asarray(s_["electronics"]["reference"]) for s_ in t if "reference" in s_["electronics"]]
            tms = [float(s_["time"]) for s_ in t]
            for j in range(1, len(refs)):
                ov = np.einsum("pi,pi->i", refs[j], refs[j - 1])
                if np.any(ov < 0):
                    bad.append(dict(failed="along a trajectory each new set of adiabatic states has non-negative overlap with the set it was continued from (%s, trace %d of %d, between t=%g and t=%g: overlaps %r)"
                                           % (cls, ti, len(r.traces), tms[j - 1], tms[j], ov.tolist()), case=info)); break
            else:
                continue
            break
    return bad


def run(tier, seed):
    import sys, mudslide.models
    import mudslide
    S = sys.modules['mudslide.models.scattering_models']
    res = Result("C06", tier, seed)
    rng = random.Random(seed)
    thm = check_theorems("C06")
    names = ["simple", "dual", "extended", "super", "modelx", "models", "subotnik2d", "vibronic", "modelw", "modelz", "shin-metiu"]
    npaths = 3 if tier == "quick" else 12
    gc, gmeta, bad = [], [], []
    for name in names:
        for it in range(npaths):
            m, x0, _, _ = p05.model_case(rng, name)
            diab = name != "shin-metiu" and (it % 3 == 2 if tier == "quick" else rng.random() < 0.3)
            if diab:
                m._representation = "diabatic"; res.count("representation/diabatic")      # H = V(x) itself: whatever V returns must not be a shared buffer
            nd = m.ndim(); n = m.nstates()
            kind = ["smooth", "jumps", "revisit"][it % 3]
            L = 25 if name != "shin-metiu" else 10
            x = np.array(x0, dtype=float); path = []
            for k in range(L):
                if kind == "smooth": x = x + 0.15 * np.array([rng.gauss(0, 1) for _ in range(nd)])
                elif kind == "jumps": x = np.array(x0) + np.array([rng.uniform(-6, 6) if nd == 1 else rng.uniform(-2, 2) for _ in range(nd)])
                else: x = (np.array(x0) + 0.5 * k) if k < L // 2 else (np.array(x0) + 0.5 * (L - 1 - k))
                path.append(x.copy())
            # two interleaved chains (A, B) sharing the model object
            elA = elB = elC = None; kept = []      # (object, deep copy of its arrays)
            info = dict(model=name, path=kind, nstates=n)
            for k, xk in enumerate(path):
                prevA = elA
                elA = m.update(xk, electronics=elA)
                if k % 2 == 0:
                    elB = m.update(path[(3 * k + 1) % L], electronics=elB)      # the other trajectory, elsewhere
                    kept.append((elB, snap(elB)))
                kept.append((elA, snap(elA)))
                # a third chain that calls update() on the previous result itself (as mudslide.surface does)
                elC = m.update(xk) if elC is None else elC.update(path[(k + 2) % L], elC)
                kept.append((elC, snap(elC)))
                if prevA is not None:
                    ov = np.einsum("pi,pi->i", elA._reference, prevA._reference)
                    if np.any(ov < 0):
                        bad.append(dict(failed="each new set of adiabatic states has non-negative overlap, state by state, with the set it was continued from", case=dict(info, step=k, overlaps=ov.tolist()))); break
                # nothing returned earlier may have changed
                for obj, cp_ in kept:
                    if not same(snap(obj), cp_):
                        bad.append(dict(failed="computing a new point never changes the energies, forces or couplings already returned for an earlier point", case=dict(info, step=k))); break
                # results depend only on the position: recompute from scratch (no history)
                fresh = m.update(xk)
                a, b = snap(elA), snap(fresh)
                sc = max(1e-300, np.max(np.abs(a["FM"])))
                Ediff = np.max(np.abs(np.diag(a["H"]) - np.diag(b["H"])))
                gaps = np.abs(np.subtract.outer(np.diag(a["H"]), np.diag(a["H"])))[~np.eye(n, dtype=bool)] if n > 1 else np.array([1.0])
                if np.min(gaps) < 1e-7:
                    continue
                if Ediff > 1e-12 * max(1.0, np.max(np.abs(a["H"]))) or np.max(np.abs(a["F"] - b["F"])) > 1e-9 * sc or np.max(np.abs(np.abs(a["D"]) - np.abs(b["D"]))) > 1e-7 * max(1e-12, np.max(np.abs(a["D"]))):
                    bad.append(dict(failed="energies, forces and coupling magnitudes at a position depend only on that position, not on what was computed before", case=dict(info, step=k, x=xk.tolist()))); break
                # gauge relation: tracked = fresh * signs
                sg = np.sign(np.einsum("pi,pi->i", a["R"], b["R"]))
                if np.max(np.abs(a["D"] - b["D"] * sg[:, None, None] * sg[None, :, None])) > 1e-7 * max(1e-12, np.max(np.abs(a["D"]))):
                    bad.append(dict(failed="couplings computed along a path differ from freshly computed ones only by the sign product s_i s_j", case=dict(info, step=k))); break
                if k in (1, L - 1) and not diab:
                    V = m.V(xk); dV = m.dV(xk); Eall, Craw = np.linalg.eigh(V); N = V.shape[0]
                    gc.append(tup(nat(N), nat(n), bl(isinstance(m, S.ShinMetiu)), fls(Eall[:n]), flss(Craw[:, :n]), "(Some %s)" % flss(prevA._reference) if prevA is not None else "None",
                                  lst([flss(dV[d]) for d in range(dV.shape[0])]), flss(elA._reference), lst([fls(elA._force[:, d]) for d in range(nd)]),
                                  lst([flss(elA._derivative_coupling[:, :, d]) for d in range(nd)]), lst([flss(elA.force_matrix()[:, :, d]) for d in range(nd)])))
                    gmeta.append(dict(info, step=k))
            res.count("model/" + name); res.count("path/" + kind)
            res.case(("path", name, kind, it), True, dict(info, length=L))
    # ---- continuation through points where the diabatic coupling is exactly zero (V exactly diagonal), arriving with tracked signs opposite to
    #      the raw eigenvectors: the states must still be aligned with the ones they are continued from
    for name, xs_ in [("simple", [[1.0], [3.0], [10.0], [28.0], [30.0], [45.0], [10.0]]), ("dual", [[1.0], [4.0], [9.0], [30.0], [60.0], [5.0]]),
                      ("vibronic", [[0.1, -0.2, 0.1, 0.05, 0.3], [0.1, -0.2, 0.1, 0.05, 0.1], [0.1, -0.2, 0.1, 0.05, 0.0], [0.0, 0.0, 0.0, 0.0, 0.0], [0.1, 0.1, 0.0, 0.0, -0.2]])]:
        for flip in ([-1.0, -1.0], [1.0, -1.0], [-1.0, 1.0]):
            m = mudslide.models.scattering_models[name]()
            prev = m.update(np.array(xs_[0])); prev._reference = prev._reference * np.array(flip)
            info = dict(model=name, path="through exactly vanishing coupling", initial_signs=flip)
            for xv in xs_[1:]:
                el = m.update(np.array(xv), electronics=prev)
                ov = np.einsum("pi,pi->i", el._reference, prev._reference)
                offd = float(np.max(np.abs(m.V(np.array(xv)) - np.diag(np.diag(m.V(np.array(xv)))))))
                res.count("zero-coupling-chain/" + ("exactly-diagonal" if offd == 0.0 else "coupled"))
                if np.any(ov < 0):
                    bad.append(dict(failed="each new set of adiabatic states has non-negative overlap, state by state, with the set it was continued from (at x=%r, off-diagonal of V %.3g: overlaps %r)" % (xv, offd, ov.tolist()), case=info)); break
                prev = el
            res.case(("zerocoupling", name, tuple(flip)), True, info)
    # ---- the surface command: couplings printed along a scan carry the sign of states continued from the previous row
    import io
    from mudslide.surface import surface_main
    for name, rng_, npts in [("models", [-10.0, 10.0], 6), ("modelx", [-10.0, 10.0], 5), ("modelw", [-1.5, 1.5], 40 if tier == "quick" else 100), ("super", [-5.0, 5.0], 7), ("dual", [-6.0, 6.0], 9)]:
        buf = io.StringIO(); surface_main(name, list(rng_), npts, 0, [0.0], output=buf)
        rows = [[float(v) for v in l.split()] for l in buf.getvalue().splitlines() if l and not l.startswith("#")]
        m = mudslide.models.scattering_models[name](); n_ = m.nstates(); el = None; worst = 0.0
        pairs = [(j, i) for i in range(n_) for j in range(i)]
        for r_, xv in zip(rows, np.linspace(rng_[0], rng_[1], npts)):
            el = m.update(np.array([xv]), electronics=el)
            want = [el._derivative_coupling[j, i, 0] for (j, i) in pairs]; got = r_[1 + 2 * n_: 1 + 2 * n_ + len(pairs)]
            worst = max(worst, max(abs(a_ - b_) for a_, b_ in zip(want, got)) if pairs else 0.0)
        res.count("surface-scan/" + name); res.case(("surfscan", name, npts), True)
        if len(rows) != npts or worst > 1e-8:
            bad.append(dict(failed="along a scan each row's states are continued from the previous row (surface command on %s, %d points: printed couplings differ from the sign-continued walk by %.3g)" % (name, npts, worst), case=dict(model=name, n=npts)))
    # ---- models that carry a reference of their own (constructor option reference=, or compute() called on the model itself):
    #      along a path the states must still be continued from the previous point, not from that fixed reference
    for name, lo, hi in [("modelx", -9.0, 11.0), ("models", -9.0, 11.0), ("super", -6.0, 6.0), ("dual", -5.0, 5.0)]:
        for how in ("constructor", "compute-on-model"):
            M0 = mudslide.models.scattering_models[name]
            C0 = np.linalg.eigh(M0().V(np.array([lo])))[1]
            if how == "constructor":
                m = M0(reference=C0 * np.array([rng.choice([-1.0, 1.0]) for _ in range(C0.shape[1])]))
            else:
                m = M0(); m.compute(np.array([lo]))          # leaves the model object itself holding a reference
            prev = None; xs = np.arange(lo, hi, 0.2 if tier == "quick" else 0.05)
            info = dict(model=name, reference_from=how, path="sweep %g..%g" % (lo, hi))
            if how == "constructor":
                first = m.update(np.array([lo]))
                if m._reference is None:
                    bad.append(dict(failed="a model given a reference at construction keeps it (the constructor dropped the reference= option)", case=info)); continue
                ov0 = np.einsum("pi,pi->i", first._reference, m._reference)
                if np.any(ov0 < 0):
                    bad.append(dict(failed="a model given a reference at construction aligns its first set of states with it (overlaps %r)" % ov0.tolist(), case=info))
            worst = 1.0
            for xv in xs:
                el = m.update(np.array([xv]), electronics=prev)
                if prev is not None:
                    ov = np.einsum("pi,pi->i", el._reference, prev._reference); worst = min(worst, float(np.min(ov)))
                    if np.any(ov < 0):
                        bad.append(dict(failed="each new set of adiabatic states has non-negative overlap, state by state, with the set it was continued from (model carrying its own reference: overlaps %r at x=%g)" % (ov.tolist(), xv), case=info)); break
                prev = el
            res.count("own-reference/" + how); res.case(("ownref", name, how), True, dict(info, min_overlap=worst))
    # ---- trajectory level: in every trace of every class (children of even-sampling trees inherit the parent's history) consecutive
    #      snapshots carry states with non-negative overlap, and what a step returned is not modified by later steps
    bad += trajectory_continuity(res, rng, tier)
    f2, e2 = run_case_check("C06g", PRELUDE, "case05g", "chk05g", gc, per_file=12, timeout=1500)
    for e in e2:
        res.violation("model evaluation failed (coqc)", dict(kind="coqc-error", log=e, no_failing_input_found=True))
    res.traces_validated = len(gc) - len(f2)
    corr = [gmeta[i] for i in f2[:3]]
    if bad:
        res.violation("implementation violates: " + bad[0]["failed"], dict(kind="oracle", failing_inputs=bad[:4], correspondence_failures=corr))
    elif corr:
        res.violation("implementation differs from Model/Electronics.v signfix / derived quantities (theorems no longer cover the code)",
                      dict(kind="correspondence", correspondence="Run/R05.chk05g along tracked paths", failing_inputs=corr, no_failing_input_found=True))
    return finish(res, thm,
                  rule="for each of the 11 built-in models: smooth paths, paths of large random jumps and paths that revisit positions; two interleaved computation chains sharing one model object; after every call all earlier results are "
                       "re-compared with their deep copies, overlaps with the continued-from states are checked, and the tracked result is compared with a history-free recomputation (energies, forces, |couplings|, sign-product relation); "
                       "sampled steps replayed through signfix + the generic layer; models carrying their own reference swept across positions where a state has rotated by more than 90 degrees; real runs of 5 trajectory classes (even-sampling trees included): overlaps between consecutive snapshots of every trace, and every electronics object the run received re-compared with its deep copy afterwards; non-trivial = distinct path",
                  assumptions=["np.linalg.eigh is a function of its argument (deterministic LAPACK)", "positions with a gap below 1e-7 are skipped for the history-independence comparison"])
