"""C07 — second-order accuracy and time reversibility."""
import random
import numpy as np
from common import *
import p01, p02

PRELUDE = "From MV Require Import Vec Hop R01 Cplx Mat Propagate R02.\n"


def final_state(mname, x0, p0, dt, T, integ, cls="fssh", rho0=None, rep="adiabatic"):
    import mudslide
    from mudslide.models import scattering_models as M
    n = int(round(T / dt))
    model = M[mname](representation=rep) if cls != "md" else None
    if cls == "md":
        from mudslide.models import HarmonicModel
        model = HarmonicModel([0.0], 0.0, [[0.02]], [200.0])
        tr = mudslide.AdiabaticMD(model, x0, p0, dt=dt, max_steps=n)
        s = tr.simulate()[-1]
        return np.concatenate([np.asarray(s["position"]), np.asarray(s["momentum"])]), tr
    kw = dict(dt=dt, max_steps=n, zeta_list=[2.0] * (n + 5), electronic_integration=integ)
    if rho0 is None:
        tr = mudslide.TrajectorySH(model, x0, p0, 0, **kw)
    else:
        tr = mudslide.TrajectorySH(model, x0, p0, rho0, state0=0, **kw)
    s = tr.simulate()[-1]
    rho = np.asarray(s["density_matrix"])
    return np.concatenate([np.asarray(s["position"]), np.asarray(s["momentum"]), rho.view(float).ravel()]), tr


def run(tier, seed):
    import mudslide
    from mudslide.models import scattering_models as M
    res = Result("C07", tier, seed)
    rng = random.Random(seed)
    thm = check_theorems("C07")
    bad = []
    # (1) the step uses the velocities at both ends: last_velocity/last_position hold the previous values
    vc, vmeta, _ = p01.verlet_cases(res, rng, 60 if tier == "quick" else 4000)
    for m in vmeta:
        if not m.get("last_ok", True):
            bad.append(dict(failed="after a step, last_velocity / last_position hold the values from before the step (they define the midpoint generator)", case={k: m[k] for k in ("cls", "mass", "x", "v", "dt")})); break
    f2, e2 = run_case_check("C07verlet", PRELUDE, "verletcase", "chk_verlet", vc, per_file=400)
    # (2) convergence order at a fixed final time, smooth models, both integrators, coherent start
    setups = [("dual", [-4.0], [12.0], 640.0, (8.0, 4.0, 2.0), 0.125, "adiabatic"), ("dual", [-4.0], [12.0], 320.0, (2.0, 1.0, 0.5), 0.0625, "diabatic"),
              ("simple", [-2.0], [10.0], 240.0, (2.4, 1.2, 0.6), 0.075, "adiabatic")] \
        + ([] if tier == "quick" else [("super", [-5.0], [8.0], 960.0, (8.0, 4.0, 2.0), 0.125, "adiabatic"), ("super", [-5.0], [8.0], 480.0, (2.0, 1.0, 0.5), 0.0625, "diabatic"),
                                       ("modelx", [-9.0], [10.0], 1200.0, (10.0, 5.0, 2.5), 0.15625, "adiabatic")])
    for mname, x0, p0, T, dts, dtref, rep in setups:
        n = M[mname]().nstates()
        a = np.zeros(n, dtype=complex); a[0] = 0.8; a[1] = 0.6j; rho0 = np.outer(a, a.conj())
        finals = {}
        for integ in ("exp", "linear-rk4"):
            ref, _ = final_state(mname, x0, p0, dtref, T, integ, rho0=rho0, rep=rep)
            finals[integ] = ref
            errs = [float(np.max(np.abs(final_state(mname, x0, p0, dt, T, integ, rho0=rho0, rep=rep)[0] - ref))) for dt in dts]
            r1, r2 = errs[0] / errs[1], errs[1] / errs[2]
            res.extra.setdefault("order_ratios", {})["%s/%s/%s" % (mname, rep, integ)] = dict(errors=errs, ratios=[r1, r2])
            res.count("order-probe/" + integ)
            res.case(("order", mname, integ), True, dict(model=mname, integrator=integ, errors=errs, ratios=[r1, r2]))
            if not (3.0 < r2 < 5.2):
                bad.append(dict(failed="halving the time step reduces the error by a factor of four (%s, %s, %s: errors %r, ratios %.2f %.2f)" % (mname, rep, integ, errs, r1, r2),
                                case=dict(model=mname, x0=x0, p0=p0, T=T, dts=dts, integrator=integ, representation=rep)))
        # both integrators converge to the same solution
        dd = float(np.max(np.abs(finals["exp"] - finals["linear-rk4"])))
        res.extra.setdefault("exp_vs_rk4_at_fine_dt", {})["%s/%s" % (mname, rep)] = dd
        if dd > 1e-4:
            bad.append(dict(failed="both electronic integrators converge to the same solution (%s, %s: difference %.3e at dt=%g)" % (mname, rep, dd, dtref),
                            case=dict(model=mname, representation=rep, x0=x0, p0=p0, T=T)))
    # MD order on the harmonic model
    ref, _ = final_state("", [0.5], [1.0], 0.0625, 400.0, "", cls="md")
    errs = [float(np.max(np.abs(final_state("", [0.5], [1.0], dt, 400.0, "", cls="md")[0] - ref))) for dt in (4.0, 2.0, 1.0)]
    res.extra["order_ratios"]["md/harmonic"] = dict(errors=errs)
    if not (3.0 < errs[1] / errs[2] < 5.2):
        bad.append(dict(failed="single-surface MD: halving dt reduces the error by four (errors %r)" % errs, case=dict(cls="md")))
    # (3) forward-backward defect, exponential integrator
    for mname, x0, p0, nst, dt in [("dual", [-4.0], [12.0], 80, 8.0), ("super", [-5.0], [8.0], 100, 8.0), ("simple", [-3.0], [10.0], 80, 10.0)][: 2 if tier == "quick" else 3]:
        n = M[mname]().nstates()
        a = np.zeros(n, dtype=complex); a[0] = 0.8; a[1] = 0.6j; rho0 = np.outer(a, a.conj())
        tr = mudslide.TrajectorySH(M[mname](), x0, p0, rho0, state0=0, dt=dt, max_steps=nst, zeta_list=[2.0] * (nst + 5))
        tr.simulate()
        back = mudslide.TrajectorySH(tr.model, tr.position.copy(), (-tr.velocity * tr.mass).copy(), np.conj(tr.rho), state0=0, dt=dt, max_steps=nst,
                                     zeta_list=[2.0] * (nst + 5), electronics=tr.electronics)
        back.simulate()
        defect = max(float(np.max(np.abs(back.position - np.array(x0)))), float(np.max(np.abs(back.velocity * back.mass + np.array(p0)))) / max(1.0, abs(p0[0])),
                     float(np.max(np.abs(np.conj(back.rho) - rho0))))
        res.extra.setdefault("reversal_defect", {})[mname] = defect
        res.count("reversal-probe"); res.case(("rev", mname, nst, dt), True, dict(model=mname, steps=nst, dt=dt, defect=defect))
        if defect > 1e-8:
            bad.append(dict(failed="reversing the momenta (and conjugating rho) and propagating the same number of steps returns to the initial state (defect %.3e)" % defect,
                            case=dict(model=mname, x0=x0, p0=p0, steps=nst, dt=dt)))
    # ---- whole runs of AdiabaticMD on harmonic surfaces through the assembled loop Model/MD.md_harm_run (no oracle data)
    import pmd
    mdc, mdmeta = pmd.collect(res, rng, 20 if tier == "quick" else 400, bad)
    f5, e5 = run_case_check("C07md", pmd.PRELUDE_M, "caseM", "chkM", mdc, per_file=100)
    for e in e2 + e5:
        res.violation("model evaluation failed (coqc)", dict(kind="coqc-error", log=e, no_failing_input_found=True))
    res.traces_validated = len(vc) - len(f2) + len(mdc) - len(f5)
    corr = [vmeta[i] for i in f2[:3]]
    if f5 and not bad and not corr:
        res.violation("the loop of AdiabaticMD.simulate differs from Model/MD.md_run (Run/RMD.chkM): C07_md_run_reversible no longer covers the code",
                      dict(kind="correspondence", correspondence="Run/RMD.chkM: Model/MD.md_harm_run vs AdiabaticMD.simulate on HarmonicModel", failing_inputs=[mdmeta[i] for i in f5[:4]], no_failing_input_found=True))
    if bad:
        res.violation("implementation violates: " + bad[0]["failed"], dict(kind="oracle", failing_inputs=bad[:4], correspondence_failures=[{k: c[k] for k in ("cls", "dt")} for c in corr]))
    elif corr:
        res.violation("implementation differs from Model/Hop.v advance_position/advance_velocity (theorems no longer cover the code)",
                      dict(kind="correspondence", correspondence="Run/R01.chk_verlet", failing_inputs=[{k: c[k] for k in ("cls", "mass", "x", "v", "dt")} for c in corr], no_failing_input_found=True))
    return finish(res, thm,
                  rule="Verlet steps of TrajectorySH/AdiabaticMD replayed through the model and checked for the previous-value bookkeeping; convergence order at fixed final time from dt, dt/2, dt/4 against a fine reference on smooth models "
                       "(coherent initial state, both electronic integrators) and for MD on the harmonic model; forward-backward defect of hop-free runs with the exponential integrator (the generator W of every step is compared with "
                       "Wmid by C02's check); non-trivial = distinct probe/step",
                  assumptions=["order is measured, not proved (partial)", "the backward run is given the tracked electronics object so that rho and the basis stay in one gauge"])
