"""C08 — Ehrenfest: potential, force, no hops, energy."""
import random, json
import numpy as np
from common import *
import p02

PRELUDE = "From MV Require Import Vec Cplx Mat Ehrenfest R02 R08.\n"
KEY = "ehrenfest-force-no-coherence"


def run(tier, seed):
    import mudslide
    from mudslide.models import scattering_models as M
    res = Result("C08", tier, seed)
    rng = random.Random(seed)
    thm = check_theorems("C08")
    ncase = 60 if tier == "quick" else 6000
    cases, meta, bad = [], [], []
    known_hits, repaired_hits = 0, 0
    known = any(e.get("key") == KEY for e in load_known_findings("C08"))
    for it in range(ncase):
        mname, x0, p0 = p02.MODELS[it % len(p02.MODELS)]
        if tier == "quick" and mname == "shin-metiu" and it > 20: mname, x0, p0 = p02.MODELS[1]
        diab = (it % 4 == 1) and mname != "shin-metiu"
        model = M[mname](representation="diabatic") if diab else M[mname](); n = model.nstates(); nd = model.ndim()
        x = np.array(x0) + np.array([rng.uniform(-1, 6) if nd == 1 else rng.uniform(-0.3, 0.3) for _ in range(nd)])
        kind = ["state", "pure-coherent", "mixed"][it % 3]
        if kind == "state":
            k = rng.randrange(n); rho = np.zeros((n, n), dtype=complex); rho[k, k] = 1.0
        else:
            rho = p02.rand_rho(rng, n, kind)
        tr = mudslide.Ehrenfest(model, x, p0, rho, state0=0, dt=1.0)
        if int(tr.state) != 0:
            bad.append(dict(failed="the active-state label of an Ehrenfest trajectory is the one it was given (state0=0 with a %s density matrix: label %d)" % (kind, int(tr.state)), case=dict(model=mname, initial=kind)))
        el = model.update(x)
        tr.electronics = el
        try:
            pot = float(tr.potential_energy()); force = np.array(tr._force(), dtype=float).reshape(nd)
        except Exception as ex:
            bad.append(dict(failed="potential_energy/_force raised or returned a wrong shape (%s: %s)" % (type(ex).__name__, ex), case=dict(model=mname, ndim=nd))); continue
        H = el.hamiltonian(); F = np.array(el._force); FM = np.array(el.force_matrix())
        info = dict(model=mname, x=x.tolist(), initial=kind, nstates=n, representation="diabatic" if diab else "adiabatic")
        res.count("representation/" + info["representation"])
        cases.append(tup(nat(n), nat(nd), cxss(rho), flss(H), flss(F), lst([lst([fls(FM[i, j]) for j in range(n)]) for i in range(n)]), fl(pot), fls(force)))
        meta.append(info)
        res.count("initial/" + kind); res.count("model/" + mname)
        res.case(("eh", mname, tuple(x), kind, it), True, dict(info, potential=pot, force=force.tolist()))
        # ---- the statement
        if abs(pot - float(np.real(np.trace(rho @ H)))) > 1e-12 * max(1.0, np.max(np.abs(H))):
            bad.append(dict(failed="potential energy is the expectation value tr(rho H)", case=info))
        mf = np.real(np.einsum("ji,ijx->x", rho, FM))
        D = force - mf
        sc = max(1e-300, np.max(np.abs(FM)))
        if np.max(np.abs(D)) > 1e-10 * sc:
            diag_part = np.real(np.einsum("ii,iix->x", rho, FM))
            predicted = diag_part - mf          # = - Re sum_{i != j} rho_ji F_ij
            if known and np.max(np.abs(D - predicted)) <= 1e-10 * sc:
                known_hits += 1
            else:
                bad.append(dict(failed="nuclear force is the expectation value -tr(rho grad H) including the coherence contribution (impl %r, mean field %r)" % (force.tolist(), mf.tolist()), case=info))
        elif kind != "state":
            repaired_hits += 1
    # never hops + energy conservation on real runs
    # the label must not follow the populations: fast passage transfers the majority of the population
    for mname, x0, p0, st0 in [("simple", [-3.0], [30.0], 0), ("dual", [-4.0], [30.0], 0), ("simple", [-3.0], [12.0], 1)]:
        trl = mudslide.Ehrenfest(M[mname](), x0, p0, st0, dt=5.0, max_steps=400)
        logl = trl.simulate()
        pops = np.real(np.diag(np.asarray(logl[-1]["density_matrix"])))
        res.count("label-probe"); res.extra.setdefault("label_probe_final_populations", {})["%s/p%g/s%d" % (mname, p0[0], st0)] = pops.tolist()
        if set(int(s_["active"]) for s_ in logl) != {st0}:
            bad.append(dict(failed="the active-state label never changes in an Ehrenfest trajectory (final populations %r)" % pops.tolist(), case=dict(model=mname, x0=x0, p0=p0, state0=st0)))
    # the label is the one given, whatever the populations of the initial density matrix are, and stays
    for pops_, st0 in [((0.2, 0.8), 0), ((0.2, 0.8), 1), ((0.8, 0.2), 0), ((0.8, 0.2), 1), ((0.5, 0.5), 0)]:
        c_ = np.sqrt(np.array(pops_, dtype=complex)) * np.array([1.0, np.exp(0.3j)])
        logm = mudslide.Ehrenfest(M["simple"](), [-2.0], [20.0], np.outer(c_, c_.conj()), state0=st0, dt=2.0, max_steps=30).simulate()
        res.count("label-probe/matrix-rho0")
        if set(int(s_["active"]) for s_ in logm) != {st0}:
            bad.append(dict(failed="the active-state label never changes in an Ehrenfest trajectory and is the one given (initial populations %r, state0=%d, logged labels %r)" % (pops_, st0, sorted(set(int(s_["active"]) for s_ in logm))), case=dict(pops=pops_, state0=st0)))
    for mname, x0, p0, T in [("simple", [-3.0], [10.0], 1600.0), ("dual", [-4.0], [20.0], 900.0)] + ([] if tier == "quick" else [("super", [-5.0], [10.0], 2000.0)]):
        drifts = []
        for dt in (8.0, 4.0, 2.0):
            tr = mudslide.Ehrenfest(M[mname](), x0, p0, 0, dt=dt, max_steps=int(T / dt))
            log = tr.simulate()
            act = set(int(s["active"]) for s in log)
            if act != {0} or len(getattr(log, "hops", [])) != 0:
                bad.append(dict(failed="the active-state label never changes in an Ehrenfest trajectory", case=dict(model=mname, dt=dt)))
            e = np.array([s["energy"] for s in log]); drifts.append(float(np.max(np.abs(e - e[0]))))
        res.extra.setdefault("energy_drift", {})[mname] = drifts
        res.count("drift-probe/" + mname)
        vanishing = drifts[2] < 0.7 * drifts[0]
        if not vanishing:
            if known and known_hits > 0:
                pass            # consequence of the known force defect (reported once below)
            else:
                bad.append(dict(failed="kinetic plus mean-field potential energy is conserved up to an error that vanishes with the time step (drifts %r for dt 8,4,2)" % drifts, case=dict(model=mname)))
    if known_hits:
        res.known_finding("Ehrenfest._force omits the coherence term: impl - mean-field = -Re sum_{i!=j} rho_ji F_ij on %d of %d coherent/mixed cases; energy drift %s does not vanish with dt"
                          % (known_hits, known_hits + repaired_hits, json.dumps(res.extra.get("energy_drift", {}))))
    failing, errors = run_case_check("C08", PRELUDE, "case08", "chk08", cases, per_file=40)
    for e in errors:
        res.violation("model evaluation failed (coqc)", dict(kind="coqc-error", log=e, no_failing_input_found=True))
    res.traces_validated = len(cases) - len(failing)
    corr = [meta[i] for i in failing[:4]]
    # ---- whole passes of real Ehrenfest runs (coherent initial rho) replayed through Model/Traj.step_eh
    import ptraj
    tc, tmeta = ptraj.collect(res, rng, 8 if tier == "quick" else 150, 64 if tier == "quick" else 1500, kind="eh")
    f4, e4 = run_case_check("C08traj", ptraj.PRELUDE_T, "caseE", "chkE", tc, per_file=8, timeout=1500)
    for e in e4:
        res.violation("model evaluation failed (coqc)", dict(kind="coqc-error", log=e, no_failing_input_found=True))
    res.traces_validated += len(tc) - len(f4)
    # ---- the same with electronic_integration = "linear-rk4" (Model/Traj.step_eh_rk4)
    tcr, tmetar = ptraj.collect(res, rng, 8 if tier == "quick" else 100, 40 if tier == "quick" else 800, kind="eh", integ="rk4")
    f4r, e4r = run_case_check("C08trajr", ptraj.PRELUDE_T, "caseE", "chkEr", tcr, per_file=4, timeout=1500)
    for e in e4r:
        res.violation("model evaluation failed (coqc)", dict(kind="coqc-error", log=e, no_failing_input_found=True))
    res.traces_validated += len(tcr) - len(f4r)
    if f4r and not bad and not corr and not f4:
        res.violation("loop body of an Ehrenfest run with linear-rk4 differs from Model/Traj.step_eh_rk4 (Run/RTraj.chkEr): C08_full_step_rk4 no longer covers the code",
                      dict(kind="correspondence", correspondence="Run/RTraj.chkEr: Model/Traj.step_eh_rk4 vs the loop body of Ehrenfest.simulate with electronic_integration='linear-rk4'",
                           failing_inputs=[tmetar[i] for i in f4r[:4]], no_failing_input_found=True))
    if f4 and not bad and not corr:
        res.violation("loop body of an Ehrenfest run differs from Model/Traj.step_eh (Run/RTraj.chkE): C08_full_step no longer covers the code",
                      dict(kind="correspondence", correspondence="Run/RTraj.chkE: Model/Traj.step_eh vs advance_position; advance_velocity; propagate_electronics; surface_hopping of Ehrenfest.simulate",
                           failing_inputs=[tmeta[i] for i in f4[:4]], no_failing_input_found=True))
    if bad:
        res.violation("implementation violates: " + bad[0]["failed"], dict(kind="oracle", failing_inputs=bad[:4], correspondence_failures=corr))
    elif corr and not (known_hits == 0 and repaired_hits > 0):
        res.violation("implementation differs from Model/Ehrenfest.v (theorems no longer cover the code)",
                      dict(kind="correspondence", correspondence="Run/R08.chk08: eh_potential / eh_force_code vs Ehrenfest.potential_energy/_force", failing_inputs=corr, no_failing_input_found=True))
    elif corr:
        res.notes.append("implementation now returns the mean-field force: the faithful model eh_force_code no longer matches (repair detected); update the model")
        res.violation("implementation differs from the recorded (defective) model and matches the mean-field force: model out of date",
                      dict(kind="correspondence", correspondence="eh_force_code vs Ehrenfest._force", failing_inputs=corr, no_failing_input_found=True))
    return finish(res, thm,
                  rule="random positions on the 10 registered models, density matrices: pure state index / pure coherent / mixed; potential_energy and _force of a real Ehrenfest object compared with the model of the code "
                       "and with the mean-field force; hop-free runs at dt 8/4/2 for the active label and the energy drift; whole loop-body passes of real Ehrenfest runs with coherent initial density matrices (7 models) replayed through Model/Traj.step_eh; non-trivial = distinct case",
                  assumptions=["the known finding is recognised only when impl - mean-field equals the predicted -Re sum_{i!=j} rho_ji F_ij to 1e-10"])
