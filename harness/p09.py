"""C09 — cumulative FSSH: attempt when 1 - prod exp(-G_i) crosses the threshold."""
import random, math, copy
import numpy as np
from common import *
from stubs import *

PRELUDE = "From MV Require Import Vec Hopper Cumulative R09.\n"


def gen_rates(rng, n, k, nsteps):
    gs = []
    for _ in range(nsteps):
        kind = rng.random()
        if kind < 0.15:
            g = [0.0] * n
        elif kind < 0.3:
            g = [rng.random() * 1e-12 for _ in range(n)]
        elif kind < 0.85:
            g = [rng.random() * 10 ** rng.uniform(-4, -0.5) if rng.random() < 0.8 else 0.0 for _ in range(n)]
        else:
            g = [rng.random() * 10 ** rng.uniform(-0.3, 0.7) for _ in range(n)]
        g[k] = 0.0
        gs.append(g)
    return gs


def run(tier, seed):
    import mudslide
    res = Result("C09", tier, seed)
    rng = random.Random(seed)
    thm = check_theorems("C09")
    ncase = 120 if tier == "quick" else 2000
    cases, meta, bad = [], [], []
    for it in range(ncase):
        n = rng.choice([2, 2, 3, 4, 8]); k = rng.randrange(n)
        nz = rng.choice([0, 1, 2, 4, 40])
        zl = [rng.choice([rng.random(), rng.random() * 0.1, rng.random() * 1e-3]) for _ in range(nz)]
        nsteps = rng.randint(5, 60)
        gs = gen_rates(rng, n, k, nsteps)
        if it % 6 == 0:
            # exact tie: threshold 0.0 and zero rates -> accumulated == zeta == 0, must NOT attempt (strict >)
            zl = [0.0] + zl; nz += 1
            gs[0] = [0.0] * n
            res.count("exact-tie-cases")
        sd = rng.randrange(2 ** 31)
        model = StubModel([1.0], n)
        tr = mudslide.TrajectoryCum(model, [0.0], [1.0], k, dt=1.0, zeta_list=list(zl), seed_sequence=sd)
        stream = np.random.default_rng(np.random.SeedSequence(sd)).random(2 * nsteps + 4).tolist()
        obs, natt, targets = [], 0, []
        # independent oracle state
        o_acc, o_z, o_zl, o_st = 0.0, None, list(zl), list(stream)
        def o_draw():
            nonlocal o_zl, o_st
            if o_zl:
                return o_zl.pop(0)
            return o_st.pop(0)
        o_z = o_draw()
        if float(tr.zeta) != o_z or float(tr.prob_cum) != 0.0:
            bad.append(dict(failed="initial threshold is the first supplied threshold (else the first generator number), accumulation starts at zero", case=dict(zeta_list=zl, seed=sd)))
        surv = 1.0
        for step, g in enumerate(gs):
            z_before = float(tr.zeta)
            try:
                out = tr.hopper(np.array(g))
            except Exception as ex:
                bad.append(dict(failed="hopper raised %r (accumulated == threshold must not trigger an attempt; zero total rate)" % (ex,), case=dict(n=n, k=k, zeta_list=zl, seed=sd, step=step, rates=gs[:step + 1])))
                obs = None
                break
            att = bool(out)
            tg = int(out[0]["target"]) if att else n
            obs.append((att, tg, float(tr.prob_cum), float(tr.zeta)))
            G = math.fsum(g)
            surv *= math.exp(-G)
            want_acc = 1.0 - surv
            margin = abs(want_acc - o_z)
            want_att = want_acc > o_z
            info = dict(n=n, k=k, zeta_list=zl, seed=sd, step=step, rates=gs[:step + 1])
            if margin > 1e-12:
                if att != want_att:
                    bad.append(dict(failed="attempt exactly at the first step where 1 - prod exp(-G_i) exceeds the threshold (acc=%r zeta=%r attempted=%r)" % (want_acc, o_z, att), case=info)); break
            else:
                want_att = att
            if want_att:
                u = o_st.pop(0)
                cdf = np.cumsum(np.array(g) / G); cdf = cdf / cdf[-1]
                wt = int(np.searchsorted(cdf, u, side="right"))
                if wt != tg and np.min(np.abs(cdf - u)) > 1e-12:
                    bad.append(dict(failed="target chosen with probability proportional to the per-state rates (slot of u=%r in cdf: want %d got %d)" % (u, wt, tg), case=info)); break
                if out[0]["zeta"] != z_before:
                    bad.append(dict(failed="attempt records the threshold that was crossed", case=info)); break
                o_z = o_draw(); surv = 1.0
                if float(tr.prob_cum) != 0.0 or float(tr.zeta) != o_z:
                    bad.append(dict(failed="after an attempt the accumulation is reset to zero and a fresh threshold is drawn in order (want zeta %r got %r, prob_cum %r)" % (o_z, float(tr.zeta), float(tr.prob_cum)), case=info)); break
                natt += 1; targets.append(tg)
            else:
                if abs(float(tr.prob_cum) - want_acc) > 1e-12:
                    bad.append(dict(failed="accumulated probability equals 1 - prod exp(-G_i) since the last attempt", case=info)); break
        if obs is None:
            continue
        if it % 3 == 0 and not bad:
            # a clone taken mid-run carries the same accumulation and threshold and attempts at the same step
            cl = tr.clone(); gcl = gen_rates(rng, n, k, 25); res.count("clone-probes")
            if float(cl.zeta) != float(tr.zeta) or float(cl.prob_cum) != float(tr.prob_cum):
                bad.append(dict(failed="a cloned cumulative trajectory keeps the accumulated probability and the current threshold (parent %r/%r, clone %r/%r)" % (float(tr.prob_cum), float(tr.zeta), float(cl.prob_cum), float(cl.zeta)), case=dict(n=n, k=k, zeta_list=zl, seed=sd)))
            else:
                for g in gcl:
                    try:
                        oa, ob = tr.hopper(np.array(g)), cl.hopper(np.array(g))
                    except Exception as ex:
                        bad.append(dict(failed="hopper raised %r on a clone/original pair" % (ex,), case=dict(n=n, k=k, seed=sd))); break
                    if bool(oa) != bool(ob) or (oa and (oa[0]["target"] != ob[0]["target"] or oa[0]["zeta"] != ob[0]["zeta"])):
                        bad.append(dict(failed="a cloned cumulative trajectory attempts at the same step, with the same threshold and target, as the original", case=dict(n=n, k=k, seed=sd))); break
        cases.append(tup(fls(zl), fls(stream), flss(gs), lst([tup(bl(a), nat(t), fl(p), fl(z)) for a, t, p, z in obs])))
        meta.append(dict(n=n, k=k, zeta_list=zl, seed=sd, rates=gs, impl=[list(o) for o in obs]))
        res.count("attempts", natt); res.count("nstates/%d" % n); res.count("zeta_list_len/%d" % nz)
        res.count("hops-per-case/%s" % ("0" if natt == 0 else "1" if natt == 1 else "2+"))
        res.case(("cum", n, k, tuple(zl), sd, tuple(map(tuple, gs))), natt > 0, dict(n=n, k=k, zeta_list=zl, steps=nsteps, attempts=natt, targets=targets))
    # ---- tiny per-step rates against a tiny threshold: the accumulation must not lose them (it is kept in extended precision)
    for rate, zt in [(1e-16, 5.5e-16), (3e-17, 1.0e-16), (1e-17, 4.5e-17), (2e-16, 1.1e-15)]:
        for n_ in (2, 3):
            tr = mudslide.TrajectoryCum(StubModel([1.0], n_), [0.0], [1.0], 0, dt=1.0, zeta_list=[zt, 2.0], seed_sequence=11)
            g_ = [0.0] + [rate / (n_ - 1)] * (n_ - 1); first = None
            for step in range(40):
                if tr.hopper(np.array(g_)): first = step; break
            want = int(math.floor(zt / rate))          # first step k with (k+1)*rate > zt  (1-exp(-x) = x to 1e-32 here)
            res.count("tiny-rate-sequences"); res.case(("tiny", rate, zt, n_), True)
            if first != want:
                bad.append(dict(failed="attempt exactly at the first step where the accumulated probability exceeds the threshold (per-step total rate %g, threshold %g: expected step %d, attempted at %r)" % (rate, zt, want, first), case=dict(rate=rate, zeta=zt, nstates=n_)))
    # ---- the even-sampling class without a spawn stack (its cumulative-FSSH fallback): same crossing rule, fresh thresholds are
    #      plain uniform numbers of the trajectory's own stream (drawn before the target number)
    for it in range(ncase // 4):
        n = rng.choice([2, 3, 4]); k = rng.randrange(n); sd = rng.randrange(2 ** 31); nsteps = rng.randint(10, 60)
        gs = gen_rates(rng, n, k, nsteps)
        # stub electronics: either every other state lies far above (all attempts frustrated) or far below (all accepted)
        mode = ["frustrated", "accepted"][it % 2]
        en = [(-5.0 * (1 + j) if mode == "accepted" else 50.0 * (1 + j)) for j in range(n)]; en[k] = 0.0
        elec = StubElec(np.diag(en), rand_antisym_dc(rng, n, 1), np.zeros((n, 1)))
        tr = mudslide.EvenSamplingTrajectory(StubModel([1.0], n, [elec]), [0.0], [1.0], k, dt=1.0, seed_sequence=sd, spawn_stack=None, electronics=elec)
        stream = np.random.default_rng(np.random.SeedSequence(sd)).random(2 * nsteps + 6).tolist()
        stream.pop(0)                                  # TrajectoryCum.__init__ draws one threshold that the subclass then replaces
        o_z = stream.pop(0); surv = 1.0; natt = 0
        info0 = dict(kind="even-sampling leaf (spawn_stack=None)", n=n, k=k, seed=sd)
        if float(tr.zeta) != o_z:
            bad.append(dict(failed="even-sampling fallback: initial threshold is a uniform number of the trajectory's stream (want %r got %r)" % (o_z, float(tr.zeta)), case=info0)); continue
        for step, g in enumerate(gs):
            g = list(g); g[int(tr.state)] = 0.0          # the rate to the current state is not a hopping rate
            out = tr.hopper(np.array(g)); G = math.fsum(g); surv *= math.exp(-G); want_acc = 1.0 - surv
            if abs(want_acc - o_z) < 1e-12: break
            if bool(out) != (want_acc > o_z):
                bad.append(dict(failed="even-sampling fallback: attempt exactly when 1 - prod exp(-G_i) exceeds the threshold (acc=%r zeta=%r attempted=%r)" % (want_acc, o_z, bool(out)), case=dict(info0, step=step, rates=gs[:step + 1]))); break
            if out:
                o_z = stream.pop(0); u = stream.pop(0); natt += 1
                if float(tr.zeta) != o_z:
                    bad.append(dict(failed="even-sampling fallback: after an attempt a fresh uniform threshold is drawn (want the stream's next number %r, got %r; accumulated was %r)" % (o_z, float(tr.zeta), want_acc), case=dict(info0, step=step, rates=gs[:step + 1]))); break
                st_before = int(tr.state)
                try:
                    tr.hop_to_it(out, elec)                 # the real leaf path: reset the accumulation, then attempt the hop
                except Exception as ex:
                    bad.append(dict(failed="even-sampling fallback: hop_to_it raised %r" % (ex,), case=dict(info0, step=step))); break
                res.count("es-leaf-attempts/" + ("accepted" if int(tr.state) != st_before else "frustrated"))
                if float(tr.prob_cum) != 0.0:
                    bad.append(dict(failed="even-sampling fallback: after an attempt (here %s) the accumulation is reset to zero (prob_cum=%r)" % ("accepted" if int(tr.state) != st_before else "frustrated", float(tr.prob_cum)), case=dict(info0, step=step, rates=gs[:step + 1]))); break
                surv = 1.0
        res.count("es-leaf-sequences"); res.count("es-leaf-attempts", natt); res.case(("es-leaf", n, k, sd), natt > 0)
    failing, errors = run_case_check("C09", PRELUDE, "case09", "chk09", cases, per_file=100)
    for e in errors:
        res.violation("model evaluation failed (coqc)", dict(kind="coqc-error", log=e, no_failing_input_found=True))
    res.traces_validated = len(cases) - len(failing)
    corr = [meta[i] for i in failing[:4]]
    # ---- whole passes of real TrajectoryCum runs replayed through Model/Traj.step_cum
    import ptraj
    tc, tmeta = ptraj.collect(res, rng, 8 if tier == "quick" else 150, 64 if tier == "quick" else 1500, kind="cum")
    f4, e4 = run_case_check("C09traj", ptraj.PRELUDE_T, "caseC", "chkC", tc, per_file=8, timeout=1500)
    for e in e4:
        res.violation("model evaluation failed (coqc)", dict(kind="coqc-error", log=e, no_failing_input_found=True))
    res.traces_validated += len(tc) - len(f4)
    # ---- the same with electronic_integration = "linear-rk4" (Model/Traj.step_cum_rk4)
    tcr, tmetar = ptraj.collect(res, rng, 8 if tier == "quick" else 100, 40 if tier == "quick" else 800, kind="cum", integ="rk4")
    f4r, e4r = run_case_check("C09trajr", ptraj.PRELUDE_T, "caseC", "chkCr", tcr, per_file=4, timeout=1500)
    for e in e4r:
        res.violation("model evaluation failed (coqc)", dict(kind="coqc-error", log=e, no_failing_input_found=True))
    res.traces_validated += len(tcr) - len(f4r)
    bad += getattr(res, "oracle_bad", [])
    if f4r and not bad and not corr and not f4:
        res.violation("loop body of a TrajectoryCum run with linear-rk4 differs from Model/Traj.step_cum_rk4 (Run/RTraj.chkCr): C09_full_step_rk4_accepted_hop no longer covers the code",
                      dict(kind="correspondence", correspondence="Run/RTraj.chkCr: Model/Traj.step_cum_rk4 vs the loop body of TrajectoryCum.simulate with electronic_integration='linear-rk4'",
                           failing_inputs=[tmetar[i] for i in f4r[:4]], no_failing_input_found=True))
    if f4 and not bad and not corr:
        res.violation("loop body of a TrajectoryCum run differs from Model/Traj.step_cum (Run/RTraj.chkC): C09_full_step_accepted_hop no longer covers the code",
                      dict(kind="correspondence", correspondence="Run/RTraj.chkC: Model/Traj.step_cum vs the loop body of TrajectoryCum.simulate",
                           failing_inputs=[tmeta[i] for i in f4[:4]], no_failing_input_found=True))
    if bad:
        res.violation("implementation violates: " + bad[0]["failed"], dict(kind="oracle", failing_inputs=bad[:4], correspondence_failures=corr))
    elif corr:
        res.violation("implementation differs from Model/Cumulative.v (theorems no longer cover the code)",
                      dict(kind="correspondence", correspondence="Run/R09.chk09: Model/Cumulative.v vs TrajectoryCum.hopper", failing_inputs=corr, no_failing_input_found=True))
    return finish(res, thm,
                  rule="sequences of 5..60 rate vectors (zero, 1e-12, moderate, totals > 1), 2..8 states, zeta_list of length 0/1/2/4/40 then the generator stream (pre-drawn from a twin generator), driven through TrajectoryCum.hopper and through EvenSamplingTrajectory.hopper without a spawn stack; whole loop-body passes of real TrajectoryCum runs (7 models) replayed through Model/Traj.step_cum; "
                       "non-trivial = sequence with at least one attempt",
                  assumptions=["numpy Generator.choice(p=) consumes one uniform and is searchsorted(cumsum(p)/sum, u, 'right') (checked per attempt by the oracle)",
                               "np.longdouble accumulation vs binary64 model: 2^-40 tolerance; |acc - zeta| < 2^-40 is knife-edge"])
