"""C10 — even-sampling: weights over the whole spawned tree; parent untouched; traces independent."""
import random, copy, queue, os, shutil
import numpy as np
from common import *

PRELUDE = "From MV Require Import Vec SpawnStack R10.\n"


def node_lit(n):
    return "(Node %s %s %s %s)" % (fl(n["zeta"]), fl(n["dw"]), lst([node_lit(c) for c in n.get("children", [])]), nat(n.get("spawn_size", 1)))


def hist_lit(events):
    # events: list of (k, [(ratio, [child_events...])])
    return "(Hist %s)" % lst([tup(nat(k), lst([tup(fl(r), lst([hist_lit(ch) for ch in kids])) for r, kids in brs])) for k, brs in events])


class Instr:
    """class-level instrumentation of EvenSamplingTrajectory / trace clone, removed afterwards"""
    def __init__(self):
        from mudslide.even_sampling import EvenSamplingTrajectory as ES
        from mudslide import tracer as T
        self.ES, self.T = ES, T
        self.trajs = []
        self.bad = []

    def __enter__(self):
        ES = self.ES; inst = self
        self.o_init, self.o_hopper, self.o_clone, self.o_hop_to_it = ES.__init__, ES.hopper, ES.clone, ES.hop_to_it
        def init(s, *a, **k):
            inst.o_init(s, *a, **k)
            s._v = dict(id=len(inst.trajs), events=[], parent=None, stack0=copy.deepcopy(s.spawn_stack.sample_stack), base0=float(s.spawn_stack.base_weight))
            inst.trajs.append(s)
        def hopper(s, probs):
            iz0 = s.spawn_stack.izeta; st = s.state
            out = inst.o_hopper(s, probs)
            if out and s.spawn_stack.sample_stack and s.spawn_stack.izeta > iz0:       # a stack threshold was crossed (whatever do_spawn() says afterwards)
                ns = s.spawn_stack.spawn_size()
                ratios = [float(out[i * ns]["weight"]) for i in range(len(out) // ns)]
                s._v["events"].append(dict(k=s.spawn_stack.izeta - iz0, ratios=ratios, ns=ns, kids=[], ntargets=len(out), state=st,
                                           targets=[int(h["target"]) for h in out]))
            return out
        def clone(s, *a, **k):
            c = inst.o_clone(s, *a, **k)
            c._v["parent"] = s._v["id"]
            if s._v["events"]:
                s._v["events"][-1]["kids"].append(c._v["id"])
            return c
        def hop_to_it(s, hop_to, electronics=None):
            before = (s.state, s.position.copy(), s.velocity.copy(), s.rho.copy(), s.time, s.nsteps, len(s.tracer))
            nq = s.queue.qsize() if s.queue is not None else 0
            inst.o_hop_to_it(s, hop_to, electronics)
            if s.spawn_stack.do_spawn():
                after = (s.state, s.position, s.velocity, s.rho, s.time, s.nsteps, len(s.tracer))
                if not (before[0] == after[0] and np.array_equal(before[1], after[1]) and np.array_equal(before[2], after[2])
                        and np.array_equal(before[3], after[3]) and before[4:] == after[4:]):
                    inst.bad.append(dict(failed="the parent trajectory is left unchanged by spawning", case=dict(traj=s._v["id"], time=s.time)))
                # children: at the parent's phase-space point at the hop time, on the target (or parent's state if frustrated)
                kids = [inst.trajs[i] for i in (s._v["events"][-1]["kids"] if s._v["events"] else [])]
                for c, h in zip(kids, hop_to):
                    ok_pos = np.array_equal(c.position, s.position) and c.time == s.time + s.dt and c.nsteps == s.nsteps + 1
                    hopped = c.state == int(h["target"])
                    ok_state = hopped or (c.state == s.state and np.allclose(c.velocity, s.velocity, rtol=1e-14, atol=0.0))   # clone() passes velocity*mass and divides again: one rounding
                    ok_rho = np.array_equal(c.rho, s.rho) and c.rho is not s.rho and c.position is not s.position and c.velocity is not s.velocity
                    if not (ok_pos and ok_state and ok_rho):
                        inst.bad.append(dict(failed="a child starts at the parent's phase-space point at the hop time on its target state (or the parent's state if frustrated), sharing no arrays",
                                             case=dict(parent=s._v["id"], child=c._v["id"], time=s.time, ok_pos=bool(ok_pos), ok_state=bool(ok_state), ok_rho=bool(ok_rho),
                                                       child_state=int(c.state), parent_state=int(s.state), target=int(h["target"]), nkids=len(kids), nhops=len(hop_to))))
        ES.__init__, ES.hopper, ES.clone, ES.hop_to_it = init, hopper, clone, hop_to_it
        # trace clones: remember what was inherited, log what is recorded directly
        self.o_tclone = {}
        for cls in (self.T.InMemoryTrace, self.T.YAMLTrace):
            self.o_tclone[cls] = cls.clone
        def mk(cls):
            oc = cls.clone
            def tclone(t):
                c = oc(t)
                c._inherited = inst.events_of(t)
                c._direct = []
                return c
            return tclone
        for cls in self.o_tclone:
            cls.clone = mk(cls)
        self.o_rec = {}
        for cls in (self.T.InMemoryTrace, self.T.YAMLTrace):
            self.o_rec[cls] = (cls.record_event, cls.hop)
            def mkrec(cls):
                orec, ohop = cls.record_event, cls.hop
                def record_event(t, et, ed):
                    if not hasattr(t, "_direct"): t._direct = []; t._inherited = []
                    t._direct.append((et, float(ed["time"]), ed.get("from"), ed.get("to")))
                    return orec(t, et, ed)
                def hop(t, time, f, to, zeta, prob):
                    if cls is inst.T.InMemoryTrace:
                        if not hasattr(t, "_direct"): t._direct = []; t._inherited = []
                        t._direct.append(("hop", float(time), f, to))
                    return ohop(t, time, f, to, zeta, prob)
                return record_event, hop
            cls.record_event, cls.hop = mkrec(cls)
        return self

    def events_of(self, t):
        import yaml
        if isinstance(t, self.T.InMemoryTrace):
            out = [("hop", float(h["time"]), h["from"], h["to"]) for h in t.hops]
            for et, l in t.events.items():
                out += [(et, float(e["time"]), e.get("from"), e.get("to")) for e in l]
            return sorted(out, key=repr)
        with open(os.path.join(t.location, t.event_log)) as f:
            evs = yaml.safe_load(f) or []
        return sorted([(e.get("event", "collapse"), float(e["time"]), e.get("from"), e.get("to")) for e in evs], key=repr)

    def __exit__(self, *a):
        ES = self.ES
        ES.__init__, ES.hopper, ES.clone, ES.hop_to_it = self.o_init, self.o_hopper, self.o_clone, self.o_hop_to_it
        for cls, oc in self.o_tclone.items():
            cls.clone = oc
        for cls, (orec, ohop) in self.o_rec.items():
            cls.record_event, cls.hop = orec, ohop

    def history(self, tid):
        t = self.trajs[tid]
        evs = []
        for e in t._v["events"]:
            ns = e["ns"]; kids = e["kids"]
            brs = []
            for i, r in enumerate(e["ratios"]):
                brs.append((r, [self.history(kids[i * ns + j]) for j in range(ns) if i * ns + j < len(kids)]))
            evs.append((e["k"], brs))
        return evs

    def weights_dfs(self, tid):
        t = self.trajs[tid]
        out = []
        for e in t._v["events"]:
            for kid in e["kids"]:
                out += self.weights_dfs(kid)
        out.append(float(t.weight))
        return out


def explicit_stack(rng, depth):
    n = rng.randint(1, 4)
    zs = sorted(rng.random() for _ in range(n))
    ws = [rng.random() + 0.05 for _ in range(n)]; tot = sum(ws); ws = [w / tot for w in ws]
    return [{"zeta": z, "dw": w, "children": explicit_stack(rng, depth - 1) if depth > 1 else [], "spawn_size": rng.choice([1, 1, 2])} for z, w in zip(zs, ws)]


def run(tier, seed):
    import mudslide
    from mudslide.models import scattering_models as M
    from mudslide.batch import BatchedTraj, TrajGenConst
    from mudslide.tracer import TraceManager, InMemoryTrace, YAMLTrace
    from mudslide.even_sampling import EvenSamplingTrajectory, SpawnStack
    res = Result("C10", tier, seed)
    rng = random.Random(seed)
    thm = check_theorems("C10")
    nb = 24 if tier == "quick" else 250
    cases, meta, bad, zc = [], [], [], []
    tmproot = os.path.join(OUT, "tmp", "C10"); shutil.rmtree(tmproot, ignore_errors=True); os.makedirs(tmproot)
    setups = [("simple", -3.0, (6.0, 14.0), 4.0), ("dual", -4.0, (10.0, 30.0), 5.0), ("extended", -5.0, (3.0, 10.0), 6.0), ("super", -5.0, (5.0, 12.0), 6.0)]
    for it in range(nb):
        mname, x0, (klo, khi), bound = setups[it % len(setups)]
        k = rng.uniform(klo, khi)
        kind = it % 3
        opts = {}
        if it % 6 == 5:
            # children spawned long before the parent reaches a small box around the origin
            mname, x0, k, bound = "extended", -10.0, rng.uniform(8.0, 14.0), 1.0
        if kind == 0:
            ss = rng.choice([[2], [3], [5], [2, 2], [3, 2], [2, 3], [2, 2, 2]]); opts = dict(spawn_stack=ss, quadrature=rng.choice(["gl", "midpoint", "trapezoid", "simpson", "cc"]), mcsamples=rng.choice([1, 1, 2, 3]))
            if opts["quadrature"] == "simpson": opts["spawn_stack"] = [3] * len(ss)
        elif kind == 1:
            opts = dict(spawn_stack=SpawnStack(explicit_stack(rng, rng.choice([1, 2, 3]))))
        else:
            ss = rng.choice([[8], [6, 2], [12]]); opts = dict(spawn_stack=ss, quadrature="midpoint", mcsamples=1)
        dt = rng.choice([20.0, 40.0, 80.0]) if kind == 2 else rng.choice([10.0, 20.0])   # large dt: several thresholds crossed in one step
        backend = "yaml" if it % 5 == 4 else "memory"
        d = os.path.join(tmproot, "b%d" % it); os.makedirs(d)
        tm = TraceManager(TraceType=InMemoryTrace) if backend == "memory" else TraceManager(TraceType=YAMLTrace, trace_kwargs=dict(location=d, log_pitch=16))
        with Instr() as inst:
            nsamp = 2 if (kind == 1 and it % 2 == 1) else 1        # the same explicit SpawnStack object serves two initial conditions
            b = BatchedTraj(M[mname](), TrajGenConst([x0], [k], 0, seed=rng.randrange(2 ** 31)), EvenSamplingTrajectory,
                            samples=nsamp, dt=dt, bounds=[-bound, bound], tracemanager=tm, max_steps=800, **opts)
            r = b.compute()
            bad += inst.bad
            info = dict(model=mname, k=k, dt=dt, backend=backend, opts={kk: (vv if not isinstance(vv, SpawnStack) else "explicit tree") for kk, vv in opts.items()}, ntraj=len(inst.trajs))
            roots = [t for t in inst.trajs if t._v["parent"] is None]
            if isinstance(opts.get("spawn_stack"), list):
                wantst = SpawnStack.from_quadrature(list(opts["spawn_stack"]), method=opts.get("quadrature", "gl"), mcsamples=opts.get("mcsamples", 1)).sample_stack
                for root in roots:
                    res.count("stack-built-from-options")
                    if [node_lit(n) for n in root._v["stack0"]] != [node_lit(n) for n in wantst]:
                        bad.append(dict(failed="a spawn stack built from quadrature sizes is the tensor product of those rules with the requested Monte-Carlo multiplicity (batch options %r: the trajectory runs with a different tree, e.g. first node %r instead of %r)"
                                               % ({kk: vv for kk, vv in opts.items()}, {k_: v_ for k_, v_ in root._v["stack0"][0].items() if k_ != "children"}, {k_: v_ for k_, v_ in wantst[0].items() if k_ != "children"}), case=info)); break
            for root in roots:
                rid = root._v["id"]
                iw = inst.weights_dfs(rid)
                h = inst.history(rid)
                multi = any(e["k"] > 1 for t in inst.trajs for e in t._v["events"])
                exhausted = any(t.spawn_stack.sample_stack and t.spawn_stack.izeta == len(t.spawn_stack.sample_stack) for t in inst.trajs)
                frustr = sum(1 for t in inst.trajs for (et, *_r) in getattr(t.tracer, "_direct", []) if et == "frustrated_hop")
                res.count("trees"); res.count("trajectories", len(inst.trajs)); res.count("kind/%s" % ["quadrature", "explicit-tree", "large-dt"][kind])
                if multi: res.count("several-thresholds-in-one-step")
                if exhausted: res.count("exhausted-stack")
                res.count("frustrated-children", frustr); res.count("backend/" + backend)
                res.case(("tree", mname, k, dt, repr(info["opts"])), len(inst.trajs) > 1, dict(info, weights=iw[:8]))
                tot = sum(iw)
                if any(w < 0 for w in iw):
                    bad.append(dict(failed="all weights non-negative", case=info, weights=iw))
                if abs(tot - root._v["base0"]) > 1e-12:
                    bad.append(dict(failed="weights of all trajectories from one initial condition sum to the initial weight (sum=%r)" % tot, case=info, weights=iw))
                cases.append(tup(lst([node_lit(n) for n in root._v["stack0"]]), fl(root._v["base0"]), hist_lit(h), fls(iw)))
                meta.append(dict(info, weights=iw))
            # traces: what each trace holds = what it inherited when cloned + what was recorded on it
            for t in inst.trajs:
                tr = t.tracer
                have = inst.events_of(tr)
                want = sorted(list(getattr(tr, "_inherited", [])) + list(getattr(tr, "_direct", [])), key=repr)
                if have != want:
                    bad.append(dict(failed="a cloned trace evolves independently of its original: its events are those inherited at clone time plus those recorded on it (have %d, expected %d)" % (len(have), len(want)),
                                    case=dict(info, traj=t._v["id"]))); break
            # stopping: a trajectory that ended before max_steps ended by the box rule, so it must have been
            # inside the box at some logged time of its own history (ancestors included) and be outside at the end
            for t in inst.trajs:
                if t.weight == 0.0 or t.nsteps >= 800:
                    continue
                xs = [float(sn["position"][0]) for sn in t.tracer]
                was_inside = any(-bound < x < bound for x in xs)
                if not was_inside or (-bound < xs[-1] < bound):
                    bad.append(dict(failed="a trajectory ends by the box rule only after having been inside the box and having left it (trajectory %d ended at x=%r after %d snapshots, ever inside: %r)"
                                    % (t._v["id"], xs[-1], len(xs), was_inside), case=info)); break
            # a trajectory that has crossed every threshold of its stack has handed all of its weight to its children
            for t in inst.trajs:
                if t.spawn_stack.sample_stack and t.spawn_stack.izeta == len(t.spawn_stack.sample_stack) and float(t.weight) != 0.0:
                    bad.append(dict(failed="the parent keeps the remaining marginal weight, which is zero once every threshold of its stack has been crossed (trajectory %d keeps weight %r)" % (t._v["id"], float(t.weight)), case=info)); break
            # the weights the batch reports (one trace per trajectory) are the trajectories' weights
            stale = [(t._v["id"], float(t.weight), float(t.tracer.weight)) for t in inst.trajs if float(t.tracer.weight) != float(t.weight)]
            tw = sum(float(tt.weight) for tt in r.traces); base = sum(float(rt._v["base0"]) for rt in roots)
            if stale or len(r.traces) != len(inst.trajs) or abs(tw - base) > 1e-12:
                bad.append(dict(failed="the weights of the traces of one batch are the weights of its trajectories and sum to the initial weight (sum over traces %r, initial %r, %d traces for %d trajectories; trajectory/trace weight mismatches (id, trajectory, trace): %r)"
                                       % (tw, base, len(r.traces), len(inst.trajs), stale[:4]), case=info))
            res.count("box-small" if bound == 1.0 else "box-wide")
            if len(roots) > 1: res.count("stack-object-reused")
            out = np.array(r.outcome())
            if abs(out.sum() - 1.0) > 1e-12:
                bad.append(dict(failed="batch outcomes sum to one (sum=%r)" % float(out.sum()), case=info))
            # next_zeta bookkeeping cases from the final stacks
            for t in inst.trajs[:6]:
                st = t._v["stack0"]
                if st:
                    for _ in range(3):
                        i0 = rng.randrange(len(st) + 1); cur = rng.choice([rng.random(), st[min(i0, len(st) - 1)]["zeta"], 0.0, 1.5])
                        s2 = SpawnStack(copy.deepcopy(st)); s2.izeta = i0
                        z = s2.next_zeta(cur)
                        zc.append(tup(lst([node_lit(n) for n in st]), nat(i0), fl(cur), nat(s2.izeta), fl(z), fl(s2.marginal_weight)))
        shutil.rmtree(d, ignore_errors=True)
    shutil.rmtree(tmproot, ignore_errors=True)
    failing, errors = run_case_check("C10", PRELUDE, "case10", "chk10", cases, per_file=20)
    fz, ez = run_case_check("C10z", PRELUDE, "list (node (T:=float)) * nat * float * nat * float * float", "chk10z", zc, per_file=300)
    for e in errors + ez:
        res.violation("model evaluation failed (coqc)", dict(kind="coqc-error", log=e, no_failing_input_found=True))
    # ---- whole passes of real even-sampling runs (parent before/after, children put on the queue) through Model/Traj.step_es
    import pes, ptraj
    ec, emeta = pes.collect_es(res, rng, 10 if tier == "quick" else 200, 60 if tier == "quick" else 1500)
    fe, ee = run_case_check("C10es", ptraj.PRELUDE_T.rstrip().rstrip(".") + " SpawnStack.\n", "caseS", "chkES", ec, per_file=10, timeout=1500)
    for e in ee:
        res.violation("model evaluation failed (coqc)", dict(kind="coqc-error", log=e, no_failing_input_found=True))
    res.traces_validated = len(cases) - len(failing) + len(zc) - len(fz) + len(ec) - len(fe)
    corr = [meta[i] for i in failing[:3]] + ([dict(next_zeta_cases_failed=len(fz))] if fz else []) + [dict(emeta[i], what="full even-sampling pass (Model/Traj.step_es vs the loop body of EvenSamplingTrajectory.simulate)") for i in fe[:4]]
    if bad:
        res.violation("implementation violates: " + bad[0]["failed"], dict(kind="oracle", failing_inputs=bad[:4], correspondence_failures=corr))
    elif corr:
        only_es = bool(fe) and not failing and not fz
        res.violation("loop body of an even-sampling run differs from Model/Traj.step_es (Run/RTraj.chkES): C10_full_step_weight_conserved / C10_full_step_parent_unchanged no longer cover the code" if only_es
                      else "implementation differs from Model/SpawnStack.v (theorems no longer cover the code)",
                      dict(kind="correspondence", correspondence="Run/RTraj.chkES: Model/Traj.step_es vs the loop body of EvenSamplingTrajectory.simulate (parent and spawned children)" if only_es
                           else "Run/R10: SpawnStack.weights / next_index / marginal vs the weights of a real even-sampling tree", failing_inputs=corr, no_failing_input_found=True))
    return finish(res, thm,
                  rule="real BatchedTraj(EvenSamplingTrajectory) trees on simple/dual/extended/super with stacks [n],[n,m],[n,m,k] for all five rules, mcsamples 1-3, explicit random trees (depth 1-3, spawn_size 1-2), "
                       "large time steps (several thresholds crossed in one step, exhausted stacks); the crossing history of every trajectory is observed by class-level wrappers and replayed through SpawnStack.weights; "
                       "non-trivial = tree with at least one spawned child",
                  assumptions=["hopper / clone / hop_to_it wrapped at class level to observe the crossing history", "2^-44 relative tolerance on weights"])
