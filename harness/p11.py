"""C11 — A-FSSH moments: Hermiticity, integrators, hop shift, collapse."""
import random, os, shutil, json
import numpy as np
from common import *
from stubs import *
import p02

PRELUDE = "From MV Require Import Vec Cplx Mat Propagate Afssh R02 R11.\n"


def rand_herm(rng, n, scale=1.0):
    A = np.array([[complex(rng.gauss(0, scale), rng.gauss(0, scale)) for _ in range(n)] for _ in range(n)])
    return 0.5 * (A + A.conj().T)


def make(rng, n, ndim, integ):
    import mudslide
    mass = [10 ** rng.uniform(2, 4) for _ in range(ndim)]
    def elec():
        e = sorted(rng.uniform(-0.05, 0.05) for _ in range(n))
        fm = np.zeros((n, n, ndim))
        for x in range(ndim):
            S = np.array([[rng.gauss(0, 0.01) for _ in range(n)] for _ in range(n)]); fm[:, :, x] = 0.5 * (S + S.T)
        F = np.array([[fm[i, i, x] for x in range(ndim)] for i in range(n)])
        return StubElec(np.diag(e), rand_antisym_dc(rng, n, ndim, 0.5), F, fm)
    le, te = elec(), elec()
    model = StubModel(mass, n, [te])
    rho = p02.rand_rho(rng, n, rng.choice(["pure-coherent", "mixed"]))
    tr = mudslide.AugmentedFSSH(model, [0.0] * ndim, [rng.gauss(0, 10.0) for _ in range(ndim)], rho, state0=rng.randrange(n), dt=10 ** rng.uniform(-1, 1.2),
                                electronics=te, augmented_integration=integ, electronic_integration="exp")
    tr.last_velocity = tr.velocity * (1 + 0.01 * rng.gauss(0, 1))
    for x in range(ndim):
        tr.delR[x] = rand_herm(rng, n, 0.3); tr.delP[x] = rand_herm(rng, n, 3.0)
    return tr, le, te


def herm_defect(M):
    return float(max(np.max(np.abs(M[x] - M[x].conj().T)) for x in range(M.shape[0])))


def collapse_probe(res, rng, tier, bad):
    import mudslide
    from mudslide.models import scattering_models as M
    from mudslide.tracer import YAMLTrace, InMemoryTrace
    # collapse on two-state models, both trace back-ends
    tmproot = os.path.join(OUT, "tmp", "C11"); shutil.rmtree(tmproot, ignore_errors=True); os.makedirs(tmproot)
    for k, backend in enumerate(["memory", "yaml", "memory"] if tier == "quick" else ["memory", "yaml"] * 4):      # at least two in-memory traces per process
        mname = ["simple", "dual", "extended"][k % 3]
        tracer = InMemoryTrace() if backend == "memory" else YAMLTrace(base_name="ta", location=tmproot, log_pitch=8)
        # thresholds: no hops except at the two forced-collapse steps, where a hop is attempted in the same step
        zl = [2.0] * 100; zl[20] = 1e-12; zl[50] = 1e-12
        integ = ["exp", "rk4"][k % 2]
        tr = mudslide.AugmentedFSSH(M[mname](), [-3.0], [12.0], 0, dt=10.0, max_steps=80, tracer=tracer, zeta_list=zl, seed_sequence=rng.randrange(2 ** 31),
                                    augmented_integration=integ, trace_every=[1, 3, 7][k % 3])
        state = {"collapsed": 0, "recorded": 0}
        orig_rec = tracer.record_event
        def rec(et, ed, orig_rec=orig_rec, state=state):
            if et == "collapse":
                state["recorded"] += 1; state.setdefault("as_recorded", []).append(json.loads(json.dumps(ed)))
            return orig_rec(et, ed)
        tracer.record_event = rec
        # every moment propagation must depend only on the values of its inputs (no hidden shared state):
        # replay each call on a shallow twin holding private copies and compare
        import copy as _cp
        def purity_wrap(name, tr=tr):
            orig = getattr(tr, name)
            cls_fn = getattr(mudslide.AugmentedFSSH, name)
            def wrapped(le, te):
                twin = _cp.copy(tr); twin.delR = tr.delR.copy(); twin.delP = tr.delP.copy(); twin.rho = tr.rho.copy()
                twin.velocity = tr.velocity.copy(); twin.last_velocity = tr.last_velocity.copy()
                orig(le, te)
                cls_fn(twin, le, te)
                if not (np.allclose(twin.delR, tr.delR, rtol=1e-10, atol=1e-14) and np.allclose(twin.delP, tr.delP, rtol=1e-10, atol=1e-14)):
                    bad.append(dict(failed="moment propagation after a collapse/hop depends only on the current moments, density matrix and electronics (%s on the live object differs from the same call on private copies)" % name,
                                    case=dict(model=mname, step=tr.nsteps, backend=backend, integrator=integ)))
            setattr(tr, name, wrapped)
        purity_wrap("advance_delR"); purity_wrap("advance_delP")
        orig_gamma = tr.gamma_collapse
        tr.gamma_collapse = lambda el, og=orig_gamma: np.abs(og(el)) + (1.0 if tr.nsteps in (20, 50) else 0.0) * (np.arange(2) != tr.state)
        orig_sh = tr.surface_hopping
        def sh(le, te, tr=tr, orig_sh=orig_sh, state=state):
            force = tr.nsteps in (20, 50)
            orig_sh(le, te)
            if force:
                want = np.zeros((2, 2), dtype=complex); want[tr.state, tr.state] = 1.0
                if not (np.array_equal(tr.rho, want) and np.all(tr.delR == 0) and np.all(tr.delP == 0)):
                    bad.append(dict(failed="after a collapse the moments are zero and the density matrix is the pure active state", case=dict(model=mname, step=tr.nsteps, backend=backend)))
                state["collapsed"] += 1
        tr.surface_hopping = sh
        try:
            log = tr.simulate()
        except Exception as ex:
            bad.append(dict(failed="collapse could not be recorded with the %s trace back-end (%s: %s)" % (backend, type(ex).__name__, ex), case=dict(model=mname))); continue
        if backend == "memory":
            held = list(log.events.get("collapse", []))
        else:
            import yaml
            evs = yaml.safe_load(open(os.path.join(tmproot, log.event_log))) or []
            held = [e for e in evs if "removed" in e]
        nev = len(held)
        want_ev = state.get("as_recorded", [])
        if len(held) == len(want_ev) and any(float(h_.get("time", -1)) != float(w_["time"]) or int(h_.get("removed", -1)) != int(w_["removed"]) or float(h_.get("gamma", -1)) != float(w_["gamma"]) for h_, w_ in zip(held, want_ev) if isinstance(h_, dict)):
            bad.append(dict(failed="the collapse is recorded as an event in whichever trace store is used, and the store keeps each event as it was recorded (%s back-end: event times held %r, recorded %r)" % (backend, [h_.get("time") for h_ in held if isinstance(h_, dict)], [w_["time"] for w_ in want_ev]), case=dict(model=mname, backend=backend)))
        # every held collapse event says when, which state, the rate and the random numbers that decided it
        for e in held:
            ok_e = isinstance(e, dict) and all(f in e for f in ("time", "removed", "gamma", "eta")) and len(e["eta"]) == 2 \
                   and e["removed"] in (0, 1) and float(e["eta"][e["removed"]]) < float(e["gamma"])
            res.count("collapse-event-fields/" + backend)
            if not ok_e:
                bad.append(dict(failed="a collapse is recorded as an event holding its time, the removed state, the rate and the random numbers drawn, the same in every trace store (%s back-end holds %r)" % (backend, e), case=dict(model=mname, backend=backend)))
                break
        res.count("collapse/" + backend, state["collapsed"])
        if nev != state["recorded"]:
            bad.append(dict(failed="the trace store holds exactly the collapse events recorded on it by its own trajectory (%d recorded, %d held, %s back-end, trace %d created in this process)" % (state["recorded"], nev, backend, k), case=dict(model=mname)))
        if nev < state["collapsed"] or state["collapsed"] == 0:
            bad.append(dict(failed="every collapse is recorded as an event in the trace store in use (%d collapses forced, %d events, %s)" % (state["collapsed"], nev, backend), case=dict(model=mname)))
    shutil.rmtree(tmproot, ignore_errors=True)


def run(tier, seed):
    import mudslide
    from mudslide.models import scattering_models as M
    from mudslide.tracer import YAMLTrace, InMemoryTrace
    res = Result("C11", tier, seed)
    rng = random.Random(seed)
    thm = check_theorems("C11")
    ncase = 40 if tier == "quick" else 400
    cases, meta, bad = [], [], []
    for it in range(ncase):
        n = rng.choice([2, 2, 3, 4, 8]) if tier != "quick" else rng.choice([2, 2, 3, 4]); ndim = rng.choice([1, 2, 3])
        integ = ["exp", "rk4"][it % 2]
        tr, le, te = make(rng, n, ndim, integ)
        dt = tr.dt
        W = tr.hamiltonian_propagator(le, te); eps, co = np.linalg.eigh(W)
        dR0, dP0, rho = tr.delR.copy(), tr.delP.copy(), tr.rho.copy()
        info = dict(n=n, ndim=ndim, integrator=integ, dt=dt, state=tr.state)
        if not (np.all(mudslide.AugmentedFSSH(tr.model, [0.0] * ndim, [1.0] * ndim, 0, dt=1.0).delR == 0)):
            bad.append(dict(failed="moments start at zero", case=info))
        try:
            tr.advance_delR(le, te); dR1 = tr.delR.copy()
            tr.delR = dR0.copy()
            tr.advance_delP(le, te); dP1 = tr.delP.copy()
        except Exception as ex:
            bad.append(dict(failed="moment propagation raised %s: %s" % (type(ex).__name__, ex), case=info)); continue
        f0 = tr._force(te)
        sc = max(1e-300, np.max(np.abs(dR1)), np.max(np.abs(dP1)))
        if herm_defect(dR1) > 1e-10 * sc or herm_defect(dP1) > 1e-10 * sc:
            bad.append(dict(failed="moment matrices remain Hermitian in the state indices (defects %.2e, %.2e)" % (herm_defect(dR1), herm_defect(dP1)), case=info))
        x = rng.randrange(ndim)
        fmx = te.force_matrix()[:, :, x]
        kR, kP = (0, 2) if integ == "exp" else (1, 3)
        common = (nat(n), fls(eps), cxss(co), cxss(W), fl(dt), fl(tr.mass[x]))
        cases.append(tup(nat(kR), *common, cxss(dR0[x]), cxss(dP0[x]), flss(fmx), fl(f0[x]), cxss(rho), nat(0), cxss(dR1[x])))
        meta.append(dict(info, what="advance_delR", x=x))
        cases.append(tup(nat(kP), *common, cxss(dR0[x]), cxss(dP0[x]), flss(fmx), fl(f0[x]), cxss(rho), nat(0), cxss(dP1[x])))
        meta.append(dict(info, what="advance_delP", x=x))
        res.count("integrator/" + integ); res.count("nstates/%d" % n)
        res.case(("adv", n, ndim, integ, dt, it), True, dict(info, delR_before=[[z.real, z.imag] for z in dR0[0][0]]))
        # hop shift to every target
        for t in range(n):
            if t == tr.state: continue
            tr.delR, tr.delP = dR1.copy(), dP1.copy()
            tr.hop_update(tr.state, t)
            cases.append(tup(nat(4), *common, cxss(dR1[x]), cxss(dP1[x]), flss(fmx), fl(f0[x]), cxss(rho), nat(t), cxss(tr.delR[x])))
            meta.append(dict(info, what="hop_update", target=t))
            res.count("hop-shift-target/%s" % ("below" if t < tr.state else "above"))
            for Mb, Ma in ((dR1, tr.delR), (dP1, tr.delP)):
                for xx in range(ndim):
                    db, da = np.diag(Mb[xx]), np.diag(Ma[xx])
                    off_same = np.array_equal(Ma[xx] - np.diag(da), Mb[xx] - np.diag(db))
                    if abs(da[t]) > 1e-14 * (1 + abs(db[t])) or np.max(np.abs((da - da[t]) - (db - db[t]))) > 1e-12 * (1 + np.max(np.abs(db))) or not off_same:
                        bad.append(dict(failed="after an accepted hop the moments are shifted by the new active state's diagonal: that diagonal vanishes, differences of diagonals and off-diagonals are unchanged (target %d of %d states)" % (t, n),
                                        case=dict(info, target=t, before=np.real(db).tolist(), after=np.real(da).tolist()))); break
    # integrators agree as dt -> 0
    for _ in range(3 if tier == "quick" else 12):
        n = rng.choice([2, 3]); ndim = 1
        st = rng.getstate(); diffs = []
        for dtv in (0.4, 0.2, 0.1):
            outs = []
            for integ in ("exp", "rk4"):
                rng.setstate(st)
                tr, le, te = make(rng, n, ndim, integ); tr.dt = dtv
                tr.advance_delR(le, te); tr.advance_delP(le, te); outs.append((tr.delR.copy(), tr.delP.copy()))
            diffs.append(max(float(np.max(np.abs(outs[0][0] - outs[1][0]))), float(np.max(np.abs(outs[0][1] - outs[1][1])))))
        res.extra.setdefault("exp_vs_rk4", []).append(diffs)
        res.count("integrator-agreement-probe")
        if not (diffs[2] < 0.6 * diffs[0] + 1e-13):
            bad.append(dict(failed="the two moment integrators agree as the time step goes to zero (differences %r for dt 0.4, 0.2, 0.1)" % diffs, case=dict(n=n)))
    # ---- real A-FSSH runs on the built-in models (1-D, 2-D and 5-D; 2, 3 and 8 states), both moment integrators: Hermitian at every step
    import sys
    S_ = sys.modules['mudslide.models.scattering_models']
    REAL = [("simple", lambda: M["simple"](), [-2.0], [12.0], 5.0), ("subotnik2d", lambda: S_.Subotnik2D(), [-3.0, 0.4], [14.0, 1.5], 4.0),
            ("vibronic", lambda: M["vibronic"](), [0.1, -0.2, 0.15, 0.05, 0.4], [0.5, -0.3, 0.2, 0.1, 2.0], 1.0), ("super", lambda: M["super"](), [-4.0], [9.0], 5.0),
            ("modelw", lambda: M["modelw"](), [-1.0], [20.0], 1.0)]
    for name, mk_, x0, p0, dtv in (REAL if tier != "quick" else REAL[:4]):
        for integ in ("exp", "rk4"):
            tr = mudslide.AugmentedFSSH(mk_(), x0, p0, 0, dt=dtv, max_steps=40 if tier == "quick" else 150, zeta_list=[2.0] * 200, augmented_integration=integ,
                                        electronic_integration="exp" if integ == "exp" else "linear-rk4", seed_sequence=5)
            worst = [0.0, 0.0]; orig_adv = tr.advance_position
            def adv(le, te, tr=tr, worst=worst, orig_adv=orig_adv):
                sc_ = max(1e-300, float(np.max(np.abs(tr.delR))), float(np.max(np.abs(tr.delP))))
                worst[0] = max(worst[0], max(herm_defect(tr.delR), herm_defect(tr.delP)) / sc_); worst[1] = max(worst[1], sc_)
                orig_adv(le, te)
            tr.advance_position = adv
            try:
                tr.simulate()
            except AssertionError:
                pass          # the collapse routine is written for two states (asserted by the code)
            res.count("real-run-hermiticity/%s/%s" % (name, integ))
            res.case(("realrun", name, integ), worst[1] > 1e-300, dict(model=name, integrator=integ, max_moment=worst[1], max_relative_defect=worst[0]))
            if worst[0] > 1e-9:
                bad.append(dict(failed="moment matrices remain Hermitian in the state indices at all times (A-FSSH on %s, %s: relative anti-Hermitian part %.2e)" % (name, integ, worst[0]), case=dict(model=name, integrator=integ, x0=x0, p0=p0, dt=dtv)))
    # ---- real runs started from zero moments: the two moment integrators build up the same moments as dt shrinks
    for name, mk_, x0, p0, dtv in REAL[:3]:
        diffs, sizes = [], []
        for dtx in (dtv, dtv / 2):
            outs = []
            for integ in ("exp", "rk4"):
                tr = mudslide.AugmentedFSSH(mk_(), x0, p0, 0, dt=dtx, max_steps=int(round(16 * dtv / dtx)), zeta_list=[2.0] * 200, augmented_integration=integ,
                                            electronic_integration="exp", seed_sequence=5)
                tr.gamma_collapse = lambda el, n_=tr.model.nstates(): np.zeros(n_)        # no collapse: compare the propagation alone
                tr.simulate(); outs.append((tr.delR.copy(), tr.delP.copy()))
            diffs.append(max(float(np.max(np.abs(outs[0][0] - outs[1][0]))), float(np.max(np.abs(outs[0][1] - outs[1][1])))))
            sizes.append(max(float(np.max(np.abs(outs[0][1]))), float(np.max(np.abs(outs[1][1])))))
        res.count("real-run-integrator-agreement/" + name); res.extra.setdefault("exp_vs_rk4_real", {})[name] = dict(differences=diffs, moment_size=sizes)
        if sizes[1] > 0 and not (diffs[1] < 0.6 * diffs[0] + 1e-12 * sizes[1] and diffs[1] < 0.05 * sizes[1]):
            bad.append(dict(failed="the two moment integrators agree as the time step goes to zero (real A-FSSH run on %s from zero moments: differences %r at dt, dt/2; moments of size %r)" % (name, diffs, sizes), case=dict(model=name, x0=x0, p0=p0, dt=dtv)))
    # ---- through hop_to_it: the re-centring happens at accepted hops only (frustrated attempts leave the moments alone)
    import p01
    nacc = nrej = 0
    for k in range(40 if tier == "quick" else 600):
        c, o = p01.drive_hop("afssh", p01.gen_hop(rng, k), rng)
        if o["accepted"]: nacc += 1
        else: nrej += 1
        f = p01.hop_oracle(c, o)
        if f and "moments" in f:
            bad.append(dict(failed=f, case=dict(mass=c["mass"], v=c["v"], dir=c["dir"], energies=c["en"], state=c["state"], target=c["target"])))
    res.count("hop_to_it/accepted", nacc); res.count("hop_to_it/frustrated", nrej)
    collapse_probe(res, rng, tier, bad)
    # ---- the collapse decision itself: gamma_collapse() and the loop in surface_hopping against Model/Afssh.gamma_collapse / collapse_scan
    import pcoll
    gcs, gmeta, scs, smeta = pcoll.collect(res, rng, 60 if tier == "quick" else 2000, bad)
    fg, eg = run_case_check("C11g", PRELUDE, "caseG", "chkG", gcs, per_file=300)
    fs, es = run_case_check("C11s", PRELUDE, "caseS", "chkS", scs, per_file=300)
    for e in eg + es:
        res.violation("model evaluation failed (coqc)", dict(kind="coqc-error", log=e, no_failing_input_found=True))
    coll_corr = [dict(gmeta[i], what="gamma_collapse") for i in fg[:3]] + [dict(smeta[i], what="collapse loop") for i in fs[:3]]
    # ---- whole passes of real A-FSSH runs (simple, dual, extended, Subotnik2D) replayed through Model/Traj.step_af
    import ptraj
    ac, ameta = ptraj.collect_af(res, rng, 8 if tier == "quick" else 150, 60 if tier == "quick" else 1500)
    fa_, ea_ = run_case_check("C11traj", ptraj.PRELUDE_T, "caseA", "chkA", ac, per_file=10, timeout=1500)
    for e in ea_:
        res.violation("model evaluation failed (coqc)", dict(kind="coqc-error", log=e, no_failing_input_found=True))
    coll_corr += [dict(ameta[i], what="full A-FSSH pass (Model/Traj.step_af vs the loop body of AugmentedFSSH.simulate)") for i in fa_[:4]]
    # ---- the same with augmented_integration = "rk4" (Model/Traj.step_af_rk4)
    acr, ametar = ptraj.collect_af(res, rng, 8 if tier == "quick" else 100, 40 if tier == "quick" else 800, aug="rk4")
    far_, ear_ = run_case_check("C11trajr", ptraj.PRELUDE_T, "caseA", "chkAr", acr, per_file=8, timeout=1500)
    for e in ear_:
        res.violation("model evaluation failed (coqc)", dict(kind="coqc-error", log=e, no_failing_input_found=True))
    coll_corr += [dict(ametar[i], what="full A-FSSH pass with rk4 moments (Model/Traj.step_af_rk4 vs the loop body of AugmentedFSSH.simulate)") for i in far_[:4]]
    failing, errors = run_case_check("C11", PRELUDE, "case11", "chk11", cases, per_file=12, timeout=1500)
    for e in errors:
        res.violation("model evaluation failed (coqc)", dict(kind="coqc-error", log=e, no_failing_input_found=True))
    res.traces_validated = len(cases) - len(failing) + len(gcs) - len(fg) + len(scs) - len(fs) + len(ac) - len(fa_) + len(acr) - len(far_)
    corr = [meta[i] for i in failing[:4]] + coll_corr
    if bad:
        res.violation("implementation violates: " + bad[0]["failed"], dict(kind="oracle", failing_inputs=bad[:4], correspondence_failures=corr))
    elif corr:
        res.violation("implementation differs from Model/Afssh.v (theorems no longer cover the code)",
                      dict(kind="correspondence", correspondence="Run/R11.chk11: delR_exp/delR_rk4/delP_exp/delP_rk4/hop_shift vs advance_delR/advance_delP/hop_update", failing_inputs=corr, no_failing_input_found=True))
    return finish(res, thm,
                  rule="random Hermitian moments, random (pure coherent / mixed) rho, random stub electronics with 2..8 states and 1..3 dimensions, both moment integrators: advance_delR / advance_delP replayed through the model with numpy's eigh as oracle; "
                       "hop_update to every target index (below and above the source); exp vs rk4 at dt 0.4/0.2/0.1; forced collapses on two-state models with both trace back-ends; real A-FSSH runs on 1-D/2-D/5-D models (Hermiticity at every step); hop_to_it with accepted and frustrated attempts; "
                       "whole passes of real A-FSSH runs on simple/dual/extended/Subotnik2D (moments, hop re-centring, collapse decision in the code's order) replayed through Model/Traj.step_af; gamma_collapse() on random moments/forces (incl. equal diagonal momenta and zero position differences) and the collapse loop of surface_hopping with rates placed on either side of the numbers drawn from a twin generator; non-trivial = distinct case",
                  assumptions=["the model uses (1/m)*delP where the code uses delP/m (one rounding)", "in the run-level probe the collapse is forced by raising gamma at two chosen steps; the rate formula and the decision loop are tied to the model separately (chkG, chkS)"])
