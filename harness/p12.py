"""C12 — reproducibility, independent streams, threshold order, clones."""
import random, copy, queue, os, shutil
import numpy as np
from common import *

PRELUDE = "From MV Require Import Vec Rng R19.\n"


def snaps_equal(a, b):
    import p14
    if len(a) != len(b): return False
    for x, y in zip(a, b):
        for key in x:
            if key == "electronics": continue
            if not p14.same_num(x[key], y[key]): return False
    return True


def global_rng_fingerprint():
    """state of the process-global generators (numpy legacy + python random): a run that is reproducible from its own seeds leaves them alone"""
    st = np.random.get_state()
    return (hash(st[1].tobytes()), st[2], hash(random.getstate()))


def trace_dump(log):
    return [dict((k, v) for k, v in s.items()) for s in log]


def make(cls, model, x0, p0, rng, **kw):
    import mudslide
    from mudslide.even_sampling import EvenSamplingTrajectory
    if cls == "md":
        return mudslide.AdiabaticMD(model, x0, p0, **kw)
    C = dict(fssh=mudslide.TrajectorySH, cumulative=mudslide.TrajectoryCum, ehrenfest=mudslide.Ehrenfest, afssh=mudslide.AugmentedFSSH, es=EvenSamplingTrajectory)[cls]
    return C(model, x0, p0, 0, **kw)


def run(tier, seed):
    import mudslide
    from mudslide.models import scattering_models as M
    from mudslide.batch import BatchedTraj, TrajGenConst
    from mudslide.tracer import TraceManager
    from mudslide.even_sampling import EvenSamplingTrajectory
    res = Result("C12", tier, seed)
    rng = random.Random(seed)
    thm = check_theorems("C12")
    bad, kc, dc, kmeta, dmeta = [], [], [], [], []
    nrep = 10 if tier == "quick" else 80
    setups = [("simple", -3.0, 10.0, 4.0), ("dual", -4.0, 20.0, 5.0), ("extended", -5.0, 6.0, 6.0), ("super", -5.0, 8.0, 6.0)]
    # (a) same seeds -> identical snapshots and events; (b) trajectory i independent of the batch size
    for it in range(nrep):
        mname, x0, k, bound = setups[it % 4]
        cls = ["fssh", "cumulative", "afssh", "ehrenfest", "es"][it % 5]
        if cls == "afssh" and mname == "super": mname, x0, k, bound = setups[0]
        sd = rng.randrange(2 ** 31) if it != 1 else 0; ns = rng.randint(2, 4)         # seed 0 is a seed like any other
        C = dict(fssh=mudslide.TrajectorySH, cumulative=mudslide.TrajectoryCum, ehrenfest=mudslide.Ehrenfest, afssh=mudslide.AugmentedFSSH, es=EvenSamplingTrajectory)[cls]
        shared_zl = [rng.random() for _ in range(6)] if cls in ("fssh", "cumulative", "afssh") and it % 2 == 0 else None
        zl_before = list(shared_zl) if shared_zl is not None else None
        gkind = ["const", "normal", "boltzmann"][(it + it // 5) % 3] if cls != "es" else "const"
        gseed2 = rng.randrange(2 ** 31)
        def gen():
            from mudslide.batch import TrajGenNormal, TrajGenBoltzmann
            if gkind == "normal": return TrajGenNormal([x0], [k], 0, 2.0, seed=sd, seed_traj=gseed2)
            if gkind == "boltzmann": return TrajGenBoltzmann(np.array([x0]), M[mname]().mass, 3.0e5 * k * k / 100.0, 0, scale=False, seed=sd, momentum_seed=gseed2)
            return TrajGenConst([x0], [k], 0, seed=sd)
        def batch(nsamp):
            # the process-global generators must not matter: reseed them differently before every run
            np.random.seed(rng.randrange(2 ** 31)); random.seed(rng.randrange(2 ** 31))
            kw = dict(samples=nsamp, dt=20.0, bounds=[-bound, bound], max_steps=600, tracemanager=TraceManager())
            if shared_zl is not None: kw["zeta_list"] = shared_zl       # one list object handed to every member and to every run
            if cls == "es": kw.update(spawn_stack=[3, 2], quadrature="gl", mcsamples=2); kw["samples"] = 1
            if shared_zl is None and (it // 5) % 2 == 1: kw["seed"] = 4711          # a seed handed to the batch itself: members still draw from distinct streams
            b = BatchedTraj(M[mname](), gen(), C, **kw)
            fp0 = global_rng_fingerprint()
            r = b.compute()
            if global_rng_fingerprint() != fp0:
                bad.append(dict(failed="runs are reproducible from their seeds: a batch drew numbers from the process-global random generator (numpy.random.* or random.*) instead of its own seeded streams", case=dict(cls=cls, model=mname, seed=sd)))
            return [(trace_dump(t), [dict(h) for h in t.hops], {e: list(v) for e, v in t.events.items()}, t.weight) for t in r.traces]
        r1, r2 = batch(ns), batch(ns)
        info = dict(cls=cls, model=mname, seed=sd, samples=ns, generator=gkind)
        res.count("generator/" + gkind)
        same = len(r1) == len(r2) and all(snaps_equal(a[0], b[0]) and a[1] == b[1] and repr(a[2]) == repr(b[2]) and a[3] == b[3] for a, b in zip(r1, r2))
        if not same:
            bad.append(dict(failed="repeating a run with the same seeds yields identical snapshots and events", case=info))
        if shared_zl is not None:
            res.count("shared-threshold-list")
            if shared_zl != zl_before:
                bad.append(dict(failed="a user-supplied threshold list is not consumed destructively (the caller's list changed)", case=info))
            firsts = [float(t[0][1]["zeta"]) if len(t[0]) > 1 else None for t in r1] if cls == "fssh" else []
            if cls == "fssh" and any(f is not None and f != zl_before[0] for f in firsts):
                bad.append(dict(failed="every batch member consumes the user-supplied thresholds in the order given before any generator number (first thresholds used: %r, supplied %r)" % (firsts, zl_before[0]), case=info))
        if shared_zl is None and cls in ("fssh", "cumulative", "afssh") and len(r1) >= 2:
            # members of one batch draw from distinct streams: their threshold sequences differ
            zs = [tuple(float(s_["zeta"]) for s_ in t[0][1:6] if "zeta" in s_) for t in r1]
            res.count("batch-members-distinct-streams")
            if any(zs[i] and zs[i] == zs[j] for i in range(len(zs)) for j in range(i)):
                bad.append(dict(failed="the trajectories of a batch draw from distinct random streams (two members of one batch used identical threshold sequences %r)" % (zs[0][:3],), case=info))
        res.count("repeat/" + cls); res.case(("rep", cls, mname, sd, ns), True, info)
        if cls != "es":
            r3 = batch(ns + rng.randint(1, 3))
            if not all(snaps_equal(a[0], b[0]) and a[1] == b[1] for a, b in zip(r1, r3[:ns])):
                bad.append(dict(failed="trajectory i is unaffected by how many other trajectories are requested", case=info))
            res.count("batch-size-independence")
    # (a') classes that draw a hop target from their stream: 3-state models started on the middle state (two open channels)
    for it in range(max(4, nrep // 2)):
        mname, x0, k, bound = [("models", -6.0, 12.0, 9.0), ("super", -5.0, 9.0, 6.0), ("modelx", -7.0, 12.0, 9.0)][it % 3]
        cls = ["cumulative", "es-leaf"][it % 2]; sd = rng.randrange(2 ** 31)
        zl3 = [rng.random() * 0.05 for _ in range(60)]          # small thresholds: many attempts, each with two open channels
        def one():
            np.random.seed(rng.randrange(2 ** 31)); random.seed(rng.randrange(2 ** 31))
            kw = dict(dt=15.0, bounds=[-bound, bound], max_steps=500, seed_sequence=sd)
            if cls == "cumulative": kw["zeta_list"] = list(zl3)
            if cls == "es-leaf": kw.update(spawn_stack=None, queue=queue.Queue())
            C = mudslide.TrajectoryCum if cls == "cumulative" else EvenSamplingTrajectory
            outs = []
            fp0 = global_rng_fingerprint()
            for j in range(6):
                kw["seed_sequence"] = np.random.SeedSequence(sd, spawn_key=(j,))
                t = C(M[mname](), [x0], [k], 1, **kw); lg = t.simulate()
                outs.append((trace_dump(lg), [dict(h) for h in lg.hops]))
            if global_rng_fingerprint() != fp0:
                bad.append(dict(failed="runs are reproducible from their seeds: a %s trajectory drew numbers from the process-global random generator (numpy.random.* or random.*) instead of its own seeded stream" % cls, case=dict(cls=cls, model=mname, seed=sd)))
            return outs
        a, b = one(), one()
        nh = sum(len(o[1]) for o in a)
        res.count("repeat-multichannel/" + cls); res.count("repeat-multichannel-hops", nh); res.case(("rep3", cls, mname, sd), nh > 0)
        if not all(snaps_equal(x[0], y[0]) and x[1] == y[1] for x, y in zip(a, b)):
            bad.append(dict(failed="repeating a run with the same seeds yields identical snapshots and events (class %s on a 3-state model started on the middle state; process-global generators reseeded in between)" % cls, case=dict(cls=cls, model=mname, seed=sd)))
    # (a'') a model object carries no history: a run gives the same snapshots on a fresh model object and on one that another trajectory used before
    #       (coherent initial density matrix, so that the sign convention of the states matters)
    HIST = [("shin-metiu-32", lambda: M["shin-metiu"](nstates=3, nel=32), ([-2.6], [-90.0], 45, 2.0), ([-6.0], [20.0], 30, 2.0)),
            ("modelx", lambda: M["modelx"](), ([-9.0], [14.0], 60, 20.0), ([4.0], [-12.0], 40, 20.0)),
            ("models", lambda: M["models"](), ([-9.0], [14.0], 60, 20.0), ([5.0], [-12.0], 40, 20.0))]
    for it, (hname, mk_, (xa, pa, na, dta), (xb, pb, nb_, dtb)) in enumerate(HIST if tier != "quick" else HIST):
        for cls_ in ([mudslide.Ehrenfest] if tier == "quick" else [mudslide.Ehrenfest, mudslide.TrajectorySH]):
            n_ = mk_().nstates(); a_ = np.array([complex(rng.gauss(0, 1), rng.gauss(0, 1)) for _ in range(n_)]); a_ /= np.linalg.norm(a_)
            rho0 = np.outer(a_, a_.conj()); sdB = rng.randrange(2 ** 31)
            def runB(model):
                return trace_dump(cls_(model, xb, pb, rho0.copy(), state0=0, dt=dtb, max_steps=nb_, seed_sequence=sdB, zeta_list=[2.0] * (nb_ + 5)).simulate())
            fresh = runB(mk_())
            used = mk_()
            mudslide.TrajectorySH(used, xa, pa, 0, dt=dta, max_steps=na, zeta_list=[2.0] * (na + 5), seed_sequence=1).simulate()
            again = runB(used)
            res.count("model-object-history/" + hname); res.case(("modelhist", hname, cls_.__name__), True)
            if not snaps_equal(fresh, again):
                bad.append(dict(failed="repeating a run with the same model, initial conditions, options and seeds yields identical snapshots (model object %s used by another trajectory before: the run differs from the same run on a fresh model object)" % hname,
                                case=dict(model=hname, cls=cls_.__name__, first_trajectory=dict(x=xa, p=pa, steps=na), run=dict(x=xb, p=pb, steps=nb_))))
    # (a3) the caller's initial density matrix is not touched: the same array object handed to two runs gives the same run twice
    for it, cls_ in enumerate([mudslide.Ehrenfest, mudslide.TrajectorySH, mudslide.TrajectoryCum, mudslide.AugmentedFSSH]):
        for integ_ in (["exp"] if tier == "quick" else ["exp", "linear-rk4"]):
            a_ = np.array([complex(rng.gauss(0, 1), rng.gauss(0, 1)) for _ in range(2)]); a_ /= np.linalg.norm(a_)
            rho0 = np.outer(a_, a_.conj()).astype(np.complex128); keep = rho0.copy(); sd_ = rng.randrange(2 ** 31)
            kw_ = dict(dt=10.0, max_steps=40, seed_sequence=sd_, zeta_list=[2.0] * 50, electronic_integration=integ_)
            if cls_ is mudslide.AugmentedFSSH and integ_ != "exp": kw_["augmented_integration"] = "rk4"
            one_ = trace_dump(cls_(M["simple"](), [-2.0], [11.0], rho0, state0=0, **kw_).simulate())
            two_ = trace_dump(cls_(M["simple"](), [-2.0], [11.0], rho0, state0=0, **kw_).simulate())
            res.count("caller-rho0-reused"); res.case(("rho0reuse", cls_.__name__, integ_), True)
            if not np.array_equal(rho0, keep) or not snaps_equal(one_, two_):
                bad.append(dict(failed="repeating a run with the same initial conditions yields identical snapshots (the same density-matrix array object handed to two %s runs: the caller's array was %s)" % (cls_.__name__, "modified" if not np.array_equal(rho0, keep) else "left alone but the runs differ"),
                                case=dict(cls=cls_.__name__, integrator=integ_)))
    # (a4) zero is a seed like any other: directly on the classes and on the command line
    for cls_ in (mudslide.TrajectorySH, mudslide.TrajectoryCum, mudslide.AugmentedFSSH):
        for sd0 in (0, np.int64(0)):
            runs_ = [trace_dump(cls_(M["dual"](), [-3.0], [14.0], 0, dt=10.0, max_steps=60, seed_sequence=sd0).simulate()) for _ in range(2)]
            res.count("seed-zero/class"); res.case(("seed0", cls_.__name__, type(sd0).__name__), True)
            if not snaps_equal(runs_[0], runs_[1]):
                bad.append(dict(failed="repeating a run with the same seeds yields identical snapshots (seed_sequence=%r of type %s given to %s)" % (sd0, type(sd0).__name__, cls_.__name__), case=dict(cls=cls_.__name__)))
    import io, pickle, tempfile, mudslide.__main__ as mm_
    for meth_ in ("fssh", "cumulative-sh"):
        outs_ = []
        with tempfile.TemporaryDirectory() as td_:
            for rep_ in range(2):
                b_ = io.StringIO(); pf_ = os.path.join(td_, "r%d.pickle" % rep_)
                mm_.main(["-a", meth_, "-m", "dual", "-n", "1", "-k", "14", "14", "-s", "3", "-z", "0", "-x", "-4", "-b", "4.5", "-o", "pickle", "-O", pf_], file=b_)
                with open(pf_, "rb") as fh_:
                    r_ = pickle.load(fh_)
                outs_.append([trace_dump(t_) for t_ in r_[0][1].traces])
        res.count("seed-zero/cli")
        if len(outs_[0]) != len(outs_[1]) or not all(snaps_equal(a_, b_) for a_, b_ in zip(outs_[0], outs_[1])):
            bad.append(dict(failed="repeating a run with the same seeds yields identical snapshots (command line -a %s with -z 0, run twice)" % meth_, case=dict(args="-z 0", method=meth_)))
    # (c) seed keys: generator spawn + even-sampling clones
    for it in range(nrep * 3):
        key = [rng.randrange(5) for _ in range(rng.randint(0, 3))]
        ss = np.random.SeedSequence(rng.randrange(2 ** 31), spawn_key=tuple(key))
        counts = [rng.randint(1, 5) for _ in range(rng.randint(1, 4))]
        obs = [[list(c.spawn_key) for c in ss.spawn(n)] for n in counts]
        kc.append(tup(lst([nat(x) for x in key]), lst([nat(n) for n in counts]), lst([lst([lst([nat(x) for x in k]) for k in o]) for o in obs])))
        kmeta.append(dict(kind="SeedSequence.spawn", key=key, counts=counts, observed=obs))
        res.count("seed-key-cases"); res.case(("key", tuple(key), tuple(counts)), True)
    # even-sampling clone keys
    model = M["simple"]()
    tr = EvenSamplingTrajectory(model, [-3.0], [10.0], 0, dt=1.0, queue=queue.Queue(), spawn_stack=[2], seed_sequence=np.random.SeedSequence(5, spawn_key=(3,)), electronics=model.update(np.array([-3.0])))
    ks = [list(tr.clone().seed_sequence.spawn_key) for _ in range(4)]
    kc.append(tup(lst([nat(3)]), lst([nat(1)] * 4), lst([lst([lst([nat(x) for x in k])]) for k in ks]))); kmeta.append(dict(kind="even-sampling clone keys", keys=ks))
    if len(set(map(tuple, ks))) != 4:
        bad.append(dict(failed="even-sampling spawns receive a fresh stream each", case=dict(keys=ks)))
    # (c') every trajectory of a complete even-sampling tree has its own stream
    import p10
    for mname, x0, k, bound in [("simple", -3.0, 8.0, 4.0), ("super", -5.0, 8.0, 6.0)]:
        for mcs in (1, 2):
            with p10.Instr() as inst:
                b = BatchedTraj(M[mname](), TrajGenConst([x0], [k], 0, seed=rng.randrange(2 ** 31)), EvenSamplingTrajectory,
                                samples=1, dt=20.0, bounds=[-bound, bound], max_steps=600, spawn_stack=[3, 2], quadrature="midpoint", mcsamples=mcs)
                b.compute()
                keys = [(repr(t.seed_sequence.entropy), tuple(t.seed_sequence.spawn_key)) for t in inst.trajs]
                states = [repr(t.random_state.bit_generator.state["state"]) for t in inst.trajs]
            res.count("es-tree-streams", len(keys)); res.case(("estree", mname, mcs), True)
            if len(set(keys)) != len(keys):
                bad.append(dict(failed="even-sampling spawns receive a fresh stream each: %d trajectories share seed sequences in one tree" % (len(keys) - len(set(keys))), case=dict(model=mname, mcsamples=mcs, keys=keys[:8])))
    # (d) thresholds: user list in order, then generator numbers
    for it in range(nrep * 3):
        cls = ["fssh", "cumulative", "afssh"][it % 3]
        zl = [rng.random() for _ in range(rng.randint(0, 6))]; sd = rng.randrange(2 ** 31); k = rng.randint(1, 12)
        tr = make(cls, model, [-3.0], [10.0], rng, dt=1.0, zeta_list=list(zl), seed_sequence=sd)
        got = []
        if cls == "cumulative": got.append(float(tr.zeta))
        while len(got) < k: got.append(float(tr.draw_new_zeta()))
        stream = np.random.default_rng(np.random.SeedSequence(sd)).random(k + 2).tolist()
        dc.append(tup(fls(zl), fls(stream), nat(k), fls(got))); dmeta.append(dict(cls=cls, zeta_list=zl, seed=sd, k=k, got=got))
        res.count("threshold-order/" + cls); res.case(("zl", cls, tuple(zl), sd, k), True)
        want = (zl + stream)[:k]
        if got != want:
            bad.append(dict(failed="user-supplied thresholds are consumed in the order given before any generator number", case=dmeta[-1], want=want))
    # (e) clones: evolve exactly as the original; no shared mutable state except the queue
    for it in range(nrep * 2):
        cls = ["fssh", "cumulative", "ehrenfest", "afssh", "md"][it % 5]
        mname, x0, k, bound = setups[it % 3]
        m = M[mname](); nst = rng.randint(3, 40)
        if cls == "md":
            from mudslide.models import HarmonicModel
            m = HarmonicModel([0.0], 0.0, [[0.02]], [2000.0]); x0, k = 0.3, 2.0
        sd_c = rng.randrange(2 ** 31)
        tr = make(cls, m, [x0], [k], rng, dt=10.0, max_steps=nst, seed_sequence=sd_c, queue=queue.Queue())
        tr.simulate()
        m_ref = M[mname]() if cls != "md" else type(m)([0.0], 0.0, [[0.02]], [2000.0])
        ref_c = make(cls, m_ref, [x0], [k], rng, dt=10.0, max_steps=nst + 25, seed_sequence=sd_c); ref_c.simulate()
        info = dict(cls=cls, model=mname, clone_at_step=nst)
        try:
            c = tr.clone()
        except Exception as ex:
            bad.append(dict(failed="clone() raised %s: %s" % (type(ex).__name__, ex), case=info)); continue
        shared = [nm for nm in vars(tr) if nm not in ("queue", "model") and isinstance(getattr(tr, nm), (np.ndarray, list, dict)) and getattr(tr, nm) is getattr(c, nm)]
        # ... nor through the objects it holds (electronics of this and of the previous step): no array of the clone overlaps one of the original
        def arrays_of(o_):
            out_ = []
            for nm_ in ("electronics", "last_electronics"):
                e_ = getattr(o_, nm_, None)
                if e_ is None or e_ is getattr(o_, "model", None): continue
                out_ += [(nm_ + "." + k_, v_) for k_, v_ in vars(e_).items() if isinstance(v_, np.ndarray) and v_.size > 0]
            out_ += [(k_, v_) for k_, v_ in vars(o_).items() if isinstance(v_, np.ndarray) and v_.size > 0]
            return out_
        shared += sorted(set(a_ for a_, x_ in arrays_of(c) for b_, y_ in arrays_of(tr) if np.shares_memory(x_, y_)))
        if shared or c.tracer is tr.tracer or c.random_state is tr.random_state:
            bad.append(dict(failed="a clone shares no mutable state with the original other than the work queue (shared: %r)" % shared, case=info)); continue
        for t in (tr, c):
            t.duration["max_steps"] = nst + 25; t.force_quit = False
        keep = copy.deepcopy((c.position, c.velocity, getattr(c, "rho", None)))
        tr.restarting = True; tr.simulate()
        if not (np.array_equal(c.position, keep[0]) and np.array_equal(c.velocity, keep[1]) and (keep[2] is None or np.array_equal(c.rho, keep[2]))):
            bad.append(dict(failed="advancing the original changes its clone", case=info)); continue
        c.restarting = True; c.simulate()
        if not snaps_equal(trace_dump(tr.tracer), trace_dump(c.tracer)):
            bad.append(dict(failed="a clone taken at any step evolves exactly as the original does from that step", case=info))
        elif cls == "afssh" and not (np.array_equal(tr.delR, c.delR) and np.array_equal(tr.delP, c.delP)):
            bad.append(dict(failed="a clone taken at any step evolves exactly as the original does from that step (the A-FSSH moments of clone and original differ after the same continuation: max |delR - delR'| = %.3g)" % float(np.max(np.abs(tr.delR - c.delR))), case=info))
        # ... and both equal the run that was never interrupted (same seed): nothing is lost or reset when simulate() is entered again
        if cls != "afssh" and not snaps_equal(trace_dump(ref_c.tracer), trace_dump(c.tracer)):
            bad.append(dict(failed="a clone taken at any step evolves exactly as the original does from that step (continued clone differs from the uninterrupted run with the same seed)", case=info))
        res.count("clone/" + cls); res.case(("clone", cls, mname, nst), True, info)
    for it in range(3 if tier == "quick" else 12):
        cls = ["md", "fssh", "ehrenfest"][it % 3]
        from mudslide.models import HarmonicModel as _HMr
        mkm = (lambda: _HMr([0.0], 0.0, [[0.02]], [2000.0])) if cls == "md" else (lambda: M["simple"]())
        kk = rng.randint(3, 12); sdr = rng.randrange(2 ** 31)
        mkw = dict(dt=5.0) if cls == "md" else dict(dt=10.0, seed_sequence=sdr, zeta_list=[2.0] * 60)
        part = make(cls, mkm(), [0.3] if cls == "md" else [-3.0], [2.0] if cls == "md" else [11.0], rng, max_steps=kk, **mkw).simulate()
        Cr = dict(md=mudslide.AdiabaticMD, fssh=mudslide.TrajectorySH, ehrenfest=mudslide.Ehrenfest)[cls]
        rkw = dict(max_steps=kk + 8) if cls == "md" else dict(max_steps=kk + 8, seed_sequence=sdr, zeta_list=[2.0] * 60)
        try:
            r_ = Cr.restart(mkm(), part, **rkw); c_ = r_.clone()
            r_.simulate(); c_.simulate()
        except Exception as ex:
            bad.append(dict(failed="clone() of a restarted trajectory raised %s: %s" % (type(ex).__name__, ex), case=dict(cls=cls))); continue
        res.count("clone-of-restarted/" + cls); res.case(("clone-restart", cls, kk), True)
        if not snaps_equal(trace_dump(r_.tracer), trace_dump(c_.tracer)):
            bad.append(dict(failed="a clone taken at any step evolves exactly as the original does from that step (a trajectory built by restart() and cloned before it is resumed: original logs %d snapshots, clone %d)" % (len(r_.tracer), len(c_.tracer)), case=dict(cls=cls, restarted_after=kk)))
    f1, e1 = run_case_check("C12k", PRELUDE, "list nat * list nat * list (list (list nat))", "chk12k", kc, per_file=400)
    f2, e2 = run_case_check("C12d", PRELUDE, "list float * list float * nat * list float", "chk12d", dc, per_file=400)
    for e in e1 + e2:
        res.violation("model evaluation failed (coqc)", dict(kind="coqc-error", log=e, no_failing_input_found=True))
    res.traces_validated = len(kc) + len(dc) - len(f1) - len(f2)
    corr = [kmeta[i] for i in f1[:3]] + [dmeta[i] for i in f2[:3]]
    if bad:
        res.violation("implementation violates: " + bad[0]["failed"], dict(kind="oracle", failing_inputs=bad[:4], correspondence_failures=corr))
    elif corr:
        res.violation("implementation differs from Model/Rng.v (theorems no longer cover the code)",
                      dict(kind="correspondence", correspondence="Run/R19.chk12k/chk12d: spawn keys and threshold order vs numpy SeedSequence / draw_new_zeta", failing_inputs=corr, no_failing_input_found=True))
    return finish(res, thm,
                  rule="every batch run twice with the same seeds (5 classes incl. even-sampling trees; constant, normal and Boltzmann generators; numpy/python global generators reseeded differently before each run) and compared bit-for-bit; cumulative and stack-less even-sampling runs on 3-state models started on the middle state; runs with a coherent initial density matrix on a fresh model object and on one used by another trajectory before; batch of n vs n+k; SeedSequence.spawn keys for random parents and successive spawn counts; "
                       "even-sampling clone keys; draw_new_zeta order for random zeta_lists against a twin generator; clones of 5 classes at random steps continued alongside the original; non-trivial = distinct case",
                  assumptions=["bit-for-bit repeatability of numpy/LAPACK within one process", "clone isolation is observed on the attributes that are arrays/lists/dicts"])
