"""C13 — restart from a log reproduces the uninterrupted run."""
import random, os, shutil
import numpy as np
from common import *

PRELUDE = "From MV Require Import Vec Restart R13.\n"
MODELS = [("simple", [-4.0], [15.0], 8.0), ("shin-metiu-32", [-2.6], [-90.0], 2.0), ("dual", [-4.0], [15.0], 8.0), ("super", [-5.0], [10.0], 8.0),
          ("vibronic", [0.1, -0.2, 0.15, 0.05, 0.3], [0.5, -0.3, 0.2, 0.1, 1.0], 2.0), ("modelw", [-1.0], [20.0], 2.0), ("extended", [-5.0], [8.0], 8.0),
          ("modelx", [-9.0], [12.0], 10.0), ("models", [-9.0], [12.0], 10.0), ("shin-metiu", [-2.0], [5.0], 2.0)]


def mk(cls, mname):
    import mudslide
    from mudslide.models import scattering_models as M, HarmonicModel
    if cls == "md":
        return mudslide.AdiabaticMD, HarmonicModel([0.0, 0.1], 0.0, [[0.02, 0.003], [0.003, 0.05]], [2000.0, 500.0])
    C = dict(ehrenfest=mudslide.Ehrenfest, fssh=mudslide.TrajectorySH)[cls]
    if mname == "shin-metiu-32":
        return C, M["shin-metiu"](nstates=3, nel=32)      # coarse grid: fresh eigenvectors differ in sign from the tracked ones left of x = -4.5
    return C, M[mname]()


def fields(s, cls):
    ks = ["time", "position", "momentum"] + ([] if cls == "md" else ["density_matrix", "active"])
    return {k: np.asarray(s[k]) for k in ks}


def run(tier, seed):
    from mudslide.tracer import YAMLTrace, InMemoryTrace, load_log
    res = Result("C13", tier, seed)
    rng = random.Random(seed)
    thm = check_theorems("C13")
    tmproot = os.path.join(OUT, "tmp", "C13"); shutil.rmtree(tmproot, ignore_errors=True); os.makedirs(tmproot)
    nruns = 18 if tier == "quick" else 150
    cases, meta, bad = [], [], []
    for it in range(nruns):
        cls = ["ehrenfest", "fssh", "md"][it % 3]
        mname, x0, p0, dt = MODELS[(it // 3) % len(MODELS)]
        if tier == "quick" and mname == "shin-metiu" and it > 9: mname, x0, p0, dt = MODELS[1]
        C, model = mk(cls, mname)
        if cls == "md": x0, p0, dt = [0.3, -0.2], [2.0, -1.0], 5.0
        if it % 2 == 1:
            dt = dt * rng.choice([0.7, 1.1, 0.23, 0.3])       # time steps that are not exactly representable
        t0 = rng.choice([0.0, 0.0, 37.5, 1234.1, -12.3])
        n = rng.choice([40, 90, 160]) if mname in ("dual", "super", "models", "simple") else 40 if mname == "shin-metiu-32" else rng.choice([12, 30])
        rule = rng.choice(["max_steps", "max_time", "max_time_nonmultiple"])
        Z = [rng.choice([2.0, 2.0, 2.0, rng.random() * 0.2, rng.random()]) for _ in range(n + 5)]
        if cls == "fssh" and it % 2 == 0:
            Z = [rng.choice([2.0, rng.random() * 0.05, rng.random() * 0.01]) for _ in range(n + 5)]      # hop-rich: restarts right after hops, active state not the most populated one
            for j_ in rng.sample(range(1, max(2, (2 * n) // 3)), min(8, max(1, (2 * n) // 3 - 1))):
                Z[j_] = 0.0                                                                                # threshold zero: an attempt whenever any probability is positive
        lim = dict(max_steps=n) if rule == "max_steps" else dict(max_time=t0 + (dt * n if rule == "max_time" else dt * (n - 0.4)), max_steps=-1)
        zkw = (lambda zz: dict(zeta_list=list(zz))) if cls == "fssh" else (lambda zz: {})
        args = (x0, p0) if cls == "md" else (x0, p0, (1 if (cls == "fssh" and it % 2 == 0) else 0))      # hop-rich runs start on the upper of the two lowest states (downward hops are always accepted)
        full = C(model, *args, dt=dt, t0=t0, **lim, **zkw(Z)).simulate()
        nfull = len(full)
        ks = [1, 2, nfull - 2] + [rng.randint(1, nfull - 2) for _ in range(4 if tier == "quick" else 12)]
        # interruption right after a hop (last logged snapshot is the first one on the new surface), one step earlier and later
        hopk = [j for j in range(1, nfull) if cls == "fssh" and full[j]["active"] != full[j - 1]["active"]]
        for j in hopk[:3]: ks += [j - 1, j, j + 1]
        # ... and where the active state is not the most populated one
        minor = [j for j in range(1, nfull) if cls == "fssh" and int(np.argmax(np.real(np.diag(np.asarray(full[j]["density_matrix"]))))) != int(full[j]["active"])]
        ks += minor[:2]
        # ... and where a freshly computed adiabatic basis differs in sign from the tracked one
        flips = []
        if cls != "md":
            for j in range(1, nfull - 1):
                refj = full[j]["electronics"].get("reference")
                if refj is None: continue
                fresh = mk(cls, mname)[1].update(np.asarray(full[j]["position"]))._reference
                sg = np.einsum("pi,pi->i", np.asarray(refj), np.asarray(fresh))
                if np.any(sg < 0): flips.append(j)
            ks += flips[:: max(1, len(flips) // 3)][:3]
        ks = sorted(set(ks + [nfull - 1])); hopset, flipset, minorset = set(hopk), set(flips), set(minor)      # nfull-1: restart from the complete log (a limit is already met: nothing may be appended)
        for k in ks:
            if k < 1 or k > nfull - 1: continue
            backend = rng.choice(["memory", "yaml", "yaml"]); pitch = rng.randint(1, 9)
            d = os.path.join(tmproot, "r%d_%d" % (it, k)); os.makedirs(d)
            tracer = InMemoryTrace() if backend == "memory" else YAMLTrace(base_name="ta", location=d, log_pitch=pitch)
            C2, model2 = mk(cls, mname)
            part = C2(model2, *args, dt=dt, t0=t0, max_steps=k, tracer=tracer, **zkw(Z)).simulate()
            info = dict(cls=cls, model=mname, dt=dt, t0=t0, interrupted_after=k, total=nfull - 1, rule=rule, backend=backend, pitch=pitch)
            if len(part) != k + 1:
                bad.append(dict(failed="interrupted run logged k+1 snapshots", case=info)); continue
            log = part if backend == "memory" else load_log(os.path.join(d, "ta-0.yaml"))
            explicit_dt = rng.random() < 0.7
            C3, model3 = mk(cls, mname)
            opts = dict(lim); opts.update(zkw(Z[k:]))
            if explicit_dt: opts["dt"] = dt
            try:
                r = C3.restart(model3, log, **opts)
                prev, last = log[-2], log[-1]
                cases.append(tup(fls(model3.mass), tup(fl(prev["time"]), fls(prev["position"]), fls(prev["momentum"])),
                                 tup(fl(last["time"]), fls(last["position"]), fls(last["momentum"])), nat(len(log)),
                                 tup(fls(r.position), fls(r.velocity), fls(r.last_velocity), fl(r.time), nat(r.nsteps), fl(float(last["time"] - prev["time"])))))
                meta.append(info)
                out = r.simulate()
            except Exception as ex:
                bad.append(dict(failed="restart raised %s: %s" % (type(ex).__name__, ex), case=info)); shutil.rmtree(d, ignore_errors=True); continue
            res.count("class/" + cls); res.count("model/" + mname); res.count("rule/" + rule); res.count("backend/" + backend)
            if k in hopset: res.count("interrupted-right-after-hop")
            if k in minorset: res.count("interrupted-with-active-state-not-most-populated")
            if k in flipset: res.count("interrupted-where-fresh-basis-sign-differs")
            res.count("dt/" + ("explicit" if explicit_dt else "inferred")); res.count("t0/" + ("zero" if t0 == 0.0 else "nonzero")); res.count("dt-dyadic" if it % 2 == 0 else "dt-non-dyadic")
            res.case(("restart", cls, mname, k, rule, backend, pitch, explicit_dt), True, info)
            tol = 1e-10 if explicit_dt else 1e-7
            if len(out) != nfull:
                bad.append(dict(failed="the restarted run ends at the same step (log length %d vs %d uninterrupted)" % (len(out), nfull), case=info))
            else:
                worst = 0.0
                for a, b in zip(out, full):
                    fa, fb = fields(a, cls), fields(b, cls)
                    for key in fa:
                        worst = max(worst, float(np.max(np.abs(fa[key] - fb[key])) / (1.0 + float(np.max(np.abs(fb[key]))))))
                if worst > tol:
                    bad.append(dict(failed="snapshots appended after the restart equal those of the uninterrupted run (max relative difference %.3e)" % worst, case=info))
            shutil.rmtree(d, ignore_errors=True)
    # ---- two interrupted runs restarted from their logs on ONE shared model object before either is resumed: each still reproduces its own uninterrupted run
    for it in range(3 if tier == "quick" else 20):
        cls = ["fssh", "ehrenfest"][it % 2]; mname, x0, p0, dt = MODELS[[0, 2, 3][it % 3]]
        C, modelS = mk(cls, mname); n = 60
        Zs = [[2.0] * (n + 5), [2.0] * (n + 5)]; starts = [(x0, p0), ([x0[0] + 1.0], [p0[0] * 1.5])]
        zk = (lambda zz: dict(zeta_list=list(zz))) if cls == "fssh" else (lambda zz: {})
        fulls = [C(mk(cls, mname)[1], xs, ps, 0, dt=dt, max_steps=n, **zk(Z_)).simulate() for (xs, ps), Z_ in zip(starts, Zs)]
        ks2 = [rng.randint(5, 25), rng.randint(26, 50)]
        parts = [C(mk(cls, mname)[1], xs, ps, 0, dt=dt, max_steps=k_, **zk(Z_)).simulate() for (xs, ps), Z_, k_ in zip(starts, Zs, ks2)]
        try:
            rs = [C.restart(modelS, part_, dt=dt, max_steps=n, **zk(Z_[k_:])) for part_, Z_, k_ in zip(parts, Zs, ks2)]      # both restarted first ...
            outs = [r_.simulate() for r_ in rs]                                                                                   # ... then both resumed
        except Exception as ex:
            bad.append(dict(failed="restart raised %s: %s" % (type(ex).__name__, ex), case=dict(cls=cls, model=mname, interleaved=True))); continue
        res.count("two-restarts-on-one-model-object/" + cls); res.case(("restart2", cls, mname, tuple(ks2)), True)
        for j_, (out_, full_) in enumerate(zip(outs, fulls)):
            worst = 1.0 if len(out_) != len(full_) else 0.0
            if len(out_) == len(full_):
                for a, b in zip(out_, full_):
                    fa, fb = fields(a, cls), fields(b, cls)
                    for key in fa:
                        worst = max(worst, float(np.max(np.abs(fa[key] - fb[key])) / (1.0 + float(np.max(np.abs(fb[key]))))))
            if worst > 1e-10:
                bad.append(dict(failed="snapshots appended after the restart equal those of the uninterrupted run (two interrupted runs restarted on one shared model object before either was resumed: run %d deviates by %.3e)" % (j_ + 1, worst),
                                case=dict(cls=cls, model=mname, interrupted_after=ks2))); break
    shutil.rmtree(tmproot, ignore_errors=True)
    failing, errors = run_case_check("C13", PRELUDE, "case13", "chk13", cases, per_file=300)
    for e in errors:
        res.violation("model evaluation failed (coqc)", dict(kind="coqc-error", log=e, no_failing_input_found=True))
    res.traces_validated = len(cases) - len(failing)
    corr = [meta[i] for i in failing[:3]]
    if bad:
        res.violation("implementation violates: " + bad[0]["failed"], dict(kind="oracle", failing_inputs=bad[:4], correspondence_failures=corr))
    elif corr:
        res.violation("implementation differs from Model/Restart.v (theorems no longer cover the code)",
                      dict(kind="correspondence", correspondence="Run/R13.chk13: Restart.restore vs the object built by restart()", failing_inputs=corr, no_failing_input_found=True))
    return finish(res, thm,
                  rule="Ehrenfest / FSSH (thresholds supplied) / AdiabaticMD on simple, dual, extended, super, modelx, models, modelw (8 states), vibronic (5-D), shin-metiu, harmonic; shin-metiu on a coarse grid; interruption at steps 1, 2, N-2, random k, right after hops, where the active state is not the most populated one and where a fresh adiabatic basis differs in sign from the tracked one; "
                       "memory and YAML logs with page sizes 1..9 (reloaded from disk); max_steps, max_time (multiple and non-multiple of dt); dt explicit or inferred; the restarted log is compared with the uninterrupted one; "
                       "non-trivial = distinct (class, model, k, rule, back-end)",
                  assumptions=["tolerance 1e-10 relative (explicit dt), 1e-7 when dt is inferred from two logged times", "YAML text round trip (oracle)"])
