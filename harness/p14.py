"""C14 — trace stores: YAMLTrace vs InMemoryTrace vs Model/TraceStore.v over random op sequences."""
import random, os, shutil, re, math, io
import numpy as np
import yaml
from common import *

PRELUDE = "From MV Require Import TraceStore R14.\n"
BASES = {0: "traj", 1: "ta", 2: "tb"}
ADV = [0.0, -0.0, 5e-324, 2.2250738585072014e-308, 1e300, -1e-300, 0.1, 1 / 3, 123456789.12345678, 1.7976931348623157e308,
       float(np.nextafter(1.0, 2.0)), 6.02214076e23, -2.5e-17]


def snap(k, rng):
    f = [rng.choice(ADV), rng.uniform(-1, 1) * 10 ** rng.uniform(-20, 20)]
    return {"id": k, "time": float(k // 2 if rng.random() < 0.2 else k) * 0.5, "position": [f[0], f[1]], "momentum": [rng.choice(ADV)],
            "potential": f[1], "kinetic": abs(f[0]), "energy": f[1] + abs(f[0]), "active": k % 3,
            "density_matrix": [[1.0, 0.0, f[0], -f[1]], [f[0], f[1], 0.0, 0.0]],
            "electronics": {"hamiltonian": [[f[0], 0.0], [0.0, f[1]]]}, "hopping": f[1], "zeta": rng.random()}


def same_num(a, b):
    """exact equality of numeric content (NaN-free), distinguishing nothing finer than ==, plus sign of zero"""
    if isinstance(a, dict):
        return isinstance(b, dict) and a.keys() == b.keys() and all(same_num(a[k], b[k]) for k in a)
    if isinstance(a, (list, tuple, np.ndarray)):
        a = np.asarray(a); b = np.asarray(b)
        if np.iscomplexobj(a) or np.iscomplexobj(b):
            a = np.asarray(a, dtype=complex).view(float); b = np.asarray(b, dtype=complex).view(float)
        return a.shape == b.shape and bool(np.all(a == b)) and bool(np.all(np.signbit(a) == np.signbit(b)))
    if isinstance(a, float) or isinstance(b, float):
        return float(a) == float(b) and math.copysign(1, float(a)) == math.copysign(1, float(b))
    return a == b


def listing(d):
    out = []
    for fn in sorted(os.listdir(d)):
        m = re.match(r"^(traj|ta|tb)-(\d+)(?:-(log_(\d+)|events))?\.yaml$", fn)
        if not m:
            out.append(("?" + fn, []))
            continue
        b = {v: k for k, v in BASES.items()}[m.group(1)]; u = int(m.group(2))
        with open(os.path.join(d, fn)) as f:
            y = yaml.safe_load(f)
        if m.group(3) is None:
            out.append(("FMain %s %s" % (nat(b), nat(u)), [int(y["nlogs"]), int(y["log_pitch"])] if y else []))
        elif m.group(3) == "events":
            out.append(("FEvents %s %s" % (nat(b), nat(u)), [int(e["id"]) for e in (y or [])]))
        else:
            out.append(("FPage %s %s %s" % (nat(b), nat(u), nat(int(m.group(4)))), [int(s["id"]) for s in (y or [])]))
    return out


def run(tier, seed):
    from mudslide.tracer import YAMLTrace, InMemoryTrace, load_log
    _Y0 = YAMLTrace
    res = Result("C14", tier, seed)
    rng = random.Random(seed)
    thm = check_theorems("C14")
    nseq = 40 if tier == "quick" else 600
    tmproot = os.path.join(OUT, "tmp", "C14"); shutil.rmtree(tmproot, ignore_errors=True); os.makedirs(tmproot)
    cases, meta, bad = [], [], []
    for it in range(nseq):
        d = os.path.join(tmproot, "s%d" % it); os.makedirs(d)
        handles = []      # (yaml trace, twin memory trace, recorded snapshots, recorded events)
        ops, steps = [], []
        nops = rng.randint(4, 60)
        k = 0
        pitch0 = rng.choice([1, 2, 3, 4, 5, 7, 9])
        info = dict(seq=it, pitch=pitch0, ops=ops)
        try:
            for j in range(nops):
                r = rng.random()
                if not handles or r < 0.06:
                    b = rng.choice([1, 1, 2]); p = pitch0 if rng.random() < 0.8 else rng.choice([1, 2, 3, 6])
                    y = YAMLTrace(base_name=BASES[b], location=d, log_pitch=p, weight=rng.choice([1.0, 0.25]))
                    handles.append([y, InMemoryTrace(weight=y.weight), [], []])
                    op = "OInit %s %s" % (nat(b), nat(p)); ops.append(("init", b, p))
                elif r < 0.70:
                    h = rng.randrange(len(handles)); s = snap(k, rng)
                    # exact multiples: sometimes fill up to a page boundary
                    handles[h][0].collect(s); handles[h][1].collect(s); handles[h][2].append(s)
                    op = "OCollect %s %s" % (nat(h), nat(k)); ops.append(("collect", h, k)); k += 1
                elif r < 0.78:
                    h = rng.randrange(len(handles)); e = {"id": k, "event": "hop", "time": 0.5 * k, "from": 0, "to": 1, "zeta": rng.random(), "prob": rng.choice(ADV)}
                    handles[h][0].hop(e["time"], 0, 1, e["zeta"], e["prob"]) if False else handles[h][0].record_event("hop", e)
                    handles[h][1].record_event("hop", e); handles[h][3].append(e)
                    op = "OEvent %s %s" % (nat(h), nat(k)); ops.append(("event", h, k)); k += 1
                elif r < 0.88:
                    h = rng.randrange(len(handles))
                    if len(handles[h][2]) == 0:
                        # load_log of an empty trace: active page is empty -> len(None); outside the property's quantifier (length >= 1)
                        continue
                    y = handles[h][0]
                    handles[h][0] = load_log(os.path.join(d, y.main_log))
                    op = "OReload %s" % nat(h); ops.append(("reload", h))
                else:
                    h = rng.randrange(len(handles))
                    y2 = handles[h][0].clone()
                    m2 = handles[h][1].clone()
                    handles.append([y2, m2, list(handles[h][2]), list(handles[h][3])])
                    op = "OClone %s" % nat(h); ops.append(("clone", h))
                if rng.random() < 0.3:
                    # read-only queries leave the store as it is: file list (relative and absolute), length
                    yq = handles[rng.randrange(len(handles))][0]
                    before_q = (list(yq.logfiles), yq.main_log, yq.event_log, len(yq), listing(d))
                    f1_ = list(yq.files()); f2_ = list(yq.files(absolute_path=True)); f3_ = list(yq.files())
                    after_q = (list(yq.logfiles), yq.main_log, yq.event_log, len(yq), listing(d))
                    res.count("read-only-queries")
                    if before_q != after_q or f1_ != f3_ or len(f2_) != len(f1_) or sorted(set(f1_)) != sorted(f1_):
                        bad.append(dict(failed="asking a trace for its file list changes nothing: two consecutive answers %r and %r, page list before %r and after %r" % (f1_, f3_, before_q[0], after_q[0]), case=dict(info))); raise StopIteration
                steps.append((op, listing(d)))
                # ---- observations: yaml == memory == recorded list
                for (y, m, rec, evs) in handles:
                    mem_ev = [e["id"] for e in m.events.get("hop", [])]
                    if mem_ev != [e["id"] for e in evs]:
                        bad.append(dict(failed="a cloned trace holds the same history but evolves independently of its original: in-memory events %r, recorded on this trace %r" % (mem_ev, [e["id"] for e in evs]), case=dict(info))); raise StopIteration
                    if len(y) != len(m) or len(y) != len(rec):
                        bad.append(dict(failed="length equals the number of recorded snapshots (yaml %d, memory %d, recorded %d)" % (len(y), len(m), len(rec)), case=dict(info))); raise StopIteration
                if rng.random() < 0.5:
                    y, m, rec, evs = handles[rng.randrange(len(handles))]
                    n = len(rec)
                    if n == 0:
                        continue       # reads of a trace without snapshots are outside the quantifier (length >= 1)
                    for i in [0, n - 1, -1, -n, rng.randint(-n - 2, n + 1), n, -n - 1]:
                        def get(t):
                            try: return ("ok", t[i])
                            except IndexError: return ("IndexError", None)
                        gy, gm = get(y), get(m)
                        want = ("ok", rec[i]) if -n <= i < n else ("IndexError", None)
                        if gy[0] != want[0] or gm[0] != want[0]:
                            bad.append(dict(failed="index %d of %d: yaml %s, memory %s, expected %s" % (i, n, gy[0], gm[0], want[0]), case=dict(info))); raise StopIteration
                        if want[0] == "ok":
                            ref = m.form_data(want[1])
                            if not same_num(gy[1], ref) or not same_num(gm[1], ref):
                                bad.append(dict(failed="snapshot %d returned with numeric content preserved exactly" % i, case=dict(info), yaml=repr(gy[1])[:300], recorded=repr(ref)[:300])); raise StopIteration
                    it_y = [s["id"] for s in y]; it_m = [s["id"] for s in m]
                    if it_y != [s["id"] for s in rec] or it_m != it_y:
                        bad.append(dict(failed="iteration returns the recorded snapshots in order", case=dict(info))); raise StopIteration
        except StopIteration:
            pass
        except Exception as ex:
            import traceback
            bad.append(dict(failed="a legal sequence of trace operations raised %s: %s" % (type(ex).__name__, ex), case=dict(info), trace=traceback.format_exc()[-600:]))
        # ---- collect command tabulates the logged values
        if handles and len(handles[0][2]) > 0:
            from mudslide.collect import collect
            if it % 3 == 0:
                # a log of a single-surface run (snapshots without an active state) tabulated first: later tables must not change
                dmd = os.path.join(d, "mdlog"); os.makedirs(dmd, exist_ok=True)
                ymd = YAMLTrace(base_name="md", location=dmd, log_pitch=3)
                for j in range(4):
                    s_md = snap(7000 + j, rng); s_md.pop("active"); ymd.collect(s_md)
                try:
                    collect(os.path.join(dmd, ymd.main_log), "tkpe")
                except Exception:
                    pass
                res.count("collect-cmd/after-a-single-surface-log")
            y, m, rec, evs = handles[0]
            main = os.path.join(d, y.main_log)
            names = dict(t="time", k="kinetic", p="potential", e="energy", a="active")
            # the default key string, then subsets, reordered and repeated keys (every column must sit under its own header)
            keysets = ["tkpea", "".join(rng.sample("tkpea", rng.randint(1, 5))), "".join(rng.choice("tkpea") for _ in range(rng.randint(2, 4)))]
            for keys in keysets:
                collect(main, keys)
                lines = open(main + ".dat").read().splitlines()
                header = [l for l in lines if l.startswith("#")][0].lstrip("#").split()
                rows = [l.split() for l in lines if not l.startswith("#")]
                want = [[(("%12d" % s[names[k_]]) if k_ == "a" else ("%12.8f" % s[names[k_]])).strip() for k_ in keys] for s in rec]
                res.count("collect-cmd"); res.count("collect-cmd/" + ("default-keys" if keys == "tkpea" else "other-keys"))
                if rows != want or header != [names[k_] for k_ in keys]:
                    bad.append(dict(failed="collect command tabulates exactly the logged values (keys %r: header %r)" % (keys, header), case=dict(info), got=rows[:3], want=want[:3])); break
            # the trace grows (new pages) and the command is run again in the same process: the table follows the log
            try:
                for j in range(rng.randint(1, 2 * pitch0 + 1)):
                    s_new = snap(len(rec) + 1000 + j, rng); y.collect(s_new); m.collect(s_new); rec.append(s_new)
                collect(main, "tkpea")
                rows = [l.split() for l in open(main + ".dat").read().splitlines() if not l.startswith("#")]
                want = [[("%12.8f" % s_["time"]).strip(), ("%12.8f" % s_["kinetic"]).strip(), ("%12.8f" % s_["potential"]).strip(), ("%12.8f" % s_["energy"]).strip(), ("%12d" % s_["active"]).strip()] for s_ in rec]
                res.count("collect-cmd/after-growth")
                if rows != want:
                    bad.append(dict(failed="collect command tabulates exactly the logged values (run again in the same process after the trace grew: %d rows for %d snapshots)" % (len(rows), len(rec)), case=dict(info)))
            except Exception as ex:
                bad.append(dict(failed="collect after growth raised %s: %s" % (type(ex).__name__, ex), case=dict(info)))
        if it < (6 if tier == "quick" else 30):
            import mudslide, queue as _qq
            from mudslide.models import scattering_models as _MM, HarmonicModel as _HMd
            from mudslide.even_sampling import EvenSamplingTrajectory as _EST
            cname = ["fssh", "cumulative", "ehrenfest", "afssh", "md", "es"][it % 6]
            def mk_(tracer_):
                if cname == "md":
                    return mudslide.AdiabaticMD(_HMd([0.0], 0.0, [[0.02]], [2000.0]), [0.3], [2.0], dt=5.0, max_steps=9, tracer=tracer_)
                C_ = dict(fssh=mudslide.TrajectorySH, cumulative=mudslide.TrajectoryCum, ehrenfest=mudslide.Ehrenfest, afssh=mudslide.AugmentedFSSH, es=_EST)[cname]
                kw_ = dict(spawn_stack=[2], queue=_qq.Queue()) if cname == "es" else {}
                return C_(_MM["simple"](), [-2.0], [11.0], 0, dt=10.0, max_steps=9, seed_sequence=77, tracer=tracer_, **kw_)
            dreal = os.path.join(d, "real"); os.makedirs(dreal, exist_ok=True)
            res.count("real-trajectory-to-yaml/" + cname)
            try:
                ty_ = _Y0(base_name="rt", location=dreal, log_pitch=4); mk_(ty_).simulate(); tm_ = InMemoryTrace(); mk_(tm_).simulate()
                ly_ = load_log(os.path.join(dreal, ty_.main_log))
                if len(ly_) != len(tm_) or any(not same_num(a_, b_) for a_, b_ in zip(ly_, tm_)):
                    bad.append(dict(failed="both trace stores return the same data: a %s run logged to YAML files and reloaded differs from the same run logged in memory (%d vs %d snapshots)" % (cname, len(ly_), len(tm_)), case=dict(cls=cname)))
            except Exception as ex:
                bad.append(dict(failed="both trace stores return the same data: a %s run cannot be logged to the YAML store (%s: %s)" % (cname, type(ex).__name__, str(ex)[:200]), case=dict(cls=cname)))
        # a log directory copied elsewhere is a log of its own: loading the copy and appending to it leaves the original untouched
        if handles and len(handles[0][2]) > 0 and it % 2 == 0:
            y0_ = handles[0][0]; dcopy = d + "_copy"; shutil.copytree(d, dcopy)
            before_ = listing(d)
            lc_ = load_log(os.path.join(dcopy, y0_.main_log)); n0_ = len(lc_)
            for j in range(pitch0 + 1):
                lc_.collect(snap(5000 + j, rng))
            res.count("directory-copied")
            again_ = load_log(os.path.join(dcopy, y0_.main_log))
            if listing(d) != before_ or len(again_) != n0_ + pitch0 + 1 or n0_ != len(handles[0][2]):
                bad.append(dict(failed="a YAML trace reloaded from disk continues seamlessly when more snapshots are appended, and never overwrites files of other traces (a copied log directory: the copy reloads with %d snapshots after %d + %d were recorded; original directory changed: %r)" % (len(again_), n0_, pitch0 + 1, listing(d) != before_), case=dict(info)))
            shutil.rmtree(dcopy, ignore_errors=True)
        # the weight of a trace survives a reload (zero included)
        from mudslide.tracer import YAMLTrace as _Y, load_log as _ll
        for w_ in (0.0, 0.3125, 1.0):
            yw = _Y(base_name="w", location=d, log_pitch=2, weight=w_); yw.collect(snap(1, rng)); yw.collect(snap(2, rng)); yw.collect(snap(3, rng))
            lw = _ll(os.path.join(d, yw.main_log)); res.count("weight-reload")
            if float(lw.weight) != w_:
                bad.append(dict(failed="a YAML trace reloaded from disk returns what was recorded: weight %r reloads as %r" % (w_, float(lw.weight)), case=dict(info)))
        nsn = sum(len(h[2]) for h in handles)
        res.count("ops", len(ops))
        for o in ops: res.count("op/" + o[0])
        res.count("pitch/%d" % pitch0)
        mult = any(len(h[2]) > 0 and len(h[2]) % h[0].log_pitch == 0 for h in handles)
        res.count("exact-multiple-of-pitch" if mult else "non-multiple")
        res.case(("seq", it, tuple(ops)), True, dict(pitch=pitch0, ops=[list(o) for o in ops[:12]], files=[f for f, _ in (steps[-1][1] if steps else [])][:8]))
        cases.append(lst([tup(o, lst([tup(f, lst([nat(x) for x in c])) for f, c in l])) for o, l in steps]))
        meta.append(dict(pitch=pitch0, ops=[list(o) for o in ops], final_listing=[(f, c) for f, c in (steps[-1][1] if steps else [])]))
        shutil.rmtree(d, ignore_errors=True)
    shutil.rmtree(tmproot, ignore_errors=True)
    failing, errors = run_case_check("C14", PRELUDE, "list (op * listing)", "chk14", cases, per_file=10)
    for e in errors:
        res.violation("model evaluation failed (coqc)", dict(kind="coqc-error", log=e, no_failing_input_found=True))
    res.traces_validated = len(cases) - len(failing)
    corr = [meta[i] for i in failing[:3]]
    if bad:
        res.violation("implementation violates: " + bad[0]["failed"], dict(kind="oracle", failing_inputs=bad[:3], correspondence_failures=corr))
    elif corr:
        res.violation("implementation differs from Model/TraceStore.v (theorems no longer cover the code)",
                      dict(kind="correspondence", correspondence="Run/R14.chk14: directory listing after every operation vs Model/TraceStore (y_init/y_collect/y_event/y_reload/y_clone)",
                           failing_inputs=corr, no_failing_input_found=True))
    return finish(res, thm,
                  rule="random sequences of 4..60 operations (new trace under an already used base name, collect, event, reload from disk, clone) over several live traces in one directory, page sizes 1..9, "
                       "lock-step InMemoryTrace twin; after every operation the parsed directory is compared with the Coq model's file map; reads (len, +/- and out-of-range indices, iteration) compared with the recorded list "
                       "with exact numeric equality incl. signed zero, subnormals, 1e300, 17-digit floats; collect command output for the default, reordered, partial and repeated key strings; non-trivial = distinct op sequence",
                  assumptions=["PyYAML text round trip of floats is an oracle (checked with adversarial values)", "reload of a trace with zero snapshots is outside the quantifier (length >= 1)"])
