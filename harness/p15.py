"""C15 — crash consistency of the YAML log: exhaustive fault injection at file-operation granularity."""
import random, os, shutil, builtins
import numpy as np
from common import *
import p14

PRELUDE = "From MV Require Import TraceStore Crash R15.\n"


class Crash(Exception):
    pass


class Injector:
    """Counts file operations of mudslide.tracer (open for w/a/x, os.replace, shutil.copy).
    crash_at = (k, phase): phase 'pre' raises before operation k happens; 'mid' performs the
    open (creating/truncating the file) and raises before anything is written; 'post' lets
    operation k complete (the with-block closes) and raises at the next operation."""
    def __init__(self, crash_at=None):
        self.n = 0; self.crash_at = crash_at; self.log = []

    def install(self):
        import mudslide.tracer as T
        self.T = T
        inj = self
        real_open = builtins.open
        def wopen(path, mode="r", *a, **k):
            if any(c in mode for c in "wax"):
                idx = inj.n; inj.n += 1; inj.log.append((mode, os.path.basename(path)))
                if inj.crash_at is not None:
                    kk, ph = inj.crash_at
                    if (ph == "pre" and idx == kk) or (ph == "post" and idx == kk + 1):
                        raise Crash()
                    if ph == "mid" and idx == kk:
                        real_open(path, mode, *a, **k).close(); raise Crash()
            return real_open(path, mode, *a, **k)
        T.open = wopen
        class OS:
            def __getattr__(s, name): return getattr(os, name)
            def replace(s, a, b):
                idx = inj.n; inj.n += 1; inj.log.append(("replace", os.path.basename(b)))
                if inj.crash_at is not None:
                    kk, ph = inj.crash_at
                    if (ph in ("pre", "mid") and idx == kk) or (ph == "post" and idx == kk + 1):
                        raise Crash()
                return os.replace(a, b)
        self._os = T.os; T.os = OS()
        class SH:
            def __getattr__(s, name): return getattr(shutil, name)
            def copy(s, a, b):
                idx = inj.n; inj.n += 1; inj.log.append(("copy", os.path.basename(b)))
                if inj.crash_at is not None:
                    kk, ph = inj.crash_at
                    if (ph == "pre" and idx == kk) or (ph == "post" and idx == kk + 1):
                        raise Crash()
                    if ph == "mid" and idx == kk:
                        real_open(b, "w").close(); raise Crash()       # destination created, nothing copied yet
                return shutil.copy(a, b)
        self._sh = getattr(T, "shutil", None); T.shutil = SH()

    def remove(self):
        try: del self.T.open
        except AttributeError: pass
        self.T.os = self._os
        if self._sh is not None: self.T.shutil = self._sh


def record(d, pitch, snaps, events_every, crash_at):
    """returns (#snapshots whose collect completed, #started, injector)"""
    from mudslide.tracer import YAMLTrace
    inj = Injector(crash_at); inj.install()
    done = started = 0
    try:
        y = YAMLTrace(base_name="ta", location=d, log_pitch=pitch)
        inj.init_ops = inj.n
        for i, s in enumerate(snaps):
            started = i + 1
            y.collect(s)
            done = i + 1
            if events_every and i % events_every == 0:
                y.record_event("hop", {"id": i, "event": "hop", "time": 0.0, "from": 0, "to": 1, "zeta": 0.5, "prob": 0.1})
        if crash_at is not None and crash_at[1] == "post":
            pass
    except Crash:
        pass
    finally:
        inj.remove()
    return done, started, inj


def load_ids(d):
    from mudslide.tracer import load_log
    log = load_log(os.path.join(d, "ta-0.yaml"))
    ids = [int(s["id"]) for s in log]
    if len(log) != len(ids):
        raise RuntimeError("len(log)=%d but iteration yields %d snapshots" % (len(log), len(ids)))
    # indexing must agree as well
    for i in range(len(ids)):
        if int(log[i]["id"]) != ids[i]:
            raise RuntimeError("log[%d] differs from iteration" % i)
    return ids, log


def run(tier, seed):
    res = Result("C15", tier, seed)
    rng = random.Random(seed)
    thm = check_theorems("C15")
    pitches = [1, 2, 3] if tier == "quick" else [1, 2, 3, 4, 5]
    counts = [1, 2, 3, 4, 5, 7] if tier == "quick" else list(range(1, 13))
    tmproot = os.path.join(OUT, "tmp", "C15"); shutil.rmtree(tmproot, ignore_errors=True); os.makedirs(tmproot)
    cases, meta, bad = [], [], []
    run_id = 0
    for pitch in pitches:
        for n in counts:
            for ev in ([0, 2] if tier == "thorough" or n in (3, 5) else [0]):
                snaps = [p14.snap(i, rng) for i in range(n)]
                d0 = os.path.join(tmproot, "dry"); shutil.rmtree(d0, ignore_errors=True); os.makedirs(d0)
                _, _, inj0 = record(d0, pitch, snaps, ev, None)
                nops, init_ops = inj0.n, inj0.init_ops
                oplog = list(inj0.log)
                post_loads = []
                for k in range(init_ops, nops):
                    for ph in ("pre", "mid", "post"):
                        d = os.path.join(tmproot, "r%d" % run_id); run_id += 1; os.makedirs(d)
                        done, started, inj = record(d, pitch, snaps, ev, (k, ph))
                        info = dict(pitch=pitch, nsnap=n, events_every=ev, crash_op=k, phase=ph, op=list(oplog[k]), completed=done, started=started,
                                    files=sorted(os.listdir(d)))
                        res.count("phase/" + ph); res.count("op/" + oplog[k][0])
                        nontriv = done >= 1
                        res.case(("crash", pitch, n, ev, k, ph), nontriv, dict(info) if oplog[k][0] in ("w", "replace") else None)
                        if done >= 1:       # the property speaks about crashes after the first snapshot has been recorded
                            try:
                                ids, log = load_ids(d)
                            except Exception as ex:
                                bad.append(dict(failed="log not loadable after crash (%s: %s)" % (type(ex).__name__, ex), case=info))
                                shutil.rmtree(d, ignore_errors=True); continue
                            want_a, want_b = list(range(done)), list(range(started))
                            if ids != want_a and ids != want_b:
                                bad.append(dict(failed="loaded log is a prefix of the recorded snapshots missing at most the one being written (loaded %r, completed %d, started %d)" % (ids, done, started), case=info))
                            if ph == "post":
                                post_loads.append(ids)
                        elif ph == "post":
                            post_loads.append(None)
                        shutil.rmtree(d, ignore_errors=True)
                # model correspondence: loads after each completed operation (events operations are not in the model)
                obs = [l for (l, op) in zip(post_loads, oplog[init_ops:]) if "events" not in op[1]]
                if all(o is not None for o in obs) or True:
                    obs2 = [o for o in obs]
                    # operations before the first completed snapshot load [] in the model; the real load is not attempted there
                    if all(o is not None for o in obs2):
                        cases.append(tup(nat(pitch), lst([nat(i) for i in range(n)]), lst([lst([nat(i) for i in o]) for o in obs2])))
                        meta.append(dict(pitch=pitch, nsnap=n, events_every=ev, loads_after_each_op=obs2))
    bad += clone_crash_probe(rng, tmproot, res, tier)
    bad += restart_probe_real(rng, tmproot, res)
    shutil.rmtree(tmproot, ignore_errors=True)
    failing, errors = run_case_check("C15", PRELUDE, "nat * list nat * list (list nat)", "chk15", cases, per_file=50)
    for e in errors:
        res.violation("model evaluation failed (coqc)", dict(kind="coqc-error", log=e, no_failing_input_found=True))
    res.traces_validated = len(cases) - len(failing)
    res.extra["exhaustive"] = True
    res.extra["exhaustive_over"] = "pitches %r x snapshot counts %r x every file operation after initialisation x {before, opened-but-unwritten, after}" % (pitches, counts)
    corr = [meta[i] for i in failing[:3]]
    if bad:
        res.violation("implementation violates: " + bad[0]["failed"], dict(kind="oracle", failing_inputs=bad[:4], correspondence_failures=corr))
    elif corr:
        res.violation("implementation differs from Model/Crash.v (theorems no longer cover the code)",
                      dict(kind="correspondence", correspondence="Run/R15.chk15: load_log after each completed file operation vs Crash.visited/load", failing_inputs=corr, no_failing_input_found=True))
    return finish(res, thm,
                  rule="for each page size and snapshot count: every file operation of the trace (open w/a/x, os.replace, shutil.copy) after initialisation is crashed before it, after the open but before any write, and after it completes; "
                       "the directory is then loaded with load_log and read back; YAMLTrace.clone() of multi-page traces crashed at each of its file operations (original complete, clone loadable as a prefix); non-trivial = crash after at least one completed snapshot",
                  assumptions=["a crash is modelled as an exception raised at the file operation (no torn writes inside one write call)", "os.replace is atomic"])


def clone_crash_probe(rng, tmproot, res, tier):
    """the even-sampling spawn path: YAMLTrace.clone() crashed at every one of its file operations.  The original must stay complete;
    the clone, once its main log names any page, must load and hold a prefix of the original's snapshots."""
    from mudslide.tracer import YAMLTrace, load_log
    bad = []
    for pitch, n in ([(1, 3), (2, 5), (3, 7)] if tier == "quick" else [(1, 3), (2, 5), (3, 7), (4, 4), (2, 8), (8, 3), (3, 9)]):
        snaps = [p14.snap(i, rng) for i in range(n)]
        def build(d):
            y = YAMLTrace(base_name="ta", location=d, log_pitch=pitch)
            for i, s_ in enumerate(snaps):
                y.collect(s_)
                if i % 2 == 0: y.record_event("hop", {"id": i, "event": "hop", "time": 0.0, "from": 0, "to": 1, "zeta": 0.5, "prob": 0.1})
            return y
        d0 = os.path.join(tmproot, "cl_dry"); shutil.rmtree(d0, ignore_errors=True); os.makedirs(d0)
        y0 = build(d0); inj0 = Injector(None); inj0.install()
        try: y0.clone()
        finally: inj0.remove()
        nops = inj0.n; oplog = list(inj0.log)
        for k in range(nops + 1):
            for ph in ("pre", "mid", "post"):
                if k == nops and ph != "pre": continue
                d = os.path.join(tmproot, "cl_%d_%d_%d_%s" % (pitch, n, k, ph)); os.makedirs(d)
                y = build(d); inj = Injector((k, ph)); inj.install()
                try:
                    y.clone()
                except Crash:
                    pass
                finally:
                    inj.remove()
                info = dict(operation="clone", pitch=pitch, nsnap=n, crash_op=k, phase=ph, op=list(oplog[k]) if k < nops else None, files=sorted(os.listdir(d)))
                res.count("clone-crash/" + ph); res.case(("clonecrash", pitch, n, k, ph), True)
                try:
                    ids, _ = load_ids(d)
                    if ids != list(range(n)):
                        bad.append(dict(failed="a crash while cloning leaves the original trace complete (loaded %r of %d)" % (ids, n), case=info))
                except Exception as ex:
                    bad.append(dict(failed="original trace not loadable after a crash while cloning (%s: %s)" % (type(ex).__name__, ex), case=info))
                cm = os.path.join(d, "ta-1.yaml")
                if os.path.exists(cm) and os.path.getsize(cm) > 0:
                    try:
                        cl = load_log(cm)
                        # a clone whose pages have not been copied yet is an empty trace (reading an empty trace is outside the property, as for C14)
                        cids = [int(cl[i]["id"]) for i in range(len(cl))]
                        if len(cl) > 0 and [int(s_["id"]) for s_ in cl] != cids:
                            cids = None
                        if cids is None or cids != list(range(len(cids))) or len(cids) > n:
                            bad.append(dict(failed="a clone interrupted by a crash holds a prefix of the original's snapshots (loaded %r, len() says %d)" % (cids, len(cl)), case=info))
                        res.count("clone-crash/clone-loadable")
                    except Exception as ex:
                        bad.append(dict(failed="the files of a clone interrupted by a crash can still be loaded (%s: %s)" % (type(ex).__name__, ex), case=info))
                shutil.rmtree(d, ignore_errors=True)
    return bad


def restart_probe_real(rng, tmproot, res):
    """crash a real FSSH trajectory writing a YAML log at a random file operation, load, restart, continue"""
    import mudslide
    from mudslide.models import scattering_models as M
    from mudslide.tracer import YAMLTrace, load_log
    bad = []
    for trial in range(12):
        d = os.path.join(tmproot, "rp%d" % trial); os.makedirs(d)
        pitch = rng.choice([1, 2, 3]); k = rng.randint(6, 40); ph = rng.choice(["pre", "mid", "post"])
        model = M["simple"]()
        inj = Injector((k, ph)); inj.install()
        try:
            y = YAMLTrace(base_name="ta", location=d, log_pitch=pitch)
            tr = mudslide.TrajectorySH(model, [-3.0], [12.0], 0, dt=10.0, max_steps=30, tracer=y, zeta_list=[2.0] * 40)
            tr.simulate()
        except Crash:
            pass
        finally:
            inj.remove()
        info = dict(pitch=pitch, crash_op=k, phase=ph)
        try:
            log = load_log(os.path.join(d, "ta-0.yaml"))
            n = len(log)
            before = [s["time"] for s in log]
            if n >= 2:
                tr2 = mudslide.TrajectorySH.restart(M["simple"](), log, dt=10.0, max_steps=n + 3, zeta_list=[2.0] * 40)
                tr2.simulate()
                after = [s["time"] for s in load_log(os.path.join(d, "ta-0.yaml"))]
                if after[:n] != before or len(after) <= n or any(abs((b - a) - 10.0) > 1e-9 for a, b in zip(after[n - 1:], after[n:])):
                    bad.append(dict(failed="a trajectory restarted from the crashed log continues from the loaded prefix (times before %r, after %r)" % (before[-3:], after[-5:]), case=info))
                res.count("restart-after-crash")
        except Exception as ex:
            bad.append(dict(failed="restart after crash raised %s: %s" % (type(ex).__name__, ex), case=info))
        shutil.rmtree(d, ignore_errors=True)
    return bad
