"""C16 — stopping rule and timeline."""
import random, math, queue
import numpy as np
from common import *
from stubs import *

PRELUDE = "From MV Require Import Vec Stopping R16.\n"
CLASSES = ["fssh", "cumulative", "ehrenfest", "afssh", "md", "even-sampling"]


class FreeModel:
    """constant-force model with a real ElectronicModel_-like interface (2 states, any ndim)"""
    def __init__(self, mass, force, nst=2):
        self.mass = np.array(mass, dtype=float); self._f = np.array(force, dtype=float); self._nst = nst
    def ndim(self): return len(self.mass)
    def nstates(self): return self._nst
    def update(self, x, electronics=None):
        n, d = self._nst, len(self.mass)
        H = np.diag([0.01 * i - float(np.dot(self._f, x)) for i in range(n)])
        dc = np.zeros((n, n, d))
        e = StubElec(H, dc, np.tile(self._f, (n, 1)))
        e._position = np.array(x)
        return e


def make(cls, model, x0, p0, opts, rng):
    import mudslide
    from mudslide.even_sampling import EvenSamplingTrajectory
    o = dict(opts); o["seed_sequence"] = rng.randrange(2 ** 31)
    if cls == "md":
        return mudslide.AdiabaticMD(model, x0, p0, **o)
    if cls == "even-sampling":
        return EvenSamplingTrajectory(model, x0, p0, 0, queue=queue.Queue(), spawn_stack=[2], quadrature="midpoint", **o)
    C = dict(fssh=mudslide.TrajectorySH, cumulative=mudslide.TrajectoryCum, ehrenfest=mudslide.Ehrenfest, afssh=mudslide.AugmentedFSSH)[cls]
    return C(model, x0, p0, 0, **o)


def gen_cfg(rng):
    ndim = rng.choice([1, 1, 2, 3])
    dt = rng.choice([0.5, 1.0, 0.25, 0.1, 0.3, 20.0, 7.0])
    t0 = rng.choice([0.0, 0.0, 3.5, -2.0, 100.0, 2.0e5, 1.0e7, -3.0e6])
    every = rng.choice([1, 1, 2, 3, 5, 7])
    max_steps = rng.choice([-1, 0, 1, 2, 5, 17, 40, 60])
    kt = rng.random()
    if kt < 0.35:
        max_time = None
    elif kt < 0.6:
        max_time = t0 + dt * rng.randint(0, 45)            # multiple of dt (rounding of repeated addition!)
    elif kt < 0.85:
        max_time = t0 + dt * (rng.randint(0, 45) + rng.uniform(0.05, 0.95))
    elif kt < 0.92:
        max_time = t0 - rng.uniform(0, 5)                  # already met
    else:
        k = rng.randint(1, 30); max_time = t0 + dt * k + rng.choice([-1, 1]) * rng.choice([0.5e-8, 0.99e-8, 1.01e-8, 2e-8])
    x0 = [rng.choice([-4.0, -2.5, 0.0, 1.0, -0.5]) for _ in range(ndim)]
    v = [rng.choice([0.25, 0.5, 1.0, -0.5, 0.125, 0.0]) for _ in range(ndim)]
    if all(vi == 0 for vi in v): v[0] = 0.5
    mass = [rng.choice([1.0, 2.0, 4.0]) for _ in range(ndim)]
    kb = rng.random()
    if kb < 0.3:
        bounds = None
    elif kb < 0.65:
        lo, hi = rng.choice([(-1.0, 1.0), (-3.0, 2.0), (-0.5, 0.5), (0.0, 4.0), (-8.0, -3.0)])
        bounds = [lo, hi]                                   # scalar bounds
    else:
        bounds = [[rng.choice([-3.0, -1.0, -0.5, 0.0]) for _ in range(ndim)], [rng.choice([0.5, 1.0, 2.0, 4.0]) for _ in range(ndim)]]
    force = [rng.choice([0.0, 0.0, 0.01, -0.02]) for _ in range(ndim)]
    if max_steps < 0 and max_time is None:
        max_steps = 50
    return dict(ndim=ndim, dt=dt, t0=t0, every=every, max_steps=max_steps, max_time=max_time, x0=x0, v=v, mass=mass, bounds=bounds, force=force)


def drive(cls, cfg, rng):
    model = FreeModel(cfg["mass"], cfg["force"])
    opts = dict(dt=cfg["dt"], t0=cfg["t0"], trace_every=cfg["every"], max_steps=cfg["max_steps"])
    if cfg["max_time"] is not None: opts["max_time"] = cfg["max_time"]
    if cfg["bounds"] is not None: opts["bounds"] = cfg["bounds"]
    p0 = (np.array(cfg["mass"]) * np.array(cfg["v"])).tolist()
    tr = make(cls, model, cfg["x0"], p0, opts, rng)
    poss = [tr.position.tolist()]
    ap = tr.advance_position
    def advance_position(le, te):
        ap(le, te); poss.append(tr.position.tolist())
    tr.advance_position = advance_position
    logged = []
    coll = tr.tracer.collect
    def collect(snap):
        logged.append((int(tr.nsteps), float(snap["time"]))); coll(snap)
    tr.tracer.collect = collect
    if cls == "even-sampling":
        # children are examined by C10; silence the queue here
        pass
    # watchdog: every configuration here stops within 60 steps; a run that is still going after 4000 has lost its limits
    cs = tr.continue_simulating
    def continue_simulating():
        if tr.nsteps > 4000:
            raise Runaway("still running after %d steps at time %r" % (tr.nsteps, float(tr.time)))
        return cs()
    tr.continue_simulating = continue_simulating
    log = tr.simulate()
    return tr, poss, logged, log


class Runaway(Exception):
    pass


def snapshot_oracle(cls, tr, log, mass):
    for s in log:
        ke = 0.5 * float(np.sum(np.array(s["momentum"]) ** 2 / mass))
        if abs(s["kinetic"] - ke) > 1e-12 * max(1.0, abs(ke)):
            return "kinetic energy equals p^2/2m of the logged momentum"
        if abs(s["energy"] - (s["kinetic"] + s["potential"])) > 1e-14 * max(1.0, abs(s["energy"])):
            return "energy = kinetic + potential"
        if cls == "md":
            pot = float(np.ravel(s["electronics"]["hamiltonian"])[0])
        elif cls == "ehrenfest":
            pot = float(np.real(np.trace(np.dot(s["density_matrix"], s["electronics"]["hamiltonian"]))))
        else:
            pot = float(s["electronics"]["hamiltonian"][s["active"], s["active"]])
        if abs(s["potential"] - pot) > 1e-13 * max(1.0, abs(pot)):
            return "potential = active-state energy (mean-field energy for Ehrenfest)"
    return None


def timeline_oracle(cfg, poss, logged):
    """the statement, evaluated directly with Python floats on the recorded positions"""
    dt, t0 = cfg["dt"], cfg["t0"]
    def inside(x):
        if cfg["bounds"] is None: return False
        lo, hi = np.array(cfg["bounds"][0], dtype=float), np.array(cfg["bounds"][1], dtype=float)
        return bool(np.all(lo < np.array(x)) and np.all(np.array(x) < hi))
    mt = cfg["max_time"] if cfg["max_time"] is not None else 1e25
    t = t0; found = False; N = None; times = [t0]
    for k in range(0, len(poss) + 2):
        if k > 0:
            t = t + dt; times.append(t)
        stop = (cfg["max_steps"] >= 0 and k >= cfg["max_steps"]) or (t >= mt or abs(t - mt) <= 1e-8)
        if not stop and k < len(poss):
            ins = inside(poss[k])
            if found and not ins: stop = True
            if ins: found = True
        if stop:
            N = k; break
    if N is None:
        return None, "no stopping step found"
    want = [] if N == 0 else [(k, times[k]) for k in range(N) if k % cfg["every"] == 0] + [(N, times[N])]
    return want, None


def run(tier, seed):
    res = Result("C16", tier, seed)
    rng = random.Random(seed)
    thm = check_theorems("C16")
    ncase = 240 if tier == "quick" else 4000
    cases, meta, bad = [], [], []
    # hand-made configurations run for every class first: start inside the box and leave in the very first step; start on the edge;
    # start outside, enter and leave; start inside with a limit already met; trace stride with the last step on / off the grid
    def fx(x0, v, dt, bounds, max_steps=40, max_time=None, every=1, t0=0.0):
        return dict(ndim=1, dt=dt, t0=t0, every=every, max_steps=max_steps, max_time=max_time, x0=[x0], v=[v], mass=[2.0], bounds=bounds, force=[0.0])
    FIXED = [fx(0.0, 1.0, 20.0, [-1.0, 1.0]), fx(0.5, 0.5, 1.0, [-1.0, 1.0]), fx(0.75, 0.5, 0.5, [-1.0, 1.0], every=2), fx(-4.0, 1.0, 1.0, [-1.0, 1.0]),
             fx(0.0, 0.25, 1.0, [-1.0, 1.0], max_steps=0), fx(0.0, 0.25, 1.0, None, max_steps=4, every=2), fx(0.0, 0.25, 1.0, None, max_steps=5, every=2),
             fx(0.0, 0.5, 1.0, [-8.0, 8.0], max_steps=-1, max_time=37.5 + 6.0, t0=37.5, every=3), fx(1.0, -0.5, 1.0, [[-3.0], [1.0]]),
             # a box open in one dimension (infinite bounds) and a half-open one: only the finite sides can end the run
             dict(ndim=2, dt=1.0, t0=0.0, every=1, max_steps=40, max_time=None, x0=[0.0, 0.0], v=[0.3, 0.5], mass=[2.0, 3.0], bounds=[[-float("inf"), -1.0], [float("inf"), 1.0]], force=[0.0, 0.0]),
             dict(ndim=2, dt=1.0, t0=0.0, every=1, max_steps=40, max_time=None, x0=[0.0, 3.0], v=[0.25, 0.0], mass=[2.0, 3.0], bounds=[[-1.0, -5.0], [1.0, 5.0]], force=[0.0, 0.0]),
             dict(ndim=2, dt=1.0, t0=0.0, every=1, max_steps=40, max_time=None, x0=[0.0, -3.0], v=[0.0, 0.5], mass=[2.0, 3.0], bounds=[[-1.0, -5.0], [1.0, 5.0]], force=[0.0, 0.0]),
             fx(0.0, 0.5, 1.0, [[-float("inf")], [2.0]]), fx(0.0, -0.5, 1.0, [[-float("inf")], [2.0]], max_steps=9)]
    for it in range(ncase):
        cls = CLASSES[it % len(CLASSES)]
        cfg = dict(FIXED[it // len(CLASSES)]) if it < len(FIXED) * len(CLASSES) else gen_cfg(rng)
        if it < len(FIXED) * len(CLASSES): res.count("hand-made-configurations")
        try:
            tr, poss, logged, log = drive(cls, cfg, rng)
        except Runaway as ex:
            bad.append(dict(failed="a trajectory ends at the first step at which a limit is reached (%s under max_steps=%r, max_time=%r, t0=%r, dt=%r)" % (ex, cfg["max_steps"], cfg["max_time"], cfg["t0"], cfg["dt"]), case=dict(cls=cls, cfg=cfg)))
            continue
        info = dict(cls=cls, cfg=cfg, impl_log=logged)
        want, err = timeline_oracle(cfg, poss, logged)
        if err:
            bad.append(dict(failed=err, case=info))
        elif want != logged:
            bad.append(dict(failed="log = initial condition, every trace_every-th step, final state exactly once, stopping at the first step that meets a limit (want %r got %r)" % (want[-3:], logged[-3:]), case=info))
        if logged:
            ts = [t for _, t in logged]
            if any(b <= a for a, b in zip(ts, ts[1:])):
                bad.append(dict(failed="strictly increasing times", case=info))
            f = snapshot_oracle(cls, tr, log, np.array(cfg["mass"]))
            if f: bad.append(dict(failed=f, case=info))
            if len(log) < len(logged):
                bad.append(dict(failed="every collected snapshot is in the trace", case=info))
        N = logged[-1][0] if logged else 0
        reason = "immediate" if not logged else ("steps" if cfg["max_steps"] >= 0 and N >= cfg["max_steps"] else "time" if cfg["max_time"] is not None and logged[-1][1] >= cfg["max_time"] - 1e-8 else "box")
        res.count("stop/" + reason); res.count("class/" + cls); res.count("every/%d" % cfg["every"])
        res.count("bounds/" + ("none" if cfg["bounds"] is None else "scalar" if np.isscalar(cfg["bounds"][0]) else "per-dim"))
        res.case(("c16", cls, repr(cfg)), True, dict(cls=cls, cfg=cfg, logged_steps=[k for k, _ in logged]))
        bx = "None" if cfg["bounds"] is None else "(Some (%s, %s))" % (
            fls(np.broadcast_to(np.array(cfg["bounds"][0], dtype=float), (cfg["ndim"],))), fls(np.broadcast_to(np.array(cfg["bounds"][1], dtype=float), (cfg["ndim"],))))
        mt = cfg["max_time"] if cfg["max_time"] is not None else 1e25
        if len(poss) > 3000:
            # a run that went on for thousands of steps under limits of at most 60 steps has already failed the oracle above; keep the model input small
            bad.append(dict(failed="a trajectory ends at the first step at which a limit is reached (ran %d steps under max_steps=%r, max_time=%r)" % (len(poss), cfg["max_steps"], cfg["max_time"]), case=info)); continue
        cases.append(tup(zlit(cfg["max_steps"]), fl(mt), nat(cfg["every"]), fl(cfg["dt"]), bx, fl(cfg["t0"]),
                         "[" + "; ".join(fls(p) for p in poss + [poss[-1]]) + "]", lst([tup(nat(k), fl(t)) for k, t in logged])))
        meta.append(info)
    # ---- every member of an even-sampling tree obeys the box rule on its own history (children are spawned before anyone entered the box)
    import p10, mudslide
    from mudslide.models import scattering_models as MM
    from mudslide.batch import BatchedTraj, TrajGenConst
    from mudslide.even_sampling import EvenSamplingTrajectory
    for it in range(6 if tier == "quick" else 40):
        mname, x0, k, lo, hi = [("simple", -1.5, rng.uniform(9.0, 14.0), 2.0, 6.0), ("extended", -10.0, rng.uniform(8.0, 14.0), -1.0, 1.0), ("dual", -2.0, rng.uniform(15.0, 30.0), 3.0, 7.0)][it % 3]
        with p10.Instr() as inst:
            dt_ = rng.choice([5.0, 10.0]); every_ = 1 if it % 2 == 0 else rng.choice([3, 4]); maxs_ = 600 if it % 2 == 0 else rng.choice([600, rng.randint(40, 120)])
            t0_ = [0.0, 250.0, -37.5][(it // 2) % 3]
            BatchedTraj(MM[mname](), TrajGenConst([x0], [k], 0, seed=rng.randrange(2 ** 31)), EvenSamplingTrajectory, samples=1, dt=dt_, t0=t0_, bounds=[lo, hi], max_steps=maxs_, trace_every=every_,
                        spawn_stack=rng.choice([[2], [3], [2, 2]]), quadrature="gl").compute()
            info = dict(cls="even-sampling tree", model=mname, x0=x0, k=k, bounds=[lo, hi], trajectories=len(inst.trajs), dt=dt_, trace_every=every_, max_steps=maxs_, t0=t0_)
            res.count("es-tree/t0=%g" % t0_)
            res.count("es-tree/trace_every=%d" % every_)
            # the step counter of every member counts the steps since the root started: time = nsteps*dt, never beyond max_steps, snapshots on the trace_every grid (the last one excepted)
            for t in inst.trajs:
                steps_logged = [int(round((float(sn["time"]) - t0_) / dt_)) for sn in t.tracer]
                offgrid = [q for q in steps_logged[:-1] if q % every_ != 0]
                if abs(float(t.time) - (t0_ + t.nsteps * dt_)) > 1e-9 * max(1.0, abs(float(t.time))) or t.nsteps > maxs_ or offgrid:
                    bad.append(dict(failed="a trajectory ends at the first step at which the step limit is reached and logs every trace_every-th step (even-sampling tree member %d: step counter %d, (time-t0)/dt %g, max_steps %d, trace_every %d, logged steps off the grid %r)"
                                           % (t._v["id"], t.nsteps, (float(t.time) - t0_) / dt_, maxs_, every_, offgrid[:4]), case=info)); break
            if every_ == 1:
                # every step logged: consecutive snapshots of every member (inherited history included) are exactly one time step apart
                gap = None
                for t in inst.trajs:
                    tm = [float(sn["time"]) for sn in t.tracer]
                    for a_, b_ in zip(tm, tm[1:]):
                        if abs((b_ - a_) - dt_) > 1e-9 * max(1.0, abs(b_)): gap = (t._v["id"], a_, b_); break
                    if gap: break
                if gap:
                    bad.append(dict(failed="the log holds the initial condition and then every step, with times spaced by whole time steps (even-sampling tree member %d: consecutive snapshots at t=%r and t=%r with dt=%r)" % (gap + (dt_,)), case=info))
            if every_ != 1 or maxs_ != 600:
                continue          # the box-rule reading below needs every step in the log
            res.count("es-tree-box-rule", len(inst.trajs)); res.case(("estree-box", mname, k, lo, hi), len(inst.trajs) > 1, info)
            for t in inst.trajs:
                if t.weight == 0.0: continue
                xs = [float(sn["position"][0]) for sn in t.tracer]
                inside = [lo < x_ < hi for x_ in xs]
                first_in = inside.index(True) if any(inside) else None
                left_at = next((j for j in range(first_in + 1, len(xs)) if not inside[j]), None) if first_in is not None else None
                ended_by_steps = t.nsteps >= maxs_
                if (left_at is None and not ended_by_steps) or (left_at is not None and left_at != len(xs) - 1):
                    bad.append(dict(failed="a trajectory ends at the first step at which it has left the bounding box after having been inside it - never earlier and never later (even-sampling tree member %d: %d snapshots, first inside at %r, first outside afterwards at %r, last x=%r)"
                                           % (t._v["id"], len(xs), first_in, left_at, xs[-1]), case=info)); break
    # ---- an even-sampling tree grown from a root that was stopped, restarted from its log and only then spawns: every member logs every step once
    import queue as _qe
    for it in range(2 if tier == "quick" else 10):
        dtr = 20.0; qe = _qe.Queue(); common_ = dict(spawn_stack=[3, 2] if it % 2 == 0 else [4], seed_sequence=rng.randrange(2 ** 31), bounds=[[-6.0], [6.0]])
        mdl = MM["simple"](); k0 = rng.uniform(10.0, 14.0)
        first = EvenSamplingTrajectory(mdl, [-3.0], [k0], 0, queue=qe, dt=dtr, max_steps=10, **common_)
        lg0 = first.simulate()
        if not qe.empty() or len(lg0) != 11:
            continue          # spawned before the interruption: not the situation probed here
        rst = EvenSamplingTrajectory.restart(mdl, lg0, queue=qe, max_steps=2000, **common_)
        done_ = [(rst, rst.simulate())]
        while not qe.empty():
            t_ = qe.get(); done_.append((t_, t_.simulate()))
        res.count("es-tree-from-restarted-root"); res.count("es-tree-from-restarted-root/trajectories", len(done_)); res.case(("estree-restart", it, k0), len(done_) > 1)
        for j_, (t_, lg_) in enumerate(done_):
            if float(t_.weight) == 0.0 and len(lg_) < 2: continue
            tms_ = [float(sn["time"]) for sn in lg_]
            gaps_ = [b_ - a_ for a_, b_ in zip(tms_, tms_[1:])]
            if any(abs(g_ - dtr) > 1e-9 for g_ in gaps_):
                bad.append(dict(failed="the log holds the initial condition and then every step, with times spaced by whole time steps (even-sampling tree grown from a restarted root, member %d: consecutive snapshots %r apart, dt=%r)" % (j_, [g_ for g_ in gaps_ if abs(g_ - dtr) > 1e-9][:3], dtr),
                                case=dict(k=k0, stack=common_["spawn_stack"]))); break
    # ---- options handed through BatchedTraj reach the trajectories: initial time, limits, stride
    from mudslide.tracer import TraceManager
    for it in range(4 if tier == "quick" else 30):
        t0_ = rng.choice([37.5, -12.0, 1234.5]); dt_ = rng.choice([5.0, 10.0]); nst_ = rng.randint(3, 12); every_ = rng.choice([1, 2])
        C_ = [mudslide.TrajectorySH, mudslide.Ehrenfest, mudslide.TrajectoryCum][it % 3]
        r_ = BatchedTraj(MM["simple"](), TrajGenConst([-3.0], [10.0], 0, seed=rng.randrange(2 ** 31)), C_, samples=2, dt=dt_, t0=t0_, max_time=t0_ + dt_ * nst_, trace_every=every_, tracemanager=TraceManager()).compute()
        res.count("batch-option-plumbing"); res.case(("batchopts", t0_, dt_, nst_, every_, it), True)
        for t in r_.traces:
            tm = [float(sn["time"]) for sn in t]
            if not tm or abs(tm[0] - t0_) > 1e-9 or abs(tm[-1] - (t0_ + dt_ * nst_)) > 1e-6:
                bad.append(dict(failed="a trajectory started through BatchedTraj with t0=%r, dt=%r, max_time=%r logs its initial condition at t0 and ends when the time limit is reached (logged times %r ... %r, %d snapshots)" % (t0_, dt_, t0_ + dt_ * nst_, tm[:1], tm[-1:], len(tm)),
                                case=dict(cls=C_.__name__, t0=t0_, dt=dt_, steps=nst_))); break
    # ---- the same through the command line: time step (with and without -y: dt/k for each momentum), stride, step limit
    import io as _io, pickle as _pk, tempfile as _tf, mudslide.__main__ as _mm
    for y_ in (False, True):
        ks_ = [8.0, 20.0, 32.0] if y_ else [10.0, 20.0]; dtc_ = 40.0 if y_ else 5.0; ev_ = 2; nt_ = 12
        with _tf.TemporaryDirectory() as td_:
            pf_ = os.path.join(td_, "o.pickle")
            _mm.main(["-m", "simple", "-n", str(len(ks_)), "-k", str(ks_[0]), str(ks_[-1]), "-l", "linear", "-s", "1", "-z", "3", "-x", "-3", "-b", "50", "-t", str(dtc_), "-T", str(nt_), "-e", str(ev_), "-o", "pickle", "-O", pf_]
                     + (["-y"] if y_ else []), file=_io.StringIO())
            with open(pf_, "rb") as fh_:
                rs_ = _pk.load(fh_)
        res.count("cli-option-plumbing"); res.case(("cliopts", y_), True)
        for kk_, tm_ in rs_:
            want_dt = dtc_ / kk_ if y_ else dtc_
            for t in tm_.traces:
                tms = [float(sn["time"]) for sn in t]
                want_t = [want_dt * j for j in range(0, nt_ + 1, ev_)]
                if len(tms) != len(want_t) or max(abs(a_ - b_) for a_, b_ in zip(tms, want_t)) > 1e-9 * want_t[-1]:
                    bad.append(dict(failed="a run started from the command line with -t %g%s -e %d -T %d at momentum %g logs the initial condition, every %dth step and the final state, %d steps of dt=%g (logged times %r)" % (dtc_, " -y" if y_ else "", ev_, nt_, kk_, ev_, nt_, want_dt, tms[:4] + tms[-1:]),
                                    case=dict(k=kk_, scale_dt=y_))); break
    from mudslide.tracer import load_log as _ll
    import glob as _glob
    for out_ in ("averaged", "hack"):
        with _tf.TemporaryDirectory() as td_:
            _mm.main(["-m", "simple", "-n", "1", "-k", "10", "10", "-s", "2", "-z", "3", "-x", "-3", "-b", "50", "-t", "5", "-T", "12", "-e", "2", "-o", out_, "--log", "yaml", "--logdir", td_], file=_io.StringIO())
            mains_ = [f_ for f_ in sorted(_glob.glob(os.path.join(td_, "*.yaml"))) if "log_" not in os.path.basename(f_) and "events" not in os.path.basename(f_)]
            res.count("cli-option-plumbing/logs-on-disk")
            got_ = [[float(sn["time"]) for sn in _ll(f_)] for f_ in mains_]
            want_ = [5.0 * j for j in range(0, 13, 2)]
            if len(got_) != 2 or any(g_ != want_ for g_ in got_):
                bad.append(dict(failed="a run started from the command line with -t 5 -e 2 -T 12 -o %s --log yaml logs the initial condition, every 2nd step and the final state (times on disk %r, expected %r)" % (out_, got_[:2], want_), case=dict(output=out_))); break
    # ---- snapshot self-consistency on real models: both representations (non-diagonal Hamiltonian), coherent and mixed density matrices
    for it in range(8 if tier == "quick" else 80):
        mname, x0, p0 = [("simple", [-1.0], [12.0]), ("dual", [-2.0], [25.0]), ("super", [-2.0], [9.0]), ("vibronic", [0.1, -0.2, 0.15, 0.05, 0.4], [0.5, -0.3, 0.2, 0.1, 2.0])][it % 4]
        rep = ["diabatic", "adiabatic"][(it // 4) % 2]; cls = ["ehrenfest", "fssh", "cumulative"][it % 3] if rep == "adiabatic" else "ehrenfest"
        model = MM[mname](representation=rep); n_ = model.nstates()
        c_ = np.array([complex(rng.gauss(0, 1), rng.gauss(0, 1)) for _ in range(n_)]); c_ /= np.linalg.norm(c_)
        C_ = dict(ehrenfest=mudslide.Ehrenfest, fssh=mudslide.TrajectorySH, cumulative=mudslide.TrajectoryCum)[cls]
        tr = C_(model, x0, p0, np.outer(c_, c_.conj()), state0=rng.randrange(n_), dt=rng.choice([2.0, 5.0]), max_steps=rng.randint(5, 25), trace_every=rng.choice([1, 2, 3]), seed_sequence=rng.randrange(2 ** 31))
        log = tr.simulate()
        f = snapshot_oracle(cls, tr, log, np.array(model.mass))
        res.count("snapshot-consistency/%s/%s" % (cls, rep)); res.case(("snapcons", mname, rep, cls, it), True)
        if f: bad.append(dict(failed="every snapshot is self-consistent: " + f + " (%s on %s, %s representation, coherent density matrix)" % (cls, mname, rep), case=dict(model=mname, representation=rep, cls=cls)))
    failing, errors = run_case_check("C16", PRELUDE, "case16", "chk16", cases, per_file=120)
    res.traces_validated = len(cases) - len(failing)
    corr = [meta[i] for i in failing[:4]]
    if bad:
        res.violation("implementation violates: " + bad[0]["failed"], dict(kind="oracle", failing_inputs=bad[:4], correspondence_failures=corr))
    for e in errors:
        res.violation("model evaluation failed (coqc)", dict(kind="coqc-error", log=e, no_failing_input_found=True))
    if bad:
        pass
    elif corr:
        res.violation("implementation differs from Model/Stopping.v (theorems no longer cover the code)",
                      dict(kind="correspondence", correspondence="Run/R16.chk16: Model/Stopping.simulate vs simulate()/continue_simulating()/trace()", failing_inputs=corr, no_failing_input_found=True))
    return finish(res, thm,
                  rule="random combinations of max_steps {-1,0,1,2,5,17,40,60}, max_time {absent, multiple of dt, non-multiple, already met, within +-1e-8 of a step}, trace_every 1..7, t0, dt (dyadic and non-dyadic), "
                       "bounds {none, scalar, per-dimension}, start inside/outside, 1-3 dimensions (positions hit bounds exactly for dyadic data), 6 trajectory classes incl. AdiabaticMD and an even-sampling parent; every member of even-sampling trees whose children are spawned before the box is entered; "
                       "step index of every collected snapshot observed by wrapping tracer.collect; non-trivial = distinct configuration",
                  assumptions=["positions after each step observed by wrapping advance_position; times compared bit-exactly (same sequence of float additions)"])
