"""C17 — batch outcome statistics."""
import random, io, os, shutil, re
import numpy as np
from common import *

PRELUDE = "From MV Require Import Vec Outcome R17.\n"
SETUPS = [("simple", 2, -4.0, (8.0, 25.0), 4.5), ("dual", 2, -5.0, (15.0, 40.0), 5.5), ("extended", 2, -6.0, (4.0, 20.0), 6.5), ("super", 3, -6.0, (5.0, 15.0), 6.5)]


def run_batch(cls, mname, x0, k, bound, nsamp, rng, backend, tmpdir):
    import mudslide
    from mudslide.models import scattering_models as M
    from mudslide.batch import BatchedTraj, TrajGenConst
    from mudslide.tracer import TraceManager, InMemoryTrace, YAMLTrace
    from mudslide.even_sampling import EvenSamplingTrajectory
    model = M[mname]()
    C = dict(fssh=mudslide.TrajectorySH, cumulative=mudslide.TrajectoryCum, ehrenfest=mudslide.Ehrenfest,
             afssh=mudslide.AugmentedFSSH, es=EvenSamplingTrajectory)[cls]
    tm = TraceManager(TraceType=InMemoryTrace) if backend == "memory" else TraceManager(TraceType=YAMLTrace, trace_kwargs=dict(location=tmpdir, log_pitch=64))
    kw = dict(samples=nsamp, dt=rng.choice([10.0, 20.0]), bounds=[-bound, bound], tracemanager=tm, trace_every=rng.choice([1, 3]), max_steps=1500)
    if cls == "es":
        kw["spawn_stack"] = rng.choice([[2], [3], [2, 2]]); kw["quadrature"] = rng.choice(["gl", "midpoint", "trapezoid"]); kw["samples"] = 1
    from mudslide.batch import TrajGenNormal
    if cls != "es" and rng.random() < 0.4:
        gen = TrajGenNormal(np.array([x0]), np.array([k]), 0, sigma=rng.choice([20.0 / k, 1.0 / k, 0.7 / k]), seed=rng.randrange(2 ** 31), seed_traj=rng.randrange(2 ** 31))   # some draws are skipped
    else:
        gen = TrajGenConst([x0], [k], 0, seed=rng.randrange(2 ** 31))
    b = BatchedTraj(model, gen, C, **kw)
    try:
        r = b.compute()
    except ZeroDivisionError:
        # every draw was skipped: a batch without trajectories has no outcome table (outside the quantifier); use the constant generator
        kw["tracemanager"] = TraceManager(TraceType=InMemoryTrace) if backend == "memory" else TraceManager(TraceType=YAMLTrace, trace_kwargs=dict(location=tmpdir, log_pitch=64))
        b = BatchedTraj(model, TrajGenConst([x0], [k], 0, seed=rng.randrange(2 ** 31)), C, **kw)
        r = b.compute()
    r._requested = kw["samples"]; r._trace_every = kw["trace_every"]
    return r


def finals(results, backend, tmpdir):
    out = []
    for t in results.traces:
        last = t[-1]
        if backend == "memory":
            nh = len(t.hops)
        else:
            import yaml
            with open(os.path.join(tmpdir, t.event_log)) as f:
                evs = yaml.safe_load(f) or []
            nh = sum(1 for e in evs if e.get("event") == "hop")
        out.append((float(t.weight), int(last["active"]), bool(last["position"][0] < 0.0), nh))
    return out


def switches(t):
    """surface switches visible in the snapshots of one trace (every step logged)"""
    act = [int(s_["active"]) for s_ in t]
    return sum(1 for a, b in zip(act, act[1:]) if a != b)


def run(tier, seed):
    res = Result("C17", tier, seed)
    rng = random.Random(seed)
    thm = check_theorems("C17")
    nb = 30 if tier == "quick" else 300
    cases, meta, bad = [], [], []
    tmproot = os.path.join(OUT, "tmp", "C17"); shutil.rmtree(tmproot, ignore_errors=True); os.makedirs(tmproot)
    known_yaml_summarize = 0
    for it in range(nb):
        cls = ["fssh", "cumulative", "ehrenfest", "afssh", "es"][it % 5]
        mname, nst, x0, (klo, khi), bound = SETUPS[(it // 5) % len(SETUPS)]
        if cls == "afssh" and nst != 2:
            mname, nst, x0, (klo, khi), bound = SETUPS[0]
        backend = "yaml" if it % 4 == 3 else "memory"
        d = os.path.join(tmproot, "b%d" % it); os.makedirs(d)
        k = rng.uniform(klo, khi); nsamp = rng.randint(1, 7)
        r = run_batch(cls, mname, x0, k, bound, nsamp, rng, backend, d)
        fin = finals(r, backend, d)
        info = dict(cls=cls, model=mname, k=k, samples=nsamp, backend=backend, traces=fin)
        if r._trace_every == 1:
            sw = [switches(t) for t in r.traces]
            # a child spawned with zero weight or on the last allowed step returns at once: the hop that created it is on record but no
            # snapshot follows it (see C04/C16) - such a trailing hop is not visible as a switch
            trailing = [sum(1 for h in getattr(t, "hops", []) if float(h["time"]) >= float(t[-1]["time"])) if backend == "memory" else 0 for t in r.traces]
            sw = [a_ + b_ for a_, b_ in zip(sw, trailing)] if backend == "memory" else sw
            res.count("hop-counts-cross-checked-with-snapshots", len(sw))
            if backend == "memory" and sw != [f[3] for f in fin]:
                bad.append(dict(failed="the hop counts behind the printed histogram agree with the traces: hops recorded per trace %r, surface switches in the snapshots of the same traces %r" % ([f[3] for f in fin], sw), case=info))
        out = np.array(r.outcome()); out_attr = np.array(r.outcomes)
        cnt = np.array(r.counts())
        hist = []
        buf = io.StringIO()
        try:
            import contextlib
            with contextlib.redirect_stdout(io.StringIO()):
                r.summarize(file=buf)
            lines = buf.getvalue().splitlines()
            i0 = [i for i, l in enumerate(lines) if l.startswith("nhops")][0]
            for l in lines[i0 + 1:]:
                m = re.match(r"^\s*(\d+)\s+([0-9.eE+-]+)\s*$", l)
                if not m: break
                hist.append(float(m.group(2)))
            ntraj = int([l for l in lines if l.startswith("# of trajectories")][0].split(":")[1])
            if ntraj != len(fin):
                bad.append(dict(failed="summary reports the number of trajectories", case=info))
        except AttributeError as ex:
            if backend == "yaml" and "hops" in str(ex):
                known_yaml_summarize += 1          # known finding: summarize() needs .hops, absent on YAMLTrace
            else:
                bad.append(dict(failed="summarize raised %r" % (ex,), case=info))
        except Exception as ex:
            bad.append(dict(failed="summarize raised %r" % (ex,), case=info))
        # ---- the statement, directly
        W = sum(w for w, _, _, _ in fin)
        ref = np.zeros((nst, 2))
        for w, a, left, _ in fin:
            ref[a, 0 if left else 1] += w
        ref /= W
        if np.any(out < -1e-15) or np.any(out > 1 + 1e-12):
            bad.append(dict(failed="every entry lies in [0,1]", case=info, outcome=out.tolist()))
        if abs(out.sum() - 1.0) > 1e-12:
            bad.append(dict(failed="entries sum to one (sum=%r)" % float(out.sum()), case=info, outcome=out.tolist()))
        if np.max(np.abs(out - ref)) > 1e-12:
            bad.append(dict(failed="table equals the weight-normalised frequencies of the final states of the traces", case=info, outcome=out.tolist(), reference=ref.tolist()))
        if not np.array_equal(out, out_attr):
            bad.append(dict(failed="the outcome table stored by the batch (outcomes) equals the weight-normalised table of its traces (stored sum %r)" % float(np.sum(out_attr)), case=info))
        refc = np.zeros((nst, 2))
        for w, a, left, _ in fin:
            refc[a, 0 if left else 1] += 1.0
        if not np.array_equal(cnt, refc):
            bad.append(dict(failed="counts are the unweighted numbers of traces per final state/side", case=info, counts=cnt.tolist()))
        if hist:
            refh = [sum(w for w, _, _, h in fin if h == i) / W for i in range(max(h for _, _, _, h in fin) + 1)]
            if len(refh) != len(hist) or max(abs(a - b) for a, b in zip(refh, hist)) > 1e-11:
                bad.append(dict(failed="printed hop-count histogram equals weight fraction per hop count", case=info, printed=hist, reference=refh))
        # permutation invariance: a random shuffle, a reversal, and a swap of two traces that differ in weight and final state (new list and in place)
        perms = [rng.sample(list(r.traces), len(r.traces)), list(reversed(r.traces))]
        diff = [(i, j) for i in range(len(fin)) for j in range(i) if fin[i][0] != fin[j][0] and fin[i][1:3] != fin[j][1:3]]
        if diff:
            i, j = diff[0]; pm = list(r.traces); pm[i], pm[j] = pm[j], pm[i]; perms.append(pm); res.count("adversarial-swap")
        keep = r.traces; orig = list(keep)
        for pm in perms:
            r.traces = pm
            out2 = np.array(r.outcome()); cnt2 = np.array(r.counts()); r.traces = keep
            keep[:] = pm; out3 = np.array(r.outcome()); keep[:] = orig
            if np.max(np.abs(out2 - out)) > 1e-13 or np.max(np.abs(out3 - out)) > 1e-13 or not np.array_equal(cnt2, cnt):
                bad.append(dict(failed="table unchanged by reordering trajectories", case=info)); break
        if len(fin) != getattr(r, "_requested", len(fin)): res.count("generator-skipped-samples")
        uneq = len(set(round(w, 14) for w, _, _, _ in fin)) > 1
        res.count("class/" + cls); res.count("backend/" + backend); res.count("weights/" + ("unequal" if uneq else "equal")); res.count("ntraces", len(fin))
        res.case(("b", cls, mname, k, nsamp, backend, tuple(fin)), True, dict(info, outcome=out.tolist()))
        cases.append(tup(nat(nst), lst([tup(fl(w), nat(a), bl(l), nat(h)) for w, a, l, h in fin]), flss(out.tolist()), flss(cnt.tolist()), fls(hist)))
        meta.append(info)
        shutil.rmtree(d, ignore_errors=True)
    # ---- a batch stopped early and continued on the same traces: the table follows the traces as they are now
    import mudslide
    from mudslide.models import scattering_models as MM
    from mudslide.batch import BatchedTraj, TrajGenConst
    from mudslide.tracer import TraceManager
    for it in range(3 if tier == "quick" else 25):
        mname, nst, x0, (klo, khi), bound = SETUPS[it % len(SETUPS)]
        cls = [mudslide.TrajectorySH, mudslide.TrajectoryCum, mudslide.Ehrenfest][it % 3]
        k = rng.uniform(klo, khi); ns = rng.randint(2, 5)
        b = BatchedTraj(MM[mname](), TrajGenConst([x0], [k], 0, seed=rng.randrange(2 ** 31)), cls, samples=ns, dt=10.0, bounds=[-bound, bound], max_steps=rng.randint(3, 30), tracemanager=TraceManager())
        r = b.compute()
        early = np.array(r.outcome())
        for t in r.traces:
            cls.restart(MM[mname](), t, bounds=[-bound, bound], max_steps=3000, seed_sequence=rng.randrange(2 ** 31)).simulate()
        fin = finals(r, "memory", None)
        W = sum(w for w, _, _, _ in fin); ref = np.zeros((nst, 2)); refc = np.zeros((nst, 2))
        for w, a, left, _ in fin:
            ref[a, 0 if left else 1] += w / W; refc[a, 0 if left else 1] += 1.0
        late = np.array(r.outcome())
        res.count("continued-batches"); res.count("continued-batches/table-changed" if not np.allclose(early, late) else "continued-batches/table-same")
        res.case(("continued", mname, cls.__name__, k, ns), True)
        if np.max(np.abs(late - ref)) > 1e-12 or not np.array_equal(np.array(r.counts()), refc):
            bad.append(dict(failed="table agrees with the final snapshots and weights of the individual traces (batch stopped early, every trace continued by restart(): table %r, traces now say %r)" % (late.tolist(), ref.tolist()),
                            case=dict(model=mname, cls=cls.__name__, k=k, samples=ns)))
    # ---- several batches merged into one trace manager (different momenta, so different outcomes): the table stored by compute() is the
    #      normalised weighted frequency over every trace the manager holds
    for it in range(2 if tier == "quick" else 12):
        mname, nst, x0, (klo, khi), bound = SETUPS[it % len(SETUPS)]
        cls = [mudslide.TrajectorySH, mudslide.TrajectoryCum][it % 2]
        tmS = TraceManager(); sizes = []
        for kk, ns in [(klo, rng.randint(2, 4)), (khi, rng.randint(1, 3)), (0.5 * (klo + khi), 2)][: rng.randint(2, 3)]:
            rS = BatchedTraj(MM[mname](), TrajGenConst([x0], [kk], rng.randrange(nst) if it % 3 == 2 else 0, seed=rng.randrange(2 ** 31)), cls, samples=ns, dt=10.0, bounds=[-bound, bound], max_steps=1500, tracemanager=tmS).compute()
            sizes.append(ns)
            finS = finals(rS, "memory", None); WS = sum(w for w, _, _, _ in finS); refS = np.zeros((nst, 2))
            for w, a, left, _ in finS:
                refS[a, 0 if left else 1] += w / WS
            res.count("merged-batches/compute"); 
            if rS is not tmS or len(finS) != sum(sizes) or np.max(np.abs(np.array(rS.outcomes) - refS)) > 1e-12 or np.max(np.abs(np.array(rS.outcome()) - refS)) > 1e-12:
                bad.append(dict(failed="the stored table is the normalised weighted frequency over all traces of the manager (batches of %r trajectories merged into one manager: stored %r, traces say %r)" % (sizes, np.array(rS.outcomes).tolist(), refS.tolist()),
                                case=dict(model=mname, cls=cls.__name__, sizes=sizes))); break
        res.case(("merged", mname, cls.__name__, tuple(sizes)), True)
    shutil.rmtree(tmproot, ignore_errors=True)
    # ---- command-line driver, averaged rows
    import mudslide.__main__ as mm
    for args, nst in [(["-m", "simple", "-n", "2", "-k", "10", "20", "-s", "3", "-z", "7", "-x", "-4", "-b", "4.5"], 2),
                      (["-m", "super", "-a", "cumulative-sh", "-n", "2", "-k", "6", "12", "-s", "2", "-z", "3", "-x", "-6", "-b", "6.5"], 3)][: 1 if tier == "quick" else 2]:
        buf = io.StringIO(); mm.main(args, file=buf)
        rows = [l.split() for l in buf.getvalue().splitlines() if l and not l.startswith("#")]
        res.count("cli-rows", len(rows))
        for row in rows:
            vals = [float(x) for x in row[1:]]
            if len(vals) != 2 * nst or abs(sum(vals) - 1.0) > 2e-6 * len(vals) or any(v < 0 or v > 1 for v in vals):
                bad.append(dict(failed="averaged CLI row holds 2*nstates normalised frequencies", case=dict(args=args, row=row)))
    # a multi-momentum CLI run: each averaged row must be the table of that momentum's own batch
    args2 = ["-m", "simple", "-n", "2", "-k", "10", "20", "-s", "3", "-z", "11", "-x", "-4", "-b", "4.5"]
    buf = io.StringIO(); mm.main(args2, file=buf)
    rows2 = [l.split() for l in buf.getvalue().splitlines() if l and not l.startswith("#")]
    for kk, row in zip(("10", "20"), rows2):
        b1 = io.StringIO(); mm.main(["-m", "simple", "-n", "1", "-k", kk, kk, "-s", "3", "-z", "11", "-x", "-4", "-b", "4.5"], file=b1)
        r1 = [l.split() for l in b1.getvalue().splitlines() if l and not l.startswith("#")][0]
        res.count("cli-multi-momentum-rows")
        if [float(a) for a in row] != [float(a) for a in r1]:
            bad.append(dict(failed="each averaged CLI row is the table of that momentum's own trajectories (row %r vs single-momentum run %r)" % (row, r1), case=dict(args=args2)))
    if known_yaml_summarize:
        kf = load_known_findings("C17")
        if any(e.get("key") == "summarize-yaml-hops" for e in kf):
            res.known_finding("TraceManager.summarize() raises AttributeError ('YAMLTrace' object has no attribute 'hops') for batches traced with YAMLTrace (%d batches this run)" % known_yaml_summarize)
        else:
            bad.append(dict(failed="summarize raises AttributeError for YAML-backed batches (no .hops)", case=dict(batches=known_yaml_summarize)))
    failing, errors = run_case_check("C17", PRELUDE, "case17", "chk17", cases, per_file=100)
    for e in errors:
        res.violation("model evaluation failed (coqc)", dict(kind="coqc-error", log=e, no_failing_input_found=True))
    res.traces_validated = len(cases) - len(failing)
    corr = [meta[i] for i in failing[:4]]
    if bad:
        res.violation("implementation violates: " + bad[0]["failed"], dict(kind="oracle", failing_inputs=bad[:4], correspondence_failures=corr))
    elif corr:
        res.violation("implementation differs from Model/Outcome.v (theorems no longer cover the code)",
                      dict(kind="correspondence", correspondence="Run/R17.chk17: Model/Outcome.v vs TraceManager.outcome/counts/summarize", failing_inputs=corr, no_failing_input_found=True))
    return finish(res, thm,
                  rule="real batches (1-7 samples) of FSSH / cumulative / Ehrenfest / A-FSSH / even-sampling (unequal weights) on simple, dual, extended, super; memory and YAML back-ends; "
                       "outcome(), outcomes, counts(), summarize() text, shuffled / reversed / adversarially swapped trace lists (new list and in place), batches stopped early and continued on the same traces, hop counts cross-checked with the surface switches in the snapshots, CLI averaged rows; final (weight, active, side, hops) read from each trace; non-trivial = distinct batch",
                  assumptions=["the number of hops of a YAML trace is read from its event file"])
