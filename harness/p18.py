"""C18 — quadrature rules: Model/Quadrature.v vs mudslide.integration + exactness oracle."""
import random, math
import numpy as np
from fractions import Fraction
from common import *

PRELUDE = "From MV Require Import Vec Quadrature R18.\n"
METHODS = ["midpoint", "trapezoid", "simpson", "gl", "cc"]
DEGREE = {"midpoint": lambda n: 1, "trapezoid": lambda n: 1, "simpson": lambda n: 3,
          "gl": lambda n: 2 * n - 1, "cc": lambda n: n - 1}


def oracle_rule(meth, n, a, b, x, w):
    """Direct statement of C18 on the implementation's output. Returns list of failed clauses."""
    bad = []
    x = np.asarray(x, dtype=float); w = np.asarray(w, dtype=float)
    L = b - a
    sc = max(abs(a), abs(b), L)
    if len(x) != n or len(w) != n:
        return ["length"]
    if not np.all(np.diff(x) > 0):
        bad.append("nodes strictly increasing")
    if not (np.all(x >= a - 1e-13 * sc) and np.all(x <= b + 1e-13 * sc)):
        bad.append("nodes inside [a,b]")
    if not np.all(w > 0):
        bad.append("weights positive")
    if abs(w.sum() - L) > 1e-11 * L:
        bad.append("weights sum to b-a")
    # exactness in the shifted variable t = (x - mid)/half to keep the test well conditioned
    mid, half = 0.5 * (a + b), 0.5 * L
    t = (x - mid) / half
    deg = min(DEGREE[meth](n), 40)
    # the nodes carry an absolute rounding error ~ eps*max(|a|,|b|); in the scaled variable that is eps*max(|a|,|b|)/half
    tolk = 2e-10 + 4e-15 * max(abs(a), abs(b)) / half
    for k in range(deg + 1):
        exact = 0.0 if k % 2 else 2.0 / (k + 1)
        got = float(np.sum(w / half * t ** k))
        if abs(got - exact) > tolk * (1 + k):
            bad.append("exact for degree %d (got %.3e, want %.3e)" % (k, got, exact))
            break
    return bad


def run(tier, seed):
    from mudslide.integration import quadrature
    from mudslide.even_sampling import SpawnStack
    res = Result("C18", tier, seed)
    rng = random.Random(seed)
    thm = check_theorems("C18")
    ncase = 60 if tier == "quick" else 500
    specs = []
    for meth in METHODS:
        ns = list(range(2, 13)) + [rng.randint(13, 64) for _ in range(ncase // 10)]
        for n in ns:
            if meth == "simpson" and n % 2 == 0:
                n += 1
            ivs = [(-1.0, 1.0), (0.0, 1.0), (-2.0, 0.0), (-0.5, -0.0), (0.0, 3.0), (-0.0, 0.25)]
            for _ in range(2 if tier == "quick" else 6):
                a = rng.choice([rng.uniform(-10, 10), float(rng.randint(-5, 5)), rng.uniform(-1e3, 1e3), rng.uniform(-1e-3, 1e-3)])
                L = rng.choice([rng.uniform(0.01, 10), float(rng.randint(1, 7)), 10 ** rng.uniform(-4, 3)])
                ivs.append((a, a + L))
            for (a, b) in ivs:
                specs.append((meth, n, a, b))
    cases, meta, bad = [], [], []
    for meth, n, a, b in specs:
        try:
            x, w = quadrature(n, a, b, method=meth)
        except Exception as ex:
            bad.append(dict(method=meth, n=n, a=a, b=b, failed=["quadrature raised %r for a legal request" % (ex,)]))
            continue
        ox, ow = ([], [])
        if meth == "gl":
            ox, ow = np.polynomial.legendre.leggauss(n)
            # oracle spec: nodes increasing in (-1,1), weights>0, exact to 2n-1 on [-1,1]
            ob = oracle_rule("gl", n, -1.0, 1.0, ox, ow)
            if ob:
                res.notes.append("leggauss oracle spec failed n=%d: %s" % (n, ob))
        cases.append(tup(nat(METHODS.index(meth)), nat(n), fl(a), fl(b), fls(ox), fls(ow), fls(x), fls(w)))
        meta.append(dict(method=meth, n=n, a=a, b=b))
        res.count(meth)
        res.count("interval/" + ("default" if (a, b) == (-1.0, 1.0) else "unit" if (a, b) == (0.0, 1.0) else "general"))
        res.case((meth, n, a, b), True, dict(method=meth, n=n, a=a, b=b, points=list(x[:3]), weights=list(w[:3])))
        ob = oracle_rule(meth, n, a, b, x, w)
        if ob:
            bad.append(dict(method=meth, n=n, a=a, b=b, failed=ob, points=list(x), weights=list(w)))
    # ---- shape sweep: every n up to 200 on several intervals: exactly n nodes inside [a,b], n weights summing to b-a (cheap, implementation only)
    for meth in METHODS:
        for (a, b) in [(0.0, 1.0), (-1.0, 1.0), (0.0, 2.0), (-2.0, 3.0), (0.1, 0.7), (-5.0, -4.0)]:
            for n in range(2, 201):
                if meth == "simpson" and n % 2 == 0: continue
                x, w = quadrature(n, a, b, method=meth)
                res.count("shape-sweep/" + meth)
                if len(x) != n or len(w) != n or abs(float(np.sum(w)) - (b - a)) > 1e-11 * (b - a) * max(1.0, n / 20.0) or float(np.min(x)) < a - 1e-12 * max(1.0, abs(a)) or float(np.max(x)) > b + 1e-12 * max(1.0, abs(b)):
                    bad.append(dict(method=meth, n=n, a=a, b=b, failed=["the rule has exactly n nodes inside [a,b] and n weights summing to b-a (n=%d on [%g,%g]: %d nodes in [%r,%r], %d weights summing to %r)" % (n, a, b, len(x), float(np.min(x)), float(np.max(x)), len(w), float(np.sum(w)))])); break
    # ---- every documented alias selects the same rule as the canonical name
    for alias, canon in [("mp", "midpoint"), ("clenshaw-curtis", "cc"), ("gauss-legendre", "gl")]:
        for n in (3, 4, 7):
            xa, wa = quadrature(n, -0.5, 2.0, method=alias); xc, wc = quadrature(n, -0.5, 2.0, method=canon)
            res.count("alias/" + alias)
            if not (np.array_equal(xa, xc) and np.array_equal(wa, wc)):
                bad.append(dict(method=alias, n=n, a=-0.5, b=2.0, failed=["the method name %r selects the %s rule (nodes %r instead of %r)" % (alias, canon, list(xa), list(xc))])); break
    # simpson must reject even n
    try:
        quadrature(4, 0.0, 1.0, method="simpson")
        bad.append(dict(method="simpson", n=4, failed=["even n must be rejected"]))
    except RuntimeError:
        res.count("simpson-even-rejected")
    failing, errors = run_case_check("C18", PRELUDE, "case18", "chk18", cases, per_file=120)
    for e in errors:
        res.violation("model evaluation failed (coqc)", dict(kind="coqc-error", log=e, no_failing_input_found=True))
    res.traces_validated = len(cases) - len(failing)
    # ---- spawn stack = tensor product on [0,1]
    stacks = [[2], [3], [2, 2], [3, 2], [2, 3, 2], [4, 1 + 2], [2, 2, 2, 2]] if tier == "quick" else \
        [[rng.randint(2, 6) for _ in range(rng.randint(1, 4))] for _ in range(40)]
    for meth in METHODS:
        for ns in stacks:
            ns2 = [n + 1 if (meth == "simpson" and n % 2 == 0) else n for n in ns]
            ss = SpawnStack.from_quadrature(list(ns2), method=meth)
            pw = ss.unravel()
            rules = [quadrature(n, 0.0, 1.0, method=meth) for n in ns2]
            import itertools
            want = []
            for idx in itertools.product(*[range(n) for n in ns2]):
                pts = tuple(float(rules[d][0][i]) for d, i in enumerate(idx))
                wt = 1.0
                for d, i in enumerate(idx):
                    wt *= float(rules[d][1][i])
                want.append((pts, wt))
            ok = len(pw) == len(want) and all(
                tuple(map(float, p)) == q and abs(float(w) - v) <= 1e-14 for (p, w), (q, v) in zip(pw, want))
            tot = sum(float(w) for _, w in pw)
            res.case(("stack", meth, tuple(ns2)), True)
            res.count("stack-depth-%d" % len(ns2))
            if not ok or abs(tot - 1.0) > 1e-12:
                bad.append(dict(method=meth, stack=ns2, failed=["spawn stack is the tensor product with weights summing to one (sum=%r)" % tot]))
    # ---- callers and repeated use: the same sizes list reused for a second build; the quadrature= option of
    #      EvenSamplingTrajectory; results of one call must not be affected by what a caller did to an earlier result
    import mudslide, itertools
    from mudslide.models import scattering_models as MM
    def tensor(meth, sizes):
        rules = [quadrature(n, 0.0, 1.0, method=meth) for n in sizes]
        out = []
        for idx in itertools.product(*[range(n) for n in sizes]):
            wt = 1.0
            for d, i in enumerate(idx): wt *= float(rules[d][1][i])
            out.append((tuple(float(rules[d][0][i]) for d, i in enumerate(idx)), wt))
        return out
    def same_stack(pw, want):
        return len(pw) == len(want) and all(tuple(map(float, p_)) == q and abs(float(w_) - v) <= 1e-14 for (p_, w_), (q, v) in zip(pw, want))
    for meth in METHODS:
        for sizes in ([3, 5], [2, 3, 5], [5, 3, 3]):
            if meth == "simpson": sizes = [n_ + 1 if n_ % 2 == 0 else n_ for n_ in sizes]
            lst_ = list(sizes)
            first = SpawnStack.from_quadrature(lst_, method=meth).unravel()
            second = SpawnStack.from_quadrature(lst_, method=meth).unravel()
            res.count("stack-rebuilt-from-same-list"); res.case(("stack-reuse", meth, tuple(sizes)), True)
            if lst_ != list(sizes) or not same_stack(first, tensor(meth, sizes)) or not same_stack(second, tensor(meth, sizes)):
                bad.append(dict(method=meth, stack=sizes, failed=["a spawn stack built twice from the same sizes list is both times the tensor product in the given order (list after the calls: %r)" % (lst_,)]))
            # through the trajectory constructor (twice from one options dict, as BatchedTraj does)
            opts = dict(spawn_stack=list(sizes), quadrature=meth, dt=1.0, seed_sequence=3)
            for rep in range(2):
                tr = mudslide.EvenSamplingTrajectory(MM["simple"](), [-5.0], [10.0], 0, **opts)
                res.count("stack-via-trajectory-option/" + meth)
                if not same_stack(tr.spawn_stack.unravel(), tensor(meth, sizes)):
                    bad.append(dict(method=meth, stack=sizes, failed=["EvenSamplingTrajectory(spawn_stack=%r, quadrature=%r) samples the tensor product of that rule (construction %d from the same options)" % (sizes, meth, rep + 1)])); break
        # the default interval is [-1, 1], for the dispatcher as for each rule
        for n in (3, 5):
            xd, wd = quadrature(n, method=meth); xe, we = quadrature(n, -1.0, 1.0, method=meth); xb, wb = quadrature(n, b=2.5, method=meth); xc_, wc_ = quadrature(n, -1.0, 2.5, method=meth)
            res.count("default-interval")
            if not (np.array_equal(np.asarray(xd), np.asarray(xe)) and np.array_equal(np.asarray(wd), np.asarray(we)) and np.array_equal(np.asarray(xb), np.asarray(xc_)) and np.array_equal(np.asarray(wb), np.asarray(wc_))):
                bad.append(dict(method=meth, n=n, failed=["the default interval is [-1,1]: quadrature(%d, method=%r) has weights summing to %r" % (n, meth, float(np.sum(wd)))])); break
        # bounds given as numpy 0-d / one-element arrays that the caller keeps using
        for n in (3, 5):
            a0, b0 = np.array(1.0), np.array(3.0); a1, b1 = np.array([0.5]), np.array([2.0])
            r1 = quadrature(n, a0, b0, method=meth); r2 = quadrature(n, a0, b0, method=meth); r3 = quadrature(n, a1[0:1].reshape(()) if False else a1[0], b1[0], method=meth)
            res.count("array-bounds-reused")
            if float(a0) != 1.0 or float(b0) != 3.0 or not (np.array_equal(np.asarray(r1[0]), np.asarray(r2[0])) and np.array_equal(np.asarray(r1[1]), np.asarray(r2[1]))) or abs(float(np.sum(r2[1])) - 2.0) > 1e-13:
                bad.append(dict(method=meth, n=n, failed=["quadrature(n,a,b) depends only on its arguments and leaves them alone: bounds given as numpy 0-d arrays are now a=%r, b=%r after two calls (weights of the second call sum to %r, b-a = 2)" % (float(a0), float(b0), float(np.sum(r2[1])))])); break
        # aliasing: scale the arrays returned by one call in place, then ask again
        for n in (3, 5):
            x1, w1 = quadrature(n, 0.0, 1.0, method=meth)
            keepx, keepw = np.array(x1, copy=True), np.array(w1, copy=True)
            try:
                x1 *= 7.0; w1 *= 7.0
            except Exception:
                pass
            x2, w2 = quadrature(n, 0.0, 1.0, method=meth)
            res.count("repeat-after-inplace-edit")
            if not (np.array_equal(np.asarray(x2), keepx) and np.array_equal(np.asarray(w2), keepw)):
                bad.append(dict(method=meth, n=n, failed=["quadrature(n,a,b) depends only on its arguments: a second identical call returns the same rule after the caller rescaled the first result in place (weights now sum to %r)" % float(np.sum(w2))]))
    if bad:
        res.violation("quadrature violates: %s" % bad[0]["failed"][0],
                      dict(kind="oracle", failing_inputs=bad[:5], correspondence_failures=[meta[i] for i in failing[:5]],
                           how="PYTHONPATH=/repo python -c 'from mudslide.integration import quadrature; print(quadrature(n,a,b,method=m))'"))
    elif failing:
        res.violation("implementation differs from Model/Quadrature.v (theorems no longer cover the code)",
                      dict(kind="correspondence", correspondence="Run/R18.chk18: Model/Quadrature.v vs mudslide.integration.quadrature",
                           failing_inputs=[meta[i] for i in failing[:10]], no_failing_input_found=True))
    return finish(res, thm,
                  rule="all five rules x n in 2..12 plus random n<=64 (odd for Simpson) x intervals {[-1,1],[0,1], random a, random/integer/log-uniform lengths}; "
                       "every n up to 200 on six intervals for node count / containment / weight sum; spawn stacks of depth 1..4, built twice from the same sizes list, through the EvenSamplingTrajectory quadrature= option, and after in-place edits of an earlier result; non-trivial = distinct (rule,n,a,b) or (rule,stack)",
                  assumptions=["numpy leggauss is an oracle (its spec is checked numerically per n)",
                               "Clenshaw-Curtis: numpy ifft replaced in the model by a direct O(n^2) inverse DFT",
                               "tolerance 2^-43 * scale on nodes and weights"])
