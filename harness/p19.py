"""C19 — initial-condition generators."""
import random, math
import numpy as np
from common import *

PRELUDE = "From MV Require Import Vec Generators Rng R19.\n"


def run(tier, seed):
    from mudslide.math import boltzmann_velocities
    from mudslide.batch import TrajGenConst, TrajGenNormal, TrajGenBoltzmann
    from mudslide.constants import boltzmann
    res = Result("C19", tier, seed)
    rng = random.Random(seed)
    thm = check_theorems("C19")
    n = 120 if tier == "quick" else 2000
    bc, bmeta, nc, nmeta, kc, kmeta, bad = [], [], [], [], [], [], []
    for it in range(n):
        nd = rng.choice([1, 2, 3, 6, 9, 30]); mass = np.array([10 ** rng.uniform(2, 5) for _ in range(nd)])
        if it % 5 == 4:
            mass = np.array([rng.randint(100, 100000) for _ in range(nd)]); res.count("integer-typed-masses")       # integer arrays are legal mass vectors
        T = 10 ** rng.uniform(0, 3.5) if rng.random() < 0.7 else 10 ** rng.uniform(-5, 0); kt = boltzmann * T; sd = rng.randrange(2 ** 31); scale = rng.random() < 0.6
        # math.boltzmann_velocities
        twin = np.random.default_rng(sd)
        sig = np.sqrt(kt * mass); praw = twin.normal(0.0, sig)
        flag = rng.choice([scale, np.bool_(scale), int(scale), np.array(scale)])          # any truthy / falsy value is a legal flag
        v = boltzmann_velocities(mass, T, scale=flag, seed=sd)
        p_impl = v * mass
        info = dict(kind="boltzmann_velocities", masses=mass.tolist(), T=T, seed=sd, scale=scale)
        bc.append(tup(bl(scale), fl(kt), fls(mass), fls(praw), fls(sig), fls(p_impl), fls(v))); bmeta.append(info)
        res.count("boltzmann_velocities/" + ("scaled" if scale else "raw")); res.case(("bv", sd, scale, nd, T), True, info)
        if scale:
            ke = 0.5 * float(np.sum(p_impl ** 2 / mass)) / nd
            if abs(ke - 0.5 * kt) > 1e-12 * kt:
                bad.append(dict(failed="kinetic energy per degree of freedom is exactly kT/2 with scaling (got %r want %r)" % (ke, 0.5 * kt), case=info))
        # TrajGenBoltzmann
        ms = rng.randrange(2 ** 31); ns = rng.randint(1, 5)
        g = TrajGenBoltzmann(np.zeros(nd), mass, T, 0, scale=scale, seed=rng.randrange(2 ** 31), momentum_seed=ms)
        twin = np.random.default_rng(ms)
        keys = []
        for (x, p, st, opt) in g(ns):
            praw = twin.normal(0.0, g.sigma)
            info = dict(kind="TrajGenBoltzmann", masses=mass.tolist(), T=T, momentum_seed=ms, scale=scale)
            bc.append(tup(bl(scale), fl(kt), fls(mass), fls(praw), fls(g.sigma), fls(p), fls(np.array(p) / mass))); bmeta.append(info)
            res.count("TrajGenBoltzmann"); res.case(("tgb", ms, scale, nd, T, len(keys)), True)
            keys.append(tuple(opt["seed_sequence"].spawn_key))
            if scale:
                ke = 0.5 * float(np.sum(np.array(p) ** 2 / mass)) / nd
                if abs(ke - 0.5 * kt) > 1e-12 * kt:
                    bad.append(dict(failed="TrajGenBoltzmann: kinetic energy per degree of freedom is exactly kT/2 with scaling", case=info))
        if len(set(keys)) != len(keys) or len(keys) != ns:
            bad.append(dict(failed="every yielded sample carries its own distinct seed sequence", case=dict(keys=keys)))
        # the same generator collected into a list before use (as a caller that builds all trajectories first would)
        coll = list(TrajGenBoltzmann(np.zeros(nd), mass, T, 0, scale=scale, seed=rng.randrange(2 ** 31), momentum_seed=ms)(ns))
        ckeys = [tuple(o[3]["seed_sequence"].spawn_key) for o in coll]
        if len(set(ckeys)) != ns or len(set(id(o[3]) for o in coll)) != ns or (ns > 1 and any(o[1] is coll[0][1] for o in coll[1:])):
            bad.append(dict(failed="TrajGenBoltzmann: every yielded sample (collected before use) carries its own distinct seed sequence and its own momentum array", case=dict(keys=ckeys, nsamples=ns)))
        # TrajGenNormal
        nd2 = rng.choice([1, 1, 2]); sigma = rng.uniform(0.2, 5.0); st_ = rng.randrange(2 ** 31); ns = rng.randint(1, 12)
        sig_kind = rng.choice(["float", "float", "int", "np.int64", "np.float32"])
        if sig_kind == "int": sigma = rng.randint(1, 6)
        elif sig_kind == "np.int64": sigma = np.int64(rng.randint(1, 6))
        elif sig_kind == "np.float32": sigma = np.float32(rng.choice([0.5, 1.0, 2.0, 4.0]))
        res.count("normal-sigma-type/" + sig_kind)
        pos = np.array([rng.uniform(-5, 5) for _ in range(nd2)]); mom = np.array([rng.choice([0.3, 1.0, 5.0, 20.0, 0.0, -0.5, -3.0]) * float(sigma) ** -1 * rng.uniform(0.2, 3) for _ in range(nd2)])
        if rng.random() < 0.2:
            pos = np.round(pos).astype(int); mom = np.round(mom * 3).astype(int)      # integer-typed centres are legal input
            res.count("normal-int-centres")
        g = TrajGenNormal(pos, mom, 0, sigma, seed=rng.randrange(2 ** 31), seed_traj=st_)
        twin = np.random.default_rng(st_)
        draws = []
        for i in range(ns):
            x = twin.normal(pos, 0.5 * float(sigma)); k = twin.normal(mom, 1.0 / float(sigma)); draws.append((x, k))
        ys = [(tuple(opt["seed_sequence"].spawn_key), np.array(x), np.array(k)) for (x, k, s0, opt) in g(ns)]
        info = dict(kind="TrajGenNormal", position=pos.tolist(), momentum=mom.tolist(), sigma=float(sigma), sigma_type=sig_kind, seed_traj=st_, nsamples=ns)
        if abs(float(g.position_deviation) - 0.5 * float(sigma)) > 1e-15 * float(sigma) or abs(float(g.momentum_deviation) - 1.0 / float(sigma)) > 1e-15 / float(sigma):
            bad.append(dict(failed="the normal generator draws with standard deviations sigma/2 and 1/sigma (got %r and %r for sigma=%r of type %s)" % (float(g.position_deviation), float(g.momentum_deviation), float(sigma), sig_kind), case=info))
        if any(len(key) != 1 for key, _, _ in ys):
            bad.append(dict(failed="seed keys are children of the generator's sequence", case=info)); continue
        nc.append(tup(fl(sigma), fl(g.position_deviation), fl(g.momentum_deviation), lst([tup(fls(x), fls(k)) for x, k in draws]),
                      lst([tup(nat(key[0]), fls(x), fls(k)) for key, x, k in ys]))); nmeta.append(info)
        res.count("TrajGenNormal"); res.count("normal-rejected", ns - len(ys)); res.case(("tgn", st_, sigma, ns), True, dict(info, yielded=len(ys)))
        if any(np.any(k < 0) for _, _, k in ys):
            bad.append(dict(failed="the normal generator never yields a negative momentum", case=info))
        if len(set(k for k, _, _ in ys)) != len(ys):
            bad.append(dict(failed="distinct seed sequences", case=info))
        # TrajGenConst + seed keys
        nsamp = rng.randint(1, 9); sd = rng.randrange(2 ** 31)
        g = TrajGenConst([1.0], [2.0], 0, seed=sd)
        out1 = list(g(nsamp)); out2 = list(g(rng.randint(1, 4)))
        keys1 = [list(o[3]["seed_sequence"].spawn_key) for o in out1]; keys2 = [list(o[3]["seed_sequence"].spawn_key) for o in out2]
        if len(set(tuple(k) for k in keys1)) != nsamp or len(set(id(o[3]) for o in out1)) != nsamp:
            bad.append(dict(failed="the constant generator: every yielded sample (collected before use) carries its own distinct seed sequence (keys %r)" % (keys1,), case=dict(n=nsamp, seed=sd)))
        if len(out1) != nsamp or any(o[:3] != out1[0][:3] for o in out1):
            bad.append(dict(failed="the constant generator yields exactly the requested number of identical initial conditions", case=dict(n=nsamp)))
        kc.append(tup(lst([]), lst([nat(nsamp), nat(len(out2))]), lst([lst([lst([nat(x) for x in k]) for k in keys1]), lst([lst([nat(x) for x in k]) for k in keys2])])))
        kmeta.append(dict(kind="TrajGenConst", nsamples=[nsamp, len(out2)], keys=[keys1, keys2]))
        res.count("TrajGenConst")
    for s0 in (0, np.int64(0)):
        a_ = boltzmann_velocities(np.array([100.0, 2000.0]), 300.0, scale=False, seed=s0); b_ = boltzmann_velocities(np.array([100.0, 2000.0]), 300.0, scale=False, seed=s0)
        res.count("seed-zero")
        if not np.array_equal(a_, b_):
            bad.append(dict(failed="the Boltzmann generator is reproducible from its seed (seed %r of type %s gives different draws on repetition)" % (s0, type(s0).__name__), case=dict(seed=int(s0))))
    par_ = np.random.SeedSequence(rng.randrange(2 ** 31)); kids_ = par_.spawn(4); mass_ = np.array([100.0, 2000.0, 35.0])
    outs_ = [boltzmann_velocities(mass_, 300.0, scale=False, seed=kd) for kd in kids_]
    refs_ = [boltzmann_velocities(mass_, 300.0, scale=False, seed=np.random.default_rng(np.random.SeedSequence(par_.entropy, spawn_key=(i_,)))) for i_ in range(4)]
    res.count("seed-sequence-children-as-seeds", 4)
    if any(np.array_equal(outs_[i_], outs_[j_]) for i_ in range(4) for j_ in range(i_)) or any(not np.array_equal(a_, b_) for a_, b_ in zip(outs_, refs_)):
        bad.append(dict(failed="every sample carries its own distinct seed sequence and the Boltzmann generator draws from the stream of the seed it is given (children spawned from one parent as seeds: %d distinct results of 4, %d equal to the stream of the same child)"
                               % (len(set(tuple(o_.tolist()) for o_ in outs_)), sum(np.array_equal(a_, b_) for a_, b_ in zip(outs_, refs_))), case=dict(parent_entropy=int(par_.entropy))))
    # supporting evidence only: moments of the unscaled Boltzmann momenta
    mass = np.array([100.0, 2000.0, 5e4]); T = 300.0; kt = boltzmann * T
    P = np.array([boltzmann_velocities(mass, T, scale=False, seed=1000 + i) * mass for i in range(4000)])
    res.extra["boltzmann_moment_test"] = dict(mean_over_sigma=(P.mean(0) / np.sqrt(kt * mass)).tolist(), var_over_mkT=(P.var(0) / (kt * mass)).tolist())
    if np.any(np.abs(P.mean(0) / np.sqrt(kt * mass)) > 0.1) or np.any(np.abs(P.var(0) / (kt * mass) - 1) > 0.12):
        bad.append(dict(failed="unscaled Boltzmann momenta have zero mean and variance m kT (seeded moment test)", case=res.extra["boltzmann_moment_test"]))
    f1, e1 = run_case_check("C19b", PRELUDE, "bool * float * list float * list float * list float * list float * list float", "chk19b", bc, per_file=400)
    f2, e2 = run_case_check("C19n", PRELUDE, "float * float * float * list (list float * list float) * list (nat * list float * list float)", "chk19n", nc, per_file=300)
    f3, e3 = run_case_check("C19k", PRELUDE, "list nat * list nat * list (list (list nat))", "chk12k", kc, per_file=400)
    for e in e1 + e2 + e3:
        res.violation("model evaluation failed (coqc)", dict(kind="coqc-error", log=e, no_failing_input_found=True))
    res.traces_validated = len(bc) + len(nc) + len(kc) - len(f1) - len(f2) - len(f3)
    corr = [bmeta[i] for i in f1[:3]] + [nmeta[i] for i in f2[:3]] + [kmeta[i] for i in f3[:3]]
    if bad:
        res.violation("implementation violates: " + bad[0]["failed"], dict(kind="oracle", failing_inputs=bad[:4], correspondence_failures=corr))
    elif corr:
        res.violation("implementation differs from Model/Generators.v / Model/Rng.v (theorems no longer cover the code)",
                      dict(kind="correspondence", correspondence="Run/R19: boltz_scale/boltz_sigma/normal_gen/spawn vs mudslide.math.boltzmann_velocities and batch.TrajGen*", failing_inputs=corr, no_failing_input_found=True))
    return finish(res, thm,
                  rule="random mass vectors (1..30 dof), temperatures 1e-5..3000 K, seeds; integer- and float32-typed widths and integer centres; samples consumed one by one and collected into a list first; boltzmann_velocities and TrajGenBoltzmann (scaled and raw) with the raw normal draw taken from a twin generator; "
                       "TrajGenNormal draws replayed from a twin generator (widths, filter, order, seed keys); TrajGenConst counts and spawn keys over two successive calls; non-trivial = distinct case",
                  assumptions=["numpy Generator.normal with the same seed reproduces the implementation's raw draws (twin generator)", "normality/independence of rng.normal is numpy's contract"])
