"""C20 — Poisson scale function: correspondence with Model/Poisson.v + direct oracle."""
import math, random
import numpy as np
from common import *

PRELUDE = "From MV Require Import Cplx Poisson.\n"
RTOL = 2e-15   # ~9 ulp: 'near machine precision' is the property; model and numpy differ by pow/expm1 rounding only


def gen(rng, tier):
    n = 400 if tier == "quick" else 6000
    xs = []
    for _ in range(n):
        m = 10 ** rng.uniform(-300, 2.8) if rng.random() < 0.3 else 10 ** rng.uniform(-8, 1.5)
        xs.append(m * rng.choice([1, -1]))
    sw = 1e-3
    a = sw
    b = sw
    for _ in range(300 if tier == "quick" else 2000):
        xs += [a, b, -a, -b]
        a = float(np.nextafter(a, 0)); b = float(np.nextafter(b, 1))
    xs += [0.0, -0.0, 5e-324, 1e-308, 700.0, 30.0, -30.0, 1.0, -1.0, 41.0, -41.0, 50.0, -50.0, 100.0, -100.0, 300.0, -300.0, 650.0, -650.0]
    xs += [rng.choice([-1, 1]) * 10 ** rng.uniform(1.5, 2.8) for _ in range(40)]      # large |x| of both signs (exp(-x) negligible or huge)
    zs = []
    for _ in range(n):
        r = 10 ** rng.uniform(-12, 1.3); th = rng.uniform(0, 2 * math.pi)
        k = rng.random()
        if k < 0.4:
            z = complex(0.0, r * rng.choice([1, -1]))       # what A-FSSH passes
        elif k < 0.5:
            z = complex(r * rng.choice([1, -1]), 0.0)
        else:
            z = complex(r * math.cos(th), r * math.sin(th))
        zs.append(z)
    for d in range(-40, 41):
        zs += [complex(0.0, 1e-3 * (1 + d * 1e-15)), complex(0.0, -1e-3 * (1 + d * 1e-15))]
    # large |z| with small or negative real part (a large time step times a large gap in the A-FSSH propagator)
    for _ in range(60):
        r = 10 ** rng.uniform(1.3, 2.6)
        zs.append(rng.choice([complex(0.0, r * rng.choice([1, -1])), complex(rng.uniform(-3, 3), r * rng.choice([1, -1])), complex(-rng.uniform(0, 30), r)]))
    return xs, zs


def ref_real(x):
    if x == 0.0:
        return 1.0
    return -math.expm1(-x) / x


def run(tier, seed):
    from mudslide.math import poisson_prob_scale
    res = Result("C20", tier, seed)
    rng = random.Random(seed)
    thm = check_theorems("C20")
    xs, zs = gen(rng, tier)
    # drive the implementation: scalars and arrays mixing both regimes
    impl_scalar = [float(poisson_prob_scale(x)) if x != 0.0 else float("nan") for x in xs]
    arr = np.array(xs)
    impl_arr = poisson_prob_scale(arr)
    impl_z = [complex(poisson_prob_scale(z)) for z in zs]
    zarr = poisson_prob_scale(np.array(zs).reshape(-1, 1)).reshape(-1)
    cases, meta = [], []
    for i, x in enumerate(xs):
        if x == 0.0:
            continue  # 0/0 in the unselected np.where branch is still 1.0; checked by the oracle below
        for how, v in (("scalar", impl_scalar[i]), ("array", float(impl_arr[i]))):
            cases.append(tup("inl " + fl(x), fl(v), fl(0.0)))
            meta.append((how, x, v))
            reg = "series" if abs(x) < 1e-3 else "closed"
            res.count("real/" + reg + "/" + how)
            res.case(("r", x, how), True, dict(x=x, impl=v, kind=how))
    for i, z in enumerate(zs):
        for how, v in (("scalar", impl_z[i]), ("array", complex(zarr[i]))):
            cases.append(tup("inr " + cx(z), fl(v.real), fl(v.imag)))
            meta.append((how, z, v))
            reg = "series" if abs(z) < 1e-3 else "closed"
            res.count("complex/" + reg + "/" + how)
            res.case(("c", z.real, z.imag, how), True, dict(z=[z.real, z.imag], impl=[v.real, v.imag], kind=how))
    checker = ("fun c => match c with\n"
               " | (inl x, re, _) => fclose 0 %s (pps FOps x) re\n"
               " | (inr z, re, im) => let w := cpps FOps z in let sc := cabs FOps w in\n"
               "     (abs (fst w - re) <=? %s * sc) && (abs (snd w - im) <=? %s * sc) end"
               % (fl(RTOL), fl(RTOL), fl(RTOL)))
    failing, errors = run_case_check("C20", PRELUDE, "(float + float * float) * float * float", checker, cases, per_file=1500)
    for e in errors:
        res.violation("model evaluation failed (coqc)", dict(kind="coqc-error", log=e, no_failing_input_found=True))
    res.traces_validated = len(cases) - len(failing)
    # ---- direct oracle on the implementation (also the counterexample search)
    bad = []
    for i, x in enumerate(xs):
        v = float(impl_arr[i])
        r = ref_real(x)
        if not (abs(v - r) <= 6 * np.spacing(abs(r))):
            bad.append(dict(x=x, impl=v, exact=r, ulps=abs(v - r) / np.spacing(abs(r)), clause="accuracy"))
        if x >= 0 and not (0.0 < v <= 1.0):
            bad.append(dict(x=x, impl=v, clause="range (0,1]"))
    pos = sorted(set(abs(x) for x in xs))
    vals = [float(poisson_prob_scale(np.array([x]))[0]) for x in pos]
    for (x0, v0), (x1, v1) in zip(zip(pos, vals), zip(pos[1:], vals[1:])):
        if v1 > v0 + 4 * np.spacing(v0):   # monotone up to rounding of the quotient (measured <= 1 ulp)
            bad.append(dict(x=[x0, x1], impl=[v0, v1], clause="monotone decreasing on x>=0"))
    if float(poisson_prob_scale(0.0)) != 1.0 or float(poisson_prob_scale(np.array([0.0, 1.0]))[0]) != 1.0:
        bad.append(dict(x=0.0, impl=float(poisson_prob_scale(0.0)), clause="value 1 at 0"))
    for z, v in zip(zs, impl_z):
        # reference for complex: series with 12 terms for small |z|, closed form in extended steps otherwise
        if abs(z) < 0.5:
            r = sum((-z) ** k / math.factorial(k + 1) for k in range(0, 25))
        else:
            r = -(np.expm1(-np.clongdouble(z))) / np.clongdouble(z)
            r = complex(r)
        if not abs(v - r) <= 1e-14 * abs(r):
            bad.append(dict(z=[z.real, z.imag], impl=[v.real, v.imag], exact=[r.real, r.imag], clause="complex accuracy"))
    # ---- multi-dimensional arguments in every memory layout (C order, Fortran order, transposed and strided views)
    base2 = np.array([[1e-5, 0.5, 3.0], [2.0, 1e-4, 40.0]])
    for label, arr2 in [("C", base2), ("F", np.asfortranarray(base2)), ("transposed", base2.T), ("strided", np.tile(base2, (1, 2))[:, ::2]), ("3-d permuted", np.transpose(np.stack([base2, 2 * base2]), (2, 0, 1)))]:
        got2 = np.asarray(poisson_prob_scale(arr2)); want2 = np.vectorize(ref_real)(np.asarray(arr2))
        res.count("layout/" + label)
        if got2.shape != np.asarray(arr2).shape or not np.allclose(got2, want2, rtol=1e-14, atol=0):
            bad.append(dict(x=np.asarray(arr2).tolist(), impl=got2.tolist(), clause="accuracy for arrays of every memory layout (%s: got %r)" % (label, got2.tolist())))
    # ---- integer- and bool-typed real arguments (python int, every numpy integer width, integer arrays)
    nint = 0
    for ty in (int, np.int8, np.int16, np.int32, np.int64, np.uint8, np.uint16, np.uint32, np.uint64, bool):
        for xi in ([0, 1] if ty is bool else [0, 1, 2, 3, 7, 30, 100]):
            for how in ("scalar", "array"):
                arg = ty(xi) if how == "scalar" else np.array([0, xi, 1], dtype=(np.bool_ if ty is bool else ty if ty is not int else np.int64))
                try:
                    v = float(np.asarray(poisson_prob_scale(arg)).reshape(-1)[0 if how == "scalar" else 1])
                except Exception as ex:
                    v = float("nan")
                r = ref_real(float(xi)); nint += 1
                res.count("integer-typed/" + ty.__name__)
                if not (abs(v - r) <= 6 * np.spacing(abs(r))) or not (0.0 < v <= 1.0):
                    bad.append(dict(x=xi, type=ty.__name__, form=how, impl=v, exact=r, clause="accuracy for integer-typed real arguments (%s(%d), %s: got %r want %r)" % (ty.__name__, xi, how, v, r)))
    # ---- the callers: total Poisson hop probability of TrajectorySH.hopper is 1 - exp(-G) with unchanged ratios (any number of open channels)
    import mudslide
    from stubs import StubModel
    for it in range(60 if tier == "quick" else 1500):
        n = rng.choice([2, 3, 4, 8]); k = rng.randrange(n)
        g = np.array([10 ** rng.uniform(-14, 0.3) if rng.random() < 0.7 else 0.0 for _ in range(n)]); g[k] = 0.0
        if rng.random() < 0.3: g *= 10 ** rng.uniform(-12, -6)
        G = float(np.sum(g))
        if G == 0.0: continue
        tr = mudslide.TrajectorySH(StubModel([1.0], n), [0.0], [1.0], k, dt=1.0, zeta_list=[2.0], hopping_probability="poisson", seed_sequence=1)
        tr.hopper(g.copy())
        tot = float(tr.hopping); want = -math.expm1(-G)
        res.count("caller/poisson-hopper/open-channels=%d" % int(np.count_nonzero(g)))
        if abs(tot - want) > 16 * np.spacing(want):
            bad.append(dict(rates=g.tolist(), impl_total=tot, exact=want, clause="Poisson hop probabilities (TrajectorySH.hopper) total 1-exp(-G): scale (1-exp(-G))/G applied to the rates (got %r want %r, G=%r)" % (tot, want, G)))
    res.extra["oracle_checks"] = len(xs) * 2 + len(pos) + len(zs) + nint
    if failing or bad:
        fi = [dict(kind=meta[i][0], arg=meta[i][1], impl=meta[i][2]) for i in failing[:10]]
        if bad:
            res.violation("poisson_prob_scale violates: " + bad[0]["clause"],
                          dict(kind="oracle", failing_inputs=bad[:10], correspondence_failures=fi,
                               how="PYTHONPATH=/repo python -c 'from mudslide.math import poisson_prob_scale as p; print(p(<x>))'"))
        else:
            res.violation("implementation differs from Model/Poisson.v (theorems no longer cover the code)",
                          dict(kind="correspondence", correspondence="Model/Poisson.v pps/cpps vs mudslide.math.poisson_prob_scale",
                               failing_inputs=fi, no_failing_input_found=True))
    return finish(res, thm,
                  rule="real x: log-uniform |x| in [1e-300,600] both signs, the 300 (quick)/2000 (thorough) doubles each side of the 1e-3 switch, specials; "
                       "complex z: imaginary axis (what A-FSSH passes), real axis, random phase, |z| log-uniform 1e-12..20; every x evaluated as scalar and inside a mixed array; integer- and bool-typed arguments of every numpy width (scalar and array); the Poisson branch of TrajectorySH.hopper with 1..7 open channels and totals 1e-20..2; "
                       "non-trivial = distinct (argument, calling form)",
                  assumptions=["FloatFun expm1/sin/cos within 1 ulp of libm (measured)", "tolerance 2e-15 relative (real), 2e-15*|pps| (complex components)"])
