"""A-FSSH collapse: gamma_collapse formula and the collapse loop of surface_hopping against Model/Afssh.v
(gamma_collapse, collapse_scan): random moments and force matrices, stream position observed with a twin generator."""
import random
import numpy as np
from common import *
from stubs import *

PRELUDE_G = "From MV Require Import Vec Cplx Mat Afssh R11.\n"


def herm(rng, n, scale):
    A = np.array([[complex(rng.gauss(0, 1), rng.gauss(0, 1)) for _ in range(n)] for _ in range(n)]) * scale
    return 0.5 * (A + A.conj().T)


def collect(res, rng, ncase, bad):
    import mudslide
    gcases, gmeta, scases, smeta = [], [], [], []
    for it in range(ncase):
        n = rng.choice([2, 2, 3, 4]); ndim = rng.choice([1, 2, 3]); k = rng.randrange(n)
        mass = [10 ** rng.uniform(0, 4) for _ in range(ndim)]
        H = np.diag(sorted(rng.uniform(-0.1, 0.1) for _ in range(n)))
        F = np.array([[rng.gauss(0, 1e-2) for _ in range(ndim)] for _ in range(n)])
        FM = np.zeros((n, n, ndim))
        for x_ in range(ndim):
            A_ = np.array([[rng.gauss(0, 1e-2) for _ in range(n)] for _ in range(n)]); FM[:, :, x_] = 0.5 * (A_ + A_.T)
            for i_ in range(n): FM[i_, i_, x_] = F[i_, x_]
        elec = StubElec(H, rand_antisym_dc(rng, n, ndim), F, FM)
        sd = rng.randrange(2 ** 31)
        tr = mudslide.AugmentedFSSH(StubModel(mass, n, [elec]), [0.0] * ndim, [1.0] * ndim, k, dt=rng.choice([0.5, 1.0, 4.0]), seed_sequence=sd, electronics=elec)
        sc = 10 ** rng.uniform(-3, 1)
        tr.delR = np.array([herm(rng, n, sc) for _ in range(ndim)]); tr.delP = np.array([herm(rng, n, sc * 3) for _ in range(ndim)])
        if it % 5 == 0:
            j = (k + 1) % n; tr.delP[0, j, j] = tr.delP[0, k, k]            # exactly equal diagonal momenta: the 1e-10 replacement
        if it % 5 == 1:
            j = (k + 1) % n; tr.delP[0, j, j] = tr.delP[0, k, k] + rng.choice([-1, 1]) * 10 ** rng.uniform(-16, -11)      # tiny but non-zero: not replaced
        if it % 7 == 0:
            j = (k + 1) % n; tr.delR[:, j, j] = tr.delR[:, k, k]            # zero position difference: sign(0) = 0
        g = np.array(tr.gamma_collapse(elec))
        info = dict(n=n, ndim=ndim, active=k, dt=tr.dt)
        fm = elec.force_matrix()
        gcases.append(tup(nat(n), flss([np.real(np.diag(tr.delR[x])) for x in range(ndim)]), flss([np.real(np.diag(tr.delP[x])) for x in range(ndim)]),
                          flss([[fm[i, i, x] for x in range(ndim)] for i in range(n)]), nat(k), fl(tr.dt), fls(g)))
        gmeta.append(dict(info, gamma=g.tolist()))
        res.count("gamma/nstates=%d" % n); res.case(("gamma", n, ndim, k, it), True)
        if g[k] != 0.0:
            bad.append(dict(failed="the collapse rate of the active state onto itself is zero (got %r)" % float(g[k]), case=info))
        # ---- the collapse loop: one uniform per non-active state; collapse iff some e_i < gamma_i
        twin = np.random.default_rng(np.random.SeedSequence(sd)); us = twin.random(n + 3).tolist()
        want_coll = n == 2 and rng.random() < 0.5
        gam = [0.0] * n
        idx = 0
        for i in range(n):
            if i == k: continue
            e = us[idx]; idx += 1
            gam[i] = (e + rng.uniform(0.05, 0.5) * (1 - e)) if want_coll else rng.choice([e * rng.uniform(0.0, 0.95), 0.0, -rng.random(), e * 0.5])
        tr.gamma_collapse = lambda el, gam=gam: np.array(gam)
        tr.zeta_list = [1.0e9]; tr.rho = herm(rng, n, 1.0); tr.rho /= np.trace(tr.rho).real
        rho_b, dR_b, dP_b = tr.rho.copy(), tr.delR.copy(), tr.delP.copy()
        nev0 = len(tr.tracer.events.get("collapse", []))
        try:
            tr.surface_hopping(elec, elec)
        except Exception as ex:
            bad.append(dict(failed="surface_hopping raised %r in the collapse loop" % (ex,), case=info)); continue
        collapsed = len(tr.tracer.events.get("collapse", [])) > nev0
        nxt = float(tr.random_state.random()); used = us.index(nxt) if nxt in us else -1
        scases.append(tup(fls(gam), nat(k), fls(us), bl(collapsed), nat(max(used, 0)))); smeta.append(dict(info, gamma=gam, uniforms=us[:n], collapsed=collapsed, used=used))
        res.count("collapse-loop/" + ("collapsed" if collapsed else "kept"))
        if used != n - 1:
            bad.append(dict(failed="the collapse loop draws one uniform number per non-active state from the trajectory's stream (%d drawn for %d states)" % (used, n), case=info))
        if collapsed != want_coll:
            bad.append(dict(failed="a collapse happens exactly when a drawn number is below the collapse rate of its state (rates %r, numbers %r, collapsed %r)" % (gam, us[:n - 1], collapsed), case=info))
        if collapsed:
            want = np.zeros((n, n), dtype=complex); want[k, k] = 1.0
            if not (np.array_equal(tr.rho, want) and np.all(tr.delR == 0) and np.all(tr.delP == 0)):
                bad.append(dict(failed="after a collapse the moments are zero and the density matrix is the pure active state", case=info))
        elif not (np.array_equal(tr.rho, rho_b) and np.array_equal(tr.delR, dR_b) and np.array_equal(tr.delP, dP_b)):
            bad.append(dict(failed="without a collapse the density matrix and the moments are left as they were", case=info))
    return gcases, gmeta, scases, smeta
