"""Whole passes of the loop body of real EvenSamplingTrajectory runs (non-empty spawn stack) -> caseS (Run/RTraj.chkES, Model/Traj.step_es):
parent before/after (state, accumulated probability, stack index, weight) and the children put on the queue during the pass."""
import queue as _q
import numpy as np
from common import *
from ptraj import elec_lit
from p10 import node_lit

ES_SETUPS = [("simple", [-2.0], (8.0, 16.0)), ("dual", [-3.0], (14.0, 30.0)), ("extended", [-3.0], (5.0, 12.0)), ("super", [-3.0], (6.0, 12.0)), ("subotnik2d", [-3.0, 0.4], "2d")]


def collect_es(res, rng, nruns, max_cases):
    import mudslide, sys, copy
    from mudslide.models import scattering_models as M
    from mudslide.even_sampling import EvenSamplingTrajectory
    S_ = sys.modules['mudslide.models.scattering_models']
    cases, meta = [], []
    for it in range(nruns):
        mname, x0, kr = ES_SETUPS[it % len(ES_SETUPS)]
        model = S_.Subotnik2D(mass=[2000.0, 700.0]) if mname == "subotnik2d" else M[mname]()
        n = model.nstates(); nd = model.ndim()
        p0 = [rng.uniform(20.0, 40.0), rng.uniform(-9.0, 9.0)] if kr == "2d" else [rng.uniform(*kr)]
        dt = rng.choice([10.0, 20.0, 40.0]) if nd == 1 else 12.0
        ss = rng.choice([[2], [3], [5], [2, 2], [3, 2], [8], [12]]); meth = rng.choice(["gl", "midpoint", "trapezoid", "cc"]); mcs = rng.choice([1, 1, 2, 3])
        Q = _q.Queue()
        tr = EvenSamplingTrajectory(model, x0, p0, rng.randrange(n) if rng.random() < 0.3 else 0, dt=dt, t0=rng.choice([0.0, 250.0, -37.5]), max_steps=rng.randint(40, 90), spawn_stack=list(ss), quadrature=meth, mcsamples=mcs,
                                    queue=Q, seed_sequence=rng.randrange(2 ** 31))
        rec, steps = {}, []
        ap, pe, cs = tr.advance_position, tr.propagate_electronics, tr.continue_simulating
        def advance_position(le, te):
            rec.clear()
            rec.update(before=(tr.position.copy(), tr.velocity.copy(), tr.rho.copy(), int(tr.state), float(tr.time)), e0=te,
                       es=(float(tr.prob_cum), int(tr.spawn_stack.izeta), copy.deepcopy(tr.spawn_stack.sample_stack), float(tr.spawn_stack.base_weight)), q0=Q.qsize())
            ap(le, te)
        def propagate_electronics(le, te, dt_):
            W = tr.hamiltonian_propagator(le, te); lam, Cm = np.linalg.eigh(W)
            rec.update(e1=te, W=W, lam=lam, C=Cm)
            pe(le, te, dt_)
        def continue_simulating():
            out = cs()
            if "e1" in rec and "before" in rec:
                rec["after"] = (tr.position.copy(), tr.velocity.copy(), tr.rho.copy(), int(tr.state), float(tr.time))
                rec["es1"] = (float(tr.prob_cum), int(tr.spawn_stack.izeta), float(tr.weight))
                kids = list(Q.queue)[rec["q0"]:]
                rec["kids"] = [((k.position.copy(), k.velocity.copy(), int(k.state), float(k.time)), float(k.spawn_stack.base_weight), len(k.spawn_stack.sample_stack or [])) for k in kids]
                steps.append(dict(rec)); rec.clear()
            return out
        tr.advance_position, tr.propagate_electronics, tr.continue_simulating = advance_position, propagate_electronics, continue_simulating
        tr.simulate()
        spawnsteps = [i for i, s_ in enumerate(steps) if s_["kids"]]
        picks = sorted(set([0] + rng.sample(range(len(steps)), min(len(steps), 3)) + spawnsteps[:6])) if steps else []
        for i in picks:
            s_ = steps[i]
            (x, v, rho, a, t), (x1, v1, rho1, a1, t1) = s_["before"], s_["after"]
            pc, iz, st, base = s_["es"]; pc1, iz1, w1 = s_["es1"]
            # knife edge: the accumulated probability close to a threshold of the stack
            if any(abs(pc1 - nd_["zeta"]) < 1e-9 for nd_ in st):
                res.knife_edge += 1; continue
            cases.append(tup(nat(n), fls(model.mass), fl(dt), elec_lit(s_["e0"], n, nd), elec_lit(s_["e1"], n, nd), fls(s_["lam"]), cxss(s_["C"]),
                             tup(fls(x), fls(v), cxss(rho), nat(a), fl(t)), tup(fl(pc), nat(iz), lst([node_lit(q_) for q_ in st]), fl(base)),
                             tup(fls(x1), fls(v1), cxss(rho1), nat(a1), fl(t1)), tup(fl(pc1), nat(iz1), fl(w1)),
                             lst([tup(tup(fls(kx), fls(kv), nat(ka), fl(kt)), fl(kw), nat(kn)) for (kx, kv, ka, kt), kw, kn in s_["kids"]])))
            meta.append(dict(model=mname, step=i, dt=dt, stack=ss, quadrature=meth, mcsamples=mcs, children=len(s_["kids"]), thresholds_crossed=iz1 - iz))
            res.count("fullstep-es/" + ("spawn" if s_["kids"] else "no-spawn")); res.count("fullstep-es-model/" + mname); res.count("fullstep-es/children", len(s_["kids"]))
            if iz1 - iz > 1: res.count("fullstep-es/several-thresholds-in-one-pass")
            if any(int(k_[0][2]) == a for k_ in s_["kids"]): res.count("fullstep-es/frustrated-child")
            res.case(("fullstep-es", mname, it, i), True)
            if len(cases) >= max_cases:
                return cases, meta
    return cases, meta
