"""N whole passes of the loop of AdiabaticMD.simulate on random HarmonicModels -> caseM (Run/RMD.chkM, Model/MD.md_harm_run).
No oracle data: the force is the model's own function of the position.  Also the statement of Proof/MDP on the implementation:
for one degree of freedom the shadow energy is constant along the logged run and the energy error obeys the N-independent bound."""
import numpy as np
from common import *

PRELUDE_M = "From MV Require Import Vec Hop Models MD R02 RMD.\n"


def collect(res, rng, nruns, bad):
    import mudslide
    from mudslide.models import HarmonicModel
    cases, meta = [], []
    for it in range(nruns):
        nd = [1, 1, 2, 3, 4][it % 5]
        A = np.array([[rng.gauss(0, 0.02) for _ in range(nd)] for _ in range(nd)]); H0 = 0.5 * (A + A.T) + np.diag([rng.uniform(0.2, 0.6) for _ in range(nd)])
        x0 = [rng.uniform(-1, 1) for _ in range(nd)]; E0 = rng.uniform(-1, 1); mass = [10 ** rng.uniform(0, 3.3) for _ in range(nd)]
        hm = HarmonicModel(x0, E0, H0, mass)
        wmax = float(np.sqrt(np.max(np.linalg.eigvalsh(H0 / np.sqrt(np.outer(mass, mass))))))
        dt = rng.choice([0.05, 0.2, 0.7, 1.3]) / wmax          # stable steps (omega dt < 2), coarse ones included
        N = rng.choice([1, 2, 7, 40, 150]); t0 = rng.choice([0.0, 0.0, 37.5, -12.25])
        X = [x0[d] + rng.uniform(-2, 2) for d in range(nd)]; P = [rng.gauss(0, 1) * np.sqrt(mass[d]) * 0.3 for d in range(nd)]
        tr = mudslide.AdiabaticMD(hm, X, P, dt=dt, t0=t0, max_steps=N, trace_every=rng.choice([1, 1, 3]))
        log = tr.simulate(); last = log[-1]
        v0 = (np.array(P) / np.array(mass)).tolist(); v1 = (np.array(last["momentum"]) / np.array(mass)).tolist()
        cases.append(tup(fls(x0), fl(E0), flss(H0), fls(mass), fl(dt), nat(N), tup(fls(X), fls(v0), fl(t0)),
                         tup(fls(last["position"]), fls(v1), fl(last["time"]), fl(last["energy"]))))
        meta.append(dict(kind="md whole run", ndim=nd, passes=N, dt=dt, omega_dt=dt * wmax))
        res.count("md-run/ndim-%d" % nd); res.count("md-run/passes", N); res.case(("mdrun", nd, N, it), True)
        if nd == 1 and tr.trace_every == 1:
            k = float(H0[0, 0]); mu = mass[0]; al = k * dt * dt / (4 * mu)
            sh = [E0 + 0.5 * (s["momentum"][0] ** 2) / mu + 0.5 * k * (s["position"][0] - x0[0]) ** 2 * (1 - al) for s in log]
            en = [s["energy"] for s in log]; exc = en[0] - E0
            res.count("md-run/shadow-energy-oracle")
            if max(abs(s_ - sh[0]) for s_ in sh) > 1e-11 * max(1.0, abs(sh[0])):
                bad.append(dict(failed="single-surface MD on a harmonic surface conserves the shadow energy E0 + p^2/2m + k (x-c)^2 (1 - k dt^2/4m)/2 exactly (varies by %.3g over %d steps)" % (max(abs(s_ - sh[0]) for s_ in sh), N), case=meta[-1]))
            elif max(abs(e_ - en[0]) for e_ in en) > al / (1 - al) * exc * (1 + 1e-9) + 1e-13:
                bad.append(dict(failed="the error of the total energy of harmonic MD stays below alpha/(1-alpha) times the initial excess energy for any number of steps (alpha=%.3g: error %.3g, bound %.3g)" % (al, max(abs(e_ - en[0]) for e_ in en), al / (1 - al) * exc), case=meta[-1]))
    from mudslide.models import HarmonicModel as _HM
    hm2 = _HM([0.25, -0.5], 0.0, [[0.5, 0.0625], [0.0625, 0.75]], [100.0, 200.0])
    for label, X_, P_ in [("float32", np.array([1.5, -2.25], dtype=np.float32), np.array([3.0, 0.5], dtype=np.float32)), ("int list", [2, -1], [3, 1]), ("int array", np.array([2, -1]), np.array([3, 1]))]:
        res.count("md-run/initial-condition-dtype")
        try:
            la_ = mudslide.AdiabaticMD(hm2, X_, P_, dt=0.3, max_steps=25).simulate()[-1]
            lb_ = mudslide.AdiabaticMD(hm2, np.asarray(X_, dtype=np.float64), np.asarray(P_, dtype=np.float64), dt=0.3, max_steps=25).simulate()[-1]
            same_ = np.array_equal(np.asarray(la_["position"]), np.asarray(lb_["position"])) and np.array_equal(np.asarray(la_["momentum"]), np.asarray(lb_["momentum"])) and la_["energy"] == lb_["energy"]
            why_ = "" if same_ else "final position %r vs %r" % (la_["position"], lb_["position"])
        except Exception as ex:
            same_ = False; why_ = "%s: %s" % (type(ex).__name__, ex)
        if not same_:
            bad.append(dict(failed="single-surface MD started from %s initial conditions is the run started from the same numbers in double precision (%s)" % (label, why_), case=dict(kind=label)))
    return cases, meta
