"""Full-step replay: every pass of the loop body of TrajectorySH.simulate ('exp' integrator) of real runs is
replayed through Model/Traj.step (wiring of Verlet, propagation, hopping in the order the code uses them)."""
import random
import numpy as np
from common import *

PRELUDE_T = "From MV Require Import Vec Cplx Mat Hop Hopper Propagate Traj R02 RTraj.\n"
SETUPS = [("simple", [-2.0], (6.0, 14.0)), ("dual", [-3.0], (12.0, 30.0)), ("extended", [-3.0], (4.0, 12.0)), ("super", [-3.0], (5.0, 12.0)),
          ("modelx", [-8.5], (8.0, 14.0)), ("vibronic", [0.1, -0.2, 0.15, 0.05, 0.3], None), ("modelw", [-0.6], (15.0, 30.0))]


def elec_lit(e, n, nd):
    H = np.array(e.hamiltonian()); tau = np.array(e.derivative_coupling_tensor()); F = np.array(e._force)
    return tup(flss(H), lst([lst([fls(tau[i, j]) for j in range(n)]) for i in range(n)]), flss(F))


def collect(res, rng, nruns, max_cases):
    import mudslide
    from mudslide.models import scattering_models as M
    cases, meta = [], []
    for it in range(nruns):
        mname, x0, kr = SETUPS[it % len(SETUPS)]
        model = M[mname](); n = model.nstates(); nd = model.ndim()
        p0 = [rng.uniform(*kr)] if kr else [0.5, -0.3, 0.2, 0.1, 1.0]
        pois = rng.random() < 0.4
        dt = rng.choice([5.0, 10.0, 20.0]) if nd == 1 else 2.0
        nsteps = rng.randint(25, 60)
        zl = [rng.choice([2.0, 2.0, rng.random() * 0.05, 10 ** rng.uniform(-6, -2), rng.random()]) for _ in range(nsteps + 5)]
        tr = mudslide.TrajectorySH(model, x0, p0, rng.randrange(n) if rng.random() < 0.4 else 0, dt=dt, max_steps=nsteps, zeta_list=list(zl),
                                   hopping_probability="poisson" if pois else "tully", seed_sequence=rng.randrange(2 ** 31))
        rec = {}
        steps = []
        ap, pe, cs = tr.advance_position, tr.propagate_electronics, tr.continue_simulating
        def advance_position(le, te):
            rec.clear()
            rec.update(before=(tr.position.copy(), tr.velocity.copy(), tr.rho.copy(), int(tr.state), float(tr.time)), e0=te,
                       zeta=tr.zeta_list[0] if tr.zeta_list else None)
            ap(le, te)
        def propagate_electronics(le, te, dt_):
            W = tr.hamiltonian_propagator(le, te); lam, Cm = np.linalg.eigh(W)
            rec.update(e1=te, W=W, lam=lam, C=Cm)
            pe(le, te, dt_)
        def continue_simulating():
            out = cs()
            if "e1" in rec and rec.get("zeta") is not None:
                rec["after"] = (tr.position.copy(), tr.velocity.copy(), tr.rho.copy(), int(tr.state), float(tr.time), float(tr.hopping))
                steps.append(dict(rec)); rec.clear()
            return out
        tr.advance_position, tr.propagate_electronics, tr.continue_simulating = advance_position, propagate_electronics, continue_simulating
        log = tr.simulate()
        picks = sorted(rng.sample(range(len(steps)), min(len(steps), 6)))
        hopsteps = [i for i, s_ in enumerate(steps) if s_["before"][3] != s_["after"][3]]
        picks = sorted(set(picks + hopsteps[:3]))
        for i in picks:
            s_ = steps[i]
            (x, v, rho, a, t), (x1, v1, rho1, a1, t1, hop) = s_["before"], s_["after"]
            # knife-edge guard on the threshold: distance of zeta to the partition boundaries of the implementation's own probabilities
            g = 2.0 * np.imag(rho1[a, :] * s_["W"][:, a]) * dt / np.real(rho1[a, a]); g[a] = 0.0; g = np.maximum(g, 0.0)
            cs_ = np.cumsum(g)
            if cs_[-1] > 0 and np.min(np.abs(cs_ - s_["zeta"])) < 1e-9 * max(cs_[-1], 1e-30):
                res.knife_edge += 1; continue
            cases.append(tup(nat(n), fls(model.mass), fl(dt), bl(pois), fl(s_["zeta"]), elec_lit(s_["e0"], n, nd), elec_lit(s_["e1"], n, nd),
                             fls(s_["lam"]), cxss(s_["C"]), tup(fls(x), fls(v), cxss(rho), nat(a), fl(t)),
                             tup(fls(x1), fls(v1), cxss(rho1), nat(a1), fl(t1), fl(hop))))
            meta.append(dict(model=mname, step=i, dt=dt, poisson=pois, zeta=s_["zeta"], hopped=bool(a != a1)))
            res.count("fullstep/" + ("hop" if a != a1 else "no-hop")); res.count("fullstep-model/" + mname)
            res.case(("fullstep", mname, it, i), True)
            if len(cases) >= max_cases:
                return cases, meta
    return cases, meta
