"""Full-step replay: every pass of the loop body of TrajectorySH.simulate ('exp' integrator) of real runs is
replayed through Model/Traj.step (wiring of Verlet, propagation, hopping in the order the code uses them)."""
import random
import numpy as np
from common import *

PRELUDE_T = "From MV Require Import Vec Cplx Mat Hop Hopper Propagate Traj Cumulative Afssh R02 RTraj.\n"
SETUPS = [("simple", [-2.0], (6.0, 14.0)), ("dual", [-3.0], (12.0, 30.0)), ("extended", [-3.0], (4.0, 12.0)), ("super", [-3.0], (5.0, 12.0)),
          ("modelx", [-8.5], (8.0, 14.0)), ("vibronic", [0.1, -0.2, 0.15, 0.05, 0.3], None), ("modelw", [-0.6], (15.0, 30.0)),
          ("subotnik2d", [-3.0, 0.4], "2d")]     # two nuclear dimensions with frequent hops: the coupling direction at the hop point matters


def elec_lit(e, n, nd):
    H = np.array(e.hamiltonian()); tau = np.array(e.derivative_coupling_tensor()); F = np.array(e._force)
    return tup(flss(H), lst([lst([fls(tau[i, j]) for j in range(n)]) for i in range(n)]), flss(F))


def collect(res, rng, nruns, max_cases, kind="sh", integ="exp"):
    """kind: 'sh' TrajectorySH -> caseT; 'eh' Ehrenfest -> caseE; 'cum' TrajectoryCum -> caseC.
    integ 'rk4' (kind 'sh' only): electronic_integration='linear-rk4', the eigh answer recorded is that of the previous Hamiltonian (caseT for chkTr)"""
    import mudslide, copy, sys
    from mudslide.models import scattering_models as M
    cases, meta = [], []
    for it in range(nruns):
        mname, x0, kr = SETUPS[it % len(SETUPS)]
        model = sys.modules['mudslide.models.scattering_models'].Subotnik2D(mass=[2000.0, 700.0]) if mname == "subotnik2d" else M[mname]()
        n = model.nstates(); nd = model.ndim()
        p0 = [rng.uniform(10.0, 40.0), rng.uniform(-9.0, 9.0)] if kr == "2d" else [rng.uniform(*kr)] if kr else [0.5, -0.3, 0.2, 0.1, 1.0]
        if kr == "2d": x0 = [rng.uniform(-3.0, -1.5), rng.uniform(-1.0, 2.0)]
        pois = rng.random() < 0.4
        dt = rng.choice([5.0, 10.0, 20.0]) if nd == 1 else 12.0 if kr == "2d" else 2.0
        nsteps = rng.randint(25, 60)
        zl = [rng.choice([2.0, 2.0, rng.random() * 0.05, 10 ** rng.uniform(-6, -2), rng.random()]) for _ in range(nsteps + 5)]
        if kr == "2d":
            zl = [rng.choice([1e-9, 1e-9, 2.0]) for _ in range(nsteps + 5)]      # an attempt in most passes
        if kind == "cum":
            pois = False
            zl = [rng.choice([rng.random() * 0.02, rng.random() * 0.002, rng.random() * 0.3]) * (0.02 if integ == "rk4" else 1.0) for _ in range(rng.choice([1, 30, 30]))]      # rk4 runs use small steps: small thresholds so that attempts happen
        cls = dict(sh=mudslide.TrajectorySH, eh=mudslide.Ehrenfest, cum=mudslide.TrajectoryCum)[kind]
        kw = dict(hopping_probability="poisson" if pois else "tully") if kind == "sh" else {}
        if integ == "rk4":
            kw["electronic_integration"] = "linear-rk4"; dt = rng.choice([0.5, 1.0, 2.0, 0.7, 1.3, 2.4]) if nd == 1 else rng.choice([1.0, 0.9])
        if kind == "cum" and rng.random() < 0.5:
            kw = dict(kw, hopping_probability="poisson")       # the option belongs to plain FSSH; the cumulative class accumulates the unscaled rates either way
        a0 = rng.randrange(n) if rng.random() < 0.4 else 0
        tr = cls(model, x0, p0, a0, dt=dt, max_steps=nsteps, zeta_list=list(zl), seed_sequence=rng.randrange(2 ** 31), **kw)
        if kind == "eh" and (it % 3 != 2):
            # a coherent superposition so that the population-weighted force differs from any single-state force; sometimes a genuinely mixed state
            c = np.array([complex(rng.gauss(0, 1), rng.gauss(0, 1)) for _ in range(n)]); c /= np.linalg.norm(c)
            tr.rho = np.outer(c, c.conj())
            if it % 3 == 0:
                A = np.array([[complex(rng.gauss(0, 1), rng.gauss(0, 1)) for _ in range(n)] for _ in range(n)]); r_ = A @ A.conj().T
                tr.rho = r_ / np.trace(r_).real; res.count("fullstep-ehrenfest/mixed-initial")
        rec = {}
        steps = []
        ap, pe, cs = tr.advance_position, tr.propagate_electronics, tr.continue_simulating
        def advance_position(le, te):
            rec.clear()
            rec.update(before=(tr.position.copy(), tr.velocity.copy(), tr.rho.copy(), int(tr.state), float(tr.time)), e0=te,
                       zeta=(tr.zeta_list[0] if tr.zeta_list else None) if kind == "sh" else 0.0)
            if kind == "cum":
                rec.update(cum=(float(tr.prob_cum), float(tr.zeta), list(tr.zeta_list), copy.deepcopy(tr.random_state).random(3).tolist()))
            ap(le, te)
        def propagate_electronics(le, te, dt_):
            W = tr.hamiltonian_propagator(le, te); lam, Cm = np.linalg.eigh(W)
            if integ == "rk4":
                lam, Cr = np.linalg.eigh(le.hamiltonian()); Cm = Cr.astype(complex)
            rec.update(e1=te, W=W, lam=lam, C=Cm)
            pe(le, te, dt_)
        def continue_simulating():
            out = cs()
            if "e1" in rec and "before" in rec and rec.get("zeta") is not None:
                rec["after"] = (tr.position.copy(), tr.velocity.copy(), tr.rho.copy(), int(tr.state), float(tr.time), float(tr.hopping))
                if kind == "cum":
                    rec["cum_after"] = (float(tr.prob_cum), float(tr.zeta), list(tr.zeta_list))
                steps.append(dict(rec)); rec.clear()
            return out
        tr.advance_position, tr.propagate_electronics, tr.continue_simulating = advance_position, propagate_electronics, continue_simulating
        log = tr.simulate()
        picks = sorted(set([0] + rng.sample(range(len(steps)), min(len(steps), 6)))) if steps else []
        hopsteps = [i for i, s_ in enumerate(steps) if s_["before"][3] != s_["after"][3]]
        if kind == "cum":
            hopsteps += [i for i, s_ in enumerate(steps) if s_["cum"][1] != s_["cum_after"][1]][:4]
        picks = sorted(set(picks + hopsteps[:5] + [h_ + 1 for h_ in hopsteps[:3] if h_ + 1 < len(steps)]))      # also the pass right after a hop (its previous velocity is the rescaled one)
        for i in picks:
            s_ = steps[i]
            (x, v, rho, a, t), (x1, v1, rho1, a1, t1, hop) = s_["before"], s_["after"]
            # knife-edge guard on the threshold: distance of zeta to the partition boundaries of the implementation's own probabilities
            g = 2.0 * np.imag(rho1[a, :] * s_["W"][:, a]) * dt / np.real(rho1[a, a]); g[a] = 0.0; g = np.maximum(g, 0.0)
            cs_ = np.cumsum(g)
            common_ = [nat(n), fls(model.mass), fl(dt)]
            els = [elec_lit(s_["e0"], n, nd), elec_lit(s_["e1"], n, nd), fls(s_["lam"]), cxss(s_["C"]), tup(fls(x), fls(v), cxss(rho), nat(a), fl(t))]
            if kind == "sh":
                if cs_[-1] > 0 and np.min(np.abs(cs_ - s_["zeta"])) < 1e-9 * max(cs_[-1], 1e-30):
                    res.knife_edge += 1; continue
                cases.append(tup(*(common_ + [bl(pois), fl(s_["zeta"])] + els + [tup(fls(x1), fls(v1), cxss(rho1), nat(a1), fl(t1), fl(hop))])))
            elif kind == "eh":
                cases.append(tup(*(common_ + els + [tup(fls(x1), fls(v1), cxss(rho1), nat(a1), fl(t1))])))
            else:
                pc, zc, zlc, st = s_["cum"]; pc1, zc1, zlc1 = s_["cum_after"]
                G = float(np.sum(g)); accn = pc + (pc - 1.0) * np.expm1(-G)
                # oracle on the real run: the accumulation uses the per-step total rate G of this pass (whatever hopping_probability says)
                if abs(accn - zc) > 1e-9 and ((accn > zc) != (zc1 != zc or pc1 == 0.0 and pc != 0.0) or (accn <= zc and abs(pc1 - accn) > 1e-12)):
                    if not hasattr(res, "oracle_bad"): res.oracle_bad = []
                    res.oracle_bad.append(dict(failed="cumulative run: accumulated probability after a pass is 1-(1-acc)exp(-G) with G the total rate of the pass, attempt iff it exceeds the threshold (before %r, G=%r, expected %r, threshold %r, after %r, options %r)"
                                                      % (pc, G, accn, zc, pc1, kw), case=dict(model=mname, step=i, dt=dt)))
                if abs(accn - zc) < 1e-9 * max(abs(zc), 1e-30):
                    res.knife_edge += 1; continue
                if accn > zc and G > 0:
                    cdf = np.cumsum(g / G); cdf /= cdf[-1]
                    if np.min(np.abs(cdf - st[0])) < 1e-9:
                        res.knife_edge += 1; continue
                cases.append(tup(*(common_ + els + [tup(fl(pc), fl(zc), fls(zlc), fls(st)),
                                                    tup(fls(x1), fls(v1), cxss(rho1), nat(a1), fl(t1), fl(hop)), tup(fl(pc1), fl(zc1), fls(zlc1))])))
            meta.append(dict(model=mname, step=i, dt=dt, poisson=pois, zeta=s_["zeta"], hopped=bool(a != a1)))
            tag = dict(sh="fullstep", eh="fullstep-ehrenfest", cum="fullstep-cumulative")[kind] + ("-rk4" if integ == "rk4" else "")
            res.count(tag + "/" + ("hop" if a != a1 else "no-hop")); res.count(tag + "-model/" + mname)
            if kind == "cum" and s_["cum"][1] != s_["cum_after"][1]:
                res.count(tag + "/attempt")
            res.case((tag, mname, it, i), True)
            if len(cases) >= max_cases:
                return cases, meta
    return cases, meta


# ---------------------------------------------------------------- A-FSSH passes (Model/Traj.step_af, Run/RTraj.chkA)
AF_SETUPS = [("simple", [-2.0], (6.0, 14.0), 5.0), ("dual", [-3.0], (12.0, 30.0), 5.0), ("extended", [-3.0], (4.0, 12.0), 5.0), ("subotnik2d", [-3.0, 0.4], None, 4.0)]


def collect_af(res, rng, nruns, max_cases, aug="exp"):
    import mudslide, copy, sys
    from mudslide.models import scattering_models as M
    S_ = sys.modules['mudslide.models.scattering_models']
    cases, meta = [], []
    for it in range(nruns):
        mname, x0, kr, dt = AF_SETUPS[it % len(AF_SETUPS)]
        model = S_.Subotnik2D() if mname == "subotnik2d" else M[mname]()
        n = model.nstates(); nd = model.ndim()
        p0 = [rng.uniform(*kr)] if kr else [rng.uniform(10.0, 16.0), rng.uniform(-2.0, 2.0)]
        nsteps = rng.randint(25, 60); pois = rng.random() < 0.3
        zl = [rng.choice([2.0, 2.0, rng.random() * 0.05, 10 ** rng.uniform(-6, -2), rng.random()]) for _ in range(nsteps + 5)]
        tr = mudslide.AugmentedFSSH(model, x0, p0, rng.randrange(n) if rng.random() < 0.4 else 0, dt=dt, max_steps=nsteps, zeta_list=list(zl),
                                    hopping_probability="poisson" if pois else "tully", seed_sequence=rng.randrange(2 ** 31), augmented_integration=aug)
        rec, steps = {}, []
        ap, pe, cs, gc = tr.advance_position, tr.propagate_electronics, tr.continue_simulating, tr.gamma_collapse
        def advance_position(le, te):
            rec.clear()
            Wp = tr.hamiltonian_propagator(le, te); epsR, coR = np.linalg.eigh(Wp)
            rec.update(before=(tr.position.copy(), tr.velocity.copy(), tr.rho.copy(), int(tr.state), float(tr.time)), lastv=tr.last_velocity.copy(),
                       dR=tr.delR.copy(), dP=tr.delP.copy(), eprev=(le if le is not None else te), e0=te, epsR=epsR, coR=coR,
                       zeta=tr.zeta_list[0] if tr.zeta_list else None, etas=copy.deepcopy(tr.random_state).random(n + 1).tolist(),
                       ncoll=len(tr.tracer.events.get("collapse", [])))
            ap(le, te)
        def propagate_electronics(le, te, dt_):
            W = tr.hamiltonian_propagator(le, te); lam, Cm = np.linalg.eigh(W)
            rec.update(e1=te, W=W, lam=lam, C=Cm, fm1=np.array(te.force_matrix()).copy())
            pe(le, te, dt_)
        def gamma_collapse(el):
            g = gc(el); rec["gamma"] = np.array(g).copy(); return g
        def continue_simulating():
            out = cs()
            if "e1" in rec and "before" in rec and rec.get("zeta") is not None:
                rec["after"] = (tr.position.copy(), tr.velocity.copy(), tr.rho.copy(), int(tr.state), float(tr.time))
                rec["dR1"], rec["dP1"] = tr.delR.copy(), tr.delP.copy()
                rec["coll"] = len(tr.tracer.events.get("collapse", [])) > rec["ncoll"]
                steps.append(dict(rec)); rec.clear()
            return out
        tr.advance_position, tr.propagate_electronics, tr.continue_simulating, tr.gamma_collapse = advance_position, propagate_electronics, continue_simulating, gamma_collapse
        reentry = None
        try:
            if it % 2 == 1:
                # stopped half way and entered again on the same object (as a clone or a continued run does)
                tr.duration["max_steps"] = nsteps // 2; tr.simulate(); reentry = len(steps)
                tr.duration["max_steps"] = nsteps; tr.restarting = True
            tr.simulate()
        except AssertionError:
            pass
        hopsteps = [i for i, s_ in enumerate(steps) if s_["before"][3] != s_["after"][3]]
        collsteps = [i for i, s_ in enumerate(steps) if s_["coll"]]
        # the pass right after an accepted hop and right after a collapse is always sampled: delR is then advanced with the propagator of a
        # pass whose velocity was rescaled (or whose moments were reset) in between
        picks = sorted(set([0, 1] + rng.sample(range(len(steps)), min(len(steps), 5)) + hopsteps[:3] + [h_ + 1 for h_ in hopsteps[:3]] + collsteps[:2] + [c_ + 1 for c_ in collsteps[:2]]
                           + ([reentry, reentry + 1] if reentry else []))) if steps else []
        if reentry and reentry < len(steps): res.count("fullstep-afssh/first-pass-after-re-entry")
        for i in picks:
            if i >= len(steps): continue
            s_ = steps[i]
            (x, v, rho, a, t), (x1, v1, rho1, a1, t1) = s_["before"], s_["after"]
            g = 2.0 * np.imag(np.conj(0) + 0)  # placeholder to keep names local
            rho_p = s_["C"] @ np.diag(np.exp(-1j * s_["lam"] * dt)) @ s_["C"].conj().T @ rho @ s_["C"] @ np.diag(np.exp(1j * s_["lam"] * dt)) @ s_["C"].conj().T
            gk = 2.0 * np.imag(rho_p[a, :] * s_["W"][:, a]) * dt / np.real(rho_p[a, a]); gk[a] = 0.0; gk = np.maximum(gk, 0.0)
            cs_ = np.cumsum(gk)
            if cs_[-1] > 0 and np.min(np.abs(cs_ - s_["zeta"])) < 1e-9 * max(cs_[-1], 1e-30):
                res.knife_edge += 1; continue
            gam = s_.get("gamma")
            if gam is not None:
                es = [e for j, e in zip([j for j in range(n) if j != a1], s_["etas"])]
                if any(abs(e - gam[j]) < 1e-9 for j, e in zip([j for j in range(n) if j != a1], es)):
                    res.knife_edge += 1; continue
            el = lambda e: elec_lit(e, n, nd)
            cases.append(tup(nat(n), fls(model.mass), fl(dt), bl(pois), fl(s_["zeta"]), el(s_["eprev"]), el(s_["e0"]), el(s_["e1"]),
                             lst([flss(s_["fm1"][:, :, xd]) for xd in range(nd)]), tup(fls(s_["epsR"]), cxss(s_["coR"])), tup(fls(s_["lam"]), cxss(s_["C"])), fls(s_["etas"]),
                             tup(tup(fls(x), fls(v), cxss(rho), nat(a), fl(t)), fls(s_["lastv"]), lst([cxss(s_["dR"][xd]) for xd in range(nd)]), lst([cxss(s_["dP"][xd]) for xd in range(nd)])),
                             tup(tup(fls(x1), fls(v1), cxss(rho1), nat(a1), fl(t1)), lst([cxss(s_["dR1"][xd]) for xd in range(nd)]), lst([cxss(s_["dP1"][xd]) for xd in range(nd)]), bl(s_["coll"]))))
            meta.append(dict(model=mname, step=i, dt=dt, poisson=pois, zeta=s_["zeta"], hopped=bool(a != a1), collapsed=bool(s_["coll"])))
            tagA = "fullstep-afssh" + ("" if aug == "exp" else "-rk4")
            res.count(tagA + "/" + ("hop" if a != a1 else "no-hop")); res.count(tagA + "-model/" + mname)
            if s_["coll"]: res.count(tagA + "/collapse")
            res.case((tagA, mname, it, i), True)
            if len(cases) >= max_cases:
                return cases, meta
    return cases, meta
