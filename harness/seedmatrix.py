"""Run many (patch, checks) pairs in parallel, each in its own scratch copy with its own out/evidence dirs.
usage: seedmatrix.py <file with lines: patch.diff C01,C02,...> [workers]"""
import sys, subprocess
from concurrent.futures import ThreadPoolExecutor
lines = [l.split() for l in open(sys.argv[1]) if l.strip() and not l.startswith("#")]
workers = int(sys.argv[2]) if len(sys.argv) > 2 else 5
def one(l):
    r = subprocess.run(["/venv/bin/python", "/verif/harness/seedquick.py", l[0], l[1]], stdout=subprocess.PIPE, stderr=subprocess.STDOUT, text=True)
    return l[0].split("/")[-2] + " " + r.stdout
with ThreadPoolExecutor(max_workers=workers) as ex:
    for out in ex.map(one, lines):
        print(out, flush=True)
