"""Apply one patch to a scratch copy of /repo and run the named checks against it (no demo, no test-suite).
usage: seedquick.py <patch.diff> C01[,C04...] [--tier quick]"""
import sys, os, subprocess, shutil, hashlib
patch, checks = sys.argv[1], sys.argv[2].split(",")
tier = sys.argv[sys.argv.index("--tier") + 1] if "--tier" in sys.argv else "quick"
cp = "/tmp/seedq_" + hashlib.sha1((patch + sys.argv[2]).encode()).hexdigest()[:10]
shutil.rmtree(cp, ignore_errors=True)
subprocess.run("rsync -a --exclude .git /repo/ %s/" % cp, shell=True, check=True)
try:
    r = subprocess.run("cd %s && patch -p1 < %s" % (cp, patch), shell=True, stdout=subprocess.PIPE, stderr=subprocess.STDOUT, text=True)
    if r.returncode != 0:
        print("patch failed", r.stdout[-300:]); sys.exit(2)
    for c in checks:
        r = subprocess.run("cd /verif && VERIF_OUT=%s/_vout VERIF_EVIDENCE=%s/_vevid VERIF_NPROC=4 MUDSLIDE_SRC=%s ./check %s --tier %s" % (cp, cp, cp, c, tier), shell=True, stdout=subprocess.PIPE, stderr=subprocess.STDOUT, text=True)
        v = [l[:330] for l in r.stdout.splitlines() if l.startswith("VIOLATION")]
        print(os.path.basename(os.path.dirname(patch)), c, "rc=%d" % r.returncode, v[0] if v else "-- no violation --", flush=True)
finally:
    shutil.rmtree(cp, ignore_errors=True)
