"""Markdown table of the seeded changes of one batch (from seeded/<pid>_<tag>mK/meta.json)."""
import sys, json, glob, os, re
tag = sys.argv[1] if len(sys.argv) > 1 else "b3"
first = {}
if len(sys.argv) > 2:          # file with lines "Cxx mK caught|missed" for the first-run state
    for l in open(sys.argv[2]):
        p = l.split()
        if len(p) >= 3: first[(p[0], p[1])] = p[2]
print("| change | what was changed (agent's words, shortened) | first run | caught by |")
print("|---|---|---|---|")
for d in sorted(glob.glob("/verif/seeded/*_%sm*" % tag)):
    pid, m = os.path.basename(d).split("_"); m = m[len(tag):]
    meta = json.load(open(os.path.join(d, "meta.json")))
    s = re.sub(r"\s+", " ", meta.get("summary", "")).replace("|", "/")
    if len(s) > 150: s = s[:147] + "..."
    ch = meta.get("confirmed_by_main", {}).get("checks", {})
    by = [c for c, v in ch.items() if v.get("rc") == 1 and v.get("violation")]
    weak = [c for c in by if "no-failing-input-found" in (ch[c].get("violation") or "")]
    txt = ", ".join(c + (" (correspondence only)" if c in weak else "") for c in by) or "**not caught**"
    print("| %s %s | %s | %s | %s |" % (pid, m, s, first.get((pid, m), ""), txt))
