"""Confirm a sub-agent's mutation myself and run the checks against it.
usage: seedtest.py <pid> <srcdir-with-m*/> [--checks C01,C04] [--tag b3]
For each m*/patch.diff: demo on clean /repo (must PASS), apply to /repo, demo (must FAIL),
full test-suite (must pass), ./check <pid> (expect VIOLATION), undo.  Records seeded/<pid>_<m>/."""
import sys, os, subprocess, json, shutil, glob, time
V = "/verif"

def sh(cmd, **kw):
    p = subprocess.run(cmd, shell=True, stdout=subprocess.PIPE, stderr=subprocess.STDOUT, text=True, **kw)
    return p.returncode, p.stdout

def main():
    """runs in a scratch copy of /repo (outside /repo and /verif), removed afterwards"""
    pid, src = sys.argv[1], sys.argv[2]
    checks = [pid]
    if "--checks" in sys.argv:
        checks = sys.argv[sys.argv.index("--checks") + 1].split(",")
    tag = sys.argv[sys.argv.index("--tag") + 1] if "--tag" in sys.argv else ""
    for md in sorted(glob.glob(os.path.join(src, "m*"))):
        name = os.path.basename(md)
        patch, demo = os.path.join(md, "patch.diff"), os.path.join(md, "demo.py")
        if not (os.path.exists(patch) and os.path.exists(demo)):
            continue
        cp = "/tmp/seedcopy_%s_%s%s" % (pid, tag, name)
        shutil.rmtree(cp, ignore_errors=True)
        sh("rsync -a --exclude .git /repo/ %s/" % cp)
        env = "PYTHONPATH=%s PYTHONHASHSEED=0 OMP_NUM_THREADS=1 OPENBLAS_NUM_THREADS=1 MKL_NUM_THREADS=1" % cp
        rec = dict(mutation=name, property=pid)
        try:
            rc0, out0 = sh("cd %s && %s timeout 900 /venv/bin/python %s" % (cp, env, demo))
            rec["demo_clean"] = "PASS" if rc0 == 0 else "FAIL(rc=%d)" % rc0
            rca, outa = sh("cd %s && patch -p1 < %s" % (cp, patch))
            if rca != 0:
                rec["apply"] = "failed: " + outa[-300:]
                print(json.dumps(rec)); continue
            rc1, out1 = sh("cd %s && %s timeout 900 /venv/bin/python %s" % (cp, env, demo))
            rec["demo_mutated"] = "FAIL" if rc1 != 0 else "PASS(!)"
            rct, outt = sh("cd %s && %s /venv/bin/python -m pytest -q -p no:cacheprovider --timeout=900 2>&1 | tail -1" % (cp, env))
            rec["suite"] = outt.strip()
            rec["checks"] = {}
            for c in checks:
                t = time.time()
                rcc, outc = sh("cd /verif && VERIF_OUT=%s/_vout VERIF_EVIDENCE=%s/_vevid VERIF_NPROC=4 MUDSLIDE_SRC=%s ./check %s --tier quick" % (cp, cp, cp, c))
                vl = [l for l in outc.splitlines() if l.startswith("VIOLATION")]
                rec["checks"][c] = dict(rc=rcc, violation=(vl[0][:300] if vl else None), secs=round(time.time() - t, 1))
        finally:
            shutil.rmtree(cp, ignore_errors=True)
        caught = any(v["rc"] == 1 and v["violation"] for v in rec["checks"].values())
        rec["caught"] = caught
        valid = rc0 == 0 and rc1 != 0 and "34 passed" in rec["suite"]
        rec["valid"] = valid
        print(json.dumps(rec), flush=True)
        if valid:
            dst = os.path.join(V, "seeded", "%s_%s%s" % (pid, tag, name)); os.makedirs(dst, exist_ok=True)
            shutil.copy(patch, dst); shutil.copy(demo, dst)
            meta = {}
            try: meta = json.load(open(os.path.join(md, "meta.json")))
            except Exception: pass
            meta["confirmed_by_main"] = dict(demo_clean=rec["demo_clean"], demo_mutated=rec["demo_mutated"], suite=rec["suite"],
                                             checks=rec["checks"], caught=caught,
                                             ran="harness/seedtest.py %s %s (scratch copy of /repo + patch; demo clean/mutated; pytest; MUDSLIDE_SRC=<copy> ./check)" % (pid, src))
            json.dump(meta, open(os.path.join(dst, "meta.json"), "w"), indent=1)

main()
