"""Stub model / electronics objects used to drive single methods of the real trajectory classes."""
import numpy as np


class StubElec:
    def __init__(self, H, dc, F, FM=None):
        self._hamiltonian = np.array(H, dtype=float)
        self._derivative_coupling = np.array(dc, dtype=float)
        self._force = np.array(F, dtype=float)
        nst = self._hamiltonian.shape[0]
        self._force_matrix = np.array(FM, dtype=float) if FM is not None else np.zeros((nst, nst, self._force.shape[1]))
        self._reference = None
        self.energies = np.diag(self._hamiltonian).copy()

    def nstates(self): return self._hamiltonian.shape[0]
    def ndim(self): return self._force.shape[1]
    def hamiltonian(self): return self._hamiltonian
    def derivative_coupling(self, i, j): return self._derivative_coupling[i, j, :]
    def derivative_coupling_tensor(self): return self._derivative_coupling
    def force(self, state=0): return self._force[state, :]
    def force_matrix(self): return self._force_matrix
    def NAC_matrix(self, velocity): return np.einsum("ijk,k->ij", self._derivative_coupling, velocity)
    def as_dict(self): return {"hamiltonian": self._hamiltonian.tolist()}


class StubModel:
    def __init__(self, mass, nst, elecs=None):
        self.mass = np.array(mass, dtype=float)
        self._nst = nst
        self.elecs = list(elecs) if elecs else []
        self.calls = 0

    def ndim(self): return len(self.mass)
    def nstates(self): return self._nst

    def update(self, x, electronics=None):
        e = self.elecs[min(self.calls, len(self.elecs) - 1)]
        self.calls += 1
        return e


def rand_antisym_dc(rng, nst, ndim, scale=1.0):
    dc = np.zeros((nst, nst, ndim))
    for i in range(nst):
        for j in range(i):
            v = np.array([rng.gauss(0, scale) for _ in range(ndim)])
            dc[i, j] = v
            dc[j, i] = -v
    return dc
