"""Compile every Thm/Cxx.v once, in parallel, caching the Print Assumptions logs."""
import os, glob
from concurrent.futures import ThreadPoolExecutor
import common
pids = sorted(os.path.basename(p)[:-2] for p in glob.glob(os.path.join(common.COQDIR, "theories", "Thm", "C*.v")))
with ThreadPoolExecutor(max_workers=8) as ex:
    for pid, r in zip(pids, ex.map(common.check_theorems, pids)):
        print(pid, "theorems", r["discharged"], "/", r["obligations"], "ok" if r["ok"] else "BROKEN")
