#!/bin/bash
# Build the Coq development from scratch (full .vo build), refuse forbidden
# constructs, warm the Print-Assumptions logs used by the checks.
set -e
cd "$(dirname "$0")"
if grep -rnE '\b(Admitted|admit|Axiom|Parameter|Conjecture|Unset Guard|bypass_check|Admit Obligations)\b' coq/theories --include='*.v' | grep -v '^\S*:[0-9]*:\s*(\*' ; then
  echo "forbidden construct in the Coq development"; exit 1
fi
cd coq
coq_makefile -f _CoqProject -o Makefile > /dev/null
timeout 3000 make -j16 > ../out_build.log 2>&1 || { tail -50 ../out_build.log; exit 1; }
cd ..
mkdir -p out evidence
mv out_build.log out/build.log
export PYTHONPATH=/repo:/verif/harness PYTHONHASHSEED=0
/venv/bin/python -W ignore harness/warm.py 2>&1 | grep -v condarc
echo "setup done"
