#!/bin/bash
# Build the Coq development from scratch (full .vo build), refuse forbidden
# constructs, warm the Print-Assumptions logs used by the checks.
set -e
cd "$(dirname "$0")"
if grep -rnE '\b(Admitted|admit|Axiom|Parameter|Conjecture|Unset Guard|bypass_check|Admit Obligations)\b' coq/theories --include='*.v' | grep -v '^\S*:[0-9]*:\s*(\*' ; then
  echo "forbidden construct in the Coq development"; exit 1
fi
cd coq
coq_makefile -f _CoqProject -o Makefile > /dev/null
timeout 3000 make -j16 > ../out_build.log 2>&1 || { tail -50 ../out_build.log; exit 1; }
cd ..
mkdir -p out evidence
mv out_build.log out/build.log
python3 harness/depcheck.py || exit 1
# independent re-check of the compiled theorem files (and everything they depend on) with coqchk.
# The four modules whose proofs go through Interval (C03, C09, C11, C20 via Proof/PoissonP.v) are re-checked with the
# *installed* Interval and Coquelicot libraries admitted (coqchk -admit: loaded, not re-checked): re-checking those libraries'
# own vm_compute certificates with coqchk's evaluator did not finish in 3.9 h.  Everything under theories/ is re-checked.
CHK="MV.Thm.C01 MV.Thm.C02 MV.Thm.C04 MV.Thm.C05 MV.Thm.C06 MV.Thm.C07 MV.Thm.C08 MV.Thm.C10 MV.Thm.C12 MV.Thm.C13 MV.Thm.C14 MV.Thm.C15 MV.Thm.C16 MV.Thm.C17 MV.Thm.C18 MV.Thm.C19"
( cd coq && timeout 20000 coqchk -silent -o -Q theories MV $CHK > ../out/coqchk.log 2>&1 ) || { tail -30 out/coqchk.log; echo "coqchk failed"; exit 1; }
( cd coq && timeout 20000 coqchk -silent -o -admit Interval.Tactic -admit Coquelicot.Coquelicot -Q theories MV MV.Thm.C03 MV.Thm.C09 MV.Thm.C11 MV.Thm.C20 > ../out/coqchk_interval.log 2>&1 ) || { tail -30 out/coqchk_interval.log; echo "coqchk (interval modules) failed"; exit 1; }
grep -A8 "^\* Axioms" out/coqchk.log | head -12
export PYTHONPATH=/repo:/verif/harness PYTHONHASHSEED=0
/venv/bin/python -W ignore harness/warm.py 2>&1 | grep -v condarc
echo "setup done"
